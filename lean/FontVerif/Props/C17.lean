/-
C17 — subsetting preserves everything about the glyphs and characters it keeps.
Property theorems only (helper lemmas live in Lemmas/Subset.lean).
Model: Model/Subset.lean ⇄ klippa/src/{lib.rs (Plan::new: populate_unicodes_to_retain,
populate_gids_to_retain, glyf_closure_glyphs, create_old_gid_to_new_gid_map), glyf_loca.rs, hmtx.rs, maxp.rs}.
-/
import FontVerif.Model.Subset
import FontVerif.Lemmas.Subset
set_option linter.unusedVariables false
namespace FontVerif.C17
open FontVerif FontVerif.Subset

/-! ## glyph closure -/

/-- **closure_contains_root.** One call of `glyf_closure_glyphs` retains its root glyph and never
removes a glyph, for every component graph (cyclic ones included), every remaining depth and every
operation budget (exhausted ones included). -/
theorem closure_contains_root (comps : List (List Nat)) (rem gid : Nat) (set : List Nat) (ops : Int) :
    gid ∈ (closureGo comps rem gid (set, ops)).1 ∧
    ∀ x ∈ set, x ∈ (closureGo comps rem gid (set, ops)).1 :=
  ⟨closureGo_root comps rem gid (set, ops), fun x hx => closureGo_mono comps rem gid (set, ops) x hx⟩

/-- **closure_nothing_unreachable.** Whatever `glyf_closure_glyphs` adds is the root or a transitive
component of the root. -/
theorem closure_nothing_unreachable (comps : List (List Nat)) (rem gid : Nat) (set : List Nat) (ops : Int)
    (x : Nat) (hx : x ∈ (closureGo comps rem gid (set, ops)).1) : x ∈ set ∨ Reach comps gid x :=
  closureGo_sound comps rem gid (set, ops) x hx

/-- **plan_glyphset_contains_requested.** The plan's glyph set contains `.notdef`, every requested
glyph id that exists in the font, and the glyph of every requested character (for a character map
with one entry per codepoint). -/
theorem plan_glyphset_contains_requested (p : PlanIn) (pl : Plan) (h : makePlan p = some pl)
    (hc : (p.cmap.map (·.1)).Pairwise (· ≠ ·)) :
    (0 < p.num → 0 ∈ pl.glyphset) ∧
    (∀ g ∈ p.gids, g < p.num → g ∈ pl.glyphset) ∧
    (∀ cp g, (cp, g) ∈ p.cmap → cp ∈ p.unicodes → g < p.num → g ∈ pl.glyphset) := by
  obtain ⟨_, _, hgs, _⟩ := makePlan_some p pl h
  rw [hgs]
  have key : ∀ g, g ∈ planGsub p → g ∈ planGlyphset p := fun g hg =>
    planColred_sub_glyphset p g (planGsub_sub_colred p g hg)
  refine ⟨fun h0 => key 0 ((mem_planGsub p 0).mpr ⟨h0, Or.inl rfl⟩), ?_, ?_⟩
  · intro g hg hlt
    exact key g ((mem_planGsub p g).mpr ⟨hlt, Or.inr (Or.inl (unicodesToRetain_gids p g hg hlt))⟩)
  · intro cp g hm hcp hlt
    exact key g ((mem_planGsub p g).mpr
      ⟨hlt, Or.inr (Or.inr (Or.inl ⟨(cp, g), unicodesToRetain_cmap p hc cp g hm hcp hlt, rfl⟩))⟩)

/-- **plan_glyphset_only_reachable.** Every glyph of the plan's glyph set is below the font's glyph
count and is a root of the composite closure (a member of `glyphset_colred`) or a transitive component of one;
every root is `.notdef`, a requested glyph, the glyph of a character map entry whose codepoint or
glyph was requested, or was added by the cmap-14 / COLR closures (inputs of the model). -/
theorem plan_glyphset_only_reachable (p : PlanIn) (pl : Plan) (h : makePlan p = some pl) :
    (∀ x ∈ pl.glyphset, x < p.num ∧ ∃ r ∈ pl.colred, Reach p.comps r x) ∧
    (∀ r ∈ pl.colred, r = 0 ∨ r ∈ p.gids ∨ (∃ cp, (cp, r) ∈ p.cmap ∧ (cp ∈ p.unicodes ∨ r ∈ p.gids)) ∨
        r ∈ p.extraGsub ∨ r ∈ p.extraColred) := by
  obtain ⟨_, hcol, hgs, _⟩ := makePlan_some p pl h
  rw [hgs, hcol]
  constructor
  · intro x hx
    unfold planGlyphset at hx
    rw [mem_sortedBelow] at hx
    refine ⟨hx.1, ?_⟩
    rcases closureAll_sound _ _ _ _ x hx.2 with h1 | h2
    · simp at h1
    · exact h2
  · intro r hr
    unfold planColred at hr
    rw [mem_sortedBelow, List.mem_append] at hr
    rcases hr.2 with hg | hy
    · rcases ((mem_planGsub p r).mp hg).2 with h0 | hreq | ⟨cg, hcg, rfl⟩ | hx
      · exact Or.inl h0
      · exact Or.inr (Or.inl (unicodesToRetain_snd_origin p r hreq).1)
      · obtain ⟨hm, hsel, _⟩ := unicodesToRetain_fst_origin p cg hcg
        exact Or.inr (Or.inr (Or.inl ⟨cg.1, hm, hsel⟩))
      · exact Or.inr (Or.inr (Or.inr (Or.inl hx)))
    · exact Or.inr (Or.inr (Or.inr (Or.inr hy)))

/-- **closure_closed_when_limits_not_hit.** If neither the nesting limit (64) nor the operation
budget (64 per glyph of `glyphset_gsub`, per root) stopped the descent anywhere (`planLimitFired p =
false`; the flag is a specification device, erased by `closureGoF_erase` / `closureAllF_erase`), the
plan's glyph set contains every component (that exists in the font) of every glyph it contains.
The limits are real: see known finding C17-closure-budget for fonts where they fire. -/
theorem closure_closed_when_limits_not_hit (p : PlanIn) (pl : Plan) (h : makePlan p = some pl)
    (hl : planLimitFired p = false) :
    ∀ x ∈ pl.glyphset, ∀ c ∈ compsOf p.comps x, c < p.num → c ∈ pl.glyphset := by
  obtain ⟨_, _, hgs, _⟩ := makePlan_some p pl h
  rw [hgs]
  intro x hx c hc hlt
  unfold planGlyphset at hx ⊢
  rw [mem_sortedBelow] at hx ⊢
  refine ⟨hlt, ?_⟩
  unfold planLimitFired at hl
  have hcl := closureAllF_closed p.comps _ _ ([], false) hl (by simp)
  rw [closureAllF_erase] at hcl
  exact hcl x hx.2 c hc

/-- **plan_glyphset_is_least_fixed_point.** If no limit fired and every component id names a glyph of
the font, the plan's glyph set is exactly the set of glyphs reachable from the roots
(`glyphset_colred`: `.notdef`, requested glyphs, glyphs of requested characters, cmap-14 / COLR
additions) through composite components — the least set containing the roots and closed under
components.  In particular it does not depend on glyph order, iteration order or the budget
bookkeeping, and a cyclic component graph changes nothing. -/
theorem plan_glyphset_is_least_fixed_point (p : PlanIn) (pl : Plan) (h : makePlan p = some pl)
    (hl : planLimitFired p = false) (hwf : ∀ g c, c ∈ compsOf p.comps g → c < p.num) (x : Nat) :
    x ∈ pl.glyphset ↔ ∃ r ∈ pl.colred, Reach p.comps r x := by
  constructor
  · intro hx
    exact ((plan_glyphset_only_reachable p pl h).1 x hx).2
  · rintro ⟨r, hr, hreach⟩
    have hclosed := closure_closed_when_limits_not_hit p pl h hl
    obtain ⟨_, hcol, hgs, _⟩ := makePlan_some p pl h
    have hroot : r ∈ pl.glyphset := by
      rw [hgs]; rw [hcol] at hr; exact planColred_sub_glyphset p r hr
    clear hr
    induction hreach with
    | refl a => exact hroot
    | step hm _ ih => exact ih (hclosed _ hroot _ hm (hwf _ _ hm))

/-! ## renumbering -/

/-- **glyph_map_monotone_bijection.** Without retain-gids the new→old list pairs the new ids
`0, 1, …, n-1` (in this order) with the kept glyphs in strictly ascending order: a strictly monotone
bijection from the kept set onto `0..n`, and `num_output_glyphs = n`.  With retain-gids every kept
glyph keeps its id and `num_output_glyphs` exceeds every kept id. (At most 65536 kept glyphs: the
Rust zips with `0u16..`.) -/
theorem glyph_map_monotone_bijection (p : PlanIn) (pl : Plan) (h : makePlan p = some pl)
    (hn : p.num ≤ 65536) :
    pl.glyphset.Pairwise (· < ·) ∧
    (hasFlag p.flags F_RETAIN_GIDS = false →
      pl.n2o.map (·.1) = List.range pl.glyphset.length ∧ pl.n2o.map (·.2) = pl.glyphset ∧
      pl.nout = pl.glyphset.length) ∧
    (hasFlag p.flags F_RETAIN_GIDS = true →
      pl.n2o = pl.glyphset.map (fun g => (g, g)) ∧ ∀ g ∈ pl.glyphset, g < pl.nout) := by
  obtain ⟨_, _, hgs, hn2o, hnout, _⟩ := makePlan_some p pl h
  rw [hgs, hn2o, hnout]
  have hsorted : (planGlyphset p).Pairwise (· < ·) := by
    unfold planGlyphset; exact sortedBelow_pairwise _ _
  have htake : (planGlyphset p).take 65536 = planGlyphset p := by
    apply List.take_of_length_le
    have := sortedBelow_length_le p.num (closureAll p.comps (planBudget p) (planColred p) [])
    unfold planGlyphset; omega
  refine ⟨hsorted, ?_, ?_⟩
  · intro hf
    refine ⟨?_, ?_, ?_⟩
    · rw [gidMap_renumber_fst _ _ hf, htake]
    · rw [gidMap_renumber_snd _ _ hf, htake]
    · rw [gidMap_renumber_nout _ _ hf, htake]
  · intro hf
    obtain ⟨h1, h2⟩ := gidMap_retain p.flags (planGlyphset p) hf
    refine ⟨h1, ?_⟩
    intro g hg
    rw [h2]
    obtain ⟨m, hm, hle⟩ := pairwise_lt_le_getLast hsorted hg
    rw [hm]; simp only; omega

/-- **plan_total.** After fix 1818a8f the only `unwrap()` of `Plan::new` that depends on font data
(`glyph_map.get(&old_gid).unwrap()` in the rewrite of `unicode_to_new_gid_list`) cannot fail: for
every font (≤ 65536 glyphs), character map, component graph and request a plan is produced. -/
theorem plan_total (p : PlanIn) (hn : p.num ≤ 65536) : (makePlan p).isSome := by
  have hlen : (planGlyphset p).length ≤ 65536 := by
    have := sortedBelow_length_le p.num (closureAll p.comps (planBudget p) (planColred p) [])
    unfold planGlyphset; omega
  have hall := mapM_option_isSome
    (fun cg : Nat × Nat => (oldToNew (gidMap p.flags (planGlyphset p)).1 cg.2).map (fun n => (cg.1, n)))
    (unicodesToRetain p).1 (fun cg hcg => by
      obtain ⟨_, _, hlt⟩ := unicodesToRetain_fst_origin p cg hcg
      have hmem : cg.2 ∈ planGlyphset p :=
        planColred_sub_glyphset p _ (planGsub_sub_colred p _
          ((mem_planGsub p cg.2).mpr ⟨hlt, Or.inr (Or.inr (Or.inl ⟨cg, hcg, rfl⟩))⟩))
      obtain ⟨n, hn'⟩ := Option.isSome_iff_exists.mp (oldToNew_isSome p.flags _ hlen cg.2 hmem)
      simp only [hn']; rfl)
  obtain ⟨u2g, hu⟩ := Option.isSome_iff_exists.mp hall
  unfold makePlan
  simp only [hu]
  rfl

/-- **plan_everything_identity.** Subsetting to everything — every glyph id of the font is
requested — keeps every glyph, and without or with retain-gids the glyph map is the identity and
`num_output_glyphs` is the font's glyph count: the plan changes nothing. -/
theorem plan_everything_identity (p : PlanIn) (pl : Plan) (h : makePlan p = some pl)
    (hn : p.num ≤ 65536) (hall : ∀ g, g < p.num → g ∈ p.gids) :
    pl.glyphset = List.range p.num ∧ pl.n2o = (List.range p.num).map (fun g => (g, g)) ∧
    (0 < p.num → pl.nout = p.num) := by
  have hc := plan_glyphset_contains_requested p pl h
  obtain ⟨_, _, hgs, hn2o, hnout, _⟩ := makePlan_some p pl h
  have hset : planGlyphset p = List.range p.num := by
    have key : ∀ g, g < p.num → g ∈ planGlyphset p := fun g hg =>
      planColred_sub_glyphset p g (planGsub_sub_colred p g ((mem_planGsub p g).mpr
        ⟨hg, Or.inr (Or.inl (unicodesToRetain_gids p g (hall g hg) hg))⟩))
    have : planGlyphset p = (List.range p.num).filter
        (fun g => (closureAll p.comps (planBudget p) (planColred p) []).contains g) := rfl
    rw [this, List.filter_eq_self]
    intro g hg
    have hlt : g < p.num := by simpa using hg
    have := key g hlt
    unfold planGlyphset at this
    rw [mem_sortedBelow] at this
    simpa using this.2
  rw [hgs, hn2o, hnout, hset]
  have htake : (List.range p.num).take 65536 = List.range p.num :=
    List.take_of_length_le (by simp; omega)
  by_cases hf : hasFlag p.flags F_RETAIN_GIDS = true
  · obtain ⟨h1, h2⟩ := gidMap_retain p.flags (List.range p.num) hf
    refine ⟨rfl, h1, fun hpos => ?_⟩
    rw [h2, List.getLast?_range]
    have : ¬ p.num = 0 := by omega
    simp [this]; omega
  · have hf' : hasFlag p.flags F_RETAIN_GIDS = false := by simpa using hf
    refine ⟨rfl, ?_, fun _ => ?_⟩
    · apply List.ext_getElem?
      intro i
      have e1 := congrArg (fun l => l[i]?) (gidMap_renumber_fst p.flags (List.range p.num) hf')
      have e2 := congrArg (fun l => l[i]?) (gidMap_renumber_snd p.flags (List.range p.num) hf')
      simp only [htake, List.getElem?_map, List.length_range] at e1 e2
      cases hget : (gidMap p.flags (List.range p.num)).1[i]? with
      | none =>
        simp only [hget, Option.map_none] at e1
        simp only [List.getElem?_map]
        rw [← e1]; rfl
      | some ab =>
        simp only [hget, Option.map_some] at e1 e2
        simp only [List.getElem?_map, ← e1, Option.map_some]
        congr 1
        have : (List.range p.num)[i]? = some ab.1 := e1.symm
        rw [this] at e2
        simp at e2
        exact Prod.ext rfl e2
    · rw [gidMap_renumber_nout _ _ hf', htake]; simp

/-! ## character map -/

/-- **cmap_commutes.** `unicode_to_new_gid_list` (what the cmap subsetter writes) maps a codepoint
to `new` only if the original character map maps it to some `old` with `glyph_map[old] = new` and the
codepoint or that glyph was requested; and every requested codepoint that the original maps is
mapped, to the renumbered image of its glyph (entries naming a glyph the font does not have are
skipped). -/
theorem cmap_commutes (p : PlanIn) (pl : Plan) (h : makePlan p = some pl)
    (hc : (p.cmap.map (·.1)).Pairwise (· ≠ ·)) :
    (∀ cp new, (cp, new) ∈ pl.u2g →
      ∃ old, (cp, old) ∈ p.cmap ∧ (cp ∈ p.unicodes ∨ old ∈ p.gids) ∧ oldToNew pl.n2o old = some new) ∧
    (∀ cp old, (cp, old) ∈ p.cmap → cp ∈ p.unicodes → old < p.num →
      ∃ new, (cp, new) ∈ pl.u2g ∧ oldToNew pl.n2o old = some new) := by
  obtain ⟨_, _, _, hn2o, _, hu⟩ := makePlan_some p pl h
  rw [hn2o]
  obtain ⟨m1, m2⟩ := u2g_spec _ _ _ hu
  constructor
  · intro cp new hm
    obtain ⟨old, hcg, hon⟩ := m1 cp new hm
    obtain ⟨horig, hsel, _⟩ := unicodesToRetain_fst_origin p (cp, old) hcg
    exact ⟨old, horig, hsel, hon⟩
  · intro cp old hm hcp hlt
    exact m2 cp old (unicodesToRetain_cmap p hc cp old hm hcp hlt)

/-! ## hmtx -/

/-- **hmtx_preserved.** Whenever `Hmtx::subset` succeeds, reading the rewritten table (with its new
numberOfHMetrics) at a kept glyph's new id gives the advance and the side bearing the original
table gives at its old id — for every outcome of the trailing-advance trimming, with and without
retain-gids gaps. (`num_output_glyphs ≤ 0xFFFF`: beyond that the code caps the long metrics.) -/
theorem hmtx_preserved (longs : List (Nat × Nat)) (lsbs : List Nat) (n2o : List (Nat × Nat)) (nout : Nat)
    (o : HmtxOut) (h : subsetHmtx longs lsbs n2o nout = .ok o) (hn : nout ≤ 0xFFFF)
    (new old : Nat) (hno : newToOld n2o new = some old) (hlt : new < nout) :
    o.numH = o.longs.length ∧ o.longs.length + o.lsbs.length = nout ∧ 1 ≤ o.numH ∧
    hmtxAdvance o.longs new = hmtxAdvance longs old ∧
    hmtxLsb o.longs o.lsbs new = hmtxLsb longs lsbs old := by
  unfold subsetHmtx at h
  split at h
  · cases h
  split at h
  · cases h
  simp only at h
  split at h
  · cases h
  rename_i hnz _ hany
  simp only [Except.ok.injEq] at h
  -- the kept glyph has both metrics in the source
  have hmem : (new, old) ∈ n2o := lookupNat_mem hno
  have hsome : (hmtxAdvance longs old).isSome ∧ (hmtxLsb longs lsbs old).isSome := by
    simp only [List.any_eq_true, not_exists, not_and, Bool.or_eq_true, not_or] at hany
    have := hany (new, old) hmem
    simp only [Option.isNone_iff_eq_none] at this
    constructor
    · cases ha : hmtxAdvance longs old with
      | none => exact absurd ha this.1
      | some _ => rfl
    · cases hb : hmtxLsb longs lsbs old with
      | none => exact absurd hb this.2
      | some _ => rfl
  obtain ⟨a, ha⟩ := Option.isSome_iff_exists.mp hsome.1
  obtain ⟨b, hb⟩ := Option.isSome_iff_exists.mp hsome.2
  have hmin : min nout 0xFFFF = nout := by omega
  have hnh_le : newNumHMetrics longs n2o nout ≤ nout := by
    unfold newNumHMetrics; simp only [hmin]; exact trimMetrics_le _ _ _
  have hnh_pos : 1 ≤ newNumHMetrics longs n2o nout := by
    unfold newNumHMetrics; simp only [hmin]; exact trimMetrics_pos _ _ _ (by omega)
  subst h
  simp only [List.length_map, List.length_range]
  refine ⟨trivial, by omega, hnh_pos, ?_, ?_⟩
  · -- advance
    rw [hmtxAdvance_map_range _ _ _ hnh_pos, ha]
    simp only [Option.some.injEq]
    have e3 : newGidAdvance longs n2o new = a := by
      unfold newGidAdvance; simp [hno, ha]
    by_cases hc : new < newNumHMetrics longs n2o nout
    · simp [hc, hno, ha]
    · simp only [hc, if_false]
      -- the last long metric carries `last_advance`, and so does every trimmed glyph
      have htail := trimMetrics_tail (newGidAdvance longs n2o) (newGidAdvance longs n2o (nout - 1)) nout
      have hnh : trimMetrics (newGidAdvance longs n2o) (newGidAdvance longs n2o (nout - 1)) nout
          = newNumHMetrics longs n2o nout := by
        unfold newNumHMetrics; simp only [hmin]
      have e1 : newGidAdvance longs n2o (newNumHMetrics longs n2o nout - 1) = newGidAdvance longs n2o (nout - 1) := by
        by_cases hq : newNumHMetrics longs n2o nout - 1 + 1 < nout
        · exact htail _ (by omega) hq
        · have : newNumHMetrics longs n2o nout - 1 = nout - 1 := by omega
          rw [this]
      have e2 : newGidAdvance longs n2o new = newGidAdvance longs n2o (nout - 1) := by
        by_cases hq : new + 1 < nout
        · exact htail _ (by omega) hq
        · have : new = nout - 1 := by omega
          rw [this]
      have : newGidAdvance longs n2o (newNumHMetrics longs n2o nout - 1) = a := by rw [e1, ← e2, e3]
      simpa [newGidAdvance] using this
  · -- side bearing
    rw [hmtxLsb_map_range _ _ _ _ _ (by omega), hb]
    by_cases hc : new < newNumHMetrics longs n2o nout
    · simp [hc, hno, hb]
    · have hadd : newNumHMetrics longs n2o nout + (new - newNumHMetrics longs n2o nout) = new := by omega
      simp [hc, hadd, hno, hb]

/-! ## glyf / loca -/

/-- **loca_offsets_correct.** For new ids in strictly ascending order below `num_output_glyphs`
(what `glyph_map_monotone_bijection` gives), the offsets `write_glyf_loca` emits are: one per glyph
id plus one; entry `j` is the total (padded, in the short format) size of the kept glyphs with new id
below `j`; hence entry 0 is 0, entries ascend, and every entry is even in the short format. -/
theorem loca_offsets_correct (pad : Bool) (nout : Nat) (gs : List (Nat × Bytes))
    (hs : (gs.map (·.1)).Pairwise (· < ·)) (hb : ∀ p ∈ gs, p.1 < nout) :
    (locaOffsets pad nout gs).length = nout + 1 ∧
    (∀ j, j ≤ nout → (locaOffsets pad nout gs)[j]? = some (offAt pad gs j)) ∧
    offAt pad gs 0 = 0 ∧
    (∀ j k, j ≤ k → offAt pad gs j ≤ offAt pad gs k) ∧
    (pad = true → ∀ j, offAt pad gs j % 2 = 0) :=
  ⟨locaOffsets_length pad nout gs hs hb,
   fun j hj => locaOffsets_getElem pad nout gs hs hb j hj,
   offAt_of_all_ge pad 0 gs (fun _ _ => Nat.zero_le _),
   fun j k hjk => offAt_mono pad j k hjk gs,
   fun hp j => by subst hp; exact offAt_even j gs⟩

/-- **loca_resolves_to_glyph_bytes.** Every kept glyph's loca range `[loca[new], loca[new+1])` cuts
exactly that glyph's rewritten bytes (plus the padding byte of the short format) out of the glyf
bytes that were embedded; and an id that is not a kept glyph (retain-gids gap) has an empty range. -/
theorem loca_resolves_to_glyph_bytes (pad : Bool) (nout : Nat) (gs : List (Nat × Bytes))
    (hs : (gs.map (·.1)).Pairwise (· < ·)) (hb : ∀ p ∈ gs, p.1 < nout) :
    (∀ pre gid g post, gs = pre ++ (gid, g) :: post →
      ∃ a b, (locaOffsets pad nout gs)[gid]? = some a ∧ (locaOffsets pad nout gs)[gid + 1]? = some b ∧
        a ≤ b ∧ ((glyfBytes pad (gs.map (·.2))).drop a).take (b - a) = slotBytes pad g) ∧
    (∀ k, k < nout → (∀ p ∈ gs, p.1 ≠ k) →
      (locaOffsets pad nout gs)[k]? = (locaOffsets pad nout gs)[k + 1]?) := by
  constructor
  · intro pre gid g post hgs
    have hlt : gid < nout := hb (gid, g) (by rw [hgs]; simp)
    refine ⟨offAt pad gs gid, offAt pad gs (gid + 1),
      locaOffsets_getElem pad nout gs hs hb gid (by omega),
      locaOffsets_getElem pad nout gs hs hb (gid + 1) (by omega),
      offAt_mono pad _ _ (by omega) gs, ?_⟩
    subst hgs
    obtain ⟨e1, e2⟩ := glyfBytes_resolve pad pre gid g post hs
    rw [e1]
    have : offAt pad (pre ++ (gid, g) :: post) gid + slotSize pad g - offAt pad (pre ++ (gid, g) :: post) gid
        = slotSize pad g := by omega
    rw [this]
    exact e2
  · intro k hk hne
    rw [locaOffsets_getElem pad nout gs hs hb k (by omega),
        locaOffsets_getElem pad nout gs hs hb (k + 1) (by omega)]
    congr 1
    unfold offAt
    congr 2
    apply List.filter_congr
    intro p hp
    have := hne p hp
    simp only [decide_eq_decide]
    omega

/-- **loca_long_format_retain_gids_gaps.** The long (Offset32, unpadded) branch of `write_glyf_loca`
under retain-gids with ARBITRARY gaps (the instance `pad = false` of the two theorems above, spelled
out): every kept glyph's range is exactly its own bytes, every id that is not a kept glyph — in front of,
between or behind the kept ones — owns no bytes, and the offsets ascend. -/
theorem loca_long_format_retain_gids_gaps (nout : Nat) (gs : List (Nat × Bytes))
    (hs : (gs.map (·.1)).Pairwise (· < ·)) (hb : ∀ p ∈ gs, p.1 < nout) :
    (∀ pre gid g post, gs = pre ++ (gid, g) :: post →
      ∃ a b, (locaOffsets false nout gs)[gid]? = some a ∧ (locaOffsets false nout gs)[gid + 1]? = some b ∧
        a ≤ b ∧ ((glyfBytes false (gs.map (·.2))).drop a).take (b - a) = g) ∧
    (∀ k, k < nout → (∀ p ∈ gs, p.1 ≠ k) →
      (locaOffsets false nout gs)[k]? = (locaOffsets false nout gs)[k + 1]?) ∧
    (∀ j k, j ≤ k → k ≤ nout → ∃ a b, (locaOffsets false nout gs)[j]? = some a ∧
      (locaOffsets false nout gs)[k]? = some b ∧ a ≤ b) := by
  obtain ⟨h1, h2⟩ := loca_resolves_to_glyph_bytes false nout gs hs hb
  obtain ⟨_, g2, _, g4, _⟩ := loca_offsets_correct false nout gs hs hb
  refine ⟨fun pre gid g post hgs => ?_, h2, fun j k hjk hk => ?_⟩
  · obtain ⟨a, b, e1, e2, e3, e4⟩ := h1 pre gid g post hgs
    exact ⟨a, b, e1, e2, e3, by simpa [slotBytes] using e4⟩
  · exact ⟨_, _, g2 j (by omega), g2 k hk, g4 j k hjk⟩

/-- non-vacuity: long format, kept ids 2 and 5 of 7 (gaps 0, 1, 3, 4, 6): the gap ids in front of a kept
glyph repeat the PREVIOUS end offset (the seeded defect C17-6 gave them the next one) -/
example : locaOffsets false 7 [(2, [1, 2, 3]), (5, [4, 5])] = [0, 0, 0, 3, 3, 3, 5, 5] := by decide
example : locaOffsets true 7 [(2, [1, 2, 3]), (5, [4, 5])] = [0, 0, 0, 4, 4, 4, 6, 6] := by decide

/-- **loca_encoding_exact.** With the format choice of `Glyf::subset` (`max_offset < 0x1FFFF` ⇒ short)
the encoded loca table decodes to exactly the byte offsets: the halved offsets fit `u16` in the short
format (this is where the `u16` accumulator of DESIGN §6-5 used to break), and `u32` in the long
format for any glyf below 4 GiB. -/
theorem loca_encoding_exact (nout : Nat) (news : List Nat) (gs : List Bytes)
    (hlen : news.length = gs.length)
    (hs : news.Pairwise (· < ·)) (hb : ∀ n ∈ news, n < nout)
    (h32 : (gs.map (fun g => paddedSize g.length)).sum < 4294967296) :
    let out := writeGlyfLoca nout news gs
    (out.fmt = 0 → decodeShortLoca out.loca = locaOffsets true nout (news.zip gs)) ∧
    (out.fmt = 1 → decodeLongLoca out.loca = locaOffsets false nout (news.zip gs)) ∧
    (out.fmt = 0 ∨ out.fmt = 1) := by
  intro out
  have hkeys : (news.zip gs).map (·.1) = news := by
    rw [List.map_fst_zip]; omega
  have hs' : ((news.zip gs).map (·.1)).Pairwise (· < ·) := by rw [hkeys]; exact hs
  have hb' : ∀ p ∈ news.zip gs, p.1 < nout := fun p hp => hb p.1 (by
    rw [← hkeys]; exact List.mem_map_of_mem hp)
  have hvals : (news.zip gs).map (·.2) = gs := by
    rw [List.map_snd_zip]; omega
  have htot : ∀ pad, totalSize pad (news.zip gs) = (gs.map (fun g => slotSize pad g)).sum := by
    intro pad
    unfold totalSize
    rw [← hvals, List.map_map]
    simp [Function.comp_def, hvals]
  have hmem : ∀ pad, ∀ o ∈ locaOffsets pad nout (news.zip gs), ∃ j, j ≤ nout ∧ o = offAt pad (news.zip gs) j := by
    intro pad o ho
    obtain ⟨j, hj, hget⟩ := List.getElem_of_mem ho
    have hlenl := locaOffsets_length pad nout (news.zip gs) hs' hb'
    have hj' : j ≤ nout := by omega
    have := locaOffsets_getElem pad nout (news.zip gs) hs' hb' j hj'
    rw [List.getElem?_eq_getElem hj] at this
    simp at this
    exact ⟨j, hj', by rw [← hget]; exact this⟩
  by_cases hshort : (gs.map (fun g => paddedSize g.length)).sum < 0x1FFFF
  · have hfmt : out.fmt = 0 := by simp [out, writeGlyfLoca, hshort]
    refine ⟨fun _ => ?_, fun h1 => by omega, Or.inl hfmt⟩
    have : out.loca = (locaOffsets true nout (news.zip gs)).flatMap (fun o => be16 (o / 2 % 65536)) := by
      simp [out, writeGlyfLoca, hshort]
    rw [this]
    apply decodeShortLoca_encode
    intro o ho
    obtain ⟨j, _, rfl⟩ := hmem true o ho
    refine ⟨offAt_even j _, ?_⟩
    have h1 := offAt_le_total true j (news.zip gs)
    rw [htot true] at h1
    have : (gs.map (fun g => slotSize true g)).sum = (gs.map (fun g => paddedSize g.length)).sum := by
      simp [slotSize]
    omega
  · have hfmt : out.fmt = 1 := by simp [out, writeGlyfLoca, hshort]
    refine ⟨fun h0 => by omega, fun _ => ?_, Or.inr hfmt⟩
    have : out.loca = (locaOffsets false nout (news.zip gs)).flatMap (fun o => be32 (o % 4294967296)) := by
      simp [out, writeGlyfLoca, hshort]
    rw [this]
    apply decodeLongLoca_encode
    intro o ho
    obtain ⟨j, _, rfl⟩ := hmem false o ho
    have h1 := offAt_le_total false j (news.zip gs)
    rw [htot false] at h1
    have h2 : (gs.map (fun g => slotSize false g)).sum ≤ (gs.map (fun g => paddedSize g.length)).sum := by
      apply sum_map_le
      intro g
      simp [slotSize, paddedSize]
    omega

/-! ## simple glyphs -/

/-- **simple_glyph_is_prefix.** Without NO_HINTING and SET_OVERLAPS_FLAG, a simple glyph that is
written non-empty is a prefix of its input record: header, end points, instructions, and the first
`k` bytes of flag/coordinate data, where `k ≠ 0` is the result of `trim_simple_glyph_padding` — which
by `trim_exact` is exactly the flags and coordinates of all `num_coords` points.  Nothing but
trailing padding is removed, so the outline data is byte-identical.  (With NO_HINTING the
instructions are removed and instructionLength zeroed, with SET_OVERLAPS_FLAG bit 0x40 of the first
flag is set: modelled and correspondence-tested, not restated here.) -/
theorem simple_glyph_is_prefix (flags : Nat) (d : Bytes) (nc : Nat) (out : Bytes) (il k : Nat)
    (hil : il = u16At d (10 + 2 * nc))
    (hk : k = trimSimpleGlyphPadding (d.drop (12 + 2 * nc + il)) (u16At d (10 + 2 * (nc - 1)) + 1))
    (hf1 : hasFlag flags F_NO_HINTING = false) (hf2 : hasFlag flags F_SET_OVERLAPS = false)
    (h : subsetSimple flags d nc = .bytes out) (hne : out ≠ []) :
    out = d.take (12 + 2 * nc + il + k) ∧ k ≠ 0 ∧ 12 + 2 * nc + il + k ≤ d.length :=
  subsetSimple_prefix flags d nc out il k hil hk hf1 hf2 h hne

/-! ## composite glyphs -/

/-- **components_remapped.** Whenever `subset_composite_glyph` returns a non-empty glyph, the input
record's component list is well formed, every component glyph id has an image under the plan's glyph
map, and the output is a prefix (cut after the component list and, if kept, the instructions) of a
record `full` of the input's length, with the input's 10 header bytes, whose component list — read
record for record with the same walk — names exactly the images (as u16), in the same order.  (So a
composite is never written with a component id that was not renumbered consistently with the plan;
if a component has no image the glyph is emptied instead, which is what the closure theorems are
about.) -/
theorem components_remapped (flags : Nat) (gmap : Nat → Option Nat) (d out : Bytes)
    (h : subsetComposite flags gmap d = out) (hne : out ≠ []) :
    ∃ (full : Bytes) (ids news : List Nat), out <+: full ∧ full.length = d.length ∧
      (∀ j, j < 10 → full.getD j 0 = d.getD j 0) ∧
      compIds d d.length (d.length + 1) 10 = some ids ∧ ids.mapM gmap = some news ∧
      compIds full d.length (d.length + 1) 10 = some (news.map (· % 65536)) := by
  unfold subsetComposite at h
  simp only at h
  split at h
  · exact absurd h.symm hne
  · rename_i full i whi hloop
    obtain ⟨r1, r2, ids, news, r3, r4, r5⟩ := compLoop_spec flags gmap d.length (d.length + 1) d 10 false _
      (Nat.le_refl _) hloop
    refine ⟨full, ids, news, ?_, r1, r2, r3, r4, r5⟩
    split at h
    · split at h
      · rw [← h]; exact List.take_prefix _ _
      · rw [← h]; exact List.take_prefix _ _
    · rw [← h]; exact List.take_prefix _ _

/-- **closure_sees_rewriters_components.** The component list the closure iterates (read-fonts
`components()`, modelled by `componentsOfRecord`) is a prefix of the component list the rewriter
walks (`compIds`, see `components_remapped`) — it can only miss a last record whose argument /
transform bytes are cut off.  Together: for a composite that is written non-empty, every component
the closure saw is rewritten to its image, and any further one also had an image. -/
theorem closure_sees_rewriters_components (d : Bytes) (ids : List Nat)
    (h : compIds d d.length (d.length + 1) 10 = some ids) :
    componentsOfRecord d <+: ids := by
  unfold componentsOfRecord
  split
  · exact List.nil_prefix
  · split
    · exact List.nil_prefix
    · exact compIterGo_prefix d _ _ ids h

/-! ## trim_simple_glyph_padding -/

/-- **trim_exact.** A non-zero result `k` of `trim_simple_glyph_padding(glyph_data, num_coords)` means:
`glyph_data` starts with a sequence of flag runs (a flag byte, plus a repeat byte when REPEAT_FLAG is
set, covering `repeat + 1` points) that covers exactly `num_coords` points, and `k` is the length of
those flag bytes plus the x/y coordinate bytes the flags call for — everything after `k` is padding. -/
theorem trim_exact (glyphData : Bytes) (numCoords k : Nat)
    (h : trimSimpleGlyphPadding glyphData numCoords = k) (hk : k ≠ 0) :
    ∃ runs : List (Nat × Nat), (∀ r ∈ runs, runOk r) ∧ encRuns runs <+: glyphData ∧
      (runs.map (·.2)).sum = numCoords ∧
      k = (encRuns runs).length + (runs.map (fun r => coordSize r.1 * r.2)).sum := by
  obtain ⟨runs, h1, h2, h3, h4⟩ := trimGo_spec numCoords glyphData 0 0 0 k h hk
  exact ⟨runs, h1, h2, by omega, by omega⟩

/-! ## non-vacuity -/

/-- 'A' → glyph 3 = composite of glyph 4 = composite of glyph 1 -/
def exIn1 : PlanIn :=
  { flags := 0, num := 5, cmap := [(65, 3)], comps := [[], [], [], [4], [1]],
    gids := [], unicodes := [65], extraGsub := [], extraColred := [] }

/-- retain-gids and a cyclic component graph 3 → 4 → 3 -/
def exIn2 : PlanIn :=
  { flags := 2, num := 5, cmap := [(65, 3)], comps := [[], [], [], [4], [3, 2]],
    gids := [4], unicodes := [], extraGsub := [], extraColred := [] }

example : (makePlan exIn1).map (fun pl => (pl.n2o, pl.u2g, pl.nout)) =
    some ([(0, 0), (1, 1), (2, 3), (3, 4)], [(65, 2)], 4) := by decide

/-- the hypothesis of `closure_closed_when_limits_not_hit` holds here … -/
example : planLimitFired exIn1 = false ∧ planLimitFired exIn2 = false := by decide

/-- … and fails for a chain of 70 nested composites (glyph k+1 = composite of glyph k) -/
def exChain70 : PlanIn :=
  { flags := 0, num := 71, cmap := [], comps := [] :: (List.range 70).map (fun k => [k]),
    gids := [70], unicodes := [], extraGsub := [], extraColred := [] }

example : planLimitFired exChain70 = true := by decide

example : (makePlan exIn2).map (fun pl => (pl.n2o, pl.u2g, pl.nout)) =
    some ([(0, 0), (2, 2), (3, 3), (4, 4)], [], 5) := by decide

/-- `hmtx_preserved` has instances: trailing equal advances are trimmed to 2 long metrics -/
example : (subsetHmtx [(500, 1), (600, 2), (600, 3), (700, 4)] [5] [(0, 0), (1, 1), (2, 2)] 3).toOption.map
    (fun o => (o.numH, o.longs, o.lsbs)) = some (2, [(500, 1), (600, 2)], [3]) := by decide

/-- `trim_exact` has instances: 3 on-curve points with 1-byte x and y deltas (flag 0x37 repeated twice more),
followed by two padding bytes -/
example : trimSimpleGlyphPadding [0x3F, 2, 1, 2, 3, 4, 5, 6, 0, 0] 3 = 8 := by decide

/-- `components_remapped` has instances: one component (flags ARGS_ARE_XY_VALUES, glyph 5 ↦ 2, byte offsets) -/
example : subsetComposite 0 (fun g => if g = 5 then some 2 else none)
    [0xFF, 0xFF, 0, 0, 0, 0, 0, 0, 0, 0, 0x00, 0x02, 0, 5, 1, 1, 0, 0] =
    [0xFF, 0xFF, 0, 0, 0, 0, 0, 0, 0, 0, 0x00, 0x02, 0, 2, 1, 1] := by decide

/-- `simple_glyph_is_prefix` has instances: a 1-contour, 1-point glyph (flag 0x37, x = 5, y = 6) with one
instruction byte and two bytes of padding -/
example : subsetSimple 0 [0, 1, 0, 0, 0, 0, 0, 0, 0, 0, 0, 0, 0, 1, 0xB0, 0x37, 5, 6, 0, 0] 1 =
    .bytes [0, 1, 0, 0, 0, 0, 0, 0, 0, 0, 0, 0, 0, 1, 0xB0, 0x37, 5, 6] := by decide

end FontVerif.C17
