/-
C02 — skrifa is total on hostile fonts: the other hand-written cyclic scan loops of the autohinter terminate.

Companion of Props/C02Blues.lean.  The models are regenerated from the Rust on every `./check C02` by
`translate/c02_autohint_loops.py` (Gen/AutohintLoops.lean, see its header for what is exact / oracle / dropped):

  * `dirsStep`, `dirsInterStep` — `Outline::compute_directions` (autohint/outline.rs): the `loop` that accumulates
    deltas around a contour until `next_ix` is back at `first_ix` — like the long-blue scan a port of a C `do … while`
    with a `continue`, which needs its own copy of the exit test — and its nested `while inter_ix != next_ix`;
  * `segStartStep` — `build_segments` (autohint/topo/segments.rs): the backward walk to the start of the edge a
    contour begins on;
  * `edgePtsStep` — `align_edge_points` (autohint/hint/outline.rs): the walk over the points of a segment along
    `Point::next` links, from `segment.first()` to `segment.last()`.

Indices are offsets from `contour.first()`; `n` is the number of points of the contour; the entry invariants are the
hypotheses (both indices inside the contour).  For `edgePtsStep` the link function is arbitrary and the ring invariant
`lnk i = cnext n i` — what `Outline::link_points` establishes: `next_ix = ix + 1`, the last point of a contour links to
the first — is an explicit hypothesis.  All theorems hold for every oracle `o` and havoc `h`.
-/
import FontVerif.Gen.AutohintLoops
import FontVerif.Lemmas.LoopIter
namespace FontVerif.C02
open FontVerif.LoopIter FontVerif.LoopIterLemmas FontVerif.Gen.AutohintLoops
set_option linter.unusedVariables false

/-- per-path closing tactic: the facts about the cyclic successor / predecessor at the current index are in the
context (`hc`, `hp`), the rest is linear arithmetic over the state literal -/
local macro "scan_path" : tactic =>
  `(tactic| first
    | (left; refine ⟨_, rfl, ?_⟩; dsimp only; omega)
    | (right; refine ⟨_, rfl, ?_⟩; dsimp only; omega))

/-! ### compute_directions -/

/-- the nested `while inter_ix != next_ix { …; inter_ix = contour.next(inter_ix) }` continues only from
`inter_ix ≠ next_ix`, with `inter_ix` advanced cyclically -/
theorem dirs_inter_step_advances (o : Nat → Nat → Bool) (h : Nat → Nat → Nat) (N : Nat) :
    AdvancesPre N 1 (dirsInterStep o h) := by
  intro s hN hl hf
  have hc := cnext_spec s.n s.last
  unfold dirsInterStep
  simp only []
  repeat' split
  all_goals first
    | scan_path
    | fail "compute_directions, nested while: a path continues without `inter_ix != next_ix` tested and `inter_ix = contour.next(inter_ix)`"

/-- **compute_directions, nested while**: exits within `n` body executions -/
theorem dirs_inter_loop_terminates (o : Nat → Nat → Bool) (h : Nat → Nat → Nat) (s : St)
    (hl : s.last < s.n) (hf : s.segFirst < s.n) :
    ∃ s', iter (dirsInterStep o h) (s.n + 1) s = some s' ∧ s'.n = s.n ∧ s.tick < s'.tick ∧ s'.tick ≤ s.tick + s.n := by
  have := iter_advances_pre s.n 1 _ (dirs_inter_step_advances o h s.n) s rfl hl hf
  simpa using this

/-- every `continue` / end of body of the outer loop of compute_directions is reached with `next_ix` advanced
cyclically and `next_ix ≠ first_ix`, and the nested `while` never leaves it stuck — whatever index `ix` holds -/
theorem dirs_step_advances (o : Nat → Nat → Bool) (h : Nat → Nat → Nat) (N : Nat) :
    Advances N (N + 1) (dirsStep o h) := by
  intro s hN hl hf
  have hc := cnext_spec s.n s.last
  have hlt := fun i => cnext_lt s.n i (by omega)
  unfold dirsStep next
  simp only []
  repeat' split
  all_goals first
    | scan_path
    | (exfalso
       exact iter_pre_none_absurd 1 _ (dirs_inter_step_advances o h) _ _ ‹iter _ _ _ = none› rfl
         (hlt _) (hlt _))
    | (have hr := iter_pre_some_result 1 _ (dirs_inter_step_advances o h) _ _ _ ‹iter _ _ _ = some _› rfl
         (hlt _) (hlt _)
       dsimp only at hr
       scan_path)
    | fail "compute_directions: a `continue` / end-of-body path is reached without `next_ix = contour.next(..)` and the test `if next_ix == first_ix { break; }`"

/-- **compute_directions terminates**: for every oracle / havoc and every contour of `n` points with `next_ix`,
`first_ix` inside it, the loop exits within `n + 1` body executions and at most `(n + 1) * (n + 2)` loop-body entries
(its own plus those of the nested `while`), never stuck. -/
theorem autohint_compute_directions_terminates (o : Nat → Nat → Bool) (h : Nat → Nat → Nat) (s : St)
    (hl : s.last < s.n) (hf : s.segFirst < s.n) :
    ∃ s', iter (dirsStep o h) (s.n + 1) s = some s' ∧ s.tick < s'.tick ∧
      s'.tick ≤ s.tick + (s.n + 1) * (s.n + 2) := by
  have hd := dist_le s hf
  obtain ⟨s', h1, _, _, h4, h5⟩ :=
    iter_advances s.n (s.n + 1) (dirsStep o h) (dirs_step_advances o h s.n) (s.n + 1) s rfl hl hf (by omega)
  refine ⟨s', h1, h4, ?_⟩
  have : dist s * (s.n + 1) ≤ (s.n + 1) * (s.n + 2) := Nat.mul_le_mul (by omega) (by omega)
  omega

/-! ### build_segments: start-of-edge search -/

/-- every end of body is reached with `point_ix` moved back cyclically and `point_ix ≠ last_ix` -/
theorem seg_start_step_retreats (o : Nat → Nat → Bool) (h : Nat → Nat → Nat) (N : Nat) :
    Retreats N 1 (segStartStep o h) := by
  intro s hN hl hf
  have hp := cprev_spec s.n s.last
  unfold segStartStep
  simp only []
  repeat' split
  all_goals first
    | scan_path
    | fail "build_segments start search: a path continues without `point_ix = contour.prev(point_ix)` and the test `if point_ix == last_ix { break; }`"

/-- **build_segments start search terminates** within `n` body executions -/
theorem autohint_segment_start_search_terminates (o : Nat → Nat → Bool) (h : Nat → Nat → Nat) (s : St)
    (hl : s.last < s.n) (hf : s.segFirst < s.n) :
    ∃ s', iter (segStartStep o h) (s.n + 1) s = some s' ∧ s.tick < s'.tick ∧ s'.tick ≤ s.tick + s.n := by
  obtain ⟨s', h1, _, h3, h4⟩ := iter_retreats s.n 1 _ (seg_start_step_retreats o h s.n) s rfl hl hf
  exact ⟨s', h1, h3, by omega⟩

/-! ### align_edge_points -/

/-- under the ring invariant the body continues only from `point_ix ≠ last_ix`, with `point_ix` advanced -/
theorem edge_pts_step_advances (o : Nat → Nat → Bool) (h : Nat → Nat → Nat) (lnk : Nat → Nat) (N : Nat)
    (hring : ∀ i, i < N → lnk i = cnext N i) : AdvancesPre N 1 (edgePtsStep o h lnk) := by
  intro s hN hl hf
  have hk := hring s.last (by omega)
  rw [← hN] at hk
  unfold edgePtsStep
  simp only []
  repeat' split
  all_goals first
    | scan_path
    | fail "align_edge_points: a path continues without the test `if point_ix == last_ix { break; }` and `point_ix = point.next()`"

/-- **align_edge_points terminates** within `n` body executions, PROVIDED the `next` links of the contour's points
are the cyclic successor (`Outline::link_points`) and `segment.first()`, `segment.last()` lie in one contour. -/
theorem autohint_align_edge_points_terminates (o : Nat → Nat → Bool) (h : Nat → Nat → Nat) (lnk : Nat → Nat) (s : St)
    (hring : ∀ i, i < s.n → lnk i = cnext s.n i) (hl : s.last < s.n) (hf : s.segFirst < s.n) :
    ∃ s', iter (edgePtsStep o h lnk) (s.n + 1) s = some s' ∧ s.tick < s'.tick ∧ s'.tick ≤ s.tick + s.n := by
  obtain ⟨s', h1, _, h3, h4⟩ := iter_advances_pre s.n 1 _ (edge_pts_step_advances o h lnk s.n hring) s rfl hl hf
  exact ⟨s', h1, h3, by omega⟩

/-! ### compute_directions: backward walk to the first non-near point -/

/-- the `while prev_ix != first_ix` body continues only from `prev_ix ≠ first_ix`, with `prev_ix` moved back -/
theorem dirs_back_step_retreats (o : Nat → Nat → Bool) (h : Nat → Nat → Nat) (N : Nat) :
    RetreatsPre N 1 (dirsBackStep o h) := by
  intro s hN hl hf
  have hp := cprev_spec s.n s.last
  unfold dirsBackStep
  simp only []
  repeat' split
  all_goals first
    | scan_path
    | fail "compute_directions, backward while: a path continues without `prev_ix != first_ix` tested and `prev_ix = contour.prev(prev_ix)`"

/-- **compute_directions, backward walk terminates** within `n` body executions -/
theorem autohint_compute_directions_backward_walk_terminates (o : Nat → Nat → Bool) (h : Nat → Nat → Nat) (s : St)
    (hl : s.last < s.n) (hf : s.segFirst < s.n) :
    ∃ s', iter (dirsBackStep o h) (s.n + 1) s = some s' ∧ s.tick < s'.tick ∧ s'.tick ≤ s.tick + s.n := by
  obtain ⟨s', h1, _, h3, h4⟩ := iter_retreats_pre s.n 1 _ (dirs_back_step_retreats o h s.n) s rfl hl hf
  exact ⟨s', h1, h3, by omega⟩

/-! ### build_segments: main loop -/

/-- one body execution of the main loop either leaves (second visit of `last_ix`, or the `> 1000 segments` return) or
continues, indices in range, with a smaller measure: every path to the end of the body advances `point_ix`, and
`passed` is set at the first visit of `last_ix` -/
theorem seg_main_step_decreases (o : Nat → Nat → Bool) (h : Nat → Nat → Nat) (s : StF)
    (hl : s.last < s.n) (hf : s.segFirst < s.n) :
    (∃ s', segMainStep o h s = .brk s' ∧ True ∧ True) ∨ (∃ s', segMainStep o h s = .exit s' ∧ True ∧ False) ∨
    (∃ s', segMainStep o h s = .cont s' ∧ (s'.last < s'.n ∧ s'.segFirst < s'.n) ∧ True ∧
      segMainMeasure s' < segMainMeasure s) := by
  have hc := cnext_spec s.n s.last
  unfold segMainStep segMainMeasure dist0
  simp only []
  repeat' split
  all_goals first
    | (left; exact ⟨_, rfl, trivial, trivial⟩)
    | (right; right; refine ⟨_, rfl, ?_⟩; simp_all; omega)
    | (right; right; refine ⟨_, rfl, ?_⟩; simp_all <;> (repeat' split) <;> omega)
    | fail "build_segments main loop: a path continues without `point_ix = contour.next(point_ix)` / without the `point_ix == last_ix` – `passed` test"

/-- **build_segments main loop terminates**: for every oracle, from any state with both indices inside the contour,
within `measure + 1 ≤ 2 n` body executions … -/
theorem autohint_build_segments_main_loop_terminates (o : Nat → Nat → Bool) (h : Nat → Nat → Nat) (s : StF)
    (hl : s.last < s.n) (hf : s.segFirst < s.n) :
    ∃ s', iterG (segMainStep o h) (segMainMeasure s + 1) s = some (false, s') := by
  obtain ⟨e, s', h1, _, h3⟩ := iterG_measure (segMainStep o h) (fun s => s.last < s.n ∧ s.segFirst < s.n)
    segMainMeasure (fun _ _ => True) (fun _ => True) (fun _ => False) (fun _ _ _ _ _ => trivial)
    (fun s hI => seg_main_step_decreases o h s hI.1 hI.2) (segMainMeasure s + 1) s ⟨hl, hf⟩ (by omega)
  cases e
  · exact ⟨s', h1⟩
  · simp at h3

/-- … and from the state in which the Rust enters it (`last_ix = point_ix`, `passed = false`) within `n + 1` -/
theorem autohint_build_segments_main_loop_entry_bound (o : Nat → Nat → Bool) (h : Nat → Nat → Nat) (s : StF)
    (hl : s.last < s.n) (he : s.segFirst = s.last) (hp : s.flag = false) :
    ∃ s', iterG (segMainStep o h) (s.n + 1) s = some (false, s') := by
  have hm : segMainMeasure s = s.n := by
    unfold segMainMeasure dist0; simp [hp, he]
  have := autohint_build_segments_main_loop_terminates o h s hl (by omega)
  rwa [hm] at this

/-! ### align_weak_points -/

/-- nested `while point_ix < last_ix && …touched…`: exits within `last_ix - point_ix + 1` executions; `point_ix` only grows -/
theorem weak_skip_loop_terminates (o : Nat → Nat → Bool) (h : Nat → Nat → Nat) (s : St) :
    ∃ e s', iterG (weakSkipStep o h) (s.segFirst + 2) s = some (e, s') ∧ Grows s s' := by
  obtain ⟨e, s', h1, h2, _⟩ := iterG_measure (weakSkipStep o h) (fun _ => True) (fun s => s.segFirst - s.last) Grows
    (fun _ => True) (fun _ => True) grows_trans (by
      intro s _
      unfold weakSkipStep Grows
      simp only []
      repeat' split
      all_goals first
        | (left; exact ⟨_, rfl, by dsimp only; omega, trivial⟩)
        | (right; left; exact ⟨_, rfl, by dsimp only; omega, trivial⟩)
        | (right; right; refine ⟨_, rfl, trivial, ?_⟩; dsimp only; omega)
        | fail "align_weak_points, while: a path continues without `point_ix < last_ix` tested and `point_ix += 1`")
    (s.segFirst + 2) s trivial (by first | omega | (dsimp only; omega))
  exact ⟨e, s', h1, h2⟩

/-- nested `loop` "find the next touched point": exits within `last_ix + 2 - point_ix` executions, by `break` only with
`point_ix ≤ last_ix`, otherwise by `break 'outer` -/
theorem weak_find_loop_terminates (o : Nat → Nat → Bool) (h : Nat → Nat → Nat) (s : St) :
    ∃ e s', iterG (weakFindStep o h) (s.segFirst + 2) s = some (e, s') ∧ Grows s s' ∧
      (e = false → s'.last ≤ s.segFirst) := by
  obtain ⟨e, s', h1, h2, h3⟩ := iterG_measure (weakFindStep o h) (fun _ => True) (fun s => s.segFirst + 1 - s.last) Grows
    (fun s' => s'.last ≤ s'.segFirst) (fun _ => True) grows_trans (by
      intro s _
      unfold weakFindStep Grows
      simp only []
      repeat' split
      all_goals first
        | (left; exact ⟨_, rfl, by dsimp only; omega, by dsimp only; omega⟩)
        | (right; left; exact ⟨_, rfl, by dsimp only; omega, trivial⟩)
        | (right; right; refine ⟨_, rfl, trivial, ?_⟩; dsimp only; omega)
        | fail "align_weak_points, inner loop: a path continues without `point_ix > last_ix` tested and `point_ix += 1`")
    (s.segFirst + 2) s trivial (by first | omega | (dsimp only; omega))
  refine ⟨e, s', h1, h2, ?_⟩
  intro he; subst he
  have := h2.1
  simp at h3; omega

private theorem weak_skip_some (o : Nat → Nat → Bool) (h : Nat → Nat → Nat) (st : St) (fuel : Nat)
    (x : Option (Bool × St)) (hi : iterG (weakSkipStep o h) fuel st = x) (hfu : fuel = st.segFirst + 2) :
    ∃ e r, x = some (e, r) ∧ Grows st r := by
  subst hfu
  obtain ⟨e, r, h1, h2⟩ := weak_skip_loop_terminates o h st
  exact ⟨e, r, by rw [← hi, h1], h2⟩

private theorem weak_find_some (o : Nat → Nat → Bool) (h : Nat → Nat → Nat) (st : St) (fuel : Nat)
    (x : Option (Bool × St)) (hi : iterG (weakFindStep o h) fuel st = x) (hfu : fuel = st.segFirst + 2) :
    ∃ e r, x = some (e, r) ∧ Grows st r ∧ (e = false → r.last ≤ st.segFirst) := by
  subst hfu
  obtain ⟨e, r, h1, h2⟩ := weak_find_loop_terminates o h st
  exact ⟨e, r, by rw [← hi, h1], h2⟩

/-- **align_weak_points terminates**: for every oracle and every `point_ix`, `last_ix`, the `'outer` loop exits within
`last_ix + 2` executions of its body (each of which increments `point_ix`), and neither nested loop runs out of its
fuel `last_ix + 2`; `point_ix` never decreases; and the checked `point_ix - 1` of the `iup_interpolate` call never traps
(`iterG` would return `none`). -/
theorem autohint_align_weak_points_terminates (o : Nat → Nat → Bool) (h : Nat → Nat → Nat) (s : St) :
    ∃ s', iterG (weakStep o h) (s.segFirst + 2) s = some (false, s') ∧ s'.segFirst = s.segFirst ∧ s.last ≤ s'.last := by
  obtain ⟨e, s', h1, h2, h3⟩ := iterG_measure (weakStep o h) (fun _ => True) (fun s => s.segFirst + 1 - s.last)
    (fun a b => b.segFirst = a.segFirst ∧ a.last ≤ b.last)
    (fun _ => True) (fun _ => False) (by intro a b c h1 h2; omega) (by
      intro s _
      unfold weakStep
      simp only []
      repeat' split
      all_goals
        (obtain ⟨e1, q1, hx1, h1g⟩ := weak_skip_some o h _ _ _ ‹iterG (weakSkipStep o h) _ _ = _› rfl
         cases hx1)
      all_goals try
        (obtain ⟨e2, q2, hx2, h2g, h2b⟩ := weak_find_some o h _ _ _ ‹iterG (weakFindStep o h) _ _ = _› rfl
         cases hx2)
      all_goals unfold Grows at *
      all_goals dsimp only at *
      all_goals first
        | (left; exact ⟨_, rfl, by dsimp only; omega, trivial⟩)
        | (right; right; refine ⟨_, rfl, trivial, ?_⟩; dsimp only; simp at h2b; omega)
        | (exfalso; omega)  -- the `.trap` path of `point_ix - 1`: `point_ix` has been incremented before
        | fail "align_weak_points, 'outer loop: a path continues without `point_ix` having grown and `point_ix <= last_ix`, or the checked `point_ix - 1` can underflow")
    (s.segFirst + 2) s trivial (by first | omega | (dsimp only; omega))
  cases e
  · exact ⟨s', h1, h2⟩
  · simp at h3

/-! ### Axis::insert_edge -/

/-- **insert_edge terminates**: `while ix > 0 { …; ix -= 1 }` exits within `ix + 1` body executions for every oracle,
and neither `ix - 1` (the `prev_ix`) nor `ix -= 1` underflows (a `.trap` would make `iterG` return `none`) -/
theorem autohint_insert_edge_terminates (o : Nat → Nat → Bool) (h : Nat → Nat → Nat) (s : St) :
    ∃ s', iterG (insertEdgeStep o h) (s.last + 1) s = some (false, s') ∧ s'.last ≤ s.last := by
  obtain ⟨e, s', h1, h2, h3⟩ := iterG_measure (insertEdgeStep o h) (fun _ => True) (fun s => s.last)
    (fun a b => b.last ≤ a.last) (fun _ => True) (fun _ => False) (by intro a b c h1 h2; omega) (by
      intro s _
      unfold insertEdgeStep
      simp only []
      repeat' split
      all_goals first
        | (left; exact ⟨_, rfl, by dsimp only; omega, trivial⟩)
        | (right; right; refine ⟨_, rfl, trivial, ?_⟩; dsimp only; omega)
        | (exfalso; omega)
        | fail "insert_edge: a path continues without `ix > 0` tested and `ix -= 1`, or a control subtraction can underflow")
    (s.last + 1) s trivial (by omega)
  cases e
  · exact ⟨s', h1, h2⟩
  · simp at h3

/-! ### align_strong_points: binary search over the edges -/

/-- **The edge binary search terminates** for every comparison oracle: `mid = (min + max) >> 1` satisfies
`min ≤ mid < max`, so `max = mid` and `min = mid + 1` both shrink `max - min`; it exits within `max - min + 1`
iterations (the real bound is logarithmic). -/
theorem autohint_align_strong_points_bsearch_terminates (cmp : Nat → Nat → Ordering) :
    ∀ (fuel tick mn mx : Nat), mx - mn < fuel → ∃ r, bsearch cmp fuel tick mn mx = some r := by
  intro fuel
  induction fuel with
  | zero => intro _ _ _ h; omega
  | succ f ih =>
    intro tick mn mx hf
    unfold bsearch
    by_cases hlt : mn < mx
    · simp only [hlt, if_true]
      have hmid : mn ≤ (mn + mx) >>> 1 ∧ (mn + mx) >>> 1 < mx := by
        rw [Nat.shiftRight_eq_div_pow]; omega
      cases cmp ((mn + mx) >>> 1) tick with
      | lt => exact ih _ _ _ (by omega)
      | gt => exact ih _ _ _ (by omega)
      | eq => exact ⟨_, rfl⟩
    · simp [hlt]

example : bsearch (fun mid _ => compare 5 mid) 9 0 0 8 = some (true, 5) := by decide
example : bsearch (fun _ _ => .gt) 9 0 0 8 = some (false, 8) := by decide
example : bsearch (fun _ _ => .lt) 2 0 0 8 = none := by decide

/-! ### glyf `interpolate_deltas`, autohint `sort_and_quantize_widths`: counting loops -/

/-- **interpolate_deltas, search for the first delta**: `while point_ix <= end_point_ix && …` exits within
`end_point_ix + 2 - point_ix` body executions for every flag oracle (or returns through `?`) -/
theorem glyf_interpolate_deltas_first_search_terminates (o : Nat → Nat → Bool) (h : Nat → Nat → Nat) (s : St) :
    ∃ s', iterG (deltaFirstStep o h) (s.segFirst + 2) s = some (false, s') ∧ s.last ≤ s'.last := by
  obtain ⟨e, s', h1, h2, h3⟩ := iterG_measure (deltaFirstStep o h) (fun _ => True) (fun s => s.segFirst + 1 - s.last)
    (fun a b => a.last ≤ b.last ∧ b.segFirst = a.segFirst) (fun _ => True) (fun _ => False)
    (by intro a b c h1 h2; omega) (by
      intro s hI
      unfold deltaFirstStep
      simp only []
      repeat' split
      all_goals first
        | (left; exact ⟨_, rfl, by dsimp only; omega, trivial⟩)
        | (right; right; refine ⟨_, rfl, ?_, ?_⟩ <;> dsimp only <;> omega)
        | (exfalso; omega)
        | fail "interpolate_deltas #1: a path continues without `point_ix <= end_point_ix` tested and `point_ix += 1`")
    (s.segFirst + 2) s trivial (by first | omega | (dsimp only; omega))
  cases e
  · exact ⟨s', h1, h2.1⟩
  · simp at h3

/-- **interpolate_deltas, walk to the end of the contour**: entered after `point_ix += 1` (so `1 ≤ point_ix`), exits
within `end_point_ix + 2 - point_ix` body executions, and the checked `point_ix - 1` of the interpolation range
never underflows -/
theorem glyf_interpolate_deltas_next_search_terminates (o : Nat → Nat → Bool) (h : Nat → Nat → Nat) (s : St) (hp : 1 ≤ s.last) :
    ∃ s', iterG (deltaNextStep o h) (s.segFirst + 2) s = some (false, s') ∧ s.last ≤ s'.last := by
  obtain ⟨e, s', h1, h2, h3⟩ := iterG_measure (deltaNextStep o h) (fun s => 1 ≤ s.last) (fun s => s.segFirst + 1 - s.last)
    (fun a b => a.last ≤ b.last ∧ b.segFirst = a.segFirst) (fun _ => True) (fun _ => False)
    (by intro a b c h1 h2; omega) (by
      intro s hI
      unfold deltaNextStep
      simp only []
      repeat' split
      all_goals first
        | (left; exact ⟨_, rfl, by dsimp only; omega, trivial⟩)
        | (right; right; refine ⟨_, rfl, ?_, ?_⟩ <;> dsimp only <;> omega)
        | (exfalso; omega)
        | fail "interpolate_deltas #2: a path continues without `point_ix <= end_point_ix` tested and `point_ix += 1`, or `point_ix - 1` can underflow")
    (s.segFirst + 2) s hp (by first | omega | (dsimp only; omega))
  cases e
  · exact ⟨s', h1, h2.1⟩
  · simp at h3

/-- **sort_and_quantize_widths**: `while ix < table.len()` with `ix` advanced by 1 or 2 on every path exits within
`table.len() - ix + 1` body executions -/
theorem autohint_sort_and_quantize_widths_terminates (o : Nat → Nat → Bool) (h : Nat → Nat → Nat) (s : St) :
    ∃ s', iterG (widthsStep o h) (s.segFirst + 1) s = some (false, s') ∧ s.last ≤ s'.last := by
  obtain ⟨e, s', h1, h2, h3⟩ := iterG_measure (widthsStep o h) (fun _ => True) (fun s => s.segFirst - s.last)
    (fun a b => a.last ≤ b.last ∧ b.segFirst = a.segFirst) (fun _ => True) (fun _ => False)
    (by intro a b c h1 h2; omega) (by
      intro s hI
      unfold widthsStep
      simp only []
      repeat' split
      all_goals first
        | (left; exact ⟨_, rfl, by dsimp only; omega, trivial⟩)
        | (right; right; refine ⟨_, rfl, ?_, ?_⟩ <;> dsimp only <;> omega)
        | (exfalso; omega)
        | fail "sort_and_quantize_widths: a path continues without `ix < table.len()` tested and `ix += 1`")
    (s.segFirst + 1) s trivial (by first | omega | (dsimp only; omega))
  cases e
  · exact ⟨s', h1, h2.1⟩
  · simp at h3

/-! ### CFF charset iterator -/

/-- **The range-seeking loop of the charset iterator terminates** within (remaining ranges + 1) body entries, for
every gid and every range table — each turn takes one element off the slice iterator (also a range that does not
move `end` past `gid`), and an exhausted iterator or an overflowing `end` returns through `?` -/
theorem cff_charset_range_seek_terminates (gid : Nat) : ∀ (rs : List (Nat × Nat)) (e t : Nat),
    (charsetSeek gid rs e t).1 ≤ t + rs.length + 1 := by
  intro rs
  induction rs with
  | nil => intro e t; unfold charsetSeek; split <;> simp
  | cons r rest ih =>
    intro e t
    obtain ⟨f, len⟩ := r
    unfold charsetSeek
    split
    · split
      · simp <;> omega
      · have := ih (e + len) (t + 1); simp at this ⊢; omega
    · simp <;> omega

example : charsetSeek 10 [(5, 3), (9, 1), (20, 40)] 2 0 = (3, false) := by decide
example : charsetSeek 10 [(5, 3)] 2 0 = (2, true) := by decide

/-! ### DICT parsing: `parse_bcd`, `entries` -/

/-- a one-item-per-turn consumer loop runs at most (items left + 1) turns and never lengthens its source -/
theorem consume_loop_terminates {α : Type} (stop : α → Bool) : ∀ (l : List α) (t : Nat),
    (consumeLoop stop l t).1 ≤ t + l.length + 1 ∧ (consumeLoop stop l t).2.length ≤ l.length := by
  intro l
  induction l with
  | nil => intro t; simp [consumeLoop]
  | cons a rest ih =>
    intro t
    unfold consumeLoop
    split
    · simp <;> omega
    · have := ih (t + 1); simp at this ⊢; omega

/-- **`parse_bcd` terminates** within (remaining bytes of the cursor + 1) turns of its `'outer: loop`, whatever the
nibbles are -/
theorem cff_parse_bcd_terminates (stop : Nat → Bool) (bytes : List Nat) :
    (consumeLoop stop bytes 0).1 ≤ bytes.length + 1 := by
  have := (consume_loop_terminates stop bytes 0).1; omega

/-- **one `next()` of the DICT `entries` iterator terminates** within (remaining tokens + 1) turns of its `loop`, and
leaves no more tokens than it found -/
theorem cff_dict_entries_next_terminates {Tok : Type} (stop : Tok → Bool) (tokens : List Tok) :
    (consumeLoop stop tokens 0).1 ≤ tokens.length + 1 ∧ (consumeLoop stop tokens 0).2.length ≤ tokens.length := by
  have := consume_loop_terminates stop tokens 0; omega

example : consumeLoop (fun b => b % 16 == 15 || b / 16 == 15) [0x12, 0x34, 0x5f, 0x99] 0 = (3, [0x99]) := by decide
example : consumeLoop (fun _ : Nat => false) [1, 2, 3] 0 = (4, []) := by decide

/-! ### From the entry states of the Rust

Indices are offsets from `contour.first()`, so `contour.first()` is 0 and a contour (`first_ix ..= last_ix`) has
`n ≥ 1` points.  translate/c02_autohint_loops.py checks the statements that set up each loop (table `ENTRY`). -/

/-- compute_directions, backward walk: entered with `first_ix = contour.first()`, `prev_ix = contour.prev(first_ix)` -/
theorem autohint_compute_directions_backward_walk_terminates_from_entry (o : Nat → Nat → Bool) (h : Nat → Nat → Nat)
    (n tick : Nat) (hn : 0 < n) :
    ∃ s', iter (dirsBackStep o h) (n + 1) ⟨cprev n 0, 0, n, tick⟩ = some s' :=
  let ⟨s', h1, _⟩ := autohint_compute_directions_backward_walk_terminates o h ⟨cprev n 0, 0, n, tick⟩
    (cprev_lt n 0 hn) hn
  ⟨s', h1⟩

/-- compute_directions: entered with `next_ix = first_ix`, where `first_ix` is `contour.first()` or one of the values
`prev_ix` took in the backward walk — in any case a point of the contour -/
theorem autohint_compute_directions_terminates_from_entry (o : Nat → Nat → Bool) (h : Nat → Nat → Nat)
    (n firstIx tick : Nat) (hf : firstIx < n) :
    ∃ s', iter (dirsStep o h) (n + 1) ⟨firstIx, firstIx, n, tick⟩ = some s' :=
  let ⟨s', h1, _⟩ := autohint_compute_directions_terminates o h ⟨firstIx, firstIx, n, tick⟩ hf hf
  ⟨s', h1⟩

/-- build_segments start search: entered with `point_ix = contour.first()`, `last_ix = point_ix` -/
theorem autohint_segment_start_search_terminates_from_entry (o : Nat → Nat → Bool) (h : Nat → Nat → Nat)
    (n tick : Nat) (hn : 0 < n) :
    ∃ s', iter (segStartStep o h) (n + 1) ⟨0, 0, n, tick⟩ = some s' :=
  let ⟨s', h1, _⟩ := autohint_segment_start_search_terminates o h ⟨0, 0, n, tick⟩ hn hn
  ⟨s', h1⟩

/-! ### `Contour::next` / `Contour::prev` (autohint/outline.rs; bodies compared textually on every run)

A `Contour` has `first_ix ≤ last_ix` (`UnscaledOutlineSink::push` creates it with `first_ix = last_ix` and only ever
increments `last_ix`). -/

/-- `Contour::next` of a point of the contour is a point of the contour, and in offsets from `first_ix` it is the
`cnext` the loop skeletons use -/
theorem contour_next_in_contour (first last i : Nat) (hfl : first ≤ last) (h1 : first ≤ i) (h2 : i ≤ last) :
    first ≤ contourNext first last i ∧ contourNext first last i ≤ last ∧
    contourNext first last i - first = cnext (last - first + 1) (i - first) := by
  unfold contourNext cnext
  split <;> split <;> omega

/-- `Contour::prev` of a point of the contour never underflows, is a point of the contour, and in offsets from
`first_ix` it is `cprev` -/
theorem contour_prev_in_contour (first last i : Nat) (hfl : first ≤ last) (h1 : first ≤ i) (h2 : i ≤ last) :
    ∃ j, contourPrev first last i = some j ∧ first ≤ j ∧ j ≤ last ∧
      j - first = cprev (last - first + 1) (i - first) := by
  unfold contourPrev cprev
  by_cases h : i ≤ first
  · exact ⟨last, by simp [h], hfl, Nat.le_refl _, by split <;> omega⟩
  · exact ⟨i - 1, by simp [h]; omega, by omega, by omega, by split <;> omega⟩

/-- entry of `align_weak_points`: `points` is the slice `contour.range() = first_ix .. last_ix + 1`, which is not empty, so
`let last_ix = points.len() - 1` does not underflow -/
theorem autohint_align_weak_points_entry_no_underflow (first last : Nat) (hfl : first ≤ last) :
    ¬ (last + 1 - first < 1) := by omega

/-- the check is not vacuous: outside a contour that starts at 0, `prev` of … nothing underflows either, but with the
guard removed it would: `0 - 1` -/
example : contourPrev 0 3 0 = some 3 ∧ contourPrev 2 5 2 = some 5 ∧ contourPrev 2 5 4 = some 3 := by decide

/-! ### Non-vacuity -/

/-- interpolate_deltas #2, every point has a delta and nothing returns (oracle id of the flag test found by search):
1 → 2 → 3 → 4, the 4th execution sees `point_ix > end_point_ix` -/
example : ∃ k, k < 4 ∧ iterGCount (deltaNextStep (fun c _ => c == k) (fun _ => fun _ => 0)) 5 ⟨1, 3, 0, 0⟩
    = some (false, ⟨4, 3, 0, 4⟩, 4) := by decide
/-- widths: the double step at the end of the table -/
example : iterGCount (widthsStep (fun _ _ => true) (fun _ _ => 0)) 5 ⟨1, 4, 0, 0⟩ = some (false, ⟨5, 4, 0, 3⟩, 3) := by decide

/-- insert_edge, never ordered: 3 → 2 → 1 → 0, the 4th execution sees `ix = 0` -/
example : iterGCount (insertEdgeStep (fun _ _ => false) (fun _ _ => 0)) 4 ⟨3, 0, 0, 0⟩ = some (false, ⟨0, 0, 0, 4⟩, 4) := by decide

/-- compute_directions, every point "near": once around a 4-point contour from `first_ix = 2` -/
example : iterCount (dirsStep (fun _ _ => true) (fun _ _ => 0)) 5 ⟨2, 2, 4, 0⟩ = some (⟨2, 2, 4, 4⟩, 4) := by decide
/-- no point near: each of the 4 outer executions runs the nested `while` from `contour.next(ix)` (havoc 0 ↦ 1)
to `next_ix`: 3 + 4 + 1 + 2 body entries of the nested loop, 14 ticks in all -/
example : iterCount (dirsStep (fun _ _ => false) (fun _ _ => 0)) 5 ⟨2, 2, 4, 0⟩ = some (⟨2, 2, 4, 14⟩, 4) := by decide
/-- the nested while alone: 1 → 2 → 3 → 0, the fourth execution sees `inter_ix = next_ix` and breaks -/
example : iterCount (dirsInterStep (fun _ _ => false) (fun _ _ => 0)) 5 ⟨1, 0, 4, 0⟩ = some (⟨0, 0, 4, 4⟩, 4) := by decide
/-- start search: every point on the major axis: back around, 1 → 0 → 3 → 2 → 1 -/
example : iterCount (segStartStep (fun _ _ => false) (fun _ _ => 0)) 5 ⟨1, 1, 4, 0⟩ = some (⟨1, 1, 4, 4⟩, 4) := by decide
/-- start search: the third point back is off axis: step forward again and stop, 1 → 0 → 3 → 2 ↦ 3 -/
example : iter (segStartStep (fun _ t => t == 3) (fun _ _ => 0)) 5 ⟨1, 1, 4, 0⟩ = some ⟨3, 1, 4, 3⟩ := by decide
/-- align_edge_points with the ring links: 3 → 0 → 1, three executions -/
example : iterCount (edgePtsStep (fun _ _ => false) (fun _ _ => 0) (cnext 4)) 5 ⟨3, 1, 4, 0⟩ = some (⟨1, 1, 4, 3⟩, 3) := by decide
/-- the ring hypothesis matters: links that cycle 0 ↔ 1 never reach point 3 -/
example : iter (edgePtsStep (fun _ _ => false) (fun _ _ => 0) (fun i => 1 - i)) 5 ⟨0, 3, 4, 0⟩ = none := by decide
/-- backward walk of compute_directions, no point far enough: 3 → 2 → 1 → 0, the 4th execution sees `prev_ix = first_ix` -/
example : iterCount (dirsBackStep (fun _ _ => false) (fun _ _ => 0)) 5 ⟨3, 0, 4, 0⟩ = some (⟨0, 0, 4, 4⟩, 4) := by decide
/-- main loop of build_segments from its entry state on a 4-point contour: exactly n + 1 = 5 executions, `passed` set -/
example : iterGCount (segMainStep (fun _ _ => false) (fun _ _ => 0)) 5 ⟨⟨2, 2, 4, 0⟩, false⟩
    = some (false, ⟨⟨2, 2, 4, 5⟩, true⟩, 5) := by decide
example : iterG (segMainStep (fun _ _ => false) (fun _ _ => 0)) 4 ⟨⟨2, 2, 4, 0⟩, false⟩ = none := by decide
/-- align_weak_points, no other point touched: skip nothing, step to 1, scan 1..5, leave by `break 'outer` at 6 > 5 -/
example : iterGCount (weakStep (fun _ _ => false) (fun _ _ => 0)) 7 ⟨0, 5, 0, 0⟩ = some (false, ⟨6, 5, 0, 8⟩, 1) := by decide
/-- every point touched (conditions true, `?` never returns: oracle id of the `?` found by search): the while skips to
`last_ix`, then `point_ix = last_ix + 1` leaves -/
example : ∃ k, k < 4 ∧ (iterG (weakStep (fun c _ => c != k) (fun _ _ => 0)) 7 ⟨0, 5, 0, 0⟩).map (fun r => r.2.last) = some 6 := by decide
/-- the hypothesis is satisfiable -/
example : ∀ i, i < 4 → cnext 4 i = cnext 4 i := fun _ _ => rfl

end FontVerif.C02
