/-
C02 — skrifa is total on hostile fonts: the other hand-written cyclic scan loops of the autohinter terminate.

Companion of Props/C02Blues.lean.  The models are regenerated from the Rust on every `./check C02` by
`translate/c02_autohint_loops.py` (Gen/AutohintLoops.lean, see its header for what is exact / oracle / dropped):

  * `dirsStep`, `dirsInterStep` — `Outline::compute_directions` (autohint/outline.rs): the `loop` that accumulates
    deltas around a contour until `next_ix` is back at `first_ix` — like the long-blue scan a port of a C `do … while`
    with a `continue`, which needs its own copy of the exit test — and its nested `while inter_ix != next_ix`;
  * `segStartStep` — `build_segments` (autohint/topo/segments.rs): the backward walk to the start of the edge a
    contour begins on;
  * `edgePtsStep` — `align_edge_points` (autohint/hint/outline.rs): the walk over the points of a segment along
    `Point::next` links, from `segment.first()` to `segment.last()`.

Indices are offsets from `contour.first()`; `n` is the number of points of the contour; the entry invariants are the
hypotheses (both indices inside the contour).  For `edgePtsStep` the link function is arbitrary and the ring invariant
`lnk i = cnext n i` — what `Outline::link_points` establishes: `next_ix = ix + 1`, the last point of a contour links to
the first — is an explicit hypothesis.  All theorems hold for every oracle `o` and havoc `h`.
-/
import FontVerif.Gen.AutohintLoops
import FontVerif.Lemmas.LoopIter
namespace FontVerif.C02
open FontVerif.LoopIter FontVerif.LoopIterLemmas FontVerif.Gen.AutohintLoops
set_option linter.unusedVariables false

/-- per-path closing tactic: the facts about the cyclic successor / predecessor at the current index are in the
context (`hc`, `hp`), the rest is linear arithmetic over the state literal -/
local macro "scan_path" : tactic =>
  `(tactic| first
    | (left; refine ⟨_, rfl, ?_⟩; dsimp only; omega)
    | (right; refine ⟨_, rfl, ?_⟩; dsimp only; omega))

/-! ### compute_directions -/

/-- the nested `while inter_ix != next_ix { …; inter_ix = contour.next(inter_ix) }` continues only from
`inter_ix ≠ next_ix`, with `inter_ix` advanced cyclically -/
theorem dirs_inter_step_advances (o : Nat → Nat → Bool) (h : Nat → Nat → Nat) (N : Nat) :
    AdvancesPre N 1 (dirsInterStep o h) := by
  intro s hN hl hf
  have hc := cnext_spec s.n s.last
  unfold dirsInterStep
  simp only []
  repeat' split
  all_goals first
    | scan_path
    | fail "compute_directions, nested while: a path continues without `inter_ix != next_ix` tested and `inter_ix = contour.next(inter_ix)`"

/-- **compute_directions, nested while**: exits within `n` body executions -/
theorem dirs_inter_loop_terminates (o : Nat → Nat → Bool) (h : Nat → Nat → Nat) (s : St)
    (hl : s.last < s.n) (hf : s.segFirst < s.n) :
    ∃ s', iter (dirsInterStep o h) (s.n + 1) s = some s' ∧ s'.n = s.n ∧ s.tick < s'.tick ∧ s'.tick ≤ s.tick + s.n := by
  have := iter_advances_pre s.n 1 _ (dirs_inter_step_advances o h s.n) s rfl hl hf
  simpa using this

/-- every `continue` / end of body of the outer loop of compute_directions is reached with `next_ix` advanced
cyclically and `next_ix ≠ first_ix`, and the nested `while` never leaves it stuck — whatever index `ix` holds -/
theorem dirs_step_advances (o : Nat → Nat → Bool) (h : Nat → Nat → Nat) (N : Nat) :
    Advances N (N + 1) (dirsStep o h) := by
  intro s hN hl hf
  have hc := cnext_spec s.n s.last
  have hlt := fun i => cnext_lt s.n i (by omega)
  unfold dirsStep next
  simp only []
  repeat' split
  all_goals first
    | scan_path
    | (exfalso
       exact iter_pre_none_absurd 1 _ (dirs_inter_step_advances o h) _ _ ‹iter _ _ _ = none› rfl
         (hlt _) (hlt _))
    | (have hr := iter_pre_some_result 1 _ (dirs_inter_step_advances o h) _ _ _ ‹iter _ _ _ = some _› rfl
         (hlt _) (hlt _)
       dsimp only at hr
       scan_path)
    | fail "compute_directions: a `continue` / end-of-body path is reached without `next_ix = contour.next(..)` and the test `if next_ix == first_ix { break; }`"

/-- **compute_directions terminates**: for every oracle / havoc and every contour of `n` points with `next_ix`,
`first_ix` inside it, the loop exits within `n + 1` body executions and at most `(n + 1) * (n + 2)` loop-body entries
(its own plus those of the nested `while`), never stuck. -/
theorem autohint_compute_directions_terminates (o : Nat → Nat → Bool) (h : Nat → Nat → Nat) (s : St)
    (hl : s.last < s.n) (hf : s.segFirst < s.n) :
    ∃ s', iter (dirsStep o h) (s.n + 1) s = some s' ∧ s.tick < s'.tick ∧
      s'.tick ≤ s.tick + (s.n + 1) * (s.n + 2) := by
  have hd := dist_le s hf
  obtain ⟨s', h1, _, _, h4, h5⟩ :=
    iter_advances s.n (s.n + 1) (dirsStep o h) (dirs_step_advances o h s.n) (s.n + 1) s rfl hl hf (by omega)
  refine ⟨s', h1, h4, ?_⟩
  have : dist s * (s.n + 1) ≤ (s.n + 1) * (s.n + 2) := Nat.mul_le_mul (by omega) (by omega)
  omega

/-! ### build_segments: start-of-edge search -/

/-- every end of body is reached with `point_ix` moved back cyclically and `point_ix ≠ last_ix` -/
theorem seg_start_step_retreats (o : Nat → Nat → Bool) (h : Nat → Nat → Nat) (N : Nat) :
    Retreats N 1 (segStartStep o h) := by
  intro s hN hl hf
  have hp := cprev_spec s.n s.last
  unfold segStartStep
  simp only []
  repeat' split
  all_goals first
    | scan_path
    | fail "build_segments start search: a path continues without `point_ix = contour.prev(point_ix)` and the test `if point_ix == last_ix { break; }`"

/-- **build_segments start search terminates** within `n` body executions -/
theorem autohint_segment_start_search_terminates (o : Nat → Nat → Bool) (h : Nat → Nat → Nat) (s : St)
    (hl : s.last < s.n) (hf : s.segFirst < s.n) :
    ∃ s', iter (segStartStep o h) (s.n + 1) s = some s' ∧ s.tick < s'.tick ∧ s'.tick ≤ s.tick + s.n := by
  obtain ⟨s', h1, _, h3, h4⟩ := iter_retreats s.n 1 _ (seg_start_step_retreats o h s.n) s rfl hl hf
  exact ⟨s', h1, h3, by omega⟩

/-! ### align_edge_points -/

/-- under the ring invariant the body continues only from `point_ix ≠ last_ix`, with `point_ix` advanced -/
theorem edge_pts_step_advances (o : Nat → Nat → Bool) (h : Nat → Nat → Nat) (lnk : Nat → Nat) (N : Nat)
    (hring : ∀ i, i < N → lnk i = cnext N i) : AdvancesPre N 1 (edgePtsStep o h lnk) := by
  intro s hN hl hf
  have hk := hring s.last (by omega)
  rw [← hN] at hk
  unfold edgePtsStep
  simp only []
  repeat' split
  all_goals first
    | scan_path
    | fail "align_edge_points: a path continues without the test `if point_ix == last_ix { break; }` and `point_ix = point.next()`"

/-- **align_edge_points terminates** within `n` body executions, PROVIDED the `next` links of the contour's points
are the cyclic successor (`Outline::link_points`) and `segment.first()`, `segment.last()` lie in one contour. -/
theorem autohint_align_edge_points_terminates (o : Nat → Nat → Bool) (h : Nat → Nat → Nat) (lnk : Nat → Nat) (s : St)
    (hring : ∀ i, i < s.n → lnk i = cnext s.n i) (hl : s.last < s.n) (hf : s.segFirst < s.n) :
    ∃ s', iter (edgePtsStep o h lnk) (s.n + 1) s = some s' ∧ s.tick < s'.tick ∧ s'.tick ≤ s.tick + s.n := by
  obtain ⟨s', h1, _, h3, h4⟩ := iter_advances_pre s.n 1 _ (edge_pts_step_advances o h lnk s.n hring) s rfl hl hf
  exact ⟨s', h1, h3, by omega⟩

/-! ### Non-vacuity -/

/-- compute_directions, every point "near": once around a 4-point contour from `first_ix = 2` -/
example : iterCount (dirsStep (fun _ _ => true) (fun _ _ => 0)) 5 ⟨2, 2, 4, 0⟩ = some (⟨2, 2, 4, 4⟩, 4) := by decide
/-- no point near: each of the 4 outer executions runs the nested `while` from `contour.next(ix)` (havoc 0 ↦ 1)
to `next_ix`: 3 + 4 + 1 + 2 body entries of the nested loop, 14 ticks in all -/
example : iterCount (dirsStep (fun _ _ => false) (fun _ _ => 0)) 5 ⟨2, 2, 4, 0⟩ = some (⟨2, 2, 4, 14⟩, 4) := by decide
/-- the nested while alone: 1 → 2 → 3 → 0, the fourth execution sees `inter_ix = next_ix` and breaks -/
example : iterCount (dirsInterStep (fun _ _ => false) (fun _ _ => 0)) 5 ⟨1, 0, 4, 0⟩ = some (⟨0, 0, 4, 4⟩, 4) := by decide
/-- start search: every point on the major axis: back around, 1 → 0 → 3 → 2 → 1 -/
example : iterCount (segStartStep (fun _ _ => false) (fun _ _ => 0)) 5 ⟨1, 1, 4, 0⟩ = some (⟨1, 1, 4, 4⟩, 4) := by decide
/-- start search: the third point back is off axis: step forward again and stop, 1 → 0 → 3 → 2 ↦ 3 -/
example : iter (segStartStep (fun _ t => t == 3) (fun _ _ => 0)) 5 ⟨1, 1, 4, 0⟩ = some ⟨3, 1, 4, 3⟩ := by decide
/-- align_edge_points with the ring links: 3 → 0 → 1, three executions -/
example : iterCount (edgePtsStep (fun _ _ => false) (fun _ _ => 0) (cnext 4)) 5 ⟨3, 1, 4, 0⟩ = some (⟨1, 1, 4, 3⟩, 3) := by decide
/-- the ring hypothesis matters: links that cycle 0 ↔ 1 never reach point 3 -/
example : iter (edgePtsStep (fun _ _ => false) (fun _ _ => 0) (fun i => 1 - i)) 5 ⟨0, 3, 4, 0⟩ = none := by decide
/-- the hypothesis is satisfiable -/
example : ∀ i, i < 4 → cnext 4 i = cnext 4 i := fun _ _ => rfl

end FontVerif.C02
