/-
C02 — skrifa and IFT client APIs are total on hostile fonts and arguments.

Core 1b: the loop-carrying DATA opcodes of the TrueType interpreter (Model/InterpLoops.lean ⇄ skrifa hint/engine
outline.rs, delta.rs, graphics.rs `op_sloop`, value_stack.rs).  Model/Interp.lean proves that `Engine::run` dispatches
at most 1 000 001 instructions whatever the data opcodes do, PROVIDED each of them returns.  Here each loop-carrying
data opcode is given its real loop structure (every loop is a structural recursion on its iteration count, so it
returns) and the work of ONE dispatch is bounded explicitly: `loop_counter` never exceeds 0xFFFF, and no opcode
performs more than `65536 + (points of both zones) + (value stack depth)` iterations.
-/
import FontVerif.Lemmas.InterpLoops
namespace FontVerif.C02
open FontVerif FontVerif.Interp FontVerif.InterpLoops FontVerif.InterpLoopsLemmas
set_option linter.unusedVariables false

/-! `Wf`, `work`, `Step` (the per-dispatch contract of a data opcode) are defined at the end of Model/InterpLoops.lean. -/

theorem step_refl (g : G) (vs : List Int) (h : Wf g) : Step g vs g :=
  ⟨h, by unfold work; omega, rfl, rfl, rfl, rfl⟩

theorem pop_len {ped : Bool} {vs vs' : List Int} {v : Int} (h : pop ped vs = .ok (v, vs')) : vs'.length ≤ vs.length := by
  unfold pop at h
  split at h
  · simp at h; obtain ⟨_, h2⟩ := h; subst h2; simp
  · split at h <;> simp at h
    obtain ⟨_, h2⟩ := h; subst h2; simp

theorem popThen_ok {ped : Bool} {vs : List Int} {f : Int → List Int → OpR} {r : List Int × G}
    (h : popThen ped vs f = .ok r) : ∃ v vs1, pop ped vs = .ok (v, vs1) ∧ f v vs1 = .ok r := by
  unfold popThen at h
  split at h
  · simp at h
  · rename_i v vs1 hp; exact ⟨v, vs1, hp, h⟩

/-- the SLOOP-driven loops: exactly `loop_counter ≤ 0xFFFF` iterations, then `loop_counter = 1` -/
theorem counted_step (ped : Bool) (vs0 vs vs' : List Int) (g g' : G) (body : Nat → Except Err Unit) (hw : Wf g)
    (hl : vs.length ≤ vs0.length) (h : counted ped vs g body = .ok (vs', g')) : Step g vs0 g' := by
  unfold counted at h
  split at h
  · simp at h
  · rename_i vs1 k hp
    have ⟨hk, _⟩ := popLoop_ok ped body _ _ _ _ _ hp
    simp at h
    obtain ⟨_, h2⟩ := h
    subst h2
    refine ⟨⟨by simp, hw.2⟩, ?_, rfl, rfl, rfl, rfl⟩
    have := hw.1
    simp [work] <;> omega

/-- **SLOOP clamps**: whatever is popped, the new loop counter is at most 0xFFFF -/
theorem sloop_clamped (ped : Bool) (vs vs' : List Int) (g g' : G) (h : opSloop ped vs g = .ok (vs', g')) :
    g'.loop ≤ 65535 := by
  unfold opSloop at h
  obtain ⟨n, vs1, hp, h⟩ := popThen_ok h
  split at h
  · simp at h
  · simp at h
    obtain ⟨_, h2⟩ := h
    subst h2
    simp
    omega

theorem contour_lt (g : G) (hw : Wf g) (z : Nat) (e : Nat) (h : e ∈ g.zoneContours z) : e < 65536 := by
  unfold G.zoneContours at h
  split at h
  · simp at h; omega
  · exact hw.2 e h

theorem shc_stop_le (g : G) (hw : Wf g) (c stop : Nat)
    (h : (if g.zp2 = 0 then Except.ok (g.zoneLen 0) else
            (match (g.zoneContours g.zp2)[c]? with | some e => Except.ok (e + 1) | none => Except.error E_CONTOUR))
          = (Except.ok stop : Except Err Nat)) : stop ≤ 65536 + g.twiPts := by
  split at h
  · simp at h; subst h; simp [G.zoneLen]
  · split at h
    · rename_i e he
      simp at h; subst h
      have := contour_lt g hw g.zp2 e (List.mem_of_getElem? he)
      omega
    · simp at h

theorem shz_stop_le (g : G) (hw : Wf g) : shzStop g ≤ 65536 + g.twiPts := by
  unfold shzStop
  split
  · simp [G.zoneLen]
  · split
    · rename_i e he
      have := contour_lt g hw g.zp2 e (List.mem_of_getLast? he)
      omega
    · omega

theorem zoneLen_le (g : G) (z : Nat) : g.zoneLen z ≤ g.glyphPts + g.twiPts := by
  unfold G.zoneLen; split <;> omega

/-- **one dispatch of a loop-carrying data opcode is bounded**: if it returns `Ok`, it performed at most
    `work g vs ≤ 65536 + points + stack depth` loop iterations, the loop counter is again at most 0xFFFF and the zone
    sizes are unchanged.  (If it returns `Err`, it stopped even earlier: every loop here is a structural recursion on
    its iteration count, which is what makes `semLoopOp` a total function.) -/
theorem loop_opcode_bounded (ped : Bool) (op : Nat) (vs vs' : List Int) (g g' : G) (hw : Wf g)
    (h : semLoopOp ped op vs g = some (.ok (vs', g'))) : Step g vs g' := by
  unfold semLoopOp at h
  -- SLOOP
  by_cases hc0 : op = 0x17
  · rw [if_pos hc0] at h
    have h := Option.some.inj h
    have hc := sloop_clamped ped vs vs' g g' h
    unfold opSloop at h
    obtain ⟨n, vs1, hp, h⟩ := popThen_ok h
    split at h
    · simp at h
    · simp at h; obtain ⟨_, h2⟩ := h; subst h2
      exact ⟨⟨hc, hw.2⟩, by (simp [work] <;> omega), rfl, rfl, rfl, rfl⟩
  -- SRP0-2: registers only
  rw [if_neg hc0] at h
  by_cases hc1 : op = 0x10
  · rw [if_pos hc1] at h
    have h := Option.some.inj h
    unfold opSrp at h
    obtain ⟨n, vs1, hp, h⟩ := popThen_ok h
    simp at h; obtain ⟨_, h2⟩ := h; subst h2
    refine ⟨⟨?_, ?_⟩, ?_, ?_, ?_, ?_, ?_⟩ <;> (repeat' split) <;> first | exact hw.1 | exact hw.2 | rfl | (simp [work] <;> omega)
  rw [if_neg hc1] at h
  by_cases hc2 : op = 0x11
  · rw [if_pos hc2] at h
    have h := Option.some.inj h
    unfold opSrp at h
    obtain ⟨n, vs1, hp, h⟩ := popThen_ok h
    simp at h; obtain ⟨_, h2⟩ := h; subst h2
    refine ⟨⟨?_, ?_⟩, ?_, ?_, ?_, ?_, ?_⟩ <;> (repeat' split) <;> first | exact hw.1 | exact hw.2 | rfl | (simp [work] <;> omega)
  rw [if_neg hc2] at h
  by_cases hc3 : op = 0x12
  · rw [if_pos hc3] at h
    have h := Option.some.inj h
    unfold opSrp at h
    obtain ⟨n, vs1, hp, h⟩ := popThen_ok h
    simp at h; obtain ⟨_, h2⟩ := h; subst h2
    refine ⟨⟨?_, ?_⟩, ?_, ?_, ?_, ?_, ?_⟩ <;> (repeat' split) <;> first | exact hw.1 | exact hw.2 | rfl | (simp [work] <;> omega)
  -- SZP0-2, SZPS
  rw [if_neg hc3] at h
  by_cases hc4 : op = 0x13
  · rw [if_pos hc4] at h
    have h := Option.some.inj h
    unfold opSzp at h
    obtain ⟨n, vs1, hp, h⟩ := popThen_ok h
    split at h
    · simp at h
    · simp at h; obtain ⟨_, h2⟩ := h; subst h2
      refine ⟨⟨?_, ?_⟩, ?_, ?_, ?_, ?_, ?_⟩ <;> (repeat' split) <;> first | exact hw.1 | exact hw.2 | rfl | (simp [work] <;> omega)
  rw [if_neg hc4] at h
  by_cases hc5 : op = 0x14
  · rw [if_pos hc5] at h
    have h := Option.some.inj h
    unfold opSzp at h
    obtain ⟨n, vs1, hp, h⟩ := popThen_ok h
    split at h
    · simp at h
    · simp at h; obtain ⟨_, h2⟩ := h; subst h2
      refine ⟨⟨?_, ?_⟩, ?_, ?_, ?_, ?_, ?_⟩ <;> (repeat' split) <;> first | exact hw.1 | exact hw.2 | rfl | (simp [work] <;> omega)
  rw [if_neg hc5] at h
  by_cases hc6 : op = 0x15
  · rw [if_pos hc6] at h
    have h := Option.some.inj h
    unfold opSzp at h
    obtain ⟨n, vs1, hp, h⟩ := popThen_ok h
    split at h
    · simp at h
    · simp at h; obtain ⟨_, h2⟩ := h; subst h2
      refine ⟨⟨?_, ?_⟩, ?_, ?_, ?_, ?_, ?_⟩ <;> (repeat' split) <;> first | exact hw.1 | exact hw.2 | rfl | (simp [work] <;> omega)
  rw [if_neg hc6] at h
  by_cases hc7 : op = 0x16
  · rw [if_pos hc7] at h
    have h := Option.some.inj h
    unfold opSzp at h
    obtain ⟨n, vs1, hp, h⟩ := popThen_ok h
    split at h
    · simp at h
    · simp at h; obtain ⟨_, h2⟩ := h; subst h2
      refine ⟨⟨?_, ?_⟩, ?_, ?_, ?_, ?_, ?_⟩ <;> (repeat' split) <;> first | exact hw.1 | exact hw.2 | rfl | (simp [work] <;> omega)
  -- FLIPPT
  rw [if_neg hc7] at h
  by_cases hc8 : op = 0x80
  · rw [if_pos hc8] at h
    split at h
    · have h := Option.some.inj h
      simp at h; obtain ⟨_, h2⟩ := h; subst h2
      exact ⟨⟨by simp, hw.2⟩, by (simp [work] <;> omega), rfl, rfl, rfl, rfl⟩
    · exact counted_step ped vs vs vs' g g' _ hw (Nat.le_refl _) (Option.some.inj h)
  -- FLIPRGON / FLIPRGOFF
  rw [if_neg hc8] at h
  by_cases hc9 : op = 0x81 ∨ op = 0x82
  · rw [if_pos hc9] at h
    have h := Option.some.inj h
    unfold opFlipRange at h
    obtain ⟨hi, vs1, hp, h⟩ := popThen_ok h
    obtain ⟨lo, vs2, hp2, h⟩ := popThen_ok h
    simp only [] at h
    split at h
    · simp at h
    · split at h
      · simp at h; obtain ⟨_, h2⟩ := h; subst h2
        exact ⟨hw, by (simp [work] <;> omega), rfl, rfl, rfl, rfl⟩
      · split at h
        · rename_i hr
          simp at h; obtain ⟨_, h2⟩ := h; subst h2
          refine ⟨⟨hw.1, hw.2⟩, ?_, rfl, rfl, rfl, rfl⟩
          simp [work] <;> omega
        · simp at h
  -- SHP
  rw [if_neg hc9] at h
  by_cases hc10 : op = 0x32 ∨ op = 0x33
  · rw [if_pos hc10] at h
    have h := Option.some.inj h
    unfold opShp at h
    split at h
    · simp at h
    · exact counted_step ped vs vs vs' g g' _ hw (Nat.le_refl _) h
  -- SHC
  rw [if_neg hc10] at h
  by_cases hc11 : op = 0x34 ∨ op = 0x35
  · rw [if_pos hc11] at h
    have h := Option.some.inj h
    unfold opShc at h
    obtain ⟨c, vs1, hp, h⟩ := popThen_ok h
    simp only [] at h
    split at h
    · simp at h; obtain ⟨_, h2⟩ := h; subst h2; exact step_refl g vs hw
    · split at h
      · simp at h
      · split at h
        · simp at h
        · split at h
          · simp at h
          · split at h
            · simp at h
            · rename_i k hk
              rename_i stop hstop _
              have hk2 := rangeLoop_ok _ _ _ _ _ _ hk
              have hs := shc_stop_le g hw _ _ hstop
              simp at h; obtain ⟨_, h2⟩ := h; subst h2
              refine ⟨⟨hw.1, hw.2⟩, ?_, rfl, rfl, rfl, rfl⟩
              simp [work] <;> omega
  -- SHZ
  rw [if_neg hc11] at h
  by_cases hc12 : op = 0x36 ∨ op = 0x37
  · rw [if_pos hc12] at h
    have h := Option.some.inj h
    unfold opShz at h
    obtain ⟨e, vs1, hp, h⟩ := popThen_ok h
    split at h
    · simp at h
    · split at h
      · simp at h
      · split at h
        · simp at h
        · rename_i k hk
          have hk2 := rangeLoop_ok _ _ _ _ _ _ hk
          have hs := shz_stop_le g hw
          simp at h; obtain ⟨_, h2⟩ := h; subst h2
          refine ⟨⟨hw.1, hw.2⟩, ?_, rfl, rfl, rfl, rfl⟩
          simp [work] <;> omega
  -- SHPIX
  rw [if_neg hc12] at h
  by_cases hc13 : op = 0x38
  · rw [if_pos hc13] at h
    have h := Option.some.inj h
    obtain ⟨a, vs1, hp, h⟩ := popThen_ok h
    exact counted_step ped vs vs1 vs' g g' _ hw (pop_len hp) h
  -- IP
  rw [if_neg hc13] at h
  by_cases hc14 : op = 0x39
  · rw [if_pos hc14] at h
    have h := Option.some.inj h
    unfold opIp at h
    simp only [] at h
    split at h
    · simp at h; obtain ⟨_, h2⟩ := h; subst h2
      exact ⟨⟨by simp, hw.2⟩, by (simp [work] <;> omega), rfl, rfl, rfl, rfl⟩
    · split at h
      · simp at h
      · split at h
        · simp at h
        · split at h
          · simp at h
          · rename_i vs1 k hp
            have ⟨hk, _⟩ := popLoop_ok ped _ _ _ _ _ _ hp
            simp at h; obtain ⟨_, h2⟩ := h; subst h2
            refine ⟨⟨by simp, hw.2⟩, ?_, rfl, rfl, rfl, rfl⟩
            have := hw.1
            simp [work] <;> omega
  -- ALIGNRP
  rw [if_neg hc14] at h
  by_cases hc15 : op = 0x3C
  · rw [if_pos hc15] at h
    exact counted_step ped vs vs vs' g g' _ hw (Nat.le_refl _) (Option.some.inj h)
  -- DELTAP / DELTAC
  rw [if_neg hc15] at h
  by_cases hc16 : op = 0x5D ∨ op = 0x71 ∨ op = 0x72 ∨ op = 0x73 ∨ op = 0x74 ∨ op = 0x75
  · rw [if_pos hc16] at h
    have h := Option.some.inj h
    unfold opDelta at h
    obtain ⟨n, vs1, hp, h⟩ := popThen_ok h
    have := pop_len hp
    simp only [] at h
    split at h
    · simp at h
    · split at h
      · simp at h
      · rename_i vs2 k hk
        have hk2 := deltaLoop_ok ped _ _ _ _ _ _ hk
        simp at h; obtain ⟨_, h2⟩ := h; subst h2
        refine ⟨⟨hw.1, hw.2⟩, ?_, rfl, rfl, rfl, rfl⟩
        simp [work] <;> omega
  -- CINDEX
  rw [if_neg hc16] at h
  by_cases hc17 : op = 0x25
  · rw [if_pos hc17] at h
    have h := Option.some.inj h
    unfold opCindex at h
    split at h
    · simp at h
    · split at h
      · simp at h
      · simp at h; obtain ⟨_, h2⟩ := h; subst h2; exact step_refl g _ hw
  -- MINDEX
  rw [if_neg hc17] at h
  by_cases hc18 : op = 0x26
  · rw [if_pos hc18] at h
    have h := Option.some.inj h
    unfold opMindex at h
    cases vs with
    | nil => simp at h
    | cons top rest =>
      simp only [] at h
      split at h
      · simp at h
      · rename_i v hv
        split at h
        · simp at h
        · simp at h; obtain ⟨_, h2⟩ := h; subst h2
          refine ⟨⟨hw.1, hw.2⟩, ?_, rfl, rfl, rfl, rfl⟩
          have : asUsize top < (top :: rest).length := by
            by_cases hlt : asUsize top < (top :: rest).length
            · exact hlt
            · rw [List.getElem?_eq_none (by omega)] at hv; simp at hv
          simp [work] at this ⊢; omega
  rw [if_neg hc18] at h
  by_cases hc19 : op = 0x30 ∨ op = 0x31
  · rw [if_pos hc19] at h
    have h := Option.some.inj h
    simp at h; obtain ⟨_, h2⟩ := h; subst h2
    refine ⟨⟨?_, ?_⟩, ?_, ?_, ?_, ?_, ?_⟩ <;> (repeat' split) <;> first | exact hw.1 | exact hw.2 | rfl | (simp [work] <;> omega)
  rw [if_neg hc19] at h
  -- SVTCA / SFVTCA
  by_cases hc20 : op = 0x00 ∨ op = 0x04
  · rw [if_pos hc20] at h
    have h := Option.some.inj h
    simp at h; obtain ⟨_, h2⟩ := h; subst h2
    exact ⟨⟨hw.1, hw.2⟩, by (simp [work] <;> omega), rfl, rfl, rfl, rfl⟩
  rw [if_neg hc20] at h
  by_cases hc21 : op = 0x01 ∨ op = 0x05
  · rw [if_pos hc21] at h
    have h := Option.some.inj h
    simp at h; obtain ⟨_, h2⟩ := h; subst h2
    exact ⟨⟨hw.1, hw.2⟩, by (simp [work] <;> omega), rfl, rfl, rfl, rfl⟩
  rw [if_neg hc21] at h
  simp at h

/-- **the loop counter stays clamped** across every opcode of the correspondence semantics (the loop opcodes above;
    every other opcode leaves the data state alone) -/
theorem loop_counter_invariant (ped : Bool) (op : Nat) (bytes : List Nat) (vs vs' : List Int) (g g' : G) (hw : Wf g)
    (h : semLoops ped op bytes (vs, g) = .ok (vs', g')) : Wf g' := by
  unfold semLoops at h
  simp only [] at h
  split at h
  · rename_i r hr
    subst h
    exact (loop_opcode_bounded ped op vs vs' g g' hw hr).1
  · split at h
    · simp at h
    · simp at h; obtain ⟨_, h2⟩ := h; subst h2; exact hw

/-- the state `Engine::reset` gives every program is well formed (`loop_counter = 1`; contour end points are `u16`) -/
theorem reset_wf (g : G) (hc : ∀ c ∈ g.glyphContours, c < 65536) : Wf { g with loop := 1 } := ⟨by simp, hc⟩

/-- in PEDANTIC mode a point loop needs one stack value per iteration: it cannot run longer than the stack is deep -/
theorem pedantic_loop_le_stack (body : Nat → Except Err Unit) (vs vs' : List Int) (g g' : G)
    (h : counted true vs g body = .ok (vs', g')) : g.loop ≤ vs.length := by
  unfold counted at h
  split at h
  · simp at h
  · rename_i vs1 k hp
    exact popLoop_pedantic body _ _ _ _ _ hp

/-- in NON-pedantic mode an empty stack yields zeros, so ONLY the clamp bounds the loop: with an empty stack and a
    valid point 0 the loop runs its full count -/
theorem nonpedantic_loop_runs_full_count (n : Nat) (k : Nat) :
    popLoop false (fun _ => .ok ()) n [] k = .ok ([], k + n) := by
  induction n generalizing k with
  | zero => rfl
  | succ n ih => unfold popLoop; simp [pop]; rw [ih]; congr 2; omega

/-- DELTAP / DELTAC: the exception count is cut down to half the stack depth before the loop starts -/
theorem delta_count_le_half_stack (ped : Bool) (op : Nat) (n : Int) (vs vs' : List Int) (g g' : G)
    (h : opDelta ped op (n :: vs) g = .ok (vs', g')) : g'.iters ≤ g.iters + vs.length / 2 := by
  unfold opDelta at h
  obtain ⟨n1, vs1, hp, h⟩ := popThen_ok h
  simp [pop] at hp
  obtain ⟨hp1, hp2⟩ := hp
  subst hp1; subst hp2
  simp only [] at h
  split at h
  · simp at h
  · split at h
    · simp at h
    · rename_i vs2 k hk
      have hk2 := deltaLoop_ok ped _ _ _ _ _ _ hk
      simp at h; obtain ⟨_, h2⟩ := h; subst h2
      simp; omega

/-- `Zone::iup`: linear in the number of points of the glyph zone -/
theorem iup_work_le (touched : Nat → Bool) (n : Nat) (hn : 1 ≤ n) (contours : List Nat) :
    InterpLoops.iup touched n contours 0 0 ≤ 4 * n := by
  have := iup_le touched n hn contours 0 0 (by omega)
  omega

/-! ### non-vacuity -/

/-- glyph zone of 7 points (3 + 4 phantom), one contour ending at point 2 -/
def gEx : G := { cap := 32, glyphPts := 7, glyphContours := [2] }
example : Wf gEx := ⟨by decide, by decide⟩
/-- `SLOOP 3; SHP[1]` with points 0 1 2 on the stack: three iterations, loop counter back to 1 -/
example : (semLoopOp true 0x33 [0, 1, 2] { gEx with loop := 3 }).map (·.toOption.map (fun r => (r.1, r.2.loop, r.2.iters)))
    = some (some ([], 1, 3)) := by decide +kernel
/-- SLOOP with 2^31 - 1: clamped -/
example : (semLoopOp false 0x17 [2147483647] gEx).map (·.toOption.map (·.2.loop)) = some (some 65535) := by decide +kernel
/-- SLOOP -1: NegativeLoopCounter -/
example : (match semLoopOp false 0x17 [-1] gEx with | some (.error e) => e == E_NEGLOOP | _ => false) = true := by
  decide +kernel
/-- SHP on point 7 of a 7-point zone: InvalidPointIndex; pedantic empty stack: ValueStackUnderflow -/
example : (match semLoopOp true 0x33 [7] gEx with | some (.error e) => e == E_POINT | _ => false) = true := by
  decide +kernel
example : (match semLoopOp true 0x33 [] gEx with | some (.error e) => e == Err.vsUnderflow | _ => false) = true := by
  decide +kernel
/-- MINDEX 2 on [2, a, b, c] (top first): c moves to the top -/
example : (semLoopOp true 0x26 [2, 10, 20, 30] gEx).map (·.toOption.map (·.1)) = some (some [20, 10, 30]) := by decide +kernel
/-- IUP over a 7-point zone with one touched point -/
example : InterpLoops.iup (fun i => i == 1) 7 [2] 0 0 ≤ 28 := by decide +kernel

end FontVerif.C02
