/-
C01 (hand-written code) — the TrueType bytecode decoder of read-fonts
(read-fonts/src/tables/glyf/bytecode/{decode,instruction,opcode}.rs ⇄ Model/HandBytecode.lean): for every byte
string and EVERY program counter (an external `usize`, also past the end or `usize::MAX`) `Decoder::decode` returns
`None`, `Some(Err)` or an instruction whose operand bytes lie inside the bytecode — no `usize` `+` / `-`, no `i32`
product and no table index of `decode_inner` leaves its range — and `decode_all` ends after at most `len − pc` items.
Tied to the real functions by harness group `glyf.bytecode.model` (`hy.dec`, `hy.op`).
-/
import FontVerif.Lemmas.HandBytecode
set_option linter.unusedVariables false
set_option linter.unusedSimpArgs false
namespace FontVerif.C01HandBytecode
open FontVerif FontVerif.ReadIter FontVerif.HandBytecode

/-- **`OPCODE_LENGTHS[self as usize]` is never out of bounds and every entry is −1, −2 (NPUSHB / NPUSHW) or a
length 1..17**: hence `opcode_len.abs() * inline_count + 2 ≤ 512` fits the `i32` and `next_pc ≥ inline_start`. -/
theorem opcode_len_total (b : Nat) (hb : b < 256) :
    ∃ l, opLen b = some l ∧ (l = -1 ∨ l = -2 ∨ (1 ≤ l ∧ l ≤ 17)) := opLen_range b hb

/-- **`Decoder::decode` is total and hands out in-range operands, for every `pc`**: it is `None` exactly when `pc`
is not inside the bytecode; otherwise `Err` (the decoder's `pc` unchanged) or an instruction at `pc` whose inline
operand bytes `start .. start + size` lie inside the bytecode, with the new `pc` strictly greater and at most `len`.
(`len ≤ isize::MAX` holds for every Rust slice.) -/
theorem decode_total (d : List Nat) (pc : Nat) (hlen : d.length ≤ 9223372036854775807) (hbytes : ∀ x ∈ d, x < 256) :
    (decode d pc).1 ≠ .trap ∧
    ((decode d pc).1 = .none ↔ d.length ≤ pc) ∧
    ((decode d pc).1 = .err → (decode d pc).2 = pc) ∧
    (∀ op p st sz w, (decode d pc).1 = .ok op p st sz w →
      p = pc ∧ pc < (decode d pc).2 ∧ (decode d pc).2 ≤ d.length ∧ st + sz ≤ d.length) := by
  unfold decode
  cases hg : d[pc]? with
  | none =>
    have : d.length ≤ pc := by simpa using hg
    simp [this]
  | some b =>
    have hpc : pc < d.length := (List.getElem?_eq_some_iff.mp hg).1
    have hb : b < 256 := hbytes b (List.mem_of_getElem? hg)
    obtain ⟨h1, h2, h3, h4⟩ := decodeInner_facts d pc b hb hpc hlen hbytes
    simp only
    refine ⟨h1, ⟨fun h => absurd h h2, fun h => by omega⟩, h3, h4⟩

/-- **`decode_all` terminates within `len − pc` items and never panics**: every `Ok` item moves the program counter
forward inside the bytecode, the first `Err` is the last item (`failed`), and a `pc` outside the bytecode yields
nothing.  The model's fuel `len + 2` always suffices. -/
theorem decodeAll_bounded (d : List Nat) (pc : Nat) (hlen : d.length ≤ 9223372036854775807)
    (hbytes : ∀ x ∈ d, x < 256) :
    ∃ evs, allTrace d pc = some evs ∧ evs.length ≤ d.length - pc ∧ trapped evs = false := by
  let μ : ASt → Nat := fun s => if s.failed then 0 else d.length - s.pc
  have hstep : ∀ s : ASt, (allStep d s).1 ≠ .trap ∧ ((allStep d s).1 ≠ .done → μ (allStep d s).2 < μ s) := by
    intro s
    obtain ⟨t1, t2, t3, t4⟩ := decode_total d s.pc hlen hbytes
    unfold allStep
    by_cases hf : s.failed = true
    · simp [hf]
    · simp only [hf, Bool.false_eq_true, if_false]
      rcases hres : decode d s.pc with ⟨r, pc'⟩
      rw [hres] at t1 t2 t3 t4
      simp only at t1 t2 t3 t4
      cases r with
      | none => simp
      | trap => exact absurd rfl t1
      | err =>
        have hlt : s.pc < d.length := by
          by_cases h : d.length ≤ s.pc
          · have := t2.mpr h; cases this
          · omega
        simp only [μ, hf, if_false]
        exact ⟨by simp, fun _ => by simp; omega⟩
      | ok op p st sz w =>
        obtain ⟨_, h2, h3, _⟩ := t4 op p st sz w rfl
        simp only [μ, hf, if_false]
        exact ⟨by simp, fun _ => by simp; omega⟩
  obtain ⟨evs, he, hl⟩ := run_complete (allStep d) μ (fun _ => True) (fun _ _ => trivial)
    (fun s _ => (hstep s).2) (d.length + 2) ⟨pc, false⟩ trivial (by simp [μ]; omega)
  refine ⟨evs, he, by simpa [μ] using hl, ?_⟩
  exact not_trapped (allStep d) (fun _ => True) (fun _ _ => trivial) (fun s _ => (hstep s).1) _ _ _ trivial he

/-- **`InlineOperands::values` yields exactly `InlineOperands::len()` values**: one per byte, or one per whole
pair of bytes for word operands (`chunks_exact(2)`: `chunk[0]`, `chunk[1]` always exist; an odd trailing byte is
dropped) -/
theorem operandValues_length (bytes : List Nat) (words : Bool) :
    (operandValues bytes words).length = operandLen bytes.length words := by
  have hw : ∀ (n : Nat) (bs : List Nat), bs.length ≤ n → (wordValues bs).length = bs.length / 2 := by
    intro n
    induction n with
    | zero => intro bs h; cases bs with
      | nil => rfl
      | cons a r => simp at h
    | succ n ih =>
      intro bs h
      match bs, h with
      | [], _ => rfl
      | [a], _ => simp [wordValues]
      | a :: b :: rest, h =>
        simp only [wordValues, List.length_cons]
        rw [ih rest (by simp at h; omega)]
        omega
  unfold operandValues operandLen
  cases words with
  | true => simpa using hw bytes.length bytes (Nat.le_refl _)
  | false => simp

/-! ## non-vacuity -/

/-- PUSHB[1] 7 9, then a truncated PUSHW[0]: one instruction, one `Err`, end -/
example : (allTrace [0xB1, 7, 9, 0xB8, 1] 0).map items =
    some [DRes.ok 0xB1 0 1 2 false, DRes.err] := by decide +kernel

/-- NPUSHW with count 2 at pc 1 -/
example : (allTrace [0x01, 0x41, 2, 0xFF, 0xFE, 0, 5] 1).map items = some [DRes.ok 0x41 1 3 4 true] := by decide +kernel

/-- a program counter at `usize::MAX` yields nothing (no `pc + 1` is evaluated) -/
example : (allTrace [0x40] 18446744073709551615).map items = some [] := by decide +kernel

example : operandValues [0xFF, 0xFE, 0, 5] true = [-2, 5] := by decide
example : operandValues [0xFF, 0xFE, 7] true = [-2] := by decide

end FontVerif.C01HandBytecode
