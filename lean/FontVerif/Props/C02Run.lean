/-
C02 — skrifa and IFT client APIs are total on hostile fonts and arguments.

Core 1c: the WHOLE-RUN bound of the TrueType interpreter.  Props/C02.lean bounds the number of dispatches of
`Engine::run` for arbitrary data opcodes, Props/C02Loops.lean bounds the loop iterations of one dispatched data opcode.
Here the two are composed: for every bytecode, every zone size, every stack capacity and every initial graphics state,
the total number of elementary steps of `Engine::run` (Model/InterpCost.lean `runCost`: decode/dispatch, skip-loop
instructions, definition-table walks, data-opcode loop iterations) is at most

    (MAX_RUN_INSTRUCTIONS + 1) × (1 + (code length + 1) + definition-table lengths + 65536 + 4 × glyph points + twilight points + 2 × stack capacity)

and along the whole run the zone sizes, the contour list, the stack capacity and the definition-table lengths never
change, the value stack stays within its capacity and `loop_counter ≤ 0xFFFF` at every dispatch — which is what keeps
the per-dispatch bounds valid at every later dispatch.

The theorems are stated for ANY data semantics that honours the per-dispatch contract `SemOk` (`Step` of
Model/InterpLoops.lean + stack within capacity).  `semLoops_ok` discharges the contract for the loop-opcode model
(`semLoops`; the opcodes it does not model are `Err.data` there, i.e. outside), Props/C02Data.lean discharges it for the
model of ALL data opcodes, which removes the hypothesis altogether (`run_total_work_le_concrete`).
-/
import FontVerif.Lemmas.InterpRun
import FontVerif.Props.C02Loops
import FontVerif.Props.C02
namespace FontVerif.C02
open FontVerif FontVerif.Interp FontVerif.InterpLemmas FontVerif.InterpLoops FontVerif.InterpCost
open FontVerif.InterpRunLemmas
set_option linter.unusedVariables false

/-- the per-dispatch contract of a data semantics `sem` whose data state projects to the loop state `G`:
    on a well-formed state with the stack within capacity (and satisfying an invariant `I` of the rest of the data
    state), a successful opcode satisfies `Step` (well-formedness kept, sizes unchanged, at most `work` iterations),
    leaves the stack within capacity and keeps `I` -/
def SemOk {D} (sem : Nat → List Nat → List Int × D → Except Err (List Int × D)) (proj : D → G)
    (I : D → Prop := fun _ => True) : Prop :=
  ∀ op bytes vs d vs' d', I d → Wf (proj d) → vs.length ≤ (proj d).cap → sem op bytes (vs, d) = .ok (vs', d') →
    Step (proj d) vs (proj d') ∧ vs'.length ≤ (proj d').cap ∧ I d'

/-- the invariant of the whole run, relative to the sizes `g0` and table lengths `nF`, `nI` at its start -/
structure RunInv {D} (c : Cfg D) (proj : D → G) (I : D → Prop) (g0 : G) (nF nI : Nat) (s : St D) : Prop where
  good : Good c s
  inv : I s.data
  wf : Wf (proj s.data)
  pts : (proj s.data).glyphPts = g0.glyphPts
  twi : (proj s.data).twiPts = g0.twiPts
  contours : (proj s.data).glyphContours = g0.glyphContours
  cap : (proj s.data).cap = g0.cap
  stack : s.vs.length ≤ g0.cap
  nf : s.funcs.length = nF
  ni : s.idefs.length = nI

/-- one iteration of the run loop keeps the invariant and costs at most `perStep` -/
theorem step_inv {D} (c : Cfg D) (proj : D → G) {I : D → Prop} (hsem : SemOk c.sem proj I) (g0 : G) (nF nI : Nat) (s : St D)
    (h : RunInv c proj I g0 nF nI s) :
    RunInv c proj I g0 nF nI (step c s) ∧ stepCost c proj s ≤ perStep c (nF + nI) g0 := by
  have hgood := step_good c s h.good
  by_cases hr : s.status = .running
  rotate_left
  · rw [step_halted c s hr]
    refine ⟨h, ?_⟩
    unfold stepCost
    split
    · rename_i hh; exact absurd hh hr
    · omega
  -- running
  have hcost0 : 1 ≤ perStep c (nF + nI) g0 := by unfold perStep; omega
  cases hd : decode (c.code s.current) s.pc with
  | eof =>
    have hs : step c s = { s with status := .done } := by unfold step; simp only [hr, hd]
    rw [stepCost_noins c proj s hr (Or.inl hd)]
    refine ⟨?_, hcost0⟩
    rw [hs] at hgood ⊢
    exact ⟨hgood, h.inv, h.wf, h.pts, h.twi, h.contours, h.cap, h.stack, h.nf, h.ni⟩
  | bad =>
    have hs : step c s = { s with status := .failed .unexpectedEnd } := by unfold step; simp only [hr, hd]
    rw [stepCost_noins c proj s hr (Or.inr hd)]
    refine ⟨?_, hcost0⟩
    rw [hs] at hgood ⊢
    exact ⟨hgood, h.inv, h.wf, h.pts, h.twi, h.contours, h.cap, h.stack, h.nf, h.ni⟩
  | ins op operands ipc next =>
    rw [stepCost_ins c proj s hr hd]
    have hctl := ctlCost_le c { s with pc := next } op
    simp only [h.nf, h.ni] at hctl
    have hstep := step_ins c s hr hd
    cases hdis : dispatch c { s with pc := next } op operands with
    | none => exact absurd hdis (dispatch_ne_none _ _ _ _)
    | some r =>
      cases r with
      | error e =>
        rw [hdis] at hstep
        simp only [] at hstep
        have hdata : (step c s).data = s.data := by rw [hstep]
        refine ⟨?_, ?_⟩
        · rw [hstep] at hgood ⊢
          exact ⟨hgood, h.inv, h.wf, h.pts, h.twi, h.contours, h.cap, h.stack, h.nf, h.ni⟩
        · rw [hdata]; unfold perStep; omega
      | ok s2 =>
        rw [hdis] at hstep
        simp only [] at hstep
        -- the state after the step differs from `s2` only in `count`, `pc`, `status`
        have hs : (step c s).data = s2.data ∧ (step c s).vs = s2.vs ∧ (step c s).funcs = s2.funcs ∧
            (step c s).idefs = s2.idefs := by
          rw [hstep]
          split <;> exact ⟨rfl, rfl, rfl, rfl⟩
        obtain ⟨hsd, hsv, hsf, hsi⟩ := hs
        rcases dispatch_shape hdis with hc | ⟨hsem1, hf, hi, hz⟩
        · -- control operation
          obtain ⟨c1, c2, c3, c4⟩ := hc
          simp only [] at c1 c2 c3 c4
          refine ⟨⟨hgood, ?_, ?_, ?_, ?_, ?_, ?_, ?_, ?_, ?_⟩, ?_⟩
          · rw [hsd, c1]; exact h.inv
          · rw [hsd, c1]; exact h.wf
          · rw [hsd, c1]; exact h.pts
          · rw [hsd, c1]; exact h.twi
          · rw [hsd, c1]; exact h.contours
          · rw [hsd, c1]; exact h.cap
          · rw [hsv]; exact Nat.le_trans c2 h.stack
          · rw [hsf, c3]; exact h.nf
          · rw [hsi, c4]; exact h.ni
          · rw [hsd, c1]; unfold perStep; omega
        · -- data opcode
          simp only [] at hsem1 hf hi hz
          have hstk : s.vs.length ≤ (proj s.data).cap := by rw [h.cap]; exact h.stack
          obtain ⟨⟨hw', hit, hp, ht, hcn, hcp⟩, hstk', hI'⟩ := hsem _ _ _ _ _ _ h.inv h.wf hstk hsem1
          refine ⟨⟨hgood, ?_, ?_, ?_, ?_, ?_, ?_, ?_, ?_, ?_⟩, ?_⟩
          · rw [hsd]; exact hI'
          · rw [hsd]; exact hw'
          · rw [hsd, hp]; exact h.pts
          · rw [hsd, ht]; exact h.twi
          · rw [hsd, hcn]; exact h.contours
          · rw [hsd, hcp]; exact h.cap
          · rw [hsv]; rw [hcp, h.cap] at hstk'; exact hstk'
          · rw [hsf, hf]; exact h.nf
          · rw [hsi, hi]; exact h.ni
          · rw [hsd, hz]
            unfold work at hit
            rw [h.pts, h.twi, h.cap] at hit
            have := h.stack
            unfold perStep; omega

/-- the invariant holds along the whole run -/
theorem iter_inv {D} (c : Cfg D) (proj : D → G) {I : D → Prop} (hsem : SemOk c.sem proj I) (g0 : G) (nF nI : Nat) (n : Nat) (s : St D)
    (h : RunInv c proj I g0 nF nI s) : RunInv c proj I g0 nF nI (iter c n s) := by
  induction n generalizing s with
  | zero => exact h
  | succ n ih => exact ih _ (step_inv c proj hsem g0 nF nI s h).1

/-- run-loop iterations that can still do work: none once the machine has halted -/
def remaining {D} (s : St D) : Nat :=
  match s.status with
  | .running => MAX_RUN_INSTRUCTIONS + 1 - s.count
  | _ => 0

theorem runCost_le_remaining {D} (c : Cfg D) (proj : D → G) {I : D → Prop} (hsem : SemOk c.sem proj I) (g0 : G) (nF nI : Nat) (n : Nat)
    (s : St D) (h : RunInv c proj I g0 nF nI s) :
    runCost c proj n s ≤ remaining s * perStep c (nF + nI) g0 := by
  induction n generalizing s with
  | zero => simp [runCost]
  | succ n ih =>
    have ⟨hinv, hcost⟩ := step_inv c proj hsem g0 nF nI s h
    have := ih _ hinv
    unfold runCost
    by_cases hr : s.status = .running
    · have hcnt := h.good.2.2.1 hr
      have hrem : remaining s = MAX_RUN_INSTRUCTIONS + 1 - s.count := by unfold remaining; simp only [hr]
      have hrem2 : remaining (step c s) + 1 ≤ remaining s := by
        by_cases hr2 : (step c s).status = .running
        · have := ((step_running c s hr).2.2.2.1 hr2).1
          have h2 : remaining (step c s) = MAX_RUN_INSTRUCTIONS + 1 - (step c s).count := by
            unfold remaining; simp only [hr2]
          omega
        · have h2 : remaining (step c s) = 0 := by
            unfold remaining; split
            · rename_i hh; exact absurd hh hr2
            · rfl
          omega
      generalize perStep c (nF + nI) g0 = B at *
      calc stepCost c proj s + runCost c proj n (step c s)
          ≤ B + remaining (step c s) * B := by omega
        _ = (remaining (step c s) + 1) * B := by rw [Nat.add_mul]; omega
        _ ≤ remaining s * B := Nat.mul_le_mul_right B hrem2
    · have h0 : stepCost c proj s = 0 := by
        unfold stepCost; split
        · rename_i hh; exact absurd hh hr
        · rfl
      rw [step_halted c s hr] at this ⊢
      omega

/-- **whole-run work bound** (generic in the data semantics): from a start state of `Engine::run_program` — any
    program, any definition tables, any value stack within capacity, any well-formed data state — the total number of
    elementary steps of `Engine::run`, over ANY number `n` of loop iterations, is at most
    `(MAX_RUN_INSTRUCTIONS + 1) × perStep`, `perStep = 1 + (longest program + 1) + both definition-table lengths +
    65536 + 4 × glyph points + twilight points + 2 × stack capacity`. -/
theorem run_total_work_le {D} (c : Cfg D) (proj : D → G) {I : D → Prop} (hsem : SemOk c.sem proj I)
    (p : Nat) (fs ids : List Def) (vs : List Int) (d : D) (hI : I d) (hw : Wf (proj d)) (hstk : vs.length ≤ (proj d).cap) (n : Nat) :
    runCost c proj n (initSt p fs ids vs d)
      ≤ (MAX_RUN_INSTRUCTIONS + 1) * perStep c (fs.length + ids.length) (proj d) := by
  have hinv : RunInv c proj I (proj d) fs.length ids.length (initSt p fs ids vs d) := by
    refine ⟨initSt_good c p fs ids vs d, hI, hw, rfl, rfl, rfl, rfl, hstk, ?_, ?_⟩
    · unfold initSt; simp only []; split <;> simp
    · unfold initSt; simp only []; split <;> simp
  have := runCost_le_remaining c proj hsem (proj d) fs.length ids.length n _ hinv
  have hr : remaining (initSt p fs ids vs d) = MAX_RUN_INSTRUCTIONS + 1 := by
    unfold remaining initSt; simp
  rw [hr] at this
  exact this

/-- **sizes are invariant over the whole run and the loop counter stays clamped**: after any number of loop
    iterations the zone sizes, contour list, stack capacity and definition-table lengths are those of the start, the
    value stack is within capacity and `loop_counter ≤ 0xFFFF` — so the per-dispatch bounds of Props/C02Loops.lean
    apply at EVERY dispatch of the run -/
theorem run_sizes_invariant {D} (c : Cfg D) (proj : D → G) {I : D → Prop} (hsem : SemOk c.sem proj I)
    (p : Nat) (fs ids : List Def) (vs : List Int) (d : D) (hI : I d) (hw : Wf (proj d)) (hstk : vs.length ≤ (proj d).cap) (n : Nat) :
    let s := iter c n (initSt p fs ids vs d)
    (proj s.data).glyphPts = (proj d).glyphPts ∧ (proj s.data).twiPts = (proj d).twiPts ∧
    (proj s.data).glyphContours = (proj d).glyphContours ∧ (proj s.data).cap = (proj d).cap ∧
    s.vs.length ≤ (proj d).cap ∧ s.funcs.length = fs.length ∧ s.idefs.length = ids.length ∧
    (proj s.data).loop ≤ 65535 ∧ I s.data := by
  have hinv : RunInv c proj I (proj d) fs.length ids.length (initSt p fs ids vs d) := by
    refine ⟨initSt_good c p fs ids vs d, hI, hw, rfl, rfl, rfl, rfl, hstk, ?_, ?_⟩
    · unfold initSt; simp only []; split <;> simp
    · unfold initSt; simp only []; split <;> simp
  have h := iter_inv c proj hsem (proj d) fs.length ids.length n _ hinv
  exact ⟨h.pts, h.twi, h.contours, h.cap, h.stack, h.nf, h.ni, h.wf.1, h.inv⟩

/-! ### the loop-opcode semantics honours the contract -/

/-- the loop-opcode semantics `semLoops` (Model/InterpLoops.lean) honours the per-dispatch contract -/
theorem semLoops_ok (ped : Bool) : SemOk (semLoops ped) id := by
  intro op bytes vs g vs' g' _ hw hstk h
  unfold semLoops at h
  simp only [] at h
  split at h
  · rename_i r hr
    subst h
    have h1 := loop_opcode_bounded ped op vs vs' g g' hw hr
    have h2 := FontVerif.InterpLoopsLemmas.semLoopOp_len ped op vs vs' g g' hr
    refine ⟨h1, ?_, trivial⟩
    simp only [id] at *
    rw [h1.2.2.2.2.2]; omega
  · cases hs : semSubset ped op bytes (vs, g.cap) with
    | error e => rw [hs] at h; cases h
    | ok r =>
      rw [hs] at h
      obtain ⟨vs1, cap1⟩ := r
      have h0 := Prod.mk.inj (Except.ok.inj h)
      obtain ⟨e1, e2⟩ := h0
      subst e1; subst e2
      have := semSubset_len ped op bytes vs vs1 g.cap cap1 hstk hs
      exact ⟨step_refl g vs hw, this.1, trivial⟩

/-- **whole-run work bound for the loop-opcode model**: every program over the control opcodes, the loop-carrying data
    opcodes and the stack / arithmetic subset — started on any well-formed graphics state — performs at most
    `(MAX_RUN_INSTRUCTIONS + 1) × perStep` elementary steps -/
theorem run_total_work_le_loops (font cv glyph : Array Nat) (limit : Nat) (ped : Bool) (axes : Nat)
    (p : Nat) (fs ids : List Def) (vs : List Int) (g : G) (hw : Wf g) (hstk : vs.length ≤ g.cap) (n : Nat) :
    let c : Cfg G := { font := font, cv := cv, glyph := glyph, limit := limit, pedantic := ped, sem := semLoops ped,
                       axisCount := axes }
    runCost c id n (initSt p fs ids vs g) ≤ (MAX_RUN_INSTRUCTIONS + 1) * perStep c (fs.length + ids.length) g :=
  run_total_work_le _ id (semLoops_ok ped) p fs ids vs g trivial hw hstk n

/-! ### non-vacuity -/

/-- `PUSHW 300; SLOOP; SHP[1]` on an empty stack in non-pedantic mode, twilight zone of 4 points, rp1 = 0: the loop
    runs its 300 iterations on zeros (only the clamp bounds it) -/
def workCfg : Cfg G :=
  { font := #[], cv := #[0xB0, 0, 0x16, 0xB8, 0x01, 0x2C, 0x17, 0x33], glyph := #[], limit := 300, pedantic := false,
    sem := semLoops false }
def workG : G := { cap := 8, twiPts := 4 }
example : Wf workG := ⟨by decide, by decide⟩
example : (iter workCfg 10 (initSt 1 [] [] [] workG)).status = .done := by decide +kernel
example : runCost workCfg id 10 (initSt 1 [] [] [] workG) = 306 := by decide +kernel
example : perStep workCfg 0 workG = 65566 := by decide +kernel

end FontVerif.C02
