/-
C08 — Character maps built from a mapping answer exactly that mapping.
Property theorems only (helper lemmas live in Lemmas/Cmap.lean, Lemmas/Cmap4.lean).
Model: Model/Cmap.lean ⇄ write-fonts/src/tables/cmap.rs (from_mappings, Format4SegmentComputer,
create_format_4, create_format_12), read-fonts/src/tables/cmap.rs (Cmap4/Cmap12 map_codepoint,
lookup_glyph_id, iterators), skrifa/src/charmap.rs.
-/
import FontVerif.Model.Cmap
import FontVerif.Lemmas.Cmap
import FontVerif.Lemmas.Cmap4
import FontVerif.Lemmas.Cmap4Seg
import FontVerif.Lemmas.Cmap4Top
import FontVerif.Lemmas.Cmap4Iter
import FontVerif.Lemmas.CmapNorm
import FontVerif.Lemmas.CmapTop
import FontVerif.Lemmas.Cmap14
import FontVerif.Lemmas.CmapSel
set_option linter.unusedVariables false
namespace FontVerif.C08
open FontVerif FontVerif.Cmap

/-! ### idDelta arithmetic is modulo 65536 -/

/-- the delta written by `create_format_4` (`delta as u16 as i16`) is an `i16` congruent to
`gid − cp` modulo 65536 — for every integer -/
theorem idDelta_is_i16 (d : Int) :
    -32768 ≤ wrapI16 d ∧ wrapI16 d ≤ 32767 ∧ (wrapI16 d - d) % 65536 = 0 := by
  unfold wrapI16
  simp only []
  split <;> omega

/-- writer delta followed by the reader's `(codepoint as i32 + delta) as u16` gives back the glyph,
for all 16-bit code points and glyph ids — in particular when `gid − cp` is outside `i16` -/
theorem idDelta_roundtrip (c g : Nat) (hc : c ≤ 0xFFFF) (hg : g ≤ 0xFFFF) :
    (wrapU16 ((c : Int) + wrapI16 ((g : Int) - (c : Int)))).toNat = g := by
  unfold wrapU16 wrapI16
  simp only []
  split <;> omega

example : wrapI16 ((40000 : Int) - 32) = -25568 := by decide
example : (wrapU16 ((32 : Int) + wrapI16 ((40000 : Int) - 32))).toNat = 40000 := by decide

/-! ### format 12 -/

/-- `create_format_12` succeeds on every non-empty in-domain mapping, and `Cmap12::map_codepoint`
on the groups it writes answers `some g` exactly for the pairs `(c, g)` of the mapping — for every
32-bit code point `c` (so: the mapped glyph for mapped characters, `none` for all others). -/
theorem fmt12_lookup (m : Mapping) (hd : InDomain m) (hne : m ≠ []) :
    ∃ gs, createFormat12 m = some gs ∧
      ∀ c v, c < 4294967296 → (map12 gs.toArray c = some v ↔ (c, v) ∈ m) := by
  obtain ⟨gs, h1, h2, h3⟩ := createFormat12_spec m 0 hne
    (Ascending.ascFrom m 0 hd.asc (fun _ _ => Nat.zero_le _)) hd.small
  refine ⟨gs, h1, fun c v hc => ?_⟩
  have hb : GroupsBounded gs := groupsBounded_of_expand gs 0 h2 (h3 ▸ hd.small)
  rw [map12_iff gs 0 h2 hb c v hc, h3]

/-- unmapped characters get no glyph from the format-12 subtable -/
theorem fmt12_lookup_unmapped (m : Mapping) (hd : InDomain m) (gs : List Group)
    (h : createFormat12 m = some gs) (c : Nat) (hc : c < 4294967296) (hno : ∀ v, (c, v) ∉ m) :
    map12 gs.toArray c = none := by
  have hne : m ≠ [] := by intro h0; subst h0; simp [createFormat12] at h
  obtain ⟨gs', h1, h2⟩ := fmt12_lookup m hd hne
  rw [h] at h1
  cases h1
  cases hq : map12 gs.toArray c with
  | none => rfl
  | some v => exact absurd ((h2 c v hc).1 hq) (hno v)

/-- enumerating the compiled format-12 subtable (`Cmap12::iter`) yields exactly the mapping, in
ascending character order -/
theorem fmt12_iter (m : Mapping) (hd : InDomain m) (gs : List Group) (h : createFormat12 m = some gs) :
    iter12 gs.toArray none = m := by
  have hne : m ≠ [] := by intro h0; subst h0; simp [createFormat12] at h
  obtain ⟨gs', h1, h2, h3⟩ := createFormat12_spec m 0 hne
    (Ascending.ascFrom m 0 hd.asc (fun _ _ => Nat.zero_le _)) hd.small
  rw [h] at h1
  cases h1
  have hb : GroupsBounded gs := groupsBounded_of_expand gs 0 h2 (h3 ▸ hd.small)
  rw [iter12_eq gs 0 h2 hb, h3]

/-- non-vacuity: a mapping with a supplementary-plane run, a gid jump and a char gap -/
example : InDomain [(65, 5), (66, 6), (67, 9), (0x1F600, 10), (0x1F601, 11), (0x10FFFF, 12)] :=
  ⟨by unfold Ascending; decide, by decide, by decide⟩
example : createFormat12 [(65, 5), (66, 6), (67, 9), (0x1F600, 10), (0x1F601, 11), (0x10FFFF, 12)]
    = some [(65, 66, 5), (67, 67, 9), (0x1F600, 0x1F601, 10), (0x10FFFF, 0x10FFFF, 12)] := by decide

/-! ### format 4 -/

/-- `Format4SegmentComputer::compute` always returns a valid segmentation of the BMP part of its
input — for EVERY input list (no sortedness or range hypothesis): the segments tile the index
range, each is a run of consecutive code points, and a segment that carries an `id_delta` has
constant `gid − cp`.  (`SegsTile`/`SegOk` are defined in Lemmas/Cmap4.lean.) -/
theorem segments_valid (m : Mapping) :
    SegsTile (cpAt m.toArray) (gidAt m.toArray) 0 (bmpPrefix m).length (segments m) :=
  segments_tile m

/-- Round trip for ANY valid segmentation (robust against changes of the merging heuristics):
if `create_format_4`, run on a valid segmentation `segs` of an in-domain mapping, returns a table,
then `Cmap4::map_codepoint` on that table answers `some v` for code point `c` exactly when `(c, v)`
is a BMP pair of the mapping — or `c` is U+FFFF, which the mandatory final segment maps to glyph 0.
In particular every unmapped code point (and every code point above U+FFFF) gets `none`. -/
theorem fmt4_lookup_any_segmentation (m : Mapping) (hd : InDomain m) (segs : List Seg)
    (hv : SegsTile (cpAt m.toArray) (gidAt m.toArray) 0 (bmpPrefix m).length segs)
    (t : Cmap4) (h : encode4 m segs = .ok (some t)) (c v : Nat) :
    map4 t c = some v ↔ ((c, v) ∈ m ∧ c ≤ 0xFFFF) ∨ (c = 0xFFFF ∧ v = 0) :=
  encode4_lookup m hd segs hv t h c v

/-- Round trip through `create_format_4` as implemented (segment computer + encoder) and
`Cmap4::map_codepoint`: the mapped glyph for every mapped BMP character, glyph 0 for U+FFFF,
`none` for everything else. -/
theorem fmt4_lookup (m : Mapping) (hd : InDomain m) (t : Cmap4) (h : createFormat4 m = .ok (some t))
    (c v : Nat) : map4 t c = some v ↔ ((c, v) ∈ m ∧ c ≤ 0xFFFF) ∨ (c = 0xFFFF ∧ v = 0) :=
  fmt4_lookup_any_segmentation m hd (segments m) (segments_valid m) t h c v

/-- mapped BMP characters: the mapped glyph -/
theorem fmt4_lookup_mapped (m : Mapping) (hd : InDomain m) (t : Cmap4) (h : createFormat4 m = .ok (some t))
    (c g : Nat) (hmem : (c, g) ∈ m) (hc : c ≤ 0xFFFF) : map4 t c = some g :=
  (fmt4_lookup m hd t h c g).2 (Or.inl ⟨hmem, hc⟩)

/-- unmapped characters (U+FFFF excepted): no glyph -/
theorem fmt4_lookup_unmapped (m : Mapping) (hd : InDomain m) (t : Cmap4) (h : createFormat4 m = .ok (some t))
    (c : Nat) (hc : c ≠ 0xFFFF) (hno : ∀ v, (c, v) ∉ m) : map4 t c = none := by
  cases hq : map4 t c with
  | none => rfl
  | some v =>
    rcases (fmt4_lookup m hd t h c v).1 hq with ⟨h1, _⟩ | ⟨h1, _⟩
    · exact absurd h1 (hno v)
    · exact absurd h1 hc

/-- "Returns `None` if none of the input chars are in the BMP" — and only then -/
theorem fmt4_none_iff (m : Mapping) (hd : InDomain m) :
    createFormat4 m = .ok none ↔ ∀ p ∈ m, p.1 > 0xFFFF :=
  createFormat4_none_iff m hd

/-- building succeeds: for an in-domain mapping with between 1 and 6551 BMP characters
(10·n + 24 ≤ 65535: what a 16-bit format-4 length can always hold) `create_format_4` returns a
table, and that table's `compute_length` fits 16 bits -/
theorem fmt4_build_succeeds (m : Mapping) (hd : InDomain m) (hne : bmpPrefix m ≠ [])
    (hn : (bmpPrefix m).length ≤ 6551) : ∃ t, createFormat4 m = .ok (some t) ∧ t.lengthFits = true :=
  createFormat4_ok m hd hne hn

/-- non-vacuity: the doc-comment example of `should_combine` (three segments merged into one
range-offset segment), a delta segment whose delta does not fit `i16`, a lone character, and a
supplementary character that format 4 ignores -/
example : InDomain [(1, 3), (2, 1), (3, 4), (4, 5), (5, 6), (6, 7), (7, 8), (8, 2), (9, 9),
    (32, 40000), (33, 40001), (0x5000, 7), (0x1F600, 10)] :=
  ⟨by unfold Ascending; decide, by decide, by decide⟩
example : createFormat4 [(1, 3), (2, 1), (3, 4), (4, 5), (5, 6), (6, 7), (7, 8), (8, 2), (9, 9),
    (32, 40000), (33, 40001), (0x5000, 7), (0x1F600, 10)] =
    .ok (some { endCode := #[9, 33, 0x5000, 0xFFFF], startCode := #[1, 32, 0x5000, 0xFFFF],
                idDelta := #[0, -25568, -20473, 1], idRangeOffsets := #[8, 0, 0, 0],
                glyphIdArray := #[3, 1, 4, 5, 6, 7, 8, 2, 9] }) := by decide

/-- enumerating (`Cmap4::iter`) the table compiled from ANY valid segmentation yields exactly the
BMP pairs of the mapping, in ascending character order, followed by the `(U+FFFF, glyph 0)` item
of the mandatory final segment -/
theorem fmt4_iter_any_segmentation (m : Mapping) (hd : InDomain m) (segs : List Seg)
    (hv : SegsTile (cpAt m.toArray) (gidAt m.toArray) 0 (bmpPrefix m).length segs)
    (t : Cmap4) (h : encode4 m segs = .ok (some t)) :
    iter4 t = m.filter (fun p => decide (p.1 ≤ 0xFFFF)) ++ [(0xFFFF, 0)] := by
  rw [encode4_iter m hd segs hv t h, bmpPrefix_eq_filter m hd.asc]

/-- … in particular for the table `create_format_4` builds -/
theorem fmt4_iter (m : Mapping) (hd : InDomain m) (t : Cmap4) (h : createFormat4 m = .ok (some t)) :
    iter4 t = m.filter (fun p => decide (p.1 ≤ 0xFFFF)) ++ [(0xFFFF, 0)] :=
  fmt4_iter_any_segmentation m hd (segments m) (segments_valid m) t h

example : iter4 { endCode := #[9, 33, 0x5000, 0xFFFF], startCode := #[1, 32, 0x5000, 0xFFFF],
                  idDelta := #[0, -25568, -20473, 1], idRangeOffsets := #[8, 0, 0, 0],
                  glyphIdArray := #[3, 1, 4, 5, 6, 7, 8, 2, 9] } =
    [(1, 3), (2, 1), (3, 4), (4, 5), (5, 6), (6, 7), (7, 8), (8, 2), (9, 9),
     (32, 40000), (33, 40001), (0x5000, 7), (0xFFFF, 0)] := by decide

/-! ### `Cmap::from_mappings` end to end: normalisation, conflicts, table and `Charmap` level -/

/-- sorting and deduplicating keeps exactly the input pairs, and for a conflict-free input the
result has strictly ascending code points (each character once) -/
theorem normalize_spec (raw : Mapping) :
    (∀ p, p ∈ normalize raw ↔ p ∈ raw) ∧ (ConflictFree raw → Ascending (normalize raw)) :=
  ⟨mem_normalize raw, fun hcf =>
    (findConflict_none_iff _ (normalize_sorted raw)).1 ((findConflict_normalize_none_iff raw).2 hcf)⟩

/-- conflicts are errors, and only conflicts: `from_mappings` returns `Err(CmapConflict)` exactly
when some character is given two different glyphs, and the reported pair is a genuine conflict of
the input with `gid1 < gid2` -/
theorem conflict_is_error (raw : Mapping) :
    ((∃ c g1 g2, fromMappings raw = .conflict c g1 g2) ↔ ¬ ConflictFree raw) ∧
    (∀ c g1 g2, fromMappings raw = .conflict c g1 g2 → (c, g1) ∈ raw ∧ (c, g2) ∈ raw ∧ g1 < g2) := by
  have key : ∀ c g1 g2, fromMappings raw = .conflict c g1 g2 →
      findConflict (normalize raw) = some (c, g1, g2) := by
    intro c g1 g2 h
    unfold fromMappings at h
    cases hf : findConflict (normalize raw) with
    | some r =>
      obtain ⟨c', a, b⟩ := r
      simp only [hf] at h
      injection h with h1 h2 h3
      subst h1 h2 h3
      rfl
    | none =>
      exfalso
      simp only [hf] at h
      cases h4 : createFormat4 (normalize raw) with
      | trap => simp [h4] at h
      | ok f4 =>
        cases h12 : buildFormat12 (normalize raw) with
        | none => simp [h4, h12] at h
        | some f12 =>
          simp only [h4, h12] at h
          cases f4 with
          | none => simp at h
          | some t => by_cases ht : t.lengthFits = true <;> simp [ht] at h
  have detail : ∀ c g1 g2, fromMappings raw = .conflict c g1 g2 →
      (c, g1) ∈ raw ∧ (c, g2) ∈ raw ∧ g1 < g2 := by
    intro c g1 g2 h
    obtain ⟨h1, h2, h3⟩ := findConflict_some _ c g1 g2 (key c g1 g2 h)
    exact ⟨(mem_normalize raw _).1 h1, (mem_normalize raw _).1 h2, h3⟩
  refine ⟨⟨?_, ?_⟩, detail⟩
  · rintro ⟨c, g1, g2, h⟩ hcf
    obtain ⟨h1, h2, h3⟩ := detail c g1 g2 h
    have := hcf _ h1 _ h2 rfl
    simp only at this
    omega
  · intro hncf
    cases hf : findConflict (normalize raw) with
    | none => exact absurd ((findConflict_normalize_none_iff raw).1 hf) hncf
    | some r =>
      obtain ⟨c, g1, g2⟩ := r
      refine ⟨c, g1, g2, ?_⟩
      unfold fromMappings
      simp only [hf]

/-- CORRECTNESS, without any size bound.  For every conflict-free list of (character, glyph)
pairs — any order, duplicates allowed — with characters in U+0000..U+10FFFF except U+FFFF and glyph
ids in 1..=0xFFFF: whenever `Cmap::from_mappings` followed by `dump_table` succeeds, the table
* answers `Cmap::map_codepoint` (first subtable that answers, in record order) with `some v` for
  `c` exactly when `(c, v)` is an input pair — or `c` is U+FFFF and a format-4 subtable exists,
  which answers the missing-glyph id 0 there;
* answers skrifa's `Charmap::map` (subtable selection + notdef filtering) with `some v` exactly
  when `(c, v)` is an input pair, `none` for every other code point;
* is enumerated by skrifa's `Charmap::mappings` (with the font's `Cmap12IterLimits`, every glyph id
  below `numGlyphs`) as exactly the input pairs, each once, in ascending character order. -/
theorem from_mappings_correct (raw : Mapping) (hcf : ConflictFree raw)
    (hr : ∀ p ∈ raw, p.1 ≤ 0x10FFFF ∧ p.1 ≠ 0xFFFF ∧ 1 ≤ p.2 ∧ p.2 ≤ 0xFFFF)
    (b : Built) (hb : fromMappings raw = .ok b) :
    (∀ c v, c < 4294967296 →
      (cmapMap b.subtables c = some v ↔ (c, v) ∈ raw ∨ (c = 0xFFFF ∧ v = 0 ∧ ∃ p ∈ raw, p.1 ≤ 0xFFFF))) ∧
    (∀ c v, c < 4294967296 → (b.skMap c = some v ↔ (c, v) ∈ raw)) ∧
    (∀ numGlyphs, (∀ p ∈ raw, p.2 < numGlyphs) →
      b.skMappings (0x10FFFF, numGlyphs) = normalize raw ∧ Ascending (normalize raw) ∧
      ∀ p, p ∈ normalize raw ↔ p ∈ raw) := by
  have hd := normalize_inDomain raw hcf hr
  have hs := builtSpec_of_ok raw hd b hb
  refine ⟨?_, ?_, ?_⟩
  · intro c v hc
    rw [cmapMap_built _ hd b hs c v hc, mem_normalize]
    have : HasBmp (normalize raw) ↔ ∃ p ∈ raw, p.1 ≤ 0xFFFF := by
      unfold HasBmp
      constructor
      · rintro ⟨p, hp, h⟩; exact ⟨p, (mem_normalize raw p).1 hp, h⟩
      · rintro ⟨p, hp, h⟩; exact ⟨p, (mem_normalize raw p).2 hp, h⟩
    rw [this]
  · intro c v hc
    rw [skMap_built _ hd b hs c v hc, mem_normalize]
  · intro ng hng
    exact ⟨skMappings_built _ hd b hs ng (fun p hp => hng p ((mem_normalize raw p).1 hp)), hd.asc,
      mem_normalize raw⟩

/-- SUCCESS: with at most 6551 input pairs (so that format 4 cannot overflow its 16-bit length,
whatever the segmentation) building never fails -/
theorem from_mappings_succeeds (raw : Mapping) (hcf : ConflictFree raw)
    (hr : ∀ p ∈ raw, p.1 ≤ 0x10FFFF ∧ p.1 ≠ 0xFFFF ∧ 1 ≤ p.2 ∧ p.2 ≤ 0xFFFF)
    (hn : raw.length ≤ 6551) : ∃ b, fromMappings raw = .ok b := by
  have hd := normalize_inDomain raw hcf hr
  have hlen : (bmpPrefix (normalize raw)).length ≤ 6551 := by
    have h1 := normalize_length_le raw
    rcases Nat.lt_or_ge (normalize raw).length (bmpPrefix (normalize raw)).length with h | h
    · have := (bmpPrefix_getElem? (normalize raw) (normalize raw).length h).2
      omega
    · omega
  obtain ⟨b, hb, _⟩ := fromMappings_ok raw hd hlen
  exact ⟨b, hb⟩

/-- THE round trip: success and correctness together -/
theorem from_mappings_roundtrip (raw : Mapping) (hcf : ConflictFree raw)
    (hr : ∀ p ∈ raw, p.1 ≤ 0x10FFFF ∧ p.1 ≠ 0xFFFF ∧ 1 ≤ p.2 ∧ p.2 ≤ 0xFFFF)
    (hn : raw.length ≤ 6551) :
    ∃ b, fromMappings raw = .ok b ∧
      (∀ c v, c < 4294967296 →
        (cmapMap b.subtables c = some v ↔ (c, v) ∈ raw ∨ (c = 0xFFFF ∧ v = 0 ∧ ∃ p ∈ raw, p.1 ≤ 0xFFFF))) ∧
      (∀ c v, c < 4294967296 → (b.skMap c = some v ↔ (c, v) ∈ raw)) ∧
      (∀ numGlyphs, (∀ p ∈ raw, p.2 < numGlyphs) →
        b.skMappings (0x10FFFF, numGlyphs) = normalize raw ∧ Ascending (normalize raw) ∧
        ∀ p, p ∈ normalize raw ↔ p ∈ raw) := by
  obtain ⟨b, hb⟩ := from_mappings_succeeds raw hcf hr hn
  exact ⟨b, hb, from_mappings_correct raw hcf hr b hb⟩

/-- non-vacuity: shuffled input with a duplicate, BMP and supplementary characters -/
example : ConflictFree [(0x1F600, 10), (66, 6), (65, 5), (66, 6), (0x4E00, 40000)] := by
  unfold ConflictFree; decide
example : findConflict (dedup [(65, 1), (65, 3), (66, 2), (66, 2)]) = some (65, 1, 3) := by decide
example : ¬ ConflictFree [(65, 1), (66, 2), (65, 3)] := by unfold ConflictFree; decide

/-! ### format 14: variation sequences -/

/-- On every well-formed format-14 table (selectors, default ranges and non-default mappings
sorted as the format requires; `Wf14`) `Cmap14::map_variant` — three nested runs of core's
`binary_search_by`, transcribed — returns the answer that was encoded: `UseDefault` exactly when the
code point lies in a default-UVS range of the selector's record, `Variant(g)` exactly when it does
not and `(c, g)` is a non-default mapping of that record, and `None` otherwise. -/
theorem cmap14_map_variant (t : List VarSel) (hw : Wf14 t) (c sel : Nat) :
    (mapVariant t c sel = some .useDefault ↔ ∃ rec ∈ t, rec.selector = sel ∧ InDefaults rec c) ∧
    (∀ g, mapVariant t c sel = some (.variant g) ↔
      ∃ rec ∈ t, rec.selector = sel ∧ ¬ InDefaults rec c ∧ InNonDefaults rec c g) :=
  mapVariant_iff t hw c sel

/-- `Cmap14Iter` and `map_variant` agree: everything `map_variant` answers is enumerated, and every
enumerated triple is what `map_variant` answers — unless a default range shadows a non-default
mapping of the same selector, in which case `map_variant` answers `UseDefault` -/
theorem cmap14_iter_agrees (t : List VarSel) (hw : Wf14 t) (c sel : Nat) (v : MapVariant) :
    (mapVariant t c sel = some v → (c, sel, v) ∈ iter14 t) ∧
    ((c, sel, v) ∈ iter14 t → mapVariant t c sel = some v ∨ mapVariant t c sel = some .useDefault) := by
  obtain ⟨m1, m2⟩ := mapVariant_iff t hw c sel
  constructor
  · intro h
    rw [mem_iter14]
    cases v with
    | useDefault =>
      obtain ⟨rec, h1, h2, h3⟩ := m1.1 h
      exact ⟨rec, h1, h2, Or.inl ⟨rfl, h3⟩⟩
    | variant g =>
      obtain ⟨rec, h1, h2, _, h4⟩ := (m2 g).1 h
      exact ⟨rec, h1, h2, Or.inr ⟨g, rfl, h4⟩⟩
  · intro h
    rw [mem_iter14] at h
    obtain ⟨rec, h1, h2, ⟨rfl, h3⟩ | ⟨g, rfl, h3⟩⟩ := h
    · exact Or.inl (m1.2 ⟨rec, h1, h2, h3⟩)
    · by_cases hin : InDefaults rec c
      · exact Or.inr (m1.2 ⟨rec, h1, h2, hin⟩)
      · exact Or.inl ((m2 g).2 ⟨rec, h1, h2, hin, h3⟩)

/-- non-vacuity: two selectors, default ranges and non-default mappings -/
example : Wf14 [⟨0xFE00, some [(0x20, 3), (0x4E00, 0)], some [(0x21, 7), (0x30, 9)]⟩,
                ⟨0xFE01, none, some [(0x41, 5)]⟩] :=
  ⟨by decide, by decide, by decide⟩

/-! ### skrifa subtable selection -/

/-- `MappingSelection::new`, for EVERY list of encoding records: the selected codepoint subtable is
a supported (format 4 / 12) candidate of the greatest `MappingKind` present — symbol (3) over
full repertoire (2) over BMP (1), `recKind` — and among those the LAST record of the table; nothing
is selected exactly when there is no candidate; the symbol flag is set exactly for a symbol pick. -/
theorem charmap_selection (recs : List Record) :
    (∀ j (hj : j < recs.length), recKind recs[j] ≤ (select recs).kind) ∧
    ((select recs).codepointIx = none ↔ ∀ j (hj : j < recs.length), recKind recs[j] = 0) ∧
    (∀ i, (select recs).codepointIx = some i → ∃ hi : i < recs.length,
      recKind recs[i] = (select recs).kind ∧ 0 < recKind recs[i] ∧
      ∀ j (hj : j < recs.length), i < j → recKind recs[j] < recKind recs[i]) ∧
    ((select recs).isSymbol = ((select recs).kind == 3)) := by
  have h : SelSpec recs 0 (select recs) := selectGo_spec recs 0
  refine ⟨h.maxKind, ?_, ?_, h.symbol⟩
  · rw [h.noneIff]
    constructor
    · intro hk j hj
      have := h.maxKind j hj
      omega
    · intro hall
      cases hc : (select recs).codepointIx with
      | none => exact h.noneIff.1 hc
      | some i =>
        obtain ⟨k, hk, _, h2, _⟩ := h.chosen i hc
        have := hall k hk
        omega
  · intro i hi
    obtain ⟨k, hk, h1, h2, h3⟩ := h.chosen i hi
    have hik : i = k := by omega
    subst hik
    have hpos : (select recs).kind ≠ 0 := fun h0 => by
      have := h.noneIff.2 h0
      rw [hi] at this; cases this
    refine ⟨hk, h2, by omega, fun j hj hij => ?_⟩
    have := h3 j hj hij
    omega

example : select [(0, 3, .f4), (0, 4, .f12), (3, 1, .f4), (3, 10, .f12)] =
    { kind := 2, codepointIx := some 3, isSymbol := false, variantIx := none } := by decide
example : select [(3, 0, .f4), (0, 4, .f12), (0, 5, .f14), (1, 0, .unsupported)] =
    { kind := 3, codepointIx := some 0, isSymbol := true, variantIx := some 2 } := by decide

/-! ### readers alone: iterator and lookup agree on every well-formed subtable -/

/-- For EVERY well-formed format-4 subtable (`Wf4`: equal-length segment arrays holding ascending,
disjoint 16-bit ranges; any deltas, range offsets and glyph id array — not only what write-fonts
builds) `Cmap4::iter()` yields `(c, g)` exactly when `Cmap4::map_codepoint(c)` returns `g`. -/
theorem fmt4_iter_agrees_with_lookup (t : Cmap4) (hw : Wf4 t) (c g : Nat) :
    (c, g) ∈ iter4 t ↔ map4 t c = some g :=
  iter4_mem_iff_map4 t hw c g

/-- the same for every well-formed list of format-12 groups (`start ≤ end`, ascending, disjoint,
no 32-bit wrap) -/
theorem fmt12_iter_agrees_with_lookup (gs : List Group) (lb : Nat) (hok : GroupsOk lb gs)
    (hb : GroupsBounded gs) (c g : Nat) (hc : c < 4294967296) :
    (c, g) ∈ iter12 gs.toArray none ↔ map12 gs.toArray c = some g := by
  rw [iter12_eq gs lb hok hb, map12_iff gs lb hok hb c g hc]

example : Wf4 { endCode := #[9, 33, 0x5000, 0xFFFF], startCode := #[1, 32, 0x5000, 0xFFFF],
                idDelta := #[0, -25568, -20473, 1], idRangeOffsets := #[8, 0, 0, 0],
                glyphIdArray := #[3, 1, 4, 5, 6, 7, 8, 2, 9] } :=
  ⟨rfl, ⟨by decide, fun i j hij hj => by
    have h : ∀ j, j < 4 → ∀ i, i < j →
        eCode { endCode := #[9, 33, 0x5000, 0xFFFF], startCode := #[1, 32, 0x5000, 0xFFFF],
                idDelta := #[0, -25568, -20473, 1], idRangeOffsets := #[8, 0, 0, 0],
                glyphIdArray := #[3, 1, 4, 5, 6, 7, 8, 2, 9] } i <
        sCode { endCode := #[9, 33, 0x5000, 0xFFFF], startCode := #[1, 32, 0x5000, 0xFFFF],
                idDelta := #[0, -25568, -20473, 1], idRangeOffsets := #[8, 0, 0, 0],
                glyphIdArray := #[3, 1, 4, 5, 6, 7, 8, 2, 9] } j := by decide
    exact h j hj i hij⟩, by decide⟩
example : GroupsOk 0 [(65, 66, 5), (67, 67, 9), (0x1F600, 0x1F601, 10)] := by simp [GroupsOk]

/-! ### tie between the driver's bounded enumeration and the enumeration in the theorems -/

/-- the driver prints `iter12N` (first `n` items, computed without materialising malformed groups
that span up to 2^32 code points); it is the `n`-prefix of `iter12` for all groups and limits -/
theorem iter12N_is_prefix (gs : Array Group) (limits : Limits) (n : Nat) :
    iter12N gs limits n = (iter12 gs limits).take n :=
  iter12N_eq_take gs limits n

end FontVerif.C08
