/-
C08 — Character maps built from a mapping answer exactly that mapping.
Property theorems only (helper lemmas live in Lemmas/Cmap.lean, Lemmas/Cmap4.lean).
Model: Model/Cmap.lean ⇄ write-fonts/src/tables/cmap.rs (from_mappings, Format4SegmentComputer,
create_format_4, create_format_12), read-fonts/src/tables/cmap.rs (Cmap4/Cmap12 map_codepoint,
lookup_glyph_id, iterators), skrifa/src/charmap.rs.
-/
import FontVerif.Model.Cmap
import FontVerif.Lemmas.Cmap
import FontVerif.Lemmas.Cmap4
import FontVerif.Lemmas.Cmap4Seg
import FontVerif.Lemmas.Cmap4Top
set_option linter.unusedVariables false
namespace FontVerif.C08
open FontVerif FontVerif.Cmap

/-! ### idDelta arithmetic is modulo 65536 -/

/-- the delta written by `create_format_4` (`delta as u16 as i16`) is an `i16` congruent to
`gid − cp` modulo 65536 — for every integer -/
theorem idDelta_is_i16 (d : Int) :
    -32768 ≤ wrapI16 d ∧ wrapI16 d ≤ 32767 ∧ (wrapI16 d - d) % 65536 = 0 := by
  unfold wrapI16
  simp only []
  split <;> omega

/-- writer delta followed by the reader's `(codepoint as i32 + delta) as u16` gives back the glyph,
for all 16-bit code points and glyph ids — in particular when `gid − cp` is outside `i16` -/
theorem idDelta_roundtrip (c g : Nat) (hc : c ≤ 0xFFFF) (hg : g ≤ 0xFFFF) :
    (wrapU16 ((c : Int) + wrapI16 ((g : Int) - (c : Int)))).toNat = g := by
  unfold wrapU16 wrapI16
  simp only []
  split <;> omega

example : wrapI16 ((40000 : Int) - 32) = -25568 := by decide
example : (wrapU16 ((32 : Int) + wrapI16 ((40000 : Int) - 32))).toNat = 40000 := by decide

/-! ### format 12 -/

/-- `create_format_12` succeeds on every non-empty in-domain mapping, and `Cmap12::map_codepoint`
on the groups it writes answers `some g` exactly for the pairs `(c, g)` of the mapping — for every
32-bit code point `c` (so: the mapped glyph for mapped characters, `none` for all others). -/
theorem fmt12_lookup (m : Mapping) (hd : InDomain m) (hne : m ≠ []) :
    ∃ gs, createFormat12 m = some gs ∧
      ∀ c v, c < 4294967296 → (map12 gs.toArray c = some v ↔ (c, v) ∈ m) := by
  obtain ⟨gs, h1, h2, h3⟩ := createFormat12_spec m 0 hne
    (Ascending.ascFrom m 0 hd.asc (fun _ _ => Nat.zero_le _)) hd.small
  refine ⟨gs, h1, fun c v hc => ?_⟩
  have hb : GroupsBounded gs := groupsBounded_of_expand gs 0 h2 (h3 ▸ hd.small)
  rw [map12_iff gs 0 h2 hb c v hc, h3]

/-- unmapped characters get no glyph from the format-12 subtable -/
theorem fmt12_lookup_unmapped (m : Mapping) (hd : InDomain m) (gs : List Group)
    (h : createFormat12 m = some gs) (c : Nat) (hc : c < 4294967296) (hno : ∀ v, (c, v) ∉ m) :
    map12 gs.toArray c = none := by
  have hne : m ≠ [] := by intro h0; subst h0; simp [createFormat12] at h
  obtain ⟨gs', h1, h2⟩ := fmt12_lookup m hd hne
  rw [h] at h1
  cases h1
  cases hq : map12 gs.toArray c with
  | none => rfl
  | some v => exact absurd ((h2 c v hc).1 hq) (hno v)

/-- enumerating the compiled format-12 subtable (`Cmap12::iter`) yields exactly the mapping, in
ascending character order -/
theorem fmt12_iter (m : Mapping) (hd : InDomain m) (gs : List Group) (h : createFormat12 m = some gs) :
    iter12 gs.toArray none = m := by
  have hne : m ≠ [] := by intro h0; subst h0; simp [createFormat12] at h
  obtain ⟨gs', h1, h2, h3⟩ := createFormat12_spec m 0 hne
    (Ascending.ascFrom m 0 hd.asc (fun _ _ => Nat.zero_le _)) hd.small
  rw [h] at h1
  cases h1
  have hb : GroupsBounded gs := groupsBounded_of_expand gs 0 h2 (h3 ▸ hd.small)
  rw [iter12_eq gs 0 h2 hb, h3]

/-- non-vacuity: a mapping with a supplementary-plane run, a gid jump and a char gap -/
example : InDomain [(65, 5), (66, 6), (67, 9), (0x1F600, 10), (0x1F601, 11), (0x10FFFF, 12)] :=
  ⟨by unfold Ascending; decide, by decide, by decide⟩
example : createFormat12 [(65, 5), (66, 6), (67, 9), (0x1F600, 10), (0x1F601, 11), (0x10FFFF, 12)]
    = some [(65, 66, 5), (67, 67, 9), (0x1F600, 0x1F601, 10), (0x10FFFF, 0x10FFFF, 12)] := by decide

/-! ### format 4 -/

/-- `Format4SegmentComputer::compute` always returns a valid segmentation of the BMP part of its
input — for EVERY input list (no sortedness or range hypothesis): the segments tile the index
range, each is a run of consecutive code points, and a segment that carries an `id_delta` has
constant `gid − cp`.  (`SegsTile`/`SegOk` are defined in Lemmas/Cmap4.lean.) -/
theorem segments_valid (m : Mapping) :
    SegsTile (cpAt m.toArray) (gidAt m.toArray) 0 (bmpPrefix m).length (segments m) :=
  segments_tile m

/-- Round trip for ANY valid segmentation (robust against changes of the merging heuristics):
if `create_format_4`, run on a valid segmentation `segs` of an in-domain mapping, returns a table,
then `Cmap4::map_codepoint` on that table answers `some v` for code point `c` exactly when `(c, v)`
is a BMP pair of the mapping — or `c` is U+FFFF, which the mandatory final segment maps to glyph 0.
In particular every unmapped code point (and every code point above U+FFFF) gets `none`. -/
theorem fmt4_lookup_any_segmentation (m : Mapping) (hd : InDomain m) (segs : List Seg)
    (hv : SegsTile (cpAt m.toArray) (gidAt m.toArray) 0 (bmpPrefix m).length segs)
    (t : Cmap4) (h : encode4 m segs = .ok (some t)) (c v : Nat) :
    map4 t c = some v ↔ ((c, v) ∈ m ∧ c ≤ 0xFFFF) ∨ (c = 0xFFFF ∧ v = 0) := by
  have hm := mapOk_of_inDomain m hd
  have hne : segs ≠ [] := by
    intro h0; subst h0
    unfold encode4 at h
    split at h
    · cases h
    · simp at h
  rcases encode4_rows m segs (fun p hp => (hd.gid p hp).2) hne with htrap | ⟨rows, g, hok, hr⟩
  · rw [htrap] at h; cases h
  rw [hok] at h
  injection h with h
  injection h with h
  subst h
  rw [mem_iff_index m hd c v]
  constructor
  · intro hq
    by_cases hc : c = 0xFFFF
    · subst hc
      rw [map4_sentinel hm hv hr] at hq
      exact Or.inr ⟨rfl, (Option.some.inj hq).symm⟩
    · by_cases hex : ∃ k, k < (bmpPrefix m).length ∧ cpAt m.toArray k = c
      · obtain ⟨k, hk, hck⟩ := hex
        rw [← hck, map4_mapped hm hv hr k hk] at hq
        exact Or.inl ⟨k, hk, hck, Option.some.inj hq⟩
      · rw [map4_unmapped hm hv hr c hc (fun k hk hck => hex ⟨k, hk, hck⟩)] at hq
        cases hq
  · rintro (⟨k, hk, hck, hgk⟩ | ⟨rfl, rfl⟩)
    · rw [← hck, ← hgk]
      exact map4_mapped hm hv hr k hk
    · exact map4_sentinel hm hv hr

/-- Round trip through `create_format_4` as implemented (segment computer + encoder) and
`Cmap4::map_codepoint`: the mapped glyph for every mapped BMP character, glyph 0 for U+FFFF,
`none` for everything else. -/
theorem fmt4_lookup (m : Mapping) (hd : InDomain m) (t : Cmap4) (h : createFormat4 m = .ok (some t))
    (c v : Nat) : map4 t c = some v ↔ ((c, v) ∈ m ∧ c ≤ 0xFFFF) ∨ (c = 0xFFFF ∧ v = 0) :=
  fmt4_lookup_any_segmentation m hd (segments m) (segments_valid m) t h c v

/-- mapped BMP characters: the mapped glyph -/
theorem fmt4_lookup_mapped (m : Mapping) (hd : InDomain m) (t : Cmap4) (h : createFormat4 m = .ok (some t))
    (c g : Nat) (hmem : (c, g) ∈ m) (hc : c ≤ 0xFFFF) : map4 t c = some g :=
  (fmt4_lookup m hd t h c g).2 (Or.inl ⟨hmem, hc⟩)

/-- unmapped characters (U+FFFF excepted): no glyph -/
theorem fmt4_lookup_unmapped (m : Mapping) (hd : InDomain m) (t : Cmap4) (h : createFormat4 m = .ok (some t))
    (c : Nat) (hc : c ≠ 0xFFFF) (hno : ∀ v, (c, v) ∉ m) : map4 t c = none := by
  cases hq : map4 t c with
  | none => rfl
  | some v =>
    rcases (fmt4_lookup m hd t h c v).1 hq with ⟨h1, _⟩ | ⟨h1, _⟩
    · exact absurd h1 (hno v)
    · exact absurd h1 hc

/-- "Returns `None` if none of the input chars are in the BMP" — and only then -/
theorem fmt4_none_iff (m : Mapping) (hd : InDomain m) :
    createFormat4 m = .ok none ↔ ∀ p ∈ m, p.1 > 0xFFFF := by
  have hsz : segments m = [] ↔ bmpPrefix m = [] := by
    unfold segments
    rw [computeSegs_nil_iff]
    simp
  have hpre : bmpPrefix m = [] ↔ ∀ p ∈ m, p.1 > 0xFFFF := by
    rw [List.eq_nil_iff_forall_not_mem]
    constructor
    · intro h p hp
      have := h p
      rw [mem_bmpPrefix m hd.asc] at this
      rcases Nat.lt_or_ge 0xFFFF p.1 with h' | h'
      · exact h'
      · exact absurd ⟨hp, h'⟩ this
    · intro h p hp
      rw [mem_bmpPrefix m hd.asc] at hp
      have := h p hp.1
      omega
  rw [← hpre, ← hsz]
  constructor
  · intro h
    by_cases hne : segments m = []
    · exact hne
    · rcases encode4_rows m (segments m) (fun p hp => (hd.gid p hp).2) hne with htrap | ⟨rows, g, hok, _⟩
      · rw [createFormat4, htrap] at h; cases h
      · rw [createFormat4, hok] at h; cases h
  · intro h
    unfold createFormat4 encode4
    have e1 : (m.any fun p => decide (p.2 > 0xFFFF)) = false := by
      rw [List.any_eq_false]
      intro p hp
      have := (hd.gid p hp).2
      simp; omega
    simp [e1, h]

/-- building succeeds: for an in-domain mapping with between 1 and 6551 BMP characters
(10·n + 24 ≤ 65535: what a 16-bit format-4 length can always hold) `create_format_4` returns a
table, and that table's `compute_length` fits 16 bits -/
theorem fmt4_build_succeeds (m : Mapping) (hd : InDomain m) (hne : bmpPrefix m ≠ [])
    (hn : (bmpPrefix m).length ≤ 6551) : ∃ t, createFormat4 m = .ok (some t) ∧ t.lengthFits = true := by
  have hsegs : segments m ≠ [] := by
    unfold segments
    rw [Ne, computeSegs_nil_iff]
    simpa using hne
  exact encode4_ok m (segments m) _ (fun p hp => (hd.gid p hp).2) (segments_valid m) hn hsegs

/-- non-vacuity: the doc-comment example of `should_combine` (three segments merged into one
range-offset segment), a delta segment whose delta does not fit `i16`, a lone character, and a
supplementary character that format 4 ignores -/
example : InDomain [(1, 3), (2, 1), (3, 4), (4, 5), (5, 6), (6, 7), (7, 8), (8, 2), (9, 9),
    (32, 40000), (33, 40001), (0x5000, 7), (0x1F600, 10)] :=
  ⟨by unfold Ascending; decide, by decide, by decide⟩
example : createFormat4 [(1, 3), (2, 1), (3, 4), (4, 5), (5, 6), (6, 7), (7, 8), (8, 2), (9, 9),
    (32, 40000), (33, 40001), (0x5000, 7), (0x1F600, 10)] =
    .ok (some { endCode := #[9, 33, 0x5000, 0xFFFF], startCode := #[1, 32, 0x5000, 0xFFFF],
                idDelta := #[0, -25568, -20473, 1], idRangeOffsets := #[8, 0, 0, 0],
                glyphIdArray := #[3, 1, 4, 5, 6, 7, 8, 2, 9] }) := by decide

end FontVerif.C08
