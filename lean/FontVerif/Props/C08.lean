/-
C08 — Character maps built from a mapping answer exactly that mapping.
Property theorems only (helper lemmas live in Lemmas/Cmap.lean, Lemmas/Cmap4.lean).
Model: Model/Cmap.lean ⇄ write-fonts/src/tables/cmap.rs (from_mappings, Format4SegmentComputer,
create_format_4, create_format_12), read-fonts/src/tables/cmap.rs (Cmap4/Cmap12 map_codepoint,
lookup_glyph_id, iterators), skrifa/src/charmap.rs.
-/
import FontVerif.Model.Cmap
import FontVerif.Lemmas.Cmap
set_option linter.unusedVariables false
namespace FontVerif.C08
open FontVerif FontVerif.Cmap

/-! ### the domain of the property -/

/-- strictly ascending code points: what `from_mappings` hands to the subtable builders for a
conflict-free input (sorted, deduplicated, each character once) -/
def Ascending (m : Mapping) : Prop := m.Pairwise (fun a b => a.1 < b.1)

/-- a conflict-free mapping in the property's domain: Unicode scalar range, U+FFFF excepted,
glyph ids non-zero and 16 bit -/
structure InDomain (m : Mapping) : Prop where
  asc : Ascending m
  cp : ∀ p ∈ m, p.1 ≤ 0x10FFFF ∧ p.1 ≠ 0xFFFF
  gid : ∀ p ∈ m, 1 ≤ p.2 ∧ p.2 ≤ 0xFFFF

theorem Ascending.ascFrom : ∀ (m : Mapping) (lb : Nat), Ascending m → (∀ p ∈ m, lb ≤ p.1) → AscFrom lb m := by
  intro m
  induction m with
  | nil => intro _ _ _; trivial
  | cons p rest ih =>
    intro lb h hlb
    have h' := List.pairwise_cons.1 h
    exact ⟨hlb p (List.mem_cons_self ..), ih _ h'.2 (fun q hq => h'.1 q hq)⟩

theorem InDomain.small {m : Mapping} (h : InDomain m) : Small m := by
  intro p hp
  have := h.cp p hp
  have := h.gid p hp
  omega

/-! ### idDelta arithmetic is modulo 65536 -/

/-- the delta written by `create_format_4` (`delta as u16 as i16`) is an `i16` congruent to
`gid − cp` modulo 65536 — for every integer -/
theorem idDelta_is_i16 (d : Int) :
    -32768 ≤ wrapI16 d ∧ wrapI16 d ≤ 32767 ∧ (wrapI16 d - d) % 65536 = 0 := by
  unfold wrapI16
  simp only []
  split <;> omega

/-- writer delta followed by the reader's `(codepoint as i32 + delta) as u16` gives back the glyph,
for all 16-bit code points and glyph ids — in particular when `gid − cp` is outside `i16` -/
theorem idDelta_roundtrip (c g : Nat) (hc : c ≤ 0xFFFF) (hg : g ≤ 0xFFFF) :
    (wrapU16 ((c : Int) + wrapI16 ((g : Int) - (c : Int)))).toNat = g := by
  unfold wrapU16 wrapI16
  simp only []
  split <;> omega

example : wrapI16 ((40000 : Int) - 32) = -25568 := by decide
example : (wrapU16 ((32 : Int) + wrapI16 ((40000 : Int) - 32))).toNat = 40000 := by decide

/-! ### format 12 -/

/-- `create_format_12` succeeds on every non-empty in-domain mapping, and `Cmap12::map_codepoint`
on the groups it writes answers `some g` exactly for the pairs `(c, g)` of the mapping — for every
32-bit code point `c` (so: the mapped glyph for mapped characters, `none` for all others). -/
theorem fmt12_lookup (m : Mapping) (hd : InDomain m) (hne : m ≠ []) :
    ∃ gs, createFormat12 m = some gs ∧
      ∀ c v, c < 4294967296 → (map12 gs.toArray c = some v ↔ (c, v) ∈ m) := by
  obtain ⟨gs, h1, h2, h3⟩ := createFormat12_spec m 0 hne
    (Ascending.ascFrom m 0 hd.asc (fun _ _ => Nat.zero_le _)) hd.small
  refine ⟨gs, h1, fun c v hc => ?_⟩
  have hb : GroupsBounded gs := groupsBounded_of_expand gs 0 h2 (h3 ▸ hd.small)
  rw [map12_iff gs 0 h2 hb c v hc, h3]

/-- unmapped characters get no glyph from the format-12 subtable -/
theorem fmt12_lookup_unmapped (m : Mapping) (hd : InDomain m) (gs : List Group)
    (h : createFormat12 m = some gs) (c : Nat) (hc : c < 4294967296) (hno : ∀ v, (c, v) ∉ m) :
    map12 gs.toArray c = none := by
  have hne : m ≠ [] := by intro h0; subst h0; simp [createFormat12] at h
  obtain ⟨gs', h1, h2⟩ := fmt12_lookup m hd hne
  rw [h] at h1
  cases h1
  cases hq : map12 gs.toArray c with
  | none => rfl
  | some v => exact absurd ((h2 c v hc).1 hq) (hno v)

/-- enumerating the compiled format-12 subtable (`Cmap12::iter`) yields exactly the mapping, in
ascending character order -/
theorem fmt12_iter (m : Mapping) (hd : InDomain m) (gs : List Group) (h : createFormat12 m = some gs) :
    iter12 gs.toArray none = m := by
  have hne : m ≠ [] := by intro h0; subst h0; simp [createFormat12] at h
  obtain ⟨gs', h1, h2, h3⟩ := createFormat12_spec m 0 hne
    (Ascending.ascFrom m 0 hd.asc (fun _ _ => Nat.zero_le _)) hd.small
  rw [h] at h1
  cases h1
  have hb : GroupsBounded gs := groupsBounded_of_expand gs 0 h2 (h3 ▸ hd.small)
  rw [iter12_eq gs 0 h2 hb, h3]

/-- non-vacuity: a mapping with a supplementary-plane run, a gid jump and a char gap -/
example : InDomain [(65, 5), (66, 6), (67, 9), (0x1F600, 10), (0x1F601, 11), (0x10FFFF, 12)] :=
  ⟨by unfold Ascending; decide, by decide, by decide⟩
example : createFormat12 [(65, 5), (66, 6), (67, 9), (0x1F600, 10), (0x1F601, 11), (0x10FFFF, 12)]
    = some [(65, 66, 5), (67, 67, 9), (0x1F600, 0x1F601, 10), (0x10FFFF, 0x10FFFF, 12)] := by decide

end FontVerif.C08
