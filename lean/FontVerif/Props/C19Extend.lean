/-
C19 (part 5) — the extension loop of `src/bin/ift_extend.rs` (a binary: not callable by the harness).
Model: `PatchGroup.extendF` (Model/PatchGroup.lean).  Tie to the source: translate/c19_extend.py
re-extracts the loop's statement skeleton on every run (Gen/C19Extend.lean) and checks the token hash
of the loop body against a reviewed normal form.  Helper lemmas: Lemmas/PatchGroupExtend.lean.
-/
import FontVerif.Lemmas.PatchGroupExtend
import FontVerif.Gen.C19Extend
import FontVerif.Props.C19
set_option linter.unusedVariables false
namespace FontVerif.C19
open FontVerif FontVerif.PatchMap FontVerif.PatchGroup FontVerif.UriTemplate

/-- **extend_model_matches_source.**  The statement skeleton of the binary's loop, as extracted from
the CURRENT source — the named steps in order (parse font → select → exit test `!has_uris` → for each
selected uri: status lookup (`contains_key` ⇒ skip) → fetch → enter as `Pending` → apply), the steps
whose failure ends the run, the state carried between rounds, and the control-flow census (one
`break`, one `continue`, no `return`, ONE write to the status map, no `?`) — is exactly the skeleton
of the model `extendF`. -/
theorem extend_model_matches_source :
    Gen.C19Extend.steps = extendSteps ∧ Gen.C19Extend.failing = extendFailing ∧
    Gen.C19Extend.carried = extendCarried ∧ Gen.C19Extend.controlFlow = extendControlFlow := by
  decide

/-- **extend_terminates_and_reaches_fixpoint.**  Fonts are any type `F` with two mapping tables
(`ift`, `iftx`), patch application is ARBITRARY (`applyTk`, `applyGk`: property C18), the server is
any partial function `fetch`.  Let `Inv` be any property of fonts that holds initially and is kept by
successful patch application ("reachable"), and `U` a list containing every uri that
`select_next_patches` can name on a reachable font (e.g. the expanded uris of all entries of all
reachable mapping tables).  Then the loop, started with an empty status map and more than `|U|`
fuel, NEVER runs out of fuel, and

* ends `done` after at most `|U|` rounds with a reachable font whose offered set for the target
  definition is EMPTY (`intersecting_patches = Ok([])`: the fixpoint), or
* ends with an error VALUE (selection error, a failed fetch, or a patch-application error incl.
  `EmptyPatchList` when a round could not make progress), also within `|U|` rounds. -/
theorem extend_terminates_and_reaches_fixpoint {F : Type} (ift iftx : F → MapTable) (d : SubsetDef)
    (applyTk : F → PatchInfo → List Nat → Except String F)
    (applyGk : F → List (PatchInfo × List Nat) → Except String F)
    (fetch : Uri → Option (List Nat)) (Inv : F → Prop) (U : List Uri)
    (hTk : ∀ f p data f', Inv f → applyTk f p data = .ok f' → Inv f')
    (hGk : ∀ f acc f', Inv f → applyGk f acc = .ok f' → Inv f')
    (hU : ∀ f g, Inv f → selectNext (ift f) (iftx f) d = .ok g → ∀ u, u ∈ optUris g → u ∈ U)
    (font0 : F) (h0 : Inv font0) (fuel : Nat) (hfuel : U.length < fuel) :
    match extendF (fun f => selectNext (ift f) (iftx f) d) applyTk applyGk fetch fuel 0 font0 [] with
    | .done f' pd' r => r ≤ U.length ∧ Inv f' ∧ intersectingPatches (ift f') (iftx f') d = .ok []
    | .failed _ r => r ≤ U.length
    | .outOfFuel _ _ => False := by
  have hb := extendF_bounded (fun f => selectNext (ift f) (iftx f) d) applyTk applyGk fetch Inv U hTk hGk hU
    fuel 0 font0 [] h0 (PdOk.nil U) (by simp [appliedCount]; omega)
  cases hr : extendF (fun f => selectNext (ift f) (iftx f) d) applyTk applyGk fetch fuel 0 font0 [] with
  | done f' pd' r =>
    simp only [hr] at hb ⊢
    obtain ⟨h1, h2, _, g, hg, hno⟩ := hb
    refine ⟨by simp [appliedCount] at h1; omega, h2, ?_⟩
    -- no uris selected ⇒ nothing offered
    obtain ⟨cands, hc, hcase⟩ := selectNext_cases hg
    rcases hcase with ⟨he, _⟩ | ⟨hne, _, G, hG, hsel⟩
    · rw [hc, he]
    · exfalso
      have := (select_progress (ift f') (iftx f') d cands g hc hne hg).1
      rw [hno] at this
      cases this
  | failed e r =>
    simp only [hr] at hb ⊢
    simp [appliedCount] at hb; omega
  | outOfFuel f' pd' => simp only [hr] at hb

/-- **fetch_failure_is_error.**  A round that selects a uri without a status which the server cannot
deliver ends the run with an error value (the binary panics with "Unable to read patch file"). -/
theorem fetch_failure_is_error {F : Type} (select : F → Except String (Option Group))
    (applyTk : F → PatchInfo → List Nat → Except String F)
    (applyGk : F → List (PatchInfo × List Nat) → Except String F)
    (fetch : Uri → Option (List Nat)) (fuel rounds : Nat) (font : F) (pd : PatchData) (g : Option Group)
    (hs : select font = .ok g) (hh : hasUris g = true) (u : Uri) (hu : u ∈ optUris g)
    (hget : pdGet pd u = none) (hf : fetch u = none) :
    extendF select applyTk applyGk fetch (fuel + 1) rounds font pd = .failed "err:fetch-failed" rounds := by
  simp only [extendF, hs, hh, Bool.not_true, Bool.false_eq_true, if_false,
    fetchMissingOpt_none fetch _ pd u hu hget hf]

/-! ## non-vacuity -/

section Examples

private def mkRaw (cps : Ranges) (ignored : Bool) : RawEntry :=
  { flags := 16 + (if ignored then 64 else 0), feats := [], segs := [], childByte := 0, children := [],
    delta := 0, fmt := 0, bias := 0, cps := some cps, size := 2 }

private def tbl (ignored : Bool) : MapTable :=
  .f2 { compat := 7, defaultFormat := 2, entriesOffset := 40, hasIdStrings := false, idData := [],
        template := [123, 105, 100, 125], utf8Ok := true, raws := [mkRaw [(65, 65)] ignored] }

/-- fonts = "is the only entry applied?"; the table-keyed patch marks it -/
private def run (fetch : Uri → Option (List Nat)) (marks : Bool) : RunResult Bool :=
  extendF (F := Bool) (fun f => selectNext (tbl f) .none ⟨[(65, 65)], .set [], .ranges []⟩)
    (fun _ _ _ => .ok marks) (fun f _ => .ok f) fetch 5 0 false []

private def outcome : RunResult Bool → String
  | .done f _ r => s!"done {f} {r}"
  | .failed e r => s!"failed {e} {r}"
  | .outOfFuel _ _ => "fuel"

/-- a server that answers: one round, then nothing is offered -/
example : outcome (run (fun _ => some [1]) true) = "done true 1" := by decide +kernel
/-- a server that fails -/
example : outcome (run (fun _ => none) true) = "failed err:fetch-failed 0" := by decide +kernel
/-- a patch that does not mark its entry: the second round reports `EmptyPatchList` instead of looping -/
example : outcome (run (fun _ => some [1]) false) = "failed err:EmptyPatchList 1" := by decide +kernel

end Examples

end FontVerif.C19
