/-
C07 — compilation is deterministic across threads, runs and history.

Theorems over `Model/Determinism.lean` (see there for the Rust ↔ Lean map):
* the global id counter: whatever the interleaving and the prior history, the ids one compilation draws are strictly
  increasing in its own program order, so two runs differ by a strictly monotone renaming of ids;
* hash-container iteration order: every inventoried consumption pattern is invariant under permutation of the
  iteration order;
* the id-consuming functions commute with strictly monotone renamings.
-/
import FontVerif.Model.Determinism
import FontVerif.Lemmas.Determinism
import FontVerif.Lemmas.DeterminismEquiv
import FontVerif.Gen.Sites
set_option linter.unusedVariables false
set_option linter.unusedSimpArgs false
namespace FontVerif.C07
open FontVerif.Determinism

/-! ## 1. the counter under arbitrary schedules -/

private theorem runSched_bounds (c : Nat) (sched : List Nat) (h : c + sched.length ≤ U64) :
    ∀ e ∈ runSched c sched, c ≤ e.2 ∧ e.2 < c + sched.length := by
  induction sched generalizing c with
  | nil => intro e he; simp [runSched] at he
  | cons t ts ih =>
    intro e he
    simp only [runSched, fetchAdd, List.mem_cons] at he
    simp only [List.length_cons] at h ⊢
    rcases he with rfl | he
    · simp
    · have hlt : c + 1 < U64 ∨ ts = [] := by
        cases ts with
        | nil => right; rfl
        | cons _ _ => left; simp at h; omega
      rcases hlt with hlt | rfl
      · rw [Nat.mod_eq_of_lt hlt] at he
        have := ih (c + 1) (by omega) e he
        omega
      · simp [runSched] at he

/-- All ids handed out along a schedule are strictly increasing in schedule order (as long as the 64-bit counter
    does not wrap: `c + #steps ≤ 2^64`). -/
theorem trace_strictly_increasing (c : Nat) (sched : List Nat) (h : c + sched.length ≤ U64) :
    ((runSched c sched).map (·.2)).Pairwise (· < ·) := by
  induction sched generalizing c with
  | nil => simp [runSched]
  | cons t ts ih =>
    simp only [runSched, fetchAdd, List.map_cons, List.pairwise_cons]
    simp only [List.length_cons] at h
    cases ts with
    | nil => simp [runSched]
    | cons t' ts' =>
      have hlt : c + 1 < U64 := by simp at h; omega
      rw [Nat.mod_eq_of_lt hlt]
      refine ⟨?_, ih (c + 1) (by omega)⟩
      intro a ha
      simp only [List.mem_map] at ha
      obtain ⟨e, he, rfl⟩ := ha
      have := runSched_bounds (c + 1) (t' :: ts') (by omega) e he
      omega

/-- **schedule_monotone**: for EVERY schedule (interleaving of any number of threads) and every starting value of
    the counter (prior history), the ids obtained by one thread are strictly increasing in its own program order. -/
theorem schedule_monotone (c : Nat) (sched : List Nat) (t : Nat) (h : c + sched.length ≤ U64) :
    (idsOf t (runSched c sched)).Pairwise (· < ·) := by
  have := trace_strictly_increasing c sched h
  unfold idsOf
  rw [List.pairwise_map] at this ⊢
  exact this.sublist List.filter_sublist

/-- a thread obtains exactly as many ids as it has steps in the schedule -/
theorem ids_length (c : Nat) (sched : List Nat) (t : Nat) :
    (idsOf t (runSched c sched)).length = sched.count t := by
  induction sched generalizing c with
  | nil => simp [runSched, idsOf]
  | cons t' ts ih =>
    have := ih (fetchAdd c).2
    simp only [idsOf, List.length_map] at this ⊢
    simp only [runSched, List.filter_cons, List.count_cons]
    by_cases htt : t' = t
    · subst htt; simp [this]
    · have : (t' == t) = false := by simpa using htt
      simp [this, *]

/-- `ρ` is strictly monotone on the elements of `l` -/
def MonoOn (ρ : Nat → Nat) (l : List Nat) : Prop := ∀ a ∈ l, ∀ b ∈ l, a < b → ρ a < ρ b

/-- Two strictly increasing id sequences of the same length are related by a renaming that is strictly monotone on
    the first. -/
theorem monotone_renaming_exists (l₁ l₂ : List Nat) (h₁ : l₁.Pairwise (· < ·)) (h₂ : l₂.Pairwise (· < ·))
    (hlen : l₁.length = l₂.length) : ∃ ρ : Nat → Nat, MonoOn ρ l₁ ∧ l₁.map ρ = l₂ := by
  induction l₁ generalizing l₂ with
  | nil =>
    cases l₂ with
    | nil => exact ⟨id, by intro a ha; simp at ha, rfl⟩
    | cons _ _ => simp at hlen
  | cons a as ih =>
    cases l₂ with
    | nil => simp at hlen
    | cons b bs =>
      rw [List.pairwise_cons] at h₁ h₂
      obtain ⟨ρ', hmono, hmap⟩ := ih bs h₁.2 h₂.2 (by simpa using hlen)
      refine ⟨fun x => if x = a then b else ρ' x, ?_, ?_⟩
      · intro x hx y hy hxy
        simp only [List.mem_cons] at hx hy
        have hmem : ∀ z ∈ as, ρ' z ∈ bs := by
          intro z hz; rw [← hmap]; exact List.mem_map.mpr ⟨z, hz, rfl⟩
        rcases hx with rfl | hx <;> rcases hy with rfl | hy
        · omega
        · have hne : y ≠ x := by have := h₁.1 y hy; omega
          simp only [if_pos rfl, if_neg hne]
          exact h₂.1 _ (hmem y hy)
        · have := h₁.1 x hx; omega
        · have hx' : x ≠ a := by have := h₁.1 x hx; omega
          have hy' : y ≠ a := by have := h₁.1 y hy; omega
          simp only [if_neg hx', if_neg hy']
          exact hmono x hx y hy hxy
      · simp only [List.map_cons, if_pos rfl]
        congr 1
        rw [← hmap]
        apply List.map_congr_left
        intro x hx
        have : x ≠ a := by have := h₁.1 x hx; omega
        simp [this]

/-- **runs_differ_by_monotone_renaming**: take the same compilation (a thread performing `n` draws) in two
    arbitrary executions — different starting counters (histories), different interleavings with any other threads,
    different thread names.  The ids it sees in the two executions differ by a renaming that is strictly monotone on
    the ids of the first execution. -/
theorem runs_differ_by_monotone_renaming (c c' : Nat) (sched sched' : List Nat) (t t' : Nat)
    (h : c + sched.length ≤ U64) (h' : c' + sched'.length ≤ U64)
    (hsame : sched.count t = sched'.count t') :
    ∃ ρ : Nat → Nat, MonoOn ρ (idsOf t (runSched c sched)) ∧
      (idsOf t (runSched c sched)).map ρ = idsOf t' (runSched c' sched') :=
  monotone_renaming_exists _ _ (schedule_monotone c sched t h) (schedule_monotone c' sched' t' h')
    (by rw [ids_length, ids_length, hsame])

-- non-vacuity: two threads interleaved; history 0 vs history 1000 and a different interleaving
example : idsOf 7 (runSched 0 [7, 3, 7, 7, 3]) = [0, 2, 3] := by decide
example : idsOf 9 (runSched 1000 [1, 1, 9, 2, 9, 2, 2, 9]) = [1002, 1004, 1007] := by decide
example : (0 : Nat) + [7, 3, 7, 7, 3].length ≤ U64 := by decide
-- at the wrap the hypothesis fails and so does monotonicity: the hypothesis is needed
example : idsOf 0 (runSched (U64 - 1) [0, 0]) = [U64 - 1, 0] := by decide

/-! ## 2. hash-container iteration order: one permutation-invariance lemma per consumption pattern

`std::collections::HashMap` is assumed to yield every entry exactly once, in an arbitrary order: two iterations of
the same container contents are permutations of one another (`List.Perm`). -/

/-- **store_perm_invariant** (class `collect_ordered`; `Graph::from_obj_store`): whatever order the
    `HashMap<TableData, ObjectId>` yields its entries in, the `BTreeMap<ObjectId, TableData>` built from them is the
    same — provided the ids are distinct, which `trace_strictly_increasing` guarantees for ids drawn from the counter. -/
theorem store_perm_invariant (es₁ es₂ : List (Obj × Nat)) (hp : es₁.Perm es₂) (hid : (es₁.map (·.2)).Nodup) :
    fromObjStore es₁ = fromObjStore es₂ := by
  unfold fromObjStore OMap.ofList
  refine foldl_perm_inv (fun m (e : Nat × Obj) => OMap.insert e.1 e.2 m) (fun _ => True)
    (fun a b => a.1 ≠ b.1) (fun _ _ h => Ne.symm h) (fun _ _ _ => trivial)
    (fun z x y _ h => (insert_comm y.1 x.1 y.2 x.2 (Ne.symm h) z)) (hp.map _) [] trivial ?_
  rw [List.pairwise_map]
  exact nodup_map_pairwise (·.2) es₁ hid

/-- the same for any `collect::<BTreeMap<_,_>>()` of entries with distinct keys -/
theorem collect_ordered_perm {α : Type} (l₁ l₂ : List (Nat × α)) (hp : l₁.Perm l₂) (hk : (l₁.map (·.1)).Nodup) :
    OMap.ofList l₁ = OMap.ofList l₂ := by
  unfold OMap.ofList
  exact foldl_perm_inv (fun m (e : Nat × α) => OMap.insert e.1 e.2 m) (fun _ => True)
    (fun a b => a.1 ≠ b.1) (fun _ _ h => Ne.symm h) (fun _ _ _ => trivial)
    (fun z x y _ h => (insert_comm y.1 x.1 y.2 x.2 (Ne.symm h) z)) hp [] trivial
    (nodup_map_pairwise (·.1) l₁ hk)

/-- `collect::<BTreeSet<_>>()` / sorted-and-deduplicated collections (`CoverageTable::from_iter`): no side condition -/
theorem collect_ordered_set_perm (l₁ l₂ : List Nat) (hp : l₁.Perm l₂) : OSet.ofList l₁ = OSet.ofList l₂ := by
  have hs : ∀ l : List Nat, ∀ s, SortedSet s → SortedSet (l.foldl (fun s k => OSet.insert k s) s) := by
    intro l; induction l with
    | nil => intro s h; exact h
    | cons a as ih => intro s h; exact ih _ (oset_insert_sorted a s h)
  have hm : ∀ l : List Nat, ∀ s x, x ∈ l.foldl (fun s k => OSet.insert k s) s ↔ x ∈ l ∨ x ∈ s := by
    intro l; induction l with
    | nil => intro s x; simp
    | cons a as ih =>
      intro s x
      simp only [List.foldl_cons, ih, oset_mem_insert, List.mem_cons]
      constructor
      · intro h; rcases h with h | h | h
        · exact Or.inl (Or.inr h)
        · exact Or.inl (Or.inl h)
        · exact Or.inr h
      · intro h; rcases h with (h | h) | h
        · exact Or.inr (Or.inl h)
        · exact Or.inl h
        · exact Or.inr (Or.inr h)
  apply sorted_ext _ _ (hs l₁ [] List.Pairwise.nil) (hs l₂ [] List.Pairwise.nil)
  intro x
  rw [hm, hm, hp.mem_iff]

/-- class `collect_hash`: a set built from the iteration is only asked membership questions -/
theorem collect_hash_perm {α : Type} (l₁ l₂ : List α) (hp : l₁.Perm l₂) (x : α) : x ∈ l₁ ↔ x ∈ l₂ := hp.mem_iff

/-- class `set_algebra` (`remove_orphans`): removing a set of keys from a `BTreeMap`, in any order -/
theorem eraseAll_perm {α : Type} (ks₁ ks₂ : List Nat) (hp : ks₁.Perm ks₂) (m : OMap α) :
    eraseAll ks₁ m = eraseAll ks₂ m := by
  unfold eraseAll
  exact hp.foldl_eq' (fun x _ y _ z => erase_comm y x z) m

/-- class `fold_commutative`: sums (`split_subtables`), counts, maxima -/
theorem sum_perm (l₁ l₂ : List Nat) (hp : l₁.Perm l₂) : l₁.sum = l₂.sum := hp.sum_nat

theorem count_perm {α : Type} (p : α → Bool) (l₁ l₂ : List α) (hp : l₁.Perm l₂) :
    (l₁.filter p).length = (l₂.filter p).length := (hp.filter p).length_eq

theorem max_perm (l₁ l₂ : List Nat) (hp : l₁.Perm l₂) : l₁.foldl max 0 = l₂.foldl max 0 :=
  hp.foldl_eq' (fun x _ y _ z => by simp only [Nat.max_assoc, Nat.max_comm x y]) 0

/-- class `check_only` (`sort_kahn`'s cycle check): "does some entry fail the test" -/
theorem any_perm {α : Type} (p : α → Bool) (l₁ l₂ : List α) (hp : l₁.Perm l₂) : l₁.any p = l₂.any p := hp.any_eq

/-- class `sort_total_key` (`ClassDefBuilder::build_with_mapping`, `SinglePosBuilder::build`,
    `make_region_list`): collected into a `Vec` in iteration order, then sorted by a key that is injective on the
    elements — the sorted vector does not depend on the iteration order. -/
theorem sortByKey_perm_of_injective {α : Type} (key : α → Nat) (l₁ l₂ : List α) (hp : l₁.Perm l₂)
    (hinj : l₁.Pairwise (fun a b => key a ≠ key b)) : sortByKey key l₁ = sortByKey key l₂ := by
  unfold sortByKey
  exact foldr_perm_comm (insertByKey key) (fun a b => key a ≠ key b) (fun _ _ h => Ne.symm h)
    (fun z x y h => insertByKey_comm key x y h z) hp [] hinj

/-- class `max_total_tiebreak`: `max_by_key` with a key that is injective on the elements -/
theorem maxByKey_perm_of_injective {α : Type} (key : α → Nat) (l₁ l₂ : List α) (hp : l₁.Perm l₂)
    (hinj : ∀ a ∈ l₁, ∀ b ∈ l₁, key a = key b → a = b) : maxByKey key l₁ = maxByKey key l₂ := by
  cases l₁ with
  | nil => rw [List.nil_perm.mp hp]
  | cons a as =>
    have hne₂ : l₂ ≠ [] := by
      intro h; subst h; exact absurd hp.length_eq (by simp)
    obtain ⟨m₁, e₁, mem₁, max₁⟩ := maxByKey_spec key (a :: as) (by simp)
    obtain ⟨m₂, e₂, mem₂, max₂⟩ := maxByKey_spec key l₂ hne₂
    rw [e₁, e₂]
    have h12 := max₂ m₁ (hp.mem_iff.mp mem₁)
    have h21 := max₁ m₂ (hp.mem_iff.mpr mem₂)
    rw [hinj m₁ mem₁ m₂ (hp.mem_iff.mpr mem₂) (by omega)]

/-- class `unique_match` (`MarkList::insert`, `get_promotable_subtables`): `find` where at most one element can
    match -/
theorem find_perm_of_unique {α : Type} (p : α → Bool) (l₁ l₂ : List α) (hp : l₁.Perm l₂)
    (huniq : ∀ a ∈ l₁, ∀ b ∈ l₁, p a = true → p b = true → a = b) : l₁.find? p = l₂.find? p := by
  cases h₁ : l₁.find? p with
  | none =>
    rw [List.find?_eq_none] at h₁
    symm; rw [List.find?_eq_none]
    intro x hx; exact h₁ x (hp.mem_iff.mpr hx)
  | some a =>
    have ha := List.find?_some h₁
    have hmem := List.mem_of_find?_eq_some h₁
    cases h₂ : l₂.find? p with
    | none =>
      rw [List.find?_eq_none] at h₂
      exact absurd ha (h₂ a (hp.mem_iff.mp hmem))
    | some b =>
      have hb := List.find?_some h₂
      have hmemb := hp.mem_iff.mpr (List.mem_of_find?_eq_some h₂)
      rw [huniq a hmem b hmemb ha hb]

/-- class `remove_insert_disjoint` (`isolate_subgraph_hb`): `for (old, new) in id_map { if roots.remove(&old) {
    roots.insert(new); } }` over a `HashMap<ObjectId, ObjectId>` whose keys are distinct existing ids and whose
    values are distinct fresh ids (`Compat`): the resulting `BTreeSet` does not depend on the iteration order. -/
theorem renameRoots_perm (m₁ m₂ : List (Nat × Nat)) (hp : m₁.Perm m₂) (roots : OSet) (hs : SortedSet roots)
    (hc : m₁.Pairwise Compat) : renameRoots m₁ roots = renameRoots m₂ roots := by
  rw [renameRoots_eq, renameRoots_eq]
  exact foldl_perm_inv stepRoots SortedSet Compat
    (fun x y h => ⟨Ne.symm h.1, Ne.symm h.2.1, h.2.2.2, h.2.2.1⟩)
    (fun z x hz => stepRoots_sorted z x hz) (fun z x y hz h => stepRoots_comm z x y hz h) hp roots hs hc

/-- class `insertion_ordered` (`IndexMap` in gvar.rs / ivs_builder.rs): the model of `entry(k).or_default()` /
    `insert`: an existing key keeps its position, a new key goes last — so the iteration order is the order of first
    insertion, a function of the input sequence alone (that `indexmap` really iterates in insertion order is its
    documented contract, assumed). -/
theorem indexmap_insert_keeps_order {κ α : Type} [DecidableEq κ] (f : Option α → α) (k : κ) (m : List (κ × α)) :
    (IndexMap.insertWith f k m).map (·.1) = if k ∈ m.map (·.1) then m.map (·.1) else m.map (·.1) ++ [k] := by
  induction m with
  | nil => simp [IndexMap.insertWith]
  | cons e rest ih =>
    obtain ⟨k', v⟩ := e
    simp only [IndexMap.insertWith]
    by_cases h : k = k'
    · subst h; simp
    · have hk : (k ∈ k' :: rest.map (·.1)) ↔ k ∈ rest.map (·.1) := by simp [h]
      simp only [if_neg h, List.map_cons, ih, hk]
      split <;> simp

example : IndexMap.countAll [3, 1, 3, 2, 1, 3] = [(3, 3), (1, 2), (2, 1)] := by decide

/-! ## 3. equivariance of the id-consuming functions, and the end-to-end statement -/

/-- **pack_equivariant**: `Graph::from_obj_store`, `sort_kahn` (BinaryHeap tie-break on `ObjectId`) and `serialize`
    commute with every renaming `ρ` of object ids that is strictly monotone on the ids in use (`U`): the write order
    is the renamed write order, and the bytes — which contain offsets, never ids — are equal. -/
theorem pack_equivariant (ρ : Nat → Nat) (U : Nat → Prop) (h : MonoOnP ρ U) (es : List (Obj × Nat)) (root : Nat)
    (hes : ∀ e ∈ es, U e.2 ∧ ∀ l ∈ e.1.links, U l.target) (hr : U root) :
    fromObjStore (renameEntries ρ es) = renameMap ρ (fromObjStore es) ∧
    sortKahn (fromObjStore (renameEntries ρ es)) (ρ root) = (sortKahn (fromObjStore es) root).map ρ ∧
    packSimple (fromObjStore (renameEntries ρ es)) (ρ root) = packSimple (fromObjStore es) root := by
  have hc := fromObjStore_closed U es hes
  have e1 := fromObjStore_rename h es (fun e he => (hes e he).1)
  refine ⟨e1, ?_, ?_⟩
  · rw [e1]; exact sortKahn_rename h _ hc root hr
  · unfold packSimple
    rw [e1, sortKahn_rename h _ hc root hr]
    exact serialize_rename h _ hc _ (sortKahn_closed h _ hc root hr)

private theorem getD_mem (ids : List Nat) (i : Nat) (hi : i < ids.length) : ids.getD i 0 ∈ ids := by
  simp only [List.getD_eq_getElem?_getD, List.getElem?_eq_getElem hi, Option.getD_some]; exact List.getElem_mem hi

private theorem getD_map (ρ : Nat → Nat) (ids : List Nat) (i : Nat) (hi : i < ids.length) :
    (ids.map ρ).getD i 0 = ρ (ids.getD i 0) := by
  simp [List.getD_eq_getElem?_getD, List.getElem?_map, List.getElem?_eq_getElem hi]

private theorem instantiate_map (ρ : Nat → Nat) (tmpl : List Obj) (ids : List Nat)
    (hl : ∀ o ∈ tmpl, ∀ l ∈ o.links, l.target < ids.length) :
    instantiate tmpl (ids.map ρ) = renameEntries ρ (instantiate tmpl ids) := by
  unfold instantiate renameEntries
  rw [List.zip_map_right, List.map_map, List.map_map]
  apply List.map_congr_left
  intro p hp
  have hp1 := (List.of_mem_zip hp).1
  simp only [Function.comp, Obj.rename, List.map_map, Prod.map]
  congr 2
  apply List.map_congr_left
  intro l hlm
  simp only [Function.comp, Link.rename, getD_map ρ ids l.target (hl p.1 hp1 l hlm)]

private theorem instantiate_ids (tmpl : List Obj) (ids : List Nat) (hlen : ids.length = tmpl.length) :
    (instantiate tmpl ids).map (·.2) = ids := by
  unfold instantiate
  rw [List.map_map]
  have : ((fun x : Obj × Nat => x.2) ∘ fun p : Obj × Nat =>
      (({ bytes := p.1.bytes, links := p.1.links.map (fun l => { l with target := ids.getD l.target 0 }) } : Obj), p.2)) =
      (fun p => p.2) := rfl
  rw [this]
  exact List.map_snd_zip (by omega)

/-- **bytes_independent_of_schedule_history_and_hash_order** — the end-to-end statement for the modelled slice
    (`TableWriter` store → `from_obj_store` → `sort_kahn` → `serialize`).  Fix the VALUE being compiled (`tmpl`:
    its distinct tables in first-insertion order with links by index, and the index of the root).  Take two
    arbitrary executions: any starting value of the global counter (history), any interleaving with any other
    threads' `ObjectId::next` calls (`sched`, `sched'`), any thread, and any iteration order of the
    `HashMap<TableData, ObjectId>` (`es`, `es'` are arbitrary permutations of the store contents).  The bytes are
    the same. -/
theorem bytes_independent_of_schedule_history_and_hash_order
    (tmpl : List Obj) (rootIdx : Nat)
    (hlinks : ∀ o ∈ tmpl, ∀ l ∈ o.links, l.target < tmpl.length) (hroot : rootIdx < tmpl.length)
    (c c' : Nat) (sched sched' : List Nat) (t t' : Nat)
    (hb : c + sched.length ≤ U64) (hb' : c' + sched'.length ≤ U64)
    (hn : sched.count t = tmpl.length) (hn' : sched'.count t' = tmpl.length)
    (es es' : List (Obj × Nat))
    (hp : es.Perm (instantiate tmpl (idsOf t (runSched c sched))))
    (hp' : es'.Perm (instantiate tmpl (idsOf t' (runSched c' sched')))) :
    packSimple (fromObjStore es) ((idsOf t (runSched c sched)).getD rootIdx 0) =
      packSimple (fromObjStore es') ((idsOf t' (runSched c' sched')).getD rootIdx 0) := by
  generalize hids : idsOf t (runSched c sched) = ids at *
  generalize hids' : idsOf t' (runSched c' sched') = ids' at *
  have hlen : ids.length = tmpl.length := by rw [← hids, ids_length, hn]
  have hlen' : ids'.length = tmpl.length := by rw [← hids', ids_length, hn']
  have hsorted : ids.Pairwise (· < ·) := by rw [← hids]; exact schedule_monotone c sched t hb
  have hsorted' : ids'.Pairwise (· < ·) := by rw [← hids']; exact schedule_monotone c' sched' t' hb'
  obtain ⟨ρ, hmono, hmap⟩ := monotone_renaming_exists ids ids' hsorted hsorted' (by omega)
  have hnodup : ∀ l : List Nat, l.Pairwise (· < ·) → l.Nodup := by
    intro l hl; exact hl.imp (fun h => Nat.ne_of_lt h)
  -- the hash order does not matter
  rw [store_perm_invariant es _ hp (by rw [hp.map (·.2) |>.nodup_iff, instantiate_ids tmpl ids hlen]; exact hnodup _ hsorted),
    store_perm_invariant es' _ hp' (by rw [hp'.map (·.2) |>.nodup_iff, instantiate_ids tmpl ids' hlen']; exact hnodup _ hsorted')]
  -- the second run is the first one renamed
  have hl : ∀ o ∈ tmpl, ∀ l ∈ o.links, l.target < ids.length := by rw [hlen]; exact hlinks
  rw [← hmap, instantiate_map ρ tmpl ids hl, getD_map ρ ids rootIdx (by omega)]
  have hU : MonoOnP ρ (· ∈ ids) := fun a b ha hb hab => hmono a ha b hb hab
  refine ((pack_equivariant ρ (· ∈ ids) hU (instantiate tmpl ids) (ids.getD rootIdx 0) ?_ (getD_mem ids rootIdx (by omega))).2.2).symm
  intro e he
  unfold instantiate at he
  simp only [List.mem_map] at he
  obtain ⟨p, hpz, rfl⟩ := he
  refine ⟨(List.of_mem_zip hpz).2, ?_⟩
  intro l hlm
  simp only [List.mem_map] at hlm
  obtain ⟨l0, hl0, rfl⟩ := hlm
  exact getD_mem ids l0.target (hl p.1 (List.of_mem_zip hpz).1 l0 hl0)

-- non-vacuity: a root with two children, one shared grandchild; two different executions and hash orders
example :
    let tmpl : List Obj := [⟨[255, 255, 255, 255, 1], [⟨0, 2, 1, 0⟩, ⟨2, 2, 2, 0⟩]⟩, ⟨[255, 255, 7], [⟨0, 2, 3, 0⟩]⟩,
      ⟨[255, 255, 8, 8], [⟨0, 2, 3, 0⟩]⟩, ⟨[9], []⟩]
    packSimple (fromObjStore (instantiate tmpl (idsOf 0 (runSched 0 [0, 0, 0, 0])))) 0 =
      [0, 5, 0, 8, 1, 0, 7, 7, 0, 4, 8, 8, 9] ∧
    packSimple (fromObjStore (instantiate tmpl (idsOf 5 (runSched 1000 [5, 2, 2, 5, 5, 2, 5]))).reverse) 1000 =
      [0, 5, 0, 8, 1, 0, 7, 7, 0, 4, 8, 8, 9] := by decide

/-! ## 4. the site inventory -/

/-- Every inventoried hash-container iteration, hash-typed declaration and use of process-global state
    (`translate/sites.py`, regenerated from the Rust sources on every run) is classified into a class whose lemma is
    proved above / below, or which needs none; nothing is unclassified. -/
theorem all_sites_discharged :
    (∀ s ∈ FontVerif.Gen.Sites.sites, s.2.2.discharged = true) ∧ FontVerif.Gen.Sites.unclassifiedCount = 0 := by
  decide +kernel

-- non-vacuity of the permutation lemmas: concrete permutations, hypotheses satisfiable
example : fromObjStore [(⟨[1], []⟩, 7), (⟨[2], []⟩, 3)] = fromObjStore [(⟨[2], []⟩, 3), (⟨[1], []⟩, 7)] := by decide
example : fromObjStore [(⟨[1], []⟩, 7), (⟨[2], []⟩, 3)] = [(3, ⟨[2], []⟩), (7, ⟨[1], []⟩)] := by decide
-- without distinct ids the hypothesis is needed: last writer wins
example : fromObjStore [(⟨[1], []⟩, 7), (⟨[2], []⟩, 7)] ≠ fromObjStore [(⟨[2], []⟩, 7), (⟨[1], []⟩, 7)] := by decide
example : renameRoots [(5, 100), (9, 101), (4, 102)] [2, 5, 9] = [2, 100, 101] := by decide
example : renameRoots [(4, 102), (9, 101), (5, 100)] [2, 5, 9] = [2, 100, 101] := by decide
example : [(5, 100), (9, 101), (4, 102)].Pairwise Compat := by unfold Compat; decide
-- the Compat hypothesis is needed: if a "new" id is another entry's "old" id the order matters
example : renameRoots [(5, 9), (9, 101)] [5] ≠ renameRoots [(9, 101), (5, 9)] [5] := by decide
example : sortByKey (·.1) [(3, 'a'), (1, 'b'), (2, 'c')] = sortByKey (·.1) [(2, 'c'), (3, 'a'), (1, 'b')] := by decide
-- with a non-injective key the result depends on the order: the hypothesis is needed
example : sortByKey (·.1) [(1, 'a'), (1, 'b')] ≠ sortByKey (·.1) [(1, 'b'), (1, 'a')] := by decide
example : maxByKey (·.1) [(1, 'a'), (1, 'b')] ≠ maxByKey (·.1) [(1, 'b'), (1, 'a')] := by decide

end FontVerif.C07
