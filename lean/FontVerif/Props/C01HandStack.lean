/-
C01 (hand-written code) — the CFF operand stack (read-fonts/src/tables/postscript/stack.rs ⇄ Model/HandStack.lean):
from a well-formed stack (`top ≤ 513`, what `Stack::new` gives and every operation keeps) no operation reaches a
panic — no slice (`values[..top]`, `values[start..end]`, `split_at_mut`), no direct index (`deltas[delta_ix]`,
`values[top]`) and no `usize` `+` / `*` leaves its range — for EVERY operand value (also a negative or huge
blend operand count) and every blend state; results are values or `Error`s.  Tied to the real `Stack` by
harness group `ps.stack.model` (`hs.run` scripts on real `BlendState`s).
-/
import FontVerif.Lemmas.HandStack
set_option linter.unusedVariables false
set_option linter.unusedSimpArgs false
namespace FontVerif.C01HandStack
open FontVerif FontVerif.HandStack

/-- `Stack::new()` is well formed -/
theorem new_wf : St.new.wf :=
  ⟨List.length_replicate (n := 513) (a := (0 : Int)), List.length_replicate (n := 513) (a := false), Nat.zero_le _⟩

/-- **`push` never writes outside the arrays**: `values[top] = …` is guarded by `top == MAX_STACK`, which
suffices because `top ≤ 513` is invariant; a full stack answers `StackOverflow`. -/
theorem push_total (s : St) (v : Int) (f : Bool) (h : s.wf) :
    (push s v f).1 ≠ .trap ∧ (push s v f).2.wf ∧ ((push s v f).1 = .err .overflow ↔ s.top = 513) := by
  obtain ⟨h1, h2, h3⟩ := h
  unfold push MAX_STACK
  by_cases ht : s.top = 513
  · simp [ht, St.wf, h1, h2]
  · have : s.top < s.vals.length ∧ s.top < s.fx.length := by omega
    simp only [ht, this, and_self, if_true, if_false]
    refine ⟨by simp, ⟨by simp [h1], by simp [h2], by simp; omega⟩, by simp⟩

/-- **`pop_i32` / `get_i32` only look at slots of the arrays**: the result is a value, `StackUnderflow`,
`ExpectedI32StackEntry` — never a panic (`value_is_fixed[index]` is indexed only after `values.get(index)`
succeeded, and the arrays have the same length). -/
theorem popI32_total (s : St) (h : s.wf) : (popI32 s).1 ≠ .trap ∧ (popI32 s).2.wf ∧ (popI32 s).2.top ≤ s.top := by
  obtain ⟨h1, h2, h3⟩ := h
  unfold popI32
  by_cases ht : s.top > 0
  · simp only [ht, if_true]
    refine ⟨?_, ⟨h1, h2, by simp; omega⟩, by simp⟩
    unfold getI32
    have a : s.top - 1 < s.vals.length := by omega
    have b : s.top - 1 < s.fx.length := by omega
    simp only [List.getElem?_eq_getElem a, List.getElem?_eq_getElem b]
    cases s.fx[s.top - 1] <;> simp
  · simp [ht, St.wf, h1, h2, h3]

/-- **`reverse` slices inside the arrays** (`values[..top]`, `value_is_fixed[..top]`) and keeps the shape -/
theorem reverse_total (s : St) (h : s.wf) : (reverse s).1 = .ok () ∧ (reverse s).2.wf ∧ (reverse s).2.top = s.top := by
  obtain ⟨h1, h2, h3⟩ := h
  unfold reverse
  have : s.top ≤ s.vals.length ∧ s.top ≤ s.fx.length := by omega
  rw [if_pos this]
  refine ⟨rfl, ⟨?_, ?_, h3⟩, rfl⟩
  · show ((s.vals.take s.top).reverse ++ s.vals.drop s.top).length = 513
    simp [List.length_append, List.length_reverse, List.length_take, List.length_drop]; omega
  · show ((s.fx.take s.top).reverse ++ s.fx.drop s.top).length = 513
    simp [List.length_append, List.length_reverse, List.length_take, List.length_drop]; omega

/-- **`number_values` / `fixed_values` yield exactly `top` items** and their slice never panics -/
theorem values_total (s : St) (h : s.wf) :
    (∃ xs, numberValues s = some xs ∧ xs.length = s.top) ∧ (∃ ys, fixedValues s = some ys ∧ ys.length = s.top) := by
  obtain ⟨h1, h2, h3⟩ := h
  unfold numberValues fixedValues
  have : s.top ≤ s.vals.length := by omega
  simp only [this, if_true]
  refine ⟨⟨_, rfl, ?_⟩, ⟨_, rfl, ?_⟩⟩ <;>
  · simp [List.length_map, List.length_zip, List.length_take]; omega

/-- **`fixed_array::<N>(first)` reads only live slots**: `Ok` means `first + N ≤ top` and exactly `N` values;
otherwise `InvalidStackAccess`; the `first + N` of the source cannot overflow (`first < top ≤ 513`). -/
theorem fixedArray_total (s : St) (n first : Nat) (h : s.wf) (hn : n ≤ 4294967296) :
    fixedArray s n first ≠ .trap ∧
    (∀ xs, fixedArray s n first = .ok xs → xs.length = n ∧ first + n ≤ s.top) := by
  obtain ⟨h1, h2, h3⟩ := h
  unfold fixedArray
  by_cases hf : first ≥ s.top
  · simp [hf]
  · simp only [hf, if_false]
    have hc : HandRead.checkedAdd first n = some (first + n) := by
      unfold HandRead.checkedAdd HandRead.MAXU
      have : first + n ≤ 18446744073709551615 := by omega
      simp [this]
    simp only [hc]
    by_cases he : first + n > s.top
    · simp [he]
    · have : first + n ≤ s.vals.length ∧ first + n ≤ s.fx.length := by omega
      simp only [he, this, and_self, if_true, if_false]
      refine ⟨by simp, ?_⟩
      intro xs hx
      injection hx with hx
      subst hx
      refine ⟨?_, by omega⟩
      simp [List.length_map, List.length_zip, List.length_take, List.length_drop]; omega

/-- **`apply_blend` never panics, whatever the operands and the blend state**: for every well-formed stack,
every region count (a `u16` array length) and every `scalars()` stream of at most `region_count` items
(`Ok` or `Err`), the popped count — any `i32`, negative ones become huge `usize`s — is checked against `top`
before it is multiplied, `target_value_count * (region_count + 1)` cannot overflow, the operand window
`values[start..end]` and `split_at_mut` stay inside the 513 slots, and every `deltas[region_count * value_ix +
region_ix]` lies inside the delta part of the window.  The result is `Ok` (and the stack shrinks by at least the
count operand) or an `Error`; the stack stays well formed in every case. -/
theorem applyBlend_total (s : St) (rc : Nat) (scalars : List (Option Int)) (h : s.wf) (hrc : rc ≤ 65535)
    (hsc : scalars.length ≤ rc) :
    (applyBlend s rc scalars).1 ≠ .trap ∧ (applyBlend s rc scalars).2.wf ∧
    ((applyBlend s rc scalars).1 = .ok () → (applyBlend s rc scalars).2.top < s.top) := by
  have hp := popI32_total s h
  unfold applyBlend
  rcases hpe : popI32 s with ⟨r, s1⟩
  rw [hpe] at hp
  obtain ⟨hp1, ⟨w1, w2, w3⟩, hp3⟩ := hp
  simp only at hp1 w1 w2 w3 hp3
  cases r with
  | err e => exact ⟨by simp, ⟨w1, w2, w3⟩, by simp⟩
  | trap => exact absurd rfl hp1
  | ok v =>
    have htop : s1.top < s.top := by
      unfold popI32 at hpe
      by_cases ht : s.top > 0
      · simp only [ht, if_true] at hpe
        injection hpe with _ hs
        subst hs
        show s.top - 1 < s.top
        omega
      · simp only [ht, if_false] at hpe
        injection hpe with hr _
        cases hr
    simp only
    by_cases h1 : asUsize v > s1.top
    · simp only [h1, if_true]; exact ⟨by simp, ⟨w1, w2, w3⟩, by simp⟩
    · simp only [h1, if_false]
      have hc1 : HandRead.checkedAdd rc 1 = some (rc + 1) := by
        unfold HandRead.checkedAdd HandRead.MAXU
        have : rc + 1 ≤ 18446744073709551615 := by omega
        simp [this]
      simp only [hc1]
      generalize htv : asUsize v = tvc at h1
      have htl : tvc ≤ 513 := by omega
      have hmul : tvc * (rc + 1) ≤ 513 * 65536 := Nat.mul_le_mul htl (by omega)
      have hc2 : HandRead.checkedMul tvc (rc + 1) = some (tvc * (rc + 1)) := by
        unfold HandRead.checkedMul HandRead.MAXU
        have : tvc * (rc + 1) ≤ 18446744073709551615 := by omega
        simp [this]
      simp only [hc2]
      have hexp : tvc * (rc + 1) = rc * tvc + tvc := by rw [Nat.mul_succ, Nat.mul_comm]
      generalize hopc : tvc * (rc + 1) = opc at hmul hexp
      by_cases h2 : s1.top < opc
      · simp only [h2, if_true]; exact ⟨by simp, ⟨w1, w2, w3⟩, by simp⟩
      · simp only [h2, if_false]
        have c1 : s1.top - opc + opc ≤ s1.vals.length ∧ s1.top - opc ≤ s1.fx.length := by omega
        simp only [c1, and_self, if_true]
        have hk : min opc (s1.fx.length - (s1.top - opc)) = opc := by omega
        simp only [hk]
        generalize hst : s1.top - opc = start
        have hvl : (List.take start s1.vals ++
            List.map (fun p => asFixed p.1 p.2) ((List.take opc (List.drop start s1.vals)).zip (List.take opc (List.drop start s1.fx))) ++
            List.drop (start + opc) s1.vals).length = 513 := by
          simp [List.length_append, List.length_map, List.length_zip, List.length_take, List.length_drop]; omega
        have hfl : (List.take start s1.fx ++ List.replicate opc true ++ List.drop (start + opc) s1.fx).length = 513 := by
          simp [List.length_append, List.length_take, List.length_drop]; omega
        generalize hV : (List.take start s1.vals ++
            List.map (fun p => asFixed p.1 p.2) ((List.take opc (List.drop start s1.vals)).zip (List.take opc (List.drop start s1.fx))) ++
            List.drop (start + opc) s1.vals) = vals1 at hvl
        generalize hF : (List.take start s1.fx ++ List.replicate opc true ++ List.drop (start + opc) s1.fx) = fx1 at hfl
        have c2 : tvc ≤ vals1.length - start := by omega
        simp only [c2, if_true]
        generalize hq : rc * tvc = q at hexp
        have hmax : rc * tvc ≤ HandRead.MAXU := by unfold HandRead.MAXU; omega
        have hb : start + tvc + rc * tvc ≤ vals1.length := by omega
        have ho := outerLoop_total rc start tvc hmax scalars 0 vals1 (by omega) hb
        rcases hoe : outerLoop rc start tvc 0 scalars vals1 with ⟨ro, vals2⟩
        rw [hoe] at ho
        obtain ⟨ho1, ho2⟩ := ho
        simp only at ho1 ho2
        cases ro with
        | trap => exact absurd rfl ho1
        | err e => exact ⟨by simp, ⟨by simp; omega, by simp; omega, by simp; omega⟩, by simp⟩
        | ok u => cases u; exact ⟨by simp, ⟨by simp; omega, by simp; omega, by simp; omega⟩, by simp; omega⟩

/-! ## non-vacuity -/

/-- two target values, one region, scalar 0.5: `10 + 3·0.5` and `20 + 4·0.5` in 16.16 -/
example :
    let s0 := St.new
    let s1 := (push s0 10 false).2
    let s2 := (push s1 20 false).2
    let s3 := (push s2 (3 * 65536) true).2
    let s4 := (push s3 (4 * 65536) true).2
    let s5 := (push s4 2 false).2
    let r := applyBlend s5 1 [some 32768]
    r.1 = .ok () ∧ r.2.top = 2 ∧ r.2.vals.take 2 = [10 * 65536 + 98304, 20 * 65536 + 131072] := by decide +kernel

/-- a negative operand count is `StackUnderflow`, not a panic -/
example : (applyBlend (push (push St.new 7 false).2 (-1) false).2 3 [some 1, some 2, some 3]).1 = .err .underflow := by
  decide +kernel

/-- a fixed-point count operand is refused -/
example : (applyBlend (push St.new 65536 true).2 0 []).1 = .err (.expectedI32 0) := by decide +kernel

example : fixedArray (push (push St.new 1 false).2 2 false).2 2 0 = .ok [65536, 131072] := by decide +kernel
example : fixedArray (push (push St.new 1 false).2 2 false).2 4 1 = .err (.invalidAccess 4) := by decide +kernel

end FontVerif.C01HandStack
