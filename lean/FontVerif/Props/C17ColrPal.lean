/-
C17 — the palette-entry closure equation: which CPAL entries klippa keeps.
`plan.colr_palettes = remap_palette_indices(palette_indices)` where `palette_indices` (an `IntSet<u16>`) collects the COLRv1
closure's indices (input `v1`: read-fonts `v1_closure`, not modelled) and `Colr::v0_closure_palette_indices` over
`glyphset_colred` (Model/SubsetColrPal.lean); `Cpal::subset` keeps exactly the keys ≠ 0xFFFF (`SubsetCpal.retainedOf`,
Model/SubsetCpal.lean; with `C17Colr.cpal_header_preserved`: numPaletteEntries = their number, `cpal_colors_preserved`: each
keeps its colour in every palette).
-/
import FontVerif.Model.SubsetColrPal
import FontVerif.Lemmas.Layout
set_option linter.unusedVariables false
namespace FontVerif.C17ColrPal
open FontVerif FontVerif.Layout FontVerif.SubsetColrPal FontVerif.SubsetCpal

theorem remap_keys (xs : List Nat) : (remapPaletteIndices xs).map (·.1) = xs := by
  unfold remapPaletteIndices
  rw [List.map_map]
  have : ∀ (l : List (Nat × Nat)), l.map ((fun (p : Nat × Nat) => p.1) ∘ fun (x : Nat × Nat) =>
      if x.1 = 0xFFFF then (0xFFFF, 0xFFFF) else (x.1, x.2 % 65536)) = l.map (·.1) := by
    intro l
    apply List.map_congr_left
    intro p _
    simp only [Function.comp]
    split
    · rename_i h; exact h.symm
    · rfl
  rw [this]
  exact List.zipIdx_map_fst _ _

/-- **cpal_entries_kept_are_closure.**  The CPAL entries `Cpal::subset` retains (`colr_palettes` keys other than the
foreground marker 0xFFFF) are EXACTLY: the palette indices the COLRv1 closure collected, plus the palette index of every
COLRv0 layer record `v0_closure_palette_indices` visits for a glyph of `glyphset_colred` — nothing else is kept, nothing
referenced is dropped; 0xFFFF is never a CPAL entry (it maps to itself in `colr_palettes`). -/
theorem cpal_entries_kept_are_closure (v1 : List Nat) (records : List (Nat × Nat × Nat)) (layers : List (Nat × Nat))
    (colred : List Nat) (e : Nat) :
    e ∈ retainedOf (colrPalettes v1 records layers colred) ↔
      e ≠ 0xFFFF ∧ (e ∈ v1 ∨ ∃ g ∈ colred, e ∈ v0PalOfGlyph records layers g) := by
  unfold retainedOf colrPalettes paletteSet
  rw [remap_keys]
  simp only [List.mem_filter, mem_sortDedup, List.mem_append, v0Palettes, List.mem_flatMap, decide_eq_true_eq, ne_eq]
  constructor
  · rintro ⟨h1, h2⟩; exact ⟨h2, h1⟩
  · rintro ⟨h1, h2⟩; exact ⟨h2, h1⟩

/-- **v0_palette_of_glyph.**  What `v0_closure_palette_indices` contributes for one glyph: the glyph id fits `GlyphId16`,
`binary_search_by` finds a BaseGlyph record for it, and the index is the palette index of a layer record that exists
(`v0_layer` succeeds) inside that record's `firstLayerIndex .. firstLayerIndex + numLayers`. -/
theorem v0_palette_of_glyph (records : List (Nat × Nat × Nat)) (layers : List (Nat × Nat)) (g e : Nat) :
    e ∈ v0PalOfGlyph records layers g ↔
      g < 65536 ∧ ∃ idx, binarySearchBy records.length (fun i => natCmp ((records.getD i (0, 0, 0)).1) g) = .ok idx ∧
        ∃ li, (records.getD idx (0, 0, 0)).2.1 ≤ li ∧ li < (records.getD idx (0, 0, 0)).2.1 + (records.getD idx (0, 0, 0)).2.2 ∧
          ∃ lg, layers[li]? = some (lg, e) := by
  unfold v0PalOfGlyph
  by_cases hg : g ≥ 65536
  · simp only [hg, if_true, List.not_mem_nil, false_iff]
    rintro ⟨h, _⟩; omega
  · simp only [hg, if_false]
    cases hb : binarySearchBy records.length (fun i => natCmp ((records.getD i (0, 0, 0)).1) g) with
    | err i => simp
    | ok idx =>
      simp only [List.mem_filterMap, List.mem_range', Option.map_eq_some_iff, BsResult.ok.injEq, exists_eq_left']
      constructor
      · rintro ⟨li, ⟨k, hk, rfl⟩, ⟨lg, e'⟩, hl, rfl⟩
        exact ⟨by omega, _, ⟨by omega, by omega, lg, hl⟩⟩
      · rintro ⟨_, li, h1, h2, lg, hl⟩
        exact ⟨li, ⟨li - (records.getD idx (0, 0, 0)).2.1, by omega, by omega⟩, (lg, e), hl, rfl⟩

/-- the keys iterate ascending and without repetition (an `IntSet`), so the new index of a retained entry is its rank -/
theorem palette_keys_ascending (v1 : List Nat) (records : List (Nat × Nat × Nat)) (layers : List (Nat × Nat))
    (colred : List Nat) : ((colrPalettes v1 records layers colred).map (·.1)).Pairwise (· < ·) := by
  unfold colrPalettes paletteSet
  rw [remap_keys]
  exact sortDedup_pairwise _

/-! ## non-vacuity -/

/-- base glyphs 5 (layers 0..2) and 9 (layers 2..4); layer palette indices 3, 0xFFFF, 7, 3; kept colour glyphs 5 and 8 -/
example : v0Palettes [(5, 0, 2), (9, 2, 2)] [(20, 3), (21, 0xFFFF), (22, 7), (23, 3)] [5, 8] = [3, 0xFFFF] := by decide +kernel
example : colrPalettes [11] [(5, 0, 2), (9, 2, 2)] [(20, 3), (21, 0xFFFF), (22, 7), (23, 3)] [5, 8] =
    [(3, 0), (11, 1), (0xFFFF, 0xFFFF)] := by decide +kernel
example : retainedOf [(3, 0), (11, 1), (0xFFFF, 0xFFFF)] = [3, 11] := by decide

end FontVerif.C17ColrPal
