/-
C13 — Colour glyph painting terminates with balanced, correctly nested callbacks.
Property theorems only (helper lemmas live in Lemmas/Paint.lean).
Model: Model/Paint.lean ⇄ skrifa/src/color/{traversal,mod}.rs, skrifa/src/decycler.rs.
-/
import FontVerif.Model.Paint
import FontVerif.Lemmas.Paint
set_option linter.unusedVariables false
namespace FontVerif.C13
open FontVerif FontVerif.Paint

/-! ### termination

`paintV1` / `paintV0` / `trav` are total Lean functions (structural recursion on
`MAX_TRAVERSAL_DEPTH - recurse_depth` and on the layer range), so every painting terminates in the
model; the explicit bound on the number of visited paint nodes is `visit_bound` below. -/

/-- `traverse_with_callbacks` at `recurse_depth = MAX_TRAVERSAL_DEPTH` answers
`DepthLimitExceeded` without touching the painter: this is what makes the recursion well founded. -/
theorem traverse_terminates (inst : Instance) (c : Client) (n : Node) (dec : List PaintId) (st : St) :
    trav inst c 0 n dec st = (some .depth, st) := rfl

/-! ### balanced callbacks -/

/-- **Whenever painting a COLRv1 glyph reports success, the callback stream received by the client
is well nested**: every pushed transform / clip / layer is popped exactly once, in LIFO order, by
the pop of the matching kind (and the matching composite mode), nothing is popped that was not
pushed and nothing is left open.  For every paint graph (cyclic, dangling, any formats), every glyph,
every client (`fill_glyph` overridden or defaulted, any `paint_cached_color_glyph` policy) — including
the two-pass `PaintGlyph` fill optimisation at any nesting. -/
theorem ok_implies_balanced (inst : Instance) (c : Client) (gid : Gid) (st : St)
    (h : paintV1 inst c gid = some (none, st)) : WellNested st.evs := by
  have enter_nil : ∀ pid, enter [] pid = .ok [pid] := fun pid => rfl
  unfold paintV1 at h
  cases hb : inst.base gid with
  | err => simp only [hb] at h; cases h
  | notFound => simp only [hb] at h; cases h
  | found pid =>
    simp only [hb, enter_nil] at h
    cases hres : inst.resolve pid with
    | none => simp only [hres] at h; cases h
    | some n =>
      simp only [hres] at h
      cases hclip : inst.hasClip gid with
      | false =>
        simp only [hclip, Bool.false_eq_true, if_false] at h
        have hi := trav_inv inst c MAX_TRAVERSAL_DEPTH n [pid] St.init
        generalize trav inst c MAX_TRAVERSAL_DEPTH n [pid] St.init = r at h hi
        obtain ⟨new, s, k⟩ := hi
        cases hr : r.1 with
        | some e => simp only [hr] at h; cases h
        | none =>
          simp only [hr] at h
          cases h
          have hn := k rfl hr
          have := s.evs
          simp only [St.init, List.nil_append] at this
          rw [this]; exact hn []
      | true =>
        simp only [hclip, if_true] at h
        obtain ⟨na, sa, ha⟩ := emit_step c .pushClipBox St.init
        have hi := trav_inv inst c MAX_TRAVERSAL_DEPTH n [pid] (emit c .pushClipBox St.init)
        generalize trav inst c MAX_TRAVERSAL_DEPTH n [pid] (emit c .pushClipBox St.init) = r at h hi
        obtain ⟨new, s, k⟩ := hi
        cases hr : r.1 with
        | some e => simp only [hr] at h; cases h
        | none =>
          simp only [hr] at h
          cases h
          obtain ⟨nb, sb, hb'⟩ := emit_step c .popClip r.2
          have e0 : St.init.opts = [] := rfl
          have e1 := (Step.nil_iff sa).mpr e0
          have e2 := (Step.nil_iff s).mpr e1
          have hn := k e1 hr
          have hev := ((sa.trans s).trans sb).evs
          rw [ha e0, hb' e2] at hev
          simp only [St.init, List.nil_append, rootRecord] at hev
          rw [hev]
          have := Neutral.bracketClipBox hn
          exact this []

/-- COLRv0 glyphs: the stream is well nested on success (it consists of `fill_glyph` calls, or of
their default expansion `push_clip_glyph · fill · pop_clip`). -/
theorem v0_ok_implies_balanced (c : Client) (layers : Nat → Option Gid) (first num : Nat) (st : St)
    (h : paintV0 c layers first num = (none, st)) : WellNested st.evs := by
  unfold paintV0 at h
  have key : ∀ (l : List Nat) (s0 s1 : St), s0.opts = [] → travV0 c layers l s0 = (none, s1) →
      ∃ new, s1.evs = s0.evs ++ new ∧ Neutral new := by
    intro l
    induction l with
    | nil => intro s0 s1 _ h; simp only [travV0] at h; cases h; exact ⟨[], by simp, Neutral.nil⟩
    | cons i is ih =>
      intro s0 s1 h0 h
      simp only [travV0] at h
      split at h
      · cases h
      · rename_i g hg
        obtain ⟨na, sa, ha⟩ := emit_step c (.fillGlyph g false) s0
        obtain ⟨nb, hb, hn⟩ := ih _ s1 ((Step.nil_iff sa).mpr h0) h
        refine ⟨na ++ nb, by rw [hb, sa.evs, List.append_assoc], ?_⟩
        rw [ha h0]
        refine Neutral.append ?_ hn
        simp only [rootRecord]; split
        · exact Neutral.fillGlyph _ _
        · exact Neutral.expand _ _
  obtain ⟨new, he, hn⟩ := key _ St.init st rfl h
  simp only [St.init, List.nil_append] at he
  rw [he]; exact hn []

end FontVerif.C13
