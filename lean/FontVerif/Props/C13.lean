/-
C13 — Colour glyph painting terminates with balanced, correctly nested callbacks.
Property theorems only (helper lemmas live in Lemmas/Paint.lean).
Model: Model/Paint.lean ⇄ skrifa/src/color/{traversal,mod}.rs, skrifa/src/decycler.rs.
-/
import FontVerif.Model.Paint
import FontVerif.Lemmas.Paint
import FontVerif.Lemmas.PaintDepth
import FontVerif.Lemmas.PaintChain
set_option linter.unusedVariables false
namespace FontVerif.C13
open FontVerif FontVerif.Paint

/-! ### termination

`paintV1` / `paintV0` / `trav` are total Lean functions (structural recursion on
`MAX_TRAVERSAL_DEPTH - recurse_depth` and on the layer range), so every painting terminates in the
model; the explicit bound on the number of visited paint nodes is `visit_bound` below. -/

/-- `traverse_with_callbacks` at `recurse_depth = MAX_TRAVERSAL_DEPTH` answers
`DepthLimitExceeded` without touching the painter: this is what makes the recursion well founded. -/
theorem traverse_terminates (inst : Instance) (c : Client) (n : Node) (dec : List PaintId) (st : St) :
    trav inst c 0 n dec st = (some .depth, st) := rfl

/-! ### balanced callbacks -/

/-- **Whenever painting a COLRv1 glyph reports success, the callback stream received by the client
is well nested**: every pushed transform / clip / layer is popped exactly once, in LIFO order, by
the pop of the matching kind (and the matching composite mode), nothing is popped that was not
pushed and nothing is left open.  For every paint graph (cyclic, dangling, any formats), every glyph,
every client (`fill_glyph` overridden or defaulted, any `paint_cached_color_glyph` policy) — including
the two-pass `PaintGlyph` fill optimisation at any nesting. -/
theorem ok_implies_balanced (inst : Instance) (c : Client) (gid : Gid) (st : St)
    (h : paintV1 inst c gid = some (none, st)) : WellNested st.evs := by
  have enter_nil : ∀ pid, enter [] pid = .ok [pid] := fun pid => rfl
  unfold paintV1 at h
  cases hb : inst.base gid with
  | err => simp only [hb] at h; cases h
  | notFound => simp only [hb] at h; cases h
  | found pid =>
    simp only [hb, enter_nil] at h
    cases hres : inst.resolve pid with
    | none => simp only [hres] at h; cases h
    | some n =>
      simp only [hres] at h
      cases hclip : inst.clip gid with
      | none =>
        simp only [hclip, pushClip, popClipIf] at h
        have hi := trav_inv inst c MAX_TRAVERSAL_DEPTH n [pid] St.init
        generalize trav inst c MAX_TRAVERSAL_DEPTH n [pid] St.init = r at h hi
        obtain ⟨new, s, k⟩ := hi
        cases hr : r.1 with
        | some e => simp only [hr] at h; cases h
        | none =>
          simp only [hr] at h
          cases h
          have hn := k rfl hr
          have := s.evs
          simp only [St.init, List.nil_append] at this
          rw [this]; exact hn []
      | some bx =>
        simp only [hclip, pushClip, popClipIf] at h
        obtain ⟨na, sa, ha⟩ := emit_step c (.pushClipBox bx) St.init
        have hi := trav_inv inst c MAX_TRAVERSAL_DEPTH n [pid] (emit c (.pushClipBox bx) St.init)
        generalize trav inst c MAX_TRAVERSAL_DEPTH n [pid] (emit c (.pushClipBox bx) St.init) = r at h hi
        obtain ⟨new, s, k⟩ := hi
        cases hr : r.1 with
        | some e => simp only [hr] at h; cases h
        | none =>
          simp only [hr] at h
          cases h
          obtain ⟨nb, sb, hb'⟩ := emit_step c .popClip r.2
          have e0 : St.init.opts = [] := rfl
          have e1 := (Step.nil_iff sa).mpr e0
          have e2 := (Step.nil_iff s).mpr e1
          have hn := k e1 hr
          have hev := ((sa.trans s).trans sb).evs
          rw [ha e0, hb' e2] at hev
          simp only [St.init, List.nil_append, rootRecord] at hev
          rw [hev]
          have := Neutral.bracketClipBox bx hn
          exact this []

/-- COLRv0 glyphs: the stream is well nested on success (it consists of `fill_glyph` calls, or of
their default expansion `push_clip_glyph · fill · pop_clip`). -/
theorem v0_ok_implies_balanced (c : Client) (layers : Nat → Option (Gid × Nat)) (first num : Nat) (st : St)
    (h : paintV0 c layers first num = (none, st)) : WellNested st.evs := by
  unfold paintV0 at h
  have key : ∀ (l : List Nat) (s0 s1 : St), s0.opts = [] → travV0 c layers l s0 = (none, s1) →
      ∃ new, s1.evs = s0.evs ++ new ∧ Neutral new := by
    intro l
    induction l with
    | nil => intro s0 s1 _ h; simp only [travV0] at h; cases h; exact ⟨[], by simp, Neutral.nil⟩
    | cons i is ih =>
      intro s0 s1 h0 h
      simp only [travV0] at h
      split at h
      · cases h
      · rename_i g pal hg
        obtain ⟨na, sa, ha⟩ := emit_step c (.fillGlyph g none (solidBrush pal 16384)) s0
        obtain ⟨nb, hb, hn⟩ := ih _ s1 ((Step.nil_iff sa).mpr h0) h
        refine ⟨na ++ nb, by rw [hb, sa.evs, List.append_assoc], ?_⟩
        rw [ha h0]
        refine Neutral.append ?_ hn
        simp only [rootRecord]; split
        · exact Neutral.fillGlyph _ _ _
        · exact Neutral.expand _ _ _
  obtain ⟨new, he, hn⟩ := key _ St.init st rfl h
  simp only [St.init, List.nil_append] at he
  rw [he]; exact hn []

/-! ### cyclic and too-deep graphs are errors -/

private theorem enter_nil (pid : PaintId) : enter [] pid = .ok [pid] := rfl

/-- a glyph with a v1 base record always gets a verdict -/
private theorem paintV1_found {inst : Instance} {c : Client} {gid : Gid} {pid : PaintId}
    (hb : inst.base gid = .found pid) : ∃ r, paintV1 inst c gid = some r := by
  unfold paintV1
  simp only [hb, enter_nil]
  split
  · exact ⟨_, rfl⟩
  · split <;> exact ⟨_, rfl⟩

private theorem paintV1_ok_trav {inst : Instance} {c : Client} {gid : Gid} {st : St}
    (h : paintV1 inst c gid = some (none, st)) :
    ∃ pid n st0, inst.base gid = .found pid ∧ inst.resolve pid = some n ∧
      (trav inst c MAX_TRAVERSAL_DEPTH n [pid] st0).1 = none := by
  unfold paintV1 at h
  cases hb : inst.base gid with
  | err => simp only [hb] at h; cases h
  | notFound => simp only [hb] at h; cases h
  | found pid =>
    simp only [hb, enter_nil] at h
    cases hres : inst.resolve pid with
    | none => simp only [hres] at h; cases h
    | some n =>
      simp only [hres] at h
      refine ⟨pid, n, pushClip c (inst.clip gid) St.init, rfl, hres, ?_⟩
      split at h
      · cases h
      · rename_i hr; exact hr

/-- **Success means the graph below the glyph is shallow**: if painting succeeds (client does not
short-cut `PaintColrGlyph`), every descending path from the root paint has fewer than
`MAX_TRAVERSAL_DEPTH = 64` edges.  Cyclic and too-deep graphs are the two corollaries below. -/
theorem ok_implies_depth_bounded (inst : Instance) (c : Client) (hc : ∀ g, c.cached g = .unimplemented)
    (gid : Gid) (st : St) (h : paintV1 inst c gid = some (none, st))
    (pid : PaintId) (n : Node) (hb : inst.base gid = .found pid) (hres : inst.resolve pid = some n)
    (k : Nat) (hp : Path inst n k) : k < MAX_TRAVERSAL_DEPTH := by
  obtain ⟨pid', n', st0, hb', hres', ht⟩ := paintV1_ok_trav h
  rw [hb] at hb'; cases hb'
  rw [hres] at hres'; cases hres'
  exact trav_ok_paths inst c hc _ _ _ _ ht k hp

/-- **A too-deep graph is reported as an error**: a descending path of 64 edges below the root paint
(65 nested paints) makes `paint` return `Err`, whatever else the graph contains. -/
theorem too_deep_is_error (inst : Instance) (c : Client) (hc : ∀ g, c.cached g = .unimplemented)
    (gid : Gid) (pid : PaintId) (n : Node) (hb : inst.base gid = .found pid)
    (hres : inst.resolve pid = some n) (hp : Path inst n MAX_TRAVERSAL_DEPTH) :
    ∃ e st, paintV1 inst c gid = some (some e, st) := by
  obtain ⟨⟨r1, st⟩, hr⟩ := paintV1_found (c := c) hb
  cases r1 with
  | some e => exact ⟨e, st, hr⟩
  | none =>
    have := ok_implies_depth_bounded inst c hc gid st hr pid n hb hres _ hp
    exact absurd this (Nat.lt_irrefl _)

/-- **A cyclic graph is reported as an error** (never recursed into forever): if some paint `a`
reachable from the root paint lies on a cycle, `paint` returns `Err` — through `ColrLayers`,
`ColrGlyph` or any mixture, with any tail, whether the tortoise–hare decycler or the depth limit
fires first. -/
theorem cycle_is_error (inst : Instance) (c : Client) (hc : ∀ g, c.cached g = .unimplemented)
    (gid : Gid) (pid : PaintId) (n a : Node) (t k : Nat) (hb : inst.base gid = .found pid)
    (hres : inst.resolve pid = some n) (hreach : Walk inst n a t) (hcyc : Walk inst a a (k + 1)) :
    ∃ e st, paintV1 inst c gid = some (some e, st) := by
  obtain ⟨⟨r1, st⟩, hr⟩ := paintV1_found (c := c) hb
  cases r1 with
  | some e => exact ⟨e, st, hr⟩
  | none =>
    have hw := hreach.trans (hcyc.pump MAX_TRAVERSAL_DEPTH)
    have := ok_implies_depth_bounded inst c hc gid st hr pid n hb hres _ hw.toPath
    have h2 : MAX_TRAVERSAL_DEPTH ≤ MAX_TRAVERSAL_DEPTH * (k + 1) := Nat.le_mul_of_pos_right _ (by omega)
    omega

/-- the decycler never cries wolf: `CycleDetected` is only answered for an id that is on the
current path (ids identify paints, so that is a genuine cycle) -/
theorem decycler_cycle_sound (path : List PaintId) (id : PaintId)
    (h : enter path id = .error .cycle) : id ∈ path :=
  enter_cycle_mem h

/-- entering appends to the path and is refused once 64 ids are on it -/
theorem decycler_enter_ok (path path' : List PaintId) (id : PaintId) (h : enter path id = .ok path') :
    path' = path ++ [id] ∧ path.length < MAX_TRAVERSAL_DEPTH :=
  enter_ok h

/-! ### bounded number of visited paint nodes -/

/-- **Visit bound**: painting visits at most `1 + k + … + k^63` paint nodes, where `k ≥ 2` bounds the
length of every `PaintColrLayers` (255 for any font: `num_layers` is a `u8`).  The bound is
exponential in the depth limit and cannot be improved to anything polynomial in the table size:
see `glyph_chain_visits`. -/
theorem visit_bound (inst : Instance) (c : Client) (k : Nat) (hk : 2 ≤ k) (hl : LayersBounded inst k)
    (gid : Gid) (r : Option PErr) (st : St) (h : paintV1 inst c gid = some (r, st)) :
    st.visits ≤ geom k MAX_TRAVERSAL_DEPTH := by
  unfold paintV1 at h
  cases hb : inst.base gid with
  | err => simp only [hb] at h; cases h
  | notFound => simp only [hb] at h; cases h
  | found pid =>
    simp only [hb, enter_nil] at h
    have h0 : (pushClip c (inst.clip gid) St.init).visits = 0 := by
      rw [pushClip_visits]; rfl
    cases hres : inst.resolve pid with
    | none =>
      simp only [hres] at h
      cases h; rw [h0]; exact Nat.zero_le _
    | some n =>
      simp only [hres] at h
      have hn : NodeOK k n := by
        intro first num hn'; subst hn'; exact hl pid first num hres
      have hv := trav_visits inst c k hk hl MAX_TRAVERSAL_DEPTH n [pid]
        (pushClip c (inst.clip gid) St.init) hn
      rw [h0] at hv
      generalize trav inst c MAX_TRAVERSAL_DEPTH n [pid]
        (pushClip c (inst.clip gid) St.init) = res at h hv
      split at h
      · cases h; omega
      · cases h
        simp only [popClipIf_visits]; omega

/-- **Known finding (DESIGN §6-7), exact**: a tree-shaped chain of `d` nested `PaintGlyph` tables over
one `PaintSolid` (`1 ≤ d ≤ 63`, about `6·d` bytes, no sharing, no cycle) paints successfully but
visits `3·2^(d-1) − 1` paint nodes, for every client: each nested `PaintGlyph` makes the enclosing
`CollectFillGlyphPainter` fail, so every level traverses its subtree twice.  Only the depth limit
bounds it (`d = 63`: ≈ 1.4·10^19 visits). -/
theorem glyph_chain_visits (c : Client) (d : Nat) (h1 : 1 ≤ d) (h2 : d < MAX_TRAVERSAL_DEPTH) :
    ∃ st, paintV1 (glyphChain d) c 0 = some (none, st) ∧ st.visits = chainVisits d ∧
      st.visits + 1 = 3 * 2 ^ (d - 1) := by
  obtain ⟨j, rfl⟩ : ∃ j, d = j + 1 := ⟨d - 1, by omega⟩
  have hs := chain_step (j + 1) c j 0 (by omega) MAX_TRAVERSAL_DEPTH
    (by simp only [MAX_TRAVERSAL_DEPTH] at h2 ⊢; omega) [0] St.init
  have hres : (glyphChain (j + 1)).resolve 0 = some (.glyph 0 (0 + 1)) := chain_resolve_inner _ _ (by omega)
  unfold paintV1
  have hb : (glyphChain (j + 1)).base 0 = .found 0 := rfl
  have hclip : (glyphChain (j + 1)).clip 0 = none := rfl
  simp only [hb, enter_nil, hres, hclip, pushClip, popClipIf]
  generalize trav (glyphChain (j + 1)) c MAX_TRAVERSAL_DEPTH (.glyph 0 (0 + 1)) [0] St.init = r at hs
  obtain ⟨ha, hv, _⟩ := hs
  simp only [ha]
  refine ⟨_, rfl, ?_, ?_⟩
  · rw [hv]; simp [St.init]
  · rw [hv]; simp only [St.init, Nat.zero_add, Nat.add_sub_cancel]; exact chainVisits_closed j

/-! ### non-vacuity: concrete graphs -/

/-- result class and recorded stream -/
private def outcome (r : Option Res) : Option (Option PErr × List Event) := r.map (fun x => (x.1, x.2.evs))

private def unimpl : Client := Client.ofModes 1 0
private def defaultFg : Client := Client.ofModes 0 0

/-- a `PaintColrLayers` whose only layer is itself: reported as `PaintCycleDetected`, no callback -/
example : outcome (paintV1 (Instance.ofTables [(10, .colrLayers 0 1)] [(0, some 10)] [(1, some 10)] []) unimpl 1)
    = some (some .cycle, []) := by decide

/-- two colour glyphs referring to each other: the tortoise–hare check only fires on the fourth
entry (path `[10, 20, 10]`, compares with index 1) -/
example : outcome (paintV1 (Instance.ofTables [(10, .colrGlyph 2), (20, .colrGlyph 1)] []
    [(1, some 10), (2, some 20)] []) unimpl 1) = some (some .cycle, [.cached 2, .cached 1]) := by decide

/-- the hypotheses of `cycle_is_error` are satisfiable: that graph has a walk root → root of length 2 -/
example : Walk (Instance.ofTables [(10, .colrGlyph 2), (20, .colrGlyph 1)] [] [(1, some 10), (2, some 20)] [])
    (.colrGlyph 2) (.colrGlyph 2) (1 + 1) :=
  .step (.colrGlyph (pid := 20) rfl rfl) (.step (.colrGlyph (pid := 10) rfl rfl) (.here _))

/-- transform chain: paint `i < len` is a transform of paint `i+1`, paint `len` is a solid -/
private def transformChain (len : Nat) : Instance where
  resolve := fun i => if i < len then some (.transform i (i + 1)) else if i = len then some (.leaf (some [])) else none
  layer := fun _ => none
  base := fun g => if g = 1 then .found 0 else .notFound
  clip := fun _ => none

/-- 64 nested paints (63 edges) still paint … -/
example : (paintV1 (transformChain 63) unimpl 1).map (fun r => (r.1, r.2.evs.length, r.2.visits))
    = some (none, 127, 64) := by decide +kernel
/-- … 65 nested paints (64 edges) are `DepthLimitExceeded`: the limit in `too_deep_is_error` is tight -/
example : (paintV1 (transformChain 64) unimpl 1).map (fun r => (r.1, r.2.visits))
    = some (some .depth, 64) := by decide +kernel

/-- a layered glyph with a clip box: both layers are optimised into `fill_glyph` (the second with a
brush transform), inside the clip box push/pop -/
example : outcome (paintV1 (Instance.ofTables
      [(10, .colrLayers 0 2), (20, .glyph 5 21), (21, .leaf (some [])), (30, .glyph 6 31), (31, .transform 31 32),
       (32, .leaf (some []))]
      [(0, some 20), (1, some 30)] [(1, some 10)] [(1, [0, 0, 9, 9])]) unimpl 1)
    = some (none, [.pushClipBox [0, 0, 9, 9], .fillGlyph 5 none [], .fillGlyph 6 (some [31]) [], .popClip]) := by decide

/-- the same glyph for a client relying on the default `fill_glyph` -/
example : outcome (paintV1 (Instance.ofTables
      [(10, .colrLayers 0 2), (20, .glyph 5 21), (21, .leaf (some [])), (30, .glyph 6 31), (31, .transform 31 32),
       (32, .leaf (some []))]
      [(0, some 20), (1, some 30)] [(1, some 10)] [(1, [0, 0, 9, 9])]) defaultFg 1)
    = some (none, [.pushClipBox [0, 0, 9, 9], .pushClipGlyph 5, .fill [], .popClip,
                   .pushClipGlyph 6, .pushT [31], .fill [], .popT, .popClip, .popClip]) := by decide

/-- failed optimisation after a first successful `fill`: `PaintGlyph(ColrLayers[solid, composite])`.
The first (collecting) pass already sent `fill_glyph` to the client before giving up, then the
un-optimised pass paints the solid again — balanced, but the first layer is painted twice. -/
example : outcome (paintV1 (Instance.ofTables
      [(10, .glyph 5 11), (11, .colrLayers 0 2), (20, .leaf (some [])), (30, .composite 31 12 32),
       (31, .leaf (some [])), (32, .leaf (some []))]
      [(0, some 20), (1, some 30)] [(1, some 10)] []) unimpl 1)
    = some (none, [.fillGlyph 5 none [], .pushClipGlyph 5, .fill [], .pushLayer 3, .fill [], .pushLayer 12, .fill [],
                   .popLayer 12, .popLayer 3, .popClip]) := by decide

/-- glyph chain of depth 5: 47 = 3·2^4 − 1 visits for 6 paint tables -/
example : (paintV1 (glyphChain 5) unimpl 0).map (fun r => (r.1, r.2.visits)) = some (none, 47) := by decide

/-- `paint_cached_color_glyph = Ok`: the sub-glyph is not traversed, the stream stays balanced -/
example : outcome (paintV1 (Instance.ofTables [(10, .transform 10 11), (11, .colrGlyph 2), (20, .leaf (some []))] []
    [(1, some 10), (2, some 20)] [(2, [0, 0, 1, 1])]) (Client.ofModes 1 1) 1)
    = some (none, [.pushT [10], .cached 2, .popT]) := by decide

end FontVerif.C13
