/-
C13, BEYOND THE PROPERTY — statements about the model of the `fill_glyph` optimisation
(`CollectFillGlyphPainter`, skrifa/src/color/traversal.rs).  Property C13 speaks about termination, bounded
visits, errors for cyclic / too-deep graphs and LIFO nesting of the callbacks; WHAT is drawn is not part of
it.  The theorems below are true facts about Model/Paint.lean that go further: the optimised stream is
observationally equal to the un-optimised one on the stream shape the optimisation is meant for, and the
two `example`s show that the equality does not extend to every stream the optimiser accepts.  Nothing here
is checked as an oracle on the real code (the harness only counts the occurrences, informationally).

Observation of a callback stream (`draws`): for every `fill(brush)` the current transformation (product of
the open `push_transform`s, as a word of transform tags), the open glyph clips (each with the transformation
in force when it was pushed) and the brush — what a client that implements only the primitive callbacks
would rasterise.  `expandAll` is the trait's default `ColorPainter::fill_glyph` applied to every
`fill_glyph` call (push_clip_glyph; [push_transform]; fill; [pop_transform]; pop_clip).
-/
import FontVerif.Model.Paint
import FontVerif.Model.PaintObs
import FontVerif.Lemmas.Paint
set_option linter.unusedVariables false
namespace FontVerif.C13Fill
open FontVerif FontVerif.Paint

private theorem draws_pops (pops : List Event) (hp : ∀ e ∈ pops, IsPop e) :
    ∀ s, draws s (pops ++ [.popClip]) = [] := by
  induction pops with
  | nil => intro s; rfl
  | cons e es ih =>
    intro s
    have he := hp e (List.mem_cons_self ..)
    have ih' := ih (fun x hx => hp x (List.mem_cons_of_mem _ hx))
    cases e <;> simp only [IsPop] at he
    · exact ih' _
    · exact ih' _

private theorem optCalls_pops (pops : List Event) (hp : ∀ e ∈ pops, IsPop e) :
    ∀ o, (optCalls o pops).2 = [] := by
  induction pops with
  | nil => intro o; rfl
  | cons e es ih =>
    intro o
    have he := hp e (List.mem_cons_self ..)
    have ih' := ih (fun x hx => hp x (List.mem_cons_of_mem _ hx))
    cases e <;> simp only [IsPop] at he
    · simp only [optCalls, optPrim, List.nil_append]; exact ih' _
    · simp only [optCalls, optPrim, List.nil_append]; exact ih' _

/-- the scopes open inside the un-optimised `PaintGlyph`: the transforms pushed so far (newest first)
above the glyph clip above the outer scopes -/
private def inner (ts : List TWord) (g : Gid) (S0 : List Scope) : List Scope :=
  ts.map .t ++ .clipG g (ctmOf S0) :: S0

private theorem ctmOf_inner (ts : List TWord) (g : Gid) (S0 : List Scope) :
    ctmOf (inner ts g S0) = ctmOf S0 ++ ts.reverse.flatten := by
  induction ts with
  | nil => simp [inner, ctmOf]
  | cons w ws ih =>
    simp only [inner, List.map_cons, List.cons_append, ctmOf] at ih ⊢
    rw [ih]; simp [List.append_assoc]

private theorem clipsOf_inner (ts : List TWord) (g : Gid) (S0 : List Scope) :
    clipsOf (inner ts g S0) = (g, ctmOf S0) :: clipsOf S0 := by
  induction ts with
  | nil => simp [inner, clipsOf]
  | cons w ws ih => simpa [inner, clipsOf] using ih

private theorem draws_expand (S0 : List Scope) (g : Gid) (bt : Option TWord) (b : Brush) (rest : List Event) :
    draws S0 (expandFillGlyph g bt b ++ rest)
      = ⟨ctmOf S0 ++ bt.getD [], (g, ctmOf S0) :: clipsOf S0, b⟩ :: draws S0 rest := by
  cases bt with
  | none => simp [expandFillGlyph, draws, ctmOf, clipsOf]
  | some w => simp [expandFillGlyph, draws, ctmOf, clipsOf]

private theorem main (g : Gid) (S0 : List Scope) (pops : List Event) (hp : ∀ e ∈ pops, IsPop e) :
    ∀ (pre : List Event), (∀ e ∈ pre, IsPre e) → ∀ (o : Opt) (ts : List TWord),
      o.success = true → o.gid = g → o.bt.getD [] = ts.reverse.flatten →
      draws S0 (expandAll (optCalls o (pre ++ pops)).2) = draws (inner ts g S0) (pre ++ pops ++ [.popClip]) := by
  intro pre
  induction pre with
  | nil =>
    intro _ o ts _ _ _
    simp only [List.nil_append]
    rw [optCalls_pops pops hp, draws_pops pops hp]
    rfl
  | cons e es ih =>
    intro hpre o ts hs hg hbt
    have he := hpre e (List.mem_cons_self ..)
    have ih' := ih (fun x hx => hpre x (List.mem_cons_of_mem _ hx))
    cases e <;> simp only [IsPre] at he
    case pushT w =>
      have h2 : (optPrim o (.pushT w)).2 = [] := rfl
      have hs' : (optPrim o (.pushT w)).1.success = true := by simp [optPrim, hs]
      have hg' : (optPrim o (.pushT w)).1.gid = g := by simp [optPrim, hs, hg]
      have hb' : (optPrim o (.pushT w)).1.bt.getD [] = (w :: ts).reverse.flatten := by
        simp only [optPrim, hs, if_true, Option.getD_some, List.reverse_cons, List.flatten_append,
          List.flatten_cons, List.flatten_nil, List.append_nil]
        rw [← hbt]; cases o.bt <;> simp
      have := ih' _ (w :: ts) hs' hg' hb'
      simp only [List.cons_append, optCalls, h2, List.nil_append, draws]
      simpa [inner] using this
    case fill b =>
      simp only [List.cons_append, optCalls, optPrim, hs, if_true, draws]
      simp only [expandAll, List.flatMap_cons, List.nil_append]
      have h1 := draws_expand S0 o.gid o.bt b (expandAll (optCalls o (es ++ pops)).2)
      simp only [expandAll] at h1
      rw [h1, ctmOf_inner, clipsOf_inner, hbt, hg]
      congr 1
      have := ih' o ts hs hg hbt
      simpa [expandAll] using this
    case cached q =>
      simp only [List.cons_append, optCalls, optPrim, List.nil_append, draws]
      exact ih' o ts hs hg hbt

/-- **`fill_glyph_optimisation_sound`** (beyond the property: about what is drawn, not about nesting): let `s` be the primitive calls the child subtree of a `PaintGlyph`
makes on its painter, of the shape the optimisation is designed for — transforms and fills, then only
`pop_transform`s (a chain of transform paints over a solid / gradient, a `PaintColrLayers` of plain
fills, …).  Then what a client sees from the OPTIMISED traversal (the `fill_glyph` calls the
`CollectFillGlyphPainter` forwards, under the default `fill_glyph` expansion) draws exactly what the
UN-OPTIMISED traversal (`push_clip_glyph`, the same calls, `pop_clip`) draws: same brushes, same
transformation for every fill, same glyph clip under the same transformation — in any context `S0`. -/
theorem fill_glyph_optimisation_sound (g : Gid) (S0 : List Scope) (pre pops : List Event)
    (hpre : ∀ e ∈ pre, IsPre e) (hpops : ∀ e ∈ pops, IsPop e) :
    draws S0 (expandAll (optCalls { success := true, bt := none, gid := g } (pre ++ pops)).2)
      = draws S0 ([.pushClipGlyph g] ++ (pre ++ pops) ++ [.popClip]) := by
  have := main g S0 pops hpops pre hpre { success := true, bt := none, gid := g } [] rfl rfl rfl
  simpa [inner, draws] using this

/-- such a stream is accepted: the optimiser stays successful, so the un-optimised pass is skipped -/
theorem fill_only_stream_is_accepted (g : Gid) (s : List Event)
    (hs : ∀ e ∈ s, IsPre e ∨ IsPop e) : ∀ o : Opt, o.success = true → (optCalls o s).1.success = true := by
  induction s with
  | nil => intro o h; exact h
  | cons e es ih =>
    intro o h
    have he := hs e (List.mem_cons_self ..)
    have ih' := ih (fun x hx => hs x (List.mem_cons_of_mem _ hx))
    cases e <;> simp only [IsPre, IsPop, or_self, or_false, or_true] at he <;>
      simp only [optCalls, optPrim] <;> first | exact ih' _ h | skip
    · split <;> exact ih' _ (by simpa using h)

/-- **The equality does not extend to every stream the optimiser accepts** (an observation outside the
property, reports/C13.md): `pop_transform` is ignored by the collecting painter, so a
fill that comes after a popped transform is still forwarded with that transform.  `PaintGlyph(g,
PaintColrLayers[PaintTranslate(t, solid a), solid b])`: accepted, but `b` is drawn under `t`. -/
example : let s : List Event := [.pushT [1], .fill [0, 1, 16384], .popT, .fill [0, 2, 16384]]
    (optCalls { success := true, bt := none, gid := 7 } s).1.success = true ∧
    draws [] (expandAll (optCalls { success := true, bt := none, gid := 7 } s).2)
      = [⟨[1], [(7, [])], [0, 1, 16384]⟩, ⟨[1], [(7, [])], [0, 2, 16384]⟩] ∧
    draws [] ([.pushClipGlyph 7] ++ s ++ [.popClip])
      = [⟨[1], [(7, [])], [0, 1, 16384]⟩, ⟨[], [(7, [])], [0, 2, 16384]⟩] := by decide

/-- … and a second transform pushed after a pop is multiplied onto the stale one
(`PaintColrLayers[Translate(t1, a), Translate(t2, b)]`: `b` is drawn under `t1·t2`) -/
example : let s : List Event := [.pushT [1], .fill [0, 1, 16384], .popT, .pushT [2], .fill [0, 2, 16384], .popT]
    draws [] (expandAll (optCalls { success := true, bt := none, gid := 7 } s).2)
      = [⟨[1], [(7, [])], [0, 1, 16384]⟩, ⟨[1, 2], [(7, [])], [0, 2, 16384]⟩] ∧
    draws [] ([.pushClipGlyph 7] ++ s ++ [.popClip])
      = [⟨[1], [(7, [])], [0, 1, 16384]⟩, ⟨[2], [(7, [])], [0, 2, 16384]⟩] := by decide

/-- non-vacuity of the theorem's shape: `PaintGlyph(g, Transform(Transform(solid)))` -/
example : draws [] (expandAll (optCalls { success := true, bt := none, gid := 7 }
      [.pushT [1], .pushT [2], .fill [0, 3, 16384], .popT, .popT]).2)
    = [⟨[1, 2], [(7, [])], [0, 3, 16384]⟩] := by decide

end FontVerif.C13Fill
