/-
C02 — skrifa and IFT client APIs are total on hostile fonts and arguments.

Core 3: the CFF / CFF2 charstring evaluator (Model/Charstring.lean ⇄ read-fonts postscript/charstring.rs, stack.rs,
index.rs, driven by skrifa outline/cff/mod.rs `Outlines::draw`) returns `Ok` or an error VALUE for EVERY charstring,
EVERY pair of subroutine indexes and EVERY variation-store behaviour: it never runs out of the model's loop fuel
(= each Rust loop terminates), never reaches one of the two places where the Rust would panic, performs a bounded
number of loop iterations and emits a bounded number of commands; runaway shapes are error values.
-/
import FontVerif.Lemmas.Charstring
namespace FontVerif.C02
open FontVerif FontVerif.Charstring FontVerif.CharstringLemmas
set_option linter.unusedVariables false

/-! ### totality -/

/-- **`evaluate` returns `Ok(())` or `Err(e)`** — for every charstring, every global / local subroutine index whose
    subroutines are at most `M` bytes long (any INDEX of at most `M` bytes: `index_subrs_bounded`), every variation
    store, from every start state satisfying the operand-stack invariant (the initial state does: `initSt_inv`).
    `Fail.stuck` (a loop of the model ran out of fuel: the token loop's fuel is the number of remaining bytes + 1, an
    operator's loop's fuel is the operand count + 1) and `Fail.panic` (`values[top]` out of range in `push_impl`,
    `i32` overflow adding the subroutine bias) are impossible. -/
theorem evaluate_total (env : Env) (M : Nat) (hb : SubrsBounded env M) (data : List Nat) (hd : data.length ≤ M)
    (st0 : St) (hi : Inv st0) :
    (∃ st', evaluate env data st0 = .ok st') ∨ (∃ e stE, evaluate env data st0 = .error (.err e, stE)) := by
  have := evalN_ok env hb (NESTING_DEPTH_LIMIT + 1) data st0 hd hi
  unfold evaluate
  unfold EvalOk at this
  cases h : evalN env (NESTING_DEPTH_LIMIT + 1) data st0 with
  | ok st' => exact Or.inl ⟨_, rfl⟩
  | error p =>
    obtain ⟨f, stE⟩ := p
    rw [h] at this
    obtain ⟨⟨e, he⟩, _⟩ := this
    subst he
    exact Or.inr ⟨_, _, rfl⟩

/-- the state handed to `Evaluator::evaluate` by `Evaluator::new` satisfies the invariant -/
theorem initSt_inv (vs r : Nat) (se : Option Err) : Inv (initSt vs r se) := inv_nil _ rfl

/-- **iteration bound**: whether it succeeds or fails, an evaluation performs at most `maxSteps M 11`
    (`= M + M² + … + M¹¹`, `maxSteps_lt_pow`) iterations of the `while cursor.remaining_bytes() != 0` loop, summed over
    all nesting levels (`steps` is a ghost counter, incremented once per iteration at every level). -/
theorem evaluate_steps_le (env : Env) (M : Nat) (hb : SubrsBounded env M) (data : List Nat) (hd : data.length ≤ M)
    (st0 : St) (hi : Inv st0) :
    match evaluate env data st0 with
    | .ok st' => st'.steps ≤ st0.steps + maxSteps M 11
    | .error (_, stE) => stE.steps ≤ st0.steps + maxSteps M 11 := by
  have := evalN_ok env hb (NESTING_DEPTH_LIMIT + 1) data st0 hd hi
  have h11 : NESTING_DEPTH_LIMIT + 1 = 11 := rfl
  rw [h11] at this
  unfold evaluate
  rw [h11]
  unfold EvalOk Within at this
  cases h : evalN env 11 data st0 with
  | ok st' => rw [h] at this; exact this.2.2.1
  | error p => obtain ⟨f, stE⟩ := p; rw [h] at this; exact this.2.2.1

/-- **command bound**: every loop iteration sends at most 515 commands to the sink (the widest operator, `hlineto`
    on a full stack, sends 513 lines), so a successful evaluation emits at most `515 * maxSteps M 11` commands. -/
theorem evaluate_commands_le (env : Env) (M : Nat) (hb : SubrsBounded env M) (data : List Nat) (hd : data.length ≤ M)
    (st0 : St) (hi : Inv st0) (st' : St) (h : evaluate env data st0 = .ok st') :
    st'.out.length ≤ st0.out.length + 515 * (st'.steps - st0.steps) ∧
    st'.out.length ≤ st0.out.length + 515 * maxSteps M 11 := by
  have := evalN_ok env hb (NESTING_DEPTH_LIMIT + 1) data st0 hd hi
  have h11 : NESTING_DEPTH_LIMIT + 1 = 11 := rfl
  unfold evaluate at h
  rw [h] at this
  rw [h11] at this
  unfold EvalOk Within at this
  simp only [] at this
  obtain ⟨_, h1, h2, h3⟩ := this
  constructor
  · have : 515 * (st'.steps - st0.steps) = 515 * st'.steps - 515 * st0.steps := Nat.mul_sub _ _ _
    omega
  · omega

/-- the operand stack never holds more than `MAX_STACK = 513` entries, and every integer entry is a 16-bit value -/
theorem evaluate_stack_le (env : Env) (M : Nat) (hb : SubrsBounded env M) (data : List Nat) (hd : data.length ≤ M)
    (st0 : St) (hi : Inv st0) (st' : St) (h : evaluate env data st0 = .ok st') :
    st'.stack.length ≤ MAX_STACK ∧ ∀ v : Int, some v ∈ st'.stack → -32768 ≤ v ∧ v ≤ 32767 := by
  have := evalN_ok env hb (NESTING_DEPTH_LIMIT + 1) data st0 hd hi
  unfold evaluate at h
  rw [h] at this
  exact this.1

/-- `maxSteps M n = M + M² + … + Mⁿ < (M + 1)ⁿ` -/
theorem maxSteps_lt_pow (M n : Nat) : maxSteps M n < (M + 1) ^ n := by
  induction n with
  | zero => simp [maxSteps]
  | succ n ih =>
    unfold maxSteps
    rw [Nat.pow_succ]
    have h1 : M * (1 + maxSteps M n) ≤ M * (M + 1) ^ n := Nat.mul_le_mul_left _ (by omega)
    have h2 : (M + 1) ^ n * (M + 1) = M * (M + 1) ^ n + (M + 1) ^ n := by
      rw [Nat.mul_comm, Nat.succ_mul]
    omega

/-- one operator is a bounded amount of work: its loop gets `operand count + 1 ≤ 514` iterations of fuel and never
    uses them up (`Fail.stuck` is not a possible outcome of any operator, whatever the stack and the input) -/
theorem operator_loops_terminate (env : Env) (M C : Nat) (callee : List Nat → St → Res St) (hc : CalleeOk M C callee)
    (hb : SubrsBounded env M) (op : Op) (rest : List Nat) (st : St) (hi : Inv st) :
    ∀ stE, evalOperator env callee op rest st ≠ .error (.stuck, stE) := by
  intro stE h
  have := evalOperator_ok env callee op rest st hi hc hb
  rw [h] at this
  obtain ⟨⟨e, he⟩, _⟩ := this
  cases he

/-! ### a real INDEX is a bounded environment -/

theorem take_drop_len (l : List Nat) (a b : Nat) : ((l.drop a).take b).length ≤ l.length := by
  simp; omega

/-- every object returned by `Index::get` is at most as long as the INDEX bytes -/
theorem index_subrs_bounded (cff2 : Bool) (bytes : List Nat) (idx : Index) (h : Index.ofBytes cff2 bytes = .ok idx)
    (i : Nat) (d : List Nat) (hg : idx.toSubrs.get i = .ok d) : d.length ≤ bytes.length := by
  cases idx with
  | empty => simp [Index.toSubrs] at hg
  | fmt x =>
    have hx : x.data.length ≤ bytes.length := by
      unfold Index.ofBytes Index.ofBytesW at h
      simp only [] at h
      generalize (if cff2 = true then 4 else 2) = cw at h
      split at h
      · simp at h
      · split at h
        · split at h <;> simp at h
        · split at h
          · simp at h; subst h; simp
          · split at h <;> simp at h
    simp only [Index.toSubrs, IndexData.get] at hg
    split at hg
    · simp at hg
    · rename_i a ha
      split at hg
      · simp at hg
      · rename_i b hb
        split at hg
        · simp at hg
          subst hg
          have := take_drop_len x.data a (b - a)
          omega
        · simp at hg

/-- **closed form for real bytes**: for every global subr INDEX, optional local subr INDEX (as parsed by
    `Index::new`), every variation store behaviour and every charstring, `evaluate` returns `Ok` or an error value. -/
theorem evaluate_bytes_total (cff2 : Bool) (gb lb cs : List Nat) (gi li : Index)
    (hg : Index.ofBytes cff2 gb = .ok gi) (hl : Index.ofBytes cff2 lb = .ok li) (useLocal : Bool)
    (blend : Option VsLookup) (vs r : Nat) (se : Option Err) :
    let env : Env := { gsubrs := gi.toSubrs, subrs := if useLocal then some li.toSubrs else none, blend := blend }
    (∃ st', evaluate env cs (initSt vs r se) = .ok st') ∨
      (∃ e stE, evaluate env cs (initSt vs r se) = .error (.err e, stE)) := by
  intro env
  apply evaluate_total env (gb.length + lb.length + cs.length)
  · constructor
    · intro i d hd
      have := index_subrs_bounded cff2 gb gi hg i d hd
      omega
    · intro idx hidx i d hd
      cases useLocal with
      | false => simp [env] at hidx
      | true =>
        simp [env] at hidx; subst hidx
        have := index_subrs_bounded cff2 lb li hl i d hd
        omega
  · omega
  · exact initSt_inv _ _ _

/-! ### runaway shapes are error values -/

/-- the nesting check: entering `evaluate` with `nesting_depth = 11` is `CharstringNestingDepthLimitExceeded` -/
theorem nesting_depth_exceeded_is_error (env : Env) (data : List Nat) (st : St) :
    evalN env 0 data st = .error (.err .nestingLimit, st) := rfl

/-- an endless chain of subroutine calls — `d j` pushes a number and calls global subroutine `d (j+1)`, for every j:
    self recursion, mutual recursion of any cycle length, or an infinite family — is an error value at every nesting
    budget and from every state (`CharstringNestingDepthLimitExceeded` once 11 levels are open, or `StackOverflow` if
    the operand stack is full when the number is pushed) -/
theorem endless_call_chain_is_error (env : Env) (d : Nat → List Nat) (k : Nat → Nat) (tail : Nat → List Nat)
    (hk : ∀ j, 32 ≤ k j ∧ k j ≤ 246)
    (hd : ∀ j, d j = k j :: 29 :: tail j)
    (hget : ∀ j, ∃ ix, biasedIndex ((k j : Int) - 139) env.gsubrs.count = some ix ∧ env.gsubrs.get ix = .ok (d (j + 1))) :
    ∀ levels j st, CharstringLemmas.Inv st → ∃ e stE, evalN env levels (d j) st = .error (.err e, stE) := by
  intro levels
  induction levels with
  | zero => intro j st _; exact ⟨_, _, rfl⟩
  | succ n ih =>
    intro j st hi
    have ⟨hk1, hk2⟩ := hk j
    obtain ⟨ix, hix, hgx⟩ := hget j
    unfold evalN
    rw [hd j]
    simp only [List.length_cons]
    unfold loop
    simp only []
    rw [if_pos (Or.inr ⟨hk1, by omega⟩)]
    have hp : parseInt (k j) (29 :: tail j) = .ok ((k j : Int) - 139, 29 :: tail j) := by
      unfold parseInt; rw [if_pos ⟨hk1, hk2⟩]
    rw [hp]
    simp only []
    unfold push MAX_STACK
    by_cases hfull : st.stack.length = 513
    · simp only [hfull, if_true]; exact ⟨_, _, rfl⟩
    · have := hi.1
      simp only []
      rw [if_neg hfull, if_neg (by omega)]
      simp only []
      unfold loop
      simp only []
      rw [if_neg (by omega), if_neg (by omega)]
      have hr : readOperator 29 (tail j) = .ok (.callgsubr, tail j) := by
        unfold readOperator; simp [fromOpcode]
      rw [hr]
      simp only [evalOperator, opCall, popI32, hix, hgx]
      have ⟨e, stE, he⟩ := ih (j + 1)
        { st with steps := st.steps + 1 + 1, stack := st.stack }
        ⟨hi.1, hi.2⟩
      refine ⟨e, stE, ?_⟩
      (try simp only [] at he ⊢)
      rw [he]

/-- pushing onto a full operand stack: `StackOverflow` -/
theorem push_on_full_stack_is_error (st : St) (v : Option Int) (h : st.stack.length = 513) :
    push st v = .error (.err .stackOverflow, st) := by
  unfold push MAX_STACK failE; rw [if_pos h]

/-- `callsubr` / `callgsubr` / `vsindex` / `blend` with nothing on the stack: `StackUnderflow`;
    with a 16.16 value on top: `ExpectedI32StackEntry` -/
theorem pop_empty_is_error : popI32 [] = .error .stackUnderflow := rfl
theorem pop_fixed_is_error (rest : List (Option Int)) : popI32 (none :: rest) = .error (.expectedI32 rest.length) := rfl

theorem call_on_empty_stack_is_error (idx : SubrIndex) (callee : List Nat → St → Res St) (rest : List Nat) (st : St)
    (h : st.stack = []) : opCall (some idx) callee rest st = .error (.err .stackUnderflow, st) := by
  unfold opCall; rw [h]; rfl

/-- `callsubr` without a local subroutine index: `MissingSubroutines`; `blend` / `vsindex` without a variation store:
    `MissingBlendState` -/
theorem callsubr_without_index_is_error (callee : List Nat → St → Res St) (rest : List Nat) (st : St) :
    opCall none callee rest st = .error (.err .missingSubrs, st) := rfl
theorem blend_without_store_is_error (rest : List Nat) (st : St) :
    opBlend none rest st = .error (.err .missingBlend, st) := rfl

/-- `blend` asking for more operands than the stack holds (`n` targets × (`regions` + 1)): `StackUnderflow` -/
theorem blend_underflow_is_error (lookup : VsLookup) (rest : List Nat) (st : St) (n : Int) (stack : List (Option Int))
    (h : st.stack = some n :: stack) (hn : n < 0 ∨ stack.length < n.toNat * (st.regions + 1)) :
    opBlend (some lookup) rest st = .error (.err .stackUnderflow, st) := by
  unfold opBlend popI32
  rw [h]
  simp only []
  by_cases h1 : n < 0 ∨ n.toNat > stack.length
  · rw [if_pos h1]; rfl
  · rw [if_neg h1]
    rcases hn with hn | hn
    · exact absurd (Or.inl hn) h1
    · rw [if_pos hn]; rfl

/-- a hint mask that is cut short — fewer than ⌈stems / 8⌉ bytes left — is `Read(OutOfBounds)`, whatever the stems -/
theorem short_hintmask_is_error (isHint : Bool) (st : St) (h : st.stack = []) (rest : List Nat)
    (hr : rest.length < (st.stemCount + 7) / 8) :
    opMask isHint rest st = .error (.err .read, st) := by
  unfold opMask
  rw [h]
  simp [stemStart, whileFuel, pairBody, failE]
  omega

/-- operator bytes with no meaning (0, 2, 9, 13, 17 and every `12 x` except flex): `InvalidCharstringOperator` -/
theorem invalid_operator_is_error (b0 : Nat) (rest : List Nat) (h : b0 = 0 ∨ b0 = 2 ∨ b0 = 9 ∨ b0 = 13 ∨ b0 = 17) :
    readOperator b0 rest = .error (.invalidOperator b0) := by
  rcases h with h | h | h | h | h <;> subst h <;> rfl

/-! ### non-vacuity -/

def noSubrs : SubrIndex := { count := 0, get := fun _ => .error .read }
def env0 : Env := { gsubrs := noSubrs, subrs := none, blend := none }

/-- `1 2 rmoveto 3 4 rlineto endchar` -/
example : (evaluate env0 [140, 141, 21, 142, 143, 5, 14] {}).toOption.map (·.out) = some [3, 1, 0] := by decide +kernel
example : SubrsBounded env0 0 := ⟨by intro i d h; simp [env0, noSubrs] at h, by intro idx h; simp [env0] at h⟩

/-- a subroutine that calls itself: gsubr 0 = `-107 callgsubr` -/
def selfEnv : Env :=
  { gsubrs := { count := 1, get := fun i => if i = 0 then .ok [32, 29] else .error .read }, subrs := none, blend := none }
example : (match evaluate selfEnv [32, 29] {} with | .error (.err .nestingLimit, _) => true | _ => false) = true := by
  decide +kernel

/-- a chain of `n` global subroutines, each calling the next; the last one draws -/
def chainEnv (n : Nat) : Env :=
  { gsubrs := { count := n, get := fun i => if i + 1 < n then .ok [32 + i + 1, 29] else if i + 1 = n then .ok [140, 141, 21] else .error .read },
    subrs := none, blend := none }
/-- 10 nested calls (nesting_depth 10) are allowed … -/
example : (evaluate (chainEnv 10) [32, 29] {}).toOption.map (·.out) = some [0] := by decide +kernel
/-- … 11 are not -/
example : (match evaluate (chainEnv 11) [32, 29] {} with | .error (.err .nestingLimit, _) => true | _ => false) = true := by
  decide +kernel

/-- fan-out: `depth` subroutines, each calling the next one `k` times: the iteration count is exponential in the
    depth although no subroutine is longer than `2 k` bytes (the recorded finding C02-charstring-fanout-exponential) -/
def fanEnv (k depth : Nat) : Env :=
  { gsubrs := { count := depth,
                get := fun i => if i + 1 < depth then .ok ((List.replicate k [32 + i + 1, 29]).flatten) else if i + 1 = depth then .ok [] else .error .read },
    subrs := none, blend := none }
example : (evaluate (fanEnv 2 8) [32, 29] {}).toOption.map (·.steps) = some 510 := by decide +kernel
example : (evaluate (fanEnv 3 6) [32, 29] {}).toOption.map (·.steps) = some 728 := by decide +kernel

/-- 513 operands then `hlineto`: 513 lines; a 514th operand: `StackOverflow` -/
example : (evaluate env0 (List.replicate 513 139 ++ [6]) {}).toOption.map (·.out.length) = some 513 := by decide +kernel
example : (match evaluate env0 (List.replicate 514 139 ++ [6]) {} with | .error (.err .stackOverflow, _) => true | _ => false) = true := by
  decide +kernel

end FontVerif.C02
