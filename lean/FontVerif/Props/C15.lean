/-
C15 — Scalar and fixed-point types encode, convert and round exactly as specified.
Property theorems only (helper lemmas live in Lemmas/Round.lean).
Model: Model/Fixed.lean ⇄ font-types/src/{fixed,int24,uint24,raw}.rs.
-/
import FontVerif.Model.Fixed
import FontVerif.Lemmas.Round
set_option linter.unusedVariables false
namespace FontVerif.C15
open FontVerif FontVerif.Fixed

/-! ### multiplication, division, multiply-divide: exact result rounded half away from zero
whenever representable -/

/-- `a * b` (16.16): for all i32 operands, if the exactly computed product `a·b / 2^16`
rounded half away from zero is some representable `r`, the operator returns `r`. -/
theorem mul_spec (a b r : Int) (ha : inI32 a) (hb : inI32 b) (hr : inI32 r)
    (h : IsRHA (a * b) 65536 r) : mul a b = r := by
  unfold mul wrapI32
  unfold inI32 at *
  unfold IsRHA at h
  generalize a * b = p at *
  simp only []
  by_cases hp : 0 ≤ p
  · have := h.1 hp
    have e : (if p < 0 then (1 : Int) else 0) = 0 := by split <;> omega
    rw [e]; split <;> omega
  · have := h.2 (by omega)
    have e : (if p < 0 then (1 : Int) else 0) = 1 := by split <;> omega
    rw [e]; split <;> omega

example : inI32 98304 ∧ inI32 (-163840) ∧ IsRHA (98304 * -163840) 65536 (-245760)
    ∧ mul 98304 (-163840) = -245760 := by decide

/-- a non-negative quotient `q` whose value is at most `2^31` survives `as u32` unchanged. -/
private theorem wrapU32_id {q : Int} (h0 : 0 ≤ q) (h1 : q ≤ 2147483648) : wrapU32 q = q := by
  unfold wrapU32; omega

/-- core of `div`/`mul_div`: magnitude `q ≥ 0`, sign `neg`; if `±q` is the representable `r`
then the wrapping casts return exactly `r` (including `q = 2^31`, `r = i32::MIN`). -/
private theorem signed_result (q r : Int) (neg : Bool) (h0 : 0 ≤ q) (hr : inI32 r)
    (h : r = if neg then -q else q) :
    (if neg then wrapI32 (-(wrapI32 (wrapU32 q))) else wrapI32 (wrapU32 q)) = r := by
  unfold inI32 at hr
  cases neg with
  | false =>
    simp only [Bool.false_eq_true, if_false] at h ⊢
    subst h; unfold wrapU32 wrapI32; simp only []; split <;> omega
  | true =>
    simp only [if_true] at h ⊢
    subst h; unfold wrapU32 wrapI32; simp only []
    split <;> split <;> omega

/-- `a / b` (16.16): for all i32 operands with `b ≠ 0`, if the exact quotient `a·2^16 / b`
rounded half away from zero is a representable `r`, the operator returns `r`
(this includes `i32::MIN / ONE = i32::MIN`, which the pre-fix code got wrong). -/
theorem div_spec (a b r : Int) (ha : inI32 a) (hb : inI32 b) (hb0 : b ≠ 0) (hr : inI32 r)
    (h : IsRHAq (a * 65536) b r) : div a b = r := by
  unfold inI32 at ha hb
  have hub : 0 < iabs b := by unfold iabs; split <;> omega
  have hua : 0 ≤ iabs a * 65536 := by unfold iabs; split <;> omega
  have hf := isRHA_formula hua hub
  have hq0 : 0 ≤ (iabs a * 65536 + iabs b / 2) / iabs b :=
    Int.ediv_nonneg (by omega) (Int.le_of_lt hub)
  -- r = ± formula, by uniqueness
  generalize hQ : (iabs a * 65536 + iabs b / 2) / iabs b = Q at hf hq0
  have hsign : r = if ((a < 0) != (b < 0)) then -Q else Q := by
    unfold IsRHAq at h
    by_cases hbp : 0 < b
    · rw [if_pos hbp] at h
      have hbn : ¬ b < 0 := by omega
      have eb : iabs b = b := by unfold iabs; simp [hbn]
      rw [eb] at hf
      by_cases hap : a < 0
      · have ea : iabs a = -a := by unfold iabs; simp [hap]
        rw [ea] at hf
        have h' := isRHA_neg hbp h
        have e : -(a * 65536) = -a * 65536 := by omega
        rw [e] at h'
        have := isRHA_unique hbp h' hf
        simp [hap, hbn]; omega
      · have ea : iabs a = a := by unfold iabs; simp [hap]
        rw [ea] at hf
        have := isRHA_unique hbp h hf
        simpa [hap, hbn] using this
    · rw [if_neg hbp] at h
      have hbn : b < 0 := by omega
      have hnb : 0 < -b := by omega
      have eb : iabs b = -b := by unfold iabs; simp [hbn]
      rw [eb] at hf
      by_cases hap : a < 0
      · have ea : iabs a = -a := by unfold iabs; simp [hap]
        rw [ea] at hf
        have e : -(a * 65536) = -a * 65536 := by omega
        rw [e] at h
        have := isRHA_unique hnb h hf
        simpa [hap, hbn] using this
      · have ea : iabs a = a := by unfold iabs; simp [hap]
        rw [ea] at hf
        have h' := isRHA_neg hnb h
        have e : -(-(a * 65536)) = a * 65536 := by omega
        rw [e] at h'
        have := isRHA_unique hnb h' hf
        simp [hap, hbn]; omega
  unfold div
  have hne : iabs b ≠ 0 := by omega
  simp only [hne, if_false, hQ]
  exact signed_result _ r _ hq0 hr hsign

example : div (-2147483648) 65536 = -2147483648 ∧ IsRHAq (-2147483648 * 65536) 65536 (-2147483648) := by
  decide

/-- division by zero saturates: `x / 0 = ±0x7FFFFFFF` with the sign of `x` (documented). -/
theorem div_by_zero_saturates (a : Int) (ha : inI32 a) :
    div a 0 = if a < 0 then -2147483647 else 2147483647 := by
  unfold div iabs wrapI32 wrapU32
  simp

/-- `s.mul_div(a, b)`: for all i32 operands with `b ≠ 0`, if the exact value `s·a / b`
rounded half away from zero is a representable `r`, `mul_div` returns `r`. -/
theorem mul_div_spec (s a b r : Int) (hs : inI32 s) (ha : inI32 a) (hb : inI32 b) (hb0 : b ≠ 0)
    (hr : inI32 r) (h : IsRHAq (s * a) b r) : mulDiv s a b = r := by
  unfold inI32 at hs ha hb
  have hub : 0 < iabs b := by unfold iabs; split <;> omega
  have hus : 0 ≤ iabs s := by unfold iabs; split <;> omega
  have hua : 0 ≤ iabs a := by unfold iabs; split <;> omega
  have hus' : iabs s ≤ 2147483648 := by unfold iabs; split <;> omega
  have hua' : iabs a ≤ 2147483648 := by unfold iabs; split <;> omega
  have hub' : iabs b ≤ 2147483648 := by unfold iabs; split <;> omega
  have hp0 : 0 ≤ iabs s * iabs a := Int.mul_nonneg hus hua
  have hpmax : iabs s * iabs a ≤ 2147483648 * 2147483648 :=
    Int.mul_le_mul hus' hua' hua (by omega)
  -- no u64 wrap-around: su*au ≤ 2^62, + bu/2 < 2^63
  have hw1 : wrapU64 (iabs s * iabs a) = iabs s * iabs a := by unfold wrapU64; omega
  have hw2 : wrapU64 (iabs s * iabs a + iabs b / 2) = iabs s * iabs a + iabs b / 2 := by
    unfold wrapU64; omega
  have hf := isRHA_formula hp0 hub
  have hq0 : 0 ≤ (iabs s * iabs a + iabs b / 2) / iabs b :=
    Int.ediv_nonneg (by omega) (Int.le_of_lt hub)
  have habs : iabs s * iabs a = if ((s < 0) != (a < 0)) then -(s * a) else s * a := by
    unfold iabs
    by_cases h1 : s < 0 <;> by_cases h2 : a < 0 <;> simp [h1, h2, Int.neg_mul, Int.mul_neg]
  generalize hQ : (iabs s * iabs a + iabs b / 2) / iabs b = Q at hf hq0
  have hsign : r = if (((s < 0) != (a < 0)) != (b < 0)) then -Q else Q := by
    unfold IsRHAq at h
    rw [habs] at hf
    by_cases hbp : 0 < b
    · rw [if_pos hbp] at h
      have hbn : ¬ b < 0 := by omega
      have eb : iabs b = b := by unfold iabs; simp [hbn]
      rw [eb] at hf
      by_cases hx : ((s < 0) != (a < 0)) = true
      · simp only [hx, if_true] at hf ⊢
        have h' := isRHA_neg hbp h
        have := isRHA_unique hbp h' hf
        simp [hbn]; omega
      · simp only [hx] at hf ⊢
        have := isRHA_unique hbp h hf
        simpa [hbn] using this
    · rw [if_neg hbp] at h
      have hbn : b < 0 := by omega
      have hnb : 0 < -b := by omega
      have eb : iabs b = -b := by unfold iabs; simp [hbn]
      rw [eb] at hf
      by_cases hx : ((s < 0) != (a < 0)) = true
      · simp only [hx, if_true] at hf ⊢
        have := isRHA_unique hnb h hf
        simpa [hbn] using this
      · simp only [hx] at hf ⊢
        have h' := isRHA_neg hnb h
        have e : -(-(s * a)) = s * a := by omega
        rw [e] at h'
        have := isRHA_unique hnb h' hf
        simp [hbn]; omega
  unfold mulDiv
  have hpos : iabs b > 0 := hub
  simp only [hpos, if_true, hw1, hw2, hQ]
  -- the result `as i32` of the u64 quotient: same low 32 bits as `as u32 as i32`
  have hcast : ∀ q : Int, 0 ≤ q → wrapI32 q = wrapI32 (wrapU32 q) := by
    intro q _; unfold wrapI32 wrapU32; simp only []; split <;> split <;> omega
  rw [hcast _ hq0]
  exact signed_result _ r _ hq0 hr hsign

example : mulDiv (-2147483648) 65536 65536 = -2147483648 := by decide

/-! ### conversions between fixed-point formats -/

/-- `Fixed::to_f2dot14` is the specification's rule: add 2, arithmetic shift right by 2
(i.e. `⌊(x + 2) / 4⌋`), for every value whose result fits 2.14. -/
theorem to_f2dot14_spec (a : Int) (ha : inI32 a) (hfit : inI16 ((a + 2) / 4)) :
    toF2Dot14 a = (a + 2) / 4 := by
  unfold toF2Dot14 wrapI16 wrapI32; unfold inI32 at ha; unfold inI16 at hfit
  simp only []; split <;> split <;> omega

/-- 2.14 → 16.16 is exact and `to_f2dot14 ∘ to_fixed = id` for every 2.14 value. -/
theorem f2dot14_fixed_roundtrip (x : Int) (hx : inI16 x) :
    toF2Dot14 (f2dot14ToFixed x) = x := by
  unfold toF2Dot14 f2dot14ToFixed wrapI16 wrapI32; unfold inI16 at hx
  simp only []; split <;> split <;> omega

/-- `Fixed::to_i32` rounds to nearest (half up) when `a + 0x8000` does not wrap. -/
theorem to_i32_spec (a : Int) (ha : inI32 a) (h : a + 32768 < 2147483648) :
    toI32 a = (a + 32768) / 65536 := by
  unfold toI32 wrapI32; unfold inI32 at ha; simp only []; split <;> omega

theorem to_f26dot6_spec (a : Int) (ha : inI32 a) (h : a + 512 < 2147483648) :
    toF26Dot6 a = (a + 512) / 1024 := by
  unfold toF26Dot6 wrapI32; unfold inI32 at ha; simp only []; split <;> omega

/-- `from_i32 ∘ to_i32` on integers: `to_i32 (from_i32 i) = i` for every 16-bit integer. -/
theorem from_to_i32 (i : Int) (hi : inI16 i) : toI32 (fromI32 i) = i := by
  unfold toI32 fromI32 wrapI32; unfold inI16 at hi; simp only []; split <;> split <;> omega

/-- floor/fract decomposition: `floor x + fract x = x`, `0 ≤ fract x < 1`,
`floor x` is a multiple of one. -/
theorem floor_fract_16 (a : Int) :
    floorBits 16 a + fractBits 16 a = a ∧ 0 ≤ fractBits 16 a ∧ fractBits 16 a < 65536
      ∧ floorBits 16 a % 65536 = 0 := by
  unfold floorBits fractBits
  have : (2 : Int) ^ 16 = 65536 := by decide
  rw [this]; omega

theorem floor_fract_6 (a : Int) :
    floorBits 6 a + fractBits 6 a = a ∧ 0 ≤ fractBits 6 a ∧ fractBits 6 a < 64
      ∧ floorBits 6 a % 64 = 0 := by
  unfold floorBits fractBits
  have : (2 : Int) ^ 6 = 64 := by decide
  rw [this]; omega

/-- `round` (16.16) returns the multiple of one nearest to `a` (ties up) when no wrap occurs. -/
theorem round_16_spec (a : Int) (ha : inI32 a) (h : a + 32768 < 2147483648) :
    roundBits 16 a = (a + 32768) / 65536 * 65536 := by
  unfold roundBits wrapI32; unfold inI32 at ha
  have : (2 : Int) ^ 16 = 65536 := by decide
  rw [this]; simp only []; split <;> omega

/-- the float view is exact: `int + fract/one` with `int·one + fract = bits`, `0 ≤ fract < one`
(so `to_f64`'s two terms are each exactly representable and sum to `bits / 2^16`). -/
theorem to_float_parts_16 (a : Int) :
    (toFloatParts 16 a).1 * 65536 + (toFloatParts 16 a).2 = a ∧
      0 ≤ (toFloatParts 16 a).2 ∧ (toFloatParts 16 a).2 < 65536 := by
  unfold toFloatParts
  have : (2 : Int) ^ 16 = 65536 := by decide
  simp only [this]; omega

theorem to_float_parts_14 (a : Int) :
    (toFloatParts 14 a).1 * 16384 + (toFloatParts 14 a).2 = a ∧
      0 ≤ (toFloatParts 14 a).2 ∧ (toFloatParts 14 a).2 < 16384 := by
  unfold toFloatParts
  have : (2 : Int) ^ 14 = 16384 := by decide
  simp only [this]; omega

/-! ### 24-bit types saturate; big-endian round trips -/

theorem int24_new_saturates (raw : Int) :
    inI32 raw → (-8388608 ≤ int24New raw ∧ int24New raw ≤ 8388607) ∧
      ((-8388608 ≤ raw ∧ raw ≤ 8388607) → int24New raw = raw) ∧
      (raw > 8388607 → int24New raw = 8388607) ∧ (raw < -8388608 → int24New raw = -8388608) := by
  intro _; unfold int24New; split <;> (try split) <;> omega

theorem uint24_new_saturates (raw : Int) (h : inU32 raw) :
    uint24New raw ≤ 16777215 ∧ (raw ≤ 16777215 → uint24New raw = raw) ∧
      (raw > 16777215 → uint24New raw = 16777215) := by
  unfold uint24New; split <;> omega

/-- every 24-bit signed value survives `to_be_bytes` then `from_be_bytes`. -/
theorem int24_be_roundtrip (v : Int) (h : -8388608 ≤ v ∧ v ≤ 8388607) :
    (match int24ToBe v with
     | [b0, b1, b2] => int24FromBe b0 b1 b2
     | _ => 0) = v := by
  unfold int24ToBe int24FromBe int24New wrapU32
  simp only []
  split <;> split <;> (try split) <;> omega

/-- every 3-byte pattern survives `from_be_bytes` then `to_be_bytes` (sign extension is exact). -/
theorem int24_bytes_roundtrip (b0 b1 b2 : Int) (h0 : inU8 b0) (h1 : inU8 b1) (h2 : inU8 b2) :
    int24ToBe (int24FromBe b0 b1 b2) = [b0, b1, b2] := by
  unfold int24ToBe int24FromBe int24New wrapU32; unfold inU8 at *
  simp only []
  split <;> split <;> (try split) <;> simp <;> omega

theorem uint24_be_roundtrip (v : Int) (h : 0 ≤ v ∧ v ≤ 16777215) :
    (match uint24ToBe v with
     | [b0, b1, b2] => uint24FromBe b0 b1 b2
     | _ => 0) = v := by
  unfold uint24ToBe uint24FromBe uint24New
  simp only []
  split <;> omega

theorem uint24_bytes_roundtrip (b0 b1 b2 : Int) (h0 : inU8 b0) (h1 : inU8 b1) (h2 : inU8 b2) :
    uint24ToBe (uint24FromBe b0 b1 b2) = [b0, b1, b2] := by
  unfold uint24ToBe uint24FromBe uint24New; unfold inU8 at *
  split
  · omega
  · simp only [List.cons.injEq, and_true]; omega

/-- 16-bit unsigned scalars: value → bytes → value and bytes → value → bytes. -/
theorem u16_be_roundtrip (v : Int) (h : inU16 v) : fromBeU (toBeU 2 v) = v := by
  unfold inU16 at h
  simp [toBeU, fromBeU, List.range, List.range.loop]; omega

theorem u16_bytes_roundtrip (b0 b1 : Int) (h0 : inU8 b0) (h1 : inU8 b1) :
    toBeU 2 (fromBeU [b0, b1]) = [b0, b1] := by
  unfold inU8 at *
  simp [toBeU, fromBeU, List.range, List.range.loop]; omega

theorem u32_be_roundtrip (v : Int) (h : inU32 v) : fromBeU (toBeU 4 v) = v := by
  unfold inU32 at h
  simp [toBeU, fromBeU, List.range, List.range.loop]; omega

theorem u32_bytes_roundtrip (b0 b1 b2 b3 : Int) (h0 : inU8 b0) (h1 : inU8 b1) (h2 : inU8 b2)
    (h3 : inU8 b3) : toBeU 4 (fromBeU [b0, b1, b2, b3]) = [b0, b1, b2, b3] := by
  unfold inU8 at *
  simp [toBeU, fromBeU, List.range, List.range.loop]; omega

theorem i16_be_roundtrip (v : Int) (h : inI16 v) : fromBeS 2 (toBeS 2 v) = v := by
  unfold inI16 at h
  simp [toBeS, toBeU, fromBeS, fromBeU, List.range, List.range.loop]; split <;> omega

theorem i32_be_roundtrip (v : Int) (h : inI32 v) : fromBeS 4 (toBeS 4 v) = v := by
  unfold inI32 at h
  simp [toBeS, toBeU, fromBeS, fromBeU, List.range, List.range.loop]; split <;> omega

/-- ordering of fixed values is ordering of raw bits: the model *is* the raw bits, and the
real-number value `bits / 2^k` is strictly monotone in `bits`. -/
theorem fixed_ord_is_bits_ord (a b : Int) :
    (a < b ↔ (toFloatParts 16 a).1 * 65536 + (toFloatParts 16 a).2 <
             (toFloatParts 16 b).1 * 65536 + (toFloatParts 16 b).2) := by
  have ha := (to_float_parts_16 a).1
  have hb := (to_float_parts_16 b).1
  omega

/-- `impl Neg` and `abs` after `fix:` 7d0f778 never trap (they used to on `i32::MIN`), return the
mathematical negation / absolute value whenever that is representable, stay in range, and at
`MIN` wrap to `MIN` (the same convention as `Add`/`Sub`). -/
theorem neg_total (a : Int) : (neg a).isSome := by simp [neg]

theorem abs_total (a : Int) : (Fixed.abs a).isSome := by simp [Fixed.abs]

theorem neg_exact (a : Int) (h : inI32 a) (hm : a ≠ I32_MIN) : neg a = some (-a) := by
  unfold inI32 at h; unfold I32_MIN at hm
  simp only [neg, wrapI32]; congr 1; omega

theorem abs_exact (a : Int) (h : inI32 a) (hm : a ≠ I32_MIN) : Fixed.abs a = some (iabs a) := by
  unfold inI32 at h; unfold I32_MIN at hm
  simp only [Fixed.abs, wrapI32, iabs]; congr 1; split <;> omega

theorem neg_min : neg I32_MIN = some I32_MIN := by decide

theorem abs_min : Fixed.abs I32_MIN = some I32_MIN := by decide

theorem neg_involutive (a : Int) (h : inI32 a) : (neg a).bind neg = some a := by
  unfold inI32 at h
  simp only [neg, Option.bind, wrapI32]; congr 1; omega

example : neg (-98304) = some 98304 ∧ Fixed.abs (-98304) = some 98304 := by decide

end FontVerif.C15
