/-
C16 — layout builders and overflow splitting preserve glyph-level lookup semantics.
Property theorems only (helper lemmas: Lemmas/Layout.lean, LayoutCov.lean, LayoutClassDef.lean,
LayoutPair.lean).  Model: Model/Layout.lean ⇄
  write-fonts/src/tables/layout/builders.rs (CoverageTableBuilder, ClassDefBuilderImpl, iter_class_ranges),
  write-fonts/src/tables/layout.rs (RangeRecord::iter_for_glyphs),
  read-fonts/src/tables/layout.rs (CoverageFormat1/2::get, ClassDefFormat1/2::get, with the
    transcribed `core::slice::binary_search_by` loop),
  write-fonts/src/graph/splitting.rs (split_coverage, split_range_record),
  write-fonts/src/graph/splitting/pairpos.rs (split_pair_pos_format_1: size heuristic + split loop,
    split_off_ppf1).
Glyph ids are `Nat`s; every theorem about real tables assumes them `< 65536` (they are `u16`).
-/
import FontVerif.Lemmas.LayoutBuilder
set_option linter.unusedVariables false
namespace FontVerif.C16
open FontVerif FontVerif.Layout

/-! ## coverage tables -/

/-- `sort_unstable(); dedup()` as modelled: the strictly increasing list with the same members
(this pins down `sortDedup`, which the statements below use as "the sorted set"). -/
theorem sortDedup_spec (gs : List Nat) :
    (sortDedup gs).Pairwise (· < ·) ∧ ∀ g, g ∈ sortDedup gs ↔ g ∈ gs :=
  ⟨sortDedup_pairwise gs, fun _ => mem_sortDedup⟩

/-- **coverage_get.**  The table `CoverageTableBuilder::from_glyphs(gs).build()` — whichever of
the two binary formats the size rule picks — answers, for EVERY glyph id `g` (also ids above
`0xFFFF`), exactly the position of `g` in the sorted duplicate-free glyph set, and `None` for
glyphs outside the set. -/
theorem coverage_get (gs : List Nat) (hb : ∀ g ∈ gs, g < 65536) (g : Nat) :
    (buildCoverage gs).get g = indexIn g (sortDedup gs) := by
  have ⟨w, e⟩ := buildCoverageSorted_wf (sortDedup_pairwise gs) (sortDedup_bound hb)
  unfold buildCoverage
  rw [Coverage.get_eq_indexIn w, e]

/-- membership form: a glyph is covered iff it was given -/
theorem coverage_member (gs : List Nat) (hb : ∀ g ∈ gs, g < 65536) (g : Nat) :
    ((buildCoverage gs).get g).isSome ↔ g ∈ gs := by
  rw [coverage_get gs hb g, ← mem_sortDedup (gs := gs)]
  constructor
  · intro h
    cases hi : indexIn g (sortDedup gs) with
    | none => rw [hi] at h; cases h
    | some i => exact List.mem_of_getElem? (indexIn_some_mem hi)
  · intro h
    obtain ⟨k, hk⟩ := List.getElem?_of_mem h
    rw [indexIn_of_getElem? (pairwise_lt_ne (sortDedup_pairwise gs)) hk]; rfl

/-- the coverage iterator (`CoverageTable::iter`) yields the sorted set in index order -/
theorem coverage_iter (gs : List Nat) (hb : ∀ g ∈ gs, g < 65536) :
    (buildCoverage gs).glyphs = sortDedup gs :=
  (buildCoverageSorted_wf (sortDedup_pairwise gs) (sortDedup_bound hb)).2

/-- **coverage_format_irrelevant.**  For any sorted glyph set the format 1 serialisation and the
format 2 serialisation (`RangeRecord::iter_for_glyphs`) answer every query identically, so the
builder's size-based choice cannot change an answer. -/
theorem coverage_format_irrelevant (xs : List Nat) (hs : xs.Pairwise (· < ·))
    (hb : ∀ x ∈ xs, x < 65536) (g : Nat) :
    (Coverage.fmt1 xs).get g = (Coverage.fmt2 (iterForGlyphs xs)).get g := by
  have ⟨w, e, en⟩ := iterForGlyphs_spec hs
  rw [get_fmt1 hs hb, get_fmt2 w (fun r hr => hb _ (en r hr)), e]

/-! ## class definitions -/

/-- **classdef_get.**  The `ClassDef` collected from ANY list of `(glyph, class)` pairs
(`FromIterator`: class-0 pairs dropped, last pair for a glyph wins) — in whichever format
`prefer_format_1` picks — answers for every glyph the class given, and 0 for every other glyph. -/
theorem classdef_get (ps : List (Nat × Nat)) (g : Nat) :
    (buildClassDef ps).get g = assignedClass ps g := by
  unfold buildClassDef
  rw [buildClassDefItems_get (collectItems_sorted ps), itemGet_collectItems]

/-- a glyph that appears in no pair has class 0 -/
theorem classdef_unassigned (ps : List (Nat × Nat)) (g : Nat) (h : ∀ p ∈ ps, p.1 ≠ g) :
    (buildClassDef ps).get g = 0 := by
  rw [classdef_get]
  unfold assignedClass
  have : (ps.filter (fun p => p.2 != 0)).reverse.find? (fun p => p.1 == g) = none := by
    rw [List.find?_eq_none]
    intro p hp
    have hp' : p ∈ ps := (List.mem_filter.mp (List.mem_reverse.mp hp)).1
    simp [h p hp']
  rw [this]

/-- with one pair per glyph the answer is that pair's class -/
theorem classdef_get_unique (ps : List (Nat × Nat)) (hu : ps.Pairwise (fun a b => a.1 ≠ b.1))
    (p : Nat × Nat) (hp : p ∈ ps) : (buildClassDef ps).get p.1 = p.2 := by
  rw [classdef_get]
  unfold assignedClass
  by_cases hz : p.2 = 0
  · have : (ps.filter (fun p => p.2 != 0)).reverse.find? (fun q => q.1 == p.1) = none := by
      rw [List.find?_eq_none]
      intro q hq
      have hq' := List.mem_filter.mp (List.mem_reverse.mp hq)
      intro he
      have he' : q.1 = p.1 := by simpa using he
      have : q = p := by
        apply Classical.byContradiction
        intro hne
        obtain ⟨i, hi, hie⟩ := List.getElem_of_mem hq'.1
        obtain ⟨j, hj, hje⟩ := List.getElem_of_mem hp
        have hpw := List.pairwise_iff_getElem.mp hu
        rcases Nat.lt_trichotomy i j with h | h | h
        · have := hpw i j hi hj h; rw [hie, hje] at this; exact this he'
        · subst h; rw [hie] at hje; exact hne hje
        · have := hpw j i hj hi h; rw [hie, hje] at this; exact this he'.symm
      subst this
      simp [hz] at hq'
    rw [this, hz]
  · cases hf : (ps.filter (fun p => p.2 != 0)).reverse.find? (fun q => q.1 == p.1) with
    | none =>
      rw [List.find?_eq_none] at hf
      have : p ∈ (ps.filter (fun p => p.2 != 0)).reverse :=
        List.mem_reverse.mpr (List.mem_filter.mpr ⟨hp, by simp [hz]⟩)
      exact absurd (by simp) (hf p this)
    | some q =>
      simp only
      have hq1 : q.1 = p.1 := by simpa using List.find?_some hf
      have hq' : q ∈ ps := (List.mem_filter.mp (List.mem_reverse.mp (List.mem_of_find?_eq_some hf))).1
      apply Classical.byContradiction
      intro hne
      have hqp : q ≠ p := fun e => hne (by rw [e])
      obtain ⟨i, hi, hie⟩ := List.getElem_of_mem hq'
      obtain ⟨j, hj, hje⟩ := List.getElem_of_mem hp
      have hpw := List.pairwise_iff_getElem.mp hu
      rcases Nat.lt_trichotomy i j with h | h | h
      · have := hpw i j hi hj h; rw [hie, hje] at this; exact this hq1
      · subst h; rw [hie] at hje; exact hqp hje
      · have := hpw j i hj hi h; rw [hie, hje] at this; exact this hq1.symm

/-- **classdef_format_irrelevant.**  For any glyph→class map the format 1 array and the format 2
range records (`iter_class_ranges`) answer every query identically. -/
theorem classdef_format_irrelevant (items : List (Nat × Nat)) (hs : SortedItems items)
    (hne : items ≠ []) (g : Nat) :
    (classDefFmt1 items).get g = (classDefFmt2 items).get g := by
  rw [classDefFmt1_get hs hne, classDefFmt2_get hs]

/-- `ClassDefBuilderImpl::build` is one of the two serialisations -/
theorem classdef_build_is_fmt1_or_fmt2 (items : List (Nat × Nat)) :
    buildClassDefItems items = classDefFmt1 items ∨ buildClassDefItems items = classDefFmt2 items := by
  rw [buildClassDefItems_eq]
  by_cases h : preferFormat1 items = true <;> simp [h]

/-! ## `ClassDefBuilder` (glyph sets → class ids) -/

/-- **classdef_builder_get.**  `ClassDefBuilder::build_with_mapping` on pairwise disjoint classes
(the invariant `checked_add` maintains, see `classdef_builder_add_keeps_disjoint`): every glyph of
a class reads back as the id the mapping gives that class, every other glyph as class 0, every
class has an id, and the ids are `0..n` (with `new_using_class_0`) resp. `1..=n` in the order of the
sorted classes — these ids index the PairPos format 2 matrix. -/
theorem classdef_builder_get (b : ClassDefBuilder) (hdis : b.classes.Pairwise ClassesDisjoint) :
    (∀ p ∈ b.buildWithMapping.2, ∀ g ∈ p.1, b.buildWithMapping.1.get g = p.2) ∧
    (∀ g, (∀ c ∈ b.classes, g ∉ c) → b.buildWithMapping.1.get g = 0) ∧
    (b.buildWithMapping.2.map (·.1)).Perm b.classes ∧
    b.buildWithMapping.2.map (·.2) =
      List.range' (if b.useClass0 then 0 else 1) b.classes.length :=
  buildWithMapping_get b hdis

/-- `checked_add` (accepting or rejecting) keeps the accepted classes pairwise disjoint -/
theorem classdef_builder_add_keeps_disjoint (b : ClassDefBuilder) (cls : List Nat)
    (hdis : b.classes.Pairwise ClassesDisjoint) :
    (b.checkedAdd cls).1.classes.Pairwise ClassesDisjoint :=
  checkedAdd_disjoint b cls hdis

/-! ## `split_coverage` -/

/-- **split_coverage_spec.**  For a well-formed coverage table in EITHER format and any
`start ≤ end ≤ glyph count`, `split_coverage(cov, start, end)` does not panic and the new table
covers exactly the glyphs whose coverage index lies in `[start, end)`, re-indexed from 0:
`get' g = (get g).filter (start ≤ · < end) − start` for every glyph `g`.
(The empty range `start = end` relies on /repo fix 5c740c8; before it format 2 panicked.) -/
theorem split_coverage_spec (c : Coverage) (h : c.WF) (s e : Nat) (hse : s ≤ e)
    (he : e ≤ c.glyphs.length) :
    ∃ c', splitCoverage c s e = some c' ∧ c'.WF ∧
      ∀ g, c'.get g = ((c.get g).filter (fun i => decide (s ≤ i ∧ i < e))).map (· - s) :=
  splitCoverage_spec h hse he

/-- the same for the tables the builder makes -/
theorem split_coverage_of_built (gs : List Nat) (hb : ∀ g ∈ gs, g < 65536) (s e : Nat)
    (hse : s ≤ e) (he : e ≤ (sortDedup gs).length) :
    ∃ c', splitCoverage (buildCoverage gs) s e = some c' ∧
      ∀ g, c'.get g =
        ((indexIn g (sortDedup gs)).filter (fun i => decide (s ≤ i ∧ i < e))).map (· - s) := by
  have w := (buildCoverageSorted_wf (sortDedup_pairwise gs) (sortDedup_bound hb))
  have he' : e ≤ (buildCoverage gs).glyphs.length := by rw [coverage_iter gs hb]; exact he
  obtain ⟨c', a, _, d⟩ := splitCoverage_spec (c := buildCoverage gs) w.1 hse he'
  refine ⟨c', a, fun g => ?_⟩
  rw [d g, coverage_get gs hb g]

/-! ## PairPos format 1 splitting -/

/-- **ppf1_split_preserves.**  Take ANY PairPos format 1 subtable with a well-formed coverage
table (either format) and one pair set per covered glyph, and ANY non-decreasing list of split
points `0 ≤ p₁ ≤ … ≤ pₖ = pair-set count` (the size heuristic is a parameter; a point 0 or a
repeated point yields an empty subtable).  Then the split loop
of `split_pair_pos_format_1` does not panic, produces `k` subtables, and for EVERY glyph pair the
first-match lookup over the new subtables returns exactly what the unsplit subtable returned — in
particular nothing for pairs that had no rule. -/
theorem ppf1_split_preserves {V : Type} (t : PairPos1 V) (hwf : t.cov.WF)
    (hlen : t.pairSets.length = t.cov.glyphs.length) (pts : List Nat)
    (hinc : pts.Pairwise (· ≤ ·)) (hlast : pts.getLast? = some t.pairSets.length) :
    ∃ ts, splitPpf1Go t 0 pts = some ts ∧ ts.length = pts.length ∧
      ∀ g1 g2, firstMatch ts g1 g2 = t.lookup g1 g2 := by
  have hl := lastOr_of_getLast? pts 0 _ hlast
  obtain ⟨ts, a, b, c⟩ := splitPpf1Go_lookup t hwf pts 0
    (List.pairwise_cons.mpr ⟨fun _ _ => Nat.zero_le _, hinc⟩) (by rw [hl, hlen]; exact Nat.le_refl _)
  refine ⟨ts, a, b, fun g1 g2 => ?_⟩
  rw [c g1 g2, hl, hlen, lookupIn_full t hwf]

/-- pairs without a rule stay without a value after splitting -/
theorem ppf1_no_rule_no_value {V : Type} (t : PairPos1 V) (hwf : t.cov.WF)
    (hlen : t.pairSets.length = t.cov.glyphs.length) (pts : List Nat)
    (hinc : pts.Pairwise (· ≤ ·)) (hlast : pts.getLast? = some t.pairSets.length)
    (ts : List (PairPos1 V)) (hts : splitPpf1Go t 0 pts = some ts) (g1 g2 : Nat)
    (hno : t.lookup g1 g2 = none) : firstMatch ts g1 g2 = none := by
  obtain ⟨ts', a, _, c⟩ := ppf1_split_preserves t hwf hlen pts hinc hlast
  rw [hts] at a; cases a
  rw [c, hno]

/-- **ppf1_points_valid.**  Whatever sizes the graph reports, the split points the heuristic of
`split_pair_pos_format_1` computes are strictly increasing, never exceed the pair-set count, and end
with the pair-set count. -/
theorem ppf1_points_valid (cs : Nat) (sizes : List (Nat × Nat)) (pts : List Nat)
    (h : ppf1SplitPoints cs sizes = some pts) :
    pts.Pairwise (· < ·) ∧ pts.getLast? = some sizes.length ∧ ∀ p ∈ pts, p ≤ sizes.length := by
  unfold ppf1SplitPoints at h
  have inv := ppf1Loop_inv (cs := cs) sizes ⟨4, 10, [], []⟩ 0 ⟨List.Pairwise.nil, fun p hp => by cases hp⟩
  generalize ppf1Loop cs ⟨4, 10, [], []⟩ 0 sizes = st at h inv
  simp only at h
  split at h
  · cases h
  · cases h
    simp only [Nat.zero_add] at inv
    refine ⟨?_, by simp, ?_⟩
    · rw [List.pairwise_append]
      refine ⟨List.pairwise_reverse.mpr (inv.1.imp (fun h => h)), by simp, ?_⟩
      intro a ha b hb
      simp at hb; subst hb
      exact inv.2 a (List.mem_reverse.mp ha)
    · intro p hp
      rcases List.mem_append.mp hp with hp | hp
      · exact Nat.le_of_lt (inv.2 p (List.mem_reverse.mp hp))
      · simp at hp; omega

/-- if the first pair set fits a subtable on its own, no split point is 0 -/
theorem ppf1_points_pos (cs : Nat) (first : Nat × Nat) (rest : List (Nat × Nat)) (pts : List Nat)
    (hfit : 10 + (first.2 + 2) + min cs 6 ≤ 65535)
    (h : ppf1SplitPoints cs (first :: rest) = some pts) : ∀ p ∈ pts, 0 < p := by
  unfold ppf1SplitPoints at h
  have hstep : (ppf1Step cs ⟨4, 10, [], []⟩ 0 first).points = [] := by
    unfold ppf1Step
    have : ¬ (10 + (first.2 + 2) + min cs (4 + 2) > 65535) := by omega
    simp [this]
  have hge := ppf1Loop_points_ge (cs := cs) rest (ppf1Step cs ⟨4, 10, [], []⟩ 0 first) (0 + 1)
  have e : ppf1Loop cs ⟨4, 10, [], []⟩ 0 (first :: rest) =
      ppf1Loop cs (ppf1Step cs ⟨4, 10, [], []⟩ 0 first) (0 + 1) rest := rfl
  rw [← e] at hge
  generalize ppf1Loop cs ⟨4, 10, [], []⟩ 0 (first :: rest) = st at h hge
  simp only at h
  split at h
  · cases h
  · cases h
    intro p hp
    rcases List.mem_append.mp hp with hp | hp
    · rcases hge p (List.mem_reverse.mp hp) with h' | h'
      · rw [hstep] at h'; cases h'
      · omega
    · simp at hp; omega

/-- **ppf1_split_heuristic_preserves.**  The two together: with the split points the real
heuristic computes, for ANY object sizes (also when the first pair set alone exceeds 64 KiB and the
heuristic emits the split point 0), splitting a well-formed PairPos format 1 subtable does not
panic and preserves every pair lookup. -/
theorem ppf1_split_heuristic_preserves {V : Type} (t : PairPos1 V) (hwf : t.cov.WF)
    (hlen : t.pairSets.length = t.cov.glyphs.length) (cs : Nat) (sizes : List (Nat × Nat))
    (hsz : sizes.length = t.pairSets.length) (pts : List Nat)
    (h : ppf1SplitPoints cs sizes = some pts) :
    ∃ ts, splitPpf1Go t 0 pts = some ts ∧ ∀ g1 g2, firstMatch ts g1 g2 = t.lookup g1 g2 := by
  have ⟨pw, hl, _⟩ := ppf1_points_valid cs _ pts h
  obtain ⟨ts, a, _, c⟩ := ppf1_split_preserves t hwf hlen pts
    (pw.imp (fun h => Nat.le_of_lt h)) (by rw [hl, hsz])
  exact ⟨ts, a, c⟩

/-! ## PairPosBuilder: glyph pairs are kept, first rule wins, and they shadow later subtables -/

/-- **glyph_pair_first_rule_wins.**  Feed ANY sequence of `insert_pair(g1, v, g2, ..)` rules
(first glyphs < 65536; any values, any value-format keys `fmt v`, repeated pairs, any order) to the
glyph-pair half of `PairPosBuilder`.  `GlyphPairPosBuilder::build` distributes the pairs over one
PairPos format 1 subtable per value-format key; for EVERY glyph pair the first-match lookup over
those subtables yields the value of the FIRST rule inserted for that pair — whatever that value is,
in particular also when it is all zero: no rule is dropped — and nothing when there is no rule. -/
theorem glyph_pair_first_rule_wins {V : Type} (fmt : V → Nat) (rules : List ((Nat × Nat) × V))
    (hb : ∀ r ∈ rules, r.1.1 < 65536) (g1 g2 : Nat) :
    firstMatch (buildGlyphPairs fmt (GlyphPairs.ofRules rules)) g1 g2 =
      (rules.find? (fun r => r.1.1 == g1 && r.1.2 == g2)).map (·.2) := by
  obtain ⟨hu, hf, hm⟩ := ofRules_spec rules
  rw [buildGlyphPairs_lookup fmt _ hu (fun e he => hb e (hm e he)) g1 g2, hf g1 g2]
  rfl

/-- **explicit_pair_shadows_later_subtables.**  `PairPosBuilder::build` emits the glyph-pair
subtables BEFORE the class-pair subtables (`out = pairs.build(); out.extend(classes.build())`).
So whenever the first rule inserted for `(g1, g2)` has value `v` — e.g. the explicit zero of
`pos A V 0;` — the first-match result over the whole lookup is `v`, whatever subtables `later`
follow (in particular a class rule `pos @A @V -50;` covering the same glyphs cannot apply). -/
theorem explicit_pair_shadows_later_subtables {V : Type} (fmt : V → Nat)
    (rules : List ((Nat × Nat) × V)) (hb : ∀ r ∈ rules, r.1.1 < 65536) (g1 g2 : Nat) (v : V)
    (hfirst : (rules.find? (fun r => r.1.1 == g1 && r.1.2 == g2)).map (·.2) = some v)
    (later : List (Nat → Nat → Option V)) :
    (((buildGlyphPairs fmt (GlyphPairs.ofRules rules)).map (fun t => t.lookup)) ++ later).findSome?
      (fun look => look g1 g2) = some v := by
  have h := glyph_pair_first_rule_wins fmt rules hb g1 g2
  rw [hfirst] at h
  unfold firstMatch at h
  rw [List.findSome?_append, List.findSome?_map]
  have : ((fun look : Nat → Nat → Option V => look g1 g2) ∘ fun t : PairPos1 V => t.lookup) =
      fun t => t.lookup g1 g2 := rfl
  rw [this, h]
  rfl

/-- no rule for a pair: the glyph-pair subtables yield nothing (the lookup falls through) -/
theorem glyph_pair_no_rule_nothing {V : Type} (fmt : V → Nat) (rules : List ((Nat × Nat) × V))
    (hb : ∀ r ∈ rules, r.1.1 < 65536) (g1 g2 : Nat) (hno : ∀ r ∈ rules, r.1 ≠ (g1, g2)) :
    firstMatch (buildGlyphPairs fmt (GlyphPairs.ofRules rules)) g1 g2 = none := by
  rw [glyph_pair_first_rule_wins fmt rules hb g1 g2]
  have : rules.find? (fun r => r.1.1 == g1 && r.1.2 == g2) = none := by
    rw [List.find?_eq_none]
    intro r hr hk
    simp only [Bool.and_eq_true, beq_iff_eq] at hk
    exact hno r hr (Prod.ext hk.1 hk.2)
  rw [this]; rfl

/-! ## PairPos format 2 splitting -/

/-- **ppf2_split_preserves.**  Take ANY PairPos format 2 subtable with a well-formed coverage table
(any two class definitions, any class1 × class2 matrix — also one whose class definition 1 names
classes beyond the matrix) and ANY non-decreasing list of split points ending with the class-1
count.  `split_off_ppf2` rebuilds, for each class range, a coverage table (through
`CoverageTableBuilder`) and a class definition 1 (through `ClassDef: FromIterator`, classes shifted
down, the first class of each range becoming the implicit class 0).  For EVERY glyph pair the
first-match lookup over the new subtables equals the lookup in the unsplit subtable — the same
matrix cell, or no match. -/
theorem ppf2_split_preserves {V : Type} (t : PairPos2 V) (hwf : t.cov.WF) (pts : List Nat)
    (hinc : pts.Pairwise (· ≤ ·)) (hlast : pts.getLast? = some t.rows.length) :
    ∃ ts, splitPpf2Go t 0 pts = some ts ∧ ts.length = pts.length ∧
      ∀ g1 g2, firstMatch2 ts g1 g2 = t.lookup g1 g2 := by
  have hl := lastOr_of_getLast? pts 0 _ hlast
  have hpw : (0 :: pts).Pairwise (· ≤ ·) := List.pairwise_cons.mpr ⟨fun _ _ => Nat.zero_le _, hinc⟩
  have key := fun g1 g2 => splitLoop_findSome (splitOffPpf2 t) (fun a => a.lookup g1 g2)
    (fun lo hi => t.lookupIn lo hi g1 g2)
    (fun lo hi h => splitOffPpf2_lookup t hwf g1 g2 h)
    (fun lo mid hi h1 h2 => by
      rw [PairPos2.lookupIn_split t g1 g2 h1 h2]; cases t.lookupIn lo mid g1 g2 <;> rfl)
    (fun lo => PairPos2.lookupIn_empty t g1 g2 lo) pts 0 hpw
  obtain ⟨ts, a, b, _⟩ := key 0 0
  refine ⟨ts, a, b, fun g1 g2 => ?_⟩
  obtain ⟨ts', a', _, c'⟩ := key g1 g2
  rw [a] at a'; cases a'
  unfold firstMatch2
  rw [c', hl, PairPos2.lookupIn_full]

/-- **ppf2_points_valid.**  The split points the size heuristic of `split_pair_pos_format_2`
computes (any coverage / class assignment / record and class-definition sizes) are strictly
increasing, never exceed the class-1 count, and end with the class-1 count. -/
theorem ppf2_points_valid (gc : List (Nat × Nat)) (class1Count recSize cd2Size : Nat)
    (pts : List Nat) (h : ppf2SplitPoints gc class1Count recSize cd2Size = some pts) :
    pts.Pairwise (· < ·) ∧ pts.getLast? = some class1Count ∧ ∀ p ∈ pts, p ≤ class1Count := by
  unfold ppf2SplitPoints at h
  have inv := ppf2_fold_inv ⟨gc⟩ recSize cd2Size class1Count
  simp only at h inv
  generalize (List.range class1Count).foldl (ppf2Step ⟨gc⟩ recSize cd2Size) ⟨16, 4, 4, []⟩ = st at h inv
  split at h
  · cases h
  · cases h
    refine ⟨?_, by simp, ?_⟩
    · rw [List.pairwise_append]
      refine ⟨List.pairwise_reverse.mpr (inv.1.imp (fun h => h)), by simp, ?_⟩
      intro a ha b hb
      simp at hb; subst hb
      exact inv.2 a (List.mem_reverse.mp ha)
    · intro p hp
      rcases List.mem_append.mp hp with hp | hp
      · exact Nat.le_of_lt (inv.2 p (List.mem_reverse.mp hp))
      · simp at hp; omega

/-- **ppf2_split_heuristic_preserves.**  With the split points the real heuristic computes, splitting
a PairPos format 2 subtable whose matrix has one row per class-1 value preserves every pair
lookup. -/
theorem ppf2_split_heuristic_preserves {V : Type} (t : PairPos2 V) (hwf : t.cov.WF)
    (gc : List (Nat × Nat)) (recSize cd2Size : Nat) (pts : List Nat)
    (h : ppf2SplitPoints gc t.rows.length recSize cd2Size = some pts) :
    ∃ ts, splitPpf2Go t 0 pts = some ts ∧ ∀ g1 g2, firstMatch2 ts g1 g2 = t.lookup g1 g2 := by
  have ⟨pw, hl, _⟩ := ppf2_points_valid gc _ recSize cd2Size pts h
  obtain ⟨ts, a, _, c⟩ := ppf2_split_preserves t hwf pts (pw.imp (fun h => Nat.le_of_lt h)) hl
  exact ⟨ts, a, c⟩

/-- **ppf2_split_preserves_devices.**  The same at the level of the packing graph, where a value
record is its scalar fields plus four device / variation-index offset slots and the subtable's
`offsets` list names the linked objects in writing order (coverage, class definition 1, class
definition 2, then every NON-NULL device offset, row-major, value record 1 before value record 2).
Take ANY such subtable (any per-record pattern of null / non-null device offsets, any object ids —
also repeated ones, i.e. shared device tables) whose offset list has an entry for every non-null
device offset, and ANY non-decreasing split points ending with the class-1 count.  The record loop of
`split_off_ppf2` (`first_device_idx + seen_offsets`, re-slicing the offset list before each of the
two value records, `copy_value_rec` indexing the slice by its own running count, `next_device_offset
+= offsets_used` between subtables) never indexes out of bounds, and for EVERY glyph pair the
first-match lookup over the new subtables yields the SAME two value records as the unsplit subtable:
the same scalar fields and, in each of the eight device slots, a link to the same object (or null). -/
theorem ppf2_split_preserves_devices {S : Type} (t : PairPos2G S) (hcov : t.tbl.cov.WF) (hwf : t.WF)
    (pts : List Nat) (hinc : pts.Pairwise (· ≤ ·)) (hlast : pts.getLast? = some t.tbl.rows.length) :
    ∃ ts, splitPpf2GGo t 0 3 pts = some ts ∧ ts.length = pts.length ∧
      ∀ g1 g2, firstMatch2 ts g1 g2 = t.resolved.lookup g1 g2 := by
  have hpw : (0 :: pts).Pairwise (· ≤ ·) := List.pairwise_cons.mpr ⟨fun _ _ => Nat.zero_le _, hinc⟩
  have hlen : t.resolved.rows.length = t.tbl.rows.length := resolveRows_length _ _ _
  have h := ppf2_split_preserves t.resolved hcov pts hinc (by rw [hlen]; exact hlast)
  have e := splitPpf2GGo_eq t hwf pts 0 hpw
  simp only [List.take_zero, rowsDevs, List.map_nil, List.sum_nil, Nat.add_zero] at e
  rw [e]
  exact h

/-- **ppf1_split_preserves_devices.**  PairPos format 1: the split re-links whole pair-set objects
(`split_off_ppf1` copies `data.offsets[1 + start..]`), value records and their device tables are
never rewritten; so with value records that carry device links (`DevVR × DevVR`) every pair keeps
both records including all eight device slots.  (Instance of `ppf1_split_preserves`.) -/
theorem ppf1_split_preserves_devices {S : Type} (t : PairPos1 (DevVR S × DevVR S)) (hwf : t.cov.WF)
    (hlen : t.pairSets.length = t.cov.glyphs.length) (pts : List Nat)
    (hinc : pts.Pairwise (· ≤ ·)) (hlast : pts.getLast? = some t.pairSets.length) :
    ∃ ts, splitPpf1Go t 0 pts = some ts ∧ ts.length = pts.length ∧
      ∀ g1 g2, firstMatch ts g1 g2 = t.lookup g1 g2 :=
  ppf1_split_preserves t hwf hlen pts hinc hlast

/-! ## MarkBasePos splitting -/

/-- **markbase_split_preserves.**  Take ANY MarkBasePos subtable with a well-formed mark coverage
table, one mark record per covered mark, base records with one optional anchor per mark class, and
ANY non-decreasing list of split points ending with the mark class count.  `split_off_mark_pos`
filters the mark coverage and the mark array by class range (re-numbering the classes from 0) and
prunes every base record to that class range.  For EVERY (mark, base) pair the first-match lookup
over the new subtables yields exactly the (mark anchor, base anchor) pair of the unsplit subtable,
and nothing where the unsplit subtable had no anchor. -/
theorem markbase_split_preserves {A : Type} (t : MarkBase A) (hwf : t.markCov.WF)
    (hlen : t.marks.length = t.markCov.glyphs.length)
    (hrows : ∀ row ∈ t.bases, row.length = t.classCount) (pts : List Nat)
    (hinc : pts.Pairwise (· ≤ ·)) (hlast : pts.getLast? = some t.classCount) :
    ∃ ts, splitMarkBaseGo t 0 pts = some ts ∧ ts.length = pts.length ∧
      ∀ m b, firstMatchMB ts m b = t.lookup m b := by
  have hl := lastOr_of_getLast? pts 0 _ hlast
  have hpw : (0 :: pts).Pairwise (· ≤ ·) := List.pairwise_cons.mpr ⟨fun _ _ => Nat.zero_le _, hinc⟩
  have key := fun m b => splitLoop_findSome (splitOffMarkBase t) (fun a => a.lookup m b)
    (fun lo hi => t.lookupIn lo hi m b)
    (fun lo hi h => splitOffMarkBase_lookup t hwf hlen m b h)
    (fun lo mid hi h1 h2 => by
      rw [MarkBase.lookupIn_split t m b h1 h2]; cases t.lookupIn lo mid m b <;> rfl)
    (fun lo => MarkBase.lookupIn_empty t m b lo) pts 0 hpw
  obtain ⟨ts, a, b, _⟩ := key 0 0
  refine ⟨ts, a, b, fun m b' => ?_⟩
  obtain ⟨ts', a', _, c'⟩ := key m b'
  rw [a] at a'; cases a'
  unfold firstMatchMB
  rw [c', hl, MarkBase.lookupIn_full t (fun row hr => Nat.le_of_eq (hrows row hr))]

/-! ## non-vacuity: the hypotheses are satisfiable and the functions compute -/

example : buildCoverage [5, 3, 9, 3] = .fmt1 [3, 5, 9] := by decide
example : buildCoverage [1, 2, 3, 4, 5, 6, 7, 9] = .fmt2 [⟨1, 7, 0⟩, ⟨9, 9, 7⟩] := by decide
example : (buildCoverage [1, 2, 3, 4, 5, 6, 7, 9]).get 9 = some 7 ∧
    (buildCoverage [1, 2, 3, 4, 5, 6, 7, 9]).get 8 = none := by decide +kernel
example : (buildCoverage [65535, 0]).get 65535 = some 1 := by decide +kernel
example : buildClassDef [(3, 4), (4, 6), (5, 1), (9, 5), (10, 2), (11, 3)] =
    .fmt1 3 [4, 6, 1, 0, 0, 0, 5, 2, 3] := by decide
example : buildClassDef [(1, 1), (2, 1), (3, 1), (7, 2), (7, 0)] = .fmt2 [⟨1, 3, 1⟩, ⟨7, 7, 2⟩] := by
  decide
example : (buildClassDef [(1, 1), (2, 1), (3, 1), (7, 2)]).get 7 = 2 ∧
    (buildClassDef [(1, 1), (2, 1), (3, 1), (7, 2)]).get 4 = 0 := by decide +kernel
example : (Coverage.fmt2 [⟨1, 4, 0⟩, ⟨9, 9, 4⟩]).WF := by
  refine ⟨⟨by decide, rfl, ?_, ⟨by decide, rfl, ?_, trivial⟩⟩, ?_⟩ <;> simp
example : splitCoverage (.fmt2 [⟨1, 4, 0⟩, ⟨9, 12, 4⟩]) 2 6 = some (.fmt2 [⟨3, 4, 0⟩, ⟨9, 10, 2⟩]) := by
  decide
example : splitCoverage (.fmt1 [3, 5, 9, 11]) 1 3 = some (.fmt1 [5, 9]) := by decide
/-- a split that satisfies every hypothesis of `ppf1_split_preserves` -/
example :
    let t : PairPos1 Nat := ⟨.fmt2 [⟨1, 4, 0⟩], [[(7, 70)], [(7, 71)], [(8, 72)], [(9, 73)]]⟩
    [1, 3, 4].Pairwise (· ≤ ·) ∧ [1, 3, 4].getLast? = some t.pairSets.length ∧
    (splitPpf1Go t 0 [1, 3, 4]).map (·.map (·.cov)) =
      some [.fmt2 [⟨1, 1, 0⟩], .fmt2 [⟨2, 3, 0⟩], .fmt2 [⟨4, 4, 0⟩]] ∧
    ((splitPpf1Go t 0 [1, 3, 4]).map (fun ts => firstMatch ts 3 8)) = some (some 72) := by
  decide +kernel
/-- the heuristic does produce split points (three 30 000-byte pair sets) -/
example : ppf1SplitPoints 100 [(1, 30000), (2, 30000), (3, 30000)] = some [2, 3] := by decide
example : ppf1SplitPoints 100 [(1, 30000), (2, 30000)] = none := by decide
/-- a MarkBasePos split: marks 20,21,22 of classes 1,0,1; bases 5,6; split at class 1 -/
def exMarkBase : MarkBase Nat :=
  ⟨.fmt1 [20, 21, 22], .fmt1 [5, 6], 2, [(1, 201), (0, 210), (1, 221)],
    [[some 50, some 51], [none, some 61]]⟩
example : (splitMarkBaseGo exMarkBase 0 [1, 2]).map (·.map (·.markCov)) =
    some [.fmt1 [21], .fmt1 [20, 22]] := by decide +kernel
example : (splitMarkBaseGo exMarkBase 0 [1, 2]).map (·.map (·.marks)) =
    some [[(0, 210)], [(0, 201), (0, 221)]] := by decide +kernel
example : (splitMarkBaseGo exMarkBase 0 [1, 2]).map (·.map (·.bases)) =
    some [[[some 50], [none]], [[some 51], [some 61]]] := by decide +kernel
example : (splitMarkBaseGo exMarkBase 0 [1, 2]).map (fun ts => firstMatchMB ts 22 6) =
    some (some (221, 61)) := by decide +kernel
example : (splitMarkBaseGo exMarkBase 0 [1, 2]).map (fun ts => firstMatchMB ts 21 6) =
    some none := by decide +kernel
/-- a builder run: two classes, the larger one gets the smaller id -/
example : (((⟨[], false⟩ : ClassDefBuilder).checkedAdd [7]).1.checkedAdd [3, 4]).1.buildWithMapping =
    (.fmt2 [⟨3, 4, 1⟩, ⟨7, 7, 2⟩], [([3, 4], 1), ([7], 2)]) := by decide
/-- the format 2 heuristic does produce split points: 3 classes with 30000-byte rows -/
example : ppf2SplitPoints [(1, 0), (2, 1), (3, 1), (4, 2)] 3 30000 10 = some [2, 3] := by decide
/-- a PairPos format 2 split: glyphs 1..4 with classes 0,1,1,2; rows split at class 1 -/
example :
    let t : PairPos2 Nat := ⟨.fmt1 [1, 2, 3, 4], .fmt2 [⟨2, 3, 1⟩, ⟨4, 4, 2⟩], .fmt2 [⟨7, 7, 1⟩],
      [[0, 10], [0, 11], [0, 12]]⟩
    (splitPpf2Go t 0 [1, 3]).map (·.map (fun s => (s.cov, s.classDef1, s.rows))) =
      some [(.fmt1 [1], .fmt2 [], [[0, 10]]),
            (.fmt1 [2, 3, 4], .fmt1 4 [1], [[0, 11], [0, 12]])] := by
  decide +kernel
/-- `pos A V 0; pos A V 7; pos A W 5;` (value = (format key, amount)): the explicit zero is the
first rule for (10, 20) and is what the compiled glyph subtables answer; hypotheses satisfiable -/
example :
    firstMatch (buildGlyphPairs (·.1) (GlyphPairs.ofRules [((10, 20), (4, 0)), ((10, 20), (4, 7)), ((10, 21), (5, 5))]))
      10 20 = some (4, 0) := by
  rw [glyph_pair_first_rule_wins _ _ (by decide)]; decide
example : GlyphPairs.ofRules [((10, 20), (4, 0)), ((10, 20), (4, 7)), ((10, 21), (5, 5))] =
    [((10, 20), (4, 0)), ((10, 21), (5, 5))] := by decide
/-- a graph-level PairPos format 2 split with device offsets: 3 class-1 records × 2 class-2 records;
record 1 / record 2 device patterns differ per cell, object ids 101.. in writing order, one object
(104) shared.  All hypotheses of `ppf2_split_preserves_devices` hold, and e.g. the cell (class 1,
class 1) keeps x_placement_device → 104 in record 1 and y_advance_device → 105 in record 2. -/
def exPpf2G : PairPos2G Nat :=
  ⟨⟨.fmt1 [1, 2, 3, 4], .fmt2 [⟨2, 3, 1⟩, ⟨4, 4, 2⟩], .fmt2 [⟨7, 7, 1⟩],
    [[(⟨10, [true, false, true, false]⟩, ⟨11, [false, true, false, false]⟩),
      (⟨12, [false, false, false, false]⟩, ⟨13, [false, false, false, false]⟩)],
     [(⟨20, [false, false, false, false]⟩, ⟨21, [true, false, false, false]⟩),
      (⟨22, [true, false, false, false]⟩, ⟨23, [false, false, false, true]⟩)],
     [(⟨30, [true, true, true, true]⟩, ⟨31, [true, true, true, true]⟩),
      (⟨32, [false, false, false, false]⟩, ⟨33, [false, false, true, false]⟩)]]⟩,
   [1, 2, 3, 101, 102, 103, 104, 104, 105, 106, 107, 108, 109, 110, 111, 112, 113, 114]⟩
example : exPpf2G.WF ∧ [1, 3].Pairwise (· ≤ ·) ∧ [1, 3].getLast? = some exPpf2G.tbl.rows.length :=
  ⟨by unfold PairPos2G.WF; decide, by decide, by decide⟩
example : (splitPpf2GGo exPpf2G 0 3 [1, 3]).map (fun ts => firstMatch2 ts 3 7) =
    some (some (⟨22, [some 104, none, none, none]⟩, ⟨23, [none, none, none, some 105]⟩)) := by
  decide +kernel
example : (splitPpf2GGo exPpf2G 0 3 [1, 3]).map (fun ts => firstMatch2 ts 4 9) =
    some (some (⟨30, [some 106, some 107, some 108, some 109]⟩,
                ⟨31, [some 110, some 111, some 112, some 113]⟩)) := by
  decide +kernel
/-- an offset list that is too short is an index panic in `copy_value_rec`, not a wrong link -/
example : splitPpf2GGo (⟨exPpf2G.tbl, [1, 2, 3, 101]⟩ : PairPos2G Nat) 0 3 [1, 3] = none := by
  decide +kernel
/-- a first pair set above 64 KiB makes the heuristic emit the split point 0 … -/
example : ppf1SplitPoints 10 [(1, 65602), (2, 65602), (3, 22)] = some [0, 1, 2, 3] := by decide
/-- … and the empty range is split off without a trap in both formats -/
example : splitCoverage (.fmt2 [⟨10, 16, 0⟩]) 0 0 = some (.fmt2 []) ∧
    splitCoverage (.fmt1 [10, 12]) 0 0 = some (.fmt1 []) := by decide

end FontVerif.C16
