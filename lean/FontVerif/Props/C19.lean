/-
C19 — IFT patch selection follows the specified intersection and grouping rules.
Property theorems only (helper lemmas: Lemmas/PatchMap.lean, Lemmas/PatchGroup.lean).
Models: Model/PatchMap.lean + Model/PatchMapDecode.lean ⇄ incremental-font-transfer/src/patchmap.rs,
        Model/UriTemplate.lean ⇄ uri_templates.rs, Model/PatchGroup.lean ⇄ patch_group.rs.

Vocabulary (defined in Lemmas/PatchMap.lean):
* `SubsetDef.le d d'` — the definition grows: codepoint set ⊆, feature set ⊆ (everything ≤ All),
  design space axis-by-axis ⊆ (everything ≤ All);
* `SpecLocal e d` / `SpecMatch es d i` — the declarative IFT rule "check entry intersection"
  (members of sets, empty-means-wildcard; conjunctive / disjunctive child entries) as an inductive
  relation, with no reference to the cache or to evaluation order;
* `WF es` — child indices refer to prior entries (guaranteed by decoding: `decoded_entries_wf`).
For format 2 the "applied" bit of an entry *is* its ignored flag (glyph_keyed.rs sets bit 6 of the
entry's format flags), so "un-applied, un-ignored" is `ignored = false`.
-/
import FontVerif.Lemmas.PatchMap
import FontVerif.Lemmas.PatchGroup
import FontVerif.Lemmas.PatchMapF1
set_option linter.unusedVariables false
namespace FontVerif.C19
open FontVerif FontVerif.PatchMap FontVerif.PatchGroup FontVerif.UriTemplate

/-- an offered uri without the recorded intersection size (which legitimately depends on the
definition): template, id, format, source table, compat id, application bit -/
abbrev stripInfo (u : PatchUri) : PatchUri := u.strip

/-! ## (1) monotonicity and containment in the all-inclusive definition -/

/-- **entry_intersects_monotone.**  `Entry::intersects` stays true when the subset definition
grows in any of its three dimensions (with the empty-means-wildcard and `All` rules). -/
theorem entry_intersects_monotone (e d d' : SubsetDef) (hle : SubsetDef.le d d')
    (h : localIntersects e d = true) : localIntersects e d' = true :=
  localIntersects_mono e d d' hle h

/-- **entry_intersects_all.**  An entry that intersects *some* definition (over `u32` codepoints)
intersects `SubsetDefinition::all()`. -/
theorem entry_intersects_all (e d : SubsetDef) (hd : d.cpsInDomain)
    (h : localIntersects e d = true) : localIntersects e SubsetDef.allDef = true :=
  localIntersects_mono e d _ (SubsetDef.le_all d hd) h

/-- **offered_monotone.**  For every format-2 entry list (any child structure, conjunctive or
disjunctive, any ignored flags): the set of offered entries only grows when the definition grows. -/
theorem offered_monotone (es : List Entry) (d d' : SubsetDef) (hle : SubsetDef.le d d') (i : Nat)
    (h : i ∈ offeredIdx es d) : i ∈ offeredIdx es d' := by
  rw [mem_offeredIdx] at h ⊢
  exact ⟨h.1, h.2.1, evalAll_mono es d d' hle i h.2.2⟩

/-- **offered_subset_all.**  Whatever is offered for some definition is offered for the
all-inclusive definition. -/
theorem offered_subset_all (es : List Entry) (d : SubsetDef) (hd : d.cpsInDomain) (i : Nat)
    (h : i ∈ offeredIdx es d) : i ∈ offeredIdx es SubsetDef.allDef :=
  offered_monotone es d _ (SubsetDef.le_all d hd) i h

/-- **table_offer_monotone.**  The same at the level of a format-2 mapping table
(`add_intersecting_format2_patches` after `decode_format2_entries`): decoding does not depend on
the definition, so the call succeeds for `d'` iff it does for `d`, and every uri offered for `d` is
offered for `d'` with identical template / id / format / table / compat id / application bit. -/
theorem table_offer_monotone (tag : TableTag) (t : F2Table) (d d' : SubsetDef)
    (hle : SubsetDef.le d d') (us : List PatchUri) (h : intersectF2 tag t d = .ok us) :
    ∃ us', intersectF2 tag t d' = .ok us' ∧
      ∀ u, u ∈ us → ∃ u', u' ∈ us' ∧ stripInfo u' = stripInfo u := by
  unfold intersectF2 at h ⊢
  split at h
  · cases h
  · next es hes =>
    cases h
    refine ⟨offeredF2 es d', rfl, ?_⟩
    intro u hu
    simp only [offeredF2, List.mem_map] at hu ⊢
    obtain ⟨i, hi, rfl⟩ := hu
    refine ⟨_, ⟨i, offered_monotone es d d' hle i hi, rfl⟩, ?_⟩
    simp only [stripInfo, offeredUri]
    split <;> rfl

/-- **table_offer_subset_all.** -/
theorem table_offer_subset_all (tag : TableTag) (t : F2Table) (d : SubsetDef) (hd : d.cpsInDomain)
    (us : List PatchUri) (h : intersectF2 tag t d = .ok us) :
    ∃ us', intersectF2 tag t SubsetDef.allDef = .ok us' ∧
      ∀ u, u ∈ us → ∃ u', u' ∈ us' ∧ stripInfo u' = stripInfo u :=
  table_offer_monotone tag t d _ (SubsetDef.le_all d hd) us h

/-! ## (2) the offered set is exactly what the IFT rules say -/

/-- **decoded_entries_wf.**  Whenever `decode_format2_entries` succeeds, every child index refers
to a prior entry, and every entry's uri carries the tag and compat id of its table. -/
theorem decoded_entries_wf (tag : TableTag) (t : F2Table) (es : List Entry)
    (h : decodeF2 tag t = .ok es) : WF es ∧ FromTable tag t.compat es :=
  decodeF2_inv h

/-- **entry_intersects_spec.**  `Entry::intersects` decides the declarative per-dimension rule. -/
theorem entry_intersects_spec (e d : SubsetDef) : localIntersects e d = true ↔ SpecLocal e d :=
  localIntersects_iff_spec e d

/-- **offered_exact.**  On a well-formed entry list, entry `i` is offered **iff** it exists, is not
ignored (= not applied), and matches the definition in the declarative sense (own conditions and
child-entry conditions).  Ignored entries still count as children of later entries. -/
theorem offered_exact (es : List Entry) (d : SubsetDef) (wf : WF es) (i : Nat) :
    i ∈ offeredIdx es d ↔ ∃ e, es[i]? = some e ∧ e.ignored = false ∧ SpecMatch es d i := by
  rw [mem_offeredIdx, evalAll_iff_spec es d wf i]
  constructor
  · rintro ⟨hi, hig, hs⟩
    refine ⟨es[i], List.getElem?_eq_getElem hi, ?_, hs⟩
    simpa [List.getD_eq_getElem?_getD, List.getElem?_eq_getElem hi] using hig
  · rintro ⟨e, he, hig, hs⟩
    obtain ⟨hi, rfl⟩ := List.getElem?_eq_some_iff.1 he
    refine ⟨hi, ?_, hs⟩
    simpa [List.getD_eq_getElem?_getD, List.getElem?_eq_getElem hi] using hig

/-- **offered_order.**  Offered entries are listed once each, in entry order. -/
theorem offered_order (es : List Entry) (d : SubsetDef) :
    (offeredIdx es d).Pairwise (· < ·) := by
  unfold offeredIdx
  exact List.Pairwise.sublist List.filter_sublist List.pairwise_lt_range

/-- **table_offer_exact.**  For a format-2 table: a successful `add_intersecting_format2_patches`
returns, in entry order and once each, exactly the uris of the decoded entries that are not
ignored/applied and match declaratively; each uri is the entry's own (only the intersection info of
invalidating formats is filled in). -/
theorem table_offer_exact (tag : TableTag) (t : F2Table) (d : SubsetDef) (us : List PatchUri)
    (h : intersectF2 tag t d = .ok us) :
    ∃ (es : List Entry) (idx : List Nat), decodeF2 tag t = .ok es ∧ idx.Pairwise (· < ·) ∧
      (∀ i, i ∈ idx ↔ ∃ e, es[i]? = some e ∧ e.ignored = false ∧ SpecMatch es d i) ∧
      us = idx.map (fun i => offeredUri d i (es.getD i default)) ∧
      ∀ i, stripInfo (offeredUri d i (es.getD i default)) = stripInfo (es.getD i default).uri := by
  unfold intersectF2 at h
  split at h
  · cases h
  · next es hes =>
    cases h
    refine ⟨es, offeredIdx es d, hes, offered_order es d,
      fun i => offered_exact es d (decodeF2_inv hes).1 i, rfl, ?_⟩
    intro i
    simp only [stripInfo, offeredUri]
    split <;> rfl

/-! ## (1b, 2b) format 1 and whole fonts

`FeatureSet.sorted`: the explicit tag list is strictly ascending (how `BTreeSet<Tag>` iterates).
`glyphKey t pairs k`: some requested (codepoint, glyph) pair maps to entry `k` through the glyph map
(entry 0 below `first_mapped_glyph`, else `entry_index[gid - first]` if ≤ `max_glyph_map_entry_index`).
`fires t G r cum i k`: entry-map record `i` of feature record `r` is valid, its range
`first..=last` contains an entry of `G`, and it names entry `k = first_new_entry_index + i`. -/

/-- **feature_records_used.**  Closed form of the two-pointer loop over requested tags × feature
records: a feature record is used **iff** its tag is requested and strictly larger than the tags
of all records before it (the specification's "sorted; out-of-order and duplicate records are
skipped"); `cum` is the number of entry-map records before it.  Same for "all features". -/
theorem feature_records_used (tags : List Nat) (hs : tags.Pairwise (· < ·)) (recs : List FeatRec) :
    featLoopSet tags recs 0 none = recHigh (fun x => decide (x ∈ tags)) recs 0 none ∧
    featLoopAll recs 0 none = recHigh (fun _ => true) recs 0 none := by
  refine ⟨featLoopSet_eq tags recs 0 none none ?_, featLoopAll_eq recs 0 none⟩
  constructor
  · exact hs
  · intro _ _ m hm; cases hm
  · intro _ _ l hl; cases hl
  · intro _ _ _; constructor <;> intro h <;> cases h

/-- **format1_offer_exact.**  A successful `add_intersecting_format1_patches` offers **exactly**
the entries `k` with `k > 0` (entry 0 = already in the font), application bit clear, that are either
glyph-map entries of a requested codepoint or are named by a firing entry-map record of a used
feature record; every offered uri is (template, id k, the table's format, bit = bitmap start·8 + k). -/
theorem format1_offer_exact (tag : TableTag) (t : F1Table) (d : SubsetDef) (us : List PatchUri)
    (h : intersectF1 tag t d = .ok us) :
    ∃ enc, PatchFormat.ofNumber t.patchFormat = some enc ∧
      (∀ u, u ∈ us → ∃ k,
        stripInfo u = { template := t.template, id := .num k, enc := enc, table := tag,
                        compat := t.compat, bit := t.bitmapStart * 8 + k,
                        info := IntersectionInfo.zero }) ∧
      ∀ k, (∃ u, u ∈ us ∧ u.id = .num k) ↔
        (k > 0 ∧ isEntryApplied t.bitmap k = false ∧
          let G := glyphKey t (t.cmap.filter fun (p : Nat × Nat) => rMem (p.1 : Int) d.cps)
          (G k ∨ (t.hasFeatureMap = true ∧ ∃ q, q ∈ selectedRecs t d.feats ∧
              ∃ i, i ∈ List.range q.1.count ∧ fires t G q.1 q.2 i k))) := by
  obtain ⟨enc, gm, entries, henc, hgm, hent, hus⟩ := intersectF1_ok h
  refine ⟨enc, henc, ?_, ?_⟩
  · intro u hu
    obtain ⟨p, _, _, _, hstrip, _⟩ := (hus u).1 hu
    exact ⟨p.1, hstrip⟩
  intro k
  have hG : ∀ k, hasKey gm k ↔ glyphKey t (t.cmap.filter fun (p : Nat × Nat) => rMem (p.1 : Int) d.cps) k := by
    intro k
    rw [glyphMapLoop_keys t _ _ [] gm hgm k]
    simp [hasKey]
  have hfire : ∀ (q : FeatRec × Nat) (i : Nat), fires t (hasKey gm) q.1 q.2 i k ↔
      fires t (glyphKey t (t.cmap.filter fun (p : Nat × Nat) => rMem (p.1 : Int) d.cps)) q.1 q.2 i k :=
    fun q i => ⟨fires_mono t (fun k hk => (hG k).1 hk) _ _ _ _, fires_mono t (fun k hk => (hG k).2 hk) _ _ _ _⟩
  have hkeys := featureMap_keys t _ _ gm entries hent k
  simp only []
  constructor
  · rintro ⟨u, hu, hid⟩
    obtain ⟨p, hp, hp0, hpa, hstrip, _⟩ := (hus u).1 hu
    have hk : p.1 = k := by
      have := congrArg PatchUri.id hstrip
      simp only [PatchUri.strip] at this
      rw [hid] at this
      cases this; rfl
    subst hk
    refine ⟨hp0, hpa, ?_⟩
    rcases hkeys.1 ⟨p, hp, rfl⟩ with hk | ⟨hfm, q, hq, i, hi, hf⟩
    · exact Or.inl ((hG _).1 hk)
    · exact Or.inr ⟨hfm, q, hq, i, hi, (hfire q i).1 hf⟩
  · rintro ⟨hk0, hka, hcond⟩
    have : hasKey entries k := by
      apply hkeys.2
      rcases hcond with hk | ⟨hfm, q, hq, i, hi, hf⟩
      · exact Or.inl ((hG _).2 hk)
      · exact Or.inr ⟨hfm, q, hq, i, hi, (hfire q i).2 hf⟩
    obtain ⟨p, hp, rfl⟩ := this
    let u : PatchUri :=
      { template := t.template, id := .num p.1, enc := enc, table := tag, compat := t.compat,
        bit := t.bitmapStart * 8 + p.1,
        info := if enc.isInvalidating then IntersectionInfo.fromSubset p.2 p.1
                else IntersectionInfo.zero }
    exact ⟨u, (hus u).2 ⟨p, hp, hk0, hka, rfl, rfl⟩, rfl⟩

/-- **format1_offer_monotone.**  Format 1: when the definition grows (codepoints, features) and
both calls succeed, every offered entry stays offered.  (A larger definition may *fail* where the
smaller one succeeds: a requested codepoint whose glyph is beyond the glyph map is `OutOfBounds`.) -/
theorem format1_offer_monotone (tag : TableTag) (t : F1Table) (d d' : SubsetDef)
    (hle : SubsetDef.le d d') (hs : d.feats.sorted) (hs' : d'.feats.sorted)
    (us us' : List PatchUri) (h : intersectF1 tag t d = .ok us) (h' : intersectF1 tag t d' = .ok us') :
    ∀ u, u ∈ us → ∃ u', u' ∈ us' ∧ stripInfo u' = stripInfo u :=
  intersectF1_mono tag t d d' hle hs hs' us us' h h'

/-- **font_offer_monotone.**  `intersecting_patches` on a whole font (each of 'IFT ' / 'IFTX'
absent, format 1 or format 2, any contents): if it succeeds for `d` and for a larger `d'`, every
uri offered for `d` is offered for `d'` (same template / id / format / table / compat id /
application bit). -/
theorem font_offer_monotone (ift iftx : MapTable) (d d' : SubsetDef) (hle : SubsetDef.le d d')
    (hs : d.feats.sorted) (hs' : d'.feats.sorted) (us us' : List PatchUri)
    (h : intersectingPatches ift iftx d = .ok us) (h' : intersectingPatches ift iftx d' = .ok us') :
    ∀ u, u ∈ us → ∃ u', u' ∈ us' ∧ stripInfo u' = stripInfo u := by
  have htab : ∀ (tag : TableTag) (m : MapTable) (a a' : List PatchUri),
      intersectTable tag d m = .ok a → intersectTable tag d' m = .ok a' →
      ∀ u, u ∈ a → ∃ u', u' ∈ a' ∧ stripInfo u' = stripInfo u := by
    intro tag m a a' ha ha'
    cases m with
    | none => simp only [intersectTable] at ha; cases ha; intro u hu; cases hu
    | f1 t => exact intersectF1_mono tag t d d' hle hs hs' a a' ha ha'
    | f2 t =>
      obtain ⟨a'', h1, h2⟩ := table_offer_monotone tag t d d' hle a ha
      simp only [intersectTable] at ha'
      rw [h1] at ha'; cases ha'
      exact h2
  unfold intersectingPatches at h h'
  split at h
  · cases h
  · next a ha =>
    split at h
    · cases h
    · next b hb =>
      cases h
      split at h'
      · cases h'
      · next a' ha' =>
        split at h'
        · cases h'
        · next b' hb' =>
          cases h'
          intro u hu
          rcases List.mem_append.1 hu with hu | hu
          · obtain ⟨u', hu', he⟩ := htab .ift ift a a' ha ha' u hu
            exact ⟨u', List.mem_append_left _ hu', he⟩
          · obtain ⟨u', hu', he⟩ := htab .iftx iftx b b' hb hb' u hu
            exact ⟨u', List.mem_append_right _ hu', he⟩

/-- **font_offer_subset_all.**  … and is contained in the offer for `SubsetDefinition::all()`. -/
theorem font_offer_subset_all (ift iftx : MapTable) (d : SubsetDef) (hd : d.cpsInDomain)
    (hs : d.feats.sorted) (us us' : List PatchUri)
    (h : intersectingPatches ift iftx d = .ok us)
    (h' : intersectingPatches ift iftx SubsetDef.allDef = .ok us') :
    ∀ u, u ∈ us → ∃ u', u' ∈ us' ∧ stripInfo u' = stripInfo u :=
  font_offer_monotone ift iftx d _ (SubsetDef.le_all d hd) hs trivial us us' h h'

/-! ## (3) the selected group

`selectFromCandidates cands iftId iftxId` is `select_next_patches_from_candidates`; `iftId` /
`iftxId` are the compatibility ids of the font's 'IFT ' / 'IFTX' tables (`select_next_patches`
refuses fonts where they coincide, so a compat id identifies a mapping table).
`infoLt a b` (Lemmas/PatchGroup.lean) is the strict selection order: `a` has a strictly smaller
intersection than `b` (codepoints, then layout tags, then design space), or the same intersection
and a **later** entry order.  It is a strict total order (`infoLt_irrefl/trans/total`), and
`IntersectionInfo::cmp` decides it (`cmp_lt_iff`, `cmp_gt_iff`). -/

/-- **group_no_duplicate_uri.**  A selected group never contains the same uri twice (across the
invalidating and the non-invalidating patches of both tables). -/
theorem group_no_duplicate_uri (cands : List PatchUri) (iftId iftxId : Option Nat) (g : Group)
    (h : selectFromCandidates cands iftId iftxId = .ok g) : g.uris.Nodup :=
  group_no_duplicate_uri' h

/-- **full_is_alone.**  The group is a fully invalidating patch **iff** some candidate is fully
invalidating; and then the group consists of that single uri and nothing else. -/
theorem full_is_alone (cands : List PatchUri) (iftId iftxId : Option Nat) (g : Group)
    (h : selectFromCandidates cands iftId iftxId = .ok g) :
    ((∃ u, u ∈ cands ∧ u.enc = .tkFull) ↔ ∃ p, g = .full p) ∧
    ∀ p, g = .full p → g.uris = [p.uri] ∧ g.invalidating = [p] ∧ g.nonInvalidating = [] := by
  refine ⟨sel_full_iff h, ?_⟩
  rintro p rfl
  exact ⟨rfl, rfl, rfl⟩

/-- **at_most_one_invalidating_per_table.**  Without a fully invalidating candidate the group has
one slot per mapping table; a slot is either exactly one partially invalidating patch or a set of
non-invalidating patches, and everything in the first slot carries the 'IFT ' compat id, everything
in the second the (different) 'IFTX' compat id.  Hence at most two invalidating patches, never two
for the same table, and no non-invalidating patch of a table next to an invalidating one of it. -/
theorem at_most_one_invalidating_per_table (cands : List PatchUri) (iftId iftxId : Option Nat)
    (g : Group) (h : selectFromCandidates cands iftId iftxId = .ok g) :
    (∀ p q, p ∈ g.invalidating → q ∈ g.invalidating → p.compat = q.compat → p = q) ∧
    g.invalidating.length ≤ 2 ∧
    ∀ A B, g = .mixed A B →
      (∀ p, A = .partialInv p → some p.compat = iftId) ∧
      (∀ m, A = .noInv m → ∀ x, x ∈ m → some x.2.compat = iftId) ∧
      (∀ q, B = .partialInv q → some q.compat = iftxId ∧ some q.compat ≠ iftId) ∧
      (∀ m, B = .noInv m → ∀ x, x ∈ m → some x.2.compat = iftxId ∧ some x.2.compat ≠ iftId) := by
  refine ⟨?_, ?_, fun A B hg => sel_slots h A B hg⟩
  · intro p q hp hq hpq
    cases g with
    | full r =>
      simp only [Group.invalidating, List.mem_singleton] at hp hq
      rw [hp, hq]
    | mixed A B =>
      obtain ⟨hA, _, hB, _⟩ := sel_slots h A B rfl
      cases A with
      | partialInv a =>
        cases B with
        | partialInv b =>
          simp only [Group.invalidating, List.cons_append, List.nil_append, List.mem_cons,
            List.not_mem_nil, or_false] at hp hq
          have h1 := hA a rfl
          have h2 := (hB b rfl).2
          rcases hp with rfl | rfl <;> rcases hq with rfl | rfl
          · rfl
          · exact absurd (hpq ▸ h1) h2
          · exact absurd (hpq ▸ h1) h2
          · rfl
        | noInv m =>
          simp only [Group.invalidating, List.append_nil, List.mem_singleton] at hp hq
          rw [hp, hq]
      | noInv m =>
        cases B with
        | partialInv b =>
          simp only [Group.invalidating, List.nil_append, List.mem_singleton] at hp hq
          rw [hp, hq]
        | noInv m' => simp [Group.invalidating] at hp
  · cases g with
    | full r => simp [Group.invalidating]
    | mixed A B => cases A <;> cases B <;> simp [Group.invalidating]

/-- **invalidating_choice_is_max.**  Each invalidating patch in the group comes from a candidate
`u` of its class (fully invalidating: all tables; partially invalidating: its own table) such that
no competing candidate `v` is better: `¬ infoLt u.info v.info`, i.e. `v` neither has a strictly
larger intersection nor the same intersection with an earlier entry.  For the second table the
competitors exclude candidates expanding to the uri already chosen for the first table. -/
theorem invalidating_choice_is_max (cands : List PatchUri) (iftId iftxId : Option Nat) (g : Group)
    (h : selectFromCandidates cands iftId iftxId = .ok g) :
    (∀ p, g = .full p →
      ∃ u, u ∈ cands ∧ u.enc = .tkFull ∧ toPatchInfo u = some p ∧
        ∀ v, v ∈ cands → v.enc = .tkFull → ¬ infoLt u.info v.info) ∧
    (∀ p B, g = .mixed (.partialInv p) B →
      ∃ u, u ∈ cands ∧ u.enc = .tkPartial ∧ some u.compat = iftId ∧ toPatchInfo u = some p ∧
        ∀ v, v ∈ cands → v.enc = .tkPartial → some v.compat = iftId → ¬ infoLt u.info v.info) ∧
    (∀ A q, g = .mixed A (.partialInv q) →
      ∃ u, u ∈ cands ∧ u.enc = .tkPartial ∧ some u.compat ≠ iftId ∧ some u.compat = iftxId ∧
        toPatchInfo u = some q ∧
        ∀ v, v ∈ cands → v.enc = .tkPartial → some v.compat ≠ iftId → some v.compat = iftxId →
          (∀ p, A = .partialInv p → uriString v ≠ some p.uri) → ¬ infoLt u.info v.info) :=
  ⟨fun p hg => sel_full_max h p hg, fun p B hg => sel_partial_ift_max h p B hg,
   fun A q hg => sel_partial_iftx_max h q A hg⟩

/-- **selection_order_is_total.**  The order used for the choice is a lawful strict total order, so
"maximum" is meaningful: `Ord for IntersectionInfo` never reports `a < b` and `b < a`, is
transitive, and distinguishes any two different infos. -/
theorem selection_order_is_total (a b c : IntersectionInfo) :
    (a.cmp b = .lt ↔ infoLt a b) ∧ (a.cmp b = .gt ↔ infoLt b a) ∧ ¬ infoLt a a ∧
    (infoLt a b → infoLt b c → infoLt a c) ∧ (infoLt a b ∨ a = b ∨ infoLt b a) :=
  ⟨cmp_lt_iff a b, cmp_gt_iff a b, infoLt_irrefl a, infoLt_trans, infoLt_total a b⟩

/-- **group_subset_of_offer.**  Every patch in the group is one of the candidates (same uri
expansion, table, compat id and application bit). -/
theorem group_subset_of_offer (cands : List PatchUri) (iftId iftxId : Option Nat) (g : Group)
    (h : selectFromCandidates cands iftId iftxId = .ok g) (p : PatchInfo)
    (hp : p ∈ g.invalidating ++ g.nonInvalidating) :
    ∃ u, u ∈ cands ∧ uriString u = some p.uri ∧ p.table = u.table ∧ p.compat = u.compat ∧
      p.bit = u.bit := by
  obtain ⟨u, hu, hpi⟩ := sel_subset h p hp
  exact ⟨u, hu, toPatchInfo_fields hpi⟩

/-- **select_one_invalidating_per_table.**  At the level of `PatchGroup::select_next_patches` on a
font's two mapping tables (format 1 or format 2, any contents): two invalidating patches of the
selected group never come from the same mapping table, and never share a uri. -/
theorem select_one_invalidating_per_table (ift iftx : MapTable) (d : SubsetDef) (G : Group)
    (h : selectNext ift iftx d = .ok (some G)) :
    (∀ p q, p ∈ G.invalidating → q ∈ G.invalidating → p.table = q.table → p = q) ∧ G.uris.Nodup := by
  obtain ⟨cands, hc, hcase⟩ := selectNext_cases h
  rcases hcase with ⟨_, hg⟩ | ⟨_, hne, G', hg, hsel⟩
  · cases hg
  · cases hg
    refine ⟨?_, group_no_duplicate_uri' hsel⟩
    have hfrom := intersectingPatches_from hc
    have htab : ∀ p, p ∈ G.invalidating →
        (p.table = .ift ↔ some p.compat = MapTable.compatId ift) := by
      intro p hp
      obtain ⟨u, hu, hpi⟩ := sel_subset hsel p (List.mem_append_left _ hp)
      obtain ⟨_, ht, hcp, _⟩ := toPatchInfo_fields hpi
      rw [ht, hcp]
      rcases hfrom u hu with ⟨h1, h2⟩ | ⟨h1, h2⟩
      · simp [h1, h2]
      · rw [h1, h2]
        constructor
        · intro hx; cases hx
        · intro hx; exact absurd hx.symm hne
    obtain ⟨hone, _, _⟩ := at_most_one_invalidating_per_table cands _ _ G hsel
    intro p q hp hq hpq
    cases G with
    | full r =>
      simp only [Group.invalidating, List.mem_singleton] at hp hq
      rw [hp, hq]
    | mixed A B =>
      obtain ⟨hA, _, hB, _⟩ := sel_slots hsel A B rfl
      cases A with
      | partialInv a =>
        cases B with
        | partialInv b =>
          have ha : a.table = .ift := (htab a (by simp [Group.invalidating])).2 (hA a rfl)
          have hb : b.table ≠ .ift := fun hx =>
            (hB b rfl).2 ((htab b (by simp [Group.invalidating])).1 hx)
          simp only [Group.invalidating, List.cons_append, List.nil_append, List.mem_cons,
            List.not_mem_nil, or_false] at hp hq
          rcases hp with rfl | rfl <;> rcases hq with rfl | rfl
          · rfl
          · exact absurd (hpq ▸ ha) hb
          · exact absurd (hpq.symm ▸ ha) hb
          · rfl
        | noInv m =>
          simp only [Group.invalidating, List.append_nil, List.mem_singleton] at hp hq
          rw [hp, hq]
      | noInv m =>
        cases B with
        | partialInv b =>
          simp only [Group.invalidating, List.nil_append, List.mem_singleton] at hp hq
          rw [hp, hq]
        | noInv m' => simp [Group.invalidating] at hp

/-! ## (4) progress and termination -/

/-- **select_progress.**  If `intersecting_patches` offers anything and selection succeeds, the
group has uris (`has_uris`): a non-empty offered set yields a non-empty group. -/
theorem select_progress (ift iftx : MapTable) (d : SubsetDef) (cands : List PatchUri)
    (g : Option Group) (hc : intersectingPatches ift iftx d = .ok cands) (hne : cands ≠ [])
    (h : selectNext ift iftx d = .ok g) : hasUris g = true ∧ optUris g ≠ [] := by
  obtain ⟨cands', hc', hcase⟩ := selectNext_cases h
  rw [hc] at hc'
  cases hc'
  rcases hcase with ⟨he, _⟩ | ⟨_, _, G, hg, hsel⟩
  · exact absurd he hne
  · subst hg
    have hfrom := intersectingPatches_from hc
    have hp := sel_progress hsel hne (fun u hu => (hfrom u hu).imp (·.2) (·.2))
    refine ⟨hp, ?_⟩
    intro hnil
    cases G with
    | full p => simp [optUris, Group.uris, Group.invalidating] at hnil
    | mixed A B =>
      cases A <;> cases B <;>
        simp_all [optUris, Group.uris, Group.invalidating, Group.nonInvalidating, hasUris]

/-- **select_none_iff_no_offer.**  `select_next_patches` reports "nothing to do" exactly when
nothing is offered. -/
theorem select_none_iff_no_offer (ift iftx : MapTable) (d : SubsetDef) (g : Option Group)
    (h : selectNext ift iftx d = .ok g) :
    g = none ↔ intersectingPatches ift iftx d = .ok [] := by
  obtain ⟨cands, hc, hcase⟩ := selectNext_cases h
  rcases hcase with ⟨he, hg⟩ | ⟨hne, _, G, hg, _⟩
  · subst he; exact ⟨fun _ => hc, fun _ => hg⟩
  · subst hg
    constructor
    · intro hx; cases hx
    · intro hx; rw [hc] at hx; cases hx; exact absurd rfl hne

/-- **round_progress.**  A successful `apply_next_patches` round — with ARBITRARY table-keyed and
glyph-keyed application functions — flips at least one uri of the group from `Pending` to `Applied`
(a uri that was not applied before), never un-applies a uri, and strictly increases the number of
applied uris.  Otherwise the round reports an error. -/
theorem round_progress {F : Type} (g : Option Group)
    (applyTk : PatchInfo → List Nat → Except String F)
    (applyGk : List (PatchInfo × List Nat) → Except String F)
    (pd pd' : PatchData) (f : F) (h : applyNext g applyTk applyGk pd = .ok (f, pd')) :
    (∃ u data, u ∈ optUris g ∧ pdGet pd u = some (.pending data) ∧ pdGet pd' u = some .applied) ∧
    (∀ k, pdGet pd k = some .applied → pdGet pd' k = some .applied) ∧
    appliedCount pd < appliedCount pd' :=
  applyNext_progress g applyTk applyGk pd pd' f h

/-- **extension_terminates.**  In the select → fetch-missing → apply loop, for ANY selection
function, patch-application functions and server: the number of completed rounds never exceeds the
number of uris that became applied, and a run that exhausts `fuel` rounds has applied at least
`fuel` distinct status entries.  So when only `N` uris can ever be named, the loop stops (done or
error) within `N` rounds. -/
theorem extension_terminates {F : Type} (select : F → Except String (Option Group))
    (applyTk : F → PatchInfo → List Nat → Except String F)
    (applyGk : F → List (PatchInfo × List Nat) → Except String F)
    (fetch : Uri → List Nat) (fuel rounds : Nat) (font : F) (pd : PatchData) :
    match extend select applyTk applyGk fetch fuel rounds font pd with
    | .done _ pd' r' => r' + appliedCount pd ≤ rounds + appliedCount pd'
    | .failed _ r' => rounds ≤ r'
    | .outOfFuel _ pd' => fuel + appliedCount pd ≤ appliedCount pd' :=
  extend_progress select applyTk applyGk fetch fuel rounds font pd

/-! ## non-vacuity -/

section Examples

private def cpEntry (lo hi : Int) (children : List Nat) (conj ignored : Bool) (bit : Nat) : Entry :=
  { sd := { cps := [(lo, hi)], feats := .set [], ds := .ranges [] }
    children := children, conj := conj, ignored := ignored
    uri := { template := [], id := .num bit, enc := .glyphKeyed, table := .ift, compat := 7,
             bit := bit, info := IntersectionInfo.zero } }

/-- entries: 0 = {10..20}; 1 = {30..40} ignored; 2 = wildcard with children 0 ∧ 1;
3 = wildcard with children 0 ∨ 1 -/
private def sampleEntries : List Entry :=
  [cpEntry 10 20 [] false false 0, cpEntry 30 40 [] false true 1,
   { cpEntry 0 0 [0, 1] true false 2 with sd := SubsetDef.empty },
   { cpEntry 0 0 [0, 1] false false 3 with sd := SubsetDef.empty }]

private def defA : SubsetDef := ⟨[(15, 15)], .set [], .ranges []⟩
private def defB : SubsetDef := ⟨[(15, 15), (35, 36)], .set [1], .ranges []⟩

example : WF sampleEntries := by
  intro i hi c hc
  have : i < 4 := hi
  match i, this with
  | 0, _ => simp [sampleEntries, cpEntry] at hc
  | 1, _ => simp [sampleEntries, cpEntry] at hc
  | 2, _ => simp [sampleEntries, cpEntry] at hc; omega
  | 3, _ => simp [sampleEntries, cpEntry] at hc; omega

example : SubsetDef.le defA defB := by
  refine ⟨?_, ?_, ?_⟩
  · intro c hc
    simp only [defA, defB, rMem_iff] at hc ⊢
    obtain ⟨r, hr, h1, h2⟩ := hc
    simp at hr; subst hr
    exact ⟨(15, 15), by simp, h1, h2⟩
  · simp [defA, defB, FeatureSet.le]
  · intro tag ra h; simp [axLookup] at h

example : offeredIdx sampleEntries defA = [0, 3] := by decide
example : offeredIdx sampleEntries defB = [0, 2, 3] := by decide
example : offeredIdx sampleEntries SubsetDef.allDef = [0, 2, 3] := by decide
example : offeredIdx sampleEntries SubsetDef.empty = [] := by decide

private def mkUri (id : Nat) (enc : PatchFormat) (table : TableTag) (compat bit : Nat)
    (cps order : Nat) : PatchUri :=
  { template := [123, 105, 100, 125], id := .num id, enc := enc, table := table, compat := compat,
    bit := bit, info := ⟨cps, 0, [], order⟩ }

/-- 'IFT ' (compat 7): 9 codepoints at order 1 beats 9 at order 2 and 5 at order 0.  'IFTX' (compat
8): the 50-codepoint candidate expands to the uri already picked for 'IFT ' (id 2), so the
3-codepoint one is taken; the glyph-keyed candidate is not applied alongside. -/
example : (selectFromCandidates
    [mkUri 1 .tkPartial .ift 7 100 5 0, mkUri 2 .tkPartial .ift 7 101 9 1,
     mkUri 3 .tkPartial .ift 7 102 9 2, mkUri 2 .tkPartial .iftx 8 200 50 0,
     mkUri 4 .tkPartial .iftx 8 201 3 1, mkUri 5 .glyphKeyed .iftx 8 202 0 0]
    (some 7) (some 8)).toOption.map (fun g => (g.invalidating.map (·.bit), g.uris.length))
    = some ([101, 201], 2) := by decide

/-- glyph-keyed candidates of both tables are all taken, the uri shared by both (id 2) once -/
example : (selectFromCandidates
    [mkUri 1 .glyphKeyed .ift 7 100 0 0, mkUri 2 .glyphKeyed .ift 7 101 0 0,
     mkUri 2 .glyphKeyed .iftx 8 200 0 0, mkUri 4 .glyphKeyed .iftx 8 201 0 0]
    (some 7) (some 8)).toOption.map (fun g => (g.invalidating.map (·.bit), g.nonInvalidating.map (·.bit)))
    = some ([], [100, 101, 201]) := by decide

/-- a fully invalidating candidate (of either table) is selected alone; the larger intersection wins -/
example : (selectFromCandidates
    [mkUri 1 .glyphKeyed .ift 7 100 0 0, mkUri 2 .tkPartial .ift 7 101 90 1,
     mkUri 3 .tkFull .iftx 8 200 4 0, mkUri 4 .tkFull .ift 7 103 6 3]
    (some 7) (some 8)).toOption.map (fun g => (g.invalidating.map (·.bit), g.uris.length))
    = some ([103], 1) := by decide

/-- a malformed uri template among the candidates is an error, not a partial group -/
example : (match selectFromCandidates [{ mkUri 1 .glyphKeyed .ift 7 100 0 0 with template := [123] }]
    (some 7) (some 8) with | .error e => e | .ok _ => "ok") = "err:Malformed:Malformed_URI_templates." := by
  decide

/-- one round: the pending uri of the group becomes applied -/
example : (applyNext (F := Unit) (some (.full ⟨[48], .ift, 7, 100⟩)) (fun _ _ => .ok ()) (fun _ => .ok ())
    [([48], .pending [1, 2, 3])]).toOption.map (·.2) = some [([48], .applied)] := by decide

/-- ... and a group whose uris are all applied already is an error, not a silent no-op -/
example : (match applyNext (F := Unit) (some (.full ⟨[48], .ift, 7, 100⟩)) (fun _ _ => .ok ())
    (fun _ => .ok ()) [([48], .applied)] with | .error e => e | .ok _ => "ok") = "err:EmptyPatchList" := by
  decide

/-- why the client must not re-insert selected uris (ift_extend before fix 980e661): overwriting
un-applies the uri, so the termination measure of `extension_terminates` is lost -/
example : appliedCount (fetchOverwrite (fun _ => []) [([48], .applied)] [[48]]) = 0 ∧
    appliedCount (fetchMissing (fun _ => []) [([48], .applied)] [[48]]) = 1 := by decide

/-- a format-1 table: glyphs 1, 2 ↦ entries 1, 2; feature record (tag 5) adds entry 3 when entry 1 is hit -/
private def sampleF1 : F1Table :=
  { compat := 9, maxEntry := 3, maxGm := 2, glyphCount := 3, maxpGlyphs := 3, bitmapStart := 36,
    bitmap := [0], template := [123, 105, 100, 125], utf8Ok := true, patchFormat := 3, firstGid := 0,
    entryIndex := [0, 1, 2], hasFeatureMap := true, featRecs := [⟨5, 3, 1⟩], entryMaps := [(1, 1)],
    entryMapBytes := 2, cmap := [(65, 1), (66, 2)] }

private def idsOf : Except String (List PatchUri) → List Nat
  | .ok us => us.map fun u => match u.id with | .num n => n | .str _ => 0
  | .error _ => [99]

example : idsOf (intersectF1 .ift sampleF1 ⟨[(65, 65)], .set [5], .ranges []⟩) = [1, 3] := by decide +kernel
example : idsOf (intersectF1 .ift sampleF1 ⟨[(65, 65)], .set [], .ranges []⟩) = [1] := by decide +kernel
example : idsOf (intersectF1 .ift sampleF1 ⟨[(66, 66)], .set [5], .ranges []⟩) = [2] := by decide +kernel
example : idsOf (intersectF1 .ift sampleF1 SubsetDef.allDef) = [1, 2, 3] := by decide +kernel
/-- applied entries are not offered (bit 1 of the bitmap set) -/
example : idsOf (intersectF1 .ift { sampleF1 with bitmap := [2] } SubsetDef.allDef) = [2, 3] := by decide +kernel
/-- out-of-order feature records are skipped: only the strict running maxima 3 and 7 are used -/
example : (featLoopAll [⟨3, 0, 1⟩, ⟨2, 0, 2⟩, ⟨3, 0, 4⟩, ⟨7, 0, 8⟩] 0 none).map (fun q => (q.1.tag, q.2))
    = [(3, 0), (7, 7)] := by decide +kernel
example : (featLoopSet [2, 3, 7] [⟨3, 0, 1⟩, ⟨2, 0, 2⟩, ⟨3, 0, 4⟩, ⟨7, 0, 8⟩] 0 none).map
    (fun q => (q.1.tag, q.2)) = [(3, 0), (7, 7)] := by decide +kernel

end Examples

end FontVerif.C19
