/-
C19 — IFT patch selection follows the specified intersection and grouping rules.
Property theorems only (helper lemmas: Lemmas/PatchMap.lean, Lemmas/PatchGroup.lean).
Models: Model/PatchMap.lean + Model/PatchMapDecode.lean ⇄ incremental-font-transfer/src/patchmap.rs,
        Model/UriTemplate.lean ⇄ uri_templates.rs, Model/PatchGroup.lean ⇄ patch_group.rs.

Vocabulary (defined in Lemmas/PatchMap.lean):
* `SubsetDef.le d d'` — the definition grows: codepoint set ⊆, feature set ⊆ (everything ≤ All),
  design space axis-by-axis ⊆ (everything ≤ All);
* `SpecLocal e d` / `SpecMatch es d i` — the declarative IFT rule "check entry intersection"
  (members of sets, empty-means-wildcard; conjunctive / disjunctive child entries) as an inductive
  relation, with no reference to the cache or to evaluation order;
* `WF es` — child indices refer to prior entries (guaranteed by decoding: `decoded_entries_wf`).
For format 2 the "applied" bit of an entry *is* its ignored flag (glyph_keyed.rs sets bit 6 of the
entry's format flags), so "un-applied, un-ignored" is `ignored = false`.
-/
import FontVerif.Lemmas.PatchMap
set_option linter.unusedVariables false
namespace FontVerif.C19
open FontVerif FontVerif.PatchMap

/-- an offered uri without the recorded intersection size (which legitimately depends on the
definition): template, id, format, source table, compat id, application bit -/
def stripInfo (u : PatchUri) : PatchUri := { u with info := IntersectionInfo.zero }

/-! ## (1) monotonicity and containment in the all-inclusive definition -/

/-- **entry_intersects_monotone.**  `Entry::intersects` stays true when the subset definition
grows in any of its three dimensions (with the empty-means-wildcard and `All` rules). -/
theorem entry_intersects_monotone (e d d' : SubsetDef) (hle : SubsetDef.le d d')
    (h : localIntersects e d = true) : localIntersects e d' = true :=
  localIntersects_mono e d d' hle h

/-- **entry_intersects_all.**  An entry that intersects *some* definition (over `u32` codepoints)
intersects `SubsetDefinition::all()`. -/
theorem entry_intersects_all (e d : SubsetDef) (hd : d.cpsInDomain)
    (h : localIntersects e d = true) : localIntersects e SubsetDef.allDef = true :=
  localIntersects_mono e d _ (SubsetDef.le_all d hd) h

/-- **offered_monotone.**  For every format-2 entry list (any child structure, conjunctive or
disjunctive, any ignored flags): the set of offered entries only grows when the definition grows. -/
theorem offered_monotone (es : List Entry) (d d' : SubsetDef) (hle : SubsetDef.le d d') (i : Nat)
    (h : i ∈ offeredIdx es d) : i ∈ offeredIdx es d' := by
  rw [mem_offeredIdx] at h ⊢
  exact ⟨h.1, h.2.1, evalAll_mono es d d' hle i h.2.2⟩

/-- **offered_subset_all.**  Whatever is offered for some definition is offered for the
all-inclusive definition. -/
theorem offered_subset_all (es : List Entry) (d : SubsetDef) (hd : d.cpsInDomain) (i : Nat)
    (h : i ∈ offeredIdx es d) : i ∈ offeredIdx es SubsetDef.allDef :=
  offered_monotone es d _ (SubsetDef.le_all d hd) i h

/-- **table_offer_monotone.**  The same at the level of a format-2 mapping table
(`add_intersecting_format2_patches` after `decode_format2_entries`): decoding does not depend on
the definition, so the call succeeds for `d'` iff it does for `d`, and every uri offered for `d` is
offered for `d'` with identical template / id / format / table / compat id / application bit. -/
theorem table_offer_monotone (tag : TableTag) (t : F2Table) (d d' : SubsetDef)
    (hle : SubsetDef.le d d') (us : List PatchUri) (h : intersectF2 tag t d = .ok us) :
    ∃ us', intersectF2 tag t d' = .ok us' ∧
      ∀ u, u ∈ us → ∃ u', u' ∈ us' ∧ stripInfo u' = stripInfo u := by
  unfold intersectF2 at h ⊢
  split at h
  · cases h
  · next es hes =>
    cases h
    refine ⟨offeredF2 es d', rfl, ?_⟩
    intro u hu
    simp only [offeredF2, List.mem_map] at hu ⊢
    obtain ⟨i, hi, rfl⟩ := hu
    refine ⟨_, ⟨i, offered_monotone es d d' hle i hi, rfl⟩, ?_⟩
    simp only [stripInfo, offeredUri]
    split <;> rfl

/-- **table_offer_subset_all.** -/
theorem table_offer_subset_all (tag : TableTag) (t : F2Table) (d : SubsetDef) (hd : d.cpsInDomain)
    (us : List PatchUri) (h : intersectF2 tag t d = .ok us) :
    ∃ us', intersectF2 tag t SubsetDef.allDef = .ok us' ∧
      ∀ u, u ∈ us → ∃ u', u' ∈ us' ∧ stripInfo u' = stripInfo u :=
  table_offer_monotone tag t d _ (SubsetDef.le_all d hd) us h

/-! ## (2) the offered set is exactly what the IFT rules say -/

/-- **decoded_entries_wf.**  Whenever `decode_format2_entries` succeeds, every child index refers
to a prior entry, and every entry's uri carries the tag and compat id of its table. -/
theorem decoded_entries_wf (tag : TableTag) (t : F2Table) (es : List Entry)
    (h : decodeF2 tag t = .ok es) : WF es ∧ FromTable tag t.compat es :=
  decodeF2_inv h

/-- **entry_intersects_spec.**  `Entry::intersects` decides the declarative per-dimension rule. -/
theorem entry_intersects_spec (e d : SubsetDef) : localIntersects e d = true ↔ SpecLocal e d :=
  localIntersects_iff_spec e d

/-- **offered_exact.**  On a well-formed entry list, entry `i` is offered **iff** it exists, is not
ignored (= not applied), and matches the definition in the declarative sense (own conditions and
child-entry conditions).  Ignored entries still count as children of later entries. -/
theorem offered_exact (es : List Entry) (d : SubsetDef) (wf : WF es) (i : Nat) :
    i ∈ offeredIdx es d ↔ ∃ e, es[i]? = some e ∧ e.ignored = false ∧ SpecMatch es d i := by
  rw [mem_offeredIdx, evalAll_iff_spec es d wf i]
  constructor
  · rintro ⟨hi, hig, hs⟩
    refine ⟨es[i], List.getElem?_eq_getElem hi, ?_, hs⟩
    simpa [List.getD_eq_getElem?_getD, List.getElem?_eq_getElem hi] using hig
  · rintro ⟨e, he, hig, hs⟩
    obtain ⟨hi, rfl⟩ := List.getElem?_eq_some_iff.1 he
    refine ⟨hi, ?_, hs⟩
    simpa [List.getD_eq_getElem?_getD, List.getElem?_eq_getElem hi] using hig

/-- **offered_order.**  Offered entries are listed once each, in entry order. -/
theorem offered_order (es : List Entry) (d : SubsetDef) :
    (offeredIdx es d).Pairwise (· < ·) := by
  unfold offeredIdx
  exact List.Pairwise.sublist List.filter_sublist List.pairwise_lt_range

/-- **table_offer_exact.**  For a format-2 table: a successful `add_intersecting_format2_patches`
returns, in entry order and once each, exactly the uris of the decoded entries that are not
ignored/applied and match declaratively; each uri is the entry's own (only the intersection info of
invalidating formats is filled in). -/
theorem table_offer_exact (tag : TableTag) (t : F2Table) (d : SubsetDef) (us : List PatchUri)
    (h : intersectF2 tag t d = .ok us) :
    ∃ (es : List Entry) (idx : List Nat), decodeF2 tag t = .ok es ∧ idx.Pairwise (· < ·) ∧
      (∀ i, i ∈ idx ↔ ∃ e, es[i]? = some e ∧ e.ignored = false ∧ SpecMatch es d i) ∧
      us = idx.map (fun i => offeredUri d i (es.getD i default)) ∧
      ∀ i, stripInfo (offeredUri d i (es.getD i default)) = stripInfo (es.getD i default).uri := by
  unfold intersectF2 at h
  split at h
  · cases h
  · next es hes =>
    cases h
    refine ⟨es, offeredIdx es d, hes, offered_order es d,
      fun i => offered_exact es d (decodeF2_inv hes).1 i, rfl, ?_⟩
    intro i
    simp only [stripInfo, offeredUri]
    split <;> rfl

/-! ## non-vacuity -/

section Examples

private def cpEntry (lo hi : Int) (children : List Nat) (conj ignored : Bool) (bit : Nat) : Entry :=
  { sd := { cps := [(lo, hi)], feats := .set [], ds := .ranges [] }
    children := children, conj := conj, ignored := ignored
    uri := { template := [], id := .num bit, enc := .glyphKeyed, table := .ift, compat := 7,
             bit := bit, info := IntersectionInfo.zero } }

/-- entries: 0 = {10..20}; 1 = {30..40} ignored; 2 = wildcard with children 0 ∧ 1;
3 = wildcard with children 0 ∨ 1 -/
private def sampleEntries : List Entry :=
  [cpEntry 10 20 [] false false 0, cpEntry 30 40 [] false true 1,
   { cpEntry 0 0 [0, 1] true false 2 with sd := SubsetDef.empty },
   { cpEntry 0 0 [0, 1] false false 3 with sd := SubsetDef.empty }]

private def defA : SubsetDef := ⟨[(15, 15)], .set [], .ranges []⟩
private def defB : SubsetDef := ⟨[(15, 15), (35, 36)], .set [1], .ranges []⟩

example : WF sampleEntries := by
  intro i hi c hc
  have : i < 4 := hi
  match i, this with
  | 0, _ => simp [sampleEntries, cpEntry] at hc
  | 1, _ => simp [sampleEntries, cpEntry] at hc
  | 2, _ => simp [sampleEntries, cpEntry] at hc; omega
  | 3, _ => simp [sampleEntries, cpEntry] at hc; omega

example : SubsetDef.le defA defB := by
  refine ⟨?_, ?_, ?_⟩
  · intro c hc
    simp only [defA, defB, rMem_iff] at hc ⊢
    obtain ⟨r, hr, h1, h2⟩ := hc
    simp at hr; subst hr
    exact ⟨(15, 15), by simp, h1, h2⟩
  · simp [defA, defB, FeatureSet.le]
  · intro tag ra h; simp [axLookup] at h

example : offeredIdx sampleEntries defA = [0, 3] := by decide
example : offeredIdx sampleEntries defB = [0, 2, 3] := by decide
example : offeredIdx sampleEntries SubsetDef.allDef = [0, 2, 3] := by decide
example : offeredIdx sampleEntries SubsetDef.empty = [] := by decide

end Examples

end FontVerif.C19
