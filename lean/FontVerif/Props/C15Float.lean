/-
C15 — float conversions of the fixed-point types (font-types/src/fixed.rs `float_conv!`,
`Fixed::to_f32`, `F26Dot6::to_f32`).  Property theorems only; the arithmetic lives in
Lemmas/Ieee.lean and Lemmas/FixedConv.lean.
Model: Model/Ieee.lean (exact IEEE-754 binary32 / binary64: one rounding per operation) and
Model/FixedConv.lean ⇄ the Rust after `fix:` 79f4476.

A float is `nan`, `inf neg` or `fin neg m e` = `(-1)^neg · m · 2^e`; every f32 / f64 bit pattern
decodes to a value satisfying `IsFloat` (`decode_is_float32/64`), and the theorems quantify over
all such values.  `scaledNum / scaledDen` is the exact rational `x · 2^FRACT_BITS`.
-/
import FontVerif.Model.FixedConv
import FontVerif.Lemmas.FixedConv
set_option linter.unusedVariables false
namespace FontVerif.C15Float
open FontVerif FontVerif.Ieee FontVerif.FixedConv

/-- a value of the format: at most `p` significant bits, exponent not below `emin`. -/
def IsFloat (f : Fmt) : FVal → Prop
  | .nan => True
  | .inf _ => True
  | .fin _ m e => m < 2 ^ f.p ∧ f.emin ≤ e

/-! ### every bit pattern is covered; the five types satisfy the side conditions -/

theorem decode_is_float32 (bits : Nat) : IsFloat f32 (decode f32 bits) := by
  unfold decode f32
  simp only []
  have h1 : bits % 2 ^ (24 - 1) < 2 ^ (24 - 1) := Nat.mod_lt _ (by decide)
  split
  · split <;> exact True.intro
  · split
    · simp only [IsFloat]; constructor <;> omega
    · simp only [IsFloat]; constructor <;> omega

theorem decode_is_float64 (bits : Nat) : IsFloat f64 (decode f64 bits) := by
  unfold decode f64
  simp only []
  have h1 : bits % 2 ^ (53 - 1) < 2 ^ (53 - 1) := Nat.mod_lt _ (by decide)
  split
  · split <;> exact True.intro
  · split
    · simp only [IsFloat]; constructor <;> omega
    · simp only [IsFloat]; constructor <;> omega

theorem f2dot14_ok : F2Dot14.Ok := by constructor <;> decide
theorem f4dot12_ok : F4Dot12.Ok := by constructor <;> decide
theorem f6dot10_ok : F6Dot10.Ok := by constructor <;> decide
theorem fixed_ok : Fixed.Ok := by constructor <;> decide
theorem f26dot6_ok : F26Dot6.Ok := by constructor <;> decide

/-! ### `from_f32` / `from_f64`: nearest value, ties away from zero, saturation, NaN, monotone -/

/-- `from_fN` of every finite float is the exact scaled value `x · 2^FRACT_BITS` rounded to the
nearest integer with ties away from zero, clamped to `MIN ..= MAX` (closed form). -/
theorem from_float_closed_form (t : FxTy) (ok : t.Ok) (neg : Bool) (m : Nat) (e : Int)
    (hx : IsFloat t.fmt (.fin neg m e)) :
    fromFloat t (.fin neg m e) = fromFloatSpec t neg m e :=
  fromFloat_finite t ok neg m e hx.1 hx.2

/-- "conversions from floats round to nearest": whenever the exact scaled value
`scaledNum / scaledDen` rounded half away from zero is a representable `r`, `from_fN` returns `r`
(every finite float, including subnormals; no exception after the fix). -/
theorem from_float_nearest (t : FxTy) (ok : t.Ok) (neg : Bool) (m : Nat) (e : Int)
    (hx : IsFloat t.fmt (.fin neg m e)) (r : Int) (hr : t.lo ≤ r ∧ r ≤ t.hi)
    (h : IsRHA (scaledNum t.k neg m e) (scaledDen t.k e) r) :
    fromFloat t (.fin neg m e) = r := by
  rw [from_float_closed_form t ok neg m e hx]
  have := isRHA_unique (scaledDen_pos t.k e) h (spec_isRHA t.k neg m e)
  unfold fromFloatSpec
  rw [← this, clampI_id _ _ _ hr]

/-- the result is always within half a unit of the scaled value when that lies in the range:
`|from_fN(x) · den - num| · 2 ≤ den`. -/
theorem from_float_error_bound (t : FxTy) (ok : t.Ok) (neg : Bool) (m : Nat) (e : Int)
    (hx : IsFloat t.fmt (.fin neg m e))
    (hin : t.lo * scaledDen t.k e ≤ scaledNum t.k neg m e ∧ scaledNum t.k neg m e ≤ t.hi * scaledDen t.k e) :
    2 * (scaledDen t.k e * fromFloat t (.fin neg m e)) - scaledDen t.k e ≤ 2 * scaledNum t.k neg m e ∧
    2 * scaledNum t.k neg m e ≤ 2 * (scaledDen t.k e * fromFloat t (.fin neg m e)) + scaledDen t.k e := by
  rw [from_float_closed_form t ok neg m e hx]
  have h := spec_isRHA t.k neg m e
  have hd := scaledDen_pos t.k e
  unfold fromFloatSpec
  generalize hR : (if neg = true then (-1 : Int) else 1) * rhaMag m (e + (t.k : Int)) = R at *
  generalize scaledNum t.k neg m e = N at *
  generalize hD : scaledDen t.k e = D at *
  -- R is within the range because N / D is
  have hRr : t.lo ≤ R ∧ R ≤ t.hi := by
    unfold IsRHA at h
    have hlo := ok.hlo; have hhi := ok.hhi
    constructor
    · apply Classical.byContradiction; intro hc
      have h1 : D * (R + 1) ≤ D * t.lo := Int.mul_le_mul_of_nonneg_left (by omega) (by omega)
      rw [Int.mul_add, Int.mul_one, Int.mul_comm D t.lo] at h1
      by_cases hN : 0 ≤ N
      · have := h.1 hN; omega
      · have := h.2 (by omega); omega
    · apply Classical.byContradiction; intro hc
      have h1 : D * (t.hi + 1) ≤ D * R := Int.mul_le_mul_of_nonneg_left (by omega) (by omega)
      rw [Int.mul_add, Int.mul_one, Int.mul_comm D t.hi] at h1
      by_cases hN : 0 ≤ N
      · have := h.1 hN; omega
      · have := h.2 (by omega); omega
  rw [clampI_id _ _ _ hRr]
  unfold IsRHA at h
  by_cases hN : 0 ≤ N
  · have := h.1 hN; omega
  · have := h.2 (by omega); omega

/-- saturation: a scaled value at or beyond `MAX` converts to `MAX`, at or below `MIN` to `MIN`
(this is what the seeded wrap-around `as i32 as i16` breaks). -/
theorem from_float_saturates_high (t : FxTy) (ok : t.Ok) (neg : Bool) (m : Nat) (e : Int)
    (hx : IsFloat t.fmt (.fin neg m e)) (h : t.hi * scaledDen t.k e ≤ scaledNum t.k neg m e) :
    fromFloat t (.fin neg m e) = t.hi := by
  rw [from_float_closed_form t ok neg m e hx]
  have hr := spec_isRHA t.k neg m e
  have hd := scaledDen_pos t.k e
  have hhi := ok.hhi; have hlo := ok.hlo
  unfold fromFloatSpec
  generalize (if neg = true then (-1 : Int) else 1) * rhaMag m (e + (t.k : Int)) = R at *
  generalize scaledNum t.k neg m e = N at *
  generalize scaledDen t.k e = D at *
  have hN : 0 ≤ N := by
    have := Int.mul_nonneg (Int.le_of_lt hhi) (Int.le_of_lt hd); omega
  have hR : t.hi ≤ R := by
    apply Classical.byContradiction; intro hc
    have h1 : D * (R + 1) ≤ D * t.hi := Int.mul_le_mul_of_nonneg_left (by omega) (by omega)
    rw [Int.mul_add, Int.mul_one, Int.mul_comm D t.hi] at h1
    have := hr.1 hN; omega
  unfold clampI; repeat' split
  all_goals omega

theorem from_float_saturates_low (t : FxTy) (ok : t.Ok) (neg : Bool) (m : Nat) (e : Int)
    (hx : IsFloat t.fmt (.fin neg m e)) (h : scaledNum t.k neg m e ≤ t.lo * scaledDen t.k e) :
    fromFloat t (.fin neg m e) = t.lo := by
  rw [from_float_closed_form t ok neg m e hx]
  have hr := spec_isRHA t.k neg m e
  have hd := scaledDen_pos t.k e
  have hhi := ok.hhi; have hlo := ok.hlo
  unfold fromFloatSpec
  generalize (if neg = true then (-1 : Int) else 1) * rhaMag m (e + (t.k : Int)) = R at *
  generalize scaledNum t.k neg m e = N at *
  generalize scaledDen t.k e = D at *
  have hN : N < 0 := by
    have : D * t.lo ≤ D * (-1) := Int.mul_le_mul_of_nonneg_left (by omega) (by omega)
    rw [Int.mul_comm D t.lo] at this; omega
  have hR : R ≤ t.lo := by
    apply Classical.byContradiction; intro hc
    have h1 : D * (t.lo + 1) ≤ D * R := Int.mul_le_mul_of_nonneg_left (by omega) (by omega)
    rw [Int.mul_add, Int.mul_one, Int.mul_comm D t.lo] at h1
    have := hr.2 hN; omega
  unfold clampI; repeat' split
  all_goals omega

/-- infinities saturate, NaN converts to zero (Rust's `as` cast). -/
theorem from_float_inf (t : FxTy) (ok : t.Ok) (s : Bool) :
    fromFloat t (.inf s) = if s then t.lo else t.hi := fromFloat_inf t ok s

theorem from_float_nan (t : FxTy) : fromFloat t .nan = 0 := fromFloat_nan t

/-- the result is always a value of the storage type. -/
theorem from_float_in_range (t : FxTy) (ok : t.Ok) (x : FVal) (hx : IsFloat t.fmt x) :
    t.lo ≤ fromFloat t x ∧ fromFloat t x ≤ t.hi := by
  have hlo := ok.hlo; have hhi := ok.hhi
  cases x with
  | nan => rw [fromFloat_nan]; omega
  | inf s => rw [fromFloat_inf t ok]; split <;> omega
  | fin s m e =>
    rw [from_float_closed_form t ok s m e hx]
    exact clampI_range _ _ _ (by omega)

/-- monotone: `x ≤ y → from_fN(x) ≤ from_fN(y)` for all non-NaN floats (`le` is the IEEE `<=`). -/
theorem from_float_monotone (t : FxTy) (ok : t.Ok) (x y : FVal) (hx : IsFloat t.fmt x)
    (hy : IsFloat t.fmt y) (h : le x y = true) : fromFloat t x ≤ fromFloat t y := by
  have hlo := ok.hlo; have hhi := ok.hhi
  have rx := from_float_in_range t ok x hx
  have ry := from_float_in_range t ok y hy
  cases x with
  | nan => simp [le] at h
  | inf s =>
    cases y with
    | nan => simp [le] at h
    | inf s' =>
      rw [fromFloat_inf t ok, fromFloat_inf t ok]
      cases s <;> cases s' <;> simp [le] at h ⊢ <;> omega
    | fin s' n g =>
      rw [fromFloat_inf t ok] at rx ⊢
      cases s <;> simp [le] at h ⊢; omega
  | fin s m e =>
    cases y with
    | nan => simp [le] at h
    | inf s' =>
      rw [fromFloat_inf t ok] at ry ⊢
      cases s' <;> simp [le] at h ⊢; omega
    | fin s' n g =>
      rw [from_float_closed_form t ok s m e hx, from_float_closed_form t ok s' n g hy]
      exact fromFloatSpec_mono t (by omega) s m e s' n g h

/-! ### `to_f32` / `to_f64`: exact, and the round trip through the documented float type -/

/-- `to_fN` is exact for every raw value: the result is a finite float of the format whose value
times `2^FRACT_BITS` is exactly `raw` (`scaledNum = raw · scaledDen`). -/
theorem to_float_exact (t : FxTy) (ok : t.Ok) (raw : Int) (h : t.lo ≤ raw ∧ raw ≤ t.hi) :
    ∃ s m e, toFloat t raw = .fin s m e ∧ IsFloat t.fmt (.fin s m e) ∧
      scaledNum t.k s m e = raw * scaledDen t.k e := by
  obtain ⟨s, m, e, h1, h2, h3, h4, h5⟩ := toFloat_value t ok raw h
  refine ⟨s, m, e, h1, ⟨h2, h3⟩, ?_⟩
  unfold scaledNum scaledDen
  have : e + (t.k : Int) ≥ 0 := by omega
  simp only [this, if_true, Int.mul_one]
  exact h5

/-- "ordering of values equals ordering of raw bits": the float values of two fixed-point numbers
compare like their raw bits (as signed integers). -/
theorem to_float_order (t : FxTy) (ok : t.Ok) (a b : Int) (ha : t.lo ≤ a ∧ a ≤ t.hi)
    (hb : t.lo ≤ b ∧ b ≤ t.hi) : le (toFloat t a) (toFloat t b) = true ↔ a ≤ b := by
  obtain ⟨s, m, e, h1, _, _, h4, h5⟩ := toFloat_value t ok a ha
  obtain ⟨s', m', e', h1', _, _, h4', h5'⟩ := toFloat_value t ok b hb
  rw [h1, h1', le_fin_scaled t.k s m e s' m' e' h4 h4', h5, h5']

/-- "every fixed-point value converts to the documented floating-point type and back unchanged":
F2Dot14 / F4Dot12 / F6Dot10 through `f32`, Fixed / F26Dot6 through `f64`, every raw value. -/
theorem float_roundtrip (t : FxTy) (ok : t.Ok) (raw : Int) (h : t.lo ≤ raw ∧ raw ≤ t.hi) :
    fromFloat t (toFloat t raw) = raw := fromFloat_toFloat t ok raw h

theorem f2dot14_f32_roundtrip (raw : Int) (h : inI16 raw) :
    fromFloat F2Dot14 (toFloat F2Dot14 raw) = raw :=
  float_roundtrip _ f2dot14_ok raw (by unfold inI16 at h; simp [F2Dot14]; omega)

theorem f4dot12_f32_roundtrip (raw : Int) (h : inI16 raw) :
    fromFloat F4Dot12 (toFloat F4Dot12 raw) = raw :=
  float_roundtrip _ f4dot12_ok raw (by unfold inI16 at h; simp [F4Dot12]; omega)

theorem f6dot10_f32_roundtrip (raw : Int) (h : inI16 raw) :
    fromFloat F6Dot10 (toFloat F6Dot10 raw) = raw :=
  float_roundtrip _ f6dot10_ok raw (by unfold inI16 at h; simp [F6Dot10]; omega)

theorem fixed_f64_roundtrip (raw : Int) (h : inI32 raw) :
    fromFloat Fixed (toFloat Fixed raw) = raw :=
  float_roundtrip _ fixed_ok raw (by unfold inI32 at h; simp [Fixed]; omega)

theorem f26dot6_f64_roundtrip (raw : Int) (h : inI32 raw) :
    fromFloat F26Dot6 (toFloat F26Dot6 raw) = raw :=
  float_roundtrip _ f26dot6_ok raw (by unfold inI32 at h; simp [F26Dot6]; omega)

/-- `Fixed::to_f32` / `F26Dot6::to_f32` (documented as lossy: the `i32 → f32` conversion keeps 24
significant bits) are exact for every `|raw| < 2^24`, i.e. for 16.16 values of magnitude below 256
and 26.6 values below 262144. -/
theorem to_f32_exact_below_2_24 (k : Nat) (hk : k ≤ 149) (raw : Int) (h : raw.natAbs < 2 ^ 24) :
    toF32Lossy k raw =
      if raw = 0 then .fin false 0 0 else .fin (decide (raw < 0)) raw.natAbs (-(k : Int)) := by
  unfold toF32Lossy
  rw [ofInt_exact f32 raw (by decide) (by decide) h]
  simp only [mulPow2, Int.zero_add]
  have hL : bitLen raw.natAbs ≤ 24 := bitLen_le_of_lt h
  rw [roundNE_exact f32 _ raw.natAbs _ h (by simp [f32]; omega) (by simp [f32]; omega)]
  by_cases h0 : raw = 0
  · subst h0; simp
  · have : raw.natAbs ≠ 0 := by omega
    simp [h0, this]

/-- … and not beyond: `Fixed(0x0100_0001).to_f32()` is `256.0`, one unit is lost, so
`Fixed → f32 → Fixed` is not the identity (the documented lossless type of `Fixed` is `f64`). -/
example : toF32Lossy 16 16777217 = .fin false 8388608 (-15)
    ∧ fromFloat Fixed (.fin false 8388608 (-15)) = 16777216 := by decide

/-! non-vacuity and the fixed defect -/

-- 1.75 → 0x7000; 2.0 saturates to 0x7FFF; -2.5 saturates to MIN; NaN → 0
example : fromFloat F2Dot14 (decode f32 0x3FE00000) = 0x7000
    ∧ fromFloat F2Dot14 (decode f32 0x40000000) = 32767
    ∧ fromFloat F2Dot14 (decode f32 0xC0200000) = -32768
    ∧ fromFloat F2Dot14 (decode f32 0x7FC00000) = 0 := by decide

-- the largest f32 below one half, scaled by 2^-14 (bits 0x37FFFFFF): the nearest 2.14 value is 0;
-- the pre-fix code (`x * ONE + 0.5` rounds up to 1.0) returned 1
example : decode f32 0x37FFFFFF = .fin false 16777215 (-39)
    ∧ fromFloatPreFix F2Dot14 (decode f32 0x37FFFFFF) = 1
    ∧ fromFloat F2Dot14 (decode f32 0x37FFFFFF) = 0
    ∧ IsRHA (scaledNum 14 false 16777215 (-39)) (scaledDen 14 (-39)) 0 := by decide

example : toFloat Fixed (-196608) = .fin true 3 0 ∧ toFloat Fixed 98305 = .fin false 98305 (-16) := by
  decide

end FontVerif.C15Float
