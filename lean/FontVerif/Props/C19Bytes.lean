/-
C19 (part 3) — the mapping tables FROM THEIR BYTES (Model/PatchMapBytes.lean ⇄ generated_ift.rs readers,
tables/ift.rs accessors, the order in which patchmap.rs consults them).
Helper lemmas: Lemmas/PatchMapBytes.lean.

`BR` = `ok` value / `err` = an `Err(ReadError)` VALUE / `trap` = a panic (`unwrap` of a getter that is
out of range, `usize` underflow, exhausted loop fuel of the sparse-bit-set model).
`d.length ≤ MAXU` (= `usize::MAX`) holds for every Rust slice.
-/
import FontVerif.Lemmas.PatchMapBytes
import FontVerif.Props.C19
set_option linter.unusedVariables false
namespace FontVerif.C19
open FontVerif FontVerif.HandRead FontVerif.PatchMap FontVerif.PatchMapBytes FontVerif.PatchGroup

/-- **format2_decode_total.**  For EVERY byte string: reading a format-2 table header, all its
mapping entries (`EntryData::read` + getters + sparse bit sets) and intersecting it with any subset
definition yields entries / uris or a `ReadError` value — never a panic.  (The getters' `unwrap`s
are in range after a successful `read`; the consumed-bytes subtraction cannot underflow because the
sparse-bit-set decoder returns a suffix of its input: C14 `decode_total`.) -/
theorem format2_decode_total (tag : TableTag) (d : List Nat) (hl : d.length ≤ MAXU) (sd : SubsetDef) :
    (∀ x, f2ReadHdr d = x → x ≠ .trap) ∧ (∀ x, decodeF2Bytes tag d = x → x ≠ .trap) ∧
    (∀ x, intersectF2Bytes tag d sd = x → x ≠ .trap) := by
  have hdr := f2ReadHdr_ne_trap d hl
  have htab : ∀ x, f2TableOfBytes d = x → x ≠ .trap ∧ ∀ t, x = .ok (t, some .trap) → False := by
    intro x hx
    unfold f2TableOfBytes at hx
    split at hx
    · next hh => exact absurd hh (hdr _ rfl)
    · subst hx; exact ⟨by simp, fun t h => by cases h⟩
    · next h hh =>
      repeat' split at hx
      all_goals first | (subst hx; exact ⟨by simp, fun t h => by cases h⟩) | skip
      all_goals (
        subst hx
        refine ⟨by simp, fun t h => ?_⟩
        injection h with h
        injection h with _ h2
        exact readRawEntries_ne_trap _ _ _ h2)
  have hdec : ∀ x, decodeF2Bytes tag d = x → x ≠ .trap := by
    intro x hx
    unfold decodeF2Bytes at hx
    split at hx
    · next ht => exact absurd ht (htab _ rfl).1
    · subst hx; simp
    · next t stop ht =>
      split at hx
      · subst hx; simp
      · split at hx
        · subst hx; simp
        · exact absurd (ht) (fun h => (htab _ h).2 t rfl)
        · subst hx; simp
        · subst hx; simp
  refine ⟨hdr, hdec, ?_⟩
  intro x hx
  unfold intersectF2Bytes at hx
  split at hx
  · next ht => exact absurd ht (hdec _ rfl)
  · subst hx; simp
  · subst hx; simp

/-- **format1_decode_total.**  The same for format 1: header, glyph map, feature map (records and
entry-map records) from any byte string, any maxp glyph count and character map, then the
intersection with any subset definition: a value or a `ReadError` value, never a panic. -/
theorem format1_decode_total (tag : TableTag) (d : List Nat) (hl : d.length ≤ MAXU) (maxp : Nat)
    (cmap : List (Nat × Nat)) (sd : SubsetDef) :
    (∀ x, f1ReadHdr d = x → x ≠ .trap) ∧ (∀ x, f1TableOfBytes d maxp cmap = x → x ≠ .trap) ∧
    (∀ x, intersectF1Bytes tag d maxp cmap sd = x → x ≠ .trap) := by
  have hdr := f1ReadHdr_ne_trap d hl
  have hgm : ∀ sub gc mei, readGlyphMap sub gc mei ≠ .trap := by
    intro sub gc mei; unfold readGlyphMap; split
    · simp
    · simp only []; split <;> simp
  have hfm : ∀ sub mei, readFeatureMap sub mei ≠ .trap := by
    intro sub mei; unfold readFeatureMap; split
    · simp
    · simp only []; split <;> simp
  have htab : ∀ x, f1TableOfBytes d maxp cmap = x → x ≠ .trap := by
    intro x hx
    unfold f1TableOfBytes at hx
    split at hx
    · next hh => exact absurd hh (hdr _ rfl)
    · subst hx; simp
    · simp only [] at hx
      repeat' split at hx
      all_goals first | (subst hx; simp; done) | skip
      all_goals first
        | (next hh => exact absurd hh (hgm _ _ _))
        | (next hh => exact absurd hh (hfm _ _))
  refine ⟨hdr, htab, ?_⟩
  intro x hx
  unfold intersectF1Bytes at hx
  split at hx
  · next ht => exact absurd ht (htab _ rfl)
  · subst hx; simp
  · split at hx <;> (subst hx; simp)

/-- **decoded_entries_within_table.**  When a format-2 table decodes, the decoded entry list is the
field-level decoding (`decodeF2`, the object of theorems 1–11) of the table read from the bytes with no
read error left over; entry `i` starts at byte `entries_offset + Σ_{j<i} size_j` of the table, that
byte EXISTS (`< d.length`), the entry ends inside the table, and its application (= ignored) bit index
is `start · 8 + 6` — bit 6 of the entry's own format-flags byte.  So the bit `glyph_keyed.rs` sets to
mark an entry applied always addresses a byte of the table. -/
theorem decoded_entries_within_table (tag : TableTag) (d : List Nat) (es : List Entry)
    (h : decodeF2Bytes tag d = .ok es) :
    ∃ t, f2TableOfBytes d = .ok (t, none) ∧ decodeF2 tag t = .ok es ∧ es.length = t.raws.length ∧
      t.entriesOffset ≤ d.length ∧
      ∀ i e, es[i]? = some e → ∃ r, t.raws[i]? = some r ∧
        e.uri.bit = (t.entriesOffset + sizeSum t.raws i) * 8 + 6 ∧
        t.entriesOffset + sizeSum t.raws i < d.length ∧
        t.entriesOffset + sizeSum t.raws i + r.size ≤ d.length ∧ e.uri.bit / 8 < d.length := by
  unfold decodeF2Bytes at h
  split at h
  · cases h
  · cases h
  · next t stop ht =>
    split at h
    · cases h
    · next es' hes =>
      -- the leftover read error must be absent
      have hstop : stop = none ∨ ∃ u, stop = some (.ok u) := by
        cases stop with
        | none => exact Or.inl rfl
        | some b => cases b with
          | ok u => exact Or.inr ⟨u, rfl⟩
          | err e => simp at h
          | trap => simp at h
      have hes'' : es' = es := by
        rcases hstop with rfl | ⟨u, rfl⟩ <;> simpa using h
      subst hes''
      -- anatomy of the table
      have htab := ht
      unfold f2TableOfBytes at htab
      split at htab
      · cases htab
      · cases htab
      · next hd hh =>
        repeat' split at htab
        all_goals first | (cases htab; done) | skip
        all_goals (
          injection htab with htab
          injection htab with ht1 ht2
          subst ht1
          rename_i hoff0 hoff1 _ _ _ hidoff
          -- `readRawEntries` never reports `ok`
          have hnone : stop = none := by
            rcases hstop with h0 | ⟨u, hu⟩
            · exact h0
            · exfalso
              subst hu
              have : ∀ n dd, (readRawEntries (hd.idStringOffset ≠ 0) n dd).2 ≠ some (.ok u) := by
                intro n
                induction n with
                | zero => intro dd; simp [readRawEntries]
                | succ n ih =>
                  intro dd
                  unfold readRawEntries
                  split
                  · simp
                  · simp
                  · split
                    · simp
                    · exact ih _
              exact this _ _ ht2
          subst hnone
          refine ⟨_, ht, hes, ?_⟩
          simp only []
          -- the field-level decoder's start bytes
          unfold decodeF2 at hes
          simp only [Bool.not_true, Bool.false_eq_true, if_false] at hes
          split at hes
          · cases hes
          · next enc _ =>
            split at hes
            · cases hes
            · next st hst =>
              cases hes
              obtain ⟨hlen, hbits⟩ := decodeEntries_start tag _ enc _ _ _ hst
              simp only [List.length_nil, Nat.zero_add] at hlen hbits
              refine ⟨hlen, by omega, ?_⟩
              intro i e hi
              have hilt : i < st.entries.length := (List.getElem?_eq_some_iff.1 hi).1
              have hir : i < (readRawEntries (hd.idStringOffset ≠ 0) hd.entryCount (d.drop hd.entriesOffset)).1.length := by
                omega
              refine ⟨_, List.getElem?_eq_getElem hir, ?_⟩
              have hb := hbits i e hi hir
              have hs := readRawEntries_sizes _ _ _ i _ (List.getElem?_eq_getElem hir)
              rw [List.length_drop] at hs
              refine ⟨hb, by omega, by omega, ?_⟩
              rw [hb]; omega)

/-- **offered_set_from_bytes_equals_spec** (format 2).  For the table BYTES: a successful
`add_intersecting_format2_patches` returns, in entry order and once each, exactly the uris of the
entries decoded from these bytes that are not ignored / applied and match the definition in the
declarative sense (`SpecMatch`: own conditions, conjunctive / disjunctive child entries); children
refer to prior entries; every uri carries the table's tag and compat id. -/
theorem offered_set_from_bytes_equals_spec (tag : TableTag) (d : List Nat) (sd : SubsetDef)
    (us : List PatchUri) (h : intersectF2Bytes tag d sd = .ok us) :
    ∃ (t : F2Table) (es : List Entry) (idx : List Nat),
      f2TableOfBytes d = .ok (t, none) ∧ decodeF2Bytes tag d = .ok es ∧ decodeF2 tag t = .ok es ∧
      WF es ∧ FromTable tag t.compat es ∧ idx.Pairwise (· < ·) ∧
      (∀ i, i ∈ idx ↔ ∃ e, es[i]? = some e ∧ e.ignored = false ∧ SpecMatch es sd i) ∧
      us = idx.map (fun i => offeredUri sd i (es.getD i default)) := by
  unfold intersectF2Bytes at h
  split at h
  · cases h
  · cases h
  · next es hes =>
    cases h
    obtain ⟨t, ht, hdec, _⟩ := decoded_entries_within_table tag d es hes
    have hinv := decodeF2_inv hdec
    exact ⟨t, es, offeredIdx es sd, ht, hes, hdec, hinv.1, hinv.2, offered_order es sd,
      fun i => offered_exact es sd hinv.1 i, rfl⟩

/-- **offered_set_from_bytes_equals_spec_format1.**  For the table BYTES (plus the font's maxp glyph
count and character map): a successful `add_intersecting_format1_patches` offers exactly the entries
`k > 0` whose application bit — bit `k` of the bitmap at byte 36 of the table — is clear and that are
glyph-map entries of a requested codepoint or named by a firing entry-map record of a used feature
record (`format1_offer_exact` on the table read from the bytes). -/
theorem offered_set_from_bytes_equals_spec_format1 (tag : TableTag) (d : List Nat) (maxp : Nat)
    (cmap : List (Nat × Nat)) (sd : SubsetDef) (us : List PatchUri)
    (h : intersectF1Bytes tag d maxp cmap sd = .ok us) :
    ∃ t, f1TableOfBytes d maxp cmap = .ok t ∧ intersectF1 tag t sd = .ok us ∧ t.bitmapStart = 36 ∧
      ∃ enc, PatchFormat.ofNumber t.patchFormat = some enc ∧
      (∀ u, u ∈ us → ∃ k,
        stripInfo u = { template := t.template, id := .num k, enc := enc, table := tag,
                        compat := t.compat, bit := 36 * 8 + k, info := IntersectionInfo.zero }) ∧
      ∀ k, (∃ u, u ∈ us ∧ u.id = .num k) ↔
        (k > 0 ∧ isEntryApplied t.bitmap k = false ∧
          let G := glyphKey t (t.cmap.filter fun (p : Nat × Nat) => rMem (p.1 : Int) sd.cps)
          (G k ∨ (t.hasFeatureMap = true ∧ ∃ q, q ∈ selectedRecs t sd.feats ∧
              ∃ i, i ∈ List.range q.1.count ∧ fires t G q.1 q.2 i k))) := by
  unfold intersectF1Bytes at h
  split at h
  · cases h
  · cases h
  · next t ht =>
    split at h
    · cases h
    · next us' hus =>
      cases h
      have hb : t.bitmapStart = 36 := by
        unfold f1TableOfBytes at ht
        split at ht
        · cases ht
        · cases ht
        · next hd hh =>
          have h36 : hd.bitmapStart = 36 := by
            unfold f1ReadHdr at hh
            split at hh
            · cases hh
            split at hh
            · cases hh
            simp only [] at hh
            split at hh
            · cases hh
            split at hh
            · cases hh
            split at hh
            · cases hh; rfl
            · cases hh
          simp only [] at ht
          repeat' split at ht
          all_goals first | (cases ht; done) | skip
          all_goals (cases ht; exact h36)
      obtain ⟨enc, henc, h1, h2⟩ := format1_offer_exact tag t sd us hus
      refine ⟨t, ht, hus, hb, enc, henc, ?_, h2⟩
      intro u hu
      obtain ⟨k, hk⟩ := h1 u hu
      exact ⟨k, by rw [hk, hb]⟩

/-! ## non-vacuity -/

section Examples

/-- a 41-byte format-2 table: one entry (flags 0x10, sparse bit set `0D 03 31` = {0..17}), template
"{id}", default format 2 -/
private def sampleBytes : List Nat :=
  [2, 0, 0, 0, 0, 1, 1, 1, 1, 1, 1, 1, 1, 1, 1, 1, 1, 1, 1, 1, 1, 2, 0, 0, 1, 0, 0, 0, 39, 0, 0, 0, 0,
   0, 4, 123, 105, 100, 125, 16, 13, 3, 49]

example : (match decodeF2Bytes .ift sampleBytes with
    | .ok es => es.map fun e => (e.sd.cps, e.uri.bit)
    | _ => []) = [([(0, 17)], 39 * 8 + 6)] := by decide +kernel

example : (match intersectF2Bytes .ift sampleBytes ⟨[(5, 5)], .set [], .ranges []⟩ with
    | .ok us => us.map fun u => (u.bit, u.info.cps)
    | _ => []) = [(39 * 8 + 6, 1)] := by decide +kernel

/-- truncated anywhere: an error value (here: inside the sparse bit set, inside the header) -/
example : (match decodeF2Bytes .ift (sampleBytes.take 42) with | .err e => e | _ => "?")
    = "err:Malformed:Failed_to_decode_sparse_bit_set_data_stream." := by decide +kernel
example : (match decodeF2Bytes .ift (sampleBytes.take 30) with | .err e => e | _ => "?")
    = "err:OutOfBounds" := by decide +kernel

end Examples

end FontVerif.C19
