/-
C16 (lookup level) — a lookup is an ORDERED list of subtables, the first matching subtable wins;
`split_subtables` (write-fonts/src/graph/splitting.rs) replaces every split subtable IN PLACE by its
pieces and keeps the lookup header.  Model: Model/LayoutLookup.lean; helper lemmas:
Lemmas/LayoutLookup.lean.  The per-subtable split theorems are those of Props/C16.lean.
-/
import FontVerif.Props.C16
import FontVerif.Lemmas.LayoutLookup
set_option linter.unusedVariables false
namespace FontVerif.C16
open FontVerif FontVerif.Layout

/-! ## `split_subtables` on the packing graph -/

/-- **split_subtables_in_place.**  Whatever the split function returns for whichever subtables (also
for a shared subtable object that the lookup lists more than once): the lookup that
`split_subtables` writes has the SAME lookup type, lookup flag and mark filtering set; its offset
array is the old one with every entry replaced — at its own position, the order of all other
entries kept — by the entry's replacement (its pieces, or itself); and the subtable count field
equals the number of offsets written (so the reader sees exactly these subtables; before /repo
4cfebdf this failed for a split subtable that occurs twice). -/
theorem split_subtables_in_place (lk : LookupG) (splitFn : Nat → Nat → Option (List Nat))
    (out : LookupOut) (h : splitSubtables lk splitFn = some out) :
    out.subtables = lk.offsets.flatMap (replacement (collectSplits splitFn 0 lk.offsets [])) ∧
    out.subtableCount = out.offsets.length ∧
    out.lookupType = lk.lookupType ∧ out.flag = lk.flag ∧
    out.markFilteringSet = lk.markFilteringSet := by
  obtain ⟨a, b, c, d, e⟩ := splitSubtables_spec lk splitFn out h
  refine ⟨?_, b, c, d, e⟩
  unfold LookupOut.subtables
  rw [b, List.take_length, a]

/-- a replacement is either the subtable itself or the result of one of the split calls on it -/
theorem split_subtables_replacement (lk : LookupG) (splitFn : Nat → Nat → Option (List Nat)) (o : Nat) :
    replacement (collectSplits splitFn 0 lk.offsets []) o = [o] ∨
    ∃ j, splitFn j o = some (replacement (collectSplits splitFn 0 lk.offsets []) o) := by
  unfold replacement
  cases hg : splitMapGet (collectSplits splitFn 0 lk.offsets []) o with
  | none => exact Or.inl rfl
  | some ps =>
    rcases collectSplits_get splitFn lk.offsets 0 [] o ps hg with h | ⟨j, hj⟩
    · cases h
    · exact Or.inr ⟨j, by simpa using hj⟩

/-- **lookup_split_preserves_first_match** (graph level).  Give every subtable object a meaning
`sem o : Q → Option R` (what it answers to a query — a glyph pair, a (mark, base) pair).  If every
result of the split function is semantically a split (first match over the pieces = the answer of
the subtable that was split), then for EVERY query the first match over the subtables of the lookup
that `split_subtables` writes equals the first match over the original subtables: subtables that
precede a split subtable still shadow all its pieces, and all its pieces still shadow every
subtable that follows. -/
theorem lookup_split_preserves_first_match {Q R : Type} (lk : LookupG)
    (splitFn : Nat → Nat → Option (List Nat)) (sem : Nat → Q → Option R)
    (hsplit : ∀ j o ps, splitFn j o = some ps → ∀ q, ps.findSome? (fun p => sem p q) = sem o q)
    (out : LookupOut) (h : splitSubtables lk splitFn = some out) (q : Q) :
    out.subtables.findSome? (fun p => sem p q) = lk.offsets.findSome? (fun p => sem p q) := by
  rw [(split_subtables_in_place lk splitFn out h).1]
  apply findSome_flatMap_pieces
  intro o _
  rcases split_subtables_replacement lk splitFn o with h1 | ⟨j, hj⟩
  · rw [h1]; simp
  · exact hsplit j o _ hj q

/-- the only failure of `split_subtables` is a subtable count that does not fit `u16` -/
theorem split_subtables_total (lk : LookupG) (splitFn : Nat → Nat → Option (List Nat))
    (hsmall : (lk.offsets.flatMap (replacement (collectSplits splitFn 0 lk.offsets []))).length < 65536)
    (hlk : lk.offsets.length < 65536) :
    ∃ out, splitSubtables lk splitFn = some out := by
  unfold splitSubtables
  simp only
  split
  · exact ⟨_, rfl⟩
  · split
    · rename_i hge
      exfalso
      rw [List.length_flatMap] at hsmall
      have : (lk.offsets.map (fun o => ((splitMapGet (collectSplits splitFn 0 lk.offsets []) o).map
          List.length).getD 1)) = lk.offsets.map (fun a =>
            (replacement (collectSplits splitFn 0 lk.offsets []) a).length) := by
        apply List.map_congr_left
        intro o _
        unfold replacement
        cases splitMapGet (collectSplits splitFn 0 lk.offsets []) o <;> rfl
      rw [this] at hge
      omega
    · exact ⟨_, rfl⟩

/-! ## typed lookups: any subset of the subtables split at any valid points -/

/-- the split points chosen for one PairPos subtable are admissible: `none` (not split), or
non-decreasing points ending at the pair-set / class-1 count of a well-formed subtable -/
def PairSub.ValidChoice {V : Type} : PairSub V → Option (List Nat) → Prop
  | _, none => True
  | .f1 t, some pts => t.cov.WF ∧ t.pairSets.length = t.cov.glyphs.length ∧
      pts.Pairwise (· ≤ ·) ∧ pts.getLast? = some t.pairSets.length
  | .f2 t, some pts => t.cov.WF ∧ pts.Pairwise (· ≤ ·) ∧ pts.getLast? = some t.rows.length

/-- **pair_lookup_split_preserves_first_match.**  Take ANY PairPos lookup — any sequence of
format 1 and format 2 subtables — and split ANY subset of its subtables at ANY admissible split
points (in particular those of the real heuristics, `ppf1_points_valid` / `ppf2_points_valid`),
every split subtable being replaced in place by its pieces.  The split does not panic and for EVERY
glyph pair the first match of the new lookup equals the first match of the old one: a glyph-pair
subtable in front of a class subtable keeps overriding it however either of them is split. -/
theorem pair_lookup_split_preserves_first_match {V : Type} (ts : List (PairSub V))
    (choice : List (Option (List Nat))) (hv : AllValid PairSub.ValidChoice ts choice) :
    ∃ ts', splitLookupWith PairSub.splitAt ts choice = some ts' ∧
      ∀ g1 g2, firstMatchPair ts' g1 g2 = firstMatchPair ts g1 g2 := by
  obtain ⟨ts', a, b⟩ := splitLookupWith_preserves (Q := Nat × Nat) PairSub.splitAt
    (fun s q => s.lookup q.1 q.2) PairSub.ValidChoice (fun t c hvc => by
      cases c with
      | none => exact ⟨[t], rfl, fun q => by simp⟩
      | some pts =>
        cases t with
        | f1 t =>
          obtain ⟨w, l, inc, last⟩ := hvc
          obtain ⟨ps, hps, _, hq⟩ := ppf1_split_preserves t w l pts inc last
          refine ⟨ps.map .f1, by simp [PairSub.splitAt, hps], fun q => ?_⟩
          rw [List.findSome?_map]
          exact hq q.1 q.2
        | f2 t =>
          obtain ⟨w, inc, last⟩ := hvc
          obtain ⟨ps, hps, _, hq⟩ := ppf2_split_preserves t w pts inc last
          refine ⟨ps.map .f2, by simp [PairSub.splitAt, hps], fun q => ?_⟩
          rw [List.findSome?_map]
          exact hq q.1 q.2) ts choice hv
  exact ⟨ts', a, fun g1 g2 => b (g1, g2)⟩

/-- admissible split points for one MarkBasePos subtable -/
def MarkBase.ValidChoice {A : Type} : MarkBase A → Option (List Nat) → Prop
  | _, none => True
  | t, some pts => t.markCov.WF ∧ t.marks.length = t.markCov.glyphs.length ∧
      (∀ row ∈ t.bases, row.length = t.classCount) ∧
      pts.Pairwise (· ≤ ·) ∧ pts.getLast? = some t.classCount

/-- **markbase_lookup_split_preserves_first_match.**  The same for a MarkToBase lookup with any
number of subtables: every (mark, base) pair gets the same (mark anchor, base anchor) — or nothing —
from the first matching subtable before and after splitting any subset of the subtables. -/
theorem markbase_lookup_split_preserves_first_match {A : Type} (ts : List (MarkBase A))
    (choice : List (Option (List Nat))) (hv : AllValid MarkBase.ValidChoice ts choice) :
    ∃ ts', splitLookupWith MarkBase.splitAt ts choice = some ts' ∧
      ∀ m b, firstMatchMB ts' m b = firstMatchMB ts m b := by
  obtain ⟨ts', a, b⟩ := splitLookupWith_preserves (Q := Nat × Nat) MarkBase.splitAt
    (fun s q => s.lookup q.1 q.2) MarkBase.ValidChoice (fun t c hvc => by
      cases c with
      | none => exact ⟨[t], rfl, fun q => by simp⟩
      | some pts =>
        obtain ⟨w, l, r, inc, last⟩ := hvc
        obtain ⟨ps, hps, _, hq⟩ := markbase_split_preserves t w l r pts inc last
        exact ⟨ps, hps, fun q => hq q.1 q.2⟩) ts choice hv
  exact ⟨ts', a, fun m b' => b (m, b')⟩

/-- **pair_lookup_split_heuristic_preserves.**  With the split points of the REAL size heuristics
(`split_pair_pos_format_1` for sizes `sz`, `split_pair_pos_format_2` for `(gc, recSize, cd2Size)`):
a lookup `[glyph-pair subtable, class subtable]` — the shape `PairPosBuilder` compiles — keeps every
first match when both, either or none of the two subtables is split. -/
theorem pair_lookup_split_heuristic_preserves {V : Type} (t1 : PairPos1 V) (t2 : PairPos2 V)
    (h1 : t1.cov.WF) (hl : t1.pairSets.length = t1.cov.glyphs.length) (h2 : t2.cov.WF)
    (cs : Nat) (sz : List (Nat × Nat)) (hsz : sz.length = t1.pairSets.length)
    (gc : List (Nat × Nat)) (recSize cd2Size : Nat) :
    ∃ ts', splitLookupWith PairSub.splitAt [.f1 t1, .f2 t2]
        [ppf1SplitPoints cs sz, ppf2SplitPoints gc t2.rows.length recSize cd2Size] = some ts' ∧
      ∀ g1 g2, firstMatchPair ts' g1 g2 = firstMatchPair [.f1 t1, .f2 t2] g1 g2 := by
  apply pair_lookup_split_preserves_first_match
  refine ⟨?_, ?_, trivial⟩
  · cases hp : ppf1SplitPoints cs sz with
    | none => trivial
    | some pts =>
      have ⟨pw, last, _⟩ := ppf1_points_valid cs sz pts hp
      exact ⟨h1, hl, pw.imp (fun h => Nat.le_of_lt h), by rw [last, hsz]⟩
  · cases hp : ppf2SplitPoints gc t2.rows.length recSize cd2Size with
    | none => trivial
    | some pts =>
      have ⟨pw, last, _⟩ := ppf2_points_valid gc _ recSize cd2Size pts hp
      exact ⟨h2, pw.imp (fun h => Nat.le_of_lt h), last⟩

/-! ## non-vacuity -/

/-- `[A, A, B]` with the shared object `A` (id 7) split in two on both visits (fresh ids per call):
five offsets, count five, `B` (id 8) still last, header kept -/
example :
    splitSubtables ⟨2, 16, [7, 7, 8], some 9⟩
      (fun i o => if o = 7 then some [100 * (i + 1), 100 * (i + 1) + 1] else none) =
    some ⟨2, 16, 5, [200, 201, 200, 201, 8], some 9⟩ := by decide
/-- nothing split: the lookup is put back unchanged -/
example : splitSubtables ⟨4, 0, [3, 4], none⟩ (fun _ _ => none) = some ⟨4, 0, 2, [3, 4], none⟩ := by
  decide
/-- a glyph-pair subtable followed by a class subtable: splitting the first at `[1, 2]` keeps the
explicit pair (1, 7) ↦ 70 in front of the class value and pair (2, 7) ↦ 71 too -/
example :
    let t1 : PairPos1 Nat := ⟨.fmt1 [1, 2], [[(7, 70)], [(7, 71)]]⟩
    let t2 : PairPos2 Nat := ⟨.fmt1 [1, 2, 3], .fmt2 [], .fmt2 [⟨7, 7, 1⟩], [[0, 5]]⟩
    AllValid PairSub.ValidChoice [.f1 t1, .f2 t2] [some [1, 2], none] ∧
    ((splitLookupWith PairSub.splitAt [.f1 t1, .f2 t2] [some [1, 2], none]).map
      (fun ts => (ts.length, firstMatchPair ts 2 7, firstMatchPair ts 3 7))) = some (3, some 71, some 5) := by
  refine ⟨⟨⟨?_, rfl, by decide, rfl⟩, trivial, trivial⟩, by decide +kernel⟩
  exact ⟨by decide, by simp⟩

end FontVerif.C16
