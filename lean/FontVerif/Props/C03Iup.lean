/-
C03, part 3b — IUP as a whole: skrifa `Zone::iup(axis)` (zone.rs; Model/HintInterp.lean `iup`) =
FreeType `Ins_IUP` after its backward-compatibility test (ttinterp.c; Model/FtInterp.lean `iup`), for any
contour end list and any touch flags.  The invariant argument is in Lemmas/IupEq.lean: the contour scan
is the same control flow on the flags; every `iup_interpolate` call the walk makes has touched
references and writes only untouched points, the single `iup_shift` call of a contour comes before
anything of that contour was written — so the range hypothesis of the per-call equalities
(Props/C03Interp.lean) survives from call to call (`interp_step`, `shift_step`, `walk_spec`,
`contour_spec`, `loop_spec`).
-/
import FontVerif.Lemmas.IupEq
set_option linter.unusedVariables false
namespace FontVerif.C03
open FontVerif FontVerif.Tt

/-- **IUP[a]** on a whole zone: same resulting points, and none of skrifa's checked subtractions traps.
Ranges: every original, unscaled and current coordinate within ±2^29, and for every pair of TOUCHED
references the interpolation term `FT_MulFix( u − orus1, FT_DivFix( cur2 − cur1, orus2 − orus1 ) )` of every
point within ±2^30 (it is at most |cur2 − cur1| + 1 for a point between the references; see
`iup_interp_core_eq`). -/
theorem iup_eq (ax : Bool) (pts : List ZPt) (ends : List Nat) (hall : ∀ p ∈ pts, ZPos29 p)
    (hterm : IupTerm ax pts) :
    HintInterp.iup ax pts ends = some (FtInterp.iup ax pts ends) := by
  have c29 : ∀ v : Vec, Pos29 v → Dist29 (FtInterp.co ax v) := by
    intro v hv; unfold FtInterp.co; split; exact hv.1; exact hv.2
  have hinv : IupInv ax pts 0 := by
    refine ⟨?_, ?_, hterm⟩
    · intro p hp
      have h := hall p hp
      exact ⟨c29 _ h.1, c29 _ h.2.2, fun _ => c29 _ h.2.1⟩
    · intro i p hp _
      exact c29 _ (hall p (List.mem_of_getElem? hp)).2.1
  unfold HintInterp.iup FtInterp.iup
  exact loop_spec ax ends pts 0 0 hinv (Nat.le_refl _)

-- a contour of four points: 0 and 2 touched (moved by +64 and +128 in y), 1 in between → interpolated,
-- 3 beyond both → shifted with the nearer reference; second contour with a single touched point → shift
example :
    let z : List ZPt := [⟨⟨0, 0⟩, ⟨0, 64⟩, ⟨0, 0⟩, false, true, true⟩, ⟨⟨100, 500⟩, ⟨100, 500⟩, ⟨100, 500⟩, false, false, true⟩,
      ⟨⟨200, 1000⟩, ⟨200, 1128⟩, ⟨200, 1000⟩, false, true, true⟩, ⟨⟨300, 1200⟩, ⟨300, 1200⟩, ⟨300, 1200⟩, false, false, true⟩,
      ⟨⟨0, 0⟩, ⟨0, 32⟩, ⟨0, 0⟩, false, true, true⟩, ⟨⟨50, 70⟩, ⟨50, 70⟩, ⟨50, 70⟩, false, false, true⟩]
    (HintInterp.iup false z [3, 5]).map (fun l => l.map fun p => p.cur.y) = some [64, 596, 1128, 1328, 32, 102]
    ∧ (FtInterp.iup false z [3, 5]).map (fun p => p.cur.y) = [64, 596, 1128, 1328, 32, 102] := by decide

end FontVerif.C03
