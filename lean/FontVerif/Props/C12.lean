/-
C12 — drawing is well-formed and independent of buffers (theorems over Model/ToPath.lean,
Model/Carve.lean, Model/DrawInst.lean).
-/
import FontVerif.Lemmas.ToPath
import FontVerif.Lemmas.Carve
import FontVerif.Model.DrawInst
import FontVerif.Lemmas.HintState
import FontVerif.Gen.C12Src
set_option linter.unusedVariables false
namespace FontVerif.C12
open FontVerif FontVerif.ToPath FontVerif.Carve FontVerif.DrawInst FontVerif.HintState

/-! ## 1. path grammar -/

/-- **Path grammar.** Whenever `to_path` returns `Ok`, the pen has received `(MoveTo Seg* Close)*`:
every contour is exactly one move, then line/quad/cubic segments, then one close, and no command
lies outside a contour.  For every coordinate type, both path styles, all point/flag/contour arrays. -/
theorem to_path_grammar (C : Coord) (style : Style) (pts : List (Int × Int)) (flags : List Nat)
    (contours : List Nat) (h : (toPath C style pts flags contours).2 = none) :
    Grammar (toPath C style pts flags contours).1 := by
  have := toPathGo_wf C style pts flags contours 0 0 h
  exact wellFormed_grammar _ _ (Nat.le_refl _) this

/-- the executable check the harness runs on real pen streams accepts exactly the grammar -/
theorem wellFormed_iff_grammar (l : List Cmd) : wellFormed l = true ↔ Grammar l :=
  ⟨wellFormed_grammar _ l (Nat.le_refl _), grammar_wellFormed l⟩

/-- **Totality without cubic flags.** If no flag has the `OFF_CURVE_CUBIC` bit and the contour end
points are non-decreasing and inside both arrays, `to_path` cannot fail (so every `glyf` simple glyph
without cubic flags yields a grammatical path). -/
theorem to_path_total_without_cubics (C : Coord) (style : Style) (pts : List (Int × Int))
    (flags : List Nat) (contours : List Nat) (hf : ∀ f ∈ flags, isCubic f = false)
    (hv : ContoursValid pts.length flags.length contours 0) :
    (toPath C style pts flags contours).2 = none :=
  toPathGo_total C style pts flags hf contours 0 0 hv

/-- **Error characterisation per contour.** `contour_to_path` fails exactly when the flag *kinds* of
the points it feeds to `PendingState::emit` are rejected by the four-state automaton `stepK`
(`contourOk` spells out which points are fed, per style). Coordinates never influence success. -/
theorem contour_error_iff_bad_flag_sequence (C : Coord) (style : Style) (pts : List Pt) (last : Pt) :
    (contourToPath C style pts last).2 = none ↔ contourOk style (pts.map (·.flags)) last.flags = true :=
  contourToPath_ok_iff C style pts last

/-- **Exact success condition for the whole outline.** `to_path` returns `Ok` iff the contour end
points are non-decreasing, inside the point and flag arrays, and every contour's flag sequence is
accepted (`toPathOkGo` is a function of the path style, the *number* of points, the flags and the
contour ends only): coordinates never decide between success and error. -/
theorem to_path_ok_iff (C : Coord) (style : Style) (pts : List (Int × Int)) (flags : List Nat)
    (contours : List Nat) :
    (toPath C style pts flags contours).2 = none ↔
      toPathOkGo style pts.length flags contours 0 = true :=
  toPathGo_ok_iff C style pts flags contours 0 0

/-- **Start point.** The first pen call of a contour is the `MoveTo` to: the first point if it is
on-curve; otherwise (off-curve quad) for FreeType style the last point if that is on-curve, else the
midpoint of last and first; for HarfBuzz style the second point if on-curve, else the midpoint of
first and second.  (An off-curve cubic first point, an empty contour and a HarfBuzz single off-curve
point produce no pen call at all.) -/
theorem contour_start_point (C : Coord) (style : Style) (pts : List Pt) (last : Pt) :
    (contourToPath C style pts last).1.head? =
      (startPoint C style pts last).map (fun p => Cmd.move (C.out p.x) (C.out p.y)) :=
  contourToPath_head C style pts last

/-- **Finite coordinates** (26.6 / 16.16 / i32 instantiation). If all input coordinates are `i32`s,
every coordinate handed to the pen — also on the error path — is `v as f32` of an `i32`, an integer of
magnitude ≤ 2³¹ before the constant power-of-two scale: never NaN or infinite.  (The wrapping
midpoint `a.wrapping_add(b) / 2` stays an `i32`.) -/
theorem to_path_coords_finite (style : Style) (pts : List (Int × Int)) (flags : List Nat)
    (contours : List Nat) (hp : ∀ xy ∈ pts, inI32 xy.1 ∧ inI32 xy.2) :
    ∀ c ∈ (toPath fixedCoord style pts flags contours).1, ∀ v ∈ c.coords,
      -2147483648 ≤ v ∧ v ≤ 2147483648 :=
  toPathGo_coords fixedCoord inI32 (fun v => -2147483648 ≤ v ∧ v ≤ 2147483648)
    (fun a b _ _ => midI32_inI32 a b) (fun v hv => f32RoundInt_bound v hv) style pts flags hp contours 0 0

-- non-vacuity: a triangle with an off-curve start, both styles; an error case
example : toPath fixedCoord .freeType [(640, 128), (256, 64), (640, 64), (128, 128)] [0, 0, 0, 0] [3]
    = ([.move 384 128, .quad 640 128 448 96, .quad 256 64 448 64, .quad 640 64 384 96,
        .quad 128 128 384 128, .close], none) := by decide
example : toPath fixedCoord .harfBuzz [(640, 128), (256, 64), (640, 64), (128, 128)] [0, 1, 0, 0] [3]
    = ([.move 256 64, .quad 640 64 384 96, .quad 128 128 384 128, .quad 640 128 256 64, .close], none) := by
  decide
example : (toPath fixedCoord .freeType [(0, 0), (1, 1), (2, 2)] [1, 128, 0] [2]).2
    = some (.expectedCubic 2) := by decide
example : (toPath fixedCoord .freeType [(0, 0)] [1] [0, 0]).2 = some (.contourOrder 1) := by decide
example : wellFormed [.move 0 0, .close, .move 1 1, .line 2 2, .close] = true := by decide
example : wellFormed [.move 0 0, .move 1 1, .close] = false := by decide
example : wellFormed [.move 0 0, .line 1 1] = false := by decide
example : wellFormed [.line 1 1, .close] = false := by decide

/-! ## 2. scratch-memory carving -/

/-- what the caller is promised about a successful carve of `prog` out of `b` -/
def GoodLayout (prog : List Entry) (b : Buf) (ss : List Slice) : Prop :=
  -- one slice per `alloc_slice` call, with the requested name / element count / element size
  ss.map (fun s => (s.name, s.count, s.size)) = prog.map (fun e => (e.name, e.count, e.size)) ∧
  -- every non-empty slice lies inside the caller's buffer
  (∀ s ∈ ss, s.count ≠ 0 → b.addr ≤ s.addr ∧ s.addr + s.bytes ≤ b.addr + b.len) ∧
  -- non-empty slices are pairwise disjoint
  ss.Pairwise (fun s t => s.count ≠ 0 → t.count ≠ 0 → s.addr + s.bytes ≤ t.addr) ∧
  -- every non-empty slice is aligned for its element type
  (∀ p ∈ prog.zip ss, p.2.count ≠ 0 → p.2.addr % p.1.align = 0)

theorem carve_good (prog : List Entry) (b : Buf) (ss : List Slice) (hal : AllAlign prog)
    (hb : b.addr + b.len < 18446744073709551616) (h : carve prog b = some ss) : GoodLayout prog b ss := by
  have hl := carve_laid prog b ss hal hb h
  exact ⟨laid_meta _ _ _ _ hl, laid_within _ _ _ _ hl, laid_disjoint _ _ _ _ hl, laid_aligned _ _ _ _ hl⟩

/-- **Buffer independence core (FreeType-style scaler).** For every glyph metric record, hinting
choice, base address (any alignment) and every buffer at least as long as
`Outline::required_buffer_size` advertises, `FreeTypeOutlineMemory::new` succeeds, and the slices have
the requested lengths, lie inside the buffer, are pairwise disjoint and aligned. -/
theorem ft_carve_sufficient (c : Counts) (embedded : Bool) (b : Buf)
    (hb : b.addr + b.len < 18446744073709551616) (hlen : requiredBufferSize c embedded ≤ b.len) :
    ∃ ss, ftCarve c embedded b = some ss ∧ GoodLayout (ftProgram c embedded) b ss := by
  have hal := chain_allAlign _ 4 (ft_chain c embedded)
  have hs : (carve (ftProgram c embedded) b).isSome = true :=
    (carve_isSome_iff _ b hal hb).mpr (Nat.le_trans (ft_need_le c embedded b.addr) hlen)
  obtain ⟨ss, hss⟩ := Option.isSome_iff_exists.mp hs
  exact ⟨ss, hss, carve_good _ b ss hal hb hss⟩

/-- whenever `FreeTypeOutlineMemory::new` succeeds (also on buffers shorter than advertised), the
layout is good -/
theorem ft_carve_good (c : Counts) (embedded : Bool) (b : Buf) (ss : List Slice)
    (hb : b.addr + b.len < 18446744073709551616) (h : ftCarve c embedded b = some ss) :
    GoodLayout (ftProgram c embedded) b ss :=
  carve_good _ b ss (chain_allAlign _ 4 (ft_chain c embedded)) hb h

/-- **Exact failure condition.** The carve fails (`InsufficientMemory`) iff the buffer is shorter than
the payload plus the padding the base address forces (`need`); in particular a buffer smaller than
the payload always fails. -/
theorem ft_carve_none_iff (c : Counts) (embedded : Bool) (b : Buf)
    (hb : b.addr + b.len < 18446744073709551616) :
    ftCarve c embedded b = none ↔ b.len < need (ftProgram c embedded) b.addr := by
  have := carve_isSome_iff (ftProgram c embedded) b (chain_allAlign _ 4 (ft_chain c embedded)) hb
  unfold ftCarve
  cases h : carve (ftProgram c embedded) b with
  | none => rw [h] at this; simp at this; simp; omega
  | some ss => rw [h] at this; simp at this; simp; omega

/-- the advertised size is tight up to the alignment slack: 4 bytes less than advertised already
fails at a suitably misaligned base -/
example : ftCarve ⟨10, 4, 4, 4, 4, 0, 0, 0, 0, false, true⟩ false ⟨1, 230 - 4⟩ = none := by decide
example : requiredBufferSize ⟨10, 4, 4, 4, 4, 0, 0, 0, 0, false, true⟩ false = 230 := by decide
example : (ftCarve ⟨10, 4, 4, 4, 4, 0, 0, 0, 0, false, true⟩ false ⟨1, 230⟩).isSome = true := by decide

/-- **The layout does not depend on the buffer length.** Two successful carves at the same base
address give the same slices, however long the buffers are. -/
theorem ft_carve_length_independent (c : Counts) (embedded : Bool) (a l1 l2 : Nat) (s1 s2 : List Slice)
    (h1 : a + l1 < 18446744073709551616) (h2 : a + l2 < 18446744073709551616)
    (hs1 : ftCarve c embedded ⟨a, l1⟩ = some s1) (hs2 : ftCarve c embedded ⟨a, l2⟩ = some s2) : s1 = s2 := by
  have hal := chain_allAlign _ 4 (ft_chain c embedded)
  rw [carve_eq_layoutAt _ _ s1 hal h1 hs1, carve_eq_layoutAt _ _ s2 hal h2 hs2]

/-- **The layout depends on the base address only through its residue modulo 4.** Moving the buffer by
a multiple of 4 moves every non-empty slice by exactly that amount (so offsets relative to the
buffer start are unchanged). -/
theorem ft_carve_base_shift (c : Counts) (embedded : Bool) (a k l1 l2 : Nat) (s1 s2 : List Slice)
    (h1 : a + l1 < 18446744073709551616) (h2 : a + 4 * k + l2 < 18446744073709551616)
    (hs1 : ftCarve c embedded ⟨a, l1⟩ = some s1) (hs2 : ftCarve c embedded ⟨a + 4 * k, l2⟩ = some s2) :
    s2 = s1.map (fun s => if s.count = 0 then s else { s with addr := s.addr + 4 * k }) := by
  have hal := chain_allAlign _ 4 (ft_chain c embedded)
  rw [carve_eq_layoutAt _ _ s1 hal h1 hs1, carve_eq_layoutAt _ _ s2 hal h2 hs2]
  exact layoutAt_shift _ a k hal

/-- a buffer sized for `Hinting::Embedded` is also large enough for the unhinted fallback that a
disabled hinting instance takes (`OutlineGlyph::draw`, `!hinting_instance.is_enabled()`) -/
theorem required_size_monotone_in_hinting (c : Counts) :
    requiredBufferSize c false ≤ requiredBufferSize c true := by
  unfold requiredBufferSize
  cases c.hasHinting <;> cases c.hasVariations <;> simp <;> (repeat' split) <;> omega

/-- **HarfBuzz-style scaler.** `HarfBuzzOutlineMemory::new` interleaves 4-aligned slices with the
`u16`/`u8` slices, so it may pad twice (≤ 6 bytes) while `required_buffer_size` adds 4 bytes of slack.
It is nevertheless sufficient because the advertised size also counts the `unscaled` buffer
(`max_other_points · 8`) that this scaler never carves — or because there are no variation buffers. -/
theorem hb_carve_sufficient (c : Counts) (b : Buf)
    (hb : b.addr + b.len < 18446744073709551616) (hlen : requiredBufferSize c false ≤ b.len)
    (hslack : 1 ≤ c.maxOtherPoints ∨ c.hasVariations = false) :
    ∃ ss, hbCarve c b = some ss ∧ GoodLayout (hbProgram c) b ss := by
  have hal := hb_allAlign c
  have hneed : need (hbProgram c) b.addr ≤ b.len := by
    rcases hslack with h1 | h0
    · have := hb_need_le c b.addr
      have hr : total (hbHead c) + total (hbTail c) + 6 ≤ requiredBufferSize c false := by
        unfold requiredBufferSize
        simp only [hbHead, hbTail, total, Carve.cond, Bool.and_false]
        cases c.hasVariations <;> simp <;> (repeat' split) <;> omega
      omega
    · rw [hb_split, need_append]
      have hz : need (hbTail c) (b.addr + need (hbHead c) b.addr) = 0 := by
        apply need_zero
        intro e he
        simp only [hbTail, h0, Carve.cond, List.mem_cons, List.mem_nil_iff, or_false] at he
        rcases he with rfl | rfl | rfl <;> rfl
      have h1 := need_le (hbHead c) b.addr 4 (by omega) (hbHead_chain c)
      have hr : requiredBufferSize c false =
          if total (hbHead c) + c.maxOtherPoints * 8 = 0 then 0
          else total (hbHead c) + c.maxOtherPoints * 8 + 4 := by
        unfold requiredBufferSize
        simp only [hbHead, total, h0, Bool.and_false]
        simp; (repeat' split) <;> omega
      rw [hz]
      by_cases ht : total (hbHead c) = 0
      · have hc0 : ∀ e ∈ hbHead c, e.count = 0 := by
          apply total_zero_counts _ _ ht
          intro e he
          simp only [hbHead, List.mem_cons, List.mem_nil_iff, or_false] at he
          rcases he with rfl | rfl | rfl <;> simp
        rw [need_zero _ _ hc0]; omega
      · rw [hr] at hlen
        split at hlen <;> omega
  have hs : (carve (hbProgram c) b).isSome = true := (carve_isSome_iff _ b hal hb).mpr hneed
  obtain ⟨ss, hss⟩ := Option.isSome_iff_exists.mp hs
  exact ⟨ss, hss, carve_good _ b ss hal hb hss⟩

/-- the phantom-points-only case: no second padding can occur -/
theorem hb_need_phantom_only (c : Counts) (a : Nat)
    (h : c.points = 4 ∧ c.contours = 0 ∧ c.maxSimplePoints = 0) :
    need (hbProgram c) a ≤ requiredBufferSize c false := by
  obtain ⟨hp, hc, hs⟩ := h
  unfold requiredBufferSize
  simp only [hbProgram, need, Carve.cond, hp, hc, hs, Bool.and_false]
  cases c.hasVariations <;> simp [pad] <;> (repeat' split) <;> omega

/-- **HarfBuzz-style scaler on real glyphs.** For every metric record that `Outlines::outline`
can return (any glyph tree, any font limits), a buffer of the advertised size suffices for
`HarfBuzzOutlineMemory::new` at every base address: either a simple glyph was reached (then
`max_other_points ≥ 5` buys 40 spare bytes) or only the four phantom points are carved. -/
theorem hb_carve_sufficient_for_outlines (f : FontLimits) (g : Option Glyph) (c : Counts) (b : Buf)
    (hc : outlineCounts f g = some c)
    (hb : b.addr + b.len < 18446744073709551616) (hlen : requiredBufferSize c false ≤ b.len) :
    ∃ ss, hbCarve c b = some ss ∧ GoodLayout (hbProgram c) b ss := by
  rcases outlineCounts_inv f g c hc with h1 | h2
  · exact hb_carve_sufficient c b hb hlen (Or.inl h1)
  · have hal := hb_allAlign c
    have hneed := Nat.le_trans (hb_need_phantom_only c b.addr h2) hlen
    have hs : (carve (hbProgram c) b).isSome = true := (carve_isSome_iff _ b hal hb).mpr hneed
    obtain ⟨ss, hss⟩ := Option.isSome_iff_exists.mp hs
    exact ⟨ss, hss, carve_good _ b ss hal hb hss⟩

-- non-vacuity: a composite of a simple glyph, an empty glyph and a hinted nested composite
example : outlineCounts ⟨10, 5, 6, 7, true⟩
    (some (.composite [some (.simple 3 2 false), none, some (.composite [some (.simple 1 1 false)] true)] false))
    = some ⟨8, 3, 7, 7, 12, 10, 5, 6, 7, true, true⟩ := by decide
-- a composite whose components are all empty: phantom points only, `max_other_points = 0`
example : outlineCounts ⟨0, 0, 0, 0, true⟩ (some (.composite [none, none] false))
    = some ⟨4, 0, 0, 0, 6, 0, 0, 0, 0, false, true⟩ := by decide

/-- the side condition of `hb_carve_sufficient` is needed: for metric records that
`Outlines::outline` never produces (`max_other_points = 0` with points and variation buffers), a
buffer of the advertised size at base address ≡ 1 (mod 4) is too small -/
example : hbCarve ⟨1, 0, 1, 0, 0, 0, 0, 0, 0, false, true⟩ ⟨1, requiredBufferSize ⟨1, 0, 1, 0, 0, 0, 0, 0, 0, false, true⟩ false⟩
    = none := by decide

/-! ## 3. zero-location elision -/

/-- **All-zero location ≙ no location.** `effective_coords` of an all-zero coordinate vector (of
any length) is the empty slice — the same value `LocationRef::default()` yields. -/
theorem effective_coords_zero (coords : List Int) (h : ∀ c ∈ coords, c = 0) :
    effectiveCoords coords = effectiveCoords [] := by
  unfold effectiveCoords isDefault
  have : coords.all (fun c => c == 0) = true := by
    rw [List.all_eq_true]; intro c hc; simp [h c hc]
  simp [this]

/-- a vector with a non-zero entry is passed through unchanged -/
theorem effective_coords_nonzero (coords : List Int) (h : ∃ c ∈ coords, c ≠ 0) :
    effectiveCoords coords = coords := by
  unfold effectiveCoords isDefault
  obtain ⟨c, hc, hne⟩ := h
  have h1 : coords.isEmpty = false := by cases coords <;> simp_all
  have h2 : coords.all (fun c => c == 0) = false := by
    rw [List.all_eq_false]; exact ⟨c, hc, by simp [hne]⟩
  simp [h1, h2]

example : effectiveCoords [0, 0, 0] = [] := by decide
example : effectiveCoords [0, 5, 0] = [0, 5, 0] := by decide

/-! ## 4. per-draw copies and instance reuse (interpreter abstracted) -/

/-- **The copy-on-write CVT / storage slices do not depend on the scratch buffer.** Whatever bytes the
caller's buffer held (`g`, `g'`), every sequence of interpreter reads and writes observes exactly
what a private array initialised from the instance's values would show. -/
theorem cow_buffer_independent (data g g' : List Int) (ops : List CowOp)
    (hg : g.length = data.length) (hg' : g'.length = data.length) :
    (Cow.new data g).map (·.run ops) = some (arrRun data ops) ∧
    (Cow.new data g').map (·.run ops) = some (arrRun data ops) := by
  unfold Cow.new
  simp only [hg, hg', ne_eq, not_true_eq_false, if_false, Option.map_some]
  exact ⟨by rw [cow_run_view]; rfl, by rw [cow_run_view]; rfl⟩

/-- **Glyph programs never write through to the shared instance**: the `data` side (the
`HintInstance`'s `cvt` / `storage`) is unchanged by every operation. -/
theorem cow_never_writes_shared (c : Cow) (op : CowOp) : (c.step op).1.data = c.data :=
  (cow_step_view c op).2.2

/-- mismatching lengths are rejected (`hint()` unwraps this: see report) -/
example : Cow.new [1, 2, 3] [0, 0] = none := by decide
example : (Cow.new [1, 2, 3] [9, 9, 9]).map (·.run [.get 1, .set 1 7, .get 1, .get 0, .set 5 1, .len])
    = some [.got (some 2), .didSet true, .got (some 7), .got (some 1), .didSet false, .length 3] := by decide

/-- **Reconfiguring is history independent.** For every interpreter (`run`: any function of the state
handed to `Engine::new`), every previous instance state `s`, `s'` and every configuration, the result
of `HintInstance::reconfigure` is the same.  (All vectors but `instructions` are cleared before being
resized; `instructions` is only resized and is safe because `Engine::reset(Program::Font)` fills both
definition maps with the default — the proof uses exactly that.) -/
theorem reconfigure_history_independent {G E : Type} (run : EngineState G → Except E (EngineState G))
    (s s' : Inst G) (c : Cfg G) : reconfigure run s c = reconfigure run s' c := by
  unfold reconfigure setup
  simp only [resetDefs_resize]

/-- in particular a reused instance equals a fresh (`Default`) one -/
theorem reconfigure_reused_eq_fresh {G E : Type} (run : EngineState G → Except E (EngineState G))
    (s : Inst G) (c : Cfg G) (g0 : G) :
    reconfigure run s c = reconfigure run ⟨[], [], [], [], g0, [], [], [], 0, 0⟩ c :=
  reconfigure_history_independent run s _ c

-- non-vacuity: an "interpreter" that defines instruction 0 and writes storage; a dirty previous state
def exRun : EngineState Nat → Except Unit (EngineState Nat) := fun es =>
  .ok { es with instructions := es.instructions.set 0 (some (1, 2, 165, 0)), storage := es.storage.set 1 640 }
def exDirty : Inst Nat :=
  ⟨[some (0, 0, 0, 0)], [some (5, 6, 7, 8), some (1, 1, 1, 1)], [1], [2, 3], 9, [(1, 1)], [(2, 2)], [1], 3, 4⟩
def exCfg : Cfg Nat := ⟨1, 2, [64], 3, 1, 0, 8, 0, 1⟩
example : (reconfigure exRun exDirty exCfg).toOption.map
      (fun i => (i.instructions, i.storage, i.functions, i.graphics, i.twilightScaled))
    = some ([some (1, 2, 165, 0), none], [0, 640, 0], [none], 1, [(0, 0)]) := by rfl

/-! ## 5. tie to the source text (data regenerated by translate/c12_src.py on every run) -/

theorem cond_true (n : Nat) : Carve.cond true n = n := rfl

open FontVerif.Gen.C12Src in
/-- the model's carve program *is* the sequence of `alloc_slice` calls found in
`FreeTypeOutlineMemory::new` (order, element sizes/alignments from the struct's field types, count
fields, conditions) -/
theorem ft_program_is_source (c : Counts) (embedded : Bool) :
    ftProgram c embedded = ftShapeSrc.map (instantiate c embedded) := by
  simp [ftProgram, ftShapeSrc, instantiate, condHolds, Counts.field, cond_true]

open FontVerif.Gen.C12Src in
theorem hb_program_is_source (c : Counts) :
    hbProgram c = hbShapeSrc.map (instantiate c false) := by
  simp [hbProgram, hbShapeSrc, instantiate, condHolds, Counts.field, cond_true]

open FontVerif.Gen.C12Src in
/-- the model's size formula is the linear form obtained by executing the statements of
`Outline::required_buffer_size` symbolically -/
theorem required_size_is_source (c : Counts) (embedded : Bool) :
    requiredBufferSize c embedded = evalSizeTable sizeTableSrc c (c.hasHinting && embedded) := by
  unfold requiredBufferSize evalSizeTable
  cases (c.hasHinting && embedded) <;> cases hv : c.hasVariations <;>
    simp [sizeTableSrc, List.find?, Counts.field] <;> (repeat' split) <;> omega

open FontVerif.Gen.C12Src in
/-- struct declaration orders used for rendering; field/action table of `HintInstance::setup`; and
the completeness of the reset: no field of `struct HintInstance` survives a reconfigure -/
theorem source_tables_match_model :
    ftFieldOrder = ftFieldOrderSrc ∧
    instFieldsSrc = setupActions ∧
    resetComplete instFieldsSrc fontResetSrc = true := by decide

end FontVerif.C12
