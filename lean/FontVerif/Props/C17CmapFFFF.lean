/-
C17 — cmap format 4 for retained lists that CONTAIN U+FFFF (klippa/src/cmap.rs `to_ranges`: no terminating segment after a
range that ends at 0xFFFF; `Cmap4::serialize`).  Reader = C08's model of read-fonts `Cmap4::map_codepoint` (`map4`), through
the no-sentinel variants of C08's reader lemmas (Lemmas/Cmap4NoSentinel.lean).  Format 12 needs nothing new:
`C17Cmap.fmt12_lookup` already allows U+FFFF.
-/
import FontVerif.Lemmas.SubsetCmap4FFFF
import FontVerif.Props.C17Cmap
set_option linter.unusedVariables false
namespace FontVerif.C17CmapFFFF
open FontVerif FontVerif.Cmap FontVerif.SubsetCmap

/-- the last code point of a non-empty ascending BMP list that lists U+FFFF is U+FFFF -/
theorem last_is_ffff (l : Mapping) (hd : InDomainF l) (g : Nat) (hmem : (0xFFFF, g) ∈ l) :
    cpAt l.toArray (l.length - 1) = 0xFFFF := by
  obtain ⟨k, hk, hkv⟩ := List.getElem_of_mem hmem
  have hn : 0 < l.length := by omega
  obtain ⟨e1, _⟩ := index_view l (l.length - 1) (by omega)
  rw [e1]
  have hle := hd.cp _ (List.getElem_mem (show l.length - 1 < l.length by omega))
  by_cases hkl : k = l.length - 1
  · subst hkl; rw [hkv]
  · have := (List.pairwise_iff_getElem.1 hd.asc) k (l.length - 1) hk (by omega) (by omega)
    rw [hkv] at this
    simp only at this
    omega

/-- **fmt4_lookup_with_ffff_any_heuristic.**  For every strictly ascending list of BMP pairs that lists U+FFFF (glyph ids
1..=0xFFFF) and ANY outcome of the cost heuristic: if `Cmap4::serialize` returns a table — which then has NO terminating
(0xFFFF, 0xFFFF, 1, 0) segment, its last ordinary segment ends at 0xFFFF — read-fonts' `map_codepoint` answers `some v`
for `c` exactly when `(c, v)` is a listed pair: every retained code point, U+FFFF included, gets its remapped glyph id,
nothing else is mapped. -/
theorem fmt4_lookup_with_ffff_any_heuristic (h : Heur) (l : Mapping) (hd : InDomainF l) (g : Nat)
    (hmem : (0xFFFF, g) ∈ l) (t : Cmap4) (ht : build4With h l = .ok t) (c v : Nat) :
    map4 t c = some v ↔ (c, v) ∈ l :=
  lookup_ffff h l hd (List.ne_nil_of_mem hmem) (last_is_ffff l hd g hmem) t ht c v

/-- **fmt4_lookup_bmp_complete.**  The format 4 lookup statement without the "no U+FFFF" restriction, implemented heuristic:
for EVERY non-empty strictly ascending BMP list with glyph ids 1..=0xFFFF, whenever `Cmap4::serialize` returns a table,
`map_codepoint c = some v` iff `(c, v)` is listed — or `c` is U+FFFF, U+FFFF is NOT listed and `v = 0` (the terminating
segment, which is written exactly in that case). -/
theorem fmt4_lookup_bmp_complete (l : Mapping) (hd : InDomainF l) (hne : l ≠ [])
    (t : Cmap4) (ht : build4 l = .ok t) (c v : Nat) :
    map4 t c = some v ↔ (c, v) ∈ l ∨ (c = 0xFFFF ∧ v = 0 ∧ ∀ g, (0xFFFF, g) ∉ l) := by
  by_cases hf : ∃ g, (0xFFFF, g) ∈ l
  · obtain ⟨g, hg⟩ := hf
    rw [fmt4_lookup_with_ffff_any_heuristic implHeur l hd g hg t ht c v]
    constructor
    · exact Or.inl
    · rintro (h1 | ⟨_, _, h3⟩)
      · exact h1
      · exact absurd hg (h3 g)
  · have hno : ∀ g, (0xFFFF, g) ∉ l := fun g hg => hf ⟨g, hg⟩
    have hd' : InDomain l := ⟨hd.asc, fun p hp => ⟨by have := hd.cp p hp; omega, fun h => hno p.2 (by rw [← h]; exact hp)⟩, hd.gid⟩
    rw [C17Cmap.fmt4_lookup l hd' hd.cp hne t ht c v]
    constructor
    · rintro (h1 | ⟨h1, h2⟩)
      · exact Or.inl h1
      · exact Or.inr ⟨h1, h2, hno⟩
    · rintro (h1 | ⟨h1, h2, _⟩)
      · exact Or.inl h1
      · exact Or.inr ⟨h1, h2⟩

/-! ## non-vacuity -/

def exL : Mapping := [(0x41, 7), (0x42, 8), (0xFFFD, 3), (0xFFFE, 4), (0xFFFF, 9)]

example : InDomainF exL := ⟨by unfold Ascending exL; decide, by decide, by decide⟩
def exT : Cmap4 :=
  { endCode := #[0x42, 0xFFFF], startCode := #[0x41, 0xFFFD], idDelta := #[-58, 0],
    idRangeOffsets := #[0, 2], glyphIdArray := #[3, 4, 9] }

/-- the writer succeeds and writes no terminator: the last segment ends at 0xFFFF -/
example : build4 exL = .ok exT := by decide
example : [0x41, 0x42, 0x43, 0xFFFC, 0xFFFD, 0xFFFE, 0xFFFF].map (map4 exT) =
    [some 7, some 8, none, none, some 3, some 4, some 9] := by decide

end FontVerif.C17CmapFFFF
