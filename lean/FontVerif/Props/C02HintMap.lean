/-
C02 — the CFF hinter's hint map never overruns its 96-slot edge array (skrifa/src/outline/cff/hint.rs HintMap::insert).
Model: Model/HintMap.lean (checked array accesses: `none` = index-out-of-bounds panic); helpers: Lemmas/HintMap.lean.
-/
import FontVerif.Lemmas.HintMap
set_option linter.unusedVariables false
namespace FontVerif.C02
open FontVerif.HintMap

/-- `insert` never indexes out of bounds: on a well-formed map it returns, the map stays well formed
    (`len <= MAX_HINTS`, the invariant every later `edges[..len]` / `edges[i]` relies on) and grows by 0, 1 or 2 edges. -/
theorem insert_total (m : Map) (bottom top : Hint) (h : WF m) :
    ∃ m', HintMap.insert m bottom top = some m' ∧ Step m m' := by
  unfold HintMap.insert insertWith
  simp only []
  generalize hp : (bottom.isValid && top.isValid) = isPair
  generalize (if (!bottom.isValid) = true then top else bottom) = first
  by_cases h1 : (isPair && decide (top.cs < bottom.cs)) = true
  · simp only [h1, if_true]; exact ⟨m, rfl, step_refl h⟩
  · simp only [h1]
    generalize hcnt : (if isPair = true then 2 else 1) = cnt
    have hc : 1 ≤ cnt ∧ cnt ≤ 2 ∧ (isPair = true → cnt = 2) := by
      subst hcnt; cases isPair <;> simp
    by_cases h2 : wontFit m.len cnt = true
    · simp only [h2, if_true]; exact ⟨m, rfl, step_refl h⟩
    · simp only [h2]
      have hroom : m.len + cnt ≤ MAX_HINTS := by
        simp only [wontFit, decide_eq_true_eq] at h2; omega
      obtain ⟨ix, hix, _, hixle⟩ := findIx_ok m.edges m.len first.cs (by have := h.1; have := h.2; omega) m.len 0 (by omega)
      obtain ⟨b, hb⟩ := discard_ok m first top isPair ix h hixle
      simp only [hix, hb]
      cases b with
      | true => exact ⟨m, rfl, step_refl h⟩
      | false => exact place_ok m first top isPair cnt ix h hixle hroom hc.1 hc.2.1 hc.2.2

/-- any sequence of inserts (one per stem hint, whatever the font says) on a well-formed map returns a well-formed
    map: the 96-slot array is never overrun -/
theorem insertAll_total (ops : List (Hint × Hint)) : ∀ (m : Map), WF m →
    ∃ m', insertAll m ops = some m' ∧ WF m' ∧ m'.len ≤ m.len + 2 * ops.length := by
  induction ops with
  | nil => intro m h; exact ⟨m, rfl, h, by simp⟩
  | cons op rest ih =>
    intro m h
    obtain ⟨b, t⟩ := op
    obtain ⟨m1, h1, hs⟩ := insert_total m b t h
    obtain ⟨m2, h2, hw2, hl2⟩ := ih m1 hs.1
    refine ⟨m2, by simp only [insertAll, h1, h2], hw2, ?_⟩
    have := hs.2.2
    simp only [List.length_cons]; omega

theorem new_wf : WF Map.new := by
  simp [WF, Map.new, MAX_HINTS]

/-- The invariant as the property needs it: starting from `HintMap::new`, after ANY sequence of `insert` calls the
    code has not panicked and `len <= 96`. -/
theorem hint_map_never_overruns (ops : List (Hint × Hint)) :
    ∃ m', insertAll Map.new ops = some m' ∧ m'.len ≤ MAX_HINTS ∧ m'.edges.length = MAX_HINTS := by
  obtain ⟨m', h, hw, _⟩ := insertAll_total ops Map.new new_wf
  exact ⟨m', h, hw.2, hw.1⟩


/-! ### non-vacuity, and what the capacity check is for -/

/-- the off-by-one variant of the capacity check ("is the map already full?") -/
def fullOnly (len _cnt : Nat) : Bool := len ≥ MAX_HINTS

def ghost (y : Int) : Hint × Hint := ({ flags := 1, cs := y, ds := y }, { flags := 0, cs := 0, ds := 0 })
def pair (y : Int) : Hint × Hint := ({ flags := 4, cs := y, ds := y }, { flags := 8, cs := y + 4, ds := y + 4 })
/-- one single-edge ghost stem + 47 stem pairs, ascending: 95 edges -/
def ops95 : List (Hint × Hint) := ghost 79 :: (List.range 47).map (fun (i : Nat) => pair (82 + 7 * (i : Int)))

/-- the map after `ops95`, written out: the ghost edge, 47 x (bottom, top), one free slot -/
def m95 : Map :=
  { edges := (ghost 79).1 :: ((List.range 47).flatMap (fun (i : Nat) => [(pair (82 + 7 * (i : Int))).1, (pair (82 + 7 * (i : Int))).2]))
      ++ [default],
    len := 95 }

-- the hypotheses of the theorems are satisfiable: the map really fills to 95 edges (of 96 slots) ...
example : insertAll Map.new ops95 = some m95 := by decide +kernel
example : WF m95 := by constructor <;> decide +kernel
-- ... a further pair is ignored by the code as it is (above and below the existing edges) ...
example : HintMap.insert m95 (pair 500).1 (pair 500).2 = some m95 := by decide +kernel
example : HintMap.insert m95 (pair 10).1 (pair 10).2 = some m95 := by decide +kernel
-- ... a single edge still fits ...
example : (HintMap.insert m95 (ghost 600).1 (ghost 600).2).map (·.len) = some 96 := by decide +kernel
-- ... and with the off-by-one check the same pair overruns the array: at the end (`edges[insert_ix + 1]`) and in the
-- make-room loop (`edges[dst_index]`): this is why the theorem needs `len + edge_count > MAX_HINTS`
example : insertWith fullOnly m95 (pair 500).1 (pair 500).2 = none := by decide +kernel
example : insertWith fullOnly m95 (pair 10).1 (pair 10).2 = none := by decide +kernel

end FontVerif.C02
