/-
C02 — the CFF hinter's hint map never overruns its 96-slot edge array (skrifa/src/outline/cff/hint.rs HintMap::insert).
Model: Model/HintMap.lean (checked array accesses: `none` = index-out-of-bounds panic); helpers: Lemmas/HintMap.lean.
-/
import FontVerif.Lemmas.HintMapAdjust
set_option linter.unusedVariables false
namespace FontVerif.C02
open FontVerif.HintMap

/-- `insert` never indexes out of bounds: on a well-formed map it returns, the map stays well formed
    (`len <= MAX_HINTS`, the invariant every later `edges[..len]` / `edges[i]` relies on) and grows by 0, 1 or 2 edges. -/
theorem insert_total (m : Map) (bottom top : Hint) (h : WF m) :
    ∃ m', HintMap.insert m bottom top = some m' ∧ Step m m' := by
  unfold HintMap.insert insertWith
  simp only []
  generalize hp : (bottom.isValid && top.isValid) = isPair
  generalize (if (!bottom.isValid) = true then top else bottom) = first
  by_cases h1 : (isPair && decide (top.cs < bottom.cs)) = true
  · simp only [h1, if_true]; exact ⟨m, rfl, step_refl h⟩
  · simp only [h1]
    generalize hcnt : (if isPair = true then 2 else 1) = cnt
    have hc : 1 ≤ cnt ∧ cnt ≤ 2 ∧ (isPair = true → cnt = 2) := by
      subst hcnt; cases isPair <;> simp
    by_cases h2 : wontFit m.len cnt = true
    · simp only [h2, if_true]; exact ⟨m, rfl, step_refl h⟩
    · simp only [h2]
      have hroom : m.len + cnt ≤ MAX_HINTS := by
        simp only [wontFit, decide_eq_true_eq] at h2; omega
      obtain ⟨ix, hix, _, hixle⟩ := findIx_ok m.edges m.len first.cs (by have := h.1; have := h.2; omega) m.len 0 (by omega)
      obtain ⟨b, hb⟩ := discard_ok m first top isPair ix h hixle
      simp only [hix, hb]
      cases b with
      | true => exact ⟨m, rfl, step_refl h⟩
      | false => exact place_ok m first top isPair cnt ix h hixle hroom hc.1 hc.2.1 hc.2.2

/-- any sequence of inserts (one per stem hint, whatever the font says) on a well-formed map returns a well-formed
    map: the 96-slot array is never overrun -/
theorem insertAll_total (ops : List (Hint × Hint)) : ∀ (m : Map), WF m →
    ∃ m', insertAll m ops = some m' ∧ WF m' ∧ m'.len ≤ m.len + 2 * ops.length := by
  induction ops with
  | nil => intro m h; exact ⟨m, rfl, h, by simp⟩
  | cons op rest ih =>
    intro m h
    obtain ⟨b, t⟩ := op
    obtain ⟨m1, h1, hs⟩ := insert_total m b t h
    obtain ⟨m2, h2, hw2, hl2⟩ := ih m1 hs.1
    refine ⟨m2, by simp only [insertAll, h1, h2], hw2, ?_⟩
    have := hs.2.2
    simp only [List.length_cons]; omega

theorem new_wf : WF Map.new := by
  simp [WF, Map.new, MAX_HINTS]

/-- The invariant as the property needs it: starting from `HintMap::new`, after ANY sequence of `insert` calls the
    code has not panicked and `len <= 96`. -/
theorem hint_map_never_overruns (ops : List (Hint × Hint)) :
    ∃ m', insertAll Map.new ops = some m' ∧ m'.len ≤ MAX_HINTS ∧ m'.edges.length = MAX_HINTS := by
  obtain ⟨m', h, hw, _⟩ := insertAll_total ops Map.new new_wf
  exact ⟨m', h, hw.2, hw.1⟩


/-! ### non-vacuity, and what the capacity check is for -/

/-- the off-by-one variant of the capacity check ("is the map already full?") -/
def fullOnly (len _cnt : Nat) : Bool := len ≥ MAX_HINTS

def ghost (y : Int) : Hint × Hint := ({ flags := 1, cs := y, ds := y }, { flags := 0, cs := 0, ds := 0 })
def pair (y : Int) : Hint × Hint := ({ flags := 4, cs := y, ds := y }, { flags := 8, cs := y + 4, ds := y + 4 })
/-- one single-edge ghost stem + 47 stem pairs, ascending: 95 edges -/
def ops95 : List (Hint × Hint) := ghost 79 :: (List.range 47).map (fun (i : Nat) => pair (82 + 7 * (i : Int)))

/-- the map after `ops95`, written out: the ghost edge, 47 x (bottom, top), one free slot -/
def m95 : Map :=
  { edges := (ghost 79).1 :: ((List.range 47).flatMap (fun (i : Nat) => [(pair (82 + 7 * (i : Int))).1, (pair (82 + 7 * (i : Int))).2]))
      ++ [default],
    len := 95 }

-- the hypotheses of the theorems are satisfiable: the map really fills to 95 edges (of 96 slots) ...
example : insertAll Map.new ops95 = some m95 := by decide +kernel
example : WF m95 := by constructor <;> decide +kernel
-- ... a further pair is ignored by the code as it is (above and below the existing edges) ...
example : HintMap.insert m95 (pair 500).1 (pair 500).2 = some m95 := by decide +kernel
example : HintMap.insert m95 (pair 10).1 (pair 10).2 = some m95 := by decide +kernel
-- ... a single edge still fits ...
example : (HintMap.insert m95 (ghost 600).1 (ghost 600).2).map (·.len) = some 96 := by decide +kernel
-- ... and with the off-by-one check the same pair overruns the array: at the end (`edges[insert_ix + 1]`) and in the
-- make-room loop (`edges[dst_index]`): this is why the theorem needs `len + edge_count > MAX_HINTS`
example : insertWith fullOnly m95 (pair 500).1 (pair 500).2 = none := by decide +kernel
example : insertWith fullOnly m95 (pair 10).1 (pair 10).2 = none := by decide +kernel

/-! ## `HintMap::build`: the insert sequence keeps the unit structure, `adjust` and `transform` stay inside the array -/

/-- a sequence of shaped inserts (what `build` performs: the em-box ghosts, one `insert(bottom, top)` per active stem
    with `Hint::setup` flags, the baseline ghost) keeps the active edges a sequence of units — single ghost edges and
    adjacent bottom / top pairs — and the map well formed -/
theorem insertAll_units (ops : List (Hint × Hint)) (hops : ∀ op ∈ ops, Shaped op.1 op.2) : ∀ (m : Map), WF m →
    Units (m.edges.take m.len) →
    ∃ m', insertAll m ops = some m' ∧ WF m' ∧ Units (m'.edges.take m'.len) := by
  induction ops with
  | nil => intro m h hu; exact ⟨m, rfl, h, hu⟩
  | cons op rest ih =>
    intro m h hu
    obtain ⟨b, t⟩ := op
    obtain ⟨m1, h1, hs⟩ := insert_total m b t h
    have hu1 := insert_units m m1 b t h hu (hops (b, t) (by simp)) h1
    obtain ⟨m2, h2, hw2, hu2⟩ := ih (fun op hop => hops op (by simp [hop])) m1 hs.1 hu1
    exact ⟨m2, by simp only [insertAll, h1, h2], hw2, hu2⟩

/-- **`adjust` never indexes outside the edge array or the `saved` array, and never underflows `j - 1`**: on a well
    formed map whose active edges are units, for every outcome of its coordinate comparisons -/
theorem adjust_total (m : Map) (hwf : WF m) (hu : Units (m.edges.take m.len)) (ora : Nat → Nat → Bool) :
    HintMap.adjust m ora = some () := by
  unfold HintMap.adjust
  have hlen : m.len ≤ m.edges.length := by have := hwf.1; have := hwf.2; omega
  obtain ⟨saved, h1, hs⟩ := adjustPass1_ok m.edges m.len ora hlen hwf.2 m.len 0 [] (by omega) (by simpa using hu)
    (by simp) (by intro j hj; cases hj)
  rw [h1]
  exact adjustPass2_ok m.edges m.len hlen saved hs

/-- **`transform` never indexes outside the array**: both scans and the final reads stay below `len` -/
theorem transform_total (m : Map) (hwf : WF m) (ge lt : Nat → Bool) :
    ∃ i, HintMap.transform m ge lt = some i ∧ (m.len = 0 ∨ i < m.len) := by
  unfold HintMap.transform
  by_cases h0 : m.len = 0
  · rw [if_pos h0]; exact ⟨0, rfl, Or.inl h0⟩
  · rw [if_neg h0]
    have hlen : m.len ≤ m.edges.length := by have := hwf.1; have := hwf.2; omega
    obtain ⟨i1, h1, hi1⟩ := transformUp_ok m.edges (m.len - 1) ge (by omega) m.len 0 (by omega)
    rw [h1]
    simp only []
    obtain ⟨i2, h2, hi2⟩ := transformDown_ok m.edges lt (i1 + 1) i1 (by omega)
    rw [h2]
    simp only []
    obtain ⟨v0, hv0⟩ := getAt_ok (l := m.edges) (i := 0) (by omega)
    obtain ⟨v2, hv2⟩ := getAt_ok (l := m.edges) (i := i2) (by omega)
    rw [hv0, hv2]
    exact ⟨i2, rfl, Or.inr (by omega)⟩

/-- **`HintMap::build` never overruns**: starting from `HintMap::new`, after ANY sequence of shaped inserts the map is
    well formed, `adjust` returns for every outcome of its comparisons, and `transform` reads inside the array -/
theorem hint_map_build_never_overruns (ops : List (Hint × Hint)) (hops : ∀ op ∈ ops, Shaped op.1 op.2)
    (ora : Nat → Nat → Bool) (ge lt : Nat → Bool) :
    ∃ m', insertAll Map.new ops = some m' ∧ m'.len ≤ MAX_HINTS ∧ HintMap.adjust m' ora = some () ∧
      ∃ i, HintMap.transform m' ge lt = some i := by
  obtain ⟨m', h, hw, hu⟩ := insertAll_units ops hops Map.new new_wf (by simp [Map.new]; exact Units.nil)
  obtain ⟨i, hi, _⟩ := transform_total m' hw ge lt
  exact ⟨m', h, hw.2, adjust_total m' hw hu ora, i, hi⟩

/-! ### non-vacuity, and what the unit structure is for -/

example : ∀ op ∈ ops95, Shaped op.1 op.2 := by decide +kernel
example : HintMap.adjust m95 (fun _ _ => false) = some () := by decide +kernel
example : HintMap.adjust m95 (fun _ w => w == 2) = some () := by decide +kernel
/-- the full map (96 edges: the ghost, 47 pairs, one more ghost) -/
example : ((HintMap.insert m95 (ghost 600).1 (ghost 600).2).bind (fun m => HintMap.adjust m (fun _ _ => false))) = some () := by
  decide +kernel
/-- an edge flagged PAIR_BOTTOM without its top in the LAST slot would make `adjust` read `edges[96]`: the unit structure
    (which `insert` maintains for the hints `build` passes) is what excludes it -/
def badLast : Map := { edges := (List.replicate 95 { flags := 1, cs := 0, ds := 0 }) ++ [{ flags := 4, cs := 0, ds := 0 }], len := 96 }
example : HintMap.adjust badLast (fun _ _ => false) = none := by decide +kernel
example : HintMap.transform m95 (fun _ => true) (fun _ => false) = some 94 := by decide +kernel
example : HintMap.transform m95 (fun _ => false) (fun _ => true) = some 0 := by decide +kernel

end FontVerif.C02
