/-
C16 (PairPos format 1 split, size bookkeeping with shared pair sets / device tables) —
write-fonts/src/graph/splitting/pairpos.rs `split_pair_pos_format_1`.  Model: `ppf1DStep` /
`ppf1DPieces` (Model/LayoutLookup.lean; `fixed = false` is the code as it is and computes the same
split points as `ppf1SplitPoints`, tied to the real code by `ppf1.run`); lemmas:
Lemmas/LayoutPpf1Dev.lean.
-/
import FontVerif.Lemmas.LayoutPpf1Dev
set_option linter.unusedVariables false
namespace FontVerif.C16
open FontVerif FontVerif.Layout

/-- **ppf1_repaired_piece_estimates_exact.**  For the loop WITH the repair analogous to /repo 2b4b586
(the pair set that starts a new piece is re-counted after `visited.clear()`): for every list of pair
sets — any sizes, any sharing of pair-set objects within and across pieces — the estimate of every
piece is exactly its true size (10 header bytes + one offset per pair set + every distinct pair-set
object with its device tables once). -/
theorem ppf1_repaired_piece_estimates_exact (cs : Nat) (ps : List (Nat × Nat))
    (pieces : List (Nat × Nat × Nat)) (h : ppf1DPieces true cs ps = some pieces) :
    ∀ p ∈ pieces, p.1 ≤ p.2.1 ∧ p.2.2 = ppf1PieceSize ps p.1 p.2.1 := by
  unfold ppf1DPieces at h
  simp only at h
  have hgood := ppf1DLoop_good cs ps ps ⟨0, 4, 10, [], []⟩ 0 (by simp)
    ⟨Nat.le_refl _, by simp [sliceOf, childrenSize], by simp [sliceOf, childrenSize]⟩
    (fun q hq => nomatch hq)
  generalize ppf1DLoop true cs ⟨0, 4, 10, [], []⟩ 0 ps = st at h hgood
  obtain ⟨⟨g1, g2, _⟩, hp⟩ := hgood
  split at h
  · cases h
  · cases h
    have conv : ∀ s e, 10 + (e - s) * 2 + (childrenSize (sliceOf ps s e) []).1 = ppf1PieceSize ps s e := by
      intro s e; rw [childrenSize_eq]; rfl
    intro p hpm
    rcases List.mem_append.mp hpm with hm | hm
    · obtain ⟨a, b⟩ := hp p (List.mem_reverse.mp hm)
      exact ⟨a, by rw [b, conv]⟩
    · simp only [List.mem_singleton] at hm
      subst hm
      simp only [Nat.zero_add] at g1 g2
      exact ⟨g1, by rw [g2, conv]⟩

/-- **ppf1_repaired_accepted_piece_fits.**  With the repair, a piece whose estimate passes the loop's
test is at most that large in truth. -/
theorem ppf1_repaired_accepted_piece_fits (cs : Nat) (ps : List (Nat × Nat))
    (pieces : List (Nat × Nat × Nat)) (h : ppf1DPieces true cs ps = some pieces)
    (p : Nat × Nat × Nat) (hp : p ∈ pieces) (bound : Nat) (hb : p.2.2 ≤ bound) :
    ppf1PieceSize ps p.1 p.2.1 ≤ bound := by
  rw [← (ppf1_repaired_piece_estimates_exact cs ps pieces h p hp).2]; exact hb

/-! ## the code AS IT IS: the estimate is NOT an upper bound (finding C16-ppf1-shared-pair-set-at-split)

Pair sets A (20002 bytes), B (45482), then A fourteen more times (identical pair sets of other first
glyphs: ONE shared object, 2 bytes each), C (45482), D (19602); coverage 10 bytes.  The fifteenth A
does not fit: split point 15.  Its delta was computed against the first piece's `visited` set (A is
in it: 0 bytes) and the set is cleared, so the second piece starts at 12 bytes although it holds A.
The loop then accepts C and D: piece 15..18 is estimated at 65100 bytes, its true size is 85102.
(The real `split_pair_pos_format_1` produces exactly these pieces: `ppf1.run`, scenario
`fixed:shared-pair-set-at-split-point`.)  The repaired loop would cut again before D. -/

def exPairSets : List (Nat × Nat) :=
  [(1, 20002), (2, 45482)] ++ List.replicate 14 (1, 20002) ++ [(3, 45482), (4, 19602)]

example : ppf1DPieces false 10 exPairSets = some [(0, 15, 65524), (15, 18, 65100)] ∧
    ppf1PieceSize exPairSets 15 18 = 85102 ∧ 65100 < 85102 ∧ 65535 < 85102 ∧
    ppf1SplitPoints 10 exPairSets = some [15, 18] := by decide +kernel
example : ppf1DPieces true 10 exPairSets = some [(0, 15, 65524), (15, 17, 65498), (17, 18, 19614)] := by
  decide +kernel

end FontVerif.C16
