/-
C17 (HVAR / VVAR part) — subsetting preserves the metric deltas of the glyphs it keeps.

Model: `FontVerif/Model/SubsetHvar.lean` (klippa `hvar.rs`, `vvar.rs`, `variations.rs`,
`inc_bimap.rs`, post-fix 13c1b30 / ba89e32 / 7615279 / 67546f5).  Reader: C11's
`Tent.computeDelta`, `Tent.dsimGet`, `Tent.implicitIndex` (read-fonts `compute_delta`,
`DeltaSetIndexMap::get`, `advance_delta` / `item_delta`).

The headline is `hvar_vvar_deltas_preserved`; the theorems before it are its parts:
(a) region pruning / renumbering and (b) row repacking leave every retained row's evaluation
unchanged, (c) retained subtables are renumbered consistently, (d) the rewritten DeltaSetIndexMap
sends every new gid to the remapped index of its old gid (with `map_count` trimming and the
implicit advance map).
-/
import FontVerif.Model.SubsetHvar
import FontVerif.Lemmas.SubsetHvar
set_option linter.unusedVariables false
namespace FontVerif.C17Hvar
open FontVerif FontVerif.Tent FontVerif.Ivs FontVerif.SubsetHvar

/-! ## (b) rows: random access, classification, repacking -/

/-- **get_item_delta_is_reader_row**: klippa's random access `get_item_delta(item, region)` into
the delta-set bytes returns exactly the `region`-th value the reader's `ItemDeltas` iterator yields
for that row, for every word-count / LONG_WORDS layout (also when there are more word columns than
region indexes); the iterator yields one value per region index. -/
theorem get_item_delta_is_reader_row (st : SubTable) (hok : SubOk st) (item : Nat)
    (hi : item < st.itemCount) :
    (decodedRow st item).length = st.regionIndexes.length ∧
    ∀ r, r < st.regionIndexes.length → (decodedRow st item)[r]? = some (getItemDelta st item r) :=
  getItemDelta_eq st hok item hi

/-- **column_classification_sound**: for every source table made of bytes and every set of
retained rows: a column classified `Zero` holds only zeros in the retained rows, and every retained
value of a `NonWord` / `Word` column fits the narrow / wide cell width of the LONG_WORDS mode the
subset chose — including the columns decided early by the `short_circuit` and the fallback from
LONG_WORDS to 16-bit words. -/
theorem column_classification_sound (st : SubTable) (hb : ∀ b ∈ st.data, b < 256) (keys : List Nat) :
    (deltaSizes st keys).length = st.regionIndexes.length ∧
    (∀ r, (deltaSizes st keys)[r]? = some 0 → ∀ item ∈ keys, getItemDelta st item r = 0) ∧
    (∀ r, (deltaSizes st keys)[r]? = some 1 → ∀ item ∈ keys,
      FitsW (narrowW (hasLong st keys)) (getItemDelta st item r)) ∧
    (∀ r, (deltaSizes st keys)[r]? = some 2 → ∀ item ∈ keys,
      FitsW (wideW (hasLong st keys)) (getItemDelta st item r)) := by
  obtain ⟨h1, _, _, h4, h5, h6⟩ := deltaSizes_spec st hb keys
  exact ⟨h1, h4, h5, h6⟩

/-- **classification_never_truncates**: `set_item_delta`'s `i8::try_from` / `i16::try_from` never
fail: every value of every retained row passes the check of the cell it is written to (the
`SERIALIZE_ERROR_OTHER` exits of `set_item_delta` are unreachable on tables made of bytes). -/
theorem classification_never_truncates (st : SubTable) (hb : ∀ b ∈ st.data, b < 256)
    (keys : List Nat) (oldI : Nat) (hi : oldI ∈ keys) :
    rowFits (hasLong st keys) (count 2 (deltaSizes st keys))
      ((riMap (deltaSizes st keys)).map fun c => getItemDelta st oldI c) = true :=
  rowFits_always st hb keys oldI hi

/-- **retained_rows_decode**: the reader decodes row `i` of the written ItemVariationData as the
retained columns (words first, source order inside each class) of old row `inner_map[i]`, and the
written table holds exactly its delta sets. -/
theorem retained_rows_decode {st : SubTable} {im rm : List Nat} {o : SubTable}
    (h : subsetVarData st im rm = .ok o) (hb : ∀ b ∈ st.data, b < 256)
    (hric : st.regionIndexes.length < 32768) (him : im.length < 65536) :
    SubOk o ∧ ∀ i (hi : i < im.length),
      decodedRow o i = (riMap (deltaSizes st im)).map fun c => getItemDelta st im[i] c :=
  decodedRow_subset (subsetVarData_ok h) hb hric him

/-! ## (a) regions: pruning and renumbering -/

/-- **row_evaluation_unchanged**: for every coordinate vector the weighted sum
`Σ delta × scalar(region)` of a written row over the pruned region list equals that of the old row
over the original list: dropped columns are all zero, every retained column still names its region
through `region_map` (a sorted list of old indices; new index = position). -/
theorem row_evaluation_unchanged {st : SubTable} {im rm : List Nat} {o : SubTable}
    (h : subsetVarData st im rm = .ok o) (hb : ∀ b ∈ st.data, b < 256)
    (hric : st.regionIndexes.length < 32768) (him : im.length < 65536) (hsok : SubOk st)
    (regions : List (List (Int × Int × Int))) (hsorted : rm.Pairwise (· < ·))
    (hrm : ∀ x ∈ rm, x < regions.length) (hreg : regions.length ≤ 65536)
    (coords : List Int) (i : Nat) (hi : i < im.length) :
    specSum (rm.map fun r => regions.getD r []) coords (decodedRow o i) o.regionIndexes =
      specSum regions coords (decodedRow st im[i]) st.regionIndexes :=
  row_sum_eq (subsetVarData_ok h) hb hric him hsok regions hsorted hrm hreg coords i hi

/-- **region_map_is_sorted_restriction**: the region map of a successful store subset is strictly
ascending, inside the original region list, and the written region list is its image. -/
theorem region_map_is_sorted_restriction {axisCount : Nat} {regions : List (List (Int × Int × Int))}
    {subs : List SubIn} {ims : List (List Nat)} {so : StoreOut}
    (h : subsetStore axisCount regions subs ims = .ok so) :
    so.regionMap.Pairwise (· < ·) ∧ (∀ x ∈ so.regionMap, x < regions.length) ∧
    so.regions = so.regionMap.map (fun r => regions.getD r []) := by
  obtain ⟨h1, h2, h3, _⟩ := subsetStore_ok h
  exact ⟨h1, h2, h3⟩

/-- **compute_delta_subtable_preserved**: `compute_delta` of the reader on a written subtable at
new inner index `i` equals `compute_delta` on the original subtable at old inner index
`inner_map[i]` — same `Ok` value, for every coordinate vector (also when the old inner index lies
beyond the item count: both give 0). -/
theorem compute_delta_subtable_preserved {st : SubTable} {im rm : List Nat} {o : SubTable}
    (h : subsetVarData st im rm = .ok o) (hb : ∀ b ∈ st.data, b < 256)
    (hric : st.regionIndexes.length < 32768) (him : im.length < 65536) (hsok : SubOk st)
    (regions : List (List (Int × Int × Int))) (hsorted : rm.Pairwise (· < ·))
    (hrm : ∀ x ∈ rm, x < regions.length) (hreg : regions.length ≤ 65536)
    (hsri : ∀ ri ∈ st.regionIndexes, ri < regions.length)
    (newSubs oldSubs : List (Option SubTable)) (no outer : Nat)
    (hnew : newSubs[no]? = some (some o)) (hold : oldSubs[outer]? = some (some st))
    (coords : List Int) (i : Nat) (hi : i < im.length) :
    computeDelta (rm.map fun r => regions.getD r []) newSubs no i coords =
      computeDelta regions oldSubs outer im[i] coords :=
  computeDelta_subtable (subsetVarData_ok h) hb hric him hsok regions hsorted hrm hreg hsri
    newSubs oldSubs no outer hnew hold coords i hi

/-! ## (c) outer indices -/

/-- **outer_renumbering_consistent**: after a successful plan and store subset, every outer index
`o` of the (sorted) outer map names a readable original subtable, and the written array holds the
subset of exactly that subtable at position `outer_map[o]`. -/
theorem outer_renumbering_consistent {t : TableIn} {sp : SubsetPlan} {so : StoreOut}
    (hsp : subsetPlan t.subs.length t.maps t.n2o t.glyphset t.retainGids = .ok sp)
    (hso : subsetStore t.axisCount t.regions t.subs sp.innerMaps = .ok so)
    (hgs : t.n2o ≠ [] → t.glyphset ≠ []) (o : Nat) (ho : o ∈ sp.outerMap) :
    ∃ st ov, t.subs[o]? = some (SubIn.ok st) ∧
      subsetVarData st (sp.innerMaps.getD o []) so.regionMap = .ok ov ∧
      so.subs[sp.outerMap.idxOf o]? = some ov := by
  obtain ⟨_, _, homs, hommem, _⟩ := subsetPlan_ok hsp hgs
  obtain ⟨_, _, _, hsubs⟩ := subsetStore_ok hso
  have ⟨hol, hnz⟩ := (hommem o).mp ho
  have himo : sp.innerMaps[o]? = some (sp.innerMaps.getD o []) := by
    rw [List.getD_eq_getElem?_getD, List.getElem?_eq_getElem hol]; rfl
  obtain ⟨st, ov, h1, h2, h3⟩ := subsetSubs_get so.regionMap sp.innerMaps t.subs so.subs hsubs o _ himo hnz
  exact ⟨st, ov, h1, h2, by rw [idxOf_eq_usedBefore sp.outerMap sp.innerMaps homs hommem o ho]; exact h3⟩

/-! ## (d) the DeltaSetIndexMap -/

/-- **map_count_trimming**: the backwards scan of `IndexMapSubsetPlan::new` returns the new gid of
the first element of a suffix of `new_to_old_gid_list` on which the (explicit or implicit) map is
constant — all glyphs from there on share the last written entry. -/
theorem map_count_trimming (m : Option MapIn) (l : List (Nat × Nat)) (r : Option Nat)
    (h : scanBack m l.reverse none = .ok r) :
    (l = [] ∧ r = none) ∨
    ∃ pre x suf val, l = pre ++ x :: suf ∧ r = some x.1 ∧
      (∀ p ∈ x :: suf, mapGet m p.2 = some val) :=
  scanBack_spec m l r h

/-- **index_map_rewrite**: reading the written DeltaSetIndexMap (entry format and width as chosen
by the subsetter, entries packed as `outer << inner_bit_count | inner` in `width` bytes) at the
new gid of ANY retained glyph gives `(outer_map[o], inner_maps[o][i])`, where `(o, i)` is what the
original map — or `gid ↦ (gid >> 16, gid & 0xFFFF)` when there is none — gives for the old gid;
glyphs at or beyond the trimmed `map_count` included. -/
theorem index_map_rewrite (m : Option MapIn) (n2o : List (Nat × Nat)) (om : List Nat)
    (ims : List (List Nat)) (p p' : MapPlan) (mo : MapOut) (lastGid : Option Nat)
    (hpw : n2o.Pairwise (fun a b => a.1 < b.1)) (hnew : ∀ q ∈ n2o, q.1 < 65535)
    (hscan : scanBack m n2o.reverse none = .ok lastGid) (hmc : p.mapCount = mapCountOf lastGid)
    (hremap : remap p m n2o om ims = .ok p') (hser : serializeMap p' = .ok mo)
    (hom : om.Pairwise (· < ·))
    (houter : ∀ q ∈ n2o, ∀ outer inner, mapGet m q.2 = some (outer, inner) →
      outer < ims.length ∧ outer < 2 ^ p.outerBits ∧ outer < 65536)
    (hims : ∀ im ∈ ims, im.length ≤ 65536) :
    ∀ q ∈ n2o, ∀ outer inner, mapGet m q.2 = some (outer, inner) →
      outer ∈ om ∧ inner ∈ ims.getD outer [] ∧
      dsimGet mo.entryFormat mo.mapCount mo.data q.1 =
        some (om.idxOf outer, (ims.getD outer []).idxOf inner) :=
  map_rewrite m n2o om ims p p' mo lastGid hpw hnew hscan hmc hremap hser hom houter hims

/-! ## (e) end to end -/

/-- **hvar_vvar_deltas_preserved**: for EVERY well-formed table and plan (`WellFormed`: the plan's
glyph list is ascending with ids below 65535 and inside `glyphset`; readable subtables hold their
delta sets and name existing regions; map entries of retained glyphs name existing subtables),
whenever `Hvar::subset` / `Vvar::subset` writes a table: for every map `k` (0 = advance width /
height read with `advance_delta`; 1.. = lsb/tsb, rsb/bsb, vorg read with `item_delta`), every
retained glyph `(new, old)` and EVERY coordinate vector, the reader's delta on the subset at `new`
equals the reader's delta on the original at `old` (`none` = read error on both sides, e.g. a side
bearing map that does not exist).  `planRowsOkB`: no subtable of the subset gets ≥ 65536 rows. -/
theorem hvar_vvar_deltas_preserved (t : TableIn) (out : TableOut) (h : subsetTable t = .ok out)
    (wf : WellFormed t) (hrows : planRowsOkB t = true)
    (k : Nat) (hk : k < t.maps.length) (q : Nat × Nat) (hq : q ∈ t.n2o) (coords : List Int) :
    readerDelta out.store.regions (out.store.subs.map some)
        ((out.maps.getD k none).map MapOut.triple) (k == 0) q.1 coords =
      readerDelta t.regions (t.subs.map SubIn.toReader)
        ((t.maps.getD k none).map MapIn.triple) (k == 0) q.2 coords :=
  subset_preserves_deltas t out h wf hrows k hk q hq coords

/-! ## non-vacuity -/

/-- HVAR: implicit advance map, an lsb map that also refers to a row of no retained glyph, one
all-zero column (its region is pruned), a 16-bit and two 8-bit columns. -/
def exHvar : TableIn :=
  { axisCount := 1
    regions := [[(0, 16384, 16384)], [(-16384, -16384, 0)], [(0, 8192, 16384)]]
    subs := [SubIn.ok { itemCount := 4, wordDeltaCount := 1, regionIndexes := [0, 2, 1],
                        data := [0, 200, 0, 5,  1, 44, 0, 251,  0, 0, 0, 0,  255, 56, 0, 127] }]
    maps := [none, some { entryFormat := 1, mapCount := 2, data := [1, 3] }, none]
    n2o := [(0, 0), (1, 2), (2, 3)]
    glyphset := [0, 2, 3]
    retainGids := false }

/-- VVAR with retain-gids: explicit advance map over two subtables (one LONG_WORDS source whose
retained values fit 16 bits), trimmed tail, vorg map. -/
def exVvar : TableIn :=
  { axisCount := 2
    regions := [[(0, 16384, 16384), (0, 0, 0)], [(0, 0, 0), (-16384, -16384, 0)]]
    subs := [SubIn.ok { itemCount := 2, wordDeltaCount := 32769, regionIndexes := [1, 0],
                        data := [0, 0, 127, 255, 0, 9,  0, 1, 0, 0, 255, 247] },
             SubIn.ok { itemCount := 3, wordDeltaCount := 0, regionIndexes := [0],
                        data := [7, 249, 0] }]
    maps := [some { entryFormat := 17, mapCount := 5, data := [0, 4, 0, 0, 0, 5, 0, 4, 0, 4] },
             none, none, some { entryFormat := 0, mapCount := 1, data := [1] }]
    n2o := [(0, 0), (2, 2), (3, 3), (4, 4)]
    glyphset := [0, 2, 3, 4]
    retainGids := true }

example : WellFormed exHvar :=
  ⟨by decide, by decide, by decide, by decide, by decide, by decide, by decide⟩
example : WellFormed exVvar :=
  ⟨by decide, by decide, by decide, by decide, by decide, by decide, by decide⟩
example : planRowsOkB exHvar = true := by decide +kernel
example : planRowsOkB exVvar = true := by decide +kernel

/-- the subsetter succeeds on both, pruning region 2 of `exHvar` -/
example : (match subsetTable exHvar with
    | .ok o => o.store.regionMap == [0, 1] && o.store.subs.length == 1 && o.maps.length == 3
    | .error _ => false) = true := by decide +kernel
example : (match subsetTable exVvar with
    | .ok o => o.store.subs.length == 2 && o.maps.length == 4
    | .error _ => false) = true := by decide +kernel

/-- the preserved deltas are not trivially zero: advance delta of old glyph 3 half way up axis 0 -/
example : readerDelta exHvar.regions (exHvar.subs.map SubIn.toReader) none true 3 [8192] = some (-100) := by
  decide +kernel
/-- ... and the original lsb delta of old glyph 0 comes from row 1, which belongs to no retained glyph -/
example : readerDelta exHvar.regions (exHvar.subs.map SubIn.toReader)
    (some (1, 2, [1, 3])) false 0 [16384] = some 300 := by
  decide +kernel

/-- a row whose classification has a zero, a narrow and a wide column -/
example : deltaSizes ({ itemCount := 4, wordDeltaCount := 1, regionIndexes := [0, 2, 1],
                        data := [0, 200, 0, 5,  1, 44, 0, 251,  0, 0, 0, 0,  255, 56, 0, 127] } : SubTable)
    [0, 2, 3, 1] = [2, 0, 1] := by
  decide +kernel

end FontVerif.C17Hvar
