/-
C14 — Integer sets, range sets and the sparse-bit-set codec act as mathematical sets.
Property theorems only (helper lemmas live in Lemmas/RangeSet.lean, …).
Models: Model/RangeSet.lean ⇄ read-fonts/src/collections/range_set.rs
-/
import FontVerif.Model.RangeSet
import FontVerif.Lemmas.RangeSet
set_option linter.unusedVariables false
namespace FontVerif.C14
open FontVerif

/-! ## RangeSet: sorted ∧ disjoint ∧ non-adjacent, exact membership, exact intersections -/
section RangeSet
open FontVerif.RangeSet

/-- `RangeSet::insert` keeps the map sorted, disjoint, non-adjacent and well-formed, for every
stored state satisfying the invariant and every (possibly malformed) argument range. -/
theorem rangeset_insert_inv (rs : Ranges) (s e : Int) (h : RInv rs) : RInv (insert rs s e) :=
  (insert_spec rs s e h).1

/-- membership after `insert(s..=e)` is exactly `old ∨ s ≤ x ≤ e`. -/
theorem rangeset_insert_mem (rs : Ranges) (s e x : Int) (h : RInv rs) :
    Mem (insert rs s e) x ↔ Mem rs x ∨ (s ≤ x ∧ x ≤ e) :=
  (insert_spec rs s e h).2 x

/-- every history: after any sequence of inserts starting from the empty set (i.e. `extend`,
`from_iter`, or repeated `insert`) the invariant holds … -/
theorem rangeset_history_inv (ops : List (Int × Int)) : RInv (insertAll [] ops) := by
  suffices h : ∀ rs, RInv rs → RInv (insertAll rs ops) from h [] rinv_nil
  induction ops with
  | nil => intro rs h; exact h
  | cons op ops ih =>
    intro rs h
    simp only [insertAll, List.foldl_cons]
    exact ih _ (rangeset_insert_inv rs op.1 op.2 h)

/-- … and the set's members are exactly the union of the inserted ranges. -/
theorem rangeset_history_mem (ops : List (Int × Int)) (x : Int) :
    Mem (insertAll [] ops) x ↔ ∃ op ∈ ops, op.1 ≤ x ∧ x ≤ op.2 := by
  suffices h : ∀ rs, RInv rs →
      (Mem (insertAll rs ops) x ↔ Mem rs x ∨ ∃ op ∈ ops, op.1 ≤ x ∧ x ≤ op.2) by
    have := h [] rinv_nil
    simpa [mem_nil] using this
  induction ops with
  | nil => intro rs h; simp [insertAll]
  | cons op ops ih =>
    intro rs h
    simp only [insertAll, List.foldl_cons]
    have := ih _ (rangeset_insert_inv rs op.1 op.2 h)
    simp only [insertAll] at this
    rw [this, rangeset_insert_mem rs op.1 op.2 x h]
    simp only [List.mem_cons, exists_eq_or_imp]
    constructor
    · rintro ((h | h) | h)
      · exact Or.inl h
      · exact Or.inr (Or.inl h)
      · exact Or.inr (Or.inr h)
    · rintro (h | h | h)
      · exact Or.inl (Or.inl h)
      · exact Or.inl (Or.inr h)
      · exact Or.inr h

/-- `RangeSet::intersection`: the yielded ranges are again sorted, disjoint, non-adjacent and
well-formed, and cover exactly the common members. -/
theorem rangeset_intersection_spec (a b : Ranges) (ha : RInv a) (hb : RInv b) :
    RInv (intersection a b) ∧ ∀ x, Mem (intersection a b) x ↔ Mem a x ∧ Mem b x :=
  intersection_spec a b ha hb

example : insertAll [] [(6, 8), (10, 14), (16, 20), (7, 19)] = [(6, 20)] := by decide
example : insertAll [] [(6, 8), (10, 10), (9, 9), (12, 11)] = [(6, 10)] := by decide
example : intersection [(2, 5), (7, 9), (13, 64)] [(1, 3), (5, 8), (13, 64), (67, 69)]
    = [(2, 3), (5, 5), (7, 8), (13, 64)] := by simp [intersection, rangeIntersection]; omega
example : RInv [(2, 5), (7, 9)] := by simp [RInv]

end RangeSet

end FontVerif.C14
