/-
C02 — the `edge_next_ix` ring of an autohinter edge (Model/EdgeRing.lean) is a ring after ANY admissible sequence
of the operations that build it, and therefore the walks over it terminate within (number of segments of the edge)
steps.
-/
import FontVerif.Model.EdgeRing
namespace FontVerif.C02
open FontVerif.EdgeRing
set_option linter.unusedVariables false

/-- `ChainRev` reads `next` only at the non-head elements of the list -/
theorem chainRev_congr (next next' : Nat → Option Nat) (first : Nat) :
    ∀ l : List Nat, (∀ a, a ∈ l.tail → next' a = next a) → ChainRev next first l → ChainRev next' first l
  | [], _, h => h
  | [a], _, h => h
  | b :: a :: rest, hag, h => by
    unfold ChainRev at h ⊢
    refine ⟨by rw [hag a (by simp)]; exact h.1, ?_⟩
    exact chainRev_congr next next' first (a :: rest) (fun x hx => hag x (by simp at hx ⊢; exact .inr hx)) h.2

theorem edge_ring_new (next : Nat → Option Nat) (seg : Nat) : RingInv (newEdge next seg) := by
  unfold RingInv newEdge upd ChainRev; simp

theorem edge_ring_step (r : Ring) (op : Op) (hI : RingInv r) (hok : op.ok r) : RingInv (op.run r) := by
  obtain ⟨hnd, hhd, hch, hcl⟩ := hI
  cases op with
  | append seg =>
    simp only [Op.ok] at hok
    simp only [Op.run, FontVerif.EdgeRing.append, RingInv]
    cases hms : r.ms with
    | nil => rw [hms] at hch; exact absurd hch (by simp [ChainRev])
    | cons b rest =>
      rw [hms] at hnd hhd hch hok
      simp at hhd; subst hhd
      have hne : seg ≠ r.last := fun h => hok (by simp [h])
      refine ⟨by simp [List.nodup_cons, hok]; simpa using hnd, by simp, ?_, ?_⟩
      · unfold ChainRev
        refine ⟨by simp [upd], ?_⟩
        apply chainRev_congr r.next _ r.first _ _ hch
        intro a ha
        have h1 : a ≠ r.last := fun h => by subst h; simp at hnd; exact hnd.1 ha
        have h2 : a ≠ seg := fun h => by subst h; simp at ha; exact hok (by simp [ha])
        simp [upd, h1, h2]
      · simp [upd, hne]
  | foreign x v =>
    simp only [Op.ok] at hok
    simp only [Op.run, foreign, RingInv]
    have hl : r.last ∈ r.ms := by
      cases hms : r.ms with
      | nil => rw [hms] at hhd; simp at hhd
      | cons b rest => rw [hms] at hhd; simp at hhd; simp [hhd]
    refine ⟨hnd, hhd, ?_, ?_⟩
    · apply chainRev_congr r.next _ r.first _ _ hch
      intro a ha
      have : a ≠ x := fun h => by subst h; exact hok (List.mem_of_mem_tail ha)
      simp [upd, this]
    · have : r.last ≠ x := fun h => by rw [h] at hl; exact hok hl
      simp [upd, this, hcl]

/-- **The ring invariant holds after any admissible sequence of operations** on a freshly created edge. -/
theorem edge_ring_invariant (ops : List Op) : ∀ (r : Ring), RingInv r →
    (∀ (pre : List Op) (op : Op) (post : List Op), ops = pre ++ op :: post → op.ok (pre.foldl Op.run r)) →
    RingInv (ops.foldl Op.run r) := by
  induction ops with
  | nil => intro r h _; exact h
  | cons op rest ih =>
    intro r hI hok
    have h0 : op.ok r := hok [] op rest rfl
    apply ih (op.run r) (edge_ring_step r op hI h0)
    intro pre op' post heq
    exact hok (op :: pre) op' post (by simp [heq])

theorem walk_extend (next : Nat → Option Nat) (a b : Nat) (hab : next a = some b) :
    ∀ (f x : Nat), walk next a f x = true → walk next b (f + 1) x = true := by
  intro f
  induction f with
  | zero => intro x h; simp [walk] at h
  | succ f ih =>
    intro x h
    unfold walk at h ⊢
    by_cases hxb : x = b
    · simp [hxb]
    · simp only [hxb, if_false]
      by_cases hxa : x = a
      · subst hxa; simp [hab, walk]
      · simp only [hxa, if_false] at h
        cases hn : next x with
        | none =>
          simp [hn] at h ⊢
          -- `unwrap_or(last)`: the walk jumps to its own target
          cases f with
          | zero => simp [walk] at h
          | succ f => simp [walk]
        | some y => simp [hn] at h ⊢; exact ih y h

/-- from every segment of the ring the walk reaches `last_ix` within (number of segments) steps -/
theorem chain_walk (next : Nat → Option Nat) (first : Nat) :
    ∀ l : List Nat, ChainRev next first l → ∀ x ∈ l, walk next (l.head?.getD 0) l.length x = true
  | [], h, _, _ => absurd h (by simp [ChainRev])
  | [a], h, x, hx => by simp at hx; subst hx; simp [walk]
  | b :: a :: rest, h, x, hx => by
    unfold ChainRev at h
    by_cases hxb : x = b
    · subst hxb; simp [walk]
    · have hx' : x ∈ a :: rest := by simp at hx ⊢; rcases hx with h | h; exact absurd h hxb; exact h
      have := chain_walk next first (a :: rest) h.2 x hx'
      simp at this ⊢
      exact walk_extend next a b h.1 _ x this

/-- **The ring walks terminate**: under the invariant, `link_segments_to_edges` / `compute_edge_properties`, started
at `first_ix` (or at any segment of the edge), break within `number of segments of the edge` iterations. -/
theorem edge_ring_walk_terminates (r : Ring) (hI : RingInv r) (x : Nat) (hx : x ∈ r.ms) :
    walk r.next r.last r.ms.length x = true := by
  obtain ⟨_, hhd, hch, _⟩ := hI
  have := chain_walk r.next r.first r.ms hch x hx
  simpa [hhd] using this

/-- a walk that exits at "`edge_next_ix` closes the ring" exits wherever the `last_ix` walk does -/
theorem walk_cjk_of_walk (next : Nat → Option Nat) (first last : Nat) (stop valid : Nat → Bool)
    (hcl : next last = some first) :
    ∀ (f x : Nat), walk next last f x = true → walkCjk next first stop valid f x = true := by
  intro f
  induction f with
  | zero => intro x h; simp [walk] at h
  | succ f ih =>
    intro x h
    unfold walk at h
    unfold walkCjk
    by_cases hs : stop x = true
    · simp [hs]
    · by_cases hx : x = last
      · subst hx; simp [hs, hcl]
      · simp only [hx, if_false] at h
        by_cases hnf : next x = some first
        · simp [hs, hnf]
        · cases hn : next x with
          | none => simp [hs, hn]
          | some y =>
            simp only [hn, Option.getD_some] at h
            by_cases hv : valid y = true
            · have := ih y h
              simp [hs, hn, hv, this] at hnf ⊢
            · simp [hs, hn, hv]

/-- **The CJK link walk of `compute_edges` terminates**: under the ring invariant of the candidate edge, started at
its `first_ix` (or any of its segments), whatever the data exit and the table bounds do, it breaks within
(number of segments of the edge) iterations — at the latest at `last_ix`, whose `edge_next_ix` is `first_ix`. -/
theorem edge_ring_cjk_walk_terminates (r : Ring) (hI : RingInv r) (stop valid : Nat → Bool) (x : Nat) (hx : x ∈ r.ms) :
    walkCjk r.next r.first stop valid r.ms.length x = true :=
  walk_cjk_of_walk r.next r.first r.last stop valid hI.2.2.2 _ x (edge_ring_walk_terminates r hI x hx)

/-- **Every segment is linked at most once by `compute_edges`** (topo/edges.rs; loop headers, skip conditions and the
two `append_segment_to_edge` call sites are compared textually on every run).  Pass 1 runs `for segment_ix in
0..segments.len()` and links (new edge or append) a subset `link1` of the indices, which for the Default script group
excludes `segment.dir == None`; pass 2 runs only for the Default group, over the same range, and links a subset `link2`
of the indices with `segment.dir == None`.  The sequence of linked indices has no repetition — the admissibility
hypothesis of `edge_ring_invariant` for the `append` operations (a freshly linked segment is in no ring yet). -/
theorem compute_edges_links_each_segment_once (N : Nat) (isDefault : Bool) (dirNone link1 link2 : Nat → Bool)
    (h1 : ∀ i, isDefault = true → dirNone i = true → link1 i = false)
    (h2 : ∀ i, link2 i = true → dirNone i = true) :
    ((List.range N).filter link1 ++ (if isDefault = true then (List.range N).filter link2 else [])).Nodup := by
  rw [List.nodup_append]
  refine ⟨List.Nodup.sublist List.filter_sublist List.nodup_range, ?_, ?_⟩
  · split
    · exact List.Nodup.sublist List.filter_sublist List.nodup_range
    · simp
  · intro a ha b hb hab
    subst hab
    split at hb
    · rename_i hd
      simp at ha hb
      have := h1 a hd (h2 a hb.2)
      simp [this] at ha
    · simp at hb

/-! ### All edges together -/

/-- the invariant of the whole axis: every edge's ring is a ring, rings are pairwise disjoint, and only linked
segments are members -/
def AxisInv (g : Axis) : Prop :=
  (∀ j, j < g.count → RingInv (g.ring j)) ∧
  (∀ i j, i < g.count → j < g.count → i ≠ j → ∀ x, x ∈ (g.edge i).ms → x ∉ (g.edge j).ms) ∧
  (∀ j, j < g.count → ∀ x, x ∈ (g.edge j).ms → x ∈ g.linked)

theorem ringInv_last_mem (r : Ring) (h : RingInv r) : r.last ∈ r.ms := by
  obtain ⟨_, hhd, _, _⟩ := h
  cases hms : r.ms with
  | nil => rw [hms] at hhd; simp at hhd
  | cons b rest => rw [hms] at hhd; simp at hhd; simp [hhd]

/-- one admissible operation of `compute_edges` keeps the invariant of the whole axis: on the edge it targets it is
`append`, on every other edge it is two foreign writes (at the fresh segment and at the target's old `last_ix`), both
outside that edge's ring -/
theorem axis_step (g : Axis) (op : GOp) (hI : AxisInv g) (hok : op.ok g) : AxisInv (op.run g) := by
  obtain ⟨hR, hD, hL⟩ := hI
  have fresh : ∀ j, j < g.count → op.seg ∉ (g.edge j).ms := by
    intro j hj hm
    have := hL j hj _ hm
    cases op <;> simp [GOp.ok, GOp.seg] at hok this <;> (first | exact hok this | exact hok.1 this)
  cases op with
  | newEdge seg =>
    simp only [GOp.seg] at fresh
    refine ⟨?_, ?_, ?_⟩
    · intro j hj
      simp only [GOp.run] at hj ⊢
      by_cases hjc : j = g.count
      · subst hjc
        have : (GOp.run g (.newEdge seg)).ring g.count = newEdge g.next seg := by
          simp [GOp.run, Axis.ring, newEdge]
        simpa [GOp.run] using this ▸ edge_ring_new g.next seg
      · have hj' : j < g.count := by omega
        have : (GOp.run g (.newEdge seg)).ring j = Op.run (g.ring j) (.foreign seg (some seg)) := by
          simp [GOp.run, Axis.ring, Op.run, foreign, hjc]
        simpa [GOp.run] using this ▸ edge_ring_step (g.ring j) (.foreign seg (some seg)) (hR j hj') (fresh j hj')
    · intro i j hi hj hij x hx
      simp only [GOp.run] at hi hj hx ⊢
      by_cases hic : i = g.count <;> by_cases hjc : j = g.count
      · omega
      · simp [hic] at hx; subst hx; simp [hjc]; exact fresh j (by omega)
      · simp [hic, hjc] at hx ⊢; intro h; subst h; exact fresh i (by omega) hx
      · simp [hic, hjc] at hx ⊢; exact hD i j (by omega) (by omega) hij x hx
    · intro j hj x hx
      simp only [GOp.run] at hj hx ⊢
      by_cases hjc : j = g.count
      · simp [hjc] at hx; simp [hx]
      · simp [hjc] at hx; exact List.mem_cons_of_mem _ (hL j (by omega) x hx)
  | append k seg =>
    simp only [GOp.seg] at fresh
    obtain ⟨hfr, hk⟩ := hok
    have hlast := ringInv_last_mem (g.ring k) (hR k hk)
    refine ⟨?_, ?_, ?_⟩
    · intro j hj
      simp only [GOp.run] at hj
      by_cases hjk : j = k
      · subst hjk
        have : (GOp.run g (.append j seg)).ring j = Op.run (g.ring j) (.append seg) := by
          simp [GOp.run, Axis.ring, Op.run, FontVerif.EdgeRing.append]
        exact this ▸ edge_ring_step (g.ring j) (.append seg) (hR j hj) (fresh j hj)
      · have : (GOp.run g (.append k seg)).ring j =
            Op.run (Op.run (g.ring j) (.foreign seg (some (g.edge k).first))) (.foreign (g.edge k).last (some seg)) := by
          simp [GOp.run, Axis.ring, Op.run, foreign, hjk]
        rw [this]
        apply edge_ring_step _ _ (edge_ring_step (g.ring j) (.foreign seg (some (g.edge k).first)) (hR j hj) (fresh j hj))
        show (g.edge k).last ∉ (g.edge j).ms
        exact hD k j hk hj (Ne.symm hjk) _ hlast
    · intro i j hi hj hij x hx
      simp only [GOp.run] at hi hj hx ⊢
      by_cases hik : i = k <;> by_cases hjk : j = k
      · omega
      · simp [hik, hjk] at hx ⊢
        rcases hx with h | h
        · subst h; exact fresh j hj
        · exact hD k j hk hj (by omega) x h
      · simp [hik, hjk] at hx ⊢
        refine ⟨fun h => by subst h; exact fresh i hi hx, hD i k hi hk (by omega) x hx⟩
      · simp [hik, hjk] at hx ⊢; exact hD i j hi hj hij x hx
    · intro j hj x hx
      simp only [GOp.run] at hj hx ⊢
      by_cases hjk : j = k
      · simp [hjk] at hx
        rcases hx with h | h
        · simp [h]
        · exact List.mem_cons_of_mem _ (hL k hk x h)
      · simp [hjk] at hx; exact List.mem_cons_of_mem _ (hL j hj x hx)

/-- **Every edge's ring is a ring after any admissible sequence of `compute_edges` operations** — the foreign writes
are no longer a hypothesis: they follow from freshness and disjointness. -/
theorem axis_invariant (ops : List GOp) : ∀ g : Axis, AxisInv g → AllOk g ops → AxisInv (ops.foldl GOp.run g) := by
  induction ops with
  | nil => intro g h _; exact h
  | cons op rest ih => intro g hI hok; exact ih _ (axis_step g op hI hok.1) hok.2

/-- a sequence of operations whose segment indices never repeat (`compute_edges_links_each_segment_once`) and whose
append targets exist is admissible from the empty axis -/
theorem allOk_of_nodup (ops : List GOp) : ∀ g : Axis,
    (∀ x, x ∈ g.linked → x ∉ ops.map GOp.seg) → (ops.map GOp.seg).Nodup →
    (∀ (pre : List GOp) (k seg : Nat) (post : List GOp), ops = pre ++ .append k seg :: post →
      k < (pre.foldl GOp.run g).count) → AllOk g ops := by
  induction ops with
  | nil => intro g _ _ _; trivial
  | cons op rest ih =>
    intro g hdis hnd hk
    simp only [List.map_cons, List.nodup_cons] at hnd
    have hfresh : op.seg ∉ g.linked := fun h => hdis _ h (by simp)
    refine ⟨?_, ih (op.run g) ?_ hnd.2 ?_⟩
    · cases op with
      | newEdge seg => exact hfresh
      | append k seg => exact ⟨hfresh, hk [] k seg rest rfl⟩
    · intro x hx
      have : x = op.seg ∨ x ∈ g.linked := by
        cases op <;> simpa [GOp.run, GOp.seg] using hx
      rcases this with h | h
      · subst h; exact hnd.1
      · intro hm; exact hdis x h (by simp [hm])
    · intro pre k seg post heq
      exact hk (op :: pre) k seg post (by simp [heq])

/-- **All ring walks of the final state terminate**: after `compute_edges` has linked any sequence of pairwise
distinct segment indices (appends only to existing edges), for EVERY edge the walks of `link_segments_to_edges` /
`compute_edge_properties` from its `first_ix` break within its number of segments, and so does the CJK link walk. -/
theorem axis_walks_terminate (next0 : Nat → Option Nat) (ops : List GOp) (hnd : (ops.map GOp.seg).Nodup)
    (hk : ∀ (pre : List GOp) (k seg : Nat) (post : List GOp), ops = pre ++ .append k seg :: post →
      k < (pre.foldl GOp.run (Axis.empty next0)).count) :
    let g := ops.foldl GOp.run (Axis.empty next0)
    ∀ j, j < g.count → ∀ x, x ∈ (g.edge j).ms →
      walk g.next (g.edge j).last (g.edge j).ms.length x = true ∧
      ∀ stop valid, walkCjk g.next (g.edge j).first stop valid (g.edge j).ms.length x = true := by
  intro g j hj x hx
  have hI : AxisInv g := axis_invariant ops (Axis.empty next0)
    ⟨fun j hj => by simp [Axis.empty] at hj, fun i j hi => by simp [Axis.empty] at hi,
     fun j hj => by simp [Axis.empty] at hj⟩
    (allOk_of_nodup ops _ (by simp [Axis.empty]) hnd hk)
  exact ⟨edge_ring_walk_terminates (g.ring j) (hI.1 j hj) x hx,
    fun stop valid => edge_ring_cjk_walk_terminates (g.ring j) (hI.1 j hj) stop valid x hx⟩

/-- two edges built interleaved: edge 0 = 7 → 3 → 5, edge 1 = 2 → 9; every ring closes -/
example : ([GOp.newEdge 7, .newEdge 2, .append 0 3, .append 1 9, .append 0 5].foldl GOp.run (Axis.empty fun _ => none)).next 5 = some 7 ∧ ([GOp.newEdge 7, .newEdge 2, .append 0 3, .append 1 9, .append 0 5].foldl GOp.run (Axis.empty fun _ => none)).next 7 = some 3 ∧
    ([GOp.newEdge 7, .newEdge 2, .append 0 3, .append 1 9, .append 0 5].foldl GOp.run (Axis.empty fun _ => none)).next 9 = some 2 := by decide
example : (([GOp.newEdge 7, .newEdge 2, .append 0 3, .append 1 9, .append 0 5].foldl GOp.run (Axis.empty fun _ => none)).edge 0).last = 5 ∧ ([GOp.newEdge 7, .newEdge 2, .append 0 3, .append 1 9, .append 0 5].foldl GOp.run (Axis.empty fun _ => none)).count = 2 := by decide

example : walkCjk (append (append (newEdge (fun _ => none) 7) 3) 9).next 7 (fun _ => false) (fun _ => true) 3 7 = true := by decide
example : walkCjk (append (append (newEdge (fun _ => none) 7) 3) 9).next 7 (fun _ => false) (fun _ => true) 2 7 = false := by decide

example : walk (append (append (newEdge (fun _ => none) 7) 3) 9).next 9 3 7 = true := by decide
example : (append (append (newEdge (fun _ => none) 7) 3) 9).next 9 = some 7 := by decide

end FontVerif.C02
