/-
C15 — ordering and equality of the scalar types and of `BigEndian<T>` (font-types/src/raw.rs):
"ordering of values equals ordering of raw bits".  Model: Model/Scalars.lean (`cmpInt`, `lexCmp`,
`key`, `beCmp`) over the big-endian codecs of Model/Fixed.lean.

Reading of the statement that is proved: `BigEndian<T>::cmp` (and `T::cmp`) is the comparison of the
decoded raw integer — SIGNED two's complement for `i8/i16/i32/i64`, `Int24`, `FWord`, the
fixed-point types and `LongDateTime`; UNSIGNED for `u8/u16/u32`, `Uint24`, `UfWord`, glyph ids,
`NameId`, offsets, `Version16Dot16`; for the unsigned kinds, `Tag` and `MajorMinor` that is the
same as the lexicographic order of the big-endian bytes; for the signed kinds it is NOT (a negative
value has its top bit set), which is the exact content of the seeded byte-compare defect.
-/
import FontVerif.Model.Scalars
set_option linter.unusedVariables false
namespace FontVerif.C15Ord
open FontVerif FontVerif.Fixed FontVerif.Scalars

/-! ### `cmp` is a total order consistent with equality -/

theorem cmp_eq_iff (a b : Int) : cmpInt a b = .eq ↔ a = b := by
  unfold cmpInt; constructor
  · intro h; split at h <;> (try split at h) <;> simp_all
  · intro h; subst h; simp

theorem cmp_lt_iff (a b : Int) : cmpInt a b = .lt ↔ a < b := by
  unfold cmpInt; constructor
  · intro h; split at h <;> (try split at h) <;> simp_all
  · intro h; simp [h]

theorem cmp_gt_iff (a b : Int) : cmpInt a b = .gt ↔ b < a := by
  unfold cmpInt; constructor
  · intro h; split at h <;> (try split at h) <;> simp_all <;> omega
  · intro h
    have h1 : ¬ a < b := by omega
    have h2 : ¬ a = b := by omega
    simp [h1, h2]

theorem cmp_swap (a b : Int) : cmpInt b a = (cmpInt a b).swap := by
  unfold cmpInt
  by_cases h1 : a < b
  · have : ¬ b < a := by omega
    have : ¬ b = a := by omega
    simp [*, Ordering.swap]
  · by_cases h2 : a = b
    · subst h2; simp [Ordering.swap]
    · have : b < a := by omega
      simp [*, Ordering.swap]

theorem cmp_trans (a b c : Int) (h1 : cmpInt a b = .lt) (h2 : cmpInt b c = .lt) :
    cmpInt a c = .lt := by
  rw [cmp_lt_iff] at *; omega

/-- derived `PartialOrd` / `BigEndian::partial_cmp` agree with `Ord`. -/
theorem partial_cmp_is_some_cmp (k : Kind) (a b : List Int) :
    bePartialCmp k a b = some (beCmp k a b) := rfl

/-- `BigEndian<T>::cmp` is `T::cmp` of the decoded values (`self.get().cmp(&other.get())`). -/
theorem be_cmp_is_cmp_of_get (k : Kind) (a b : List Int) :
    beCmp k a b = lexCmp (key k a) (key k b) := rfl

theorem lex_singleton (a b : Int) : lexCmp [a] [b] = cmpInt a b := by
  unfold lexCmp cmpInt
  split
  · rfl
  · split <;> simp [lexCmp]

theorem lex_eq_iff : ∀ (a b : List Int), lexCmp a b = .eq ↔ a = b
  | [], [] => by simp [lexCmp]
  | [], _ :: _ => by simp [lexCmp]
  | _ :: _, [] => by simp [lexCmp]
  | a :: as, b :: bs => by
    unfold lexCmp
    by_cases h1 : a < b
    · simp [h1]; intro h; omega
    · by_cases h2 : a = b
      · subst h2; simp [lex_eq_iff as bs]
      · simp [h1, h2]

/-! ### `BigEndian<T>` orders like the value: signed kinds -/

theorem i8_be_roundtrip (v : Int) (h : inI8 v) : fromBeS 1 (toBeS 1 v) = v := by
  unfold inI8 at h
  simp [toBeS, toBeU, fromBeS, fromBeU, List.range, List.range.loop]; split <;> omega

theorem i16_be_roundtrip (v : Int) (h : inI16 v) : fromBeS 2 (toBeS 2 v) = v := by
  unfold inI16 at h
  simp [toBeS, toBeU, fromBeS, fromBeU, List.range, List.range.loop]; split <;> omega

theorem i32_be_roundtrip (v : Int) (h : inI32 v) : fromBeS 4 (toBeS 4 v) = v := by
  unfold inI32 at h
  simp [toBeS, toBeU, fromBeS, fromBeU, List.range, List.range.loop]; split <;> omega

/-- `LongDateTime` / `i64`: 8 bytes. -/
theorem i64_be_roundtrip (v : Int) (h : inI64 v) : fromBeS 8 (toBeS 8 v) = v := by
  unfold inI64 at h
  simp [toBeS, toBeU, fromBeS, fromBeU, List.range, List.range.loop]; split <;> omega

theorem u8_be_roundtrip (v : Int) (h : inU8 v) : fromBeU (toBeU 1 v) = v := by
  unfold inU8 at h
  simp [toBeU, fromBeU, List.range, List.range.loop]; omega

/-- `BigEndian<i8 / i16 / i32 / i64>` (and `FWord`, `F2Dot14`, `F4Dot12`, `F6Dot10`, `Fixed`,
`LongDateTime`): comparing two encoded values is the SIGNED comparison of the values. -/
theorem be_cmp_i8 (a b : Int) (ha : inI8 a) (hb : inI8 b) :
    beCmp (.s 1) (toBeS 1 a) (toBeS 1 b) = cmpInt a b := by
  simp only [beCmp, key, i8_be_roundtrip a ha, i8_be_roundtrip b hb, lex_singleton]

theorem be_cmp_i16 (a b : Int) (ha : inI16 a) (hb : inI16 b) :
    beCmp (.s 2) (toBeS 2 a) (toBeS 2 b) = cmpInt a b := by
  simp only [beCmp, key, i16_be_roundtrip a ha, i16_be_roundtrip b hb, lex_singleton]

theorem be_cmp_i32 (a b : Int) (ha : inI32 a) (hb : inI32 b) :
    beCmp (.s 4) (toBeS 4 a) (toBeS 4 b) = cmpInt a b := by
  simp only [beCmp, key, i32_be_roundtrip a ha, i32_be_roundtrip b hb, lex_singleton]

theorem be_cmp_i64 (a b : Int) (ha : inI64 a) (hb : inI64 b) :
    beCmp (.s 8) (toBeS 8 a) (toBeS 8 b) = cmpInt a b := by
  simp only [beCmp, key, i64_be_roundtrip a ha, i64_be_roundtrip b hb, lex_singleton]

/-- `BigEndian<Int24>`. -/
theorem be_cmp_int24 (a b : Int) (ha : -8388608 ≤ a ∧ a ≤ 8388607) (hb : -8388608 ≤ b ∧ b ≤ 8388607) :
    beCmp .i24 (int24ToBe a) (int24ToBe b) = cmpInt a b := by
  have ra : (match int24ToBe a with | [b0, b1, b2] => int24FromBe b0 b1 b2 | _ => 0) = a := by
    unfold int24ToBe int24FromBe int24New wrapU32; simp only []
    split <;> split <;> (try split) <;> omega
  have rb : (match int24ToBe b with | [b0, b1, b2] => int24FromBe b0 b1 b2 | _ => 0) = b := by
    unfold int24ToBe int24FromBe int24New wrapU32; simp only []
    split <;> split <;> (try split) <;> omega
  unfold int24ToBe at *
  simp only [beCmp, key] at *
  rw [ra, rb, lex_singleton]

/-! ### unsigned kinds: value order = lexicographic order of the bytes -/

theorem be_cmp_u8 (a b : Int) (ha : inU8 a) (hb : inU8 b) :
    beCmp (.u 1) (toBeU 1 a) (toBeU 1 b) = cmpInt a b := by
  simp only [beCmp, key, u8_be_roundtrip a ha, u8_be_roundtrip b hb, lex_singleton]

theorem be_cmp_u16 (a b : Int) (ha : inU16 a) (hb : inU16 b) :
    beCmp (.u 2) (toBeU 2 a) (toBeU 2 b) = cmpInt a b := by
  have ra : fromBeU (toBeU 2 a) = a := by
    unfold inU16 at ha; simp [toBeU, fromBeU, List.range, List.range.loop]; omega
  have rb : fromBeU (toBeU 2 b) = b := by
    unfold inU16 at hb; simp [toBeU, fromBeU, List.range, List.range.loop]; omega
  simp only [beCmp, key, ra, rb, lex_singleton]

theorem be_cmp_u32 (a b : Int) (ha : inU32 a) (hb : inU32 b) :
    beCmp (.u 4) (toBeU 4 a) (toBeU 4 b) = cmpInt a b := by
  have ra : fromBeU (toBeU 4 a) = a := by
    unfold inU32 at ha; simp [toBeU, fromBeU, List.range, List.range.loop]; omega
  have rb : fromBeU (toBeU 4 b) = b := by
    unfold inU32 at hb; simp [toBeU, fromBeU, List.range, List.range.loop]; omega
  simp only [beCmp, key, ra, rb, lex_singleton]

theorem be_cmp_uint24 (a b : Int) (ha : 0 ≤ a ∧ a ≤ 16777215) (hb : 0 ≤ b ∧ b ≤ 16777215) :
    beCmp .u24 (uint24ToBe a) (uint24ToBe b) = cmpInt a b := by
  have ra : uint24FromBe (a / 65536 % 256) (a / 256 % 256) (a % 256) = a := by
    unfold uint24FromBe uint24New; split <;> omega
  have rb : uint24FromBe (b / 65536 % 256) (b / 256 % 256) (b % 256) = b := by
    unfold uint24FromBe uint24New; split <;> omega
  simp only [beCmp, key, uint24ToBe, ra, rb, lex_singleton]

private theorem then_assoc (a b c : Ordering) : (a.then b).then c = a.then (b.then c) := by
  cases a <;> cases b <;> cases c <;> rfl

private theorem lex_nil : lexCmp [] [] = .eq := by simp [lexCmp]

private theorem lex_cons (a b : Int) (as bs : List Int) :
    lexCmp (a :: as) (b :: bs) = (cmpInt a b).then (lexCmp as bs) := by
  unfold cmpInt
  rw [lexCmp]
  by_cases h1 : a < b
  · simp [h1, Ordering.then]
  · by_cases h2 : a = b
    · simp [h1, h2, Ordering.then]
    · simp [h1, h2, Ordering.then]

private theorem cmp_digits (a b x y K : Int) (hK : 0 < K) (hx : 0 ≤ x ∧ x < K) (hy : 0 ≤ y ∧ y < K) :
    cmpInt (a * K + x) (b * K + y) = (cmpInt a b).then (cmpInt x y) := by
  rcases Int.lt_trichotomy a b with h | h | h
  · have h1 : (a + 1) * K ≤ b * K := Int.mul_le_mul_of_nonneg_right (by omega) (by omega)
    rw [Int.add_mul, Int.one_mul] at h1
    have e1 : cmpInt a b = .lt := (cmp_lt_iff _ _).mpr h
    have e2 : cmpInt (a * K + x) (b * K + y) = .lt := (cmp_lt_iff _ _).mpr (by omega)
    rw [e1, e2]; rfl
  · subst h
    have e1 : cmpInt a a = .eq := (cmp_eq_iff _ _).mpr rfl
    rw [e1]
    unfold cmpInt
    generalize a * K = Z
    simp only [Ordering.then]
    repeat' split
    all_goals first | rfl | (exfalso; omega)
  · have h1 : (b + 1) * K ≤ a * K := Int.mul_le_mul_of_nonneg_right (by omega) (by omega)
    rw [Int.add_mul, Int.one_mul] at h1
    have e1 : cmpInt a b = .gt := (cmp_gt_iff _ _).mpr h
    have e2 : cmpInt (a * K + x) (b * K + y) = .gt := (cmp_gt_iff _ _).mpr (by omega)
    rw [e1, e2]; rfl

/-- byte-lexicographic order (= derived `Ord` of `Tag`, = what a raw `memcmp` of two encoded
unsigned scalars gives) is the unsigned order of the big-endian integers: 2, 3 and 4 bytes. -/
theorem lex_bytes_is_unsigned_order_2 (a0 a1 b0 b1 : Int) (h : inU8 a0 ∧ inU8 a1 ∧ inU8 b0 ∧ inU8 b1) :
    lexCmp [a0, a1] [b0, b1] = cmpInt (fromBeU [a0, a1]) (fromBeU [b0, b1]) := by
  unfold inU8 at h
  simp only [fromBeU, List.foldl, Int.zero_mul, Int.zero_add, lex_cons, lex_nil]
  rw [cmp_digits _ _ a1 b1 256 (by omega) (by omega) (by omega)]
  cases cmpInt a0 b0 <;> cases cmpInt a1 b1 <;> rfl

theorem lex_bytes_is_unsigned_order_3 (a0 a1 a2 b0 b1 b2 : Int)
    (h : inU8 a0 ∧ inU8 a1 ∧ inU8 a2 ∧ inU8 b0 ∧ inU8 b1 ∧ inU8 b2) :
    lexCmp [a0, a1, a2] [b0, b1, b2] = cmpInt (fromBeU [a0, a1, a2]) (fromBeU [b0, b1, b2]) := by
  unfold inU8 at h
  simp only [fromBeU, List.foldl, Int.zero_mul, Int.zero_add, lex_cons, lex_nil]
  rw [cmp_digits _ _ a2 b2 256 (by omega) (by omega) (by omega),
    cmp_digits _ _ a1 b1 256 (by omega) (by omega) (by omega)]
  cases cmpInt a0 b0 <;> cases cmpInt a1 b1 <;> cases cmpInt a2 b2 <;> rfl

theorem lex_bytes_is_unsigned_order_4 (a0 a1 a2 a3 b0 b1 b2 b3 : Int)
    (h : inU8 a0 ∧ inU8 a1 ∧ inU8 a2 ∧ inU8 a3 ∧ inU8 b0 ∧ inU8 b1 ∧ inU8 b2 ∧ inU8 b3) :
    lexCmp [a0, a1, a2, a3] [b0, b1, b2, b3]
      = cmpInt (fromBeU [a0, a1, a2, a3]) (fromBeU [b0, b1, b2, b3]) := by
  unfold inU8 at h
  simp only [fromBeU, List.foldl, Int.zero_mul, Int.zero_add, lex_cons, lex_nil]
  rw [cmp_digits _ _ a3 b3 256 (by omega) (by omega) (by omega),
    cmp_digits _ _ a2 b2 256 (by omega) (by omega) (by omega),
    cmp_digits _ _ a1 b1 256 (by omega) (by omega) (by omega)]
  cases cmpInt a0 b0 <;> cases cmpInt a1 b1 <;> cases cmpInt a2 b2 <;> cases cmpInt a3 b3 <;> rfl

/-- `Tag`: `#[derive(Ord)]` on `[u8; 4]`, and `BigEndian<Tag>`: the order of the tag read as a
big-endian `u32`. -/
theorem tag_cmp_is_u32_order (a0 a1 a2 a3 b0 b1 b2 b3 : Int)
    (h : inU8 a0 ∧ inU8 a1 ∧ inU8 a2 ∧ inU8 a3 ∧ inU8 b0 ∧ inU8 b1 ∧ inU8 b2 ∧ inU8 b3) :
    beCmp .tag [a0, a1, a2, a3] [b0, b1, b2, b3]
      = cmpInt (fromBeU [a0, a1, a2, a3]) (fromBeU [b0, b1, b2, b3]) :=
  lex_bytes_is_unsigned_order_4 a0 a1 a2 a3 b0 b1 b2 b3 h

/-- `MajorMinor`: derived `Ord` compares `(major, minor)`; through `BigEndian` that is the order of
the packed 32-bit value. -/
theorem majorminor_cmp_is_u32_order (a0 a1 a2 a3 b0 b1 b2 b3 : Int)
    (h : inU8 a0 ∧ inU8 a1 ∧ inU8 a2 ∧ inU8 a3 ∧ inU8 b0 ∧ inU8 b1 ∧ inU8 b2 ∧ inU8 b3) :
    beCmp .mm [a0, a1, a2, a3] [b0, b1, b2, b3]
      = cmpInt (fromBeU [a0, a1, a2, a3]) (fromBeU [b0, b1, b2, b3]) := by
  rw [← lex_bytes_is_unsigned_order_4 a0 a1 a2 a3 b0 b1 b2 b3 h]
  unfold inU8 at h
  simp only [beCmp, key, fromBeU, List.foldl, Int.zero_mul, Int.zero_add, lex_cons, lex_nil]
  rw [cmp_digits _ _ a1 b1 256 (by omega) (by omega) (by omega),
    cmp_digits _ _ a3 b3 256 (by omega) (by omega) (by omega)]
  cases cmpInt a0 b0 <;> cases cmpInt a1 b1 <;> cases cmpInt a2 b2 <;> cases cmpInt a3 b3 <;> rfl

/-- for a SIGNED scalar the lexicographic order of the bytes is wrong exactly across the sign:
a negative value sorts after a non-negative one (what comparing `be_bytes()` would do). -/
theorem lex_bytes_signed_across_sign (a b : Int) (ha : inI16 a) (hb : inI16 b) (h : a < 0 ∧ 0 ≤ b) :
    lexCmp (toBeS 2 a) (toBeS 2 b) = .gt ∧ cmpInt a b = .lt := by
  unfold inI16 at *
  constructor
  · have e : ∀ v : Int, toBeS 2 v = [v % 65536 / 256 % 256, v % 65536 % 256] := by
      intro v; simp [toBeS, toBeU, List.range, List.range.loop]
    rw [e, e, lex_bytes_is_unsigned_order_2 _ _ _ _ (by unfold inU8; omega), cmp_gt_iff]
    simp only [fromBeU, List.foldl]; omega
  · rw [cmp_lt_iff]; omega

/-- … and right when the signs agree. -/
theorem lex_bytes_signed_same_sign (a b : Int) (ha : inI16 a) (hb : inI16 b)
    (h : (a < 0 ∧ b < 0) ∨ (0 ≤ a ∧ 0 ≤ b)) :
    lexCmp (toBeS 2 a) (toBeS 2 b) = cmpInt a b := by
  unfold inI16 at *
  have e : ∀ v : Int, toBeS 2 v = [v % 65536 / 256 % 256, v % 65536 % 256] := by
    intro v; simp [toBeS, toBeU, List.range, List.range.loop]
  rw [e, e, lex_bytes_is_unsigned_order_2 _ _ _ _ (by unfold inU8; omega)]
  simp only [fromBeU, List.foldl]
  unfold cmpInt
  repeat' split
  all_goals first | rfl | (exfalso; omega)

/-! ### equality: raw bytes equal ⟺ values equal -/

theorem be_eq_iff_i16 (a0 a1 b0 b1 : Int) (h : inU8 a0 ∧ inU8 a1 ∧ inU8 b0 ∧ inU8 b1) :
    key (.s 2) [a0, a1] = key (.s 2) [b0, b1] ↔ [a0, a1] = [b0, b1] := by
  unfold inU8 at h
  simp only [key, fromBeS, fromBeU, List.foldl, List.cons.injEq, and_true]
  constructor
  · intro hh; repeat' split at hh
    all_goals omega
  · intro hh; rw [hh.1, hh.2]

theorem be_eq_iff_u32 (a0 a1 a2 a3 b0 b1 b2 b3 : Int)
    (h : inU8 a0 ∧ inU8 a1 ∧ inU8 a2 ∧ inU8 a3 ∧ inU8 b0 ∧ inU8 b1 ∧ inU8 b2 ∧ inU8 b3) :
    key (.u 4) [a0, a1, a2, a3] = key (.u 4) [b0, b1, b2, b3] ↔ [a0, a1, a2, a3] = [b0, b1, b2, b3] := by
  unfold inU8 at h
  simp only [key, fromBeU, List.foldl, List.cons.injEq, and_true]
  constructor
  · intro hh; omega
  · intro hh; rw [hh.1, hh.2.1, hh.2.2.1, hh.2.2.2]

/-- `cmp = Equal` exactly for equal values, for every kind (`lexCmp` on the decoded keys). -/
theorem be_cmp_eq_iff (k : Kind) (a b : List Int) : beCmp k a b = .eq ↔ key k a = key k b :=
  lex_eq_iff _ _

/-- cross-type comparison `GlyphId ~ GlyphId16`: the `u32` order. -/
theorem gid_cross_cmp (a b : Int) : gidCrossCmp a b = some (cmpInt a b) := rfl

example : beCmp (.s 2) [255, 255] [0, 0] = .lt ∧ lexCmp [255, 255] [0, 0] = .gt
    ∧ beCmp (.u 2) [255, 255] [0, 0] = .gt ∧ beCmp .i24 [128, 0, 0] [127, 255, 255] = .lt
    ∧ beCmp .mm [0, 1, 0, 5] [0, 1, 0, 10] = .lt := by decide

end FontVerif.C15Ord
