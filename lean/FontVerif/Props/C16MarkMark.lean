/-
C16 (MarkToMark / MarkToLig builders) — write-fonts/src/tables/gpos/builders.rs `MarkToMarkBuilder`,
`MarkToLigBuilder` (and the shared `MarkList`).  Model: Model/LayoutMarkLig.lean; helper lemmas:
Lemmas/LayoutMarkLig.lean, Lemmas/LayoutMarkBuilder.lean.  Correspondence: `mm.build`, `ml.build`.
-/
import FontVerif.Props.C16Builders
import FontVerif.Lemmas.LayoutMarkLig
set_option linter.unusedVariables false
namespace FontVerif.C16
open FontVerif FontVerif.Layout

/-- **markmark_builder_reads_back.**  `MarkToMarkBuilder` is the `MarkToBaseBuilder` code under other
names (`insert_mark1` / `insert_mark2`; `.mark` / `.base` of `MbOp`): for ANY sequence of inserts
that does not panic, `build` does not panic and for EVERY (attaching mark, base mark) pair the
compiled MarkMarkPos subtable yields the anchors of the LAST `insert_mark1` of the mark and of the
LAST `insert_mark2` of the base mark for the mark's class, a null offset (no match) otherwise. -/
theorem markmark_builder_reads_back {A : Type} (ops : List (MbOp A))
    (hg : ∀ op ∈ ops, op.glyph < 65536) (b : MarkToMark A)
    (hb : MarkToBase.ofOps ops MarkToBase.empty = some b) :
    ∃ t, MarkToMark.build b = some t ∧ t.classCount = b.marks.classes.length ∧
      ∀ m m2, t.lookup m m2 = mbExpected ops m m2 :=
  markbase_builder_reads_back ops hg b hb

/-- **mark_insert_result.**  `MarkList::insert` (shared by the three mark builders) after ANY
non-panicking sequence of inserts: inserting glyph `g` into class `n` returns `Ok(class id of n)`
when the glyph is new or was last inserted into the SAME class, and `Err(previous class name)` —
the conflicting-class error — exactly when its last insert named a DIFFERENT class (the entry is
replaced all the same, which `markbase_builder_reads_back` accounts for). -/
theorem mark_insert_result {A : Type} (ops : List (MbOp A)) (hg : ∀ op ∈ ops, op.glyph < 65536)
    (b : MarkToBase A) (hb : MarkToBase.ofOps ops MarkToBase.empty = some b) (g n : Nat) (a : A) :
    ∃ id, classId (b.marks.insert g n a).1.classes n = some id ∧
      (b.marks.insert g n a).2 =
        match lastMark ops g with
        | some p => if p.1 = n then .inl id else .inr p.1
        | none => .inl id := by
  have inv := mbInv_ofOps ops hg b hb
  have hm := inv.marks g
  -- the previous class id has exactly one name
  have hname : ∀ (cs : List (Nat × Nat)) (n' id' : Nat), (cs.map (·.2)).Nodup → (n', id') ∈ cs →
      ((cs.find? (fun q => q.2 == id')).map (·.1)).getD 0 = n' := by
    intro cs n' id' hnd hmem
    cases hf : cs.find? (fun q => q.2 == id') with
    | none =>
      rw [List.find?_eq_none] at hf
      exact absurd (by simp) (hf _ hmem)
    | some q =>
      have hq2 : q.2 = id' := by simpa using List.find?_some hf
      have := eq_of_nodup_map (·.2) cs hnd q (List.mem_of_find?_eq_some hf) (n', id') hmem hq2
      simp [this]
  have hnd : (b.marks.classes.map (·.2)).Nodup := by rw [inv.ids]; exact List.nodup_range
  have hcl := markList_insert_classes b.marks g n a
  cases hc : classId b.marks.classes n with
  | some id =>
    rw [hc] at hcl
    refine ⟨id, by rw [hcl]; exact hc, ?_⟩
    unfold MarkList.insert
    simp only [hc]
    cases hl : lastMark ops g with
    | none => rw [hl] at hm; simp only at hm; simp [hm]
    | some p =>
      rw [hl] at hm
      obtain ⟨id', h1, h2⟩ := hm
      simp only [h2]
      by_cases hpn : p.1 = n
      · have : id' = id := by rw [hpn, hc] at h1; exact (Option.some.inj h1).symm
        simp [hpn, this]
      · have hne : id' ≠ id := fun e => hpn (inv.id_inj h1 (by rw [hc, e]))
        simp only [ne_eq, hne, not_false_eq_true, ↓reduceIte, hpn]
        rw [hname _ p.1 id' hnd (classId_mem h1)]
  | none =>
    rw [hc] at hcl
    refine ⟨b.marks.classes.length, by rw [hcl, classId_append, hc]; simp, ?_⟩
    unfold MarkList.insert
    simp only [hc]
    cases hl : lastMark ops g with
    | none => rw [hl] at hm; simp only at hm; simp [hm]
    | some p =>
      rw [hl] at hm
      obtain ⟨id', h1, h2⟩ := hm
      simp only [h2]
      have hpn : ¬ p.1 = n := fun e => by rw [e, hc] at h1; cases h1
      have hlt := inv.id_lt h1
      have hne : id' ≠ b.marks.classes.length := by omega
      simp only [ne_eq, hne, not_false_eq_true, ↓reduceIte, hpn]
      have hnd' : ((b.marks.classes ++ [(n, b.marks.classes.length)]).map (·.2)).Nodup := by
        simp only [List.map_append, List.map_cons, List.map_nil, inv.ids]
        rw [← List.range_succ]; exact List.nodup_range
      rw [hname _ p.1 id' hnd' (List.mem_append_left _ (classId_mem h1))]

/-- **marklig_builder_reads_back.**  Apply ANY sequence of `insert_mark`, `insert_ligature` (`None`
entries, repeated (ligature, class), shorter component lists) and
`add_ligature_components_directly` calls (glyphs < 65536) that does not panic (`insert_ligature`
with an anchor beyond the ligature's component list panics) to an empty `MarkToLigBuilder`.
Whenever `build` succeeds (it panics only for a class name no mark uses), for EVERY (mark glyph,
ligature glyph, component index) the compiled MarkLigPos subtable yields exactly (the mark's anchor,
the anchor the ligature's component map holds for the mark's class) — mark and ligature coverage in
glyph order, class names turned into the mark list's ids, a null offset (no match) where the
component has no anchor for that class, nothing for an uncovered glyph or a component index beyond
the ligature's components. -/
theorem marklig_builder_reads_back {A : Type} (ops : List (MlOp A))
    (hg : ∀ op ∈ ops, op.glyph < 65536) (b : MarkToLig A)
    (hb : MarkToLig.ofOps ops MarkToLig.empty = some b) (t : MarkLig A) (ht : b.build = some t) :
    t.classCount = b.marks.classes.length ∧
    ∀ m l c, t.lookup m l c =
      match bmGet m b.marks.glyphs, bmGet l b.ligatures with
      | some (id, am), some comps =>
        (comps[c]?).bind (fun comp => (compAnchor b.marks.classes comp id).map (fun al => (am, al)))
      | _, _ => none := by
  have inv := mlInv_ofOps ops _ mlInv_empty hg b hb
  unfold MarkToLig.build at ht
  simp only at ht
  cases hmo : mapOpt (fun e : Nat × List (List (Nat × A)) =>
      mapOpt (componentRecord b.marks.classes b.marks.classes.length) e.2) b.ligatures with
  | none => rw [hmo] at ht; cases ht
  | some ligs =>
    rw [hmo] at ht
    cases ht
    refine ⟨rfl, fun m l c => ?_⟩
    obtain ⟨_, hget⟩ := mapOpt_some _ _ _ hmo
    have hm := bmGet_coverage b.marks.glyphs inv.msorted inv.mbound m
    have hl := bmGet_coverage b.ligatures inv.lsorted inv.lbound l
    unfold MarkLig.lookup
    simp only
    cases hgm : bmGet m b.marks.glyphs with
    | none => rw [hgm] at hm; simp only at hm; rw [hm]
    | some p =>
      rw [hgm] at hm
      obtain ⟨mi, hmi, hmv⟩ := hm
      rw [hmi]
      cases hgl : bmGet l b.ligatures with
      | none => rw [hgl] at hl; simp only at hl; rw [hl]
      | some comps =>
        rw [hgl] at hl
        obtain ⟨li, hli, hlv⟩ := hl
        rw [hli]
        simp only
        rw [hmv]
        rw [List.getElem?_map] at hlv
        cases hle : b.ligatures[li]? with
        | none => rw [hle] at hlv; cases hlv
        | some e =>
          rw [hle] at hlv
          simp only [Option.map_some, Option.some.injEq] at hlv
          obtain ⟨recs, hrecs, hri⟩ := hget li e hle
          rw [hri]
          simp only
          obtain ⟨_, hcget⟩ := mapOpt_some _ _ _ hrecs
          rw [hlv] at hcget
          cases hcc : comps[c]? with
          | none =>
            have : recs[c]? = none := by
              have hlen := (mapOpt_some _ _ _ hrecs).1
              rw [hlv] at hlen
              rw [List.getElem?_eq_none_iff] at hcc ⊢
              omega
            rw [this]; rfl
          | some comp =>
            obtain ⟨row, hrow, hrc⟩ := hcget c comp hcc
            rw [hrc]
            simp only [Option.bind_some]
            have := componentRecord_get _ _ comp row hrow p.1
            rw [← this]
            cases row[p.1]? with
            | none => rfl
            | some o => cases o <;> rfl

/-! ## non-vacuity -/

/-- mark 20 moves from class "1" to class "2" (`Err(1)`), ligature 7 has two components: class "1"
on the first, class "2" on the second (the repeated insert wins), `None` entries leave nulls -/
def exMlOps : List (MlOp Nat) :=
  [.mark 20 1 100, .mark 21 2 101, .mark 20 2 102, .lig 7 1 [some 200, none], .lig 7 2 [none, some 201],
   .lig 7 2 [none, some 202]]

example : ((MarkToLig.ofOps exMlOps MarkToLig.empty).bind MarkToLig.build).map
    (fun t => (t.classCount, t.marks, t.ligs.map (·.map (·.map (·.getD 0))))) =
    some (2, [(1, 102), (1, 101)], [[[200, 0], [0, 202]]]) := by decide +kernel
example : ((MarkToLig.ofOps exMlOps MarkToLig.empty).bind MarkToLig.build).map
    (fun t => [t.lookup 20 7 1, t.lookup 20 7 0, t.lookup 21 7 2]) =
    some [some (102, 202), none, none] := by decide +kernel
/-- an anchor beyond the component list: `insert_ligature` panics; a class no mark uses: `build` panics -/
example : MarkToLig.ofOps [MlOp.mark 20 1 100, .lig 7 1 [some 1], .lig 7 1 [none, some 2]] MarkToLig.empty = none ∧
    ((MarkToLig.ofOps [MlOp.mark 20 1 100, .lig 7 3 [some 1]] MarkToLig.empty).bind MarkToLig.build) = none := by
  decide +kernel
/-- the conflicting-class error names the previous class -/
example : (((MarkToBase.empty : MarkToBase Nat).insertMark 20 1 100).marks.insert 20 2 102).2 = .inr 1 := by
  decide +kernel

end FontVerif.C16
