/-
C01 — parsing untrusted bytes never panics: the generated table readers.

`shape_getters_safe` is the generic theorem: for every well-formed reader program (`WF`, a decidable
syntactic predicate which `Gen/ReadShapes*.lean` discharges by `decide` for every table that
`translate/shapes.py` extracts from read-fonts/generated/*.rs), every byte string, every value of
the external read arguments and every interpretation of the hand-written callees, if the generated
`read` returns `Ok(marker)` then every generated getter's `unwrap()` is applied to `Some`/`Ok` and no
`start + len` in the marker's range fns overflows.
-/
import FontVerif.Lemmas.ShapeTotal
import FontVerif.Model.ShapeExt
import FontVerif.Gen.ReadShapes

set_option linter.unusedVariables false
set_option linter.unusedSimpArgs false

namespace FontVerif.C01
open FontVerif.Shape

/-- A successful `read` makes every field's range fn exact and in bounds (and the values re-read by
getters equal to the locals `read` used). -/
theorem run_fields_good (ext : Ext) (s : Shape) (hwf : WF s) (d : Data) (hL : d.len < MAXU)
    (argVals : List Nat) (m : Marker) (hr : run ext s d argVals = .ok m) :
    ∀ a fp b, s.prog = a ++ fp :: b → FieldGood ext d s.args m (a.reverse ++ []) fp := by
  obtain ⟨hsteps, hfields, hnd, hvnd, hvargs, hargs, hget⟩ := hwf
  unfold run at hr
  split at hr
  · cases hr
  · rename_i st hst
    split at hr
    · rename_i hpos
      cases hr
      rw [hsteps] at hst
      have := core (ext := ext) (d := d) hL s.args s.prog (initSt s.args argVals) st []
        hst hpos hnd (by simp) hvnd (by simp [boundVars])
        (fun x hx hin => hvargs x hin hx) (by simp [prevEnd, initSt, St.marker])
      exact this.2
    · cases hr

/-- **Generic getter safety.**  `hrec` is the only assumption about hand-written code: a record with
`ComputeSize` can be read from a slice of exactly the computed size (used only by the three getters
that return such a record by value, e.g. `SinglePosFormat1::value_record`). -/
theorem shape_getters_safe (ext : Ext)
    (hrec : ∀ r vs n, ext.size r vs = .ok n → ext.recRead r vs n = true)
    (s : Shape) (hwf : WF s) (d : Data) (hL : d.len < MAXU)
    (argVals : List Nat) (m : Marker) (hr : run ext s d argVals = .ok m) :
    ∀ g ∈ s.getters, getterOk ext s d m g := by
  have hall := run_fields_good ext s hwf d hL argVals m hr
  obtain ⟨hsteps, hfields, hnd, hvnd, hvargs, hargs, hget⟩ := hwf
  intro g hg
  have hgwf : getterWF s g = true := (List.all_eq_true.mp hget) g hg
  unfold getterWF at hgwf
  obtain ⟨a, fp, b, hsplit, hfid, hne, hcompat⟩ := getterWFAux_split s.args g s.prog [] hgwf
  have hgood := hall a fp b hsplit
  have hrange := rangeById_split m a [] fp b (by rw [hfid]; exact hne)
  simp only [List.map_nil] at hrange
  unfold getterOk
  rw [hfields, hsplit, ← hfid, hrange]
  unfold FieldGood at hgood
  cases hrr : fieldRange m ((a.reverse ++ []).map fieldOf) (fieldOf fp) with
  | panic => rw [hrr] at hgood; exact hgood
  | absent => trivial
  | range s0 e0 =>
    rw [hrr] at hgood
    simp only [] at hgood ⊢
    obtain ⟨hle, hend, hk⟩ := hgood
    obtain ⟨gf, gk⟩ := g
    obtain ⟨fid, k⟩ := fp
    simp only [] at hcompat hk ⊢
    cases gk with
    | rangeOnly => trivial
    | varLen => simp only []; omega
    | varLenSlice => exact ⟨hle, hend⟩
    | readAt sz =>
      simp only []
      cases k with
      | scalar sz' rd =>
        simp [getterCompat] at hcompat; subst hcompat
        simp only [] at hk
        have : checkedAdd s0 sz = some (s0 + sz) := checkedAdd_of_le (by omega) hL
        simp [readAt, this]; omega
      | condScalar c sz' rd =>
        simp [getterCompat] at hcompat; subst hcompat
        simp only [] at hk
        have : checkedAdd s0 sz = some (s0 + sz) := checkedAdd_of_le (by omega) hL
        simp [readAt, this]; omega
      | computed l => simp [getterCompat] at hcompat
      | condComputed c l => simp [getterCompat] at hcompat
    | readArray elem =>
      simp only []
      cases k with
      | scalar sz' rd => simp [getterCompat] at hcompat
      | condScalar c sz' rd => simp [getterCompat] at hcompat
      | computed l =>
        simp [getterCompat] at hcompat
        simp only [] at hk
        obtain ⟨vars0, _, hl⟩ := hk
        exact ⟨hle, hend, hcompat.1, evalLen_elem hcompat.2 hl⟩
      | condComputed c l =>
        simp [getterCompat] at hcompat
        simp only [] at hk
        obtain ⟨vars0, _, hl⟩ := hk
        exact ⟨hle, hend, hcompat.1, evalLen_elem hcompat.2 hl⟩
    | readArgsArray r gas =>
      simp only []
      cases k with
      | scalar sz' rd => simp [getterCompat] at hcompat
      | condScalar c sz' rd => simp [getterCompat] at hcompat
      | condComputed c0 l =>
        cases l with
        | mul c sz =>
          cases sz with
          | const k => simp [getterCompat] at hcompat
          | compute r' xs =>
            simp [getterCompat] at hcompat
            obtain ⟨rfl, hmatch⟩ := hcompat
            simp only [] at hk
            obtain ⟨vars0, hagree, hl⟩ := hk
            have hvals := gargVals_ok hfields hnd hall a _ b hsplit vars0 hagree gas xs (by simpa using hmatch)
            refine ⟨hle, hend, _, hvals, ?_⟩
            simp only [evalLen, evalSize] at hl
            split at hl
            · cases hl
            · rename_i n hn; exact ⟨n, hn⟩
        | one sz => simp [getterCompat] at hcompat
        | remFloor k => simp [getterCompat] at hcompat
        | rem => simp [getterCompat] at hcompat
        | varLen vk c => simp [getterCompat] at hcompat
      | computed l =>
        cases l with
        | mul c sz =>
          cases sz with
          | const k => simp [getterCompat] at hcompat
          | compute r' xs =>
            simp [getterCompat] at hcompat
            obtain ⟨rfl, hmatch⟩ := hcompat
            simp only [] at hk
            obtain ⟨vars0, hagree, hl⟩ := hk
            have hvals := gargVals_ok hfields hnd hall a _ b hsplit vars0 hagree gas xs (by simpa using hmatch)
            refine ⟨hle, hend, _, hvals, ?_⟩
            simp only [evalLen, evalSize] at hl
            split at hl
            · cases hl
            · rename_i n hn; exact ⟨n, hn⟩
        | one sz => simp [getterCompat] at hcompat
        | remFloor k => simp [getterCompat] at hcompat
        | rem => simp [getterCompat] at hcompat
        | varLen vk c => simp [getterCompat] at hcompat
    | readArgsStruct r gas =>
      simp only []
      cases k with
      | scalar sz' rd => simp [getterCompat] at hcompat
      | condScalar c sz' rd => simp [getterCompat] at hcompat
      | condComputed c0 l =>
        cases l with
        | one sz =>
          cases sz with
          | const k => simp [getterCompat] at hcompat
          | compute r' xs =>
            simp [getterCompat] at hcompat
            obtain ⟨rfl, hmatch⟩ := hcompat
            simp only [] at hk
            obtain ⟨vars0, hagree, hl⟩ := hk
            have hvals := gargVals_ok hfields hnd hall a _ b hsplit vars0 hagree gas xs (by simpa using hmatch)
            refine ⟨hle, hend, _, hvals, ?_⟩
            simp only [evalLen, evalSize] at hl
            exact hrec _ _ _ hl
        | mul c sz => simp [getterCompat] at hcompat
        | remFloor k => simp [getterCompat] at hcompat
        | rem => simp [getterCompat] at hcompat
        | varLen vk c => simp [getterCompat] at hcompat

      | computed l =>
        cases l with
        | one sz =>
          cases sz with
          | const k => simp [getterCompat] at hcompat
          | compute r' xs =>
            simp [getterCompat] at hcompat
            obtain ⟨rfl, hmatch⟩ := hcompat
            simp only [] at hk
            obtain ⟨vars0, hagree, hl⟩ := hk
            have hvals := gargVals_ok hfields hnd hall a _ b hsplit vars0 hagree gas xs (by simpa using hmatch)
            refine ⟨hle, hend, _, hvals, ?_⟩
            simp only [evalLen, evalSize] at hl
            exact hrec _ _ _ hl
        | mul c sz => simp [getterCompat] at hcompat
        | remFloor k => simp [getterCompat] at hcompat
        | rem => simp [getterCompat] at hcompat
        | varLen vk c => simp [getterCompat] at hcompat

/-! ## `read` returns `Ok` or a genuine `ReadError` -/

/-- **`read` is total on the error side too**: a well-formed reader program never reaches the
artefact state `stuck` (use of an unbound `*_byte_len` local), i.e. the model's `run` always
returns `Ok(marker)` or one of the `ReadError`s the Rust can return.  `hext`: the hand-written
`compute_size` impls return their own errors, not the artefact. -/
theorem run_never_stuck (ext : Ext) (hext : ∀ r vs, ext.size r vs ≠ .error .stuck)
    (s : Shape) (hwf : WF s) (d : Data) (argVals : List Nat) :
    run ext s d argVals ≠ .error .stuck := by
  have key : ∀ (fps : List FieldP) (st : St),
      runSteps ext d (fps.flatMap stepsOf) st ≠ .error .stuck := by
    intro fps
    induction fps with
    | nil => intro st; simp [runSteps]
    | cons fp rest ih =>
      intro st h
      simp only [List.flatMap_cons] at h
      rcases runSteps_append_err _ _ _ _ h with h1 | ⟨st1, _, h2⟩
      · exact field_not_stuck ext hext d fp st h1
      · exact ih st1 h2
  unfold run
  rw [hwf.1]
  split
  · rename_i e he; intro h; cases h; exact key _ _ he
  · split <;> simp

/-! ## the readers that exist in read-fonts/generated -/

/-- The concrete interpretation of the hand-written callees (Model/ShapeExt.lean, tied to the Rust
by the correspondence harness) satisfies the one hypothesis of `shape_getters_safe`. -/
theorem concreteExt_hrec (t : Tables) :
    ∀ r vs n, (concreteExt t).size r vs = .ok n → (concreteExt t).recRead r vs n = true := by
  intro r vs n h
  simp only [concreteExt] at h ⊢
  unfold recReadFn
  cases hn : t.sizeNames[r]? with
  | none => simp [sizeFn, hn] at h
  | some name =>
    simp only []
    split
    · rename_i fmt
      rw [sizeFn_hand t 7 r [fmt] "ValueRecord" (2 * popcount 8 (fmt % 256)) hn (by simp [handSize])] at h
      simp only [Except.ok.injEq] at h
      simp [handRecRead, h]
    · rename_i off
      rw [sizeFn_hand t 7 r [off] "IdDeltaOrLength" (if off = 0 then 3 else 2) hn (by simp [handSize])] at h
      simp only [Except.ok.injEq] at h
      simp [handRecRead, h]
    · simp [h]

/-- **Every generated table reader of read-fonts is safe to traverse.**  For each reader in the
registry that translate/shapes.py regenerates from read-fonts/generated/*.rs on every run, for every
byte string, every value of the read arguments and every interpretation `ext` of the hand-written
callees: if `read` / `read_with_args` succeeds then every generated getter unwraps `Some`/`Ok` and
no `*_byte_range()` overflows. -/
theorem generated_getters_safe (ext : Ext)
    (hrec : ∀ r vs n, ext.size r vs = .ok n → ext.recRead r vs n = true) :
    ∀ p ∈ Gen.ReadShapes.allShapes, ∀ (d : Data), d.len < MAXU →
      ∀ (argVals : List Nat) (m : Marker), run ext p.2 d argVals = .ok m →
        ∀ g ∈ p.2.getters, getterOk ext p.2 d m g :=
  fun p hp d hL argVals m hr =>
    shape_getters_safe ext hrec p.2 (Gen.ReadShapes.allShapes_wf p hp) d hL argVals m hr

/-- … in particular for the transcribed callees the driver runs -/
theorem generated_getters_safe_concrete (t : Tables) :
    ∀ p ∈ Gen.ReadShapes.allShapes, ∀ (d : Data), d.len < MAXU →
      ∀ (argVals : List Nat) (m : Marker), run (concreteExt t) p.2 d argVals = .ok m →
        ∀ g ∈ p.2.getters, getterOk (concreteExt t) p.2 d m g :=
  generated_getters_safe (concreteExt t) (concreteExt_hrec t)

/-- **Resolving any offset to any generated table is safe as well**: `off.resolve::<T>(data)` yields
`NullOffset`, `OutOfBounds`, an error of `T::read`, or a table (over the bytes from `off` on) all of
whose getters are safe — for every offset value, including ones beyond the data. -/
theorem resolved_getters_safe (ext : Ext)
    (hrec : ∀ r vs n, ext.size r vs = .ok n → ext.recRead r vs n = true) :
    ∀ p ∈ Gen.ReadShapes.allShapes, ∀ (d : Data), d.len < MAXU → ∀ (off : Nat) (argVals : List Nat),
      match resolve ext p.2 d off argVals with
      | .null => off = 0
      | .err _ => True
      | .ok m => 0 < off ∧ off ≤ d.len ∧ ∀ g ∈ p.2.getters, getterOk ext p.2 (d.splitOff off) m g := by
  intro p hp d hL off argVals
  unfold resolve
  by_cases h0 : off = 0
  · simp [h0]
  · rw [if_neg h0]
    by_cases hle : off ≤ d.len
    · rw [if_pos hle]
      cases hr : run ext p.2 (d.splitOff off) argVals with
      | error e => trivial
      | ok m =>
        simp only []
        refine ⟨Nat.pos_of_ne_zero h0, hle, ?_⟩
        exact generated_getters_safe ext hrec p hp (d.splitOff off)
          (by simp only [Data.splitOff]; omega) argVals m hr
    · simp [hle]

/-- … and none of them can reach the artefact state -/
theorem generated_never_stuck (ext : Ext) (hext : ∀ r vs, ext.size r vs ≠ .error .stuck) :
    ∀ p ∈ Gen.ReadShapes.allShapes, ∀ (d : Data) (argVals : List Nat),
      run ext p.2 d argVals ≠ .error .stuck :=
  fun p hp d argVals => run_never_stuck ext hext p.2 (Gen.ReadShapes.allShapes_wf p hp) d argVals

/-! ## non-vacuity -/

/-- a 28-byte table directory with one record is accepted, so the theorem's hypothesis is satisfiable -/
def exDir : Data := ⟨28, fun i => if i = 5 then 1 else 0⟩

example : (match run (concreteExt ⟨[], [], []⟩) Gen.ReadShapes.font_TableDirectory_shape exDir [] with
           | .ok m => rangeById m [] Gen.ReadShapes.font_TableDirectory_shape.fields 5 == some (.range 12 28)
           | .error _ => false) = true := by decide +kernel

/-- one byte less is rejected with `OutOfBounds` -/
example : (match run (concreteExt ⟨[], [], []⟩) Gen.ReadShapes.font_TableDirectory_shape ⟨27, exDir.byte⟩ [] with
           | .ok _ => false
           | .error e => e == .oob) = true := by decide +kernel

example : Gen.ReadShapes.allShapes.length = 256 := by decide +kernel

example : ("font_TableDirectory", Gen.ReadShapes.font_TableDirectory_shape) ∈ Gen.ReadShapes.allShapes := by
  simp [Gen.ReadShapes.allShapes, Gen.ReadShapes.chunk0]

/-- `WF` is not vacuous: the program a *missing bounds check* would produce — a getter reading a
4-byte scalar where `read` only advanced over 2 — is rejected, and indeed its getter fails on an
accepted input. -/
def badShape : Shape :=
  { args := [], steps := [.adv 2], fields := [⟨0, false, .const 2⟩], prog := [⟨0, .scalar 2 none⟩],
    getters := [⟨0, .readAt 4⟩] }

example : ¬ WF badShape := by decide +kernel

example : (match run (concreteExt ⟨[], [], []⟩) badShape ⟨2, fun _ => 0⟩ [] with
           | .ok m => !(decide ((readAt ⟨2, fun _ => 0⟩ 0 4).isSome))
           | .error _ => false) = true := by decide +kernel

end FontVerif.C01
