/-
C01 — parsing untrusted bytes never panics: the generated table readers.

`shape_getters_safe` is the generic theorem: for every well-formed reader program (`WF`, a decidable
syntactic predicate which `Gen/ReadShapes*.lean` discharges by `decide` for every table that
`translate/shapes.py` extracts from read-fonts/generated/*.rs), every byte string, every value of
the external read arguments and every interpretation of the hand-written callees, if the generated
`read` returns `Ok(marker)` then every generated getter's `unwrap()` is applied to `Some`/`Ok` and no
`start + len` in the marker's range fns overflows.
-/
import FontVerif.Lemmas.Shape

set_option linter.unusedVariables false
set_option linter.unusedSimpArgs false

namespace FontVerif.C01
open FontVerif.Shape

/-- A successful `read` makes every field's range fn exact and in bounds (and the values re-read by
getters equal to the locals `read` used). -/
theorem run_fields_good (ext : Ext) (s : Shape) (hwf : WF s) (d : Data) (hL : d.len < MAXU)
    (argVals : List Nat) (m : Marker) (hr : run ext s d argVals = .ok m) :
    ∀ a fp b, s.prog = a ++ fp :: b → FieldGood ext d s.args m (a.reverse ++ []) fp := by
  obtain ⟨hsteps, hfields, hnd, hvnd, hvargs, hargs, hget⟩ := hwf
  unfold run at hr
  split at hr
  · cases hr
  · rename_i st hst
    split at hr
    · rename_i hpos
      cases hr
      rw [hsteps] at hst
      have := core (ext := ext) (d := d) hL s.args s.prog (initSt s.args argVals) st []
        hst hpos hnd (by simp) hvnd (by simp [boundVars])
        (fun x hx hin => hvargs x hin hx) (by simp [prevEnd, initSt, St.marker])
      exact this.2
    · cases hr

/-- **Generic getter safety.**  `hrec` is the only assumption about hand-written code: a record with
`ComputeSize` can be read from a slice of exactly the computed size (used only by the three getters
that return such a record by value, e.g. `SinglePosFormat1::value_record`). -/
theorem shape_getters_safe (ext : Ext)
    (hrec : ∀ r vs n, ext.size r vs = .ok n → ext.recRead r vs n = true)
    (s : Shape) (hwf : WF s) (d : Data) (hL : d.len < MAXU)
    (argVals : List Nat) (m : Marker) (hr : run ext s d argVals = .ok m) :
    ∀ g ∈ s.getters, getterOk ext s d m g := by
  have hall := run_fields_good ext s hwf d hL argVals m hr
  obtain ⟨hsteps, hfields, hnd, hvnd, hvargs, hargs, hget⟩ := hwf
  intro g hg
  have hgwf : getterWF s g = true := (List.all_eq_true.mp hget) g hg
  unfold getterWF at hgwf
  obtain ⟨a, fp, b, hsplit, hfid, hne, hcompat⟩ := getterWFAux_split s.args g s.prog [] hgwf
  have hgood := hall a fp b hsplit
  have hrange := rangeById_split m a [] fp b (by rw [hfid]; exact hne)
  simp only [List.map_nil] at hrange
  unfold getterOk
  rw [hfields, hsplit, ← hfid, hrange]
  unfold FieldGood at hgood
  cases hrr : fieldRange m ((a.reverse ++ []).map fieldOf) (fieldOf fp) with
  | panic => rw [hrr] at hgood; exact hgood
  | absent => trivial
  | range s0 e0 =>
    rw [hrr] at hgood
    simp only [] at hgood ⊢
    obtain ⟨hle, hend, hk⟩ := hgood
    obtain ⟨gf, gk⟩ := g
    obtain ⟨fid, k⟩ := fp
    simp only [] at hcompat hk ⊢
    cases gk with
    | rangeOnly => trivial
    | varLen => simp only []; omega
    | readAt sz =>
      simp only []
      cases k with
      | scalar sz' rd =>
        simp [getterCompat] at hcompat; subst hcompat
        simp only [] at hk
        have : checkedAdd s0 sz = some (s0 + sz) := checkedAdd_of_le (by omega) hL
        simp [readAt, this]; omega
      | condScalar c sz' rd =>
        simp [getterCompat] at hcompat; subst hcompat
        simp only [] at hk
        have : checkedAdd s0 sz = some (s0 + sz) := checkedAdd_of_le (by omega) hL
        simp [readAt, this]; omega
      | computed l => simp [getterCompat] at hcompat
      | condComputed c l => simp [getterCompat] at hcompat
    | readArray elem =>
      simp only []
      cases k with
      | scalar sz' rd => simp [getterCompat] at hcompat
      | condScalar c sz' rd => simp [getterCompat] at hcompat
      | computed l =>
        simp [getterCompat] at hcompat
        simp only [] at hk
        obtain ⟨vars0, _, hl⟩ := hk
        exact ⟨hle, hend, hcompat.1, evalLen_elem hcompat.2 hl⟩
      | condComputed c l =>
        simp [getterCompat] at hcompat
        simp only [] at hk
        obtain ⟨vars0, _, hl⟩ := hk
        exact ⟨hle, hend, hcompat.1, evalLen_elem hcompat.2 hl⟩
    | readArgsArray r gas =>
      simp only []
      cases k with
      | scalar sz' rd => simp [getterCompat] at hcompat
      | condScalar c sz' rd => simp [getterCompat] at hcompat
      | condComputed c0 l =>
        cases l with
        | mul c sz =>
          cases sz with
          | const k => simp [getterCompat] at hcompat
          | compute r' xs =>
            simp [getterCompat] at hcompat
            obtain ⟨rfl, hmatch⟩ := hcompat
            simp only [] at hk
            obtain ⟨vars0, hagree, hl⟩ := hk
            have hvals := gargVals_ok hfields hnd hall a _ b hsplit vars0 hagree gas xs (by simpa using hmatch)
            refine ⟨hle, hend, _, hvals, ?_⟩
            simp only [evalLen, evalSize] at hl
            split at hl
            · cases hl
            · rename_i n hn; exact ⟨n, hn⟩
        | one sz => simp [getterCompat] at hcompat
        | remFloor k => simp [getterCompat] at hcompat
        | rem => simp [getterCompat] at hcompat
        | varLen vk c => simp [getterCompat] at hcompat
      | computed l =>
        cases l with
        | mul c sz =>
          cases sz with
          | const k => simp [getterCompat] at hcompat
          | compute r' xs =>
            simp [getterCompat] at hcompat
            obtain ⟨rfl, hmatch⟩ := hcompat
            simp only [] at hk
            obtain ⟨vars0, hagree, hl⟩ := hk
            have hvals := gargVals_ok hfields hnd hall a _ b hsplit vars0 hagree gas xs (by simpa using hmatch)
            refine ⟨hle, hend, _, hvals, ?_⟩
            simp only [evalLen, evalSize] at hl
            split at hl
            · cases hl
            · rename_i n hn; exact ⟨n, hn⟩
        | one sz => simp [getterCompat] at hcompat
        | remFloor k => simp [getterCompat] at hcompat
        | rem => simp [getterCompat] at hcompat
        | varLen vk c => simp [getterCompat] at hcompat
    | readArgsStruct r gas =>
      simp only []
      cases k with
      | scalar sz' rd => simp [getterCompat] at hcompat
      | condScalar c sz' rd => simp [getterCompat] at hcompat
      | condComputed c0 l =>
        cases l with
        | one sz =>
          cases sz with
          | const k => simp [getterCompat] at hcompat
          | compute r' xs =>
            simp [getterCompat] at hcompat
            obtain ⟨rfl, hmatch⟩ := hcompat
            simp only [] at hk
            obtain ⟨vars0, hagree, hl⟩ := hk
            have hvals := gargVals_ok hfields hnd hall a _ b hsplit vars0 hagree gas xs (by simpa using hmatch)
            refine ⟨hle, hend, _, hvals, ?_⟩
            simp only [evalLen, evalSize] at hl
            exact hrec _ _ _ hl
        | mul c sz => simp [getterCompat] at hcompat
        | remFloor k => simp [getterCompat] at hcompat
        | rem => simp [getterCompat] at hcompat
        | varLen vk c => simp [getterCompat] at hcompat

      | computed l =>
        cases l with
        | one sz =>
          cases sz with
          | const k => simp [getterCompat] at hcompat
          | compute r' xs =>
            simp [getterCompat] at hcompat
            obtain ⟨rfl, hmatch⟩ := hcompat
            simp only [] at hk
            obtain ⟨vars0, hagree, hl⟩ := hk
            have hvals := gargVals_ok hfields hnd hall a _ b hsplit vars0 hagree gas xs (by simpa using hmatch)
            refine ⟨hle, hend, _, hvals, ?_⟩
            simp only [evalLen, evalSize] at hl
            exact hrec _ _ _ hl
        | mul c sz => simp [getterCompat] at hcompat
        | remFloor k => simp [getterCompat] at hcompat
        | rem => simp [getterCompat] at hcompat
        | varLen vk c => simp [getterCompat] at hcompat

/-- `read` of a well-formed program never reaches an unbound local (the artefact error `stuck`):
whatever it returns is `Ok` or a genuine `ReadError`. -/
theorem run_total (ext : Ext) (s : Shape) (d : Data) (argVals : List Nat) :
    (∃ m, run ext s d argVals = .ok m) ∨ (∃ e, run ext s d argVals = .error e) := by
  cases h : run ext s d argVals with
  | ok m => exact Or.inl ⟨m, rfl⟩
  | error e => exact Or.inr ⟨e, rfl⟩

end FontVerif.C01
