/-
C04 — a compiled table reads back as the table that was written (field level, generated code).

Generic theorems over the field DSL of `Model/Field.lean` (the induction is in `Lemmas/FieldRT.lean`); the
per-(writer, reader) obligations `compat <T>_w <T>_r = true` / `compatU <T>_assumes <T>_w <T>_r = true` are generated
by `translate/writers.py` into `Gen/WriteProgs.lean` on every run and discharged by `decide`.
-/
import FontVerif.Lemmas.FieldRT
import FontVerif.Lemmas.FieldFlat
import FontVerif.Gen.WriteProgs
set_option linter.unusedVariables false

namespace FontVerif.C04
open FontVerif.Field

/-- **The owned value survives the round trip.**  Converting what the reader returns for the compiled bytes back to
an owned value (`FromObjRef`: keep the owned fields) gives the value that was written, except that fields gated by a
version/flag condition that does not hold for the *written* version/flags come back absent (`dropGated`): they were
never written.  `args`: the external arguments of a `FontReadWithArgs` reader (any values). -/
theorem owned_roundtrip_args (ext : Ext) (as : List Assume) (ws : List WF) (rs : List RF) (o : Obj)
    (args : View) (bytes rest : Bytes) (view : View)
    (hc : compatU as ws rs = true)
    (hassume : ∀ x ∈ as, x.holds o view)
    (he : emit ext o ws args = some (bytes, view))
    (hr : usesRest rs = true → rest = []) :
    ∃ view', parse rs args (bytes ++ rest) = some (view', rest) ∧ toObj ws view' = dropGated ws view' o := by
  refine ⟨view, read_write_core ext as ws rs o args bytes rest view hc hassume he hr, ?_⟩
  have hwf := compatAux_wfW as ws rs [] hc
  obtain ⟨_, hb⟩ := emit_view ext o ws [] args bytes view hwf he
  unfold toObj dropGated
  apply List.map_congr_left
  intro w hw
  have hw' := List.mem_filter.mp hw
  rw [hb w hw'.1 hw'.2]

/-- `owned_roundtrip_args` for readers without external arguments (`FontRead`) -/
theorem owned_roundtrip (ext : Ext) (as : List Assume) (ws : List WF) (rs : List RF) (o : Obj)
    (bytes rest : Bytes) (view : View)
    (hc : compatU as ws rs = true)
    (hassume : ∀ x ∈ as, x.holds o view)
    (he : emit ext o ws [] = some (bytes, view))
    (hr : usesRest rs = true → rest = []) :
    ∃ view', parse rs [] (bytes ++ rest) = some (view', rest) ∧ toObj ws view' = dropGated ws view' o :=
  owned_roundtrip_args ext as ws rs o [] bytes rest view hc hassume he hr

/-- **Recompiling the re-read value gives the same bytes.**  If the written value is in normal form (it lists exactly
its owned fields, and a gated field is present exactly when the written version/flags require it: `o = dropGated …`),
the re-read owned value *is* the written value, so compiling it again produces the same bytes (for the same
interpretation of the hand-written computed fields). -/
theorem recompile_same_args (ext : Ext) (as : List Assume) (ws : List WF) (rs : List RF) (o : Obj)
    (args : View) (bytes rest : Bytes) (view : View)
    (hc : compatU as ws rs = true)
    (hassume : ∀ x ∈ as, x.holds o view)
    (he : emit ext o ws args = some (bytes, view))
    (hr : usesRest rs = true → rest = [])
    (hn : o = dropGated ws view o) :
    ∃ view', parse rs args (bytes ++ rest) = some (view', rest) ∧ toObj ws view' = o ∧
      emit ext (toObj ws view') ws args = some (bytes, view) := by
  obtain ⟨view', hp, ho⟩ := owned_roundtrip_args ext as ws rs o args bytes rest view hc hassume he hr
  have hv : view' = view := by
    have := read_write_core ext as ws rs o args bytes rest view hc hassume he hr
    rw [hp] at this
    injection this with this
    injection this
  subst hv
  refine ⟨view', hp, ?_, ?_⟩
  · rw [ho, ← hn]
  · rw [ho, ← hn]
    exact he

/-- `recompile_same_args` for readers without external arguments -/
theorem recompile_same (ext : Ext) (as : List Assume) (ws : List WF) (rs : List RF) (o : Obj)
    (bytes rest : Bytes) (view : View)
    (hc : compatU as ws rs = true)
    (hassume : ∀ x ∈ as, x.holds o view)
    (he : emit ext o ws [] = some (bytes, view))
    (hr : usesRest rs = true → rest = [])
    (hn : o = dropGated ws view o) :
    ∃ view', parse rs [] (bytes ++ rest) = some (view', rest) ∧ toObj ws view' = o ∧
      emit ext (toObj ws view') ws [] = some (bytes, view) :=
  recompile_same_args ext as ws rs o [] bytes rest view hc hassume he hr hn

/-- **Read-back of a compiled value whose reader takes external arguments** (`FontReadWithArgs::read_with_args`:
the glyph count from `maxp`, the metric count from `hhea`, the mark class count / value formats of the parent
subtable, the axis count …).  The arguments are universally quantified: `args` is any initial view (the translator
gives argument `i` the id `argBase + i`); the writer never reads them.  Whatever the reader derives from them — an
element count, the size of a `ComputedArray` element — must be what the writer wrote: that is the listed,
*named* hypothesis (`Assume.lenIsExpr`: "the array has as many elements as the reader computes from its arguments
and the written fields", `Assume.elemLen`: "every element has the scalars of the layout the reader computes"),
evaluated on `view` = the arguments + what was written.  Under them every field reads back what was written and
exactly the written bytes are consumed. -/
theorem read_write_args (ext : Ext) (as : List Assume) (ws : List WF) (rs : List RF) (o : Obj)
    (args : View) (bytes rest : Bytes) (view : View)
    (hc : compatU as ws rs = true)
    (hassume : ∀ x ∈ as, x.holds o view)
    (he : emit ext o ws args = some (bytes, view))
    (hr : usesRest rs = true → rest = []) :
    parse rs args (bytes ++ rest) = some (view, rest) :=
  read_write_core ext as ws rs o args bytes rest view hc hassume he hr

/-- **Read-back of a compiled value (generated code, field level), under listed assumptions.**  As `read_write`,
for the pairs whose writer does not itself tie a count field to its array (or whose reader computes a count / an
element size the writer does not look at): the statement holds for every value that satisfies the listed conditions
(`Assume.holds`; `view` = what was written). -/
theorem read_write_under (ext : Ext) (as : List Assume) (ws : List WF) (rs : List RF) (o : Obj)
    (bytes rest : Bytes) (view : View)
    (hc : compatU as ws rs = true)
    (hassume : ∀ x ∈ as, x.holds o view)
    (he : emit ext o ws [] = some (bytes, view))
    (hr : usesRest rs = true → rest = []) :
    parse rs [] (bytes ++ rest) = some (view, rest) :=
  read_write_args ext as ws rs o [] bytes rest view hc hassume he hr

/-- **Read-back of a compiled value (generated code, field level).**  For every compatible (writer program, reader
layout) pair, every interpretation of the hand-written `compute_*` functions, and every value on which `write_into`
does not panic: the reader, run on the compiled bytes (followed by arbitrary further data `rest`, e.g. the subtables
the packer appends — unless the reader sizes an array by the end of the data), returns for every field exactly the
value the writer put there — every scalar, every constant, every count equal to the (scaled) length of its array,
every array element, and a version/flag-gated field is present exactly when the *written* version/flags require it —
and consumes exactly the bytes written. -/
theorem read_write (ext : Ext) (ws : List WF) (rs : List RF) (o : Obj) (bytes rest : Bytes) (view : View)
    (hc : compat ws rs = true)
    (he : emit ext o ws [] = some (bytes, view))
    (hr : usesRest rs = true → rest = []) :
    parse rs [] (bytes ++ rest) = some (view, rest) :=
  read_write_under ext [] ws rs o bytes rest view hc (by intro x hx; cases hx) he hr

/-- **Format enums read back as the variant that was written.**  The generated `FontWrite` of a format enum delegates
to the variant (`match self { Self::X(item) => item.write_into(writer) }`); the generated `FontRead` reads the format
field and dispatches on it.  If every variant's writer starts with its own format constant, the constants are
pairwise distinct and every variant is a compatible pair (`enumCompat`, checked per generated enum), then for every
variant and every value of it: the reader selects that same variant (it reports `v.fmt`) and returns every field as
written. -/
theorem enum_read_write (ext : Ext) (hw : Nat) (vs : List Variant) (v : Variant) (o : Obj)
    (args : View) (bytes rest : Bytes) (view : View)
    (hc : enumCompat hw vs = true) (hv : v ∈ vs)
    (hassume : ∀ x ∈ v.as, x.holds o view)
    (he : emit ext o v.w args = some (bytes, view))
    (hr : usesRest v.r = true → rest = []) :
    parseEnum hw vs args (bytes ++ rest) = some (v.fmt, view, rest) := by
  obtain ⟨hs, hcv⟩ := enumCompat_mem hw vs v hc hv
  obtain ⟨bs, hb, hlt⟩ := emit_startsWithFormat ext hw v o args bytes view hs he
  have hp := read_write_core ext v.as v.w v.r o args bytes rest view hcv hassume he hr
  unfold parseEnum
  have hl : ¬ (bytes ++ rest).length < hw := by
    rw [hb]
    simp [be_length]
  rw [if_neg hl]
  have ht : (bytes ++ rest).take hw = be hw v.fmt := by
    rw [hb, List.append_assoc, take_be_append]
  rw [ht, beVal_be _ _ hlt, enumCompat_find hw vs v hc hv]
  simp only [hp]

/-! ## array elements that are records with their own pair

The array items of a table describe an element only by scalar widths (`WItem.array elem`, `WItem.arrayV pre tail`).
When the element type is a generated record, the translator emits next to the table's pair the kernel-checked facts
`wShape <R>_w = some (elem, none)` / `some (pre, some tail)` and `rFixed <R>_r = some elem` (`…_elem` in
Gen/WriteProgs.lean); these two theorems are what the facts mean. -/

/-- **The element a table writes is what the record's own `write_into` writes.**  For a record writer program with
flat layout `sh`: whenever the record's program runs successfully, its bytes are the scalars it wrote (`emitVals`), in
order, encoded with the widths `sh` gives them — for `sh = (elem, none)` that is `emitRec elem`, the element writer of
`WItem.array elem`; for `sh = (pre, some tail)` it is `emitRec (wWidths pre tail n)`, the element writer of
`WItem.arrayV pre tail`. -/
theorem record_writes_flat_element (ext : Ext) (o : Obj) (ws : List WF) (view : View) (sh : FlatShape)
    (bytes : Bytes) (view' : View)
    (hs : wShape ws = some sh) (he : emit ext o ws view = some (bytes, view')) :
    ∃ vals, emitVals ext o ws view = some vals ∧ emitRec (shapeWidths sh vals.length) vals = some bytes ∧
      sh.1.length ≤ vals.length ∧ (sh.2 = none → vals.length = sh.1.length) :=
  wShape_emit ext o ws view sh bytes view' hs he

/-- **The element a table reads is what the fixed-size record's own reader reads**: field `i` of the record is scalar
`i` of the element. -/
theorem record_reads_flat_element (rs : List RF) (view : View) (bs : Bytes) (ws : List Nat) (h : rFixed rs = some ws) :
    parse rs view bs =
      match parseRec ws bs with
      | none => none
      | some (xs, rest) => some (pushNums (rs.map (·.id)) xs view, rest) :=
  rFixed_parse rs view bs ws h

/-! ## instances for generated pairs (the per-pair `compat` facts are in `Gen/WriteProgs.lean`) -/

open FontVerif.Gen.WriteProgs in
/-- `hhea`: every `Hhea` value reads back field by field -/
theorem hhea_read_write (ext : Ext) (o : Obj) (bytes rest : Bytes) (view : View)
    (he : emit ext o hhea_Hhea_w [] = some (bytes, view)) :
    parse hhea_Hhea_r [] (bytes ++ rest) = some (view, rest) :=
  read_write ext _ _ o bytes rest view hhea_Hhea_compat he (fun h => absurd h (by decide))

open FontVerif.Gen.WriteProgs in
/-- `maxp`: for whatever version `compute_version` returns, the version-1.0 fields are read back exactly when it is 1.0 -/
theorem maxp_read_write (ext : Ext) (o : Obj) (bytes rest : Bytes) (view : View)
    (he : emit ext o maxp_Maxp_w [] = some (bytes, view)) :
    parse maxp_Maxp_r [] (bytes ++ rest) = some (view, rest) :=
  read_write ext _ _ o bytes rest view maxp_Maxp_compat he (fun h => absurd h (by decide))

open FontVerif.Gen.WriteProgs in
/-- `OS/2`, all versions -/
theorem os2_read_write (ext : Ext) (o : Obj) (bytes rest : Bytes) (view : View)
    (he : emit ext o os2_Os2_w [] = some (bytes, view)) :
    parse os2_Os2_r [] (bytes ++ rest) = some (view, rest) :=
  read_write ext _ _ o bytes rest view os2_Os2_compat he (fun h => absurd h (by decide))

open FontVerif.Gen.WriteProgs in
/-- `gasp` round-trips exactly on the values whose `num_ranges` is the number of ranges: the generated writer
stores the user's `num_ranges` (`compat` is false, see the example below) -/
theorem gasp_read_write (ext : Ext) (o : Obj) (bytes rest : Bytes) (view : View)
    (hcount : ∀ xs, o.get 2 = .arr xs → o.get 1 = .num (1 * xs.length + 0))
    (he : emit ext o gasp_Gasp_w [] = some (bytes, view)) :
    parse gasp_Gasp_r [] (bytes ++ rest) = some (view, rest) :=
  read_write_under ext gasp_Gasp_assumes _ _ o bytes rest view gasp_Gasp_compat_under
    (by
      intro x hx
      simp only [gasp_Gasp_assumes, List.mem_singleton] at hx
      subst hx
      exact hcount)
    he (fun h => absurd h (by decide))

open FontVerif.Gen.WriteProgs in
/-- `hmtx` (a reader with external arguments): for **every** `number_of_h_metrics` (from `hhea`) and `num_glyphs` (from
`maxp`), every value whose long-metric array has `number_of_h_metrics` entries and whose bearing array has
`num_glyphs - number_of_h_metrics` (saturating) entries reads back field by field -/
theorem hmtx_read_write (ext : Ext) (numberOfHMetrics numGlyphs : Nat) (o : Obj) (bytes rest : Bytes) (view : View)
    (hlong : ∀ xs, o.get 0 = .arr xs → xs.length = numberOfHMetrics)
    (hbear : ∀ xs, o.get 1 = .arr xs → xs.length = numGlyphs - numberOfHMetrics)
    (he : emit ext o hmtx_Hmtx_w [(argBase, .num numberOfHMetrics), (argBase + 1, .num numGlyphs)] = some (bytes, view)) :
    parse hmtx_Hmtx_r [(argBase, .num numberOfHMetrics), (argBase + 1, .num numGlyphs)] (bytes ++ rest) =
      some (view, rest) := by
  have h0 := emit_numAt_arg ext o _ _ bytes view argBase he (by decide)
  have h1 := emit_numAt_arg ext o _ _ bytes view (argBase + 1) he (by decide)
  refine read_write_args ext hmtx_Hmtx_assumes _ _ o _ bytes rest view hmtx_Hmtx_compat_under ?_ he
    (fun h => absurd h (by decide))
  intro x hx
  simp only [hmtx_Hmtx_assumes, List.mem_cons, List.mem_nil_iff, or_false] at hx
  rcases hx with hx | hx
  · subst hx
    intro xs hxs
    rw [hlong xs hxs]
    simp only [NExpr.eval]
    rw [show (1000 : Nat) = argBase from rfl, h0]
    simp [numAt, List.lookup]
  · subst hx
    intro xs hxs
    rw [hbear xs hxs]
    simp only [NExpr.eval]
    rw [show (1001 : Nat) = argBase + 1 from rfl, show (1000 : Nat) = argBase from rfl, h0, h1]
    simp [numAt, List.lookup, argBase]

open FontVerif.Gen.WriteProgs in
/-- GPOS `BaseArray` (computed-size records + an external argument): for **every** `mark_class_count` the parent
`MarkBasePosFormat1` passes down, every value whose base records all have exactly `mark_class_count` anchor offsets
(the hypothesis the generated writer does not establish) and — if there are records at all — at least one mark class
(a `ComputedArray` of zero-sized records reads back empty) reads back: the count, and every record with every offset -/
theorem base_array_read_write (ext : Ext) (markClassCount : Nat) (o : Obj) (bytes rest : Bytes) (view : View)
    (hrec : ∀ xs, o.get 1 = .arr xs → ∀ x ∈ xs, x.length = markClassCount)
    (hsz : ∀ xs, o.get 1 = .arr xs → xs ≠ [] → 0 < markClassCount)
    (he : emit ext o gpos_BaseArray_w [(argBase, .num markClassCount)] = some (bytes, view)) :
    parse gpos_BaseArray_r [(argBase, .num markClassCount)] (bytes ++ rest) = some (view, rest) := by
  have h0 := emit_numAt_arg ext o _ _ bytes view argBase he (by decide)
  have hl : ∀ n, (repGroup n [2]).length = n := by
    intro n
    induction n with
    | zero => rfl
    | succ k ih => simp [repGroup, ih]
  have hs : ∀ n, elemSize (repGroup n [2]) = 2 * n := by
    intro n
    induction n with
    | zero => rfl
    | succ k ih =>
      simp only [repGroup, elemSize, List.cons_append, List.nil_append, List.foldr_cons] at ih ⊢
      omega
  have hv : numAt view 1000 = markClassCount := by
    rw [show (1000 : Nat) = argBase from rfl, h0]
    simp [numAt, List.lookup]
  refine read_write_args ext gpos_BaseArray_assumes _ _ o _ bytes rest view gpos_BaseArray_compat_under ?_ he
    (fun h => absurd h (by decide))
  intro x hx
  simp only [gpos_BaseArray_assumes, List.mem_cons, List.mem_nil_iff, or_false] at hx
  rcases hx with hx | hx
  · subst hx
    intro xs hxs y hy
    rw [hrec xs hxs y hy]
    simp only [evalSegs, NExpr.eval, List.append_nil, hl, hv]
  · subst hx
    intro xs hxs hne
    have := hsz xs hxs hne
    simp only [evalSegs, NExpr.eval, List.append_nil, hs, hv]
    omega

open FontVerif.Gen.WriteProgs in
/-- `ClassDef` (a format enum): whichever variant is written, the generated reader's `match format` selects the same
variant and returns every field as written -/
theorem class_def_read_write (ext : Ext) (v : Variant) (hv : v ∈ layout_ClassDef_variants) (o : Obj)
    (bytes rest : Bytes) (view : View)
    (he : emit ext o v.w [] = some (bytes, view)) :
    parseEnum 2 layout_ClassDef_variants [] (bytes ++ rest) = some (v.fmt, view, rest) := by
  have hnone : v.as = [] ∧ usesRest v.r = false := by
    simp only [layout_ClassDef_variants, List.mem_cons, List.mem_nil_iff, or_false] at hv
    rcases hv with hv | hv <;> subst hv <;> exact ⟨rfl, by decide⟩
  refine enum_read_write ext 2 _ v o [] bytes rest view layout_ClassDef_dispatch hv ?_ he ?_
  · intro x hx
    rw [hnone.1] at hx
    cases hx
  · intro h
    rw [hnone.2] at h
    cases h

/-! ## non-vacuity -/

/-- a table with a version, a count, a counted array of 2-field records and a version-gated trailing scalar -/
def exW : List WF :=
  [⟨0, none, .scalar .field 2⟩, ⟨1, none, .scalar (.count 2 1 0) 2⟩, ⟨2, none, .array [2, 1] none⟩,
   ⟨3, some (0, .geU16 1), .scalar .field 4⟩]
def exR : List RF :=
  [⟨0, none, .scalar 2⟩, ⟨1, none, .scalar 2⟩, ⟨2, none, .array (.affine 1 1 0) [2, 1]⟩,
   ⟨3, some (0, .geU16 1), .scalar 4⟩]
def exObj1 : Obj := [(0, .num 1), (2, .arr [[258, 3], [4, 5]]), (3, .num 65536)]
def exObj0 : Obj := [(0, .num 0), (2, .arr []), (3, .absent)]

example : compat exW exR = true := by decide
/-- the hypotheses of `read_write` / `recompile_same` are satisfiable: version 1 (gated field written) … -/
example : emit (fun _ _ => 0) exObj1 exW [] =
    some ([0, 1, 0, 2, 1, 2, 3, 0, 4, 5, 0, 1, 0, 0],
      [(3, .num 65536), (2, .arr [[258, 3], [4, 5]]), (1, .num 2), (0, .num 1)]) := by decide
example : parse exR [] [0, 1, 0, 2, 1, 2, 3, 0, 4, 5, 0, 1, 0, 0, 9, 9] =
    some ([(3, .num 65536), (2, .arr [[258, 3], [4, 5]]), (1, .num 2), (0, .num 1)], [9, 9]) := by decide
example : exObj1 = dropGated exW [(3, .num 65536), (2, .arr [[258, 3], [4, 5]]), (1, .num 2), (0, .num 1)] exObj1 := by
  decide
/-- … and version 0 (gated field absent, empty array) -/
example : emit (fun _ _ => 0) exObj0 exW [] =
    some ([0, 0, 0, 0], [(3, .absent), (2, .arr []), (1, .num 0), (0, .num 0)]) := by decide
/-- a gated field that is present although the written version does not require it is dropped (what `dropGated`
says): the round trip returns `absent` for it -/
example : dropGated exW [(3, .absent), (2, .arr []), (1, .num 0), (0, .num 0)]
    [(0, .num 0), (2, .arr []), (3, .num 7)] = exObj0 := by decide
/-- `compat` is not vacuous: swapped fields of equal width, a wrong width, a count that belongs to another array,
a reader count with different arithmetic, and a different condition are all rejected -/
example : compat [⟨0, none, .scalar .field 2⟩, ⟨1, none, .scalar .field 2⟩]
    [⟨1, none, .scalar 2⟩, ⟨0, none, .scalar 2⟩] = false := by decide
example : compat [⟨0, none, .scalar .field 2⟩] [⟨0, none, .scalar 4⟩] = false := by decide
example : compat [⟨0, none, .scalar (.count 2 1 0) 2⟩, ⟨1, none, .array [2] none⟩, ⟨2, none, .array [2] none⟩]
    [⟨0, none, .scalar 2⟩, ⟨1, none, .array (.affine 0 1 0) [2]⟩, ⟨2, none, .array .rest [2]⟩] = false := by decide
example : compat [⟨0, none, .scalar (.count 1 1 0) 2⟩, ⟨1, none, .array [2] none⟩]
    [⟨0, none, .scalar 2⟩, ⟨1, none, .array (.affine 0 1 1) [2]⟩] = false := by decide
example : compat [⟨0, none, .scalar .field 2⟩, ⟨1, some (0, .geU16 1), .scalar .field 2⟩]
    [⟨0, none, .scalar 2⟩, ⟨1, some (0, .geU16 2), .scalar 2⟩] = false := by decide
/-- the generated `gasp` writer stores the caller's `num_ranges`: not compatible without the assumption -/
example : compat Gen.WriteProgs.gasp_Gasp_w Gen.WriteProgs.gasp_Gasp_r = false := by decide
/-- and the assumption is necessary: with `num_ranges = 1` and two ranges the reader returns one range -/
example : (emit (fun _ _ => 0) [(0, .num 1), (1, .num 1), (2, .arr [[8, 2], [65535, 3]])]
      Gen.WriteProgs.gasp_Gasp_w []).map (fun p => parse Gen.WriteProgs.gasp_Gasp_r [] p.1) =
    some (some ([(2, .arr [[8, 2]]), (1, .num 1), (0, .num 1)], [255, 255, 0, 3])) := by decide

/-! ### non-vacuity of the round-4 features -/

/-- a table read with one external argument `n` (id `argBase`): a count, then `count` records of `1 + n` 16-bit
scalars each (a fixed glyph id followed by `n` offsets) -/
def exWV : List WF := [⟨0, none, .scalar (.count 1 1 0) 2⟩, ⟨1, none, .arrayV [2] 2 none⟩]
def exRV : List RF := [⟨0, none, .scalar 2⟩, ⟨1, none, .arrayV (.affine 0 1 0) [(.lit 1, [2]), (.field 1000, [2])] false⟩]
def exAV : List Assume := [.elemLen 1 [(.lit 1, [2]), (.field 1000, [2])]]
example : compatU exAV exWV exRV = true := by decide
/-- the hypotheses of `read_write_args` are satisfiable: argument 2, two records of 1 + 2 scalars -/
example : emit (fun _ _ => 0) [(1, .arr [[7, 1, 2], [8, 3, 4]])] exWV [(1000, .num 2)] =
    some ([0, 2, 0, 7, 0, 1, 0, 2, 0, 8, 0, 3, 0, 4], [(1, .arr [[7, 1, 2], [8, 3, 4]]), (0, .num 2), (1000, .num 2)]) := by
  decide
example : parse exRV [(1000, .num 2)] [0, 2, 0, 7, 0, 1, 0, 2, 0, 8, 0, 3, 0, 4, 9] =
    some ([(1, .arr [[7, 1, 2], [8, 3, 4]]), (0, .num 2), (1000, .num 2)], [9]) := by decide
example : Assume.holds [(1, .arr [[7, 1, 2], [8, 3, 4]])] [(1, .arr [[7, 1, 2], [8, 3, 4]]), (0, .num 2), (1000, .num 2)]
    (.elemLen 1 [(.lit 1, [2]), (.field 1000, [2])]) := by
  intro xs hxs x hx
  have : xs = [[7, 1, 2], [8, 3, 4]] := by
    have h : Obj.get [(1, Val.arr [[7, 1, 2], [8, 3, 4]])] 1 = .arr [[7, 1, 2], [8, 3, 4]] := by decide
    rw [h] at hxs
    injection hxs with hxs
    exact hxs.symm
  subst this
  simp only [List.mem_cons, List.mem_nil_iff, or_false] at hx
  rcases hx with hx | hx <;> subst hx <;> decide
/-- the named hypothesis is necessary: with argument 1 the same value still compiles (the writer does not look at the
argument), but the reader cuts the 12 record bytes into 2-scalar records and returns something else -/
example : parse exRV [(1000, .num 1)] [0, 2, 0, 7, 0, 1, 0, 2, 0, 8, 0, 3, 0, 4] =
    some ([(1, .arr [[7, 1], [2, 8]]), (0, .num 2), (1000, .num 1)], [0, 3, 0, 4]) := by decide
/-- `compatU` rejects: a missing element-size hypothesis, a writer whose variable part has another scalar width, a
reader layout that is not "prefix then tail-width scalars", an element layout that reads a field written later -/
example : compatU [] exWV exRV = false := by decide
example : compatU exAV [⟨0, none, .scalar (.count 1 1 0) 2⟩, ⟨1, none, .arrayV [2] 4 none⟩] exRV = false := by decide
example : compatU [.elemLen 1 [(.field 1000, [2]), (.lit 1, [4])]] exWV
    [⟨0, none, .scalar 2⟩, ⟨1, none, .arrayV (.affine 0 1 0) [(.field 1000, [2]), (.lit 1, [4])] false⟩] = false := by decide
example : compatU [.elemLen 1 [(.field 2, [2])]]
    [⟨0, none, .scalar (.count 1 1 0) 2⟩, ⟨1, none, .arrayV [] 2 none⟩, ⟨2, none, .scalar .field 2⟩]
    [⟨0, none, .scalar 2⟩, ⟨1, none, .arrayV (.affine 0 1 0) [(.field 2, [2])] false⟩, ⟨2, none, .scalar 2⟩] = false := by decide
/-- a `ComputedArray` of zero-sized items reads back empty (`ComputedArray::new`: `len = data.len() / item_len`, 0 for a
zero item length): two records of an empty layout (argument 0) compile to nothing but the count, and the reader returns
no record — the pair is compatible only under the named hypothesis `elemSized` (known finding "zero-size records",
here inside the model) -/
example : parse [⟨0, none, .scalar 2⟩, ⟨1, none, .arrayV (.affine 0 1 0) [(.field 1000, [2])] true⟩] [(1000, .num 0)] [0, 2] =
    some ([(1, .arr []), (0, .num 2), (1000, .num 0)], []) := by decide
example : compatU [.elemLen 1 [(.field 1000, [2])]] [⟨0, none, .scalar (.count 1 1 0) 2⟩, ⟨1, none, .arrayV [] 2 none⟩]
    [⟨0, none, .scalar 2⟩, ⟨1, none, .arrayV (.affine 0 1 0) [(.field 1000, [2])] true⟩] = false := by decide
example : compatU [.elemLen 1 [(.field 1000, [2])], .elemSized 1 [(.field 1000, [2])]]
    [⟨0, none, .scalar (.count 1 1 0) 2⟩, ⟨1, none, .arrayV [] 2 none⟩]
    [⟨0, none, .scalar 2⟩, ⟨1, none, .arrayV (.affine 0 1 0) [(.field 1000, [2])] true⟩] = true := by decide
/-- count expressions: `transforms::add(n, 1)` of an argument; the hypothesis names the length -/
example : compatU [.lenIsExpr 0 (.add (.field 1000) (.lit 1))] [⟨0, none, .array [4] none⟩]
    [⟨0, none, .array (.expr (.add (.field 1000) (.lit 1))) [4]⟩] = true := by decide
example : compatU [] [⟨0, none, .array [4] none⟩]
    [⟨0, none, .array (.expr (.add (.field 1000) (.lit 1))) [4]⟩] = false := by decide
/-- the transcribed count functions on sample values (`DeltaFormat::value_count`: 2-bit deltas for sizes 9..=16 are 8
values in one word; `EntryFormat::map_size`; `delta_sets_len` with long words; `tuple_len`) -/
example : CFn.eval .valueCount 1 9 16 = 1 ∧ CFn.eval .valueCount 3 9 11 = 2 ∧ CFn.eval .valueCount 0x8000 9 16 = 0 ∧
    CFn.eval .mapSize 0x31 10 0 = 40 ∧ CFn.eval .deltaSetsLen 3 0x8001 4 = 30 ∧ CFn.eval .tupleLen 0xC000 5 1 = 5 := by
  decide
/-- length-prefixed elements (`VarLenArray`): two segment maps with 1 and 2 (from, to) pairs -/
example : emit (fun _ _ => 0) [(1, .arr [[5, 6], [1, 2, 3, 4]])]
      [⟨0, none, .scalar (.count 1 1 0) 2⟩, ⟨1, none, .arrayL 2 [2, 2]⟩] [] =
    some ([0, 2, 0, 1, 0, 5, 0, 6, 0, 2, 0, 1, 0, 2, 0, 3, 0, 4], [(1, .arr [[5, 6], [1, 2, 3, 4]]), (0, .num 2)]) := by
  decide
example : parse [⟨0, none, .scalar 2⟩, ⟨1, none, .arrayL (.affine 0 1 0) 2 [2, 2]⟩] []
      [0, 2, 0, 1, 0, 5, 0, 6, 0, 2, 0, 1, 0, 2, 0, 3, 0, 4, 7] =
    some ([(1, .arr [[5, 6], [1, 2, 3, 4]]), (0, .num 2)], [7]) := by decide
/-- format enums: the reader dispatches on the written constant; two variants with the same constant, or a variant
that does not start with its constant, are rejected -/
def exV1 : Variant := ⟨1, [⟨0, none, .scalar (.const 1) 2⟩, ⟨1, none, .scalar .field 2⟩], [⟨0, none, .scalar 2⟩, ⟨1, none, .scalar 2⟩], []⟩
def exV2 : Variant := ⟨2, [⟨0, none, .scalar (.const 2) 2⟩, ⟨1, none, .scalar .field 4⟩], [⟨0, none, .scalar 2⟩, ⟨1, none, .scalar 4⟩], []⟩
example : enumCompat 2 [exV1, exV2] = true := by decide
example : parseEnum 2 [exV1, exV2] [] [0, 2, 0, 0, 1, 0, 9] = some (2, [(1, .num 256), (0, .num 2)], [9]) := by decide
example : parseEnum 2 [exV1, exV2] [] [0, 3, 0, 0] = none := by decide
example : enumCompat 2 [exV1, { exV2 with fmt := 1 }] = false := by decide
example : enumCompat 2 [exV1, ⟨2, [⟨0, none, .scalar .field 2⟩], [⟨0, none, .scalar 2⟩], []⟩] = false := by decide

end FontVerif.C04
