/-
C15 — the remaining scalar types of font-types (Model/Scalars.lean): `Int24` / `Uint24` checked
constructors, `Version16Dot16`, `MajorMinor`, `FWord` / `UfWord`, offsets, glyph ids, `Tag`,
`NameId`.  Property theorems only.
-/
import FontVerif.Model.Scalars
set_option linter.unusedVariables false
namespace FontVerif.C15Scalar
open FontVerif FontVerif.Fixed FontVerif.Scalars

/-! ### Int24 / Uint24 -/

/-- `checked_new` succeeds exactly on the 24-bit range, returns the value unchanged and agrees with
the saturating `new` there. -/
theorem int24_checked_new_iff (raw v : Int) :
    int24Checked raw = some v ↔ (-8388608 ≤ raw ∧ raw ≤ 8388607 ∧ v = raw) := by
  unfold int24Checked; split <;> simp <;> omega

theorem int24_checked_new_eq_new (raw : Int) (h : -8388608 ≤ raw ∧ raw ≤ 8388607) :
    int24Checked raw = some (int24New raw) := by
  unfold int24Checked int24New; repeat' split
  all_goals first | rfl | (exfalso; omega)

theorem uint24_checked_new_iff (raw v : Int) :
    uint24Checked raw = some v ↔ (raw ≤ 16777215 ∧ v = raw) := by
  unfold uint24Checked; split <;> simp <;> omega

theorem uint24_try_from_usize_iff (x v : Int) (hx : 0 ≤ x) :
    uint24TryFromUsize x = some v ↔ (x ≤ 16777215 ∧ v = x) := by
  unfold uint24TryFromUsize uint24Checked; repeat' split
  all_goals simp
  all_goals omega

/-! ### Version16Dot16 / MajorMinor -/

/-- `Version16Dot16::new` panics exactly for `minor ≥ 10`. -/
theorem version_new_traps_iff (major minor : Int) : versionNew major minor = none ↔ minor ≥ 10 := by
  unfold versionNew; split <;> simp <;> omega

/-- `to_major_minor ∘ new = id` for every `u16` major and minor `0 … 9`, and the packed value is a
`u32`. -/
theorem version_new_roundtrip (major minor : Int) (hM : inU16 major) (hm : 0 ≤ minor ∧ minor < 10) :
    ∃ v, versionNew major minor = some v ∧ inU32 v ∧ versionToMajorMinor v = (major, minor) := by
  unfold inU16 at hM
  refine ⟨major * 65536 + minor * 4096, ?_, ?_, ?_⟩
  · unfold versionNew; simp; omega
  · unfold inU32; omega
  · unfold versionToMajorMinor; simp; omega

/-- versions built by `new` order like their `(major, minor)` pairs (derived `Ord` on the `u32`). -/
theorem version_order_is_major_minor_order (M1 m1 M2 m2 : Int) (h1 : inU16 M1) (h2 : inU16 M2)
    (hm1 : 0 ≤ m1 ∧ m1 < 10) (hm2 : 0 ≤ m2 ∧ m2 < 10) :
    cmpInt (M1 * 65536 + m1 * 4096) (M2 * 65536 + m2 * 4096) = lexCmp [M1, m1] [M2, m2] := by
  unfold inU16 at *
  simp only [cmpInt, lexCmp]
  repeat' split
  all_goals first | rfl | (exfalso; omega)

/-- `compatible`: same major, minor at least the other's. -/
theorem version_compatible_spec (M1 m1 M2 m2 : Int) (h1 : inU16 M1) (h2 : inU16 M2)
    (hm1 : 0 ≤ m1 ∧ m1 < 16) (hm2 : 0 ≤ m2 ∧ m2 < 16) :
    versionCompatible (M1 * 65536 + m1 * 4096) (M2 * 65536 + m2 * 4096)
      = (decide (M1 = M2) && decide (m1 ≥ m2)) := by
  unfold inU16 at *
  unfold versionCompatible versionToMajorMinor
  have e1 : (M1 * 65536 + m1 * 4096) / 65536 % 65536 = M1 := by omega
  have e2 : (M2 * 65536 + m2 * 4096) / 65536 % 65536 = M2 := by omega
  have e3 : (M1 * 65536 + m1 * 4096) % 65536 / 4096 = m1 := by omega
  have e4 : (M2 * 65536 + m2 * 4096) % 65536 / 4096 = m2 := by omega
  simp only [e1, e2, e3, e4]

/-- the `(u16, u16)` form goes through `new`: it panics for a minor `≥ 10`. -/
theorem version_compatible_pair_traps_iff (a major minor : Int) :
    versionCompatiblePair a major minor = none ↔ minor ≥ 10 := by
  unfold versionCompatiblePair versionNew; split <;> simp <;> omega

theorem majorminor_be_roundtrip (major minor : Int) (hM : inU16 major) (hm : inU16 minor) :
    (match mmToBe major minor with
     | [b0, b1, b2, b3] => mmFromRaw b0 b1 b2 b3
     | _ => (0, 0)) = (major, minor) := by
  unfold inU16 at *
  simp [mmToBe, mmFromRaw, toBeU, fromBeU, List.range, List.range.loop]; omega

theorem majorminor_bytes_roundtrip (b0 b1 b2 b3 : Int) (h : inU8 b0 ∧ inU8 b1 ∧ inU8 b2 ∧ inU8 b3) :
    mmToBe (mmFromRaw b0 b1 b2 b3).1 (mmFromRaw b0 b1 b2 b3).2 = [b0, b1, b2, b3] := by
  unfold inU8 at h
  simp [mmToBe, mmFromRaw, toBeU, fromBeU, List.range, List.range.loop]; omega

/-! ### FWord / UfWord → Fixed -/

/-- `FWord::to_fixed` is exact (`v · 2^16`, no wrap) and `to_i32` brings the value back. -/
theorem fword_to_fixed_exact (v : Int) (h : inI16 v) :
    fwordToFixed v = v * 65536 ∧ toI32 (fwordToFixed v) = v := by
  unfold inI16 at h
  unfold fwordToFixed fromI32 toI32 wrapI32; simp only []
  constructor
  · split <;> omega
  · split <;> split <;> omega

/-- `UfWord::to_fixed` is exact below `0x8000` … -/
theorem ufword_to_fixed_exact (v : Int) (h : 0 ≤ v ∧ v < 32768) : fwordToFixed v = v * 65536 := by
  unfold fwordToFixed fromI32 wrapI32; simp only []; split <;> omega

/-- … and wraps to a negative 16.16 value from `0x8000` on (`i << 16` drops the high bit; 16.16 cannot
represent 32768 … 65535): `UfWord(40000).to_fixed()` is `-25536.0`. -/
theorem ufword_to_fixed_wraps (v : Int) (h : 32768 ≤ v ∧ v < 65536) :
    fwordToFixed v = v * 65536 - 4294967296 := by
  unfold fwordToFixed fromI32 wrapI32; simp only []; split <;> omega

/-! ### offsets, glyph ids, NameId -/

theorem offset_is_null_iff (v : Int) : offsetIsNull v = true ↔ v = 0 := by simp [offsetIsNull]

/-- `GlyphId16 → GlyphId → GlyphId16` is the identity; the conversion fails exactly above `0xFFFF`
and the error carries the offending id. -/
theorem gid16_try_from_ok_iff (v g : Int) : gid16TryFrom v = .ok g ↔ (v ≤ 65535 ∧ g = v) := by
  unfold gid16TryFrom; split <;> simp <;> omega

theorem gid16_try_from_err_iff (v e : Int) : gid16TryFrom v = .error e ↔ (v > 65535 ∧ e = v) := by
  unfold gid16TryFrom; split <;> simp <;> omega

theorem nameid_is_reserved_iff (v : Int) : nameIdIsReserved v = true ↔ v ≤ 255 := by
  simp [nameIdIsReserved]

/-- `NameId::checked_add`: `Some(a + b)` exactly when the sum is at most 32767 (the saturating `u16`
addition cannot produce a small value by wrapping). -/
theorem nameid_checked_add_iff (a b r : Int) (ha : inU16 a) (hb : inU16 b) :
    nameIdCheckedAdd a b = some r ↔ (a + b ≤ 32767 ∧ r = a + b) := by
  unfold inU16 at *
  unfold nameIdCheckedAdd; simp only []
  repeat' split
  all_goals simp
  all_goals omega

example : versionNew 1 1 = some 0x00011000 ∧ versionToMajorMinor 0x00005000 = (0, 5)
    ∧ versionNew 1 10 = none ∧ nameIdCheckedAdd 32767 1 = none ∧ nameIdCheckedAdd 256 1 = some 257
    ∧ fwordToFixed 40000 = -1673527296 := by decide

/-! ### signed big-endian scalars: byte patterns (`i8/i16/i32/i64`, `FWord`, fixed types, `LongDateTime`) -/

/-- `LongDateTime` / `i64`: every 8-byte pattern decodes and re-encodes to itself, every value
survives encode / decode. -/
theorem i64_bytes_roundtrip (b0 b1 b2 b3 b4 b5 b6 b7 : Int)
    (h : inU8 b0 ∧ inU8 b1 ∧ inU8 b2 ∧ inU8 b3 ∧ inU8 b4 ∧ inU8 b5 ∧ inU8 b6 ∧ inU8 b7) :
    toBeS 8 (fromBeS 8 [b0, b1, b2, b3, b4, b5, b6, b7]) = [b0, b1, b2, b3, b4, b5, b6, b7] := by
  unfold inU8 at h
  simp [toBeS, toBeU, fromBeS, fromBeU, List.range, List.range.loop]
  split <;> omega

theorem i64_value_roundtrip (v : Int) (h : inI64 v) : fromBeS 8 (toBeS 8 v) = v := by
  unfold inI64 at h
  simp [toBeS, toBeU, fromBeS, fromBeU, List.range, List.range.loop]; split <;> omega

theorem i16_bytes_roundtrip (b0 b1 : Int) (h : inU8 b0 ∧ inU8 b1) :
    toBeS 2 (fromBeS 2 [b0, b1]) = [b0, b1] := by
  unfold inU8 at h
  simp [toBeS, toBeU, fromBeS, fromBeU, List.range, List.range.loop]
  split <;> omega

theorem i32_bytes_roundtrip (b0 b1 b2 b3 : Int) (h : inU8 b0 ∧ inU8 b1 ∧ inU8 b2 ∧ inU8 b3) :
    toBeS 4 (fromBeS 4 [b0, b1, b2, b3]) = [b0, b1, b2, b3] := by
  unfold inU8 at h
  simp [toBeS, toBeU, fromBeS, fromBeU, List.range, List.range.loop]
  split <;> omega

theorem i8_u8_bytes_roundtrip (b0 : Int) (h : inU8 b0) :
    toBeS 1 (fromBeS 1 [b0]) = [b0] ∧ toBeU 1 (fromBeU [b0]) = [b0] := by
  unfold inU8 at h
  simp [toBeS, toBeU, fromBeS, fromBeU, List.range, List.range.loop]
  split <;> omega

/-! ### Tag -/

/-- the two loops accept the same byte strings; `new_checked`'s loop returns its input. -/
private theorem checkedGo_validateGo : ∀ (l : List Int) (i : Nat) (seen : Bool),
    (∀ l', checkedGo l i seen = .ok l' → l' = l ∧ validateGo l i seen = .ok ()) ∧
    (validateGo l i seen = .ok () → checkedGo l i seen = .ok l)
  | [], i, seen => by simp [checkedGo, validateGo]
  | b :: rest, i, seen => by
    have ih := checkedGo_validateGo rest (i + 1)
    unfold checkedGo validateGo
    by_cases h1 : b = 32 ∧ i = 0
    · simp [h1]
    · simp only [h1, if_false]
      by_cases h2 : b = 32
      · subst h2
        have := ih true
        simp only [show ¬ ((32 : Int) ≤ 31 ∨ (32 : Int) ≥ 127) by omega, if_false,
          show ¬ ((33 : Int) ≤ 32 ∧ (32 : Int) ≤ 126) by omega, false_and, if_true,
          Bool.or_true, decide_true]
        constructor
        · intro l' h
          split at h
          · rename_i l2 hl2
            have := (this.1 l2 hl2)
            simp at h; subst h; exact ⟨by rw [this.1], this.2⟩
          · simp at h
        · intro h
          rw [this.2 h]
      · simp only [h2, if_false]
        by_cases h3 : b ≤ 31 ∨ b ≥ 127
        · simp [h3]
        · simp only [h3, if_false]
          by_cases h4 : (33 ≤ b ∧ b ≤ 126) ∧ seen = true
          · simp [h4]
          · simp only [h4, if_false]
            have := ih seen
            have hs : (seen || decide False) = seen := by simp
            rw [hs]
            constructor
            · intro l' h
              split at h
              · rename_i l2 hl2
                have := (this.1 l2 hl2)
                simp at h; subst h; exact ⟨by rw [this.1], this.2⟩
              · simp at h
            · intro h
              rw [this.2 h]

private theorem validateGo_spaces : ∀ (n i : Nat), i ≠ 0 → ∀ seen, validateGo (List.replicate n 32) i seen = .ok ()
  | 0, _, _, _ => by simp [validateGo]
  | n + 1, i, hi, seen => by
    rw [List.replicate_succ]
    unfold validateGo
    have h1 : ¬ (True ∧ i = 0) := fun h => hi h.2
    simp only [h1, if_false]
    exact validateGo_spaces n (i + 1) (by omega) true

private theorem validateGo_append_spaces : ∀ (l : List Int) (i : Nat) (seen : Bool) (n : Nat),
    (l ≠ [] ∨ i ≠ 0) → validateGo l i seen = .ok () →
    validateGo (l ++ List.replicate n 32) i seen = .ok ()
  | [], i, seen, n, hne, _ => by
    simp only [List.nil_append]
    rcases hne with h | h
    · exact absurd rfl h
    · exact validateGo_spaces n i h seen
  | b :: rest, i, seen, n, _, h => by
    rw [List.cons_append]
    unfold validateGo at h ⊢
    by_cases h1 : b = 32 ∧ i = 0
    · simp [h1] at h
    · simp only [h1, if_false] at h ⊢
      by_cases h2 : b = 32
      · simp only [h2, if_true] at h ⊢
        exact validateGo_append_spaces rest (i + 1) true n (Or.inr (by omega)) h
      · simp only [h2, if_false] at h ⊢
        by_cases h3 : b ≤ 31 ∨ b ≥ 127
        · simp [h3] at h
        · simp only [h3, if_false] at h ⊢
          by_cases h4 : (33 ≤ b ∧ b ≤ 126) ∧ seen = true
          · simp [h4] at h
          · simp only [h4, if_false] at h ⊢
            exact validateGo_append_spaces rest (i + 1) seen n (Or.inr (by omega)) h

/-- a tag accepted by `Tag::new_checked` passes `Tag::validate` (and is the input padded with spaces). -/
theorem tag_new_checked_validates (src t : List Int) (h : tagNewChecked src = .ok t) :
    t = src ++ List.replicate (4 - src.length) 32 ∧ tagValidate t = .ok () := by
  unfold tagNewChecked at h
  split at h
  · simp at h
  · rename_i hlen
    split at h
    · rename_i l' hl'
      have hcv := (checkedGo_validateGo src 0 false).1 l' hl'
      simp at h
      rw [hcv.1] at h
      subst h
      refine ⟨rfl, ?_⟩
      unfold tagValidate
      cases src with
      | nil => simp at hlen
      | cons b rest =>
        have hb : b ≠ 32 := by
          intro hb; subst hb
          unfold checkedGo at hl'; simp at hl'
        have hne : (b :: rest) ++ List.replicate (4 - (b :: rest).length) 32 ≠ [32, 32, 32, 32] := by
          intro hc; simp at hc; exact hb hc.1
        simp only [hne, if_false]
        exact validateGo_append_spaces _ 0 false _ (Or.inl (by simp)) hcv.2
    · simp at h

/-- for a four-byte tag `validate` accepts exactly what `new_checked` accepts. -/
theorem tag_validate_iff_new_checked (a b c d : Int) :
    tagValidate [a, b, c, d] = .ok () ↔ tagNewChecked [a, b, c, d] = .ok [a, b, c, d] := by
  have hcv := checkedGo_validateGo [a, b, c, d] 0 false
  unfold tagValidate tagNewChecked
  by_cases hsp : [a, b, c, d] = [32, 32, 32, 32]
  · simp at hsp
    obtain ⟨rfl, rfl, rfl, rfl⟩ := hsp
    simp [checkedGo]
  · simp only [hsp, if_false]
    have hl : ¬ (([a, b, c, d] : List Int).isEmpty = true ∨ ([a, b, c, d] : List Int).length > 4) := by simp
    simp only [hl, if_false]
    constructor
    · intro h
      rw [hcv.2 h]; simp
    · intro h
      split at h
      · rename_i l' hl'
        exact (hcv.1 l' hl').2
      · simp at h

example : tagNewChecked [97] = .ok [97, 32, 32, 32] ∧ tagNewChecked [32, 98] = .error (.byte 0 32)
    ∧ tagNewChecked [98, 32, 99] = .error (.byte 2 99) ∧ tagValidate [98, 32, 99, 99] = .error (.after 2)
    ∧ tagNewChecked [] = .error (.len 0) ∧ tagValidate [32, 32, 32, 32] = .error (.len 0)
    ∧ tagNewChecked [127] = .error (.byte 0 127) := ⟨rfl, rfl, rfl, rfl, rfl, rfl, rfl⟩

/-- `Tag::from_u32` / `to_be_bytes` round trip. -/
theorem tag_from_u32_roundtrip (v : Int) (h : inU32 v) : fromBeU (tagFromU32 v) = v := by
  unfold inU32 at h
  simp [tagFromU32, toBeU, fromBeU, List.range, List.range.loop]; omega

end FontVerif.C15Scalar
