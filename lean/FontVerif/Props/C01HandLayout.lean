/-
C01 (hand-written code) — termination, iteration bounds, in-range indices / slices and absence of arithmetic
traps for the models of Model/HandLayout.lean ⇄ read-fonts/src/tables/layout.rs / gsub.rs / gpos.rs / gdef.rs and the closure modules (Coverage / ClassDef lookups and iterators, Device / VariationIndex decoding, lookup-list walking, context rule walking, FeatureVariations conditions).
Tied to the real functions by harness group `layout.model` (`hl.*` driver commands).
-/
import FontVerif.Model.HandLayout
import FontVerif.Lemmas.ReadIter
set_option linter.unusedVariables false
set_option linter.unusedSimpArgs false
namespace FontVerif.C01HandLayout
open FontVerif FontVerif.ReadIter FontVerif.HandRead FontVerif.HandLayout

end FontVerif.C01HandLayout
