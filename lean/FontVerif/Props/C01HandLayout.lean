/-
C01 (hand-written code) — termination, iteration bounds, in-range indices / slices and absence of arithmetic
traps for the models of Model/HandLayout.lean ⇄ read-fonts/src/tables/layout.rs / gsub.rs / gpos.rs / gdef.rs and the closure modules (Coverage / ClassDef lookups and iterators, Device / VariationIndex decoding, lookup-list walking, context rule walking, FeatureVariations conditions).
Tied to the real functions by harness group `layout.model` (`hl.*` driver commands).
-/
import FontVerif.Model.HandLayout
import FontVerif.Lemmas.ReadIter
import FontVerif.Lemmas.HandLayout
set_option linter.unusedVariables false
set_option linter.unusedSimpArgs false
namespace FontVerif.C01HandLayout
open FontVerif FontVerif.ReadIter FontVerif.HandRead FontVerif.HandLayout FontVerif.Layout

/-! ## Coverage tables

All statements hold for ARBITRARY record data — unsorted, overlapping, inverted (`start > end`) —
because the binary search is the transcription of `core`'s loop, whose index stays inside the slice
whatever the comparison function answers (`bsLoop_bounds`). -/

/-- **`CoverageFormat1::get` never panics and returns an index only for a covered glyph**: `Some(i)`
implies `gid ≤ 0xFFFF`, `i < glyph_count` and `glyph_array[i] == gid`. -/
theorem coverage1_get_safe (xs : List Nat) (g : Nat) (hlen : xs.length ≤ 65536) :
    cov1Get xs g ≠ .trap ∧
    ∀ i, cov1Get xs g = .val (some i) → g < 65536 ∧ i < xs.length ∧ xs[i]? = some g :=
  ⟨cov1Get_ne_trap xs g, fun i h => cov1Get_some hlen h⟩

/-- **`CoverageFormat2::get` never panics** — neither the indexing `range_records()[idx]` nor the
`u16` subtraction `gid - start_glyph_id` (the search only answers `Ok(idx)` for a record with
`start ≤ gid ≤ end`) nor the index addition (`checked_add`) — **and returns an index only for a glyph
inside a record**: `Some(i)` implies some record has `start ≤ gid ≤ end` and
`i = start_coverage_index + (gid − start) ≤ 0xFFFF`.  It computes exactly C06's `Layout.Coverage.get`. -/
theorem coverage2_get_safe (rs : List RangeRec) (g : Nat) :
    cov2Get rs g ≠ .trap ∧ cov2Get rs g = .val ((Coverage.fmt2 rs).get g) ∧
    ∀ i, cov2Get rs g = .val (some i) →
      g < 65536 ∧ i < 65536 ∧ ∃ r ∈ rs, r.start ≤ g ∧ g ≤ r.end_ ∧ i = r.startCov + (g - r.start) := by
  refine ⟨?_, cov2Get_val rs g, fun i h => cov2Get_some h⟩
  rw [cov2Get_val]; simp

/-- `CoverageTable::get` for both formats -/
theorem coverage_get_never_traps (c : Coverage) (g : Nat) : covGet c g ≠ .trap := by
  cases c with
  | fmt1 xs => exact cov1Get_ne_trap xs g
  | fmt2 rs => exact (coverage2_get_safe rs g).1

/-- **`CoverageTable::iter` yields exactly Σ max(0, end − start + 1) glyphs** (format 1: `glyph_count`),
at most `65536 · range_count` for `u16` fields, and every glyph it yields lies inside one of the
records: the iterator is a `flat_map` over the record list of `RangeInclusive<u16>`s, empty for an
inverted record. -/
theorem coverage_iter_bounded (rs : List RangeRec) :
    (covIter (.fmt2 rs)).length = popSum (rs.map (fun r => (r.start, r.end_))) ∧
    ((∀ r ∈ rs, r.end_ < 65536) → (covIter (.fmt2 rs)).length ≤ 65536 * rs.length) ∧
    ∀ g ∈ covIter (.fmt2 rs), ∃ r ∈ rs, r.start ≤ g ∧ g ≤ r.end_ := by
  refine ⟨expandRanges_length rs, ?_, fun g hg => mem_expandRanges hg⟩
  intro h
  have := popSum_le (rs.map (fun r => (r.start, r.end_))) (by
    intro p hp
    simp only [List.mem_map] at hp
    obtain ⟨r, hr, rfl⟩ := hp
    exact h r hr)
  simp only [covIter, expandRanges_length, List.length_map] at this ⊢
  exact this

/-- **`population` never overflows** and equals the number of glyphs `iter` yields: the `usize` fold
`acc + record.population()` stays below `65536 · 65535`, and the guarded `end - start + 1` never
underflows (inverted records count 0). -/
theorem coverage_population_total (c : Coverage) (hc : U16Cov c) : covPop c = .val (covIter c).length := by
  cases c with
  | fmt1 xs => rfl
  | fmt2 rs =>
    obtain ⟨hlen, hf⟩ := hc
    simp only [covPop, covIter, expandRanges_length]
    have hb := popSum_le (rs.map (fun r => (r.start, r.end_))) (by
      intro p hp
      simp only [List.mem_map] at hp
      obtain ⟨r, hr, rfl⟩ := hp
      exact (hf r hr).2.1)
    simp only [List.length_map] at hb
    have := popFold_val (rs.map (fun r => (r.start, r.end_))) 0 (by
      have : 65536 * rs.length ≤ 65536 * 65536 := Nat.mul_le_mul_left _ (by omega)
      simp only [MAXU]; omega)
    simpa using this

/-- **`intersects` never panics and never reports a glyph that is not covered**, whichever side of the
cost comparison `count > glyphs.len().saturating_mul(num_bits) / 2` is taken: `true` implies a member
of the set lies in the glyph array / inside a record. -/
theorem coverage_intersects_safe (c : Coverage) (s : GSet) (hc : U16Cov c) :
    ∃ b, covIntersects c s = .val b ∧
      (b = true → ∃ g ∈ s, match c with
        | .fmt1 xs => g ∈ xs
        | .fmt2 rs => ∃ r ∈ rs, r.start ≤ g ∧ g ≤ r.end_) := by
  cases c with
  | fmt1 xs =>
    simp only [covIntersects, cov1Intersects]
    split
    · obtain ⟨b, hb, hb2⟩ := anyR_val (fun g => (cov1Get xs g).bind (fun r => .val r.isSome)) s (by
        intro g _
        cases hg : cov1Get xs g with
        | trap => exact absurd hg (cov1Get_ne_trap xs g)
        | val v => simp [Res.bind])
      refine ⟨b, hb, fun hbt => ?_⟩
      obtain ⟨g, hg, hfg⟩ := hb2 hbt
      refine ⟨g, hg, ?_⟩
      cases hv : cov1Get xs g with
      | trap => simp [hv, Res.bind] at hfg
      | val v =>
        cases v with
        | none => simp [hv, Res.bind] at hfg
        | some i =>
          have := (cov1Get_some (Nat.le_of_lt hc.1) hv).2.2
          exact List.mem_of_getElem? this
    · refine ⟨_, rfl, fun hbt => ?_⟩
      simp only [List.any_eq_true] at hbt
      obtain ⟨g, hg, hs⟩ := hbt
      exact ⟨g, by simpa using hs, hg⟩
  | fmt2 rs =>
    simp only [covIntersects, cov2Intersects]
    split
    · obtain ⟨b, hb, hb2⟩ := anyR_val (fun g => (cov2Get rs g).bind (fun r => .val r.isSome)) s (by
        intro g _
        rw [cov2Get_val]; simp [Res.bind])
      refine ⟨b, hb, fun hbt => ?_⟩
      obtain ⟨g, hg, hfg⟩ := hb2 hbt
      refine ⟨g, hg, ?_⟩
      cases hv : cov2Get rs g with
      | trap => simp [hv, Res.bind] at hfg
      | val v =>
        cases v with
        | none => simp [hv, Res.bind] at hfg
        | some i =>
          obtain ⟨_, _, r, hr, h1, h2, _⟩ := cov2Get_some hv
          exact ⟨r, hr, h1, h2⟩
    · refine ⟨_, rfl, fun hbt => ?_⟩
      simp only [List.any_eq_true, rangeIntersects, GSet.intersectsRange, decide_eq_true_eq] at hbt
      obtain ⟨r, hr, g, hg, h1, h2⟩ := hbt
      exact ⟨g, hg, r, hr, h1, h2⟩

/-! ## Class definitions -/

/-- **`ClassDefFormat1::get` never panics** (the `u16` subtraction `gid - start_glyph_id` is guarded by
`gid < start → 0`, the array access is `get(..).unwrap_or(0)`) **and a non-zero class is the array entry
of that glyph**. -/
theorem classdef1_get_safe (start : Nat) (cs : List Nat) (g : Nat) :
    ∃ c, cls1Get start cs g = .val c ∧ (c ≠ 0 → start ≤ g ∧ cs[g - start]? = some c) := by
  unfold cls1Get
  by_cases h : g < start
  · exact ⟨0, by simp [h], by simp⟩
  · simp only [h, if_false, subTrap, Res.bind]
    have hsg : start ≤ g := by omega
    rw [if_pos hsg]
    refine ⟨_, rfl, fun hc => ⟨hsg, ?_⟩⟩
    cases hg : cs[g - start]? with
    | none => simp [hg] at hc
    | some v => simp

/-- **`ClassDefFormat2::get` returns a non-zero class only from a record that contains the glyph**
(`Err(ix) → ix.saturating_sub(1)`, `records.get(ix)`: no index can panic) -/
theorem classdef2_get_safe (rs : List ClassRangeRec) (g c : Nat) (h : cls2Get rs g = .val c) (hc : c ≠ 0) :
    ∃ r ∈ rs, r.start ≤ g ∧ g ≤ r.end_ ∧ r.cls = c := by
  simp only [cls2Get, ClassDef.get] at h
  injection h with h
  split at h
  · rename_i r hr
    split at h
    · rename_i hin
      exact ⟨r, List.mem_of_getElem? hr, hin.1, hin.2, h⟩
    · exact absurd h.symm hc
  · exact absurd h.symm hc

/-- `ClassDef::get` never panics -/
theorem classdef_get_never_traps (c : ClassDef) (g : Nat) : clsGet c g ≠ .trap := by
  cases c with
  | fmt1 s cs =>
    obtain ⟨v, hv, _⟩ := classdef1_get_safe s cs g
    simp [clsGet, hv]
  | fmt2 rs => simp [clsGet, cls2Get]

/-- **`ClassDef::iter` is bounded**: format 1 yields `glyph_count` items whose glyph ids stay `u16`s
(`saturating_add`), format 2 yields Σ max(0, end − start + 1) ≤ `65536 · class_range_count` items, each
inside its record and carrying that record's class. -/
theorem classdef_iter_bounded (c : ClassDef) :
    (match c with
      | .fmt1 s cs => (clsIter c).length = cs.length ∧ ∀ p ∈ clsIter c, p.1 ≤ 65535
      | .fmt2 rs => (clsIter c).length = popSum (rs.map (fun r => (r.start, r.end_))) ∧
          ((∀ r ∈ rs, r.end_ < 65536) → (clsIter c).length ≤ 65536 * rs.length) ∧
          ∀ p ∈ clsIter c, ∃ r ∈ rs, r.start ≤ p.1 ∧ p.1 ≤ r.end_ ∧ p.2 = r.cls) := by
  cases c with
  | fmt1 s cs =>
    simp only [clsIter, cls1Iter]
    refine ⟨by simp, ?_⟩
    intro p hp
    obtain ⟨i, hi, hp2⟩ := List.getElem_of_mem hp
    simp only [List.getElem_zipWith] at hp2
    rw [← hp2]
    exact Nat.min_le_right _ _
  | fmt2 rs =>
    simp only [clsIter]
    refine ⟨cls2Iter_length rs, ?_, fun p hp => mem_cls2Iter hp⟩
    intro h
    have := popSum_le (rs.map (fun r => (r.start, r.end_))) (by
      intro p hp
      simp only [List.mem_map] at hp
      obtain ⟨r, hr, rfl⟩ := hp
      exact h r hr)
    simp only [cls2Iter_length, List.length_map] at this ⊢
    exact this

/-- `ClassDef::population` never overflows and equals the number of items `iter` yields -/
theorem classdef_population_total (c : ClassDef) (hc : U16Cls c) : clsPop c = .val (clsIter c).length := by
  cases c with
  | fmt1 s cs => simp [clsPop, clsIter, cls1Iter]
  | fmt2 rs =>
    obtain ⟨hlen, hf⟩ := hc
    simp only [clsPop, clsIter, cls2Iter_length]
    have hb := popSum_le (rs.map (fun r => (r.start, r.end_))) (by
      intro p hp
      simp only [List.mem_map] at hp
      obtain ⟨r, hr, rfl⟩ := hp
      exact (hf r hr).2.1)
    simp only [List.length_map] at hb
    have := popFold_val (rs.map (fun r => (r.start, r.end_))) 0 (by
      have : 65536 * rs.length ≤ 65536 * 65536 := Nat.mul_le_mul_left _ (by omega)
      simp only [MAXU]; omega)
    simpa using this

/-- the hypotheses `U16Cov` / `U16Cls` hold for everything the generated readers hand out -/
theorem readers_hand_out_u16 (d : List Nat) (hb : ∀ b ∈ d, b < 256) :
    (∀ c, covRead d = .ok c → U16Cov c) ∧ (∀ c, clsRead d = .ok c → U16Cls c) :=
  ⟨covRead_u16 d hb, clsRead_u16 d hb⟩

/-! ## Device tables -/

/-- **`Device::read` accepts exactly `value_count` delta words inside the data** -/
theorem device_read_words (d : List Nat) (v : Dev) (h : devRead d = .ok v) :
    v.words.length = valueCount v.fmt v.start v.end_ ∧ 6 + 2 * v.words.length ≤ d.length := by
  unfold devRead at h
  cases hs : readAt d 0 2 with
  | none => simp [hs] at h
  | some s =>
    cases he : readAt d 2 2 with
    | none => simp [hs, he] at h
    | some e =>
      cases hf : readAt d 4 2 with
      | none => simp [hs, he, hf] at h
      | some f =>
        simp only [hs, he, hf, checkedMul] at h
        by_cases hm : valueCount f s e * 2 ≤ MAXU
        · rw [if_pos hm] at h
          simp only [] at h
          by_cases hl : 6 + valueCount f s e * 2 ≤ d.length
          · rw [if_pos hl] at h
            injection h with h
            subst h
            simp only [u16sAt, List.length_map, List.length_range]
            exact ⟨trivial, by omega⟩
          · rw [if_neg hl] at h; cases h
        · rw [if_neg hm] at h; cases h

/-- **`Device::iter` never panics and yields exactly `end_size − start_size + 1` deltas** for the three
delta formats with `start_size ≤ end_size`, and nothing otherwise (inverted size range, unknown format,
`VariationIndex`) — for every table whose word count is `value_count(..)`, which is what `Device::read`
guarantees.  Every delta is decoded from one word with a shift below 16 into slot `i < 8` and is an
`i8`.  In particular `max_per_word = 16 / bits` is never evaluated with `bits = 0`. -/
theorem device_iter_exact (v : Dev) (hw : v.words.length = valueCount v.fmt v.start v.end_) :
    ∃ vs, devIter v = .val vs ∧
      vs.length = (if (v.fmt = 1 ∨ v.fmt = 2 ∨ v.fmt = 3) ∧ v.start ≤ v.end_ then v.end_ - v.start + 1 else 0) ∧
      ∀ x ∈ vs, -128 ≤ x ∧ x ≤ 127 := by
  rw [valueCount_eq] at hw
  unfold devIter
  by_cases hf : v.fmt = 1 ∨ v.fmt = 2 ∨ v.fmt = 3
  · obtain ⟨vs, h1, h2, h3⟩ := devWords_val v.fmt hf
      (if v.fmt = 1 then 8 else if v.fmt = 2 then 4 else if v.fmt = 3 then 2 else 0)
      (by rcases hf with h | h | h <;> simp [h]) v.words (v.end_ - v.start + 1)
    refine ⟨vs, h1, ?_, h3⟩
    rw [h2]
    simp only [hf, true_and]
    rcases hf with h | h | h <;> simp only [h] at hw ⊢ <;> simp at hw ⊢ <;> split <;> omega
  · have h1 : v.fmt ≠ 1 := fun h => hf (Or.inl h)
    have h2 : v.fmt ≠ 2 := fun h => hf (Or.inr (Or.inl h))
    have h3 : v.fmt ≠ 3 := fun h => hf (Or.inr (Or.inr h))
    simp only [h1, h2, h3, if_false] at hw
    have : v.words = [] := List.eq_nil_of_length_eq_zero hw
    exact ⟨[], by simp [this, devWords], by simp [hf], by simp⟩

/-- the panic is representable: a table of a format without deltas that nevertheless carried a delta
word WOULD divide by zero — `value_count` returning 0 for those formats is what excludes it -/
theorem device_iter_trap_without_value_count (v : Dev) (hf : ¬ (v.fmt = 1 ∨ v.fmt = 2 ∨ v.fmt = 3))
    (hw : v.words ≠ []) : devIter v = .trap := by
  unfold devIter
  cases hws : v.words with
  | nil => exact absurd hws hw
  | cons w rest => simp [devWords, iterPackedValues_trap w v.fmt _ hf, Res.bind]

/-- `Device::read` + `Device::iter` on any bytes: no panic -/
theorem device_read_iter_never_traps (d : List Nat) (v : Dev) (h : devRead d = .ok v) : devIter v ≠ .trap := by
  obtain ⟨vs, hv, _⟩ := device_iter_exact v (device_read_words d v h).1
  simp [hv]

/-! ## script lists, script tags -/

/-- **`index_for_tag` returns only an index whose record carries the tag** (for any record order) -/
theorem index_for_tag_sound (tags : List Nat) (t i : Nat) (hlen : tags.length ≤ 65536)
    (h : indexForTag tags t = some i) : i < tags.length ∧ tags[i]? = some t := by
  unfold indexForTag at h
  cases hb : binarySearchBy tags.length (fun i => natCmp (tags.getD i 0) t) with
  | err j => rw [hb] at h; cases h
  | ok j =>
    rw [hb] at h
    have ⟨hj, he⟩ := bs_ok hb
    have he' := natCmp_eq he
    injection h with h
    have : j % 65536 = j := Nat.mod_eq_of_lt (by omega)
    rw [this] at h
    subst h
    exact ⟨hj, by rw [getD_of_lt tags j 0 hj, he']⟩

theorem selectLoop_sound (recs : List Nat) (hlen : recs.length ≤ 65536) :
    ∀ (ts : List Nat) (t i : Nat), selectLoop recs ts = some (t, i) → t ∈ ts ∧ i < recs.length ∧ recs[i]? = some t := by
  intro ts
  induction ts with
  | nil => intro t i h; simp [selectLoop] at h
  | cons a rest ih =>
    intro t i h
    unfold selectLoop at h
    cases hx : indexForTag recs a with
    | some j =>
      rw [hx] at h
      injection h with h
      injection h with h1 h2
      subst h1; subst h2
      have := index_for_tag_sound recs a j hlen hx
      exact ⟨by simp, this.1, this.2⟩
    | none =>
      rw [hx] at h
      have := ih t i h
      exact ⟨by simp [this.1], this.2.1, this.2.2⟩

/-- **`ScriptList::select` returns a valid record index whose tag is the selected tag**; a
non-fallback selection is one of the requested tags, a fallback is `DFLT` / `dflt` / `latn`.  Both loops
run over their tag lists once (structural recursion): at most `tags.len() + 3` binary searches. -/
theorem select_sound (recs tags : List Nat) (hlen : recs.length ≤ 65536) (t i : Nat) (fb : Bool)
    (h : select recs tags = some (t, i, fb)) :
    i < recs.length ∧ recs[i]? = some t ∧
    (fb = false → t ∈ tags) ∧
    (fb = true → t = tg 'D' 'F' 'L' 'T' ∨ t = tg 'd' 'f' 'l' 't' ∨ t = tg 'l' 'a' 't' 'n') := by
  unfold select at h
  cases h1 : selectLoop recs tags with
  | some p =>
    obtain ⟨t', i'⟩ := p
    rw [h1] at h
    injection h with h
    injection h with ha hb
    injection hb with hb hc
    subst ha; subst hb; subst hc
    have := selectLoop_sound recs hlen tags _ _ h1
    exact ⟨this.2.1, this.2.2, fun _ => this.1, fun hf => by cases hf⟩
  | none =>
    rw [h1] at h
    cases h2 : selectLoop recs [tg 'D' 'F' 'L' 'T', tg 'd' 'f' 'l' 't', tg 'l' 'a' 't' 'n'] with
    | none => rw [h2] at h; cases h
    | some p =>
      obtain ⟨t', i'⟩ := p
      rw [h2] at h
      injection h with h
      injection h with ha hb
      injection hb with hb hc
      subst ha; subst hb; subst hc
      have := selectLoop_sound recs hlen _ _ _ h2
      refine ⟨this.2.1, this.2.2, fun hf => (by cases hf), fun _ => ?_⟩
      simpa using this.1

/-- **`ScriptTags::from_unicode` never indexes outside its `[Tag; 3]`** and `as_slice` (`&tags[..len]`)
never slices past it: for EVERY script tag the result has 1 to 3 tags (`len ≤ 3` by construction: at
most the version-3 tag, the new tag and the old tag). -/
theorem script_tags_from_unicode_safe (u : Nat) :
    ∃ ts, scriptTagsFromUnicode u = .val ts ∧ 1 ≤ ts.length ∧ ts.length ≤ 3 := by
  unfold scriptTagsFromUnicode
  cases hn : newTagFromUnicode u with
  | none => simp [setTag, Res.bind]
  | some nt =>
    by_cases hm : nt ≠ tg 'm' 'y' 'm' '2'
    · simp [hm, setTag, Res.bind]
    · simp [hm, setTag, Res.bind]

/-! ## GSUB glyph closure

Statements are over ARBITRARY parsed tables (`GsubT` with every lazily resolved table an `Ok` value or
any `ReadError`): unsorted / overlapping coverage, lookup and sequence indices beyond their arrays,
null and dangling offsets, contextual lookups that reference themselves. -/

/-- **no subtable's `add_reachable_glyphs` can panic**, in particular not at
`coverage.iter().nth(i).unwrap()` (the index `i` is an index of `coverage.iter().zip(rule_sets())`) nor at
`sequence_index as usize - 1` (taken only for `sequence_index ≠ 0`; an index beyond the input sequence
is skipped by `.get(..)`) nor in `ClassDef::get`.  The glyph set only grows and stays a set of `u16`s,
`finished_lookups` / `cur_glyphs` are untouched, and at most `subCost s` (= the number of sequence
lookup records) todos are pushed. -/
theorem subtable_closure_safe (s : Sub) (c : Cx) (h : Good c) :
    subAdd c s ≠ .trap ∧ ∀ c', subAdd c s = .ok c' → Eff c c' (subCost s) := by
  have := subAdd_safe s c h
  cases hr : subAdd c s with
  | trap => rw [hr] at this; exact absurd this (by simp [Safe])
  | err e => exact ⟨by simp, fun c' h => by cases h⟩
  | ok c1 => rw [hr] at this; exact ⟨by simp, fun c' h => by injection h with h; subst h; exact this⟩

/-- **`closure_glyphs_once` terminates**: the `while let Some(todo) = ctx.pop_a_todo()` loop, in which
contextual lookups push further (even their own) lookups, makes at most `onceFuel L K R` trips for a
lookup list of `L` lookups each with at most `K` sequence lookup records and `R` reachable lookups —
`needs_to_do_lookup` lets a lookup run again only when the closure grew or its set of already covered
glyphs grows, and both are bounded by the 65536 glyph ids.  No panic; the glyphs only grow. -/
theorem closure_once_terminates (g : GsubT) (reachable : List Nat) (c : Cx) (hG : Good c) (hF : FinOk c)
    (ht : c.todos = []) (fuel : Nat)
    (hfuel : ∀ ls, g.lookups = .ok ls → onceFuel ls.length (maxCost ls) reachable.length ≤ fuel) :
    ∃ r, closureOnce g reachable fuel c = some r ∧ r ≠ .trap ∧
      ∀ c', r = .ok c' → Good c' ∧ (∀ x ∈ c.glyphs, x ∈ c'.glyphs) ∧ c'.todos = [] := by
  obtain ⟨r, hr, hp⟩ := closureOnce_terminates g reachable c hG hF ht fuel hfuel
  refine ⟨r, hr, ?_, ?_⟩
  · intro h; subst h; exact hp
  · intro c' h; subst h; exact ⟨hp.1, hp.2.2.1, hp.2.2.2.2⟩

/-- **`Gsub::closure_glyphs` terminates and never panics, for every table and every input set**: the
model's fuel (65538 passes, `onceFuel` todo-loop trips per pass) always suffices — every pass but the
last finds a new glyph id and there are 65536 of them.  The result is `Err(ReadError)` or a set of `u16`
glyph ids that contains the input set. -/
theorem closure_glyphs_terminates (g : GsubT) (glyphs : G16) (hg : Inc16 glyphs) :
    ∃ r, closureGlyphs g glyphs = some r ∧ r ≠ .trap ∧
      ∀ gs, r = .ok gs → Inc16 gs ∧ gs.length ≤ 65536 ∧ ∀ x ∈ glyphs, x ∈ gs := by
  unfold closureGlyphs
  cases hr : findReachable g with
  | error e => exact ⟨.err e, rfl, by simp, fun gs h => by cases h⟩
  | ok reachable =>
    simp only []
    have hfuel : ∀ ls, g.lookups = .ok ls → onceFuel ls.length (maxCost ls) reachable.length ≤
        closureFuel g reachable := by
      intro ls hl; simp [closureFuel, hl]
    have hG : Good ⟨glyphs, none, [], []⟩ := ⟨hg, by simp⟩
    have hF : FinOk ⟨glyphs, none, [], []⟩ := by intro e he; simp at he
    obtain ⟨r, hr2, hp⟩ := closureLoop_terminates g reachable _ hfuel 65538 (0, 0) ⟨glyphs, none, [], []⟩ hG hF rfl
      (by simp only []; omega)
    rw [hr2]
    cases r with
    | trap => exact absurd hp (by simp [PassPost])
    | err e => exact ⟨.err e, rfl, by simp, fun gs h => by cases h⟩
    | ok c =>
      refine ⟨.ok c.glyphs, rfl, by simp, fun gs h => ?_⟩
      injection h with h
      subst h
      exact ⟨hp.1.1, hp.1.1.length_le, hp.2.2.1⟩

/-- the fixpoint loop alone: at most `65536 − |glyphs| + 2` passes (`fuelO`) -/
theorem closure_passes_bounded (g : GsubT) (reachable : List Nat) (fuelI : Nat)
    (hfuel : ∀ ls, g.lookups = .ok ls → onceFuel ls.length (maxCost ls) reachable.length ≤ fuelI)
    (c : Cx) (hG : Good c) (hF : FinOk c) (ht : c.todos = []) (prev : Nat × Nat) :
    ∃ r, closureLoop g reachable fuelI (65536 - c.glyphs.length + 2) prev c = some r ∧ r ≠ .trap := by
  obtain ⟨r, hr, hp⟩ := closureLoop_terminates g reachable fuelI hfuel _ prev c hG hF ht (Nat.le_refl _)
  exact ⟨r, hr, by intro h; subst h; exact hp⟩

/-! ## lookup subtables -/

/-- **`SubstitutionLookup::subtables()` + `Subtables::iter` yield exactly `sub_table_count` items** (each
`Ok` or an error value), for plain and extension lookups alike, and the offsets they are read from lie
inside the lookup table: the iterator walks the offset array once. -/
theorem lookup_subtables_count (d : List Nat) (p : Nat) (lk : Lookup) (subs : List (PR Sub))
    (h : lookupAt d p = .ok lk) (h2 : lk = .ok subs) :
    subs.length = HandRead.beAt d (p + 4) 2 ∧ p + 6 + 2 * subs.length ≤ d.length := by
  subst h2
  unfold lookupAt at h
  simp only [bind, Except.bind, pure, Except.pure] at h
  cases h1 : rd16 d p with
  | error e => simp [h1] at h
  | ok ty =>
    cases h2 : rd16 d (p + 2) with
    | error e => simp [h1, h2] at h
    | ok flag =>
      cases h3 : rd16 d (p + 4) with
      | error e => simp [h1, h2, h3] at h
      | ok n =>
        have hn := rd16_ok h3
        simp only [h1, h2, h3] at h
        cases h4 : need d p (6 + 2 * n + if flag / 16 % 2 = 1 then 2 else 0) with
        | error e => simp [h4] at h
        | ok u =>
          have hlen : p + (6 + 2 * n) ≤ d.length := by
            have := need_ok h4
            omega
          simp only [h4] at h
          split at h
          · cases h
          · split at h
            · injection h with h
              injection h with h
              subst h
              simp only [List.length_map, offsets16, u16sAt, List.length_range]
              exact ⟨hn.1, by omega⟩
            · injection h with h
              -- extension lookups
              revert h
              cases hm : (u16sAt d (p + 6) n) with
              | nil => intro h; simp at h
              | cons off rest =>
                simp only []
                intro h
                cases hf : resolveAt d p off with
                | error e => simp [hf] at h
                | ok first =>
                  simp only [hf] at h
                  cases hnd : need d first 8 with
                  | error e => simp [hnd] at h
                  | ok u2 =>
                    simp only [hnd] at h
                    split at h
                    · cases h
                    · injection h with h
                      subst h
                      simp only [List.length_map, offsets16, u16sAt, List.length_range]
                      exact ⟨hn.1, by omega⟩

/-! ## `collect_features` -/

/-- **`Gsub/Gpos::collect_features` never panics and returns only indices of wanted features**, for
every script list (unsorted tags, scripts / language systems shared or repeated, any error value), any
`table_head` and all tag-set arguments, plain or inverted: the `u16` counters `script_count`,
`langsys_count` are tested against `MAX_SCRIPTS` / `MAX_LANGSYS` BEFORE `+= 1` and so stay ≤ 501 / 2001;
the feature counter uses `overflowing_add`; `script_records[idx]` / `lang_sys_records[idx]` take an
index the binary search just returned.  All loops run once over their record / tag lists (structural
recursion), so the work is linear in the table — plus the explicit limits. -/
theorem collect_features_safe (head : Nat) (featureTags : List Nat) (recs : List (Nat × PR ScriptT))
    (scripts languages features : TagSet) :
    collectFeatures head featureTags recs scripts languages features ≠ .trap ∧
    ∀ out, collectFeatures head featureTags recs scripts languages features = .val (.ok out) →
      ∀ i ∈ out, ∃ j, j < featureTags.length ∧ i = j % 65536 ∧ features.contains (featureTags.getD j 0) = true := by
  unfold collectFeatures
  simp only []
  have h0 : CFInv (filter0 featureTags features) ⟨0, 0, 0, [], [], [], filter0 featureTags features⟩ :=
    ⟨by simp, by simp, by simp, fun i hi => hi⟩
  have hs : RSafe (filter0 featureTags features)
      (if scripts.inv = true then scriptsInv head scripts languages ⟨0, 0, 0, [], [], [], filter0 featureTags features⟩ recs
       else scriptsSel head languages recs ⟨0, 0, 0, [], [], [], filter0 featureTags features⟩ scripts.xs) := by
    split
    · exact scriptsInv_safe _ head scripts languages recs _ h0
    · exact scriptsSel_safe _ head languages recs _ _ h0
  unfold filter0 at hs h0
  revert hs
  generalize (if scripts.inv = true then _ else _ : RR CF) = r
  intro hs
  cases r with
  | trap => exact absurd hs (by simp [RSafe])
  | val x =>
    simp only [Res.bind]
    refine ⟨by simp, fun out ho => ?_⟩
    injection ho with ho
    cases x with
    | error e => simp [Except.map] at ho
    | ok c =>
      simp only [Except.map] at ho
      injection ho with ho
      subst ho
      intro i hi
      exact filter0_lt featureTags features i (hs.2.2.1 i hi)

/-! ## non-vacuity -/

/-- the spec examples of layout.rs -/
example : (covRead [0, 1, 0, 5, 0, 1, 0, 7, 0, 13, 0, 27, 0, 44]).toOption.map (fun c => (covGet c 7, covGet c 45)) =
    some (.val (some 1), .val none) := by decide +kernel
example : (covRead [0, 2, 0, 2, 0, 5, 0, 9, 0, 0, 0, 30, 0, 39, 0, 5]).toOption.map
    (fun c => (covGet c 32, covGet c 10, (covIter c).length, covPop c)) =
    some (.val (some 7), .val none, 15, .val 15) := by decide +kernel
/-- index overflow: `start_coverage_index + (gid − start) > 0xFFFF` is `None`, not a panic -/
example : cov2Get [⟨10, 20, 65530⟩] 16 = .val none ∧ cov2Get [⟨10, 20, 65530⟩] 15 = .val (some 65535) := by decide +kernel
/-- unsorted records: the answer is determined (here: a covered glyph is missed), never a panic -/
example : cov2Get [⟨30, 39, 0⟩, ⟨5, 9, 10⟩, ⟨1, 2, 15⟩] 7 = .val none := by decide +kernel
/-- inverted record: no glyphs, population 0 -/
example : covIter (.fmt2 [⟨9, 5, 0⟩, ⟨3, 4, 0⟩]) = [3, 4] ∧ covPop (.fmt2 [⟨9, 5, 0⟩, ⟨3, 4, 0⟩]) = .val 2 := by decide
example : U16Cov (.fmt2 [⟨9, 5, 0⟩, ⟨3, 4, 0⟩]) := by simp [U16Cov]
example : cls1Iter 65534 [1, 2, 3] = [(65534, 1), (65535, 2), (65535, 3)] := by decide
example : cls1Get 10 [4, 5] 11 = .val 5 ∧ cls1Get 10 [4, 5] 9 = .val 0 ∧ cls1Get 10 [4, 5] 12 = .val 0 := by decide
/-- `delta_decode_all` of layout.rs -/
example : (devRead [0, 7, 0, 13, 0, 3, 1, 244, 30, 245, 101, 8, 42, 0]).toOption.map devIter =
    some (.val [1, -12, 30, -11, 101, 8, 42]) := by decide
/-- `start_size > end_size`: no words, no values -/
example : (devRead [0, 1, 0, 0, 0, 1]).toOption.map devIter = some (.val []) := by decide
example : iterPackedValues 0x8800 1 3 = .val [-2, 0, -2] ∧ iterPackedValues 0x1234 0 3 = .trap := by decide

example : scriptTagsFromUnicode (tg 'B' 'e' 'n' 'g') = .val [tg 'b' 'n' 'g' '3', tg 'b' 'n' 'g' '2', tg 'b' 'e' 'n' 'g'] := by
  decide +kernel
example : scriptTagsFromUnicode (tg 'M' 'y' 'm' 'r') = .val [tg 'm' 'y' 'm' '2', tg 'm' 'y' 'm' 'r'] := by decide +kernel
example : scriptTagsFromUnicode (tg 'Y' 'i' 'i' 'i') = .val [tg 'y' 'i' ' ' ' '] := by decide +kernel
example : select [tg 'D' 'F' 'L' 'T', tg 'c' 'y' 'r' 'l', tg 'l' 'a' 't' 'n'] [tg 't' 'h' 'a' 'i', tg 'l' 'a' 't' 'n'] =
    some (tg 'l' 'a' 't' 'n', 2, false) := by decide +kernel
example : select [tg 'D' 'F' 'L' 'T', tg 'c' 'y' 'r' 'l'] [tg 't' 'h' 'a' 'i'] = some (tg 'D' 'F' 'L' 'T', 0, true) := by
  decide +kernel

/-- a contextual lookup that references itself (rule set of glyph 1, record (0 → lookup 0)) next to a
single substitution 1 → 2: terminates with {1, 2} -/
example : closureGlyphs
    ⟨.ok [.ok [0, 1]], none,
     .ok [.ok (.ok [.ok (.ctx1 (.ok (.fmt1 [1])) [some (.ok [.ok ⟨[], [], [], [⟨0, 0⟩, ⟨0, 1⟩, ⟨7, 0⟩]⟩])])]),
          .ok (.ok [.ok (.single1 (.ok (.fmt1 [1])) 1)])]⟩ [1] = some (.ok [1, 2]) := by decide +kernel
/-- a lookup index beyond the list is an error value, not a panic -/
example : closureGlyphs ⟨.ok [.ok [3]], none, .ok []⟩ [1] = some (.err (.badIndex 3)) := by decide +kernel
example : Good ⟨[1, 5], none, [], [(0, some [5])]⟩ := by
  refine ⟨⟨by simp, by simp⟩, ?_⟩
  intro t ht a ha
  simp at ht; subst ht; injection ha with ha; subst ha
  exact ⟨by simp, by simp⟩

/-- one script, default language system with required feature 1 and features [0, 5]; wanted: everything -/
example : (match collectFeatures 0 [tg 'l' 'i' 'g' 'a', tg 'k' 'e' 'r' 'n']
      [(tg 'l' 'a' 't' 'n', .ok ⟨10, some (.ok ⟨20, 1, [0, 5]⟩), []⟩)] ⟨true, []⟩ ⟨true, []⟩ ⟨true, []⟩ with
    | .val (.ok out) => out == [0, 1]
    | _ => false) = true := by decide +kernel

end FontVerif.C01HandLayout
