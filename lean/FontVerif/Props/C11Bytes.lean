/-
C11 (continued) — the compiled `ItemVariationStore`: writer ∘ reader at byte level.
Model: Model/Ivs.lean (`storeBytes`, `regionListBytes`, `ivdBytes`; `parseStore`) ⇄ write-fonts generated
`FontWrite` for ItemVariationStore / VariationRegionList / ItemVariationData (field programs
`variations_ItemVariationStore_w`, `variations_VariationRegionList_w`, `variations_ItemVariationData_w` in
Gen/WriteProgs.lean, whose field-level read-back is C04's `read_write` / `read_write_under` via
`variations_ItemVariationStore_compat`, `variations_VariationRegionList_compat_under`,
`variations_ItemVariationData_compat_under`) and read-fonts' generated readers + offset resolution.
The packer's placement of the child tables (order, sharing of identical tables) is a universally
quantified parameter `placed`, observed from the real output by the harness.
-/
import FontVerif.Model.Ivs
import FontVerif.Lemmas.IvsLemmas
set_option linter.unusedVariables false
namespace FontVerif.C11
open FontVerif FontVerif.Ivs

/-- `xs` is what the bytes hold from offset `off` on. -/
def At (bs : List Nat) (off : Nat) (xs : List Nat) : Prop := xs <+: bs.drop off

theorem At.split {bs : List Nat} {off : Nat} {xs ys : List Nat} (h : At bs off (xs ++ ys)) :
    At bs off xs ∧ At bs (off + xs.length) ys := by
  obtain ⟨t, ht⟩ := h
  refine ⟨⟨ys ++ t, by rw [← ht]; simp⟩, ⟨t, ?_⟩⟩
  rw [← List.drop_drop, ← ht]
  simp

theorem At.length {bs : List Nat} {off : Nat} {xs : List Nat} (h : At bs off xs) :
    off + xs.length ≤ bs.length ∨ xs = [] := by
  obtain ⟨t, ht⟩ := h
  by_cases hx : xs = []
  · right; exact hx
  · left
    have := congrArg List.length ht
    simp only [List.length_append, List.length_drop] at this
    have : 0 < xs.length := List.length_pos_iff.mpr hx
    omega

theorem rdU16_at {bs : List Nat} {off v : Nat} (h : At bs off (be2n v)) (hv : v < 65536) :
    rdU16 bs off = some v := by
  obtain ⟨t, ht⟩ := h
  have hl := congrArg List.length ht
  simp only [be2n, List.length_append, List.length_cons, List.length_nil, List.length_drop] at hl
  unfold rdU16
  have : off + 2 ≤ bs.length := by omega
  simp only [this, if_true]
  rw [← ht]
  simp [be2n, beValue]
  omega

theorem rdU32_at {bs : List Nat} {off v : Nat} (h : At bs off (be4n v)) (hv : v < 4294967296) :
    rdU32 bs off = some v := by
  obtain ⟨t, ht⟩ := h
  have hl := congrArg List.length ht
  simp only [be4n, List.length_append, List.length_cons, List.length_nil, List.length_drop] at hl
  unfold rdU32
  have : off + 4 ≤ bs.length := by omega
  simp only [this, if_true]
  rw [← ht]
  simp [be4n, beValue]
  omega

theorem be2_form (x : Int) : be2 x = be2n (x % 65536).toNat := by
  have h : (x % 65536).toNat < 65536 := by omega
  show [(x % 65536).toNat / 256, (x % 65536).toNat % 256] = [(x % 65536).toNat / 256 % 256, (x % 65536).toNat % 256]
  rw [Nat.mod_eq_of_lt (by omega : (x % 65536).toNat / 256 < 256)]

theorem rdI16_at {bs : List Nat} {off : Nat} {x : Int} (h : At bs off (be2 x)) (hx : inI16 x) :
    rdI16 bs off = some x := by
  rw [be2_form] at h
  have hu : (x % 65536).toNat < 65536 := by omega
  unfold rdI16
  rw [rdU16_at h hu]
  unfold inI16 at hx
  show some _ = some x
  apply congrArg some
  have hux : (((x % 65536).toNat : Nat) : Int) = x % 65536 := by omega
  generalize (x % 65536).toNat = u at *
  simp only []
  split <;> omega

theorem axisBytes_length (a : Int × Int × Int) : (axisBytes a).length = 6 := by
  simp [axisBytes, be2]

theorem rdAxes_at {bs : List Nat} (axes : List (Int × Int × Int)) :
    ∀ (off : Nat), At bs off (axes.flatMap axisBytes) →
      (∀ a ∈ axes, inI16 a.1 ∧ inI16 a.2.1 ∧ inI16 a.2.2) →
      rdAxes bs axes.length off = some axes := by
  induction axes with
  | nil => intro off _ _; rfl
  | cons a rest ih =>
    intro off h hok
    simp only [List.flatMap_cons] at h
    obtain ⟨h1, h2⟩ := h.split
    rw [axisBytes_length] at h2
    have ha := hok a (by simp)
    unfold axisBytes at h1
    obtain ⟨h1a, h1b⟩ := h1.split
    obtain ⟨h1a, h1c⟩ := h1a.split
    have l2 : ∀ x : Int, (be2 x).length = 2 := fun x => by simp [be2]
    simp only [l2, List.length_append] at h1b h1c
    simp only [List.length_cons, rdAxes]
    rw [rdI16_at h1a ha.1, rdI16_at h1c ha.2.1, rdI16_at h1b ha.2.2,
      ih (off + 6) h2 (fun x hx => hok x (by simp [hx]))]

theorem regionBytes_length (r : List (Int × Int × Int)) : (r.flatMap axisBytes).length = 6 * r.length := by
  induction r with
  | nil => rfl
  | cons a rest ih =>
    simp only [List.flatMap_cons, List.length_append, axisBytes_length, ih, List.length_cons]
    omega

theorem rdRegions_at {bs : List Nat} (ac : Nat) (regions : List (List (Int × Int × Int))) :
    ∀ (off : Nat), At bs off (regions.flatMap (fun r => r.flatMap axisBytes)) →
      (∀ r ∈ regions, r.length = ac ∧ ∀ a ∈ r, inI16 a.1 ∧ inI16 a.2.1 ∧ inI16 a.2.2) →
      rdRegions bs ac regions.length off = some regions := by
  induction regions with
  | nil => intro off _ _; rfl
  | cons r rest ih =>
    intro off h hok
    simp only [List.flatMap_cons] at h
    obtain ⟨h1, h2⟩ := h.split
    have hr := hok r (by simp)
    rw [regionBytes_length, hr.1] at h2
    simp only [List.length_cons, rdRegions]
    have := rdAxes_at r off h1 hr.2
    rw [hr.1] at this
    rw [this, ih (off + 6 * ac) h2 (fun x hx => hok x (by simp [hx]))]

theorem rdU16s_at {bs : List Nat} (vs : List Nat) :
    ∀ (off : Nat), At bs off (vs.flatMap be2n) → (∀ v ∈ vs, v < 65536) →
      rdU16s bs vs.length off = some vs := by
  induction vs with
  | nil => intro off _ _; rfl
  | cons v rest ih =>
    intro off h hok
    simp only [List.flatMap_cons] at h
    obtain ⟨h1, h2⟩ := h.split
    have : (be2n v).length = 2 := by simp [be2n]
    rw [this] at h2
    simp only [List.length_cons, rdU16s]
    rw [rdU16_at h1 (hok v (by simp)), ih (off + 2) h2 (fun x hx => hok x (by simp [hx]))]

/-- what the reader makes of a written subtable: same counts and region indexes; its `data` (all
bytes after the indexes) starts with the written delta sets. -/
def SubExt (st st' : Tent.SubTable) : Prop :=
  st'.itemCount = st.itemCount ∧ st'.wordDeltaCount = st.wordDeltaCount ∧
  st'.regionIndexes = st.regionIndexes ∧ st.data <+: st'.data

def SubOk (st : Tent.SubTable) : Prop :=
  st.itemCount < 65536 ∧ st.wordDeltaCount < 65536 ∧ st.regionIndexes.length < 65536 ∧
  ∀ r ∈ st.regionIndexes, r < 65536

theorem u16s_length (vs : List Nat) : (vs.flatMap be2n).length = 2 * vs.length := by
  induction vs with
  | nil => rfl
  | cons a rest ih =>
    have : (be2n a).length = 2 := by simp [be2n]
    simp only [List.flatMap_cons, List.length_append, ih, List.length_cons, this]
    omega

theorem rdSub_at {bs : List Nat} {off : Nat} (st : Tent.SubTable) (h : At bs off (ivdBytes st))
    (hok : SubOk st) : ∃ st', rdSub bs off = some st' ∧ SubExt st st' := by
  unfold ivdBytes at h
  obtain ⟨h1, hdata⟩ := h.split
  obtain ⟨h1, hris⟩ := h1.split
  obtain ⟨h1, hrc⟩ := h1.split
  obtain ⟨hic, hwdc⟩ := h1.split
  have l2 : ∀ v : Nat, (be2n v).length = 2 := fun v => by simp [be2n]
  simp only [l2, List.length_append, u16s_length] at hdata hris hrc hwdc
  obtain ⟨o1, o2, o3, o4⟩ := hok
  unfold rdSub
  rw [rdU16_at hic o1, rdU16_at hwdc o2, rdU16_at hrc o3]
  simp only []
  have e : off + (2 + 2 + 2) = off + 6 := by omega
  rw [e] at hris
  rw [rdU16s_at st.regionIndexes (off + 6) hris o4]
  refine ⟨_, rfl, rfl, rfl, rfl, ?_⟩
  have e2 : off + (2 + 2 + 2 + 2 * st.regionIndexes.length) = off + 6 + 2 * st.regionIndexes.length := by omega
  rw [e2] at hdata
  exact hdata

/-! placement -/

theorem flatten_drop_idx (placed : List (List Nat)) : ∀ (i : Nat) (hi : i < placed.length),
    placed.flatten.drop (((placed.take i).map List.length).sum) = placed[i] ++ (placed.drop (i + 1)).flatten := by
  induction placed with
  | nil => intro i hi; simp at hi
  | cons p rest ih =>
    intro i hi
    cases i with
    | zero => simp
    | succ i =>
      simp only [List.take_succ_cons, List.map_cons, List.sum_cons, List.flatten_cons,
        List.getElem_cons_succ, List.drop_succ_cons]
      rw [List.drop_append, List.drop_eq_nil_of_le (by omega), List.nil_append, Nat.add_sub_cancel_left]
      exact ih i (by simpa using hi)

theorem offset_at (header : List Nat) (placed : List (List Nat)) (obj : List Nat)
    (hm : obj ∈ placed) :
    At (header ++ placed.flatten) (offsetIn header.length placed obj) obj := by
  unfold At offsetIn
  have hi : placed.idxOf obj < placed.length := List.idxOf_lt_length_of_mem hm
  rw [List.drop_append, List.drop_eq_nil_of_le (by omega), List.nil_append, Nat.add_sub_cancel_left,
    flatten_drop_idx placed _ hi]
  have : placed[placed.idxOf obj] = obj := List.getElem_idxOf hi
  rw [this]
  exact List.prefix_append _ _

theorem offsetIn_pos (hdr : Nat) (placed : List (List Nat)) (obj : List Nat) (h : 0 < hdr) :
    0 < offsetIn hdr placed obj := by unfold offsetIn; omega

theorem offsetIn_le (hdr : Nat) (placed : List (List Nat)) (obj : List Nat) :
    offsetIn hdr placed obj ≤ hdr + placed.flatten.length := by
  unfold offsetIn
  have : ∀ (l : List (List Nat)) (k : Nat), ((l.take k).map List.length).sum ≤ l.flatten.length := by
    intro l
    induction l with
    | nil => intro k; simp
    | cons a rest ih =>
      intro k
      cases k with
      | zero => simp
      | succ k => simp only [List.take_succ_cons, List.map_cons, List.sum_cons, List.flatten_cons, List.length_append]; have := ih k; omega
  have := this placed (placed.idxOf obj)
  omega

/-- element-wise relation between the written subtables and what the reader returns. -/
def SubsExt : List (Option Tent.SubTable) → List (Option Tent.SubTable) → Prop
  | [], [] => True
  | none :: a, none :: b => SubsExt a b
  | some s :: a, some s' :: b => SubExt s s' ∧ SubsExt a b
  | _, _ => False

def offBytes (offOf : Tent.SubTable → Nat) (st : Option Tent.SubTable) : List Nat :=
  match st with
  | none => be4n 0
  | some st => be4n (offOf st)

theorem rdSubs_at {bs : List Nat} (offOf : Tent.SubTable → Nat) (subs : List (Option Tent.SubTable)) :
    ∀ (off : Nat), At bs off (subs.flatMap (offBytes offOf)) →
      (∀ st, some st ∈ subs → SubOk st ∧ 0 < offOf st ∧ offOf st < 4294967296 ∧
        At bs (offOf st) (ivdBytes st)) →
      ∃ subs', rdSubs bs subs.length off = some subs' ∧ SubsExt subs subs' := by
  induction subs with
  | nil => intro off _ _; exact ⟨[], rfl, trivial⟩
  | cons st rest ih =>
    intro off h hok
    simp only [List.flatMap_cons] at h
    obtain ⟨h1, h2⟩ := h.split
    have l4 : (offBytes offOf st).length = 4 := by cases st <;> simp [offBytes, be4n]
    rw [l4] at h2
    obtain ⟨rest', hr, hrel⟩ := ih (off + 4) h2 (fun s hs => hok s (by simp [hs]))
    simp only [List.length_cons, rdSubs]
    cases st with
    | none =>
      simp only [offBytes] at h1
      rw [rdU32_at h1 (by decide), hr]
      exact ⟨none :: rest', rfl, hrel⟩
    | some st =>
      simp only [offBytes] at h1
      obtain ⟨o1, o2, o3, o4⟩ := hok st (by simp)
      rw [rdU32_at h1 o3]
      obtain ⟨st', hst', hext⟩ := rdSub_at st o4 o1
      have hne : offOf st ≠ 0 := by omega
      cases ho : offOf st with
      | zero => exact absurd ho hne
      | succ k =>
        simp only []
        rw [← ho, hst', hr]
        exact ⟨some st' :: rest', rfl, hext, hrel⟩

/-- well-formedness of the value being written (what write-fonts' validation / the `u16` casts of
the generated writer require). -/
structure StoreOk (axisCount : Nat) (regions : List (List (Int × Int × Int)))
    (subs : List (Option Tent.SubTable)) : Prop where
  hac : axisCount < 65536
  hrc : regions.length < 65536
  hregions : ∀ r ∈ regions, r.length = axisCount ∧ ∀ a ∈ r, inI16 a.1 ∧ inI16 a.2.1 ∧ inI16 a.2.2
  hsc : subs.length < 65536
  hsubs : ∀ st, some st ∈ subs → SubOk st

theorem regionListBytes_length (ac : Nat) (regions : List (List (Int × Int × Int))) :
    (be2n ac).length = 2 ∧ (be2n regions.length).length = 2 := by simp [be2n]

/-- **store_bytes_roundtrip** (byte level, writer ∘ reader): for every well-formed store value and
EVERY placement of its child tables after the header (any order, identical tables shared or not —
`placed` only has to contain each child), reading the compiled bytes gives back the axis count,
exactly the region list, a NULL entry for every NULL subtable and, for every other subtable, the
same item count / word-delta count / region indexes with `data` starting with the written delta
sets.  Offsets are assumed to fit 32 bits (total size below 4 GiB). -/
theorem store_bytes_roundtrip (ac : Nat) (regions : List (List (Int × Int × Int)))
    (subs : List (Option Tent.SubTable)) (placed : List (List Nat))
    (hok : StoreOk ac regions subs)
    (hplaced : ∀ obj ∈ childObjects ac regions subs, obj ∈ placed)
    (hsize : 8 + 4 * subs.length + placed.flatten.length < 4294967296) :
    ∃ subs', parseStore (storeBytes ac regions subs placed) = some (ac, regions, subs') ∧
      SubsExt subs subs' := by
  -- the header as one list
  let hdrLen := 8 + 4 * subs.length
  let offOf : Tent.SubTable → Nat := fun st => offsetIn hdrLen placed (ivdBytes st)
  let rlOff := offsetIn hdrLen placed (regionListBytes ac regions)
  let header := be2n 1 ++ be4n rlOff ++ be2n subs.length ++ subs.flatMap (offBytes offOf)
  have hsb : storeBytes ac regions subs placed = header ++ placed.flatten := by
    unfold storeBytes
    simp only [header, offOf, rlOff, hdrLen]
    congr 2
  have hoffs : ∀ (l : List (Option Tent.SubTable)), (l.flatMap (offBytes offOf)).length = 4 * l.length := by
    intro l
    induction l with
    | nil => rfl
    | cons a rest ih =>
      have : (offBytes offOf a).length = 4 := by cases a <;> simp [offBytes, be4n]
      simp only [List.flatMap_cons, List.length_append, ih, List.length_cons, this]; omega
  have hhl : header.length = hdrLen := by
    simp only [header, List.length_append, hoffs, hdrLen]
    simp [be2n, be4n]
  generalize hbs : storeBytes ac regions subs placed = bs at *
  have hat0 : At bs 0 (header ++ placed.flatten) := by
    rw [hsb]; exact ⟨[], by simp⟩
  obtain ⟨hhead, _⟩ := hat0.split
  -- fields of the header
  simp only [header] at hhead
  obtain ⟨h123, harr⟩ := hhead.split
  obtain ⟨h12, hcnt⟩ := h123.split
  obtain ⟨hfmt, hrl⟩ := h12.split
  have e2 : (0 : Nat) + (be2n 1).length = 2 := by simp [be2n]
  have e6 : (0 : Nat) + (be2n 1 ++ be4n rlOff).length = 6 := by simp [be2n, be4n]
  have e8 : (0 : Nat) + (be2n 1 ++ be4n rlOff ++ be2n subs.length).length = 8 := by simp [be2n, be4n]
  rw [e2] at hrl; rw [e6] at hcnt; rw [e8] at harr
  have hpos : 0 < hdrLen := by simp only [hdrLen]; omega
  have hrl_lt : rlOff < 4294967296 := by
    have := offsetIn_le hdrLen placed (regionListBytes ac regions); simp only [rlOff, hdrLen] at *; omega
  -- the region list
  have hrlm : regionListBytes ac regions ∈ placed := hplaced _ (by simp [childObjects])
  have hrlat : At bs rlOff (regionListBytes ac regions) := by
    have := offset_at header placed _ hrlm
    rw [hhl] at this; rw [hsb]; exact this
  unfold regionListBytes at hrlat
  obtain ⟨hr12, hrbody⟩ := hrlat.split
  obtain ⟨hrac, hrcnt⟩ := hr12.split
  have l2 : ∀ v : Nat, (be2n v).length = 2 := fun v => by simp [be2n]
  simp only [List.length_append, l2] at hrbody hrcnt
  -- subtables
  have hsubs := rdSubs_at (bs := bs) offOf subs 8 harr (by
    intro st hst
    refine ⟨hok.hsubs st hst, offsetIn_pos _ _ _ hpos, ?_, ?_⟩
    · have := offsetIn_le hdrLen placed (ivdBytes st); simp only [offOf, hdrLen] at *; omega
    · have hm : ivdBytes st ∈ placed := hplaced _ (by
        simp only [childObjects, List.mem_cons, List.mem_filterMap]
        right; exact ⟨some st, hst, rfl⟩)
      have := offset_at header placed _ hm
      rw [hhl] at this; rw [hsb]; exact this)
  obtain ⟨subs', hs', hrel⟩ := hsubs
  refine ⟨subs', ?_, hrel⟩
  unfold parseStore
  rw [rdU32_at hrl hrl_lt, rdU16_at hcnt hok.hsc]
  simp only []
  rw [rdU16_at hrac hok.hac, rdU16_at hrcnt hok.hrc]
  simp only []
  have e4 : rlOff + (2 + 2) = rlOff + 4 := by omega
  rw [e4] at hrbody
  rw [rdRegions_at ac regions (rlOff + 4) hrbody hok.hregions, hs']

/-! ### the delta evaluated from the bytes -/

theorem subsExt_get {subs subs' : List (Option Tent.SubTable)} (h : SubsExt subs subs') :
    ∀ (k : Nat),
      (subs[k]? = none → subs'[k]? = none) ∧
      (subs[k]? = some none → subs'[k]? = some none) ∧
      (∀ st, subs[k]? = some (some st) → ∃ st', subs'[k]? = some (some st') ∧ SubExt st st') := by
  induction subs generalizing subs' with
  | nil =>
    cases subs' with
    | nil => intro k; simp
    | cons b bs => exact absurd h (by simp [SubsExt])
  | cons a as ih =>
    cases subs' with
    | nil => cases a <;> exact absurd h (by simp [SubsExt])
    | cons b bs =>
      intro k
      cases a with
      | none =>
        cases b with
        | none =>
          have h' : SubsExt as bs := h
          cases k with
          | zero => simp
          | succ k => simpa using ih h' k
        | some b => exact absurd h (by simp [SubsExt])
      | some a =>
        cases b with
        | none => exact absurd h (by simp [SubsExt])
        | some b =>
          have h' : SubExt a b ∧ SubsExt as bs := h
          cases k with
          | zero =>
            refine ⟨by simp, by simp, fun st hst => ?_⟩
            simp only [List.getElem?_cons_zero, Option.some.injEq] at hst
            subst hst
            exact ⟨b, by simp, h'.1⟩
          | succ k => simpa using ih h'.2 k

/-- **delta_from_bytes**: `compute_delta` on the reader's view of the compiled bytes equals
`compute_delta` on the store value that was written — for every index and location — provided each
written subtable carries its full delta-set array (`row length × item count` bytes; the builder's
subtables do).  Together with `add_then_build_delta` (Props/C11.lean §7) this takes a delta set from
`add_deltas` through `build`, `dump_table` and `ItemVariationStore::read` to the specified value. -/
theorem delta_from_bytes (ac : Nat) (regions : List (List (Int × Int × Int)))
    (subs : List (Option Tent.SubTable)) (placed : List (List Nat))
    (hok : StoreOk ac regions subs)
    (hplaced : ∀ obj ∈ childObjects ac regions subs, obj ∈ placed)
    (hsize : 8 + 4 * subs.length + placed.flatten.length < 4294967296)
    (hfull : ∀ st, some st ∈ subs →
      Tent.deltaRowLen st.wordDeltaCount st.regionIndexes.length * st.itemCount ≤ st.data.length)
    (outer inner : Nat) (coords : List Int) :
    ∃ subs', parseStore (storeBytes ac regions subs placed) = some (ac, regions, subs') ∧
      Tent.computeDelta regions subs' outer inner coords =
        Tent.computeDelta regions subs outer inner coords := by
  obtain ⟨subs', hp, hrel⟩ := store_bytes_roundtrip ac regions subs placed hok hplaced hsize
  refine ⟨subs', hp, ?_⟩
  unfold Tent.computeDelta
  by_cases hc : coords.isEmpty
  · simp [hc]
  · simp only [hc, Bool.false_eq_true, if_false]
    obtain ⟨g1, g2, g3⟩ := subsExt_get hrel outer
    cases hk : subs[outer]? with
    | none => rw [g1 hk]
    | some o =>
      cases o with
      | none => rw [g2 hk]
      | some st =>
        obtain ⟨st', hst', e1, e2, e3, ⟨suf, e4⟩⟩ := g3 st hk
        rw [hst']
        simp only [e1, e2, e3]
        have hneed := hfull st (List.mem_of_getElem? hk)
        have hlen : st'.data.length = st.data.length + suf.length := by rw [← e4]; simp
        have c1 : ¬ st.data.length < Tent.deltaRowLen st.wordDeltaCount st.regionIndexes.length * st.itemCount := by omega
        have c2 : ¬ st'.data.length < Tent.deltaRowLen st.wordDeltaCount st.regionIndexes.length * st.itemCount := by omega
        simp only [c1, c2, if_false]
        have : st'.data.take (Tent.deltaRowLen st.wordDeltaCount st.regionIndexes.length * st.itemCount) =
            st.data.take (Tent.deltaRowLen st.wordDeltaCount st.regionIndexes.length * st.itemCount) := by
          rw [← e4, List.take_append_of_le_length hneed]
        rw [this]

/-- the implicit-index builder: at most 0xFFFF items (it panics beyond; with ≤ 0xFFFF every item
`k` is stored at `(0, k)`: `builder_retrievable_direct`). -/
theorem direct_item_limit (n : Nat) (sets : List (List (Nat × Int))) :
    (sets.length ≤ 65535 → buildDirectChecked n sets = some (buildDirect n sets)) ∧
    (65535 < sets.length → buildDirectChecked n sets = none) := by
  unfold buildDirectChecked
  constructor
  · intro h; have : ¬ sets.length > 65535 := by omega
    simp [this]
  · intro h; simp [h]

-- non-vacuity: a store with one region and one subtable, region list placed AFTER the subtable
example : (parseStore (storeBytes 1 [[(0, 16384, 16384)]] [some ⟨1, 1, [0], [0, 100]⟩, none]
    [ivdBytes ⟨1, 1, [0], [0, 100]⟩, regionListBytes 1 [[(0, 16384, 16384)]]])).map (fun p => (p.1, p.2.1)) =
    some (1, [[(0, 16384, 16384)]]) := by decide
example : storeBytes 1 [[(0, 16384, 16384)]] [some ⟨1, 1, [0], [0, 100]⟩]
    [regionListBytes 1 [[(0, 16384, 16384)]], ivdBytes ⟨1, 1, [0], [0, 100]⟩] =
    [0, 1, 0, 0, 0, 12, 0, 1, 0, 0, 0, 22, 0, 1, 0, 1, 0, 0, 64, 0, 64, 0, 0, 1, 0, 1, 0, 1, 0, 0, 0, 100] := by
  decide

end FontVerif.C11
