/-
C17 — "post part" (theorems): the `post` version 2.0 rebuild, maxp / head / hhea, VORG, vmtx pass-through.
See reports/C17.md.

Model: `FontVerif.SubsetPost` (klippa/src/post.rs after repairs 4f39551, d201e53, ffa8a1c; head.rs;
glyf_loca.rs `subset_head`; hmtx.rs hhea tail; vorg.rs; lib.rs dispatch) and `Subset.subsetMaxp` (maxp.rs), tied to
the real code by the `post2*` / `head` / `hhea` / `maxp2` / `vorg*` / `vmtx` correspondence groups of
harness/src/bin/c17/postx.rs.  Readers: read-fonts `Post::read` / `Post::glyph_name` (`glyphName`),
`VarLenArray::get` / `iter` (`pstrGet` / `pstrAll`), `Vorg::vertical_origin_y` (`vorgOriginY`), `hmtx::advance` /
`side_bearing` (`Subset.hmtxAdvance` / `hmtxLsb`, shared by hmtx and vmtx).
-/
import FontVerif.Lemmas.SubsetPost
import FontVerif.Lemmas.Layout
import FontVerif.Props.C17
set_option linter.unusedVariables false
namespace FontVerif.C17Post
open FontVerif FontVerif.Subset FontVerif.SubsetMeta FontVerif.SubsetPost

/-! ## post

Hypotheses `PostReq inp` (Lemmas/SubsetPost.lean): GLYPH_NAMES requested, the table says version 2.0, its bytes are bytes
(< 256), fewer than 65536 output glyphs, and what `Plan::new` guarantees about the plan (`PlanOk`: new ids pairwise
distinct, old ids pairwise distinct, every new id below `num_output_glyphs`; `plan.glyphset.last()` bounds every kept
glyph and is `None` only for an empty glyph set) — `plan_hypotheses_hold` below derives the plan part from
`Subset.makePlan`. -/

/-- the 258 standard names are pairwise distinct: `standard_glyphs` (a HashMap collected from them, last entry
wins) has exactly one index per name, the one `stdIndex` finds -/
theorem stdNames_nodup : stdNames.Pairwise (· ≠ ·) := by decide +kernel

/-- **post_v2_glyph_names_preserved.**  GLYPH_NAMES, version 2.0, a successful `Post::subset`.  Then the emitted
table is readable, is version 2.0 (`post_v2_num_glyphs`), and for EVERY entry (new, old) of the plan read-fonts' `glyph_name(new)` on the subset is the
original's `glyph_name(old)` when that is defined; when the original has no name for `old` — `old` beyond the
table's numGlyphs, an index ≥ 258 without a readable string (beyond the string list, in or after a truncated
string, a non-ASCII string) — the subset says `.notdef` (index 0).  Duplicate names (two string indices holding
the same name, several glyphs sharing one index) all resolve to that name; names are at most 255 bytes
(Pascal strings), the length byte is never truncated.  Ids of the subset that no kept glyph owns (retain-gids
holes) are `.notdef`.  The `u16` name counter (`i`, wrapping since fix ffa8a1c) never wraps before its last use:
every emitted string needs its own glyphNameIndex value 258..=65535 in the source (`pool_size_bound`). -/
theorem post_v2_glyph_names_preserved (inp : PostIn) (out : Bytes) (hr : PostReq inp)
    (h : subsetPost inp = .ok out) :
    (∀ new old, (new, old) ∈ inp.n2o →
      glyphName out new = some ((glyphName inp.t old).getD notdefName)) ∧
    (∀ new, new < inp.nout → (∀ old, (new, old) ∉ inp.n2o) → glyphName out new = some notdefName) := by
  have hcap : (v2tail inp).strs.length ≤ 65278 := pool_size_bound inp hr.bytes
  obtain ⟨hrd, hout⟩ := subsetPost_v2_ok inp out hr h
  obtain ⟨ro, vo, ng, rarr, rstr⟩ := out_reader inp out hr h
  have hascii : ∀ s ∈ (v2tail inp).strs, isAscii s = true ∧ s.length < 256 := by
    intro s hs
    unfold v2tail at hs
    cases hm : inp.maxOld with
    | none => simp [hm] at hs
    | some m =>
      simp only [hm] at hs
      obtain ⟨_, _, _, _, _, hsrc, _⟩ := runPool_spec (jobs2 (pstrAll (stringData inp.t)) (oldToNew inp.n2o) (indexPairs inp.t m))
        Pool.init poolInv_init
      rcases hsrc s hs with h0 | ⟨new, hj, _⟩
      · simp [Pool.init] at h0
      · obtain ⟨old, ni, _, _, _, hget⟩ := (mem_jobs2 _ _ _ _ _).mp hj
        have hmem : some s ∈ pstrAll (stringData inp.t) := List.mem_of_getElem? hget
        obtain ⟨ha, l, hl, hle⟩ := pstrIter_item _ _ _ hmem
        have : l < 256 := hr.bytes l (List.mem_of_mem_drop hl)
        exact ⟨ha, by omega⟩
  -- the reader on the subset at an id whose array entry is `k`
  have hread : ∀ new k, new < inp.nout → (v2tail inp).arr[new]? = some k → k < 65536 →
      glyphName out new = decodeIdx (v2tail inp).strs k := by
    intro new k hnew hk hk16
    unfold glyphName
    simp only [ro, Bool.not_true, Bool.false_eq_true, if_false, vo]
    simp only [show ¬ (0x00020000 = 0x00010000) by decide, if_false, if_true, ng, hnew]
    have : (v2tail inp).arr.getD new 0 = k := by simp [List.getD_eq_getElem?_getD, hk]
    rw [rarr new hnew, this, Nat.mod_eq_of_lt hk16]
    unfold decodeIdx
    by_cases hs : k < 258
    · simp [hs]
    · simp only [hs, if_false]
      rw [rstr, pstrGet_eq, pstrGetD_enc _ _ hascii]
  constructor
  · intro new old hno
    have hnew : new < inp.nout := hr.plan.bound _ hno
    cases hm : inp.maxOld with
    | none => rw [hr.maxNone hm] at hno; simp at hno
    | some m =>
      obtain ⟨k, hk, hk16, hd⟩ := v2tail_entry inp m hm hr.plan (hr.maxSome m hm) hcap new old hno
      rw [hread new k hnew hk hk16, hd, glyphName_v2 _ hrd hr.ver]
  · intro new hnew hhole
    have hk := v2tail_hole inp hr.plan new hnew hhole
    rw [hread new 0 hnew hk (by omega)]
    simp [decodeIdx, stdNames_zero]

/-- corollary in the form of the property: a defined name is kept -/
theorem post_v2_defined_names_kept (inp : PostIn) (out : Bytes) (hr : PostReq inp)
    (h : subsetPost inp = .ok out)
    (new old : Nat) (hno : (new, old) ∈ inp.n2o) (name : Bytes) (hname : glyphName inp.t old = some name) :
    glyphName out new = some name := by
  rw [(post_v2_glyph_names_preserved inp out hr h).1 new old hno, hname]; rfl

/-- the pool never exceeds what the u16 index space of the source can denote -/
theorem post_v2_name_counter_never_wraps (inp : PostIn) (hb : ∀ b ∈ inp.t, b < 256) :
    (v2tail inp).strs.length ≤ 65536 - 258 := pool_size_bound inp hb

/-- **post_v2_num_glyphs.**  The rebuilt table is readable, says version 2.0, its numGlyphs field is
`num_output_glyphs` and it has exactly that many index entries followed by the string pool. -/
theorem post_v2_num_glyphs (inp : PostIn) (out : Bytes) (hr : PostReq inp) (h : subsetPost inp = .ok out) :
    postReadable out = true ∧ u32At out 0 = 0x00020000 ∧ postNumGlyphs out = inp.nout ∧
    out.length = 34 + 2 * inp.nout + ((v2tail inp).strs.flatMap pstrEnc).length ∧
    out.take 32 = inp.t.take 32 := by
  obtain ⟨hrd, hout⟩ := subsetPost_v2_ok inp out hr h
  obtain ⟨ro, vo, ng, _, _⟩ := out_reader inp out hr h
  have hlen := readable_v2_length inp.t hr.bytes hr.ver hrd
  have hh : (inp.t.take 32).length = 32 := by simp; omega
  obtain ⟨_, _, _, _, l5⟩ := v2bytes_layout (inp.t.take 32) inp.nout (v2tail inp) hh hr.nout (v2tail_arr_length inp)
  refine ⟨ro, vo, ng, by rw [hout]; exact l5, ?_⟩
  rw [hout]
  unfold v2bytes
  rw [List.append_assoc, List.append_assoc, List.take_left' hh]

/-- **post_v2_string_pool_minimal.**  The emitted string pool has no string twice, no string equal to one of
the 258 standard names, and every string is the original name of some kept glyph (hence, by
`post_v2_glyph_names_preserved`, the name of that glyph in the subset): nothing unused is emitted. -/
theorem post_v2_string_pool_minimal (inp : PostIn) (out : Bytes) (hr : PostReq inp)
    (h : subsetPost inp = .ok out) :
    (v2tail inp).strs.Pairwise (· ≠ ·) ∧
    (∀ s ∈ (v2tail inp).strs, s ∉ stdNames) ∧
    (∀ s ∈ (v2tail inp).strs, ∃ new old, (new, old) ∈ inp.n2o ∧ glyphName inp.t old = some s) := by
  obtain ⟨hrd, _⟩ := subsetPost_v2_ok inp out hr h
  unfold v2tail
  cases hm : inp.maxOld with
  | none => simp
  | some m =>
    simp only
    obtain ⟨hinv, _, _, _, _, hsrc, _⟩ := runPool_spec (jobs2 (pstrAll (stringData inp.t)) (oldToNew inp.n2o) (indexPairs inp.t m))
      Pool.init poolInv_init
    refine ⟨hinv.nodup, fun s hs => indexIn_none.mp (hinv.nostd s hs), ?_⟩
    intro s hs
    rcases hsrc s hs with h0 | ⟨new, hj, _⟩
    · simp [Pool.init] at h0
    · obtain ⟨old, ni, hp, hge, hg, hget⟩ := (mem_jobs2 _ _ _ _ _).mp hj
      refine ⟨new, old, (oldToNew_iff hr.plan _ _).mp hg, ?_⟩
      obtain ⟨hin, _, hni⟩ := (mem_indexPairs _ _ _ _).mp hp
      rw [glyphName_v2 _ hrd hr.ver]
      unfold origName?
      simp only [hin, if_true, ← hni, hge, if_false, hget, Option.join]
      rfl

/-- the converse direction of minimality: a kept glyph's custom (non-standard) name is in the pool -/
theorem post_v2_custom_names_in_pool (inp : PostIn) (out : Bytes) (hr : PostReq inp)
    (h : subsetPost inp = .ok out) (new old : Nat) (hno : (new, old) ∈ inp.n2o) (name : Bytes)
    (hidx : ¬ u16At inp.t (34 + 2 * old) < 258) (hname : glyphName inp.t old = some name) (hstd : name ∉ stdNames) :
    name ∈ (v2tail inp).strs := by
  obtain ⟨hrd, _⟩ := subsetPost_v2_ok inp out hr h
  rw [glyphName_v2 _ hrd hr.ver] at hname
  unfold origName? at hname
  by_cases hin : old < postNumGlyphs inp.t
  · simp only [hin, if_true, hidx, if_false] at hname
    cases hm : inp.maxOld with
    | none => rw [hr.maxNone hm] at hno; simp at hno
    | some m =>
      unfold v2tail
      simp only [hm]
      obtain ⟨_, _, _, _, _, _, hin2⟩ := runPool_spec (jobs2 (pstrAll (stringData inp.t)) (oldToNew inp.n2o) (indexPairs inp.t m))
        Pool.init poolInv_init
      apply hin2 new name
      · refine (mem_jobs2 _ _ _ _ _).mpr ⟨old, _, (mem_indexPairs _ _ _ _).mpr ⟨hin, hr.maxSome m hm _ hno, rfl⟩, hidx,
          (oldToNew_iff hr.plan _ _).mpr hno, ?_⟩
        cases hg : (pstrAll (stringData inp.t))[u16At inp.t (34 + 2 * old) - 258]? with
        | none => simp [hg, Option.join] at hname
        | some item =>
          cases item with
          | none => simp [hg, Option.join] at hname
          | some nm => simp [hg, Option.join] at hname; rw [hname]
      · exact indexIn_none.mpr hstd
  · simp [hin] at hname

/-- **post_non_glyph_names_is_v3_header.**  Without GLYPH_NAMES every readable post table (any version) becomes
its 32 header bytes with the version replaced by 3.0 and the other 28 bytes unchanged; read-fonts reads no glyph
name from it. -/
theorem post_non_glyph_names_is_v3_header (inp : PostIn) (out : Bytes)
    (hflag : hasFlag inp.flags F_GLYPH_NAMES = false) (h : subsetPost inp = .ok out) :
    out.length = 32 ∧ out.take 4 = [0, 3, 0, 0] ∧ out.drop 4 = (inp.t.take 32).drop 4 ∧
    ∀ gid, glyphName out gid = none := by
  unfold subsetPost at h
  by_cases hrd : postReadable inp.t = true
  · simp only [hrd, Bool.not_true, Bool.false_eq_true, if_false, hflag, false_and] at h
    simp only [Except.ok.injEq] at h
    have hlen : 32 ≤ inp.t.length := by
      unfold postReadable at hrd
      split at hrd <;> simp only [decide_eq_true_eq] at hrd <;> omega
    have hh : (inp.t.take 32).length = 32 := by simp; omega
    subst h
    unfold patch
    refine ⟨by simp; omega, by simp, ?_, ?_⟩
    · simp only [List.take_zero, List.nil_append, List.length_cons, List.length_nil, Nat.zero_add]
      rfl
    · intro gid
      apply glyphName_other_version
      · simp [u32At, SubsetGvar.u32At]
      · simp [u32At, SubsetGvar.u32At]
  · simp [hrd] at h


/-! ## the plan hypotheses are what `Plan::new` produces -/

/-- **plan_hypotheses_hold.**  For every plan `Plan::new` builds (C17 `glyph_map_monotone_bijection`), with and
without retain-gids: the new→old list is strictly monotone in both components (`PlanMono`, hence `PlanOk`),
every new id is below `num_output_glyphs`, `plan.glyphset.last()` bounds every kept old id and is `None` only
when nothing is kept — the hypotheses of the theorems in this file. -/
theorem plan_hypotheses_hold (p : PlanIn) (pl : Plan) (h : makePlan p = some pl) (hn : p.num ≤ 65536) :
    PlanMono pl.n2o ∧ (∀ no ∈ pl.n2o, no.1 < pl.nout) ∧
    (∀ m, pl.glyphset.getLast? = some m → ∀ no ∈ pl.n2o, no.2 ≤ m) ∧
    (pl.glyphset.getLast? = none → pl.n2o = []) := by
  obtain ⟨hsorted, hren, hret⟩ := C17.glyph_map_monotone_bijection p pl h hn
  have holds : pl.n2o.map (·.2) = pl.glyphset := by
    cases hf : hasFlag p.flags F_RETAIN_GIDS with
    | false => exact (hren hf).2.1
    | true => rw [(hret hf).1]; simp [List.map_map, Function.comp_def]
  have hmono : PlanMono pl.n2o := by
    unfold PlanMono
    cases hf : hasFlag p.flags F_RETAIN_GIDS with
    | false =>
      obtain ⟨h1, h2, _⟩ := hren hf
      have a : pl.n2o.Pairwise (fun a b => a.1 < b.1) := by
        rw [← List.pairwise_map (f := fun x : Nat × Nat => x.1) (R := (· < ·)), h1]; exact List.pairwise_lt_range
      have b : pl.n2o.Pairwise (fun a b => a.2 < b.2) := by
        rw [← List.pairwise_map (f := fun x : Nat × Nat => x.2) (R := (· < ·)), h2]; exact hsorted
      exact a.and b
    | true =>
      rw [(hret hf).1, List.pairwise_map]
      exact hsorted.imp (fun h => ⟨h, h⟩)
  have hbound : ∀ no ∈ pl.n2o, no.1 < pl.nout := by
    intro no hno
    cases hf : hasFlag p.flags F_RETAIN_GIDS with
    | false =>
      obtain ⟨h1, _, h3⟩ := hren hf
      have : no.1 ∈ pl.n2o.map (·.1) := List.mem_map_of_mem hno
      rw [h1] at this
      rw [h3]; simpa using this
    | true =>
      obtain ⟨h1, h2⟩ := hret hf
      rw [h1] at hno
      simp only [List.mem_map] at hno
      obtain ⟨g, hg, rfl⟩ := hno
      exact h2 g hg
  refine ⟨hmono, hbound, ?_, ?_⟩
  · intro m hm no hno
    have : no.2 ∈ pl.glyphset := by rw [← holds]; exact List.mem_map_of_mem hno
    obtain ⟨m', hm', hle⟩ := pairwise_lt_le_getLast hsorted this
    rw [hm] at hm'; cases hm'; exact hle
  · intro hnone
    have : pl.glyphset = [] := by
      cases hg : pl.glyphset with
      | nil => rfl
      | cons a tl => rw [hg] at hnone; simp [List.getLast?_cons] at hnone
    rw [this] at holds
    exact List.map_eq_nil_iff.mp holds

/-! ## maxp -/

/-- the version 1.0 + NO_HINTING rewrite applies -/
def maxpDropsHints (flags : Nat) (d : Bytes) : Prop :=
  u16At d 0 * 65536 + u16At d 2 = 0x00010000 ∧ hasFlag flags F_NO_HINTING = true

instance (flags : Nat) (d : Bytes) : Decidable (maxpDropsHints flags d) := by unfold maxpDropsHints; infer_instance

/-- **maxp_num_glyphs_and_copied_bytes.**  `Maxp::subset`: the output has the source's length, its numGlyphs
field reads `min(num_output_glyphs, 0xFFFF)`, and EVERY other byte is the source's byte — except, for a version
1.0 table under NO_HINTING, exactly the fourteen bytes 14..28 of the seven hinting limits, which read maxZones = 1
and maxTwilightPoints = maxStorage = maxFunctionDefs = maxInstructionDefs = maxStackElements =
maxSizeOfInstructions = 0.
Note: maxPoints, maxContours, maxCompositePoints, maxCompositeContours, maxComponentElements and
maxComponentDepth are COPIED, not recomputed for the kept glyphs (see `maxp_limits_still_bound`). -/
theorem maxp_num_glyphs_and_copied_bytes (flags nout : Nat) (d out : Bytes) (h : subsetMaxp flags nout d = some out) :
    out.length = d.length ∧ maxpNumGlyphs out = min nout 0xFFFF ∧
    (∀ i, i ≠ 4 → i ≠ 5 → (maxpDropsHints flags d → i < 14 ∨ 28 ≤ i) → out[i]? = d[i]?) ∧
    (maxpDropsHints flags d →
      u16At out 14 = 1 ∧ u16At out 16 = 0 ∧ u16At out 18 = 0 ∧ u16At out 20 = 0 ∧ u16At out 22 = 0 ∧
      u16At out 24 = 0 ∧ u16At out 26 = 0) := by
  unfold subsetMaxp at h
  simp only at h
  split at h
  · cases h
  rename_i hlen
  have hmin : min nout 0xFFFF < 65536 := by omega
  split at h
  · rename_i hv
    simp only [Option.some.injEq] at h
    have hl : 32 ≤ d.length := by
      by_cases h32 : d.length < 32
      · exact absurd (Or.inr ⟨hv.1, h32⟩) hlen
      · omega
    subst h
    refine ⟨by simp [setU16_length], ?_, ?_, ?_⟩
    · unfold maxpNumGlyphs
      repeat rw [u16At_setU16_ne _ _ _ _ (by omega)]
      exact u16At_setU16 _ _ _ hmin (by omega)
    · intro i h4 h5 hr
      have hr' := hr ⟨hv.1, hv.2⟩
      repeat rw [setU16_getElem?_ne _ _ _ _ (by omega) (by omega)]
    · intro _
      refine ⟨?_, ?_, ?_, ?_, ?_, ?_, ?_⟩
      · repeat rw [u16At_setU16_ne _ _ _ _ (by omega)]
        exact u16At_setU16 _ _ _ (by omega) (by simp [setU16_length]; omega)
      · repeat rw [u16At_setU16_ne _ _ _ _ (by omega)]
        exact u16At_setU16 _ _ _ (by omega) (by simp [setU16_length]; omega)
      · repeat rw [u16At_setU16_ne _ _ _ _ (by omega)]
        exact u16At_setU16 _ _ _ (by omega) (by simp [setU16_length]; omega)
      · repeat rw [u16At_setU16_ne _ _ _ _ (by omega)]
        exact u16At_setU16 _ _ _ (by omega) (by simp [setU16_length]; omega)
      · repeat rw [u16At_setU16_ne _ _ _ _ (by omega)]
        exact u16At_setU16 _ _ _ (by omega) (by simp [setU16_length]; omega)
      · repeat rw [u16At_setU16_ne _ _ _ _ (by omega)]
        exact u16At_setU16 _ _ _ (by omega) (by simp [setU16_length]; omega)
      · exact u16At_setU16 _ _ _ (by omega) (by simp [setU16_length]; omega)
  · rename_i hv
    simp only [Option.some.injEq] at h
    subst h
    have hl : 6 ≤ d.length := by
      by_cases h6 : d.length < 6
      · exact absurd (Or.inl h6) hlen
      · omega
    refine ⟨by simp [setU16_length], ?_, ?_, ?_⟩
    · exact u16At_setU16 _ _ _ hmin (by omega)
    · intro i h4 h5 _
      exact setU16_getElem?_ne _ _ _ _ h4 (by omega)
    · intro hd; exact absurd ⟨hd.1, hd.2⟩ hv

/-- **maxp_limits_still_bound.**  The six outline limits (maxPoints @6, maxContours @8, maxCompositePoints @10,
maxCompositeContours @12, maxComponentElements @28, maxComponentDepth @30) of a version 1.0 table are copied
unchanged, so whatever statistic they bounded over ALL glyphs of the source they still bound over any kept SUBSET
of those glyphs ("a maximum over a sublist is at most the maximum over the list").  The limits may thus be larger
than necessary; that the statistic of a kept glyph is the same in the subset as in the source is not part of this
statement (the harness recomputes it on the real subset: oracle `maxp-limits-still-bound-kept-glyphs`). -/
theorem maxp_limits_still_bound (flags nout : Nat) (d out : Bytes) (h : subsetMaxp flags nout d = some out)
    (field : Nat) (hf : field ∈ [6, 8, 10, 12, 28, 30])
    (stat : Nat → Nat) (all kept : List Nat) (hsub : ∀ g ∈ kept, g ∈ all)
    (hbound : ∀ g ∈ all, stat g ≤ u16At d field) :
    u16At out field = u16At d field ∧ ∀ g ∈ kept, stat g ≤ u16At out field := by
  obtain ⟨_, _, hcopy, _⟩ := maxp_num_glyphs_and_copied_bytes flags nout d out h
  have hfield : u16At out field = u16At d field := by
    simp only [List.mem_cons, List.not_mem_nil, or_false] at hf
    simp only [u16At, List.getD_eq_getElem?_getD]
    rw [hcopy field (by omega) (by omega) (fun _ => by omega),
        hcopy (field + 1) (by omega) (by omega) (fun _ => by omega)]
  exact ⟨hfield, fun g hg => by rw [hfield]; exact hbound g (hsub g hg)⟩

example : subsetMaxp 1 3 ([0, 1, 0, 0, 0, 9] ++ List.replicate 26 5) =
    some ([0, 1, 0, 0, 0, 3] ++ List.replicate 8 5 ++ [0, 1] ++ List.replicate 12 0 ++ List.replicate 4 5) := by decide

/-! ## head, hhea -/

/-- **head_only_loca_format_changed.**  `subset_head` (head of a glyf font): same length, indexToLocFormat reads
the format `write_glyf_loca` was run with, every byte other than 50 and 51 is the source's.  (checkSumAdjustment
at 8..12 is later recomputed for the new file by write-fonts' `FontBuilder::build`, outside klippa.)  A head
table shorter than 54 bytes is not readable (`font.head()`): `Glyf::subset` fails with it and glyf, loca and
head are all absent from the subset.  Without a glyf table `Head::subset` copies the table unchanged. -/
theorem head_only_loca_format_changed (head out : Bytes) (fmt : Nat) (hfmt : fmt < 256)
    (h : subsetHead head fmt = some out) :
    out.length = head.length ∧ headLocFormat out = fmt ∧ ∀ i, i ≠ 50 → i ≠ 51 → out[i]? = head[i]? := by
  unfold subsetHead at h
  split at h
  · cases h
  rename_i hl
  simp only [Option.some.injEq] at h
  subst h
  refine ⟨by simp, ?_, ?_⟩
  · simp only [headLocFormat, u16At, List.getD_eq_getElem?_getD, List.getElem?_set]
    simp [show 50 < head.length by omega, show 51 < head.length by omega]
  · intro i h50 h51
    simp only [List.getElem?_set]
    rw [if_neg (fun e => h51 e.symm), if_neg (fun e => h50 e.symm)]

/-- the format the head receives is the one `write_glyf_loca` encoded the loca table with -/
theorem head_format_is_loca_format (head out : Bytes) (nout : Nat) (news : List Nat) (gs : List Bytes)
    (h : subsetHead head (writeGlyfLoca nout news gs).fmt = some out) :
    headLocFormat out = (writeGlyfLoca nout news gs).fmt ∧
    (headLocFormat out = 0 ↔ (gs.map (fun g => paddedSize g.length)).sum < 0x1FFFF) := by
  have hlt : (writeGlyfLoca nout news gs).fmt < 256 := by
    unfold writeGlyfLoca; simp only; split <;> omega
  obtain ⟨_, hf, _⟩ := head_only_loca_format_changed head out _ hlt h
  refine ⟨hf, ?_⟩
  rw [hf]
  unfold writeGlyfLoca
  simp only
  split <;> simp_all

theorem head_no_glyf_unchanged (head out : Bytes) (h : subsetHeadNoGlyf head = some out) : out = head := by
  unfold subsetHeadNoGlyf at h
  split at h
  · cases h
  · simp only [Option.some.injEq] at h; exact h.symm

/-- **hhea_only_num_h_metrics_changed.**  The hhea tail of `Hmtx::subset`: same length, numberOfHMetrics reads
`new_num_h_metrics as u16`, every byte other than 34 and 35 is the source's.  The `unwrap()` on
`get_mut(34..36)` cannot fail: `font.hhea()` only succeeds on at least 36 bytes (and `font.hmtx()`, which comes
first, needs a readable hhea). -/
theorem hhea_only_num_h_metrics_changed (hhea out : Bytes) (numH : Nat) (h : subsetHhea hhea numH = some out) :
    out.length = hhea.length ∧ hheaNumH out = numH % 65536 ∧ ∀ i, i ≠ 34 → i ≠ 35 → out[i]? = hhea[i]? := by
  unfold subsetHhea at h
  split at h
  · cases h
  rename_i hl
  simp only [Option.some.injEq] at h
  subst h
  exact ⟨setU16_length _ _ _, u16At_setU16 _ _ _ (Nat.mod_lt _ (by omega)) (by omega),
    fun i h1 h2 => setU16_getElem?_ne _ _ _ _ h1 h2⟩

/-- **hhea_num_h_metrics_is_hmtx_split.**  Link to `C17.hmtx_preserved`: the numberOfHMetrics stored in the
subset's hhea is the `numH` = number of long metrics `Hmtx::subset` laid the subset's hmtx out with, so a reader
that splits hmtx by hhea.numberOfHMetrics (read-fonts `TableProvider::hmtx`) reads exactly the `longs` / `lsbs`
arrays `hmtx_preserved` speaks about, whose byte image has the length that split needs. -/
theorem hhea_num_h_metrics_is_hmtx_split (longs : List (Nat × Nat)) (lsbs : List Nat) (n2o : List (Nat × Nat))
    (nout : Nat) (o : HmtxOut) (h : subsetHmtx longs lsbs n2o nout = .ok o) (hn : nout ≤ 0xFFFF)
    (hhea out : Bytes) (hh : subsetHhea hhea o.numH = some out) :
    hheaNumH out = o.longs.length ∧ o.longs.length + o.lsbs.length = nout ∧
    o.bytes.length = 4 * hheaNumH out + 2 * (nout - hheaNumH out) := by
  obtain ⟨_, hnum, _⟩ := hhea_only_num_h_metrics_changed hhea out o.numH hh
  unfold subsetHmtx at h
  split at h
  · cases h
  split at h
  · cases h
  simp only at h
  split at h
  · cases h
  simp only [Except.ok.injEq] at h
  have hle : newNumHMetrics longs n2o nout ≤ nout := by
    unfold newNumHMetrics; simp only
    exact Nat.le_trans (trimMetrics_le _ _ _) (Nat.min_le_left _ _)
  subst h
  simp only [List.length_map, List.length_range] at hnum ⊢
  have hm : newNumHMetrics longs n2o nout % 65536 = newNumHMetrics longs n2o nout := Nat.mod_eq_of_lt (by omega)
  rw [hnum, hm]
  refine ⟨rfl, by omega, ?_⟩
  unfold HmtxOut.bytes
  rw [List.length_append, flatMap_const_length _ _ 4 (fun _ => rfl), flatMap_const_length _ _ 2 (fun _ => rfl)]
  simp only [List.length_map, List.length_range]


example : subsetHead (List.replicate 54 9) 1 = some (List.replicate 50 9 ++ [0, 1] ++ List.replicate 2 9) ∧
    subsetHead (List.replicate 53 9) 1 = none := by decide
example : subsetHhea (List.replicate 36 9) 5 = some (List.replicate 34 9 ++ [0, 5]) ∧
    subsetHhea (List.replicate 35 9) 5 = none := by decide

/-! ## VORG -/

/-- **vorg_origin_preserved.**  `Vorg::subset` keeps the records of kept glyphs in SOURCE order with the new
glyph index.  With the plan's strictly monotone renumbering (`PlanMono`, C17 `glyph_map_monotone_bijection`) and
a source table sorted by glyph index (what `Vorg::vertical_origin_y`'s binary search presupposes), the emitted
table is readable, is STILL sorted by glyph index, keeps defaultVertOriginY, and for every kept glyph
`vertical_origin_y(subset, new) = vertical_origin_y(original, old)` — the record's value if the glyph is listed,
the default otherwise.  `count: u16` cannot overflow (at most 65535 source records). -/
theorem vorg_origin_preserved (n2o : List (Nat × Nat)) (srcGlyphs nout : Nat) (t out : Bytes)
    (hb : ∀ b ∈ t, b < 256) (hmono : PlanMono n2o) (hbound : ∀ no ∈ n2o, no.1 < nout) (hn : nout ≤ 65536)
    (hsorted : ((vorgRecords t).map (·.1)).Pairwise (· < ·))
    (h : subsetVorg n2o srcGlyphs nout t = .ok out) :
    vorgReadable out = true ∧
    ((vorgRecords out).map (·.1)).Pairwise (· < ·) ∧
    u16At out 4 = u16At t 4 ∧
    (∀ new old, (new, old) ∈ n2o →
      vorgOriginY out new = vorgOriginY t old ∧
      vorgOriginY t old = some (vorgLookup (vorgRecords t) old (u16At t 4))) := by
  obtain ⟨hr, hout⟩ := subsetVorg_ok n2o srcGlyphs nout t out h
  have hok := planMono_ok hmono hbound
  have hlen : 8 ≤ t.length := by
    unfold vorgReadable at hr
    simp only [Bool.and_eq_true, decide_eq_true_eq] at hr; exact hr.1
  have hh : (t.take 6).length = 6 := by simp; omega
  have hrecs : (vorgRecords t).length < 65536 := by
    unfold vorgRecords; simp only [List.length_map, List.length_range]; exact u16At_lt t hb 6
  have hc : (vorgKept (oldToNew n2o) (vorgRecords t)).length < 65536 :=
    Nat.lt_of_le_of_lt (List.length_filterMap_le _ _) hrecs
  have hv : ∀ r ∈ vorgKept (oldToNew n2o) (vorgRecords t), r.1 < 65536 ∧ r.2 < 65536 := by
    intro r hr'
    unfold vorgKept at hr'
    simp only [List.mem_filterMap] at hr'
    obtain ⟨x, hx, hx2⟩ := hr'
    split at hx2
    · cases hx2
    · simp only [Option.some.injEq] at hx2
      subst hx2
      refine ⟨Nat.mod_lt _ (by omega), ?_⟩
      unfold vorgRecords at hx
      simp only [List.mem_map, List.mem_range] at hx
      obtain ⟨k, _, rfl⟩ := hx
      exact u16At_lt t hb _
  obtain ⟨r1, r2, r3⟩ := vorgOut_reader (t.take 6) _ hh hc hv
  rw [← hout] at r1 r2 r3
  have hks := vorgKept_sorted hmono hbound hn (vorgRecords t) hsorted
  refine ⟨r1, by rw [r2]; exact hks, by rw [r3, u16At_take _ _ _ (by omega)], ?_⟩
  intro new old hno
  have hg : oldToNew n2o old = some new := (oldToNew_iff hok old new).mpr hno
  have e1 : vorgOriginY t old = some (vorgLookup (vorgRecords t) old (u16At t 4)) := by
    unfold vorgOriginY
    simp only [hr, Bool.not_true, Bool.false_eq_true, if_false]
    have := vorgSearch_sorted (vorgRecords t) hsorted old (u16At t 4)
    rw [← this]
    cases Layout.binarySearchBy (vorgRecords t).length (fun i => Layout.natCmp ((vorgRecords t).getD i (0, 0)).1 old) <;> rfl
  have e2 : vorgOriginY out new = some (vorgLookup (vorgRecords out) new (u16At out 4)) := by
    unfold vorgOriginY
    simp only [r1, Bool.not_true, Bool.false_eq_true, if_false]
    have := vorgSearch_sorted (vorgRecords out) (by rw [r2]; exact hks) new (u16At out 4)
    rw [← this]
    cases Layout.binarySearchBy (vorgRecords out).length (fun i => Layout.natCmp ((vorgRecords out).getD i (0, 0)).1 new) <;> rfl
  refine ⟨?_, e1⟩
  rw [e2, e1, r2, r3, u16At_take _ _ _ (by omega), vorgLookup_kept hok hn new old _ hg]

/-- non-vacuity: records for glyphs 1 and 3, glyphs 0 and 3 kept -/
example : (subsetVorg [(0, 0), (1, 3)] 4 2 [0, 1, 0, 0, 3, 112, 0, 2, 0, 1, 3, 99, 0, 3, 3, 56]).toOption =
    some [0, 1, 0, 0, 3, 112, 0, 1, 0, 1, 3, 56] ∧
    vorgOriginY [0, 1, 0, 0, 3, 112, 0, 1, 0, 1, 3, 56] 1 = some 824 ∧
    vorgOriginY [0, 1, 0, 0, 3, 112, 0, 2, 0, 1, 3, 99, 0, 3, 3, 56] 3 = some 824 := by decide +kernel

/-! ## vmtx / vhea: passed through -/

/-- **vmtx_passthrough_reads_new_id.**  At this commit klippa has no vmtx subsetter: `subset_table` copies vmtx and
vhea byte for byte.  Reading the subset's vertical metrics at a NEW glyph id therefore answers the ORIGINAL
table at that same numeric id — the metrics of whatever glyph had that id before, not those of the kept glyph
(`old`), unless the plan did not renumber it.  This is the model side of known finding
`C17-vmtx-not-subset`; the harness oracle `vmtx-vertical-metrics-preserved` shows it on the real code. -/
theorem vmtx_passthrough_reads_new_id (t : Bytes) (numLong numGlyphs : Nat) (longs : List (Nat × Nat)) (tsbs : List Nat)
    (h : metricsOf t numLong numGlyphs = some (longs, tsbs)) (new : Nat) :
    passthrough t = t ∧
    ∃ longs' tsbs', metricsOf (passthrough t) numLong numGlyphs = some (longs', tsbs') ∧
      hmtxAdvance longs' new = hmtxAdvance longs new ∧ hmtxLsb longs' tsbs' new = hmtxLsb longs tsbs new :=
  ⟨rfl, longs, tsbs, h, rfl, rfl⟩

/-- concrete instance of the finding: 3 glyphs with advances 1000 / 1001 / 1002, glyphs 0 and 2 kept and
renumbered 0, 1: the subset reports 1001 (old glyph 1's advance) for new glyph 1 instead of 1002 -/
example : metricsOf (passthrough [3, 232, 0, 10, 3, 233, 0, 11, 3, 234, 0, 12]) 3 3 =
      some ([(1000, 10), (1001, 11), (1002, 12)], []) ∧
    hmtxAdvance [(1000, 10), (1001, 11), (1002, 12)] 1 = some 1001 ∧
    hmtxAdvance [(1000, 10), (1001, 11), (1002, 12)] 2 = some 1002 := by decide

/-- non-vacuity: a version 2.0 table with 3 glyphs (`.notdef`; custom "x"; custom "ab" = the third string, the
second string is empty and unused) subset to glyphs 0 and 2 -/
def exTable : Bytes :=
  [0, 2, 0, 0] ++ List.replicate 28 7 ++ [0, 3] ++ [0, 0, 1, 2, 1, 4] ++ [1, 120] ++ [0] ++ [2, 97, 98]
def exIn : PostIn := { flags := 0x80, nout := 2, maxOld := some 2, n2o := [(0, 0), (1, 2)], srcGlyphs := 3, t := exTable }
def exIn0 : PostIn := { flags := 0, nout := 2, maxOld := some 2, n2o := [(0, 0), (1, 2)], srcGlyphs := 3, t := exTable }
def exOut : Bytes := [0, 2, 0, 0] ++ List.replicate 28 7 ++ [0, 2] ++ [0, 0, 1, 2] ++ [2, 97, 98]

set_option maxRecDepth 100000 in
example : PostReq exIn := by
  refine ⟨by decide +kernel, by decide +kernel, by decide +kernel,
    ⟨by decide +kernel, by decide +kernel, by decide +kernel⟩, by decide +kernel, ?_, by simp [exIn]⟩
  intro m hm no hno
  simp only [exIn, Option.some.injEq] at hm
  subst hm
  simp only [exIn, List.mem_cons, List.not_mem_nil, or_false] at hno
  rcases hno with rfl | rfl <;> decide

set_option maxRecDepth 100000 in
example : (subsetPost exIn).toOption = some exOut ∧ glyphName exOut 1 = some [97, 98] ∧ glyphName exTable 2 = some [97, 98] ∧
    (v2tail exIn).strs = [[97, 98]] := by decide +kernel

set_option maxRecDepth 100000 in
example : (subsetPost exIn0).toOption = some ([0, 3, 0, 0] ++ List.replicate 28 7) := by decide +kernel

end FontVerif.C17Post
