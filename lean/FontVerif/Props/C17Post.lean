/-
C17 — "post part" (theorems): the `post` version 2.0 rebuild, maxp / head / hhea, VORG, vmtx pass-through.
See reports/C17.md.

Model: `FontVerif.SubsetPost` (klippa/src/post.rs after repairs 4f39551, d201e53, ffa8a1c; head.rs;
glyf_loca.rs `subset_head`; hmtx.rs hhea tail; vorg.rs; lib.rs dispatch) and `Subset.subsetMaxp` (maxp.rs), tied to
the real code by the `post2*` / `head` / `hhea` / `maxp2` / `vorg*` / `vmtx` correspondence groups of
harness/src/bin/c17/postx.rs.  Readers: read-fonts `Post::read` / `Post::glyph_name` (`glyphName`),
`VarLenArray::get` / `iter` (`pstrGet` / `pstrAll`), `Vorg::vertical_origin_y` (`vorgOriginY`), `hmtx::advance` /
`side_bearing` (`Subset.hmtxAdvance` / `hmtxLsb`, shared by hmtx and vmtx).
-/
import FontVerif.Lemmas.SubsetPost
import FontVerif.Lemmas.Layout
set_option linter.unusedVariables false
namespace FontVerif.C17Post
open FontVerif FontVerif.Subset FontVerif.SubsetMeta FontVerif.SubsetPost

/-! ## post -/

/-- What `Plan::new` guarantees about the request a `post` version 2.0 table is rebuilt for (see
`C17.glyph_map_monotone_bijection`: new ids pairwise distinct, old ids pairwise distinct, every new id below
`num_output_glyphs`; `plan.glyphset.last()` bounds every kept glyph and is `None` only for an empty glyph set),
plus: GLYPH_NAMES requested, the table says version 2.0, its bytes are bytes, fewer than 65536 output glyphs. -/
structure PostReq (inp : PostIn) : Prop where
  flag : hasFlag inp.flags F_GLYPH_NAMES = true
  ver : u32At inp.t 0 = 0x00020000
  bytes : ∀ b ∈ inp.t, b < 256
  plan : PlanOk inp.n2o inp.nout
  nout : inp.nout < 65536
  maxSome : ∀ m, inp.maxOld = some m → ∀ no ∈ inp.n2o, no.2 ≤ m
  maxNone : inp.maxOld = none → inp.n2o = []

/-- the shape of a successful version 2.0 rebuild -/
theorem subsetPost_v2_ok (inp : PostIn) (out : Bytes) (hr : PostReq inp) (h : subsetPost inp = .ok out) :
    postReadable inp.t = true ∧ out = v2bytes (inp.t.take 32) inp.nout (v2tail inp) := by
  unfold subsetPost at h
  by_cases hrd : postReadable inp.t = true
  · simp only [hrd, Bool.not_true, Bool.false_eq_true, if_false, hr.flag, hr.ver, and_self, if_true] at h
    split at h
    · cases h
    split at h
    · cases h
    split at h
    · cases h
    · simp only [Except.ok.injEq] at h
      exact ⟨hrd, h.symm⟩
  · simp [hrd] at h

/-- the source table of a successful rebuild has its 34 header bytes -/
theorem readable_v2_length (t : Bytes) (hb : ∀ b ∈ t, b < 256) (hv : u32At t 0 = 0x00020000)
    (hr : postReadable t = true) : 34 + 2 * postNumGlyphs t ≤ t.length := by
  have := (version_bytes t hb hv).1
  unfold postReadable hasV2Fields at hr
  simp only [this, beq_self_eq_true, if_true, decide_eq_true_eq] at hr
  exact hr

/-- what the reader sees in the rebuilt table -/
theorem out_reader (inp : PostIn) (out : Bytes) (hr : PostReq inp) (h : subsetPost inp = .ok out) :
    postReadable out = true ∧ u32At out 0 = 0x00020000 ∧ postNumGlyphs out = inp.nout ∧
    (∀ i, i < inp.nout → u16At out (34 + 2 * i) = (v2tail inp).arr.getD i 0 % 65536) ∧
    stringData out = (v2tail inp).strs.flatMap pstrEnc := by
  obtain ⟨hrd, hout⟩ := subsetPost_v2_ok inp out hr h
  have hlen := readable_v2_length inp.t hr.bytes hr.ver hrd
  have hh : (inp.t.take 32).length = 32 := by simp; omega
  obtain ⟨l1, l2, l3, l4, l5⟩ := v2bytes_layout (inp.t.take 32) inp.nout (v2tail inp) hh hr.nout (v2tail_arr_length inp)
  obtain ⟨v0, v2⟩ := version_bytes inp.t hr.bytes hr.ver
  have h0 : u16At out 0 = 2 := by rw [hout, l1 0 (by omega), u16At_take _ _ _ (by omega)]; exact v0
  have h2 : u16At out 2 = 0 := by rw [hout, l1 2 (by omega), u16At_take _ _ _ (by omega)]; exact v2
  have hng : postNumGlyphs out = inp.nout := by unfold postNumGlyphs; rw [hout]; exact l2
  refine ⟨?_, ?_, hng, ?_, ?_⟩
  · unfold postReadable hasV2Fields
    simp only [h0, beq_self_eq_true, if_true, decide_eq_true_eq, hng]
    rw [hout, l5]; omega
  · rw [u32At_eq, h0, h2]
  · intro i hi; rw [hout]; exact l3 i hi
  · unfold stringData; rw [hng, hout]; exact l4

/-- **post_v2_glyph_names_preserved.**  GLYPH_NAMES, version 2.0, a successful `Post::subset`, and fewer than
65536 − 258 + 1 distinct custom names among the kept glyphs (`hcap`; the counter wraps beyond — the source table
cannot denote more, each name needing its own u16 index ≥ 258).  Then the emitted table is readable, is
version 2.0, and for EVERY entry (new, old) of the plan read-fonts' `glyph_name(new)` on the subset is the
original's `glyph_name(old)` when that is defined; when the original has no name for `old` — `old` beyond the
table's numGlyphs, an index ≥ 258 without a readable string (beyond the string list, in or after a truncated
string, a non-ASCII string) — the subset says `.notdef` (index 0).  Duplicate names (two string indices holding
the same name, several glyphs sharing one index) all resolve to that name; names are at most 255 bytes
(Pascal strings), the length byte is never truncated.  Ids of the subset that no kept glyph owns (retain-gids
holes) are `.notdef`. -/
theorem post_v2_glyph_names_preserved (inp : PostIn) (out : Bytes) (hr : PostReq inp)
    (h : subsetPost inp = .ok out) (hcap : (v2tail inp).strs.length ≤ 65278) :
    (∀ new old, (new, old) ∈ inp.n2o →
      glyphName out new = some ((glyphName inp.t old).getD notdefName)) ∧
    (∀ new, new < inp.nout → (∀ old, (new, old) ∉ inp.n2o) → glyphName out new = some notdefName) := by
  obtain ⟨hrd, hout⟩ := subsetPost_v2_ok inp out hr h
  obtain ⟨ro, vo, ng, rarr, rstr⟩ := out_reader inp out hr h
  have hascii : ∀ s ∈ (v2tail inp).strs, isAscii s = true ∧ s.length < 256 := by
    intro s hs
    unfold v2tail at hs
    cases hm : inp.maxOld with
    | none => simp [hm] at hs
    | some m =>
      simp only [hm] at hs
      obtain ⟨_, _, _, _, _, hsrc, _⟩ := runPool_spec (jobs2 (pstrAll (stringData inp.t)) (oldToNew inp.n2o) (indexPairs inp.t m))
        Pool.init poolInv_init
      rcases hsrc s hs with h0 | ⟨new, hj, _⟩
      · simp [Pool.init] at h0
      · obtain ⟨old, ni, _, _, _, hget⟩ := (mem_jobs2 _ _ _ _ _).mp hj
        have hmem : some s ∈ pstrAll (stringData inp.t) := List.mem_of_getElem? hget
        obtain ⟨ha, l, hl, hle⟩ := pstrIter_item _ _ _ hmem
        have : l < 256 := hr.bytes l (List.mem_of_mem_drop hl)
        exact ⟨ha, by omega⟩
  -- the reader on the subset at an id whose array entry is `k`
  have hread : ∀ new k, new < inp.nout → (v2tail inp).arr[new]? = some k → k < 65536 →
      glyphName out new = decodeIdx (v2tail inp).strs k := by
    intro new k hnew hk hk16
    unfold glyphName
    simp only [ro, Bool.not_true, Bool.false_eq_true, if_false, vo]
    simp only [show ¬ (0x00020000 = 0x00010000) by decide, if_false, if_true, ng, hnew]
    have : (v2tail inp).arr.getD new 0 = k := by simp [List.getD_eq_getElem?_getD, hk]
    rw [rarr new hnew, this, Nat.mod_eq_of_lt hk16]
    unfold decodeIdx
    by_cases hs : k < 258
    · simp [hs]
    · simp only [hs, if_false]
      rw [rstr, pstrGet_eq, pstrGetD_enc _ _ hascii]
  constructor
  · intro new old hno
    have hnew : new < inp.nout := hr.plan.bound _ hno
    cases hm : inp.maxOld with
    | none => rw [hr.maxNone hm] at hno; simp at hno
    | some m =>
      obtain ⟨k, hk, hk16, hd⟩ := v2tail_entry inp m hm hr.plan (hr.maxSome m hm) hcap new old hno
      rw [hread new k hnew hk hk16, hd, glyphName_v2 _ hrd hr.ver]
  · intro new hnew hhole
    have hk := v2tail_hole inp hr.plan new hnew hhole
    rw [hread new 0 hnew hk (by omega)]
    simp [decodeIdx, stdNames_zero]

/-- corollary in the form of the property: a defined name is kept -/
theorem post_v2_defined_names_kept (inp : PostIn) (out : Bytes) (hr : PostReq inp)
    (h : subsetPost inp = .ok out) (hcap : (v2tail inp).strs.length ≤ 65278)
    (new old : Nat) (hno : (new, old) ∈ inp.n2o) (name : Bytes) (hname : glyphName inp.t old = some name) :
    glyphName out new = some name := by
  rw [(post_v2_glyph_names_preserved inp out hr h hcap).1 new old hno, hname]; rfl

/-- **post_v2_num_glyphs.**  The rebuilt table is readable, says version 2.0, its numGlyphs field is
`num_output_glyphs` and it has exactly that many index entries followed by the string pool. -/
theorem post_v2_num_glyphs (inp : PostIn) (out : Bytes) (hr : PostReq inp) (h : subsetPost inp = .ok out) :
    postReadable out = true ∧ u32At out 0 = 0x00020000 ∧ postNumGlyphs out = inp.nout ∧
    out.length = 34 + 2 * inp.nout + ((v2tail inp).strs.flatMap pstrEnc).length ∧
    out.take 32 = inp.t.take 32 := by
  obtain ⟨hrd, hout⟩ := subsetPost_v2_ok inp out hr h
  obtain ⟨ro, vo, ng, _, _⟩ := out_reader inp out hr h
  have hlen := readable_v2_length inp.t hr.bytes hr.ver hrd
  have hh : (inp.t.take 32).length = 32 := by simp; omega
  obtain ⟨_, _, _, _, l5⟩ := v2bytes_layout (inp.t.take 32) inp.nout (v2tail inp) hh hr.nout (v2tail_arr_length inp)
  refine ⟨ro, vo, ng, by rw [hout]; exact l5, ?_⟩
  rw [hout]
  unfold v2bytes
  rw [List.append_assoc, List.append_assoc, List.take_left' hh]

/-- **post_v2_string_pool_minimal.**  The emitted string pool has no string twice, no string equal to one of
the 258 standard names, and every string is the original name of some kept glyph (hence, by
`post_v2_glyph_names_preserved`, the name of that glyph in the subset): nothing unused is emitted. -/
theorem post_v2_string_pool_minimal (inp : PostIn) (out : Bytes) (hr : PostReq inp)
    (h : subsetPost inp = .ok out) :
    (v2tail inp).strs.Pairwise (· ≠ ·) ∧
    (∀ s ∈ (v2tail inp).strs, s ∉ stdNames) ∧
    (∀ s ∈ (v2tail inp).strs, ∃ new old, (new, old) ∈ inp.n2o ∧ glyphName inp.t old = some s) := by
  obtain ⟨hrd, _⟩ := subsetPost_v2_ok inp out hr h
  unfold v2tail
  cases hm : inp.maxOld with
  | none => simp
  | some m =>
    simp only
    obtain ⟨hinv, _, _, _, _, hsrc, _⟩ := runPool_spec (jobs2 (pstrAll (stringData inp.t)) (oldToNew inp.n2o) (indexPairs inp.t m))
      Pool.init poolInv_init
    refine ⟨hinv.nodup, fun s hs => indexIn_none.mp (hinv.nostd s hs), ?_⟩
    intro s hs
    rcases hsrc s hs with h0 | ⟨new, hj, _⟩
    · simp [Pool.init] at h0
    · obtain ⟨old, ni, hp, hge, hg, hget⟩ := (mem_jobs2 _ _ _ _ _).mp hj
      refine ⟨new, old, (oldToNew_iff hr.plan _ _).mp hg, ?_⟩
      obtain ⟨hin, _, hni⟩ := (mem_indexPairs _ _ _ _).mp hp
      rw [glyphName_v2 _ hrd hr.ver]
      unfold origName?
      simp only [hin, if_true, ← hni, hge, if_false, hget, Option.join]
      rfl

/-- the converse direction of minimality: a kept glyph's custom (non-standard) name is in the pool -/
theorem post_v2_custom_names_in_pool (inp : PostIn) (out : Bytes) (hr : PostReq inp)
    (h : subsetPost inp = .ok out) (new old : Nat) (hno : (new, old) ∈ inp.n2o) (name : Bytes)
    (hidx : ¬ u16At inp.t (34 + 2 * old) < 258) (hname : glyphName inp.t old = some name) (hstd : name ∉ stdNames) :
    name ∈ (v2tail inp).strs := by
  obtain ⟨hrd, _⟩ := subsetPost_v2_ok inp out hr h
  rw [glyphName_v2 _ hrd hr.ver] at hname
  unfold origName? at hname
  by_cases hin : old < postNumGlyphs inp.t
  · simp only [hin, if_true, hidx, if_false] at hname
    cases hm : inp.maxOld with
    | none => rw [hr.maxNone hm] at hno; simp at hno
    | some m =>
      unfold v2tail
      simp only [hm]
      obtain ⟨_, _, _, _, _, _, hin2⟩ := runPool_spec (jobs2 (pstrAll (stringData inp.t)) (oldToNew inp.n2o) (indexPairs inp.t m))
        Pool.init poolInv_init
      apply hin2 new name
      · refine (mem_jobs2 _ _ _ _ _).mpr ⟨old, _, (mem_indexPairs _ _ _ _).mpr ⟨hin, hr.maxSome m hm _ hno, rfl⟩, hidx,
          (oldToNew_iff hr.plan _ _).mpr hno, ?_⟩
        cases hg : (pstrAll (stringData inp.t))[u16At inp.t (34 + 2 * old) - 258]? with
        | none => simp [hg, Option.join] at hname
        | some item =>
          cases item with
          | none => simp [hg, Option.join] at hname
          | some nm => simp [hg, Option.join] at hname; rw [hname]
      · exact indexIn_none.mpr hstd
  · simp [hin] at hname

theorem glyphName_other_version (t : Bytes) (gid : Nat) (h1 : u32At t 0 ≠ 0x00010000) (h2 : u32At t 0 ≠ 0x00020000) :
    glyphName t gid = none := by
  unfold glyphName
  split
  · rfl
  · simp only [h1, h2, if_false]

/-- **post_non_glyph_names_is_v3_header.**  Without GLYPH_NAMES every readable post table (any version) becomes
its 32 header bytes with the version replaced by 3.0 and the other 28 bytes unchanged; read-fonts reads no glyph
name from it. -/
theorem post_non_glyph_names_is_v3_header (inp : PostIn) (out : Bytes)
    (hflag : hasFlag inp.flags F_GLYPH_NAMES = false) (h : subsetPost inp = .ok out) :
    out.length = 32 ∧ out.take 4 = [0, 3, 0, 0] ∧ out.drop 4 = (inp.t.take 32).drop 4 ∧
    ∀ gid, glyphName out gid = none := by
  unfold subsetPost at h
  by_cases hrd : postReadable inp.t = true
  · simp only [hrd, Bool.not_true, Bool.false_eq_true, if_false, hflag, false_and] at h
    simp only [Except.ok.injEq] at h
    have hlen : 32 ≤ inp.t.length := by
      unfold postReadable at hrd
      split at hrd <;> simp only [decide_eq_true_eq] at hrd <;> omega
    have hh : (inp.t.take 32).length = 32 := by simp; omega
    subst h
    unfold patch
    refine ⟨by simp; omega, by simp, ?_, ?_⟩
    · simp only [List.take_zero, List.nil_append, List.length_cons, List.length_nil, Nat.zero_add]
      rfl
    · intro gid
      apply glyphName_other_version
      · simp [u32At, SubsetGvar.u32At]
      · simp [u32At, SubsetGvar.u32At]
  · simp [hrd] at h

/-- non-vacuity: a version 2.0 table with 3 glyphs (`.notdef`; custom "x"; custom "ab" = the third string, the
second string is empty and unused) subset to glyphs 0 and 2 -/
def exTable : Bytes :=
  [0, 2, 0, 0] ++ List.replicate 28 7 ++ [0, 3] ++ [0, 0, 1, 2, 1, 4] ++ [1, 120] ++ [0] ++ [2, 97, 98]
def exIn : PostIn := { flags := 0x80, nout := 2, maxOld := some 2, n2o := [(0, 0), (1, 2)], srcGlyphs := 3, t := exTable }
def exIn0 : PostIn := { flags := 0, nout := 2, maxOld := some 2, n2o := [(0, 0), (1, 2)], srcGlyphs := 3, t := exTable }
def exOut : Bytes := [0, 2, 0, 0] ++ List.replicate 28 7 ++ [0, 2] ++ [0, 0, 1, 2] ++ [2, 97, 98]

set_option maxRecDepth 100000 in
example : PostReq exIn := by
  refine ⟨by decide +kernel, by decide +kernel, by decide +kernel,
    ⟨by decide +kernel, by decide +kernel, by decide +kernel⟩, by decide +kernel, ?_, by simp [exIn]⟩
  intro m hm no hno
  simp only [exIn, Option.some.injEq] at hm
  subst hm
  simp only [exIn, List.mem_cons, List.not_mem_nil, or_false] at hno
  rcases hno with rfl | rfl <;> decide

set_option maxRecDepth 100000 in
example : (subsetPost exIn).toOption = some exOut ∧ glyphName exOut 1 = some [97, 98] ∧ glyphName exTable 2 = some [97, 98] ∧
    (v2tail exIn).strs = [[97, 98]] := by decide +kernel

set_option maxRecDepth 100000 in
example : (subsetPost exIn0).toOption = some ([0, 3, 0, 0] ++ List.replicate 28 7) := by decide +kernel

end FontVerif.C17Post
