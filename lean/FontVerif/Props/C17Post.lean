/-
C17 — Post part (theorems). See reports/C17.md.
-/
import FontVerif.Model.Base
namespace FontVerif.C17Post
open FontVerif

end FontVerif.C17Post
