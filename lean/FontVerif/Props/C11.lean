/-
C11 — Variation stores, metric deltas and axis normalisation compute specified values.
Property theorems only; continued in Props/C11Scalar.lean (multi-axis product / monotonicity, uses Mathlib).
Helpers: Lemmas/{TentLemmas,Round,NormalizeLemmas,DeltaLemmas,IvsLemmas,BuiltDelta,MetricsLemmas,DsimLemmas}.lean
Models: Model/Tent.lean      ⇄ read-fonts/src/tables/variations.rs (compute_scalar, compute_delta, delta_set,
                               DeltaSetIndexMap::get, advance_delta)
        Model/Normalize.lean ⇄ read-fonts/src/tables/{fvar,avar}.rs (normalize, SegmentMaps::apply, user_to_normalized)
        Model/Ivs.lean       ⇄ write-fonts/src/tables/variations/ivs_builder.rs (+ variations.rs DeltaSetIndexMap writer)
        Model/Metrics.lean   ⇄ skrifa/src/metrics.rs
Sections: 1 tent scalar · 2 axis normalisation · 3 avar segment maps · 4 compute_delta · 5 store builder retrieval ·
          6 metric lookup / DeltaSetIndexMap · 7 builder ∘ reader (delta on a built store)
-/
import FontVerif.Model.Tent
import FontVerif.Model.Normalize
import FontVerif.Model.Ivs
import FontVerif.Model.Metrics
import FontVerif.Lemmas.Round
import FontVerif.Lemmas.TentLemmas
import FontVerif.Lemmas.NormalizeLemmas
import FontVerif.Lemmas.DeltaLemmas
import FontVerif.Lemmas.IvsLemmas
import FontVerif.Lemmas.MetricsLemmas
import FontVerif.Lemmas.DsimLemmas
import FontVerif.Lemmas.BuiltDelta
set_option linter.unusedVariables false
namespace FontVerif.C11
open FontVerif FontVerif.Tent

/-! ## 1. the tent scalar (`VariationRegion::compute_scalar`) -/

/-- every way one loop iteration can go, with the exact value it produces
(`Fixed` operands coming from F2Dot14 values, scalar in `[0, ONE]`). -/
theorem axisStep_cases (sc c s p e : Int) (hc : inF c) (hs : inF s) (hp : inF p) (he : inF e)
    (hs0 : 0 ≤ sc) (hs1 : sc ≤ 65536) :
    (Ignored s p e ∧ axisStep sc c s p e = some sc) ∨
    (¬ Ignored s p e ∧ (c < s ∨ c > e) ∧ axisStep sc c s p e = none) ∨
    (¬ Ignored s p e ∧ c = p ∧ axisStep sc c s p e = some sc) ∨
    (¬ Ignored s p e ∧ s ≤ c ∧ c < p ∧
      axisStep sc c s p e = some ((sc * (c - s) + (p - s) / 2) / (p - s))) ∨
    (¬ Ignored s p e ∧ p < c ∧ c ≤ e ∧
      axisStep sc c s p e = some ((sc * (e - c) + (e - p) / 2) / (e - p))) := by
  by_cases hi : Ignored s p e
  · left; exact ⟨hi, by unfold axisStep Ignored at *; simp [hi]⟩
  · right
    by_cases ho : c < s ∨ c > e
    · left; exact ⟨hi, ho, by unfold axisStep; unfold Ignored at hi; simp [hi, ho]⟩
    · right
      by_cases hpk : c = p
      · left; refine ⟨hi, hpk, ?_⟩
        unfold axisStep; unfold Ignored at hi
        subst hpk
        simp only [hi, ho, if_false, if_true]
      · right
        unfold Ignored at hi
        by_cases hlt : c < p
        · left; refine ⟨hi, by omega, hlt, ?_⟩
          unfold axisStep
          simp only [hi, ho, hpk, hlt, if_false, if_true]
          rw [fsub_id hc hs, fsub_id hp hs]
          unfold inF at *
          rw [(mulDiv_tent hs0 hs1 (by omega) (by omega) (by omega) (by omega)).1]
        · right; refine ⟨hi, by omega, by omega, ?_⟩
          unfold axisStep
          simp only [hi, ho, hpk, hlt, if_false]
          rw [fsub_id he hc, fsub_id he hp]
          unfold inF at *
          rw [(mulDiv_tent hs0 hs1 (by omega) (by omega) (by omega) (by omega)).1]

/-- **step_spec (rising leg)**: on `start ≤ coord < peak` the new scalar is the exact value
`scalar · (coord − start) / (peak − start)` rounded to the nearest 16.16 value (ties up). -/
theorem step_spec_up (sc c s p e : Int) (hc : inF c) (hs : inF s) (hp : inF p) (he : inF e)
    (hs0 : 0 ≤ sc) (hs1 : sc ≤ 65536) (hi : ¬ Ignored s p e) (h1 : s ≤ c) (h2 : c < p) :
    ∃ r, axisStep sc c s p e = some r ∧ IsRHA (sc * (c - s)) (p - s) r ∧ 0 ≤ r ∧ r ≤ sc := by
  rcases axisStep_cases sc c s p e hc hs hp he hs0 hs1 with h | h | h | h | h
  · exact absurd h.1 hi
  · have := h.2.1; unfold Ignored at hi; omega
  · have := h.2.1; omega
  · refine ⟨_, h.2.2.2, isRHA_formula (Int.mul_nonneg hs0 (by omega)) (by omega), ?_⟩
    unfold inF at *
    have := mulDiv_tent (s := sc) (n := c - s) (d := p - s) hs0 hs1 (by omega) (by omega) (by omega) (by omega)
    exact this.2
  · have := h.2.1; have := h.2.2.1; omega

/-- **step_spec (falling leg)**: on `peak < coord ≤ end` the new scalar is
`scalar · (end − coord) / (end − peak)` rounded to nearest. -/
theorem step_spec_down (sc c s p e : Int) (hc : inF c) (hs : inF s) (hp : inF p) (he : inF e)
    (hs0 : 0 ≤ sc) (hs1 : sc ≤ 65536) (hi : ¬ Ignored s p e) (h1 : p < c) (h2 : c ≤ e) :
    ∃ r, axisStep sc c s p e = some r ∧ IsRHA (sc * (e - c)) (e - p) r ∧ 0 ≤ r ∧ r ≤ sc := by
  rcases axisStep_cases sc c s p e hc hs hp he hs0 hs1 with h | h | h | h | h
  · exact absurd h.1 hi
  · have := h.2.1; unfold Ignored at hi; omega
  · have := h.2.1; omega
  · have := h.2.1; have := h.2.2.1; omega
  · refine ⟨_, h.2.2.2, isRHA_formula (Int.mul_nonneg hs0 (by omega)) (by omega), ?_⟩
    unfold inF at *
    have := mulDiv_tent (s := sc) (n := e - c) (d := e - p) hs0 hs1 (by omega) (by omega) (by omega) (by omega)
    exact this.2

/-- one step never leaves `[0, scalar]`. -/
theorem axisStep_range (sc c s p e : Int) (hc : inF c) (hs : inF s) (hp : inF p) (he : inF e)
    (hs0 : 0 ≤ sc) (hs1 : sc ≤ 65536) :
    ∀ r, axisStep sc c s p e = some r → 0 ≤ r ∧ r ≤ sc := by
  intro r hr
  rcases axisStep_cases sc c s p e hc hs hp he hs0 hs1 with h | h | h | h | h
  · rw [h.2] at hr; cases hr; omega
  · rw [h.2.2] at hr; cases hr
  · rw [h.2.2] at hr; cases hr; omega
  · obtain ⟨r', h1, _, h3⟩ := step_spec_up sc c s p e hc hs hp he hs0 hs1 h.1 h.2.1 h.2.2.1
    rw [h1] at hr; cases hr; exact h3
  · obtain ⟨r', h1, _, h3⟩ := step_spec_down sc c s p e hc hs hp he hs0 hs1 h.1 h.2.1 h.2.2.1
    rw [h1] at hr; cases hr; exact h3

/-- all region records / coordinates are F2Dot14 bit patterns. -/
def AxesOk (axes : List (Int × Int × Int)) : Prop :=
  ∀ a ∈ axes, inI16 a.1 ∧ inI16 a.2.1 ∧ inI16 a.2.2
def CoordsOk (coords : List Int) : Prop := ∀ c ∈ coords, inI16 c

theorem coordsOk_head {coords : List Int} (h : CoordsOk coords) : inI16 (coords.headD 0) := by
  cases coords with
  | nil => simp [inI16]
  | cons c cs => exact h c (by simp)

theorem coordsOk_tail {coords : List Int} (h : CoordsOk coords) : CoordsOk coords.tail := by
  cases coords with
  | nil => intro c hc; simp at hc
  | cons c cs => intro x hx; exact h x (by simp at hx ⊢; right; exact hx)

theorem scalarGo_range (axes : List (Int × Int × Int)) :
    ∀ (coords : List Int) (sc : Int), AxesOk axes → CoordsOk coords → 0 ≤ sc → sc ≤ 65536 →
      0 ≤ computeScalarGo sc axes coords ∧ computeScalarGo sc axes coords ≤ sc := by
  induction axes with
  | nil => intro coords sc _ _ h0 h1; simp [computeScalarGo, h0]
  | cons a rest ih =>
    intro coords sc ha hcs h0 h1
    obtain ⟨s, p, e⟩ := a
    have hh := ha (s, p, e) (by simp)
    simp only [computeScalarGo]
    have hr := axisStep_range sc (Fixed.f2dot14ToFixed (coords.headD 0)) (Fixed.f2dot14ToFixed s)
      (Fixed.f2dot14ToFixed p) (Fixed.f2dot14ToFixed e) (inF_of_f2dot14 (coordsOk_head hcs))
      (inF_of_f2dot14 hh.1) (inF_of_f2dot14 hh.2.1) (inF_of_f2dot14 hh.2.2) h0 h1
    split
    · omega
    · rename_i sc' heq
      have := hr sc' heq
      have ih' := ih coords.tail sc' (fun x hx => ha x (by simp [hx])) (coordsOk_tail hcs) this.1 (by omega)
      omega

/-- **scalar_range**: for every region and every location the scalar lies in `[0, 1]` (16.16). -/
theorem scalar_range (axes : List (Int × Int × Int)) (coords : List Int)
    (ha : AxesOk axes) (hc : CoordsOk coords) :
    0 ≤ computeScalar axes coords ∧ computeScalar axes coords ≤ 65536 := by
  have := scalarGo_range axes coords 65536 ha hc (by omega) (by omega)
  exact this

/-- raw-unit version of `Ignored` (scale invariant). -/
theorem ignored_scale (s p e : Int) :
    Ignored (Fixed.f2dot14ToFixed s) (Fixed.f2dot14ToFixed p) (Fixed.f2dot14ToFixed e) ↔ Ignored s p e := by
  unfold Ignored Fixed.f2dot14ToFixed; omega

theorem scalarGo_outside (axes : List (Int × Int × Int)) :
    ∀ (coords : List Int) (sc : Int) (i : Nat) (a : Int × Int × Int), axes[i]? = some a →
      ¬ Ignored a.1 a.2.1 a.2.2 → (coords.getD i 0 < a.1 ∨ coords.getD i 0 > a.2.2) →
      computeScalarGo sc axes coords = 0 := by
  induction axes with
  | nil => intro coords sc i a h; simp at h
  | cons b rest ih =>
    intro coords sc i a hget hi ho
    obtain ⟨s, p, e⟩ := b
    simp only [computeScalarGo]
    cases i with
    | zero =>
      simp at hget; subst hget
      have hc0 : coords.getD 0 0 = coords.headD 0 := by cases coords <;> rfl
      rw [hc0] at ho
      have : axisStep sc (Fixed.f2dot14ToFixed (coords.headD 0)) (Fixed.f2dot14ToFixed s)
          (Fixed.f2dot14ToFixed p) (Fixed.f2dot14ToFixed e) = none := by
        have hi' : ¬ Ignored (Fixed.f2dot14ToFixed s) (Fixed.f2dot14ToFixed p) (Fixed.f2dot14ToFixed e) :=
          fun h => hi ((ignored_scale s p e).mp h)
        unfold axisStep; unfold Ignored at hi'
        have : Fixed.f2dot14ToFixed (coords.headD 0) < Fixed.f2dot14ToFixed s ∨
            Fixed.f2dot14ToFixed (coords.headD 0) > Fixed.f2dot14ToFixed e := by
          have ho' : coords.headD 0 < s ∨ coords.headD 0 > e := ho
          unfold Fixed.f2dot14ToFixed; omega
        simp only [hi', this, if_false, if_true]
      rw [this]
    | succ j =>
      split
      · rfl
      · rename_i sc' _
        have hct : coords.tail.getD j 0 = coords.getD (j + 1) 0 := by cases coords <;> simp
        exact ih coords.tail sc' j a (by simpa using hget) hi (by rw [hct]; exact ho)

/-- **scalar_outside_zero**: if the location lies outside `[start, end]` on some axis that the
region does not ignore, the scalar is 0 — whatever the other axes are. -/
theorem scalar_outside_zero (axes : List (Int × Int × Int)) (coords : List Int) (i : Nat)
    (a : Int × Int × Int) (h : axes[i]? = some a) (hi : ¬ Ignored a.1 a.2.1 a.2.2)
    (ho : coords.getD i 0 < a.1 ∨ coords.getD i 0 > a.2.2) : computeScalar axes coords = 0 :=
  scalarGo_outside axes coords 65536 i a h hi ho

theorem scalarGo_peaks (axes : List (Int × Int × Int)) :
    ∀ (coords : List Int) (sc : Int),
      (∀ i a, axes[i]? = some a → Ignored a.1 a.2.1 a.2.2 ∨ coords.getD i 0 = a.2.1) →
      computeScalarGo sc axes coords = sc := by
  induction axes with
  | nil => intro coords sc _; simp [computeScalarGo]
  | cons b rest ih =>
    intro coords sc h
    obtain ⟨s, p, e⟩ := b
    simp only [computeScalarGo]
    have h0 := h 0 (s, p, e) (by simp)
    have hc0 : coords.getD 0 0 = coords.headD 0 := by cases coords <;> rfl
    rw [hc0] at h0
    have hstep : axisStep sc (Fixed.f2dot14ToFixed (coords.headD 0)) (Fixed.f2dot14ToFixed s)
        (Fixed.f2dot14ToFixed p) (Fixed.f2dot14ToFixed e) = some sc := by
      rcases h0 with h0 | h0
      · have := (ignored_scale s p e).mpr h0
        unfold axisStep; unfold Ignored at this; simp [this]
      · have h0' : coords.headD 0 = p := h0
        rw [h0']
        unfold axisStep
        split
        · rfl
        · have : ¬ (Fixed.f2dot14ToFixed p < Fixed.f2dot14ToFixed s ∨
              Fixed.f2dot14ToFixed p > Fixed.f2dot14ToFixed e) := by omega
          simp [this]
    rw [hstep]
    apply ih
    intro i a hget
    have hct : coords.tail.getD i 0 = coords.getD (i + 1) 0 := by cases coords <;> simp
    rw [hct]
    exact h (i + 1) a (by simpa using hget)

/-- **scalar_at_peak**: a location that sits on the peak of every axis the region uses has
scalar exactly 1 (`Fixed::ONE`). -/
theorem scalar_at_peak (axes : List (Int × Int × Int)) (coords : List Int)
    (h : ∀ i a, axes[i]? = some a → Ignored a.1 a.2.1 a.2.2 ∨ coords.getD i 0 = a.2.1) :
    computeScalar axes coords = 65536 :=
  scalarGo_peaks axes coords 65536 h

/-- **ignored_axis_skipped**: an axis whose record is skipped (`start > peak`, `peak > end`,
`peak = 0`, or `start < 0 < end`) does not influence the scalar. -/
theorem ignored_axis_skipped (sc : Int) (a : Int × Int × Int) (rest : List (Int × Int × Int))
    (coords : List Int) (h : Ignored a.1 a.2.1 a.2.2) :
    computeScalarGo sc (a :: rest) coords = computeScalarGo sc rest coords.tail := by
  obtain ⟨s, p, e⟩ := a
  simp only [computeScalarGo]
  have := (ignored_scale s p e).mpr h
  have hstep : axisStep sc (Fixed.f2dot14ToFixed (coords.headD 0)) (Fixed.f2dot14ToFixed s)
      (Fixed.f2dot14ToFixed p) (Fixed.f2dot14ToFixed e) = some sc := by
    unfold axisStep; unfold Ignored at this; simp [this]
  rw [hstep]

/-! ## 2. axis normalisation (`VariationAxisRecord::normalize`, `Fvar::user_to_normalized`)

All values are raw `Fixed` 16.16 bit patterns (`ONE = 65536`); the F2Dot14 output of
`user_to_normalized` has `ONE = 16384`.  The laws hold for every `Int`, in particular for every
i32 bit pattern; the only hypotheses are the ones a law needs to be meaningful (`min < default`
for "min ↦ −1", etc.). -/

open Normalize

/-- **normalize_range**: the result is always within `[−1, 1]`, for any axis record at all. -/
theorem normalize_range (minV defV maxV value : Int) :
    -65536 ≤ normalize minV defV maxV value ∧ normalize minV defV maxV value ≤ 65536 := by
  rw [normalize_eq]; exact clamp_range (by omega)

/-- **normalize_default**: the default maps to 0 (`min ≤ default ≤ max`). -/
theorem normalize_default (minV defV maxV : Int) (h1 : minV ≤ defV) (h2 : defV ≤ maxV) :
    normalize minV defV maxV defV = 0 := by
  rw [normalize_eq]
  have e : ¬ maxV < minV := by omega
  simp only [e, if_false]
  rw [clamp_id h1 h2, core_eq]; unfold clamp; simp

/-- **normalize_min**: the minimum maps to −1 (whenever `min < default`; any `max`, any
magnitude — also when `default − min` saturates the i32 subtraction). -/
theorem normalize_min (minV defV maxV : Int) (h : minV < defV) :
    normalize minV defV maxV minV = -65536 := by
  rw [normalize_eq]
  generalize hM : (if maxV < minV then minV else maxV) = M
  have hM' : minV ≤ M := by subst hM; split <;> omega
  rw [clamp_id (by omega) hM']
  have := core_below (maxV' := M) (Int.le_refl minV) h
  rw [this.1, divQ_self (satSub_pos h)]; unfold clamp; simp

/-- **normalize_max**: the maximum maps to +1 (whenever `default < max` and `min ≤ max`). -/
theorem normalize_max (minV defV maxV : Int) (h : defV < maxV) (hm : minV ≤ maxV) :
    normalize minV defV maxV maxV = 65536 := by
  rw [normalize_eq]
  have e : ¬ maxV < minV := by omega
  simp only [e, if_false]
  rw [clamp_id hm (Int.le_refl maxV)]
  have := core_above (minV := minV) (Int.le_refl maxV) h
  rw [this.1, divQ_self (satSub_pos h)]; unfold clamp; simp

/-- **normalize_clamps (low)**: every value at or below the minimum normalises like the minimum. -/
theorem normalize_clamps_low (minV defV maxV value : Int) (h : value ≤ minV) :
    normalize minV defV maxV value = normalize minV defV maxV minV := by
  rw [normalize_eq, normalize_eq]
  congr 2
  unfold clamp; repeat' split
  all_goals omega

/-- **normalize_clamps (high)**: every value at or above the maximum normalises like the maximum. -/
theorem normalize_clamps_high (minV defV maxV value : Int) (h : maxV ≤ value) (hm : minV ≤ maxV) :
    normalize minV defV maxV value = normalize minV defV maxV maxV := by
  rw [normalize_eq, normalize_eq]
  congr 2
  unfold clamp; repeat' split
  all_goals omega

/-- **normalize_monotone**: non-decreasing in the user coordinate — for every axis record
(also malformed ones: `max < min`, default outside `[min, max]`). -/
theorem normalize_monotone (minV defV maxV v1 v2 : Int) (h : v1 ≤ v2) :
    normalize minV defV maxV v1 ≤ normalize minV defV maxV v2 := by
  rw [normalize_eq, normalize_eq]
  generalize hM : (if maxV < minV then minV else maxV) = M
  have hM' : minV ≤ M := by subst hM; split <;> omega
  apply clamp_mono _ (by omega)
  have r1 := clamp_range (v := v1) hM'
  have r2 := clamp_range (v := v2) hM'
  exact core_mono r1.1 (clamp_mono h hM') r2.2

/-- **normalize_spec (below default)**: for `min ≤ v < default` the result is
`−(default − v)/(default − min)` in 16.16, rounded to nearest (no saturation: `default − min < 2³¹`). -/
theorem normalize_spec_below (minV defV maxV v : Int)
    (hsat : defV - minV < 2147483648) (h1 : minV ≤ v) (h2 : v < defV) (h3 : defV ≤ maxV) :
    ∃ q, IsRHA ((defV - v) * 65536) (defV - minV) q ∧ normalize minV defV maxV v = -q := by
  refine ⟨divQ (defV - v) (defV - minV), divQ_isRHA (by omega) (by omega), ?_⟩
  rw [normalize_eq]
  have e : ¬ maxV < minV := by omega
  simp only [e, if_false]
  rw [clamp_id h1 (by omega)]
  have := core_below (maxV' := maxV) h1 h2
  have s1 : satSub defV v = defV - v := satSub_exact (by omega) (by omega)
  have s2 : satSub defV minV = defV - minV := satSub_exact (by omega) (by omega)
  rw [s1, s2] at this
  rw [this.1]; exact clamp_id (by omega) (by omega)

/-- **normalize_spec (above default)**: for `default < v ≤ max` the result is
`(v − default)/(max − default)` in 16.16, rounded to nearest. -/
theorem normalize_spec_above (minV defV maxV v : Int)
    (hsat : maxV - defV < 2147483648) (h0 : minV ≤ defV) (h1 : defV < v) (h2 : v ≤ maxV) :
    ∃ q, IsRHA ((v - defV) * 65536) (maxV - defV) q ∧ normalize minV defV maxV v = q := by
  refine ⟨divQ (v - defV) (maxV - defV), divQ_isRHA (by omega) (by omega), ?_⟩
  rw [normalize_eq]
  have e : ¬ maxV < minV := by omega
  simp only [e, if_false]
  rw [clamp_id (by omega) h2]
  have := core_above (minV := minV) h2 h1
  have s1 : satSub v defV = v - defV := satSub_exact (by omega) (by omega)
  have s2 : satSub maxV defV = maxV - defV := satSub_exact (by omega) (by omega)
  rw [s1, s2] at this
  rw [this.1]; exact clamp_id (by omega) (by omega)

example : normalize (100 * 65536) (400 * 65536) (900 * 65536) (250 * 65536) = -32768 := by decide
example : normalize (100 * 65536) (400 * 65536) (900 * 65536) (650 * 65536) = 32768 := by decide
example : normalize (-2147483648) 0 2147483647 (-2147483648) = -65536 := by decide

/-! ## 3. avar segment maps (`SegmentMaps::apply`)

`maps` are the stored F2Dot14 `(from, to)` records; coordinates are `Fixed`.  `to_fixed` is
`× 4`.  A *valid* map has strictly increasing `from`s (`Before`: and non-decreasing `to`s). -/

/-- all records are F2Dot14 bit patterns. -/
def MapOk (maps : List (Int × Int)) : Prop := ∀ m ∈ maps, inI16 m.1 ∧ inI16 m.2

/-- **avar_empty_identity**: an empty segment map is the identity. -/
theorem avar_empty_identity (c : Int) : avarApply [] c = c := avarApply_nil c

/-- **avar_single_identity** (degenerate map): a one-record map changes nothing except its
own point. -/
theorem avar_single_identity (f t c : Int) (h : c ≠ Fixed.f2dot14ToFixed f) :
    avarApply [(f, t)] c = c := by
  unfold avarApply
  simp only [List.map_cons, List.map_nil, applyGo]
  have e1 : ¬ Fixed.f2dot14ToFixed f = c := fun h' => h h'.symm
  simp only [e1, if_false]
  split <;> rfl

/-- **avar_outside_identity**: below the first point and above every point the map is the
identity (no sortedness needed). -/
theorem avar_outside_identity (maps : List (Int × Int)) (c : Int) :
    (∀ m, maps.head? = some m → c < Fixed.f2dot14ToFixed m.1) ∨
    (∀ m ∈ maps, Fixed.f2dot14ToFixed m.1 < c) → avarApply maps c = c := by
  rintro (h | h)
  · cases maps with
    | nil => exact avarApply_nil c
    | cons m rest => obtain ⟨f, t⟩ := m; exact avarApply_before_first (h (f, t) rfl)
  · unfold avarApply
    apply applyGo_beyond
    intro m hm
    simp only [List.mem_map] at hm
    obtain ⟨m0, hm0, rfl⟩ := hm
    exact h m0 hm0

/-- **avar_hits_point**: every map point is hit exactly — `apply(from_i) = to_i` whenever all
earlier `from`s are smaller (in particular for every strictly sorted map). -/
theorem avar_hits_point (maps : List (Int × Int)) (i : Nat) (m : Int × Int)
    (hget : maps[i]? = some m)
    (hlt : ∀ j, j < i → ∀ m', maps[j]? = some m' → m'.1 < m.1) :
    avarApply maps (Fixed.f2dot14ToFixed m.1) = Fixed.f2dot14ToFixed m.2 := by
  have hget' : (scaled maps)[i]? = some (Fixed.f2dot14ToFixed m.1, Fixed.f2dot14ToFixed m.2) := by
    unfold scaled; rw [List.getElem?_map, hget]; rfl
  have hlt' : ∀ j, j < i → ∀ m', (scaled maps)[j]? = some m' →
      m'.1 < (Fixed.f2dot14ToFixed m.1, Fixed.f2dot14ToFixed m.2).1 := by
    intro j hj m' hm'
    unfold scaled at hm'
    rw [List.getElem?_map] at hm'
    cases hmj : maps[j]? with
    | none => rw [hmj] at hm'; simp at hm'
    | some mj =>
      rw [hmj] at hm'; simp at hm'; subst hm'
      have := hlt j hj mj hmj
      simp only [Fixed.f2dot14ToFixed]; omega
  exact applyGo_hit (maps := scaled maps) (0, 0) true i
    (Fixed.f2dot14ToFixed m.1, Fixed.f2dot14ToFixed m.2) hget' hlt'

/-- **avar_interpolates**: strictly between two consecutive points `a`, `b` (all earlier `from`s
below the coordinate) the result is `a.to + (b.to − a.to)·(c − a.from)/(b.from − a.from)`,
the quotient rounded to the nearest 16.16 value (ties away from zero) — linear interpolation. -/
theorem avar_interpolates (maps : List (Int × Int)) (hok : MapOk maps) (i : Nat) (a b : Int × Int)
    (ha : maps[i]? = some a) (hb : maps[i + 1]? = some b) (c : Int)
    (hlt : ∀ j, j ≤ i → ∀ m', maps[j]? = some m' → Fixed.f2dot14ToFixed m'.1 < c)
    (hcb : c < Fixed.f2dot14ToFixed b.1) :
    ∃ q, IsRHA ((Fixed.f2dot14ToFixed b.2 - Fixed.f2dot14ToFixed a.2) * (c - Fixed.f2dot14ToFixed a.1))
          (Fixed.f2dot14ToFixed b.1 - Fixed.f2dot14ToFixed a.1) q ∧
      avarApply maps c = Fixed.f2dot14ToFixed a.2 + q := by
  have hma : a ∈ maps := List.mem_of_getElem? ha
  have hmb : b ∈ maps := List.mem_of_getElem? hb
  have hac : Fixed.f2dot14ToFixed a.1 < c := hlt i (Nat.le_refl i) a ha
  have iA1 : Tent.inF (Fixed.f2dot14ToFixed a.1) := Tent.inF_of_f2dot14 (hok a hma).1
  have iA2 : Tent.inF (Fixed.f2dot14ToFixed a.2) := Tent.inF_of_f2dot14 (hok a hma).2
  have iB1 : Tent.inF (Fixed.f2dot14ToFixed b.1) := Tent.inF_of_f2dot14 (hok b hmb).1
  have iB2 : Tent.inF (Fixed.f2dot14ToFixed b.2) := Tent.inF_of_f2dot14 (hok b hmb).2
  have hApp : avarApply maps c = interp (Fixed.f2dot14ToFixed a.1) (Fixed.f2dot14ToFixed a.2)
      (Fixed.f2dot14ToFixed b.1) (Fixed.f2dot14ToFixed b.2) c := by
    have e : ∀ (k : Nat) (x : Int × Int), maps[k]? = some x →
        (scaled maps)[k]? = some (Fixed.f2dot14ToFixed x.1, Fixed.f2dot14ToFixed x.2) := by
      intro k x hx; unfold scaled; rw [List.getElem?_map, hx]; rfl
    have hlt' : ∀ j, j ≤ i → ∀ m', (scaled maps)[j]? = some m' → m'.1 < c := by
      intro j hj m' hm'
      unfold scaled at hm'
      rw [List.getElem?_map] at hm'
      cases hmj : maps[j]? with
      | none => rw [hmj] at hm'; simp at hm'
      | some mj => rw [hmj] at hm'; simp at hm'; subst hm'; exact hlt j hj mj hmj
    have key := applyGo_interp (c := c) (maps := scaled maps) (0, 0) true i
      (Fixed.f2dot14ToFixed a.1, Fixed.f2dot14ToFixed a.2)
      (Fixed.f2dot14ToFixed b.1, Fixed.f2dot14ToFixed b.2) (e i a ha) (e (i + 1) b hb) hlt' hcb
    exact key
  rw [hApp]
  clear hApp hlt
  generalize Fixed.f2dot14ToFixed a.1 = A1 at *
  generalize Fixed.f2dot14ToFixed a.2 = A2 at *
  generalize Fixed.f2dot14ToFixed b.1 = B1 at *
  generalize Fixed.f2dot14ToFixed b.2 = B2 at *
  have iC : Tent.inF c := by unfold Tent.inF at *; omega
  have hI := interp_eq iA1 iA2 iB1 iB2 iC (Int.le_of_lt hac) (Int.le_of_lt hcb) (Int.lt_trans hac hcb)
  have h0 : 0 ≤ c - A1 := by omega
  have h1 : 0 < B1 - A1 := by omega
  refine ⟨mdQ (B2 - A2) (c - A1) (B1 - A1), mdQ_isRHA h0 h1, ?_⟩
  exact hI

/-- **avar_monotone**: if the map is monotone (`from` strictly increasing, `to` non-decreasing)
then `apply` is non-decreasing on the span of the map (between its first and last `from`). -/
theorem avar_monotone (maps : List (Int × Int)) (hok : MapOk maps) (hs : maps.Pairwise Before)
    (c1 c2 : Int) (h12 : c1 ≤ c2) (hlo : ∃ m ∈ maps, Fixed.f2dot14ToFixed m.1 ≤ c1)
    (hhi : ∃ m ∈ maps, c2 ≤ Fixed.f2dot14ToFixed m.1) :
    avarApply maps c1 ≤ avarApply maps c2 :=
  avarApply_mono_core hok hs h12 hlo hhi

/-- the map contains the three records the OpenType specification requires. -/
def HasRequired (maps : List (Int × Int)) : Prop :=
  (-16384, -16384) ∈ maps ∧ ((0 : Int), (0 : Int)) ∈ maps ∧ ((16384 : Int), (16384 : Int)) ∈ maps

theorem before_strict {maps : List (Int × Int)} (hs : maps.Pairwise Before) :
    maps.Pairwise (fun a b => a.1 < b.1) := hs.imp (fun h => h.1)

/-- **avar_valid_monotone_range**: a valid monotone map (with the required −1, 0, 1 records) is
monotone on all of `[−1, 1]`, keeps −1, 0, 1 fixed, and stays within `[−1, 1]`. -/
theorem avar_valid_monotone_range (maps : List (Int × Int)) (hok : MapOk maps)
    (hs : maps.Pairwise Before) (hr : HasRequired maps) :
    avarApply maps (-65536) = -65536 ∧ avarApply maps 0 = 0 ∧ avarApply maps 65536 = 65536 ∧
    (∀ c1 c2, -65536 ≤ c1 → c1 ≤ c2 → c2 ≤ 65536 → avarApply maps c1 ≤ avarApply maps c2) ∧
    (∀ c, -65536 ≤ c → c ≤ 65536 → -65536 ≤ avarApply maps c ∧ avarApply maps c ≤ 65536) := by
  have hA := avarApply_hit_mem (before_strict hs) hr.1
  have hB := avarApply_hit_mem (before_strict hs) hr.2.1
  have hC := avarApply_hit_mem (before_strict hs) hr.2.2
  simp only [Fixed.f2dot14ToFixed] at hA hB hC
  have hmono : ∀ c1 c2, -65536 ≤ c1 → c1 ≤ c2 → c2 ≤ 65536 → avarApply maps c1 ≤ avarApply maps c2 := by
    intro c1 c2 h1 h12 h2
    exact avarApply_mono_core hok hs h12 ⟨_, hr.1, by simp [Fixed.f2dot14ToFixed]; omega⟩
      ⟨_, hr.2.2, by simp [Fixed.f2dot14ToFixed]; omega⟩
  refine ⟨by simpa using hA, by simpa using hB, by simpa using hC, hmono, ?_⟩
  intro c h1 h2
  have := hmono (-65536) c (by omega) h1 h2
  have := hmono c 65536 h1 h2 (by omega)
  simp at hA hC
  omega

example : avarApply [(-16384, -16384), (0, 0), (8192, 4096), (16384, 16384)] 16384 = 8192 := by decide
example : avarApply [(-16384, -16384), (0, 0), (8192, 4096), (16384, 16384)] 49152 = 40960 := by decide
example : ([(-16384, -16384), (0, 0), (8192, 4096), (16384, 16384)] : List (Int × Int)).Pairwise Before := by
  unfold Before; decide

/-! ### the whole per-axis step of `Fvar::user_to_normalized` (normalize → avar → F2Dot14) -/

/-- **user_to_normalized (no avar)**: min ↦ −1, default ↦ 0, max ↦ 1 (F2Dot14 `ONE = 16384`),
range `[−1, 1]`, monotone. -/
theorem user_to_normalized_laws (minV defV maxV : Int) :
    (minV < defV → userToNormalized minV defV maxV none minV = -16384) ∧
    (minV ≤ defV → defV ≤ maxV → userToNormalized minV defV maxV none defV = 0) ∧
    (defV < maxV → minV ≤ maxV → userToNormalized minV defV maxV none maxV = 16384) ∧
    (∀ v, -16384 ≤ userToNormalized minV defV maxV none v ∧
          userToNormalized minV defV maxV none v ≤ 16384) ∧
    (∀ v1 v2, v1 ≤ v2 → userToNormalized minV defV maxV none v1 ≤
          userToNormalized minV defV maxV none v2) := by
  unfold userToNormalized
  refine ⟨fun h => ?_, fun h1 h2 => ?_, fun h1 h2 => ?_, fun v => ?_, fun v1 v2 h => ?_⟩
  · simp only [normalize_min minV defV maxV h]; decide
  · simp only [normalize_default minV defV maxV h1 h2]; decide
  · simp only [normalize_max minV defV maxV h1 h2]; decide
  · have := normalize_range minV defV maxV v
    simp only []
    rw [toF2Dot14_small this.1 this.2]; omega
  · have r1 := normalize_range minV defV maxV v1
    have r2 := normalize_range minV defV maxV v2
    have := normalize_monotone minV defV maxV v1 v2 h
    simp only []
    rw [toF2Dot14_small r1.1 r1.2, toF2Dot14_small r2.1 r2.2]; omega

/-- **user_to_normalized (with a valid avar map)**: the same laws survive a valid monotone
segment map. -/
theorem user_to_normalized_avar_laws (minV defV maxV : Int) (maps : List (Int × Int))
    (hok : MapOk maps) (hs : maps.Pairwise Before) (hr : HasRequired maps) :
    (minV < defV → userToNormalized minV defV maxV (some maps) minV = -16384) ∧
    (minV ≤ defV → defV ≤ maxV → userToNormalized minV defV maxV (some maps) defV = 0) ∧
    (defV < maxV → minV ≤ maxV → userToNormalized minV defV maxV (some maps) maxV = 16384) ∧
    (∀ v, -16384 ≤ userToNormalized minV defV maxV (some maps) v ∧
          userToNormalized minV defV maxV (some maps) v ≤ 16384) ∧
    (∀ v1 v2, v1 ≤ v2 → userToNormalized minV defV maxV (some maps) v1 ≤
          userToNormalized minV defV maxV (some maps) v2) := by
  obtain ⟨hA, hB, hC, hmono, hrange⟩ := avar_valid_monotone_range maps hok hs hr
  unfold userToNormalized
  refine ⟨fun h => ?_, fun h1 h2 => ?_, fun h1 h2 => ?_, fun v => ?_, fun v1 v2 h => ?_⟩
  · simp only [normalize_min minV defV maxV h, hA]; decide
  · simp only [normalize_default minV defV maxV h1 h2, hB]; decide
  · simp only [normalize_max minV defV maxV h1 h2, hC]; decide
  · have := normalize_range minV defV maxV v
    have := hrange _ this.1 this.2
    simp only []
    rw [toF2Dot14_small this.1 this.2]; omega
  · have r1 := normalize_range minV defV maxV v1
    have r2 := normalize_range minV defV maxV v2
    have a1 := hrange _ r1.1 r1.2
    have a2 := hrange _ r2.1 r2.2
    have := hmono _ _ r1.1 (normalize_monotone minV defV maxV v1 v2 h) r2.2
    simp only []
    rw [toF2Dot14_small a1.1 a1.2, toF2Dot14_small a2.1 a2.2]; omega

/-! ## 4. `ItemVariationStore::compute_delta` = Σ_regions scalar × delta, rounded

`specSum regions coords deltas regionIndexes = Σ_i deltas[i] · computeScalar(regions[ri_i], coords)`
with the scalar as raw 16.16 bits (Section 1 proves that scalar is the specified tent).  The code
accumulates in i64 and finishes with `((accum + 0x8000) >> 16) as i32`. -/

/-- **compute_delta_spec**: whenever `compute_delta` returns `Ok(v)` on a present subtable,
`v` is the weighted sum of the decoded row's deltas with their regions' tent scalars, divided by
2¹⁶ and rounded to nearest (ties up), then truncated to i32 exactly as `as i32` does. -/
theorem compute_delta_spec (regions : List (List (Int × Int × Int)))
    (subtables : List (Option SubTable)) (outer inner : Nat) (coords : List Int) (st : SubTable)
    (v : Int) (hne : coords ≠ []) (hst : subtables[outer]? = some (some st))
    (h : computeDelta regions subtables outer inner coords = .ok v) :
    v = wrapI32 ((specSum regions coords (decodedRow st inner) st.regionIndexes + 32768) / 65536) ∧
    LoopOk regions (decodedRow st inner) st.regionIndexes := by
  unfold computeDelta at h
  have e : coords.isEmpty = false := by cases coords <;> simp_all
  simp only [e, Bool.false_eq_true, if_false, hst] at h
  split at h
  · cases h
  · have hs := deltaLoop_spec regions coords (decodedRow st inner) st.regionIndexes 0
    by_cases hok : LoopOk regions (decodedRow st inner) st.regionIndexes
    · have := hs.1 hok
      unfold decodedRow at this
      rw [this] at h
      simp only [DeltaResult.ok.injEq] at h
      refine ⟨?_, hok⟩
      rw [← h]; unfold roundAccum; simp [decodedRow]
    · have := hs.2 hok
      unfold decodedRow at this
      rw [this] at h
      cases h

/-- **compute_delta_total**: the call succeeds whenever the table is well-formed (subtable
present, delta-set array inside the data, every decoded delta has a region index that names a
region) — and the error cases are exactly the complement. -/
theorem compute_delta_ok_iff (regions : List (List (Int × Int × Int)))
    (subtables : List (Option SubTable)) (outer inner : Nat) (coords : List Int) (st : SubTable)
    (hne : coords ≠ []) (hst : subtables[outer]? = some (some st)) :
    (∃ v, computeDelta regions subtables outer inner coords = .ok v) ↔
      (deltaRowLen st.wordDeltaCount st.regionIndexes.length * st.itemCount ≤ st.data.length ∧
       LoopOk regions (decodedRow st inner) st.regionIndexes) := by
  unfold computeDelta
  have e : coords.isEmpty = false := by cases coords <;> simp_all
  simp only [e, Bool.false_eq_true, if_false, hst]
  have hs := deltaLoop_spec regions coords (decodedRow st inner) st.regionIndexes 0
  unfold decodedRow at hs
  by_cases hlen : st.data.length < deltaRowLen st.wordDeltaCount st.regionIndexes.length * st.itemCount
  · simp [hlen]; omega
  · by_cases hok : LoopOk regions (decodedRow st inner) st.regionIndexes
    · have := hs.1 hok
      simp only [decodedRow] at hok
      simp [hlen, this, hok, decodedRow]; omega
    · have := hs.2 hok
      simp only [decodedRow] at hok
      simp [hlen, this, hok, decodedRow]

/-- **round_spec**: the final shift is round-to-nearest of `Σ / 2¹⁶` (ties towards +∞):
`|v − Σ/2¹⁶| ≤ 1/2`. -/
theorem compute_delta_round_spec (acc : Int) :
    65536 * ((acc + 32768) / 65536) - 32768 ≤ acc ∧
    acc < 65536 * ((acc + 32768) / 65536) + 32768 := round_shift_spec acc

/-- **accumulator_fits_i64**: for table bytes (`< 256`) and F2Dot14 regions/coordinates, every
partial sum of the loop fits i64 (at most 65535 region indexes of i32 deltas × scalar ≤ 2¹⁶) —
the `Int` accumulator of the model is the i64 accumulator of the code, and the overflow-checked
`accum +=` never traps. -/
theorem accumulator_fits_i64 (regions : List (List (Int × Int × Int))) (coords : List Int)
    (st : SubTable) (inner : Nat) (hr : AllAxesOk regions) (hc : CoordsOk coords)
    (hb : ∀ b ∈ st.data, b < 256) (hn : st.regionIndexes.length ≤ 65535) (k : Nat) :
    inI64 (specSum regions coords ((decodedRow st inner).take k) st.regionIndexes) := by
  have hrow := deltaSet_inI32 st.wordDeltaCount st.regionIndexes.length
    (st.data.take (deltaRowLen st.wordDeltaCount st.regionIndexes.length * st.itemCount)) inner
    (fun b hbm => hb b (List.mem_of_mem_take hbm))
  have hsc : ∀ ri, 0 ≤ computeScalar (regions.getD ri []) coords ∧
      computeScalar (regions.getD ri []) coords ≤ 65536 := by
    intro ri
    apply scalar_range _ _ _ hc
    intro a ha
    by_cases h : ri < regions.length
    · have e : regions.getD ri [] = regions[ri] := by simp [List.getD, List.getElem?_eq_getElem h]
      rw [e] at ha
      exact hr _ (List.getElem_mem h) a ha
    · have e : regions.getD ri [] = [] := by
        simp [List.getD, List.getElem?_eq_none (by omega : regions.length ≤ ri)]
      rw [e] at ha; simp at ha
  have hbound := specSum_bound regions coords 2147483648 (by omega) hsc
    ((decodedRow st inner).take k) st.regionIndexes
    (fun d hd => by have := hrow.1 d (List.mem_of_mem_take hd); unfold inI32 at this; omega)
  have hlen : (((decodedRow st inner).take k).length : Int) ≤ 65535 := by
    have : ((decodedRow st inner).take k).length ≤ (decodedRow st inner).length := by
      simp [List.length_take]; omega
    have := hrow.2
    unfold decodedRow at *
    omega
  generalize (((decodedRow st inner).take k).length : Int) = n at *
  unfold inI64
  omega

/-- **compute_delta_16bit_exact**: with 16-bit deltas (no `LONG_WORDS`) nothing wraps: the
result is exactly `⌊(Σ + 2¹⁵) / 2¹⁶⌋`. -/
theorem compute_delta_no_wrap (regions : List (List (Int × Int × Int))) (coords : List Int)
    (deltas : List Int) (ris : List Nat) (hr : AllAxesOk regions) (hc : CoordsOk coords)
    (hd : ∀ d ∈ deltas, inI16 d) (hn : deltas.length ≤ 65535) :
    roundAccum (specSum regions coords deltas ris) =
      (specSum regions coords deltas ris + 32768) / 65536 := by
  have hsc : ∀ ri, 0 ≤ computeScalar (regions.getD ri []) coords ∧
      computeScalar (regions.getD ri []) coords ≤ 65536 := by
    intro ri
    apply scalar_range _ _ _ hc
    intro a ha
    by_cases h : ri < regions.length
    · have e : regions.getD ri [] = regions[ri] := by simp [List.getD, List.getElem?_eq_getElem h]
      rw [e] at ha
      exact hr _ (List.getElem_mem h) a ha
    · have e : regions.getD ri [] = [] := by
        simp [List.getD, List.getElem?_eq_none (by omega : regions.length ≤ ri)]
      rw [e] at ha; simp at ha
  have hbound := specSum_bound regions coords 32768 (by omega) hsc deltas ris
    (fun d hdm => by have := hd d hdm; unfold inI16 at this; omega)
  have hlen : (deltas.length : Int) ≤ 65535 := by omega
  generalize (deltas.length : Int) = n at *
  apply roundAccum_nowrap <;> omega

example : computeDelta [[(0, 16384, 16384)], [(-16384, -16384, 0)]]
    [some { itemCount := 1, wordDeltaCount := 1, regionIndexes := [0, 1], data := [0, 100, 0xF6] }]
    0 0 [8192] = .ok 50 := by
  simp [computeDelta, deltaRowLen, deltaSet, itemDeltas, readW, colWidth, readS1, readS2, deltaLoop,
    computeScalar, computeScalarGo, axisStep, Fixed.f2dot14ToFixed, roundAccum]
  decide
example : specSum [[(0, 16384, 16384)], [(-16384, -16384, 0)]] [8192] [100, -10] [0, 1] = 100 * 32768 := by
  decide

/-! ## 5. the variation-store builder: every delta set is retrievable

`Ivs.retrieve b n outer inner` is what the *reader model* (Section 4's `decodedRow`, i.e.
`ItemVariationData::delta_set`) gets from the built store for a `VariationIndex`, attributed to the
builder's canonical regions through the pruned region list.  The partition of delta sets into
encodings chosen by `Encoder::optimize` is a *parameter* (`groups`): the theorems hold for every
partition, every member order and every order of the encodings. -/

open Ivs

/-- **row_roundtrip** (8/16/32-bit narrowing preserves values): if the shape covers the row
(`for_val(value) ≤ column bits` in every column), reading back the bytes written by
`encode_raw_delta_values` yields exactly the value of every active column — whatever follows. -/
theorem row_roundtrip (s : List Nat) (row : List Int) (tail : List Nat) (hc : Covers s row)
    (hi : RowI32 row) :
    itemDeltas (nLong s) (longWords s) (indices s).length 0 (encodeRow s row ++ tail) =
      (indices s).map (fun r => row.getD r 0) :=
  row_decode s row tail hc hi

/-- **merge_covers**: the shape of an encoding obtained by *any* sequence of `merge_with` over a
set of members (their join) has one column per region, valid `ColumnBits`, and covers every
member — the invariant that makes every optimiser choice safe. -/
theorem merge_covers (n : Nat) (sets : List (List (Nat × Int))) :
    (joinShape n sets).length = n ∧ ShapeOk (joinShape n sets) ∧
    ∀ ds ∈ sets, Covers (joinShape n sets) (dense ds n) :=
  joinShape_spec n sets

/-- **scatter_rebuilds_row** (region pruning keeps every non-zero column): the active columns of a
covering shape, put back at their canonical region indices, rebuild the whole dense row — columns
dropped from the subtable were zero. -/
theorem scatter_rebuilds_row (s : List Nat) (row : List Int) (n : Nat) (hs : ShapeOk s)
    (hn : s.length = n) (hc : Covers s row) :
    dense ((indices s).zip ((indices s).map fun r => row.getD r 0)) n = row :=
  scatter_eq s row n hs hn hc

/-- **builder_retrievable_core**: for any list of encodings that satisfies the model's
well-formedness condition `EncsWf` (each shape covers its members), with fewer than 32768 regions
and at most 65536 subtables: every member has a remap entry under its temporary id through which
exactly its dense row is read back, and every remap entry reads back the row of a member with
that id. -/
theorem builder_retrievable_core (n : Nat) (encs : List Enc) (hwf : EncsWf n encs) (hn : n < 32768)
    (hsub : (encodeAll n encs).subtables.length ≤ 65536) :
    (∀ e ∈ encs, ∀ m ∈ e.2, ∃ o i, (m.2, o, i) ∈ (encodeAll n encs).remap ∧
        retrieve (encodeAll n encs) n o i = some (dense m.1 n)) ∧
    (∀ id o i, (id, o, i) ∈ (encodeAll n encs).remap → ∃ e ∈ encs, ∃ m ∈ e.2, m.2 = id ∧
        retrieve (encodeAll n encs) n o i = some (dense m.1 n)) :=
  encodeAll_retrievable n encs hwf hn hsub

/-- the encodings `buildOptimized` hands to `encodeAll` are well-formed, whatever the partition. -/
theorem optimized_encs_wf (n : Nat) (groups : List (List Member))
    (hd : ∀ g ∈ groups, ∀ m ∈ g, ∀ rd ∈ m.1, inI32 rd.2) :
    EncsWf n (((groups.map fun g => g.map fun m => (normalizeDeltaSet m.1, m.2)).map
      fun g => (joinShape n (g.map (·.1)), g.mergeSort rowLe)).mergeSort
        fun a b => shapeLe a.1 b.1) := by
  intro e he
  rw [List.mem_mergeSort] at he
  obtain ⟨g', hg', rfl⟩ := List.mem_map.mp he
  obtain ⟨g, hg, rfl⟩ := List.mem_map.mp hg'
  have hj := joinShape_spec n ((g.map fun m => (normalizeDeltaSet m.1, m.2)).map (·.1))
  refine ⟨hj.1, hj.2.1, ?_⟩
  intro m hm
  rw [List.mem_mergeSort] at hm
  refine ⟨hj.2.2 m.1 (List.mem_map.mpr ⟨m, hm, rfl⟩), ?_⟩
  obtain ⟨m0, hm0, rfl⟩ := List.mem_map.mp hm
  exact dense_rowI32 _ n (fun rd hrd => hd g hg m0 hm0 rd (normalize_mem hrd))

/-- **builder_retrievable** (de-duplicating storage, `VariationStoreBuilder::build` after
`optimize`): for *every* partition `groups` of the added `(delta set, temporary id)` pairs into
encodings — every merge/reorder the optimiser may choose — each added delta set is read back,
through the `(outer, inner)` the remapping gives for its id, with exactly its per-region deltas
(`dense (normalizeDeltaSet ds) n`: the delta for each canonical region, 0 where it names none);
and nothing else is in the remapping.  Hypotheses: i32 deltas, fewer than 32768 regions, at most
65536 subtables in the output. -/
theorem builder_retrievable (n : Nat) (groups : List (List Member))
    (hd : ∀ g ∈ groups, ∀ m ∈ g, ∀ rd ∈ m.1, inI32 rd.2) (hn : n < 32768)
    (hsub : (buildOptimized n groups).subtables.length ≤ 65536) :
    (∀ g ∈ groups, ∀ m ∈ g, ∃ o i, (m.2, o, i) ∈ (buildOptimized n groups).remap ∧
        retrieve (buildOptimized n groups) n o i = some (dense (normalizeDeltaSet m.1) n)) ∧
    (∀ id o i, (id, o, i) ∈ (buildOptimized n groups).remap → ∃ g ∈ groups, ∃ m ∈ g, m.2 = id ∧
        retrieve (buildOptimized n groups) n o i = some (dense (normalizeDeltaSet m.1) n)) := by
  have hwf := optimized_encs_wf n groups hd
  have hcore := encodeAll_retrievable n _ hwf hn hsub
  constructor
  · intro g hg m hm
    have he : (joinShape n ((g.map fun m => (normalizeDeltaSet m.1, m.2)).map (·.1)),
        (g.map fun m => (normalizeDeltaSet m.1, m.2)).mergeSort rowLe) ∈
        ((groups.map fun g => g.map fun m => (normalizeDeltaSet m.1, m.2)).map
          fun g => (joinShape n (g.map (·.1)), g.mergeSort rowLe)).mergeSort
            fun a b => shapeLe a.1 b.1 := by
      rw [List.mem_mergeSort]
      exact List.mem_map.mpr ⟨_, List.mem_map.mpr ⟨g, hg, rfl⟩, rfl⟩
    have hmm : (normalizeDeltaSet m.1, m.2) ∈
        (g.map fun m => (normalizeDeltaSet m.1, m.2)).mergeSort rowLe := by
      rw [List.mem_mergeSort]; exact List.mem_map.mpr ⟨m, hm, rfl⟩
    exact hcore.1 _ he _ hmm
  · intro id o i h
    obtain ⟨e, he, m, hm, hid, hr⟩ := hcore.2 id o i h
    rw [List.mem_mergeSort] at he
    obtain ⟨g', hg', rfl⟩ := List.mem_map.mp he
    obtain ⟨g, hg, rfl⟩ := List.mem_map.mp hg'
    rw [List.mem_mergeSort] at hm
    obtain ⟨m0, hm0, rfl⟩ := List.mem_map.mp hm
    exact ⟨g, hg, m0, hm0, hid, hr⟩

/-- the subtable-count hypothesis is implied by simple size bounds on the partition. -/
theorem optimized_subtable_count (n : Nat) (groups : List (List Member))
    (h : ∀ g ∈ groups, g.length ≤ 65535) :
    (buildOptimized n groups).subtables.length = groups.length := by
  unfold buildOptimized
  simp only []
  rw [subtables_length, chunked_length_small]
  · simp [List.length_mergeSort]
  · intro e he
    rw [List.mem_mergeSort] at he
    obtain ⟨g', hg', rfl⟩ := List.mem_map.mp he
    obtain ⟨g, hg, rfl⟩ := List.mem_map.mp hg'
    simp [List.length_mergeSort]
    exact h g hg

/-- non-vacuity: a concrete partition satisfies every hypothesis, so its members are retrievable. -/
example : ∃ o i, (0, o, i) ∈ (buildOptimized 3
      [[([(0, 5), (2, -300)], 0)], [([(1, 70000)], 1), ([(1, 0)], 2)]]).remap ∧
    retrieve (buildOptimized 3 [[([(0, 5), (2, -300)], 0)], [([(1, 70000)], 1), ([(1, 0)], 2)]]) 3 o i =
      some (dense (normalizeDeltaSet [(0, 5), (2, -300)]) 3) :=
  (builder_retrievable 3 [[([(0, 5), (2, -300)], 0)], [([(1, 70000)], 1), ([(1, 0)], 2)]]
    (by decide) (by omega)
    (by rw [optimized_subtable_count _ _ (by decide)]; decide)).1
    [([(0, 5), (2, -300)], 0)] (by simp) ([(0, 5), (2, -300)], 0) (by simp)

/-- **builder_retrievable_direct** (`new_with_implicit_indices` / `build_unoptimized`, used for
HVAR): item `k` of at most 0xFFFF items is stored under the implicit index `(0, k)` — its id is
`k` — and is read back with exactly its per-region deltas. -/
theorem builder_retrievable_direct (n : Nat) (sets : List (List (Nat × Int)))
    (hd : ∀ ds ∈ sets, ∀ rd ∈ ds, inI32 rd.2) (hn : n < 32768) (hlen : sets.length ≤ 65535)
    (k : Nat) (hk : k < sets.length) :
    (k, 0, k) ∈ (buildDirect n sets).remap ∧
    retrieve (buildDirect n sets) n 0 k = some (dense (normalizeDeltaSet sets[k]) n) :=
  buildDirect_retrievable n sets hd hn hlen k hk

/-- **dedup_same_index**: `add_deltas` on the de-duplicating builder returns the same temporary id
for two inputs iff they are equal as delta sets (after sorting; an all-zero set equals the empty
one) — equal rows share one index, different rows never do. -/
theorem dedup_same_index (sets : List (List (Nat × Int))) (hlen : sets.length ≤ 4294967296)
    (i j : Nat) (a b : List (Nat × Int)) (ia ib : Nat) (hi : sets[i]? = some a) (hj : sets[j]? = some b)
    (hia : (addAllDedup [] sets).2[i]? = some ia) (hib : (addAllDedup [] sets).2[j]? = some ib) :
    ia = ib ↔ normalizeDeltaSet a = normalizeDeltaSet b :=
  addAllDedup_ids_eq_iff sets hlen i j a b ia ib hi hj hia hib

/-- **canonical_region_index**: `canonical_index_for_region` returns an index that names the region
in the (append-only, duplicate-free) canonical region list. -/
theorem canonical_region_index (all : List (List (Int × Int × Int))) (r : List (Int × Int × Int)) :
    (canonIndex all r).1[(canonIndex all r).2]? = some r ∧
    (∃ suffix, (canonIndex all r).1 = all ++ suffix) ∧
    (all.Nodup → (canonIndex all r).1.Nodup) :=
  canonIndex_spec all r

/-- **add_then_build_retrievable** (end to end, the property's first sentence): add any sequence of
delta sets with `add_deltas`; let the optimiser split the stored `(set, id)` entries into encodings
in *any* way (`groups` is any rearrangement of the storage); build.  Then for the id returned for
the `k`-th added set the remapping has an index, and *every* index the remapping holds for that id
reads back exactly the per-region deltas of that set — however rows were merged, reordered,
narrowed to 8/16/32 bits, and regions pruned and renumbered. -/
theorem add_then_build_retrievable (n : Nat) (sets : List (List (Nat × Int)))
    (groups : List (List Member)) (hperm : groups.flatten.Perm (addAllDedup [] sets).1)
    (hd : ∀ ds ∈ sets, ∀ rd ∈ ds, inI32 rd.2) (hn : n < 32768) (hcount : sets.length ≤ 4294967296)
    (hsub : (buildOptimized n groups).subtables.length ≤ 65536)
    (k : Nat) (ds : List (Nat × Int)) (id : Nat) (hk : sets[k]? = some ds)
    (hid : (addAllDedup [] sets).2[k]? = some id) :
    (∃ o i, (id, o, i) ∈ (buildOptimized n groups).remap) ∧
    ∀ o i, (id, o, i) ∈ (buildOptimized n groups).remap →
      retrieve (buildOptimized n groups) n o i = some (dense (normalizeDeltaSet ds) n) := by
  have hs := addAllDedup_spec sets [] storeInv_nil (by simpa using hcount)
  have hent := hs.2.2.2 k ds id hk hid
  -- members of the partition are storage entries
  have hmemE : ∀ g ∈ groups, ∀ m ∈ g, m ∈ (addAllDedup [] sets).1 := by
    intro g hg m hm
    exact hperm.mem_iff.mp (List.mem_flatten.mpr ⟨g, hg, hm⟩)
  have hd' : ∀ g ∈ groups, ∀ m ∈ g, ∀ rd ∈ m.1, inI32 rd.2 := by
    intro g hg m hm rd hrd
    rcases addAllDedup_keys sets [] m (hmemE g hg m hm) with h | ⟨d, hdm, hkey⟩
    · simp at h
    · rw [hkey] at hrd; exact hd d hdm rd (normalize_mem hrd)
  have hb := builder_retrievable n groups hd' hn hsub
  have hin : (normalizeDeltaSet ds, id) ∈ groups.flatten :=
    hperm.mem_iff.mpr (List.mem_of_getElem? hent)
  obtain ⟨g, hg, hmg⟩ := List.mem_flatten.mp hin
  constructor
  · obtain ⟨o, i, h, _⟩ := hb.1 g hg _ hmg
    exact ⟨o, i, h⟩
  · intro o i h
    obtain ⟨g', hg', m, hm, hmid, hr⟩ := hb.2 id o i h
    obtain ⟨k', hk'⟩ := List.mem_iff_getElem?.mp (hmemE g' hg' m hm)
    have := hs.1.1 k' m hk'
    rw [hmid] at this; subst this
    rw [hent] at hk'
    have hm' : m = (normalizeDeltaSet ds, id) := (Option.some.inj hk').symm
    rw [hr, hm', normalizeDeltaSet_idem]

/-- non-vacuity of the direct theorem's hypotheses. -/
example : retrieve (buildDirect 2 [[(0, 5)], [], [(1, -40000), (0, 1)]]) 2 0 2 =
    some (dense (normalizeDeltaSet [(1, -40000), (0, 1)]) 2) :=
  (builder_retrievable_direct 2 [[(0, 5)], [], [(1, -40000), (0, 1)]] (by decide) (by omega)
    (by decide) 2 (by decide)).2

/-! ## 6. metric lookup (`GlyphMetrics::advance_width` / `left_side_bearing`, hmtx + HVAR)

`hMetrics` are the `numberOfHMetrics` long records `(advance, lsb)`, `lsbs` the trailing side
bearings; values are in font units before `FixedScaleFactor::apply`. -/

open Metrics

/-- **advance_lookup**: a glyph with a long metric gets its own advance; every later glyph repeats
the *last* long metric's advance. -/
theorem advance_lookup (hMetrics : List (Int × Int)) (gid : Nat) :
    (∀ h : gid < hMetrics.length, baseAdvance hMetrics gid = hMetrics[gid].1) ∧
    (∀ h : hMetrics ≠ [], hMetrics.length ≤ gid → baseAdvance hMetrics gid = (hMetrics.getLast h).1) ∧
    (hMetrics = [] → baseAdvance hMetrics gid = 0) := by
  unfold baseAdvance
  refine ⟨fun h => ?_, fun h hg => ?_, fun h => ?_⟩
  · rw [List.getElem?_eq_getElem h]
  · rw [List.getElem?_eq_none hg, List.getLast?_eq_some_getLast h]
  · subst h; rfl

/-- **lsb_lookup**: a glyph with a long metric gets that record's side bearing; a later glyph gets
entry `gid − numberOfHMetrics` of the trailing array (0 if the array is too short). -/
theorem lsb_lookup (hMetrics : List (Int × Int)) (lsbs : List Int) (gid : Nat) :
    (∀ h : gid < hMetrics.length, baseLsb hMetrics lsbs gid = hMetrics[gid].2) ∧
    (hMetrics.length ≤ gid → baseLsb hMetrics lsbs gid = lsbs.getD (gid - hMetrics.length) 0) := by
  unfold baseLsb
  refine ⟨fun h => ?_, fun hg => ?_⟩
  · rw [List.getElem?_eq_getElem h]
  · rw [List.getElem?_eq_none hg, List.getD_eq_getElem?_getD]

/-- **metric_delta_integer_part**: the amount added to the base metric is
`Fixed::from_i32(delta).to_f64() as i32`: exactly `delta` whenever `|delta| < 2¹⁵` — and in general
`delta as i16` (this wrap is known finding `C11-metric-delta-wraps-16bit`). -/
theorem metric_delta_integer_part (d : Int) :
    deltaInt d = wrapI16 d ∧ (inI16 d → deltaInt d = d) :=
  ⟨deltaInt_eq d, fun h => by rw [deltaInt_eq, wrapI16_id h]⟩

/-- **advance_is_base_plus_delta**: `None` beyond the glyph count; otherwise the hmtx advance plus
the (integer) HVAR delta, or the bare hmtx advance when no delta applies. -/
theorem advance_is_base_plus_delta (glyphCount : Nat) (hMetrics : List (Int × Int)) (gid : Nat) :
    (glyphCount ≤ gid → ∀ delta, advanceUnits glyphCount hMetrics gid delta = none) ∧
    (gid < glyphCount → advanceUnits glyphCount hMetrics gid none = some (baseAdvance hMetrics gid)) ∧
    (gid < glyphCount → ∀ d, inI16 d →
      advanceUnits glyphCount hMetrics gid (some d) = some (baseAdvance hMetrics gid + d)) := by
  unfold advanceUnits
  refine ⟨fun h delta => by simp [h], fun h => ?_, fun h d hd => ?_⟩
  · have e : ¬ gid ≥ glyphCount := by omega
    simp [e]
  · have e : ¬ gid ≥ glyphCount := by omega
    simp only [e, if_false]
    rw [(metric_delta_integer_part d).2 hd]

/-- **lsb_is_base_plus_delta**. -/
theorem lsb_is_base_plus_delta (glyphCount : Nat) (hMetrics : List (Int × Int)) (lsbs : List Int)
    (gid : Nat) :
    (glyphCount ≤ gid → ∀ delta, lsbUnits glyphCount hMetrics lsbs gid delta = none) ∧
    (gid < glyphCount →
      lsbUnits glyphCount hMetrics lsbs gid none = some (baseLsb hMetrics lsbs gid)) ∧
    (gid < glyphCount → ∀ d, inI16 d →
      lsbUnits glyphCount hMetrics lsbs gid (some d) = some (baseLsb hMetrics lsbs gid + d)) := by
  unfold lsbUnits
  refine ⟨fun h delta => by simp [h], fun h => ?_, fun h d hd => ?_⟩
  · have e : ¬ gid ≥ glyphCount := by omega
    simp [e]
  · have e : ¬ gid ≥ glyphCount := by omega
    simp only [e, if_false]
    rw [(metric_delta_integer_part d).2 hd]

/-- **delta_set_index_map_get**: reading a `DeltaSetIndexMap` whose entries are packed as
`outer << bitCount | inner` in `entrySize` big-endian bytes returns entry `min(gid, mapCount − 1)`
(glyphs beyond the map reuse the last entry) split back into exactly `(outer, inner)`. -/
theorem delta_set_index_map_get (es bc : Nat) (hes : es = 1 ∨ es = 2 ∨ es = 3 ∨ es = 4)
    (hbc1 : 1 ≤ bc) (hbc2 : bc ≤ 16) (entries : List (Nat × Nat))
    (hfit : ∀ e ∈ entries, e.2 < 2 ^ bc ∧ e.1 < 65536 ∧ e.1 * 2 ^ bc + e.2 < 256 ^ es)
    (gid : Nat) (hne : 0 < entries.length) :
    dsimGet ((es - 1) * 16 + (bc - 1)) entries.length
      (entries.flatMap fun e => beBytes es (e.1 * 2 ^ bc + e.2)) gid =
      entries[min gid (entries.length - 1)]? :=
  dsimGet_packed es bc hes hbc1 hbc2 entries hfit gid hne

/-- **delta_set_index_map_roundtrip** (writer ∘ reader, write-fonts `DeltaSetIndexMap::from_iter` ⇄
read-fonts `DeltaSetIndexMap::get`): for every non-empty list of `outer << 16 | inner` u32 entries,
whatever entry format (`get_entry_format`: 1–16 inner bits, 1–4 bytes) and trailing-duplicate
trimming `pack_map_data` chooses, `get(gid)` returns exactly `(outer, inner)` of entry
`min(gid, len − 1)` of the original list — this is the index through which an HVAR delta is added. -/
theorem delta_set_index_map_roundtrip (mapping : List Nat) (hne : mapping ≠ [])
    (h32 : ∀ y ∈ mapping, y < 4294967296) (gid : Nat) :
    dsimGet (packMap mapping).1 (packMap mapping).2.1 (packMap mapping).2.2 gid =
      (mapping[min gid (mapping.length - 1)]?).map fun x => (x / 65536, x % 65536) :=
  packMap_get mapping hne h32 gid

example : dsimGet (packMap [0x10005, 0x20003, 0x20003]).1 (packMap [0x10005, 0x20003, 0x20003]).2.1
    (packMap [0x10005, 0x20003, 0x20003]).2.2 7 = some (2, 3) := by
  rw [delta_set_index_map_roundtrip _ (by simp) (by decide)]; decide

/-- **implicit_index**: without an advance map the delta set is `(0, gid)`. -/
theorem implicit_index (gid : Nat) (h : gid < 65536) : implicitIndex gid = (0, gid) := by
  unfold implicitIndex; rw [Nat.mod_eq_of_lt h]

/-- **unscaled_apply_exact**: with `Size::unscaled()` (scale `0x10000·64`) `FixedScaleFactor::apply`
returns the value itself as 16.16 — for every `|value| < 2¹⁵` (beyond that the 16.16 result wraps:
known finding `C11-unscaled-metric-wraps-at-32768`). -/
theorem unscaled_apply_exact (v : Int) (h : -32768 ≤ v ∧ v < 32768) :
    applyScale 4194304 v = v * 65536 := by
  unfold applyScale Fixed.mulDiv iabs wrapU64
  by_cases hv : v < 0
  · simp [hv]
    unfold wrapI32; simp only []
    split <;> split <;> omega
  · simp [hv]
    unfold wrapI32; simp only []
    split <;> omega

example : baseAdvance [(500, 10), (600, 20)] 5 = 600 := by decide
example : baseLsb [(500, 10), (600, 20)] [7, 8, 9] 3 = 8 := by decide
example : advanceUnits 9 [(500, 10), (600, 20)] 5 (some (-25)) = some 575 := by decide
example : dsimGet 0x11 2 [0, 5, 1, 3] 7 = some (64, 3) := by decide

/-! ## 7. builder ∘ reader: the delta evaluated on a built store

`denseSum canon coords row = Σ_r row[r] · computeScalar(canon[r], coords)` over *all* canonical
regions `r` of the builder (`canon` = the builder's regions in canonical order); the store's region
list is `usedRegions.map canon` (pruned, renumbered). -/

/-- **add_then_build_delta** (first and second sentence of the property together): add any delta
sets, build with any partition the optimiser may choose, then evaluate `compute_delta` at any
non-empty location through *any* index the remapping holds for the id returned for the `k`-th
set: the result is `⌊(Σ_regions delta_r · scalar_r + 2¹⁵) / 2¹⁶⌋ as i32` with the deltas exactly
as added (0 for regions the set does not name) and the tent scalars of Section 1 — merges,
reordering, narrowing, pruning and renumbering are invisible. -/
theorem add_then_build_delta (n : Nat) (canon : List (List (Int × Int × Int)))
    (hcl : canon.length = n) (sets : List (List (Nat × Int))) (groups : List (List Member))
    (hperm : groups.flatten.Perm (addAllDedup [] sets).1)
    (hd : ∀ ds ∈ sets, ∀ rd ∈ ds, inI32 rd.2) (hn : n < 32768) (hcount : sets.length ≤ 4294967296)
    (hsub : (buildOptimized n groups).subtables.length ≤ 65536)
    (k : Nat) (ds : List (Nat × Int)) (id : Nat) (hk : sets[k]? = some ds)
    (hid : (addAllDedup [] sets).2[k]? = some id) (coords : List Int) (hne : coords ≠ []) :
    ∀ o i, (id, o, i) ∈ (buildOptimized n groups).remap →
      computeDelta ((buildOptimized n groups).usedRegions.map fun r => canon.getD r [])
        (buildOptimized n groups).subtables o i coords =
        .ok (roundAccum (denseSum canon coords (dense (normalizeDeltaSet ds) n))) := by
  have hs := addAllDedup_spec sets [] storeInv_nil (by simpa using hcount)
  have hent := hs.2.2.2 k ds id hk hid
  have hmemE : ∀ g ∈ groups, ∀ m ∈ g, m ∈ (addAllDedup [] sets).1 := by
    intro g hg m hm
    exact hperm.mem_iff.mp (List.mem_flatten.mpr ⟨g, hg, hm⟩)
  have hd' : ∀ g ∈ groups, ∀ m ∈ g, ∀ rd ∈ m.1, inI32 rd.2 := by
    intro g hg m hm rd hrd
    rcases addAllDedup_keys sets [] m (hmemE g hg m hm) with h | ⟨d, hdm, hkey⟩
    · simp at h
    · rw [hkey] at hrd; exact hd d hdm rd (normalize_mem hrd)
  have hwf := optimized_encs_wf n groups hd'
  intro o i h
  obtain ⟨e, he, m, hm, hmid, hr⟩ := encodeAll_delta n canon hcl _ hwf hn hsub coords hne id o i h
  rw [List.mem_mergeSort] at he
  obtain ⟨g', hg', rfl⟩ := List.mem_map.mp he
  obtain ⟨g, hg, rfl⟩ := List.mem_map.mp hg'
  rw [List.mem_mergeSort] at hm
  obtain ⟨m0, hm0, rfl⟩ := List.mem_map.mp hm
  obtain ⟨k', hk'⟩ := List.mem_iff_getElem?.mp (hmemE g hg m0 hm0)
  have := hs.1.1 k' m0 hk'
  simp only at hmid
  rw [hmid] at this; subst this
  rw [hent] at hk'
  have hm' : m0 = (normalizeDeltaSet ds, id) := (Option.some.inj hk').symm
  unfold buildOptimized
  simp only []
  rw [hr, hm']
  simp only [normalizeDeltaSet_idem]

/-- the weighted sum on the right-hand side, spelled out: a sum over all canonical regions. -/
theorem denseSum_spelled_out (canon : List (List (Int × Int × Int))) (coords : List Int)
    (row : List Int) :
    denseSum canon coords row =
      sumOver (fun r => row.getD r 0 * computeScalar (canon.getD r []) coords)
        (List.range row.length) :=
  denseSum_eq canon coords row

/-- concrete storage used by the non-vacuity examples below. -/
private theorem ex_store : addAllDedup [] [[(0, 5)], [(0, 5)], [(0, 0)]] =
    ([([(0, 5)], 0), ([], 1)], [0, 0, 1]) := by
  simp [addAllDedup, dedupAdd, normalizeDeltaSet]

/-- non-vacuity of `add_then_build_retrievable` / `add_then_build_delta`: all hypotheses hold for a
concrete sequence of additions (with a duplicate and an all-zero set) and a concrete partition. -/
example : ∀ o i, (0, o, i) ∈ (buildOptimized 1 [[([], 1)], [([(0, 5)], 0)]]).remap →
    retrieve (buildOptimized 1 [[([], 1)], [([(0, 5)], 0)]]) 1 o i =
      some (dense (normalizeDeltaSet [(0, 5)]) 1) :=
  (add_then_build_retrievable 1 [[(0, 5)], [(0, 5)], [(0, 0)]] [[([], 1)], [([(0, 5)], 0)]]
    (by rw [ex_store]; decide) (by decide) (by omega) (by decide)
    (by rw [optimized_subtable_count _ _ (by decide)]; decide) 1 [(0, 5)] 0 (by decide)
    (by rw [ex_store]; decide)).2

example : ∀ o i, (0, o, i) ∈ (buildOptimized 1 [[([], 1)], [([(0, 5)], 0)]]).remap →
    computeDelta ((buildOptimized 1 [[([], 1)], [([(0, 5)], 0)]]).usedRegions.map
        fun r => [[(0, 16384, 16384)]].getD r [])
      (buildOptimized 1 [[([], 1)], [([(0, 5)], 0)]]).subtables o i [8192] =
      .ok (roundAccum (denseSum [[(0, 16384, 16384)]] [8192] (dense (normalizeDeltaSet [(0, 5)]) 1))) :=
  add_then_build_delta 1 [[(0, 16384, 16384)]] rfl [[(0, 5)], [(0, 5)], [(0, 0)]]
    [[([], 1)], [([(0, 5)], 0)]]
    (by rw [ex_store]; decide) (by decide) (by omega) (by decide)
    (by rw [optimized_subtable_count _ _ (by decide)]; decide) 1 [(0, 5)] 0 (by decide)
    (by rw [ex_store]; decide) [8192] (by simp)

end FontVerif.C11
