/-
C11 — Variation stores, metric deltas and axis normalisation compute specified values.
Property theorems only (helpers: Lemmas/TentLemmas.lean, Lemmas/IvsLemmas.lean, Lemmas/Round.lean).
Models: Model/Tent.lean     ⇄ read-fonts/src/tables/variations.rs (compute_scalar, compute_delta, delta_set)
        Model/Normalize.lean ⇄ read-fonts/src/tables/{fvar,avar}.rs
        Model/Ivs.lean      ⇄ write-fonts/src/tables/variations/ivs_builder.rs
        Model/Metrics.lean  ⇄ skrifa/src/metrics.rs
-/
import FontVerif.Model.Tent
import FontVerif.Model.Normalize
import FontVerif.Model.Ivs
import FontVerif.Model.Metrics
import FontVerif.Lemmas.Round
import FontVerif.Lemmas.TentLemmas
set_option linter.unusedVariables false
namespace FontVerif.C11
open FontVerif FontVerif.Tent

/-! ## 1. the tent scalar (`VariationRegion::compute_scalar`) -/

/-- every way one loop iteration can go, with the exact value it produces
(`Fixed` operands coming from F2Dot14 values, scalar in `[0, ONE]`). -/
theorem axisStep_cases (sc c s p e : Int) (hc : inF c) (hs : inF s) (hp : inF p) (he : inF e)
    (hs0 : 0 ≤ sc) (hs1 : sc ≤ 65536) :
    (Ignored s p e ∧ axisStep sc c s p e = some sc) ∨
    (¬ Ignored s p e ∧ (c < s ∨ c > e) ∧ axisStep sc c s p e = none) ∨
    (¬ Ignored s p e ∧ c = p ∧ axisStep sc c s p e = some sc) ∨
    (¬ Ignored s p e ∧ s ≤ c ∧ c < p ∧
      axisStep sc c s p e = some ((sc * (c - s) + (p - s) / 2) / (p - s))) ∨
    (¬ Ignored s p e ∧ p < c ∧ c ≤ e ∧
      axisStep sc c s p e = some ((sc * (e - c) + (e - p) / 2) / (e - p))) := by
  by_cases hi : Ignored s p e
  · left; exact ⟨hi, by unfold axisStep Ignored at *; simp [hi]⟩
  · right
    by_cases ho : c < s ∨ c > e
    · left; exact ⟨hi, ho, by unfold axisStep; unfold Ignored at hi; simp [hi, ho]⟩
    · right
      by_cases hpk : c = p
      · left; refine ⟨hi, hpk, ?_⟩
        unfold axisStep; unfold Ignored at hi
        subst hpk
        simp only [hi, ho, if_false, if_true]
      · right
        unfold Ignored at hi
        by_cases hlt : c < p
        · left; refine ⟨hi, by omega, hlt, ?_⟩
          unfold axisStep
          simp only [hi, ho, hpk, hlt, if_false, if_true]
          rw [fsub_id hc hs, fsub_id hp hs]
          unfold inF at *
          rw [(mulDiv_tent hs0 hs1 (by omega) (by omega) (by omega) (by omega)).1]
        · right; refine ⟨hi, by omega, by omega, ?_⟩
          unfold axisStep
          simp only [hi, ho, hpk, hlt, if_false]
          rw [fsub_id he hc, fsub_id he hp]
          unfold inF at *
          rw [(mulDiv_tent hs0 hs1 (by omega) (by omega) (by omega) (by omega)).1]

/-- **step_spec (rising leg)**: on `start ≤ coord < peak` the new scalar is the exact value
`scalar · (coord − start) / (peak − start)` rounded to the nearest 16.16 value (ties up). -/
theorem step_spec_up (sc c s p e : Int) (hc : inF c) (hs : inF s) (hp : inF p) (he : inF e)
    (hs0 : 0 ≤ sc) (hs1 : sc ≤ 65536) (hi : ¬ Ignored s p e) (h1 : s ≤ c) (h2 : c < p) :
    ∃ r, axisStep sc c s p e = some r ∧ IsRHA (sc * (c - s)) (p - s) r ∧ 0 ≤ r ∧ r ≤ sc := by
  rcases axisStep_cases sc c s p e hc hs hp he hs0 hs1 with h | h | h | h | h
  · exact absurd h.1 hi
  · have := h.2.1; unfold Ignored at hi; omega
  · have := h.2.1; omega
  · refine ⟨_, h.2.2.2, isRHA_formula (Int.mul_nonneg hs0 (by omega)) (by omega), ?_⟩
    unfold inF at *
    have := mulDiv_tent (s := sc) (n := c - s) (d := p - s) hs0 hs1 (by omega) (by omega) (by omega) (by omega)
    exact this.2
  · have := h.2.1; have := h.2.2.1; omega

/-- **step_spec (falling leg)**: on `peak < coord ≤ end` the new scalar is
`scalar · (end − coord) / (end − peak)` rounded to nearest. -/
theorem step_spec_down (sc c s p e : Int) (hc : inF c) (hs : inF s) (hp : inF p) (he : inF e)
    (hs0 : 0 ≤ sc) (hs1 : sc ≤ 65536) (hi : ¬ Ignored s p e) (h1 : p < c) (h2 : c ≤ e) :
    ∃ r, axisStep sc c s p e = some r ∧ IsRHA (sc * (e - c)) (e - p) r ∧ 0 ≤ r ∧ r ≤ sc := by
  rcases axisStep_cases sc c s p e hc hs hp he hs0 hs1 with h | h | h | h | h
  · exact absurd h.1 hi
  · have := h.2.1; unfold Ignored at hi; omega
  · have := h.2.1; omega
  · have := h.2.1; have := h.2.2.1; omega
  · refine ⟨_, h.2.2.2, isRHA_formula (Int.mul_nonneg hs0 (by omega)) (by omega), ?_⟩
    unfold inF at *
    have := mulDiv_tent (s := sc) (n := e - c) (d := e - p) hs0 hs1 (by omega) (by omega) (by omega) (by omega)
    exact this.2

/-- one step never leaves `[0, scalar]`. -/
theorem axisStep_range (sc c s p e : Int) (hc : inF c) (hs : inF s) (hp : inF p) (he : inF e)
    (hs0 : 0 ≤ sc) (hs1 : sc ≤ 65536) :
    ∀ r, axisStep sc c s p e = some r → 0 ≤ r ∧ r ≤ sc := by
  intro r hr
  rcases axisStep_cases sc c s p e hc hs hp he hs0 hs1 with h | h | h | h | h
  · rw [h.2] at hr; cases hr; omega
  · rw [h.2.2] at hr; cases hr
  · rw [h.2.2] at hr; cases hr; omega
  · obtain ⟨r', h1, _, h3⟩ := step_spec_up sc c s p e hc hs hp he hs0 hs1 h.1 h.2.1 h.2.2.1
    rw [h1] at hr; cases hr; exact h3
  · obtain ⟨r', h1, _, h3⟩ := step_spec_down sc c s p e hc hs hp he hs0 hs1 h.1 h.2.1 h.2.2.1
    rw [h1] at hr; cases hr; exact h3

/-- all region records / coordinates are F2Dot14 bit patterns. -/
def AxesOk (axes : List (Int × Int × Int)) : Prop :=
  ∀ a ∈ axes, inI16 a.1 ∧ inI16 a.2.1 ∧ inI16 a.2.2
def CoordsOk (coords : List Int) : Prop := ∀ c ∈ coords, inI16 c

theorem coordsOk_head {coords : List Int} (h : CoordsOk coords) : inI16 (coords.headD 0) := by
  cases coords with
  | nil => simp [inI16]
  | cons c cs => exact h c (by simp)

theorem coordsOk_tail {coords : List Int} (h : CoordsOk coords) : CoordsOk coords.tail := by
  cases coords with
  | nil => intro c hc; simp at hc
  | cons c cs => intro x hx; exact h x (by simp at hx ⊢; right; exact hx)

theorem scalarGo_range (axes : List (Int × Int × Int)) :
    ∀ (coords : List Int) (sc : Int), AxesOk axes → CoordsOk coords → 0 ≤ sc → sc ≤ 65536 →
      0 ≤ computeScalarGo sc axes coords ∧ computeScalarGo sc axes coords ≤ sc := by
  induction axes with
  | nil => intro coords sc _ _ h0 h1; simp [computeScalarGo, h0]
  | cons a rest ih =>
    intro coords sc ha hcs h0 h1
    obtain ⟨s, p, e⟩ := a
    have hh := ha (s, p, e) (by simp)
    simp only [computeScalarGo]
    have hr := axisStep_range sc (Fixed.f2dot14ToFixed (coords.headD 0)) (Fixed.f2dot14ToFixed s)
      (Fixed.f2dot14ToFixed p) (Fixed.f2dot14ToFixed e) (inF_of_f2dot14 (coordsOk_head hcs))
      (inF_of_f2dot14 hh.1) (inF_of_f2dot14 hh.2.1) (inF_of_f2dot14 hh.2.2) h0 h1
    split
    · omega
    · rename_i sc' heq
      have := hr sc' heq
      have ih' := ih coords.tail sc' (fun x hx => ha x (by simp [hx])) (coordsOk_tail hcs) this.1 (by omega)
      omega

/-- **scalar_range**: for every region and every location the scalar lies in `[0, 1]` (16.16). -/
theorem scalar_range (axes : List (Int × Int × Int)) (coords : List Int)
    (ha : AxesOk axes) (hc : CoordsOk coords) :
    0 ≤ computeScalar axes coords ∧ computeScalar axes coords ≤ 65536 := by
  have := scalarGo_range axes coords 65536 ha hc (by omega) (by omega)
  exact this

/-- raw-unit version of `Ignored` (scale invariant). -/
theorem ignored_scale (s p e : Int) :
    Ignored (Fixed.f2dot14ToFixed s) (Fixed.f2dot14ToFixed p) (Fixed.f2dot14ToFixed e) ↔ Ignored s p e := by
  unfold Ignored Fixed.f2dot14ToFixed; omega

theorem scalarGo_outside (axes : List (Int × Int × Int)) :
    ∀ (coords : List Int) (sc : Int) (i : Nat) (a : Int × Int × Int), axes[i]? = some a →
      ¬ Ignored a.1 a.2.1 a.2.2 → (coords.getD i 0 < a.1 ∨ coords.getD i 0 > a.2.2) →
      computeScalarGo sc axes coords = 0 := by
  induction axes with
  | nil => intro coords sc i a h; simp at h
  | cons b rest ih =>
    intro coords sc i a hget hi ho
    obtain ⟨s, p, e⟩ := b
    simp only [computeScalarGo]
    cases i with
    | zero =>
      simp at hget; subst hget
      have hc0 : coords.getD 0 0 = coords.headD 0 := by cases coords <;> rfl
      rw [hc0] at ho
      have : axisStep sc (Fixed.f2dot14ToFixed (coords.headD 0)) (Fixed.f2dot14ToFixed s)
          (Fixed.f2dot14ToFixed p) (Fixed.f2dot14ToFixed e) = none := by
        have hi' : ¬ Ignored (Fixed.f2dot14ToFixed s) (Fixed.f2dot14ToFixed p) (Fixed.f2dot14ToFixed e) :=
          fun h => hi ((ignored_scale s p e).mp h)
        unfold axisStep; unfold Ignored at hi'
        have : Fixed.f2dot14ToFixed (coords.headD 0) < Fixed.f2dot14ToFixed s ∨
            Fixed.f2dot14ToFixed (coords.headD 0) > Fixed.f2dot14ToFixed e := by
          have ho' : coords.headD 0 < s ∨ coords.headD 0 > e := ho
          unfold Fixed.f2dot14ToFixed; omega
        simp only [hi', this, if_false, if_true]
      rw [this]
    | succ j =>
      split
      · rfl
      · rename_i sc' _
        have hct : coords.tail.getD j 0 = coords.getD (j + 1) 0 := by cases coords <;> simp
        exact ih coords.tail sc' j a (by simpa using hget) hi (by rw [hct]; exact ho)

/-- **scalar_outside_zero**: if the location lies outside `[start, end]` on some axis that the
region does not ignore, the scalar is 0 — whatever the other axes are. -/
theorem scalar_outside_zero (axes : List (Int × Int × Int)) (coords : List Int) (i : Nat)
    (a : Int × Int × Int) (h : axes[i]? = some a) (hi : ¬ Ignored a.1 a.2.1 a.2.2)
    (ho : coords.getD i 0 < a.1 ∨ coords.getD i 0 > a.2.2) : computeScalar axes coords = 0 :=
  scalarGo_outside axes coords 65536 i a h hi ho

theorem scalarGo_peaks (axes : List (Int × Int × Int)) :
    ∀ (coords : List Int) (sc : Int),
      (∀ i a, axes[i]? = some a → Ignored a.1 a.2.1 a.2.2 ∨ coords.getD i 0 = a.2.1) →
      computeScalarGo sc axes coords = sc := by
  induction axes with
  | nil => intro coords sc _; simp [computeScalarGo]
  | cons b rest ih =>
    intro coords sc h
    obtain ⟨s, p, e⟩ := b
    simp only [computeScalarGo]
    have h0 := h 0 (s, p, e) (by simp)
    have hc0 : coords.getD 0 0 = coords.headD 0 := by cases coords <;> rfl
    rw [hc0] at h0
    have hstep : axisStep sc (Fixed.f2dot14ToFixed (coords.headD 0)) (Fixed.f2dot14ToFixed s)
        (Fixed.f2dot14ToFixed p) (Fixed.f2dot14ToFixed e) = some sc := by
      rcases h0 with h0 | h0
      · have := (ignored_scale s p e).mpr h0
        unfold axisStep; unfold Ignored at this; simp [this]
      · have h0' : coords.headD 0 = p := h0
        rw [h0']
        unfold axisStep
        split
        · rfl
        · have : ¬ (Fixed.f2dot14ToFixed p < Fixed.f2dot14ToFixed s ∨
              Fixed.f2dot14ToFixed p > Fixed.f2dot14ToFixed e) := by omega
          simp [this]
    rw [hstep]
    apply ih
    intro i a hget
    have hct : coords.tail.getD i 0 = coords.getD (i + 1) 0 := by cases coords <;> simp
    rw [hct]
    exact h (i + 1) a (by simpa using hget)

/-- **scalar_at_peak**: a location that sits on the peak of every axis the region uses has
scalar exactly 1 (`Fixed::ONE`). -/
theorem scalar_at_peak (axes : List (Int × Int × Int)) (coords : List Int)
    (h : ∀ i a, axes[i]? = some a → Ignored a.1 a.2.1 a.2.2 ∨ coords.getD i 0 = a.2.1) :
    computeScalar axes coords = 65536 :=
  scalarGo_peaks axes coords 65536 h

/-- **ignored_axis_skipped**: an axis whose record is skipped (`start > peak`, `peak > end`,
`peak = 0`, or `start < 0 < end`) does not influence the scalar. -/
theorem ignored_axis_skipped (sc : Int) (a : Int × Int × Int) (rest : List (Int × Int × Int))
    (coords : List Int) (h : Ignored a.1 a.2.1 a.2.2) :
    computeScalarGo sc (a :: rest) coords = computeScalarGo sc rest coords.tail := by
  obtain ⟨s, p, e⟩ := a
  simp only [computeScalarGo]
  have := (ignored_scale s p e).mpr h
  have hstep : axisStep sc (Fixed.f2dot14ToFixed (coords.headD 0)) (Fixed.f2dot14ToFixed s)
      (Fixed.f2dot14ToFixed p) (Fixed.f2dot14ToFixed e) = some sc := by
    unfold axisStep; unfold Ignored at this; simp [this]
  rw [hstep]

end FontVerif.C11
