/-
C17 — the tables klippa rewrites in place or rebuilds without touching glyph data: OS/2, name, post.

Model: `FontVerif.SubsetMeta` (klippa/src/os2.rs after repair 16bd57d, name.rs after 28aeb3e, post.rs header
part), tied to the real code by the `os2` / `name` / `post` correspondence groups of harness/src/bin/c17/gvar.rs.
Oracle-only (real code, not modelled): the version 2.0 glyph name rebuild of post (`post-glyph-names-preserved`).
-/
import FontVerif.Lemmas.SubsetMeta
set_option linter.unusedVariables false
namespace FontVerif.C17Meta
open FontVerif FontVerif.SubsetMeta
open FontVerif.Subset (Bytes hasFlag u16At be16)

/-- **os2_other_fields_identical.**  The emitted OS/2 table has the length of the source (whatever its
version) and every byte outside ulUnicodeRange1..4 (42..58) and usFirstCharIndex / usLastCharIndex (64..68) is
the source's byte. -/
theorem os2_other_fields_identical (flags minCp maxCp : Nat) (us : List Nat) (t out : Bytes)
    (h : subsetOs2 flags minCp maxCp us t = .ok out) :
    out.length = t.length ∧
    ∀ i, ¬ (42 ≤ i ∧ i < 58) → ¬ (64 ≤ i ∧ i < 68) → out[i]? = t[i]? := by
  obtain ⟨hl, h2⟩ := subsetOs2_ok flags minCp maxCp us t out h
  simp only [] at h2
  obtain ⟨l2, hA, hB⟩ := h2
  have l1 : (patch t 64 (be16 (min minCp 0xFFFF))).length = t.length := patch_length _ _ _ (by simp [be16]; omega)
  have get2 : ∀ i, ¬ (64 ≤ i ∧ i < 68) →
      (patch (patch t 64 (be16 (min minCp 0xFFFF))) 66 (be16 (min maxCp 0xFFFF)))[i]? = t[i]? := by
    intro i hi
    have b2 : (be16 (min maxCp 0xFFFF)).length = 2 := rfl
    have b1 : (be16 (min minCp 0xFFFF)).length = 2 := rfl
    by_cases h66 : i < 66
    · rw [patch_get_lt _ _ _ _ (by rw [l1, b2]; omega) h66]
      by_cases h64 : i < 64
      · exact patch_get_lt _ _ _ _ (by rw [b1]; omega) h64
      · exfalso; omega
    · rw [patch_get_ge _ _ _ _ (by rw [l1, b2]; omega) (by rw [b2]; omega)]
      exact patch_get_ge _ _ _ _ (by rw [b1]; omega) (by rw [b1]; omega)
  cases hf : hasFlag flags F_NO_PRUNE_UNICODE_RANGES with
  | true =>
    rw [hA hf]
    exact ⟨l2, fun i _ h64 => get2 i h64⟩
  | false =>
    rw [hB hf]
    have ml := masked_length _ us (by rw [l2]; omega)
    refine ⟨by rw [patch_length _ _ _ (by rw [ml, l2]; omega), l2], ?_⟩
    intro i h42 h64
    by_cases hlt : i < 42
    · rw [patch_get_lt _ _ _ _ (by rw [ml, l2]; omega) hlt]; exact get2 i h64
    · rw [patch_get_ge _ _ _ _ (by rw [ml, l2]; omega) (by rw [ml]; omega)]; exact get2 i h64

/-- **os2_first_last_char_index.**  usFirstCharIndex / usLastCharIndex are the plan's
`os2_info.{min,max}_cmap_codepoint` capped at 0xFFFF; and `os2_info` (`os2MinCp` / `os2MaxCp`) is the least /
greatest retained cmap code point, 0xFFFF when nothing is retained. -/
theorem os2_first_last_char_index (flags minCp maxCp : Nat) (us : List Nat) (t out : Bytes)
    (h : subsetOs2 flags minCp maxCp us t = .ok out) :
    u16At out 64 = min minCp 0xFFFF ∧ u16At out 66 = min maxCp 0xFFFF ∧
    (∀ cps : List Nat, cps ≠ [] → os2MinCp cps ∈ cps ∧ os2MaxCp cps ∈ cps ∧
      ∀ c ∈ cps, os2MinCp cps ≤ c ∧ c ≤ os2MaxCp cps) ∧
    os2MinCp [] = 0xFFFF ∧ os2MaxCp [] = 0xFFFF := by
  obtain ⟨hl, h2⟩ := subsetOs2_ok flags minCp maxCp us t out h
  simp only [] at h2
  obtain ⟨l2, hA, hB⟩ := h2
  have l1 : (patch t 64 (be16 (min minCp 0xFFFF))).length = t.length := patch_length _ _ _ (by simp [be16]; omega)
  have b2 : (be16 (min maxCp 0xFFFF)).length = 2 := rfl
  have e66 : u16At (patch (patch t 64 (be16 (min minCp 0xFFFF))) 66 (be16 (min maxCp 0xFFFF))) 66 = min maxCp 0xFFFF :=
    u16At_patch_be16 _ 66 _ (by rw [l1]; omega) (by omega)
  have e64 : u16At (patch (patch t 64 (be16 (min minCp 0xFFFF))) 66 (be16 (min maxCp 0xFFFF))) 64 = min minCp 0xFFFF := by
    have := u16At_patch_be16 t 64 (min minCp 0xFFFF) (by omega) (by omega)
    refine Eq.trans ?_ this
    unfold u16At
    rw [getD_of_getElem? _ _ 64 64 (patch_get_lt _ 66 _ 64 (by rw [l1, b2]; omega) (by omega)),
        getD_of_getElem? _ _ 65 65 (patch_get_lt _ 66 _ 65 (by rw [l1, b2]; omega) (by omega))]
  have hfin : u16At out 64 = min minCp 0xFFFF ∧ u16At out 66 = min maxCp 0xFFFF := by
    cases hf : hasFlag flags F_NO_PRUNE_UNICODE_RANGES with
    | true => rw [hA hf]; exact ⟨e64, e66⟩
    | false =>
      rw [hB hf]
      have ml := masked_length _ us (by rw [l2]; omega)
      have g : ∀ i, 58 ≤ i → (patch (patch (patch t 64 (be16 (min minCp 0xFFFF))) 66 (be16 (min maxCp 0xFFFF))) 42
          (List.zipWith (fun a b => a &&& b) (List.take 16 (List.drop 42
            (patch (patch t 64 (be16 (min minCp 0xFFFF))) 66 (be16 (min maxCp 0xFFFF))))) (rangeMaskBytes us)))[i]? =
          (patch (patch t 64 (be16 (min minCp 0xFFFF))) 66 (be16 (min maxCp 0xFFFF)))[i]? := by
        intro i hi
        exact patch_get_ge _ _ _ _ (by rw [ml, l2]; omega) (by rw [ml]; omega)
      refine ⟨?_, ?_⟩
      · refine Eq.trans ?_ e64; unfold u16At
        rw [getD_of_getElem? _ _ 64 64 (g 64 (by omega)), getD_of_getElem? _ _ 65 65 (g 65 (by omega))]
      · refine Eq.trans ?_ e66; unfold u16At
        rw [getD_of_getElem? _ _ 66 66 (g 66 (by omega)), getD_of_getElem? _ _ 67 67 (g 67 (by omega))]
  refine ⟨hfin.1, hfin.2, ?_, rfl, rfl⟩
  intro cps hne
  cases cps with
  | nil => exact absurd rfl hne
  | cons c rest =>
    obtain ⟨a1, a2, a3⟩ := foldl_min_spec rest c
    obtain ⟨b1, b2', b3⟩ := foldl_max_spec rest c
    refine ⟨?_, ?_, ?_⟩
    · show rest.foldl min c ∈ c :: rest
      rcases a1 with e | e
      · rw [e]; simp
      · simp [e]
    · show rest.foldl max c ∈ c :: rest
      rcases b1 with e | e
      · rw [e]; simp
      · simp [e]
    · intro x hx
      show rest.foldl min c ≤ x ∧ x ≤ rest.foldl max c
      rcases List.mem_cons.mp hx with rfl | hx
      · exact ⟨a2, b2'⟩
      · exact ⟨a3 x hx, b3 x hx⟩

/-- **os2_unicode_ranges_only_cleared.**  With NO_PRUNE_UNICODE_RANGES the 16 bytes of ulUnicodeRange1..4 are
the source's; otherwise byte `i` of them is the source's byte ANDed with byte `i` of the mask computed from the
plan's code points: a bit is never set that the source did not have, and (`newRanges_bit`) bit `b` of word
`w` of the mask is set exactly when some retained code point lies in a block whose OS/2 bit is `32 w + b`, or
(bit 57) some retained code point lies in 0x10000..=0x110000. -/
theorem os2_unicode_ranges_only_cleared (flags minCp maxCp : Nat) (us : List Nat) (t out : Bytes)
    (h : subsetOs2 flags minCp maxCp us t = .ok out) :
    (hasFlag flags F_NO_PRUNE_UNICODE_RANGES = true → ∀ i, 42 ≤ i → i < 58 → out[i]? = t[i]?) ∧
    (hasFlag flags F_NO_PRUNE_UNICODE_RANGES = false → ∀ i, i < 16 →
      out.getD (42 + i) 0 = t.getD (42 + i) 0 &&& (rangeMaskBytes us).getD i 0) ∧
    (∀ w b, w < 4 → (((newRanges us).getD w 0).testBit b = true ↔
      ∃ cp ∈ us, (∃ bit, unicodeRangeBit cp = some bit ∧ bit < 128 ∧ bit / 32 = w ∧ bit % 32 = b) ∨
        (w = 1 ∧ b = 25 ∧ 0x10000 ≤ cp ∧ cp ≤ 0x110000))) := by
  obtain ⟨hl, h2⟩ := subsetOs2_ok flags minCp maxCp us t out h
  simp only [] at h2
  obtain ⟨l2, hA, hB⟩ := h2
  have l1 : (patch t 64 (be16 (min minCp 0xFFFF))).length = t.length := patch_length _ _ _ (by simp [be16]; omega)
  have b2 : (be16 (min maxCp 0xFFFF)).length = 2 := rfl
  have b1 : (be16 (min minCp 0xFFFF)).length = 2 := rfl
  have get2 : ∀ i, i < 64 →
      (patch (patch t 64 (be16 (min minCp 0xFFFF))) 66 (be16 (min maxCp 0xFFFF)))[i]? = t[i]? := by
    intro i hi
    rw [patch_get_lt _ _ _ _ (by rw [l1, b2]; omega) (by omega)]
    exact patch_get_lt _ _ _ _ (by rw [b1]; omega) hi
  refine ⟨?_, ?_, fun w b hw => newRanges_bit us w b hw⟩
  · intro hf i h42 h58
    rw [hA hf]; exact get2 i (by omega)
  · intro hf i hi
    rw [hB hf]
    have ml := masked_length _ us (by rw [l2]; omega)
    have hmid := patch_get_mid (patch (patch t 64 (be16 (min minCp 0xFFFF))) 66 (be16 (min maxCp 0xFFFF))) 42
      (List.zipWith (fun a b => a &&& b) (List.take 16 (List.drop 42
        (patch (patch t 64 (be16 (min minCp 0xFFFF))) 66 (be16 (min maxCp 0xFFFF))))) (rangeMaskBytes us))
      (42 + i) (by rw [ml, l2]; omega) (by omega) (by rw [ml]; omega)
    have e1 : (List.take 16 (List.drop 42 (patch (patch t 64 (be16 (min minCp 0xFFFF))) 66
        (be16 (min maxCp 0xFFFF)))))[i]? = t[42 + i]? := by
      rw [List.getElem?_take_of_lt hi, List.getElem?_drop]
      exact get2 (42 + i) (by omega)
    simp only [List.getD_eq_getElem?_getD, hmid, Nat.add_sub_cancel_left, List.getElem?_zipWith, e1]
    have hti : 42 + i < t.length := by omega
    have hmi : i < (rangeMaskBytes us).length := by rw [rangeMaskBytes_length]; exact hi
    rw [List.getElem?_eq_getElem hti, List.getElem?_eq_getElem hmi]
    simp

/-- **name_retained_records.**  The records of the emitted name table are the source records that pass the plan's
filter (name id among `plan.name_ids`, language among `plan.name_languages`, and a Unicode platform / encoding
unless NAME_LEGACY), each exactly once, ordered by (platform, encoding, language, name id, length). -/
theorem name_retained_records (flags : Nat) (nameIds langs : List Nat) (recs : List NameRec) :
    (nameRetained flags nameIds langs recs).Perm (recs.filter (nameKeeps flags nameIds langs)) ∧
    (nameRetained flags nameIds langs recs).Pairwise (fun a b => nameKeyLe a b = true) ∧
    (∀ r, r ∈ nameRetained flags nameIds langs recs ↔
      r ∈ recs ∧ r.nid ∈ nameIds ∧ r.lang ∈ langs ∧ (hasFlag flags F_NAME_LEGACY = true ∨ r.isUnicode = true)) := by
  refine ⟨sortRecs_perm _, sortRecs_sorted _, ?_⟩
  intro r
  unfold nameRetained
  rw [(sortRecs_perm _).mem_iff, List.mem_filter]
  simp [nameKeeps, and_assoc]

/-- **name_strings_resolve.**  A successful `Name::subset` emits: version 0, the count, storageOffset =
6 + 12 * count, one 12-byte record per retained record that repeats its platform, encoding, language, name id
and length, and a storage area in which every retained record's offset points at that record's own string
bytes (records of length 0 get offset 0). -/
theorem name_strings_resolve (flags : Nat) (nameIds langs : List Nat) (recs : List NameRec) (out : Bytes)
    (hrec : recs.length < 65536)
    (h : subsetName flags nameIds langs recs = .ok out) :
    let kept := nameRetained flags nameIds langs recs
    ∃ p : Packed, kept.length * 12 + 6 < 65536 ∧
      out = be16 0 ++ be16 kept.length ++ be16 (kept.length * 12 + 6) ++
        kept.flatMap (fun r => nameRecordBytes r (nameOffset p r)) ++ storageBytes p ∧
      ∀ r ∈ kept, (r.len = 0 → nameOffset p r = 0) ∧
        (r.len ≠ 0 → ∃ s rest, r.str = some s ∧ (storageBytes p).drop (nameOffset p r) = s ++ rest) := by
  intro kept
  have hkl : kept.length ≤ recs.length := by
    show (nameRetained flags nameIds langs recs).length ≤ _
    unfold nameRetained
    rw [(sortRecs_perm _).length_eq]
    exact List.length_filter_le _ _
  have hmod : kept.length % 65536 = kept.length := Nat.mod_eq_of_lt (by omega)
  unfold subsetName at h
  simp only [] at h
  rw [show (nameRetained flags nameIds langs recs) = kept from rfl, hmod] at h
  split at h
  · cases h
  · rename_i hc
    split at h
    · cases h
    · rename_i p hp
      split at h
      · cases h
      · simp only [Except.ok.injEq] at h
        obtain ⟨hn, _, hall⟩ := packAll_spec kept [] p hp List.nodup_nil
        refine ⟨p, by omega, h.symm, ?_⟩
        intro r hr
        refine ⟨fun hz => by simp [nameOffset, hz], ?_⟩
        intro hne
        obtain ⟨s, hs, hmem⟩ := hall r hr hne
        obtain ⟨rest, hrest⟩ := storage_at p s hn hmem
        refine ⟨s, rest, hs, ?_⟩
        simp only [nameOffset, hne, ↓reduceIte, hs, Option.getD_some]
        exact hrest

/-- **post_header_preserved_partial.**  Without GLYPH_NAMES the emitted post table is the 32 header bytes of the
source with the version replaced by 3.0 (italicAngle, underline metrics, isFixedPitch and the memory hints are
the source's); with GLYPH_NAMES and a version other than 2.0 it is the unchanged 32-byte header.
MISSING (hence `_partial`): GLYPH_NAMES with a version 2.0 table, where `subset_post_v2tail` rebuilds numGlyphs,
glyphNameIndex and the Pascal strings — not modelled (`subsetPostHeader` returns `none`); the harness checks
that case on the real code only (`post-header-preserved`, `post-glyph-names-preserved`). -/
theorem post_header_preserved_partial (flags : Nat) (t out : Bytes) (h : subsetPostHeader flags t = some out) :
    out.length = 32 ∧ out.drop 4 = (t.take 32).drop 4 ∧
    (hasFlag flags F_GLYPH_NAMES = false → out.take 4 = [0, 3, 0, 0]) ∧
    (hasFlag flags F_GLYPH_NAMES = true → out = t.take 32 ∧ t.take 4 ≠ [0, 2, 0, 0]) := by
  unfold subsetPostHeader at h
  split at h
  · cases h
  · rename_i hl
    have hlen : (t.take 32).length = 32 := by simp; omega
    simp only [] at h
    split at h
    · rename_i hf
      split at h
      · cases h
      · rename_i hv
        simp only [Option.some.injEq] at h
        subst h
        refine ⟨hlen, rfl, ?_, ?_⟩
        · intro hc; rw [hf] at hc; cases hc
        · intro _
          refine ⟨rfl, ?_⟩
          intro hc
          apply hv
          rw [List.take_take]
          simpa using hc
    · rename_i hf
      simp only [Option.some.injEq] at h
      subst h
      have hf' : hasFlag flags F_GLYPH_NAMES = false := by simpa using hf
      refine ⟨?_, ?_, ?_, ?_⟩
      · rw [patch_length _ _ _ (by simp; omega)]; exact hlen
      · unfold patch; simp
      · intro _; unfold patch; simp
      · intro hc; rw [hf'] at hc; cases hc

/-! ### non-vacuity -/

/-- an OS/2 version 0 table with every range bit set; 'A' and U+1F600 retained -/
example : (subsetOs2 0 0x41 0x1F600 [0x41, 0x1F600] (List.replicate 78 255)).toOption =
    some (List.replicate 42 255 ++ [0, 0, 0, 1, 2, 0, 0, 0, 0, 0, 0, 0, 0, 0, 0, 0] ++ List.replicate 6 255 ++
      [0, 0x41, 0xFF, 0xFF] ++ List.replicate 10 255) := by decide

example : (subsetOs2 0x100 0x41 0x1F600 [0x41, 0x1F600] (List.replicate 78 255)).toOption =
    some (List.replicate 64 255 ++ [0, 0x41, 0xFF, 0xFF] ++ List.replicate 10 255) := by decide

example : os2MinCp [0x41, 0x3B1, 0x1F600] = 0x41 ∧ os2MaxCp [0x41, 0x3B1, 0x1F600] = 0x1F600 := by decide

/-- three records, one filtered by language, one empty string, two sharing one string object -/
def exRecs : List NameRec :=
  [{ pid := 3, eid := 1, lang := 0x409, nid := 2, len := 2, off := 0, str := some [0x41, 0x42] },
   { pid := 3, eid := 1, lang := 0x407, nid := 1, len := 2, off := 2, str := some [0x43, 0x44] },
   { pid := 3, eid := 1, lang := 0x409, nid := 1, len := 0, off := 9, str := none },
   { pid := 0, eid := 3, lang := 0x409, nid := 1, len := 2, off := 0, str := some [0x41, 0x42] },
   { pid := 1, eid := 0, lang := 0x409, nid := 1, len := 1, off := 4, str := some [0x45] }]

example : subsetName 0 [0, 1, 2, 3, 4, 5, 6] [0x409] exRecs = .ok
    [0, 0, 0, 3, 0, 42,
     0, 0, 0, 3, 4, 9, 0, 1, 0, 2, 0, 0,
     0, 3, 0, 1, 4, 9, 0, 1, 0, 0, 0, 0,
     0, 3, 0, 1, 4, 9, 0, 2, 0, 2, 0, 0,
     0x41, 0x42] := ok_of_toOption _ _ (by decide)

example : exRecs.length < 65536 := by decide

example : subsetPostHeader 0 ([0, 2, 0, 0] ++ List.replicate 30 7) = some ([0, 3, 0, 0] ++ List.replicate 28 7) := by
  decide

example : subsetPostHeader 0x80 ([0, 3, 0, 0] ++ List.replicate 28 7) = some ([0, 3, 0, 0] ++ List.replicate 28 7) := by
  decide

end FontVerif.C17Meta
