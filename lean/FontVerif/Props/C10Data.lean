/-
C10 (part 2) — the glyph variation DATA between the packed streams and the table layout:
`TupleVariationHeader`s, shared / private point numbers, shared / embedded peak tuples, intermediate
regions.  Property theorems only (helper lemmas: Lemmas/GvarData.lean).
Model: Model/GvarData.lean ⇄ write-fonts `tables/gvar.rs`, `tables/variations.rs`;
       read-fonts `tables/gvar.rs`, `tables/variations.rs`.
-/
import FontVerif.Model.GvarData
import FontVerif.Model.GvarLayout
import FontVerif.Lemmas.GvarData
import FontVerif.Props.C10
set_option linter.unusedVariables false
namespace FontVerif.C10
open FontVerif FontVerif.PackedDeltas FontVerif.GvarData

/-! ### `Tent::requires_intermediate` -/

/-- **The intermediate region is dropped exactly when it is implied.**  For every list of tents,
`GlyphDeltas::new` leaves the start / end tuples out of the header iff EVERY tent's `(min, max)`
equals `(min(peak, 0), max(peak, 0))`; otherwise it writes the tents' `min`s and `max`es, all of
them.  (Seed C10-6 turned the per-tent test into "both ends differ".) -/
theorem intermediate_dropped_iff_implied (tents : List Tent) (ds : List GDelta) (t : TupleIn)
    (h : glyphDeltasNew tents ds = some t) :
    (t.inter = none ↔ ∀ x ∈ tents, x.min = min x.peak 0 ∧ x.max = max x.peak 0) ∧
    (t.inter ≠ none → t.inter = some (tents.map (·.min), tents.map (·.max))) ∧
    t.peak = tents.map (·.peak) := by
  unfold glyphDeltasNew at h
  cases hb : pickBest ds with
  | none => simp [hb] at h
  | some b =>
    simp only [hb, Option.some.injEq] at h
    subst h
    have key : ∀ x : Tent, x.requiresIntermediate = false ↔ (x.min = min x.peak 0 ∧ x.max = max x.peak 0) := by
      intro x
      simp only [Tent.requiresIntermediate, impliedFor, ne_eq, decide_not, Bool.not_eq_false',
        decide_eq_true_eq, Prod.mk.injEq]
      constructor
      · rintro ⟨h1, h2⟩; rw [h1, h2]; constructor <;> (split <;> omega)
      · rintro ⟨h1, h2⟩; rw [h1, h2]; constructor <;> (split <;> omega)
    refine ⟨?_, ?_, rfl⟩
    · simp only []
      constructor
      · intro hn x hx
        have : tents.any Tent.requiresIntermediate = false := by
          cases ha : tents.any Tent.requiresIntermediate
          · rfl
          · simp [ha] at hn
        rw [List.any_eq_false] at this
        exact (key x).mp (by simpa using this x hx)
      · intro hall
        have : tents.any Tent.requiresIntermediate = false := by
          rw [List.any_eq_false]
          intro x hx
          simpa using (key x).mpr (hall x hx)
        simp [this]
    · simp only []
      intro hne
      split
      · rfl
      · rename_i hf; simp [hf] at hne

/-! ### write → read -/

/-- **`glyph_variations_roundtrip`.**  Take any non-empty list of tuples as the public API accepts
them — each a list of tents (with or without explicit intermediates) and a list of deltas with
required / optional marks, all tuples over `ax` axes — ANY list `shared` of shared peak tuples with
ANY lookup into it that returns valid indices below 4096, and ANY choice `sharedPts` of shared point
numbers that is itself a skippable packed point-number block.  If write-fonts serialises the glyph
(`hw`: no panic), then read-fonts' `GlyphVariationData::new` on those bytes — followed by anything,
e.g. the padding byte of short offsets — succeeds and its tuple iterator returns exactly one tuple
per written tuple, in order, and for each of them
* `peak()` is the tents' peaks (embedded, or found through the shared tuple index),
* the intermediate start / end tuples are what `GlyphDeltas::new` kept (`intermediate_dropped_iff_implied`),
* `has_deltas_for_all_points()` says whether the writer chose the "all points" form, and
* `deltas()` yields `(point, x, y)` for every point (all-points form) or for exactly the required
  points (explicit form: private or shared point numbers), each with its own index and its own
  deltas, in ascending point order (`listed`, characterised by `listed_spec`).
Sizes: at most 32767 deltas per tuple (the 15-bit point count), i16 values (the Rust types). -/
theorem glyph_variations_roundtrip (ax : Nat) (shared : List (List Int))
    (lookup : List Int → Option Nat)
    (hlk : ∀ p i, lookup p = some i → i < 4096 ∧ shared[i]? = some p)
    (sharedPts : Option PPN)
    (hsp : ∀ q, sharedPts = some q →
      ∃ sq, ppnBytes q = some sq ∧ ∀ tail, splitRemainder (sq ++ tail) = tail)
    (inputs : List (List Tent × List GDelta)) (hne : inputs ≠ [])
    (hax : ∀ i ∈ inputs, i.1.length = ax)
    (ht16 : ∀ i ∈ inputs, ∀ x ∈ i.1, inI16 x.peak ∧ inI16 x.min ∧ inI16 x.max)
    (hlen : ∀ i ∈ inputs, i.2.length ≤ 32767)
    (hd16 : ∀ i ∈ inputs, ∀ d ∈ i.2, inI16 d.1 ∧ inI16 d.2.1)
    (ts : List TupleIn) (hnew : inputs.mapM (fun i => glyphDeltasNew i.1 i.2) = some ts)
    (bytes : List Nat) (hw : writeGlyphWith lookup sharedPts ts = some bytes) (rest : List Nat) :
    ∃ g, readGlyph ax (bytes ++ rest) = some g ∧
      g.tuples.map (RawTuple.view shared g.sharedPts) = ts.map TupleIn.view ∧
      ts.map (·.deltas) = inputs.map (·.2) := by
  obtain ⟨hl, hi⟩ := mapM_some_length _ inputs ts hnew
  have hok : ∀ t ∈ ts, TupleOk ax t := by
    intro t ht
    obtain ⟨k, hk, rfl⟩ := List.mem_iff_getElem.mp ht
    have hk' : k < inputs.length := by omega
    have hmem : inputs[k] ∈ inputs := List.getElem_mem hk'
    have := hi k hk'
    rw [List.getElem?_eq_getElem hk] at this
    exact (glyphDeltasNew_ok ax _ _ _ this (hax _ hmem) (ht16 _ hmem) (hlen _ hmem) (hd16 _ hmem)).1
  have hne' : ts ≠ [] := by
    intro h; subst h; simp at hl; exact hne (List.length_eq_zero_iff.mp hl.symm)
  obtain ⟨g, g1, g2⟩ := writeGlyphWith_roundtrip ax shared lookup hlk sharedPts hsp ts hne' hok bytes hw rest
  refine ⟨g, g1, g2, ?_⟩
  apply List.ext_getElem (by simp [hl])
  intro k h1 h2
  simp only [List.length_map] at h1 h2
  have := hi k h2
  rw [List.getElem?_eq_getElem h1] at this
  have hmem : inputs[k] ∈ inputs := List.getElem_mem h2
  have := (glyphDeltasNew_ok ax _ _ _ this (hax _ hmem) (ht16 _ hmem) (hlen _ hmem) (hd16 _ hmem)).2.1
  simpa using this

/-- what `listed` contains: with `all` every point `k` with its deltas, otherwise exactly the
required points; in ascending order of `k` (the list is a filtered enumeration). -/
theorem listed_spec (all : Bool) (ds : List GDelta) (k : Nat) (x y : Int) :
    (k, x, y) ∈ listed all ds ↔ ∃ r, ds[k]? = some (x, y, r) ∧ (all = true ∨ r = true) := by
  have hidx : ∀ (ds : List GDelta) (i : Nat) (e : Nat × GDelta),
      e ∈ indexed i ds ↔ i ≤ e.1 ∧ ds[e.1 - i]? = some e.2 := by
    intro ds
    induction ds with
    | nil => intro i e; simp [indexed]
    | cons d ds ih =>
      intro i e
      simp only [indexed, List.mem_cons, ih]
      constructor
      · rintro (rfl | ⟨h1, h2⟩)
        · simp
        · refine ⟨by omega, ?_⟩
          have : e.1 - i = (e.1 - (i + 1)) + 1 := by omega
          rw [this]; simpa using h2
      · rintro ⟨h1, h2⟩
        by_cases he : e.1 = i
        · left
          have : e.1 - i = 0 := by omega
          rw [this] at h2
          simp only [List.getElem?_cons_zero, Option.some.injEq] at h2
          exact Prod.ext he h2.symm
        · right
          refine ⟨by omega, ?_⟩
          have : e.1 - i = (e.1 - (i + 1)) + 1 := by omega
          rw [this] at h2; simpa using h2
  simp only [listed, List.mem_map, List.mem_filter, hidx, Nat.zero_le, true_and, Nat.sub_zero]
  constructor
  · rintro ⟨e, ⟨h1, h2⟩, h3⟩
    obtain ⟨ek, ex, ey, er⟩ := e
    simp only [Prod.mk.injEq] at h3
    obtain ⟨rfl, rfl, rfl⟩ := h3
    exact ⟨er, h1, by simpa using h2⟩
  · rintro ⟨r, h1, h2⟩
    exact ⟨(k, x, y, r), ⟨h1, by simpa using h2⟩, rfl⟩

/-- **the implemented heuristics round-trip** (corollary): with the shared point numbers chosen by
`compute_shared_points` (most bytes saved, first wins on ties) and the shared peak tuples looked up
in any list of at most 4096 tuples — in particular the one `compute_shared_peak_tuples` builds
(`sharedPeakTuples`, at most 4095 entries) — `GlyphVariations::build` + `write_into` is read back
as in `glyph_variations_roundtrip`. -/
theorem glyph_variations_roundtrip_heuristics (ax : Nat) (shared : List (List Int))
    (hshared : shared.length ≤ 4096)
    (inputs : List (List Tent × List GDelta)) (hne : inputs ≠ [])
    (hax : ∀ i ∈ inputs, i.1.length = ax)
    (ht16 : ∀ i ∈ inputs, ∀ x ∈ i.1, inI16 x.peak ∧ inI16 x.min ∧ inI16 x.max)
    (hlen : ∀ i ∈ inputs, i.2.length ≤ 32767)
    (hd16 : ∀ i ∈ inputs, ∀ d ∈ i.2, inI16 d.1 ∧ inI16 d.2.1)
    (ts : List TupleIn) (hnew : inputs.mapM (fun i => glyphDeltasNew i.1 i.2) = some ts)
    (bytes : List Nat) (hw : writeGlyph shared ts = some bytes) (rest : List Nat) :
    ∃ g, readGlyph ax (bytes ++ rest) = some g ∧
      g.tuples.map (RawTuple.view shared g.sharedPts) = ts.map TupleIn.view ∧
      ts.map (·.deltas) = inputs.map (·.2) := by
  unfold writeGlyph at hw
  cases hc : computeSharedPoints ts with
  | none => simp [hc] at hw
  | some sp =>
    simp only [hc] at hw
    refine glyph_variations_roundtrip ax shared (lookupIn shared)
      (fun p i h => by obtain ⟨h1, h2⟩ := lookupIn_spec shared p i h; exact ⟨by omega, h2⟩)
      sp ?_ inputs hne hax ht16 hlen hd16 ts hnew bytes hw rest
    intro q hq
    subst hq
    obtain ⟨t, ht, hb⟩ := computeSharedPoints_mem ts q hc
    obtain ⟨hl, hi⟩ := mapM_some_length _ inputs ts hnew
    obtain ⟨k, hk, rfl⟩ := List.mem_iff_getElem.mp ht
    have hk' : k < inputs.length := by omega
    have hmem : inputs[k] ∈ inputs := List.getElem_mem hk'
    have := hi k hk'
    rw [List.getElem?_eq_getElem hk] at this
    have tok := (glyphDeltasNew_ok ax _ _ _ this (hax _ hmem) (ht16 _ hmem) (hlen _ hmem) (hd16 _ hmem)).1
    rw [← hb]
    exact sharedOk_best _ _ tok.best tok.len

/-- `compute_shared_peak_tuples` never yields more than 4095 tuples, so every shared tuple index
fits the 12 index bits of `tupleIndex` next to the three flag bits. -/
theorem shared_peak_tuples_fit (glyphs : List (List TupleIn)) :
    (sharedPeakTuples glyphs).length ≤ 4095 := sharedPeakTuples_length glyphs

open FontVerif.GvarLayout in
/-- **`Gvar::new` → table → `glyph_variation_data(gid)`, end to end.**  If `Gvar::new` accepts the
glyphs (`.ok`: no `GvarInputError`, no panic) and every `GlyphDeltas` is well formed (`TupleOk`:
what `GlyphDeltas::new`, the Rust types and `validate` guarantee, `glyphDeltasNew_ok`), then in the
table write-fonts lays out (`hdr` = the 20 header bytes + offsets array, short or long offsets as
`compute_flags` decides) glyph `i` — in gid order — resolves through `data_for_gid` to
* no data at all iff the glyph has no tuples, and otherwise
* bytes (its data, plus the padding byte of short offsets) on which `GlyphVariationData::new` and
  the tuple iterator return the glyph's tuples exactly as in `glyph_variations_roundtrip`, peaks
  looked up in the table's shared tuples (`sharedPeakTuples`). -/
theorem gvar_new_roundtrip (glyphs : List (Nat × List TupleIn)) (ax : Nat)
    (shared : List (List Int)) (blobs : List (List Nat))
    (h : gvarNew glyphs ax = .ok shared blobs)
    (hok : ∀ g ∈ glyphs, ∀ t ∈ g.2, TupleOk ax t)
    (hdr : List Nat) (hhdr : hdr.length = dataArrayOffset (useLong blobs) blobs.length)
    (hsz : (hdr ++ writeData (useLong blobs) hdr.length blobs).length < 4294967296)
    (i : Nat) (hi : i < blobs.length) :
    blobs.length = (glyphs.foldr insertByGid []).length ∧
    ∃ ts, ((glyphs.foldr insertByGid [])[i]?).map (·.2) = some ts ∧
      match dataForGid (hdr ++ writeData (useLong blobs) hdr.length blobs) (useLong blobs)
          (dataArrayOffset (useLong blobs) blobs.length) (storedOffsets (useLong blobs) blobs) i with
      | some none => ts = []
      | some (some data) => ts ≠ [] ∧ ∃ g, readGlyph ax data = some g ∧
          g.tuples.map (RawTuple.view shared g.sharedPts) = ts.map TupleIn.view
      | none => False := by
  unfold gvarNew at h
  split at h
  · cases h
  · split at h
    · cases h
    · simp only [] at h
      split at h
      · cases h
      · rename_i blobs' hm
        injection h with h1 h2
        subst h1; subst h2
        obtain ⟨hl, hv⟩ := mapM_some_length _ _ _ hm
        have hi' : i < (glyphs.foldr insertByGid []).length := by omega
        refine ⟨hl, ((glyphs.foldr insertByGid [])[i]).2, by simp [List.getElem?_eq_getElem hi'], ?_⟩
        have hwi := hv i hi'
        rw [List.getElem?_eq_getElem hi] at hwi
        have hmem : (glyphs.foldr insertByGid [])[i] ∈ glyphs :=
          (mem_sorted glyphs _).mp (List.getElem_mem hi')
        have hres := gvar_offsets_resolve blobs' (useLong blobs') hdr hhdr hsz i hi
        rw [hres]
        have hget : blobs'.getD i [] = blobs'[i] := by
          rw [List.getD_eq_getElem?_getD, List.getElem?_eq_getElem hi]; rfl
        rw [hget]
        by_cases hts : ((glyphs.foldr insertByGid [])[i]).2 = []
        · rw [hts, writeGlyph_empty] at hwi
          injection hwi with hwi
          rw [← hwi]
          simpa using hts
        · have hne := writeGlyph_nonempty _ _ hts _ hwi
          have hemp : blobs'[i].isEmpty = false := by
            cases hb : blobs'[i] with
            | nil => exact absurd hb hne
            | cons _ _ => rfl
          simp only [hemp, Bool.false_eq_true, if_false]
          refine ⟨hts, ?_⟩
          exact writeGlyph_roundtrip ax _ (by have := sharedPeakTuples_length (glyphs.map (·.2)); omega)
            _ hts (hok _ hmem) _ hwi _

-- non-vacuity: a triangle (+4 phantom points) with a sparse tuple and an all-points tuple, one axis;
-- the peak is used twice so it is a shared tuple; the second tent needs its intermediate region.
example :
    let t1 := glyphDeltasNew [Tent.new 16384 none]
      [(10, 0, true), (20, 5, false), (-7, 9, false), (0, 0, false), (0, 0, false), (0, 0, false), (0, 0, false)]
    let t2 := glyphDeltasNew [Tent.new 16384 (some (8192, 16384))]
      [(1, 1, true), (2, 2, true), (3, 3, true), (0, 0, true), (0, 0, true), (0, 0, true), (0, 0, true)]
    (t1.map (·.best) = some (some [0])) ∧ (t2.map (·.best) = some none) ∧
    (t2.bind (·.inter) = some ([8192], [16384])) ∧ (t1.bind (·.inter) = none) := by decide

set_option synthInstance.maxSize 1024 in
example :
    ((glyphDeltasNew [Tent.new 16384 none]
        [(10, 0, true), (20, 5, false), (-7, 9, false), (0, 0, false), (0, 0, false), (0, 0, false), (0, 0, false)]).bind
      fun t1 => (glyphDeltasNew [Tent.new 16384 (some (8192, 16384))]
        [(1, 1, true), (2, 2, true), (3, 3, true), (0, 0, true), (0, 0, true), (0, 0, true), (0, 0, true)]).bind
      fun t2 => (writeGlyph [[16384]] [t1, t2]).bind
      fun bytes => (readGlyph 1 (bytes ++ [0])).map
      fun g => g.tuples.map (RawTuple.view [[16384]] g.sharedPts))
    = some [([16384], none, false, [(0, 10, 0)]),
            ([16384], some ([8192], [16384]), true,
              [(0, 1, 1), (1, 2, 2), (2, 3, 3), (3, 0, 0), (4, 0, 0), (5, 0, 0), (6, 0, 0)])] := by
  decide +kernel

end FontVerif.C10
