/-
C01 (hand-written code) — termination, iteration bounds, in-range indices / slices and absence of arithmetic
traps for the models of Model/HandVar.lean ⇄ read-fonts/src/tables/variations.rs / gvar.rs / cvar.rs / hvar.rs / vvar.rs / mvar.rs / avar.rs (tuple variation headers, shared / private point numbers, phantom deltas, DeltaSetIndexMap, ItemVariationStore deltas).
Tied to the real functions by harness group `vars.model` (`hv.*` driver commands).
-/
import FontVerif.Model.HandVar
import FontVerif.Lemmas.ReadIter
set_option linter.unusedVariables false
set_option linter.unusedSimpArgs false
namespace FontVerif.C01HandVar
open FontVerif FontVerif.ReadIter FontVerif.HandRead FontVerif.HandVar

end FontVerif.C01HandVar
