/-
C01 (hand-written code) — termination, iteration bounds, in-range indices / slices and absence of arithmetic
traps for the models of Model/HandVar.lean ⇄ read-fonts/src/tables/variations.rs / gvar.rs / cvar.rs / hvar.rs / vvar.rs / mvar.rs / avar.rs (tuple variation headers, shared / private point numbers, phantom deltas, DeltaSetIndexMap, ItemVariationStore deltas).
Tied to the real functions by harness group `vars.model` (`hv.*` driver commands).

Standing hypotheses: `ac ≤ 65535` (`axis_count` is a `u16`) and, where values are claimed to be `i16`s,
`Bytes d` (the list holds bytes).  `none` / `.trap` results of the model are panics of the strict profile.
-/
import FontVerif.Lemmas.HandVar
set_option linter.unusedVariables false
set_option linter.unusedSimpArgs false
namespace FontVerif.C01HandVar
open FontVerif FontVerif.ReadIter FontVerif.HandRead FontVerif.HandVar

/-! ## `TupleVariationHeader` -/

/-- **the `unwrap`s of a successfully read tuple variation header never fire**: if
`TupleVariationHeader::read(data, axis_count)` is `Ok`, then `variation_data_size()`, `tuple_index()`,
`peak_tuple()`, `intermediate_start_tuple()`, `intermediate_end_tuple()`, `intermediate_tuples()` and
`byte_len()` do not panic (no failing `read_array(range).unwrap()`, no overflow in the unchecked range
and length sums), every embedded tuple has exactly `axis_count` values, and `byte_len()` — the sum of the
flag-dependent tuple lengths behind the 4 fixed bytes — does not exceed the data the header was read
from (so every tuple slice lies inside it). -/
theorem header_getters_safe (d : List Nat) (ac : Nat) (h : Hdr) (hac : ac ≤ 65535)
    (hr : tvhRead d ac = some h) :
    h.size.isSome ∧ h.ti.isSome ∧ h.peakTuple ≠ .trap ∧ h.interStartTuple ≠ .trap ∧
    h.interEndTuple ≠ .trap ∧ h.interTuples ≠ .trap ∧
    (∀ v, h.peakTuple = .some v ∨ h.interStartTuple = .some v ∨ h.interEndTuple = .some v → v.length = ac) ∧
    (∃ n, h.byteLen ac = some n ∧ 4 ≤ n ∧ n ≤ d.length ∧ n = 4 + h.peakLen + h.isLen + h.ieLen) := by
  obtain ⟨ti, hTi, ⟨sz, hsz⟩, hd, hpl, hil, hel, hpk, his, hie, hit, hbl, hlen⟩ := hdr_getters hac hr
  refine ⟨by simp [hsz], by simp [hTi], ?_, ?_, ?_, ?_, ?_, ⟨_, hbl, by omega, hlen, rfl⟩⟩
  · rw [hpk]; split <;> simp
  · rw [his]; split <;> simp
  · rw [hie]; split <;> simp
  · rw [hit]; split <;> simp
  · intro v hv
    rw [hpk, his, hie] at hv
    rcases hv with hv | hv | hv <;> split at hv <;> first | (injection hv with hv; subst hv; exact tupleVals_length _ _ _) | cases hv

/-- the header read fails exactly when the flag-dependent length does not fit: `Ok` iff
`4 + (embedded ? 2·axes : 0) + (intermediate ? 4·axes : 0) ≤ data.len()` -/
theorem header_read_iff (d : List Nat) (ac : Nat) (hac : ac ≤ 65535) :
    (tvhRead d ac).isSome ↔
      ∃ ti, readAt d 2 2 = some ti ∧
        4 + (if tiEmbedded ti then 2 * ac else 0) + (if tiInter ti then 4 * ac else 0) ≤ d.length := by
  constructor
  · intro h
    obtain ⟨hd, hh⟩ := Option.isSome_iff_exists.mp h
    obtain ⟨ti, hti, _, hpk, his, hie, hlen⟩ := tvhRead_some hac hh
    refine ⟨ti, hti, ?_⟩
    rw [hie, hpk, his] at hlen
    split at hlen <;> split at hlen <;> simp_all <;> omega
  · intro ⟨ti, hti, hlen⟩
    unfold tvhRead
    rw [hti]
    simp only []
    have h0 := tupleLen_le ti ac 0
    have h1 := tupleLen_le ti ac 1
    have e0 : checkedMul (tupleLen ti ac 0) 2 = some (tupleLen ti ac 0 * 2) := by
      unfold checkedMul MAXU; rw [if_pos (by omega)]
    have e1 : checkedMul (tupleLen ti ac 1) 2 = some (tupleLen ti ac 1 * 2) := by
      unfold checkedMul MAXU; rw [if_pos (by omega)]
    rw [e0, e1]
    simp only []
    rw [satAdd_exact 4 _ (by unfold MAXU; omega)]
    rw [satAdd_exact (4 + tupleLen ti ac 0 * 2) _ (by unfold MAXU; omega)]
    rw [satAdd_exact _ _ (by unfold MAXU; omega)]
    rw [tupleLen0, tupleLen1]
    rw [if_pos (by split at hlen <;> split at hlen <;> simp_all <;> omega)]
    simp

/-! ## `TupleVariationHeaderIter` -/

/-- **`TupleVariationHeaderIter` yields exactly `n_headers` items and never panics**: for every data,
every count `n ≤ 4095` (`tupleVariationCount & 0x0FFF`) and axis count, the iterator makes exactly `n`
trips (`current` counts up to `n_headers`; the `?` behind `data.split_off(next_len)` never fires, because
`byte_len` of an `Ok` header was validated by the read and is 0 for an `Err`), and the `Ok` headers
together consume at most the data: `4 · #Ok ≤ data.len()`. -/
theorem header_iter_exact (d : List Nat) (n ac : Nat) (hn : n ≤ 4095) (hac : ac ≤ 65535) :
    ∃ evs, tvhTrace d n ac = some evs ∧ evs.length = n ∧ (items evs).length = n ∧
      trapped evs = false ∧ 4 * okHeaders evs ≤ d.length := by
  let Inv : HSt → Prop := fun s => s.current ≤ n
  have hInv : ∀ s, Inv s → Inv (tvhNext n ac s).2 := fun s hi => (tvhNext_facts n ac hac hn s hi).1
  obtain ⟨evs, he, hl⟩ := run_exact (tvhNext n ac) (fun s => n - s.current) Inv hInv
    (fun s hi => by
      have := (tvhNext_facts n ac hac hn s hi).2.2.2.1
      constructor
      · intro h; have := this.mp h; omega
      · intro h; exact this.mpr (by show s.current = n; have : s.current ≤ n := hi; omega))
    (fun s hi hnd => by
      have h1 := (tvhNext_facts n ac hac hn s hi).2.2.2.2.1 hnd
      have h2 := (tvhNext_facts n ac hac hn s hi).2.2.2.1
      have : s.current ≠ n := fun h => hnd (h2.mpr h)
      have : s.current ≤ n := hi
      omega)
    (fun s hi => (tvhNext_facts n ac hac hn s hi).2.1)
    (n + 1) ⟨d, 0⟩ (Nat.zero_le _) (by simp)
  have hnt := not_trapped (tvhNext n ac) Inv hInv (fun s hi => (tvhNext_facts n ac hac hn s hi).2.1)
    _ _ _ (Nat.zero_le _ : Inv ⟨d, 0⟩) he
  have hw := weight_le (tvhNext n ac) (fun s => s.data.length) (fun o => if o.isSome then 4 else 0) Inv hInv
    (fun s a hi hy => by
      have hf := tvhNext_facts n ac hac hn s hi
      cases a with
      | none => simp; exact hf.2.2.2.2.2.1
      | some h => simp; exact (hf.2.2.2.2.2.2 h hy).2)
    (fun s hi hc => absurd hc (tvhNext_facts n ac hac hn s hi).2.2.1)
    _ _ _ (Nat.zero_le _ : Inv ⟨d, 0⟩) he
  have hnc : ∀ (f : Nat) (s : HSt) (evs : List (Out (Option Hdr))), Inv s → run (tvhNext n ac) f s = some evs →
      (items evs).length = evs.length := by
    intro f
    induction f with
    | zero => intro s evs _ h; simp [run] at h
    | succ f ih =>
      intro s evs hi h
      have hI := hInv s hi
      have hC := (tvhNext_facts n ac hac hn s hi).2.2.1
      unfold run at h
      split at h
      · simp at h; subst h; simp [items]
      · simp at h; subst h
        rename_i s' hs
        exact absurd (by rw [hs]) (tvhNext_facts n ac hac hn s hi).2.1
      · rename_i s' hs; exact absurd (by rw [hs]) hC
      · rename_i a s' hs
        cases hr : run (tvhNext n ac) f s' with
        | none => simp [hr] at h
        | some r =>
          simp [hr] at h; subst h
          rw [hs] at hI
          simp [items, ih s' r hI hr]
  refine ⟨evs, he, by simpa using hl, ?_, hnt, ?_⟩
  · rw [hnc _ _ _ (Nat.zero_le _ : Inv ⟨d, 0⟩) he]; simpa using hl
  · have : weight (fun o : Option Hdr => if o.isSome then 4 else 0) evs = 4 * okHeaders evs := by
      unfold weight okHeaders
      generalize items evs = l
      induction l with
      | nil => simp
      | cons a r ih =>
        cases a <;> simp [List.filter, ih] <;> omega
    rw [this] at hw
    simpa using hw

/-! ## `TupleVariationIter` -/

/-- **`TupleVariationData::tuples()` terminates within the count and the data length, never panics,
and hands out only slices of the serialized data**: for every `TupleVariationData` (any header bytes,
any serialized bytes, any count bits) the iterator makes at most `count & 0x0FFF ≤ 4095` trips; every
yielded tuple has a header that was read successfully (so its unwrapping getters are safe), consumes at
least 4 header bytes — at most `header_data.len() / 4` tuples — and the tuples' `variation_data_size`
slices are consecutive pieces of the serialized data: their lengths add up to at most
`serialized_data.len()` (`take_up_to` refuses a size beyond the rest). -/
theorem tuples_iter_bounded (p : TVD) (hac : p.ac ≤ 65535) :
    ∃ evs, tvTrace p = some evs ∧ evs.length ≤ tvcCount p.countBits ∧ tvcCount p.countBits ≤ 4095 ∧
      trapped evs = false ∧ 4 * (items evs).length ≤ p.headerData.length ∧
      ((items evs).map (fun t => t.varData.length)).sum ≤ p.ser.length ∧
      ∀ t ∈ items evs, ∃ d', tvhRead d' p.ac = some t.hdr ∧ d'.length ≤ p.headerData.length := by
  have h0 : TInv p p.tuplesInit := by simp [TInv, TVD.tuplesInit]
  have hInv : ∀ s, TInv p s → TInv p (tvNext p s).2 := fun s hi => (tvNext_facts p hac s hi).1
  obtain ⟨evs, he, hl⟩ := run_complete (tvNext p) (fun s => tvcCount p.countBits - s.current) (TInv p) hInv
    (fun s hi hnd => by have := (tvNext_facts p hac s hi).2.2.1 hnd; omega)
    (tvcCount p.countBits + 1) p.tuplesInit h0 (by simp [TVD.tuplesInit])
  have hnt := not_trapped (tvNext p) (TInv p) hInv (fun s hi => (tvNext_facts p hac s hi).2.1) _ _ _ h0 he
  have hw1 := weight_le (tvNext p) (fun s => s.h.data.length) (fun _ => 4) (TInv p) hInv
    (fun s a hi hy => ((tvNext_facts p hac s hi).2.2.2.2.2 a hy).2.1)
    (fun s hi _ => (tvNext_facts p hac s hi).2.2.2.1) _ _ _ h0 he
  have hw2 := weight_le (tvNext p) (fun s => s.ser.length) (fun t => t.varData.length) (TInv p) hInv
    (fun s a hi hy => by have := ((tvNext_facts p hac s hi).2.2.2.2.2 a hy).2.2; omega)
    (fun s hi _ => (tvNext_facts p hac s hi).2.2.2.2.1) _ _ _ h0 he
  have hall := items_all (tvNext p) (fun s => TInv p s ∧ s.h.data.length ≤ p.headerData.length)
    (fun t => ∃ d', tvhRead d' p.ac = some t.hdr ∧ d'.length ≤ p.headerData.length)
    (fun s hi => ⟨hInv s hi.1, by have := (tvNext_facts p hac s hi.1).2.2.2.1; omega⟩)
    (fun s a hi hy => ⟨s.h.data, ((tvNext_facts p hac s hi.1).2.2.2.2.2 a hy).1, hi.2⟩)
    _ _ _ ⟨h0, by simp [TVD.tuplesInit]⟩ he
  refine ⟨evs, he, by simpa [TVD.tuplesInit] using hl, tvcCount_le _, hnt, ?_, ?_, hall⟩
  · have : weight (fun _ : TV => 4) evs = 4 * (items evs).length := by
      unfold weight
      generalize items evs = l
      induction l with
      | nil => simp
      | cons a r ih => simp [ih]; omega
    rw [this] at hw1
    simpa [TVD.tuplesInit] using hw1
  · simpa [weight, TVD.tuplesInit] using hw2

/-! ## `TupleVariation` -/

/-- **the accessors of a yielded tuple never panic and index inside the data**: for a tuple whose
header was read successfully, `peak()` (shared tuple by `tuple_records_index`, else the embedded one,
else the empty default), `point_numbers_and_packed_deltas()`, `has_deltas_for_all_points()` and
`compute_scalar_f32()` return; the peak has `axis_count` values or none at all, a shared peak lies
inside the shared tuple data (`idx · 2·axes + 2·axes ≤ len`), the packed deltas are a suffix of the
tuple's own `variation_data_size` slice, and all tuple values are `i16`s. -/
theorem tuple_accessors_safe (p : TVD) (t : TV) (d' : List Nat) (hac : p.ac ≤ 65535)
    (hr : tvhRead d' p.ac = some t.hdr) (coords : List Int) :
    (∃ v, t.peak p = some v ∧ (v.length = p.ac ∨ v = []) ∧
      (Bytes d' → (∀ sd, p.shared = some sd → Bytes sd) → ∀ x ∈ v, I16 x)) ∧
    (∃ pd dd, t.pointsAndDeltas p = some (pd, dd) ∧ dd.length ≤ t.varData.length) ∧
    (t.hasDeltasForAllPoints p).isSome ∧
    (∃ b, t.computeScalarF32 p coords = .ok b) := by
  obtain ⟨pd, dd, h1, h2, _⟩ := pointsAndDeltas_some p t d' hac hr
  obtain ⟨b, hb⟩ := hasAll_some p t d' hac hr
  exact ⟨peak_facts p t d' hac hr, ⟨pd, dd, h1, h2⟩, by simp [hb], f32_no_trap p t d' hac hr coords⟩

/-- a shared peak tuple is read inside the shared tuple array: `ComputedArray::get(idx)` answers only
when item `idx` of `2 · axis_count` bytes fits -/
theorem shared_peak_in_bounds (sd : List Nat) (ac idx : Nat) (v : List Int)
    (h : sharedTupleGet sd ac idx = some v) : v.length = ac ∧ idx * (2 * ac) + 2 * ac ≤ sd.length := by
  obtain ⟨h1, _, off, h2, h3⟩ := sharedTupleGet_facts sd ac idx v h
  exact ⟨h1, by omega⟩

/-- **`compute_scalar` panics only if the C20 kernel traps**: the loop over the peak values is handed
`axis_count` `i16` peaks, `i16` intermediate tuples of the same length, and the caller's coordinates —
the hypothesis `hk` is exactly C20's theorem `tupleScalar_no_trap` (Props/C20.lean), which is not
imported here to keep the two checks independent; with it, `compute_scalar` returns `Some` / `None`
for every tuple and coordinates.
(`…_partial`: the full statement is the one without `hk`; C20 proves `hk`.) -/
theorem computeScalar_no_panic_partial (p : TVD) (t : TV) (d' : List Nat) (hac : p.ac ≤ 65535)
    (hr : tvhRead d' p.ac = some t.hdr) (hb : Bytes d') (hs : ∀ sd, p.shared = some sd → Bytes sd)
    (coords : List Int)
    (hk : ∀ (pk : List Int) (inter : Option (List Int × List Int)), (∀ c ∈ pk, I16 c) →
      (∀ q, inter = some q → (∀ c ∈ q.1, I16 c) ∧ (∀ c ∈ q.2, I16 c)) →
      (Checked.tupleScalar pk inter coords).isSome) :
    ∃ r, t.computeScalar p coords = .ok r :=
  computeScalar_facts p t d' hac hr hb hs coords hk

/-- **`TupleVariation::deltas()` terminates without panicking for private and shared point numbers**:
for every tuple with a successfully read header (gvar: `is_point`, cvar: scalars) the set-up
(`total_len`, `count_all_deltas`, `skip_fast`) completes and the `TupleDeltaIter` loop makes at most
`128 · len + 131204` trips, `len` = length of the tuple's `variation_data_size` slice. -/
theorem tuple_deltas_bounded (p : TVD) (t : TV) (d' : List Nat) (hac : p.ac ≤ 65535)
    (hr : tvhRead d' p.ac = some t.hdr) (isPoint : Bool) :
    ∃ evs, t.deltasTrace p isPoint = some evs ∧ evs.length ≤ 128 * t.varData.length + 131204 ∧
      trapped evs = false := by
  obtain ⟨pd, dd, h1, h2, _⟩ := pointsAndDeltas_some p t d' hac hr
  obtain ⟨s, evs, hi, he, hl, ht⟩ := deltas_run pd dd isPoint
  refine ⟨evs, ?_, by omega, ht⟩
  unfold TV.deltasTrace
  rw [h1]
  simp only []
  rw [hi]
  exact he

/-! ## `GlyphVariationData::new`, `Cvar::variation_data` -/

/-- **`GlyphVariationData::new` never panics** (`raw_tuple_header_data`'s `split_off(4).unwrap()` and the
unwrapping getters are guarded by the generated reader's length check), it fails only with
`OutOfBounds` / `NullOffset`, and what it hands to the iterators lies inside the glyph's data: the
header data is `data[4..]`, the serialized data and the shared point numbers are suffixes of `data`. -/
theorem gvdNew_safe (d : List Nat) (ac : Nat) (shared : List Nat) :
    gvdNew d ac shared ≠ .trap ∧
    (∀ e, gvdNew d ac shared = .err e → e = .oob ∨ e = .nullOffset) ∧
    ∀ p, gvdNew d ac shared = .ok p →
      p.ac = ac ∧ p.headerData = d.drop 4 ∧ 4 ≤ d.length ∧ p.ser.length ≤ d.length ∧
      (∀ sp, p.sharedPts = some sp → ∃ off, sp = d.drop off) := by
  obtain ⟨h1, he, h2⟩ := gvdNew_facts d ac shared
  exact ⟨h1, he, fun p hp => by obtain ⟨a, _, b, c, e, f, _⟩ := h2 p hp; exact ⟨a, b, c, e, f⟩⟩

/-- **`Cvar::variation_data` never panics** (generated `Cvar::read` included): errors are `OutOfBounds`
/ `NullOffset`; header data = `table[8..]`, serialized data and shared points are suffixes of the table -/
theorem cvar_variation_data_safe (d : List Nat) (ac : Nat) :
    cvarVariationData d ac ≠ .trap ∧
    (∀ e, cvarVariationData d ac = .err e → e = .oob ∨ e = .nullOffset) ∧
    ∀ p, cvarVariationData d ac = .ok p →
      p.ac = ac ∧ p.shared = none ∧ p.headerData = d.drop 8 ∧ 8 ≤ d.length ∧ p.ser.length ≤ d.length ∧
      (∀ sp, p.sharedPts = some sp → ∃ off, sp = d.drop off) := by
  obtain ⟨h1, he, h2⟩ := cvarVariationData_facts d ac
  exact ⟨h1, he, fun p hp => by obtain ⟨a, a', b, c, e, f, _⟩ := h2 p hp; exact ⟨a, a', b, c, e, f⟩⟩

/-- **the whole cvar walk is safe**: for every table and axis count, `Cvar::read` +
`variation_data(axis_count)` + `tuples()` either fail with a `ReadError` or yield at most
`min(count & 0x0FFF, (len − 8) / 4)` tuples, each with a successfully read header (all accessors safe,
`deltas()` bounded), without a panic. -/
theorem cvar_walk_safe (d : List Nat) (ac : Nat) (hac : ac ≤ 65535) (p : TVD)
    (hp : cvarVariationData d ac = .ok p) :
    ∃ evs, tvTrace p = some evs ∧ trapped evs = false ∧ evs.length ≤ 4095 ∧
      4 * (items evs).length + 8 ≤ d.length ∧
      ∀ t ∈ items evs, (∃ d', tvhRead d' ac = some t.hdr) ∧ t.varData.length ≤ d.length ∧
        ∃ dv, t.deltasTrace p false = some dv ∧ dv.length ≤ 128 * d.length + 131204 ∧ trapped dv = false := by
  obtain ⟨_, _, hok⟩ := cvarVariationData_facts d ac
  obtain ⟨hpa, _, hhd, h8, hser, _, _⟩ := hok p hp
  have hac' : p.ac ≤ 65535 := by omega
  obtain ⟨evs, he, hl, hc, ht, h4, hsum, hall⟩ := tuples_iter_bounded p hac'
  refine ⟨evs, he, ht, by omega, ?_, ?_⟩
  · rw [hhd] at h4; simp only [List.length_drop] at h4; omega
  · intro t htm
    obtain ⟨d', hr, _⟩ := hall t htm
    have hvl : t.varData.length ≤ p.ser.length := by
      have := mem_le_sum ((items evs).map (fun t => t.varData.length)) t.varData.length
        (List.mem_map.mpr ⟨t, htm, rfl⟩)
      omega
    obtain ⟨dv, h1, h2, h3⟩ := tuple_deltas_bounded p t d' hac' hr false
    exact ⟨⟨d', hpa ▸ hr⟩, by omega, dv, h1, by omega, h3⟩

/-! ## `active_tuples_at`, `Cvar::deltas` -/

/-- **`active_tuples_at` is bounded by `tuples()`**: it yields a sub-sequence of the tuples (at most
`count & 0x0FFF`), each with its `compute_scalar` value.  (`…_partial`: `hk` is C20's
`tupleScalar_no_trap`, see `computeScalar_no_panic_partial`; `hsh` / `hbytes` say the buffers hold bytes.) -/
theorem active_tuples_bounded_partial (p : TVD) (hac : p.ac ≤ 65535) (coords : List Int)
    (hbytes : Bytes p.headerData) (hsh : ∀ sd, p.shared = some sd → Bytes sd)
    (hk : ∀ (pk : List Int) (inter : Option (List Int × List Int)), (∀ c ∈ pk, I16 c) →
      (∀ q, inter = some q → (∀ c ∈ q.1, I16 c) ∧ (∀ c ∈ q.2, I16 c)) →
      (Checked.tupleScalar pk inter coords).isSome) :
    ∃ evs l, tvTrace p = some evs ∧ activeTuples p coords = some (.ok l) ∧ l.length ≤ (items evs).length ∧
      ∀ x ∈ l, x.1 ∈ items evs ∧ x.1.computeScalar p coords = .ok (some x.2) := by
  obtain ⟨evs, he, _, _, ht, _, _, hall⟩ := tuples_iter_bounded p hac
  -- every header was read from a suffix of the header data: its bytes are bytes
  have hsuf : ∀ t ∈ items evs, ∃ d', tvhRead d' p.ac = some t.hdr ∧ Bytes d' := by
    have := items_all (tvNext p) (fun s => TInv p s ∧ Bytes s.h.data)
      (fun t => ∃ d', tvhRead d' p.ac = some t.hdr ∧ Bytes d')
      (fun s hi => ⟨(tvNext_facts p hac s hi.1).1, fun b hb => hi.2 b (tvNext_sub p s b hb)⟩)
      (fun s a hi hy => ⟨s.h.data, ((tvNext_facts p hac s hi.1).2.2.2.2.2 a hy).1, hi.2⟩)
      _ _ _ ⟨by simp [TInv, TVD.tuplesInit], by simpa [TVD.tuplesInit] using hbytes⟩ he
    exact this
  have hcs : ∀ t ∈ items evs, ∃ r, t.computeScalar p coords = .ok r := by
    intro t ht'
    obtain ⟨d', hr, hb⟩ := hsuf t ht'
    exact computeScalar_facts p t d' hac hr hb hsh coords hk
  obtain ⟨l, hl, hlen, hmem⟩ := activeFold_ok p coords (items evs) hcs
  refine ⟨evs, l, he, ?_, hlen, hmem⟩
  unfold activeTuples
  rw [he]
  simp only [ht]
  exact congrArg some hl

/-- **`Cvar::deltas` never indexes outside the caller's buffer**: whatever the table says, the buffer
that comes back has the length that went in (`deltas.get_mut(ix)` skips positions beyond it); the two
nested loops run over the (bounded) active tuples and their (bounded) deltas. -/
theorem cvar_deltas_buffer (d : List Nat) (ac : Nat) (coords : List Int) (buf out : List Int)
    (h : cvarDeltas d ac coords buf = .ok out) : out.length = buf.length := by
  unfold cvarDeltas at h
  split at h
  · cases h
  · cases h
  · rename_i p _
    split at h
    · cases h
    · cases h
    · cases h
    · exact cvarDeltasLoop_length p _ buf out h

/-- **`Cvar::deltas` panics only if a C20 kernel traps** (`…_partial`): with C20's `tupleScalar_no_trap`
(`hk`), the `i32` range of its results (`hks`, C20 `tupleScalar_range`) and `fxMul_no_trap` (`hm`), the
call returns `Ok` or a `ReadError` for every table, axis count, coordinates and buffer. -/
theorem cvar_deltas_no_panic_partial (d : List Nat) (hb : Bytes d) (ac : Nat) (hac : ac ≤ 65535)
    (coords : List Int) (buf : List Int)
    (hk : ∀ (pk : List Int) (inter : Option (List Int × List Int)), (∀ c ∈ pk, I16 c) →
      (∀ q, inter = some q → (∀ c ∈ q.1, I16 c) ∧ (∀ c ∈ q.2, I16 c)) →
      (Checked.tupleScalar pk inter coords).isSome)
    (hks : ∀ (pk : List Int) (inter : Option (List Int × List Int)) (v : Int),
      Checked.tupleScalar pk inter coords = some (some v) → I32 v)
    (hm : ∀ a b, I32 a → I32 b → (Checked.fxMul a b).isSome) :
    cvarDeltas d ac coords buf ≠ .trap := by
  obtain ⟨h1, _, h3⟩ := cvarVariationData_facts d ac
  unfold cvarDeltas
  cases hp : cvarVariationData d ac with
  | trap => exact absurd hp h1
  | err e => simp
  | ok p =>
    simp only []
    obtain ⟨hpa, hsh, hhd, _, _, _, _⟩ := h3 p hp
    have hac' : p.ac ≤ 65535 := by omega
    have hbh : Bytes p.headerData := by
      rw [hhd]; intro b hbm; exact hb b (List.mem_of_mem_drop hbm)
    obtain ⟨evs, l, he, hl, _, hmem⟩ := active_tuples_bounded_partial p hac' coords hbh
      (by intro sd hsd; rw [hsh] at hsd; cases hsd) hk
    rw [hl]
    simp only []
    obtain ⟨_, _, _, _, _, _, _, hall⟩ := tuples_iter_bounded p hac'
    -- the loop: every tuple's deltas are bounded and trap free, every scalar is an i32
    have key : ∀ (l' : List (TV × Int)), (∀ x ∈ l', x ∈ l) → ∀ b : List Int, cvarDeltasLoop p l' b ≠ .trap := by
      intro l'
      induction l' with
      | nil => intro _ b; simp [cvarDeltasLoop]
      | cons x r ih =>
        intro hsub b
        obtain ⟨t, sc⟩ := x
        obtain ⟨htm, hcs⟩ := hmem (t, sc) (hsub (t, sc) (by simp))
        obtain ⟨evs', he', _, _, _, _, _, hall'⟩ := tuples_iter_bounded p hac'
        rw [he] at he'
        injection he' with he'
        subst he'
        obtain ⟨d', hr, _⟩ := hall' t htm
        obtain ⟨dv, hdv, _, hdt⟩ := tuple_deltas_bounded p t d' hac' hr false
        have hsc : I32 sc := by
          obtain ⟨pk, inter, hts⟩ := computeScalar_some_src p t coords sc hcs
          exact hks pk inter sc hts
        unfold cvarDeltasLoop
        rw [hdv]
        simp only [hdt]
        obtain ⟨out, hout⟩ := applyCvtAll_some hm sc hsc (items dv) b
        rw [hout]
        exact ih (fun y hy => hsub y (by simp [hy])) out
    exact key l (fun _ h => h) buf

/-! ## `Gvar` -/

/-- **the unwrapping getters of a read `Gvar` never panic** and `read` validated the whole offsets
array: `20 + (glyph_count + 1) · (2 | 4) ≤ len` -/
theorem gvar_getters_safe (d : List Nat) (g : Gv) (hb : Bytes d) (hr : gvarRead d = some g) :
    g.axisCount.isSome ∧ g.sharedTupleCount.isSome ∧ g.sharedTuplesOffset.isSome ∧ g.glyphCount.isSome ∧
    g.flags.isSome ∧ g.dao.isSome ∧ 20 + g.offsLen ≤ d.length := by
  obtain ⟨⟨_, h1, _⟩, ⟨_, h2, _⟩, ⟨_, h3⟩, ⟨_, h4⟩, ⟨_, h5, _⟩, ⟨_, h6⟩⟩ := gvar_getters hb hr
  obtain ⟨_, hl, _⟩ := gvarRead_some hb hr
  simp [h1, h2, h3, h4, h5, h6, hl]

/-- **`shared_tuples()` and `data_for_gid()` never panic and hand out slices inside the table**: errors
are `OutOfBounds` / `NullOffset`; the shared tuple array is `table[off .. off + n]`, a glyph's data is the
non-empty range `table[s .. e]` with `e ≤ len` (the two `u32::checked_add`s and `slice` guard it),
for every glyph id. -/
theorem gvar_slices_in_bounds (d : List Nat) (g : Gv) (hb : Bytes d) (hr : gvarRead d = some g) (gid : Nat) :
    g.sharedTuples ≠ .trap ∧
    (∀ sd, g.sharedTuples = .ok sd → ∃ off n, sd = (d.drop off).take n ∧ off + n ≤ d.length) ∧
    g.dataForGid gid ≠ .trap ∧
    (∀ bytes, g.dataForGid gid = .ok (some bytes) →
      ∃ s e, s < e ∧ e ≤ d.length ∧ bytes = (d.drop s).take (e - s)) := by
  obtain ⟨h1, _, h3⟩ := sharedTuples_facts hb hr
  obtain ⟨g1, _, g3⟩ := dataForGid_facts hb hr gid
  exact ⟨h1, h3, g1, fun bytes hbt => by obtain ⟨s, e, a, b, c, _⟩ := g3 bytes hbt; exact ⟨s, e, a, b, c⟩⟩

/-- **the whole gvar glyph walk is safe**: for every table, glyph id and coordinates, `Gvar::read` +
`glyph_variation_data(gid)` + `tuples()` either fail with `OutOfBounds` / `NullOffset`, answer `None`, or
yield at most `min(count & 0x0FFF, len / 4)` tuples, each with a successfully read header (accessors
safe) and a bounded, panic free `deltas()`. -/
theorem gvar_walk_safe (d : List Nat) (g : Gv) (hb : Bytes d) (hr : gvarRead d = some g) (gid : Nat) :
    g.glyphVariationData gid ≠ .trap ∧
    (∀ e, g.glyphVariationData gid = .err e → e = .oob ∨ e = .nullOffset) ∧
    ∀ p, g.glyphVariationData gid = .ok (some p) →
      ∃ evs, tvTrace p = some evs ∧ trapped evs = false ∧ evs.length ≤ 4095 ∧
        4 * (items evs).length ≤ d.length ∧
        ∀ t ∈ items evs, (∃ d', tvhRead d' p.ac = some t.hdr) ∧ t.varData.length ≤ d.length ∧
          ∃ dv, t.deltasTrace p true = some dv ∧ dv.length ≤ 128 * d.length + 131204 ∧ trapped dv = false := by
  obtain ⟨h1, h2, h3⟩ := glyphVariationData_facts hb hr gid
  refine ⟨h1, h2, ?_⟩
  intro p hp
  obtain ⟨hac, _, bytes, shared, hnew, hbl, _, _⟩ := h3 p hp
  obtain ⟨_, _, hok⟩ := gvdNew_facts bytes p.ac shared
  obtain ⟨_, _, hhd, _, hser, _, _⟩ := hok p hnew
  obtain ⟨evs, he, hl, hc, ht, h4, hsum, hall⟩ := tuples_iter_bounded p hac
  refine ⟨evs, he, ht, by omega, ?_, ?_⟩
  · rw [hhd] at h4; simp only [List.length_drop] at h4; omega
  · intro t htm
    obtain ⟨d', hrd, _⟩ := hall t htm
    have hvl : t.varData.length ≤ p.ser.length := by
      have := mem_le_sum ((items evs).map (fun t => t.varData.length)) t.varData.length
        (List.mem_map.mpr ⟨t, htm, rfl⟩)
      omega
    obtain ⟨dv, k1, k2, k3⟩ := tuple_deltas_bounded p t d' hac hrd true
    exact ⟨⟨d', hrd⟩, by omega, dv, k1, by omega, k3⟩

/-! ## `DeltaSetIndexMap` -/

/-- **`DeltaSetIndexMap::read` + `get(index)` never panic and read inside `map_data`**: for every byte
string and every `u32` index, `read` fails with `OutOfBounds` / `InvalidFormat` or succeeds; then the
index arithmetic of `get` (`index.min(map_count − 1)` with the saturating `− 1`, `· entry_size`, the
`1..4` byte entry read, `>> bit_count`, `(1 << bit_count) − 1`) cannot trap, a failing entry read is
`OutOfBounds`, a successful one lies inside the `entry_size · map_count` bytes of map data
(`clamped_index · entry_size + entry_size ≤ len`), both halves are `u16`s, and the answer is the one of
C10's `Tent.dsimGet`. -/
theorem dsim_get_safe (d : List Nat) (hb : Bytes d) (index : Nat) (hidx : index < 4294967296) :
    dsimRead d ≠ .trap ∧
    (∀ e, dsimRead d = .err e → e = .oob ∨ ∃ n, e = .invalidFormat n) ∧
    ∀ m, dsimRead d = .ok m →
      ∃ ef mc data, m.entryFormat = some ef ∧ m.mapCount = some mc ∧ m.mapData = some data ∧
        data.length = entrySize ef * mc ∧ m.get index ≠ .trap ∧ (∀ e, m.get index = .err e → e = .oob) ∧
        ∀ o i, m.get index = .ok (o, i) → o < 65536 ∧ i < 65536 ∧
          min index (mc - 1) * entrySize ef + entrySize ef ≤ data.length ∧
          Tent.dsimGet ef mc data index = some (o, i) := by
  refine ⟨dsimRead_no_trap d hb, dsimRead_err d, ?_⟩
  · intro m hm
    obtain ⟨_, _, _, _, ef0, mc0, hef0, hmc0, hml, _, _⟩ := dsimRead_ok hb hm
    obtain ⟨ef, mc, data, h1, h2, h3, h4, _, h6, h7, h8, _⟩ := dsimGet_facts hb hm index hidx
    refine ⟨ef, mc, data, h1, h2, h3, ?_, h6, h7, h8⟩
    -- `ef` is the truncated entry format; its entry size is the one the reader used
    have e1 : ef = ef0 % 64 := by
      unfold Dsim.entryFormat at h1
      rw [(dsimRead_ok hb hm).1, hef0] at h1
      injection h1 with h1; exact h1.symm
    have e2 : mc = mc0 := by
      unfold Dsim.mapCount at h2
      rw [(dsimRead_ok hb hm).1, hmc0] at h2
      injection h2 with h2; exact h2.symm
    rw [h4, hml, e1, e2]
    unfold entrySize
    congr 1
    omega

/-! ## `ItemVariationData`, `ItemVariationStore` -/

/-- **`delta_row_len` / `delta_sets_len` cannot overflow** for `u16` fields: a row has at most
`4 · 65535` bytes and the value agrees with C10's `Tent.deltaRowLen` -/
theorem delta_row_len_total (wdc ric : Nat) (hw : wdc < 65536) (hr : ric < 65536) :
    ∃ r, deltaRowLen wdc ric = some r ∧ r ≤ 262140 ∧ r = Tent.deltaRowLen wdc ric :=
  deltaRowLen_some wdc ric hw hr

/-- **`ItemVariationData::read`, `region_indexes()`, `delta_set(inner)` never panic**: the unchecked
`bytes_per_row * item_count` and `bytes_per_row * inner_index` stay far below `usize::MAX`, a row offset
beyond the delta sets yields the empty row (`slice(offset..).unwrap_or_default()`), `ItemDeltas` stops
after `region_index_count ≤ 65535` values without overflowing its `u16` position, and it never yields
more deltas than there are region indices — so `region_indices.get(i)` in `compute_delta` cannot fail. -/
theorem delta_set_safe (d : List Nat) (hb : Bytes d) (inner : Nat) (hin : inner < 65536) :
    ivdRead d ≠ .trap ∧ (∀ e, ivdRead d = .err e → e = .oob) ∧
    ∀ v, ivdRead d = .ok v →
      ∃ ris ds, v.regionIndexes = some ris ∧ v.deltaSet inner = some ds ∧ ds.length ≤ ris.length ∧
        ris.length ≤ 65535 ∧ ∀ x ∈ ds, I32 x := by
  obtain ⟨h1, h2, _⟩ := ivdRead_facts d hb
  refine ⟨h1, h2, ?_⟩
  intro v hv
  obtain ⟨ris, ds, a, b, c, e, _⟩ := ivd_getters hb hv inner hin
  exact ⟨ris, ds, a, b, c, by omega, deltaSet_I32 hb hv inner ds b⟩

/-- **a region handed out by `variation_regions().get(i)` lies inside the region array** and has
`axis_count` triples: the loop of `VariationRegion::compute_scalar` is bounded by the axis count -/
theorem region_get_in_bounds (rl : Vrl) (hb : Bytes rl.d) (hlen : 4 + rl.regLen ≤ rl.d.length) (ac : Nat)
    (hac : rl.axisCount = some ac) (hacl : ac < 65536) (hrl : rl.regLen ≤ 65535 * (65535 * 6)) (idx : Nat) :
    rl.region idx ≠ .trap ∧
    ∀ axes, rl.region idx = .ok axes → axes.length = ac ∧ idx * (6 * ac) + 6 * ac ≤ rl.regLen := by
  obtain ⟨h1, _, h3⟩ := region_facts rl hb hlen ac hac hacl hrl idx
  exact ⟨h1, fun axes ha => ⟨(h3 axes ha).1, (h3 axes ha).2.1⟩⟩

/-- **the walk of `compute_delta` / `compute_float_delta` never panics**: for every store, every outer /
inner index and coordinates, the part in front of the arithmetic (`item_variation_data().get(outer)`,
`variation_region_list()`, `region_indexes()`, `delta_set(inner)`, `regions.get(region_index)`) returns
`Ok(0)` early, fails with `OutOfBounds` / `NullOffset` / `InvalidCollectionIndex(outer)` — never with
the `MalformedData("invalid delta sets")` exit, which is dead — or hands the kernel at most 65535 `i32`
deltas, each with the `i16` axes of its region. -/
theorem ivs_walk_safe (d : List Nat) (s : Ivs) (hb : Bytes d) (h : ivsRead d = some s) (outer inner : Nat)
    (hin : inner < 65536) (ce : Bool) :
    s.deltaWalk outer inner ce ≠ .trap ∧
    (∀ e, s.deltaWalk outer inner ce = .err e → e = .oob ∨ e = .nullOffset ∨ e = .invalidIndex outer) ∧
    ∀ l, s.deltaWalk outer inner ce = .ok (some l) → l.length ≤ 65535 ∧
      ∀ x ∈ l, I32 x.1 ∧ ∀ y ∈ x.2, I16 y.1 ∧ I16 y.2.1 ∧ I16 y.2.2 :=
  deltaWalk_facts hb h outer inner hin ce

/-- **`compute_delta` panics only if the C20 kernel traps** (`…_partial`; `hk` is the statement of
C20's `computeDelta_no_trap`, whose hypotheses `ivs_walk_safe` establishes); `compute_float_delta`
never panics -/
theorem compute_delta_no_panic_partial (d : List Nat) (s : Ivs) (hb : Bytes d) (h : ivsRead d = some s)
    (outer inner : Nat) (hin : inner < 65536) (coords : List Int) (hk : DeltaKernelTotal coords) :
    s.computeDelta outer inner coords ≠ .trap ∧ s.computeFloatDelta outer inner coords ≠ .trap :=
  ⟨(computeDelta_facts hb h outer inner hin coords hk).1, (computeDelta_facts hb h outer inner hin coords hk).2.1⟩

/-- **`Hvar::{advance_width,lsb,rsb}_delta` and `Vvar::{advance_height,tsb,bsb,v_org}_delta` never
panic** on any table bytes, glyph id and coordinates (`…_partial`: modulo the C20 kernel): the mapping
is consulted through `DeltaSetIndexMap::get` (`dsim_get_safe`), the implicit index is
`(0, gid as u16)`, the store through `compute_delta` -/
theorem metrics_delta_no_panic_partial (d : List Nat) (hb : Bytes d) (vvar : Bool) (which gid : Nat)
    (hw : which ≤ (if vvar then 3 else 2)) (hg : gid < 4294967296) (coords : List Int)
    (hk : DeltaKernelTotal coords) : metricsDelta d vvar which gid coords ≠ .trap :=
  metricsDelta_no_trap d hb vvar which gid hw hg coords hk

/-! ## `Mvar::metric_delta` -/

/-- **the binary search of `metric_delta` never indexes outside the records and terminates**: for
every tag array of at most 65535 records the loop makes at most `len + 1` trips (the model's fuel
suffices: `hi − lo` shrinks every trip), `(lo + hi) / 2` cannot overflow, `records[i]` is in range, and
a hit is an index whose tag equals the one asked for -/
theorem mvar_search_safe (tags : List Nat) (tag : Nat) (hn : tags.length ≤ 65535) :
    ∃ r, mvarSearch tags tag (tags.length + 1) 0 tags.length = .ok r ∧
      ∀ i, r = some i → i < tags.length ∧ tags[i]? = some tag := by
  obtain ⟨r, hr, hp⟩ := mvarSearch_facts tags tag hn (tags.length + 1) 0 tags.length (Nat.le_refl _) (by omega)
  exact ⟨r, hr, fun i hi => ⟨(hp i hi).2.1, (hp i hi).2.2⟩⟩

/-- **`Mvar::read` + `metric_delta` never panic** (`…_partial`: modulo the C20 kernel) -/
theorem mvar_metric_delta_no_panic_partial (d : List Nat) (hb : Bytes d) (tag : Nat) (coords : List Int)
    (hk : DeltaKernelTotal coords) : mvarMetricDelta d tag coords ≠ .trap :=
  mvarMetricDelta_no_trap d hb tag coords hk

/-! ## `SegmentMaps` (avar) -/

/-- **`SegmentMaps::read` + `apply` never panic** (`…_partial`: `hk` is the statement of C20's
`avarApply_no_trap`): the loop runs over the `position_map_count` records that `read_array` validated,
all of them `i16` pairs -/
theorem segment_maps_apply_no_panic_partial (d : List Nat) (hb : Bytes d) (coord : Int)
    (hk : AvarKernelTotal coord) : segmentMapsApply d coord ≠ .trap :=
  segmentMapsApply_no_trap d hb coord hk

/-! ## `read_dense_deltas`, `read_sparse_deltas`, `accumulate_{dense,sparse}_deltas` -/

/-- **`accumulate_dense_deltas` terminates, stays inside the caller's buffer and fails only with
`OutOfBounds`**, for every `PointCoord` instantiation: each trip of `while cur < count` consumes a run of
at least one value (the model's fuel `count + 1` suffices), `deltas.get_mut(cur..cur + run_count)` is
`Err` when the run overshoots, and the buffer keeps its length.  With total coordinate arithmetic
(`ArithTotal`: `Fixed` / `F26Dot6`, see `arith_total_wrapping`) it never panics. -/
theorem accumulate_dense_safe (k : DKind) (scalar : Int) (dd : List Nat) (xs ys : List Int)
    (hx : xs.length ≤ 4294967296) (hy : ys.length ≤ 4294967296) :
    (ArithTotal k scalar → accumulateDense k scalar dd xs ys ≠ .trap) ∧
    (∀ e, accumulateDense k scalar dd xs ys = .err e → e = .oob) ∧
    ∀ xs' ys', accumulateDense k scalar dd xs ys = .ok (xs', ys') → xs'.length = xs.length ∧ ys'.length = ys.length :=
  accumulateDense_facts k scalar dd xs ys hx hy

/-- **`accumulate_sparse_deltas`**: the same for the sparse reader — at most `point_numbers.count() ≤
32767` trips per pass, point indices beyond the buffers are skipped (`get_mut`), running out of point
numbers inside a zero run is `OutOfBounds`, inside a valued run the `zip` just ends; the buffers and the
flags keep their lengths. -/
theorem accumulate_sparse_safe (k : DKind) (scalar : Int) (pd dd : List Nat) (xs ys : List Int) (flags : List Bool)
    (hxy : xs.length = ys.length) :
    (ArithTotal k scalar → accumulateSparse k scalar pd dd xs ys flags ≠ .trap) ∧
    (∀ e, accumulateSparse k scalar pd dd xs ys flags = .err e → e = .oob) ∧
    ∀ xs' ys' f', accumulateSparse k scalar pd dd xs ys flags = .ok (xs', ys', f') →
      xs'.length = xs.length ∧ ys'.length = ys.length ∧ f'.length = flags.length :=
  accumulateSparse_facts k scalar pd dd xs ys flags hxy

/-- **the wrapping instantiations have total arithmetic**: for `D = Fixed` / `F26Dot6` (whose `+=` is
`wrapping_add`) and `scalar == Fixed::ONE` unconditionally; for any other `i32` scalar given C20's
`fxMul_no_trap` (`hm`).  For `D = i32` the `+=` is the plain `i32` addition: that is known finding
`C01-accumulate-deltas-i32-overflow`, see the `example` below. -/
theorem arith_total_wrapping (k : DKind) (hk : k ≠ .int) :
    ArithTotal k 65536 ∧
    ∀ scalar, I32 scalar → (∀ a b, I32 a → I32 b → (Checked.fxMul a b).isSome) → ArithTotal k scalar :=
  ⟨arithTotal_one k hk, fun scalar hs hm => arithTotal_scaled k hk scalar hs hm⟩

/-! ## `find_glyph_and_point_count`, `Gvar::phantom_point_deltas` -/

/-- **`find_glyph_and_point_count` terminates within the nesting limit and never panics**: for every
glyph table (whatever `loca.get_glyf` answers, including cycles of `USE_MY_METRICS` components) the
recursion makes at most 66 nested calls (the model's fuel suffices: `recurse_depth` grows by one per
call and `> 64` is an error), `count += 1` cannot overflow, the error is `MalformedData` (nesting) or one
of `get_glyf`'s own, and the point count returned is a simple glyph's `num_points()` or at most the
component count. -/
theorem find_glyph_bounded (glyph : Nat → GR) (B : Nat) (hB : CompsBounded glyph B) (hBm : B ≤ 4294967296)
    (gid : Nat) :
    findGlyph glyph 66 gid 0 ≠ .trap ∧
    (∀ e, findGlyph glyph 66 gid 0 = .err e → e = .malformed ∨ ∃ g, glyph g = .err e) ∧
    ∀ g n, findGlyph glyph 66 gid 0 = .ok (g, n) → n ≤ B ∨ ∃ k, glyph g = .simple k ∧ n = k :=
  findGlyph_facts glyph B hB hBm 66 gid 0 (by omega)

/-- **`phantom_point_deltas` never indexes outside its four phantom points and panics only if a C20
kernel traps** (`…_partial`: `hk` / `hks` are C20's `tupleScalar_no_trap` and the `i32` range of its
results, `hm` is `fxMul_no_trap`): `phantom_range = point_count..point_count + 4` cannot overflow,
`phantom_deltas[ix - phantom_range.start]` is guarded by `contains`, the tuples and their deltas are
bounded (`gvar_walk_safe`). -/
theorem phantom_point_deltas_no_panic_partial (d : List Nat) (g : Gv) (hb : Bytes d) (hr : gvarRead d = some g)
    (glyph : Nat → GR) (B : Nat) (hB : CompsBounded glyph B) (hBm : B ≤ 4294967296)
    (hS : ∀ gid k, glyph gid = .simple k → k ≤ 4294967296) (coords : List Int) (gid : Nat)
    (hk : ∀ (pk : List Int) (inter : Option (List Int × List Int)), (∀ c ∈ pk, I16 c) →
      (∀ q, inter = some q → (∀ c ∈ q.1, I16 c) ∧ (∀ c ∈ q.2, I16 c)) →
      (Checked.tupleScalar pk inter coords).isSome)
    (hks : ∀ (pk : List Int) (inter : Option (List Int × List Int)) (v : Int),
      Checked.tupleScalar pk inter coords = some (some v) → I32 v)
    (hm : ∀ a b, I32 a → I32 b → (Checked.fxMul a b).isSome) :
    g.phantomPointDeltas glyph coords gid ≠ .trap ∧
    ∀ ph, g.phantomPointDeltas glyph coords gid = .ok (some ph) → ph.length = 4 := by
  obtain ⟨f1, _, f3⟩ := find_glyph_bounded glyph B hB hBm gid
  unfold Gv.phantomPointDeltas
  cases hf : findGlyph glyph 66 gid 0 with
  | trap => exact absurd hf f1
  | err e => exact ⟨by simp, by simp⟩
  | ok r =>
    obtain ⟨gid', pc⟩ := r
    simp only []
    have hpc : pc ≤ 4294967296 := by
      rcases f3 gid' pc hf with h | ⟨k, hk', hpk⟩
      · omega
      · rw [hpk]; exact hS gid' k hk'
    rw [uadd_some _ _ (by unfold MAXU; omega)]
    simp only []
    obtain ⟨v1, _, v3⟩ := glyphVariationData_facts hb hr gid'
    cases hv : g.glyphVariationData gid' with
    | trap => exact absurd hv v1
    | err e => exact ⟨by simp, by simp⟩
    | ok op =>
      cases op with
      | none => exact ⟨by simp, by simp⟩
      | some p =>
        simp only []
        obtain ⟨hac, _, bytes, shared, hnew, _, hbb, hbs⟩ := v3 p hv
        obtain ⟨_, _, hok⟩ := gvdNew_facts bytes p.ac shared
        obtain ⟨_, hsh, hhd, _, _, _, _⟩ := hok p hnew
        have hbh : Bytes p.headerData := by rw [hhd]; exact bytes_drop hbb _
        obtain ⟨evs, l, he, hl, _, hmem⟩ := active_tuples_bounded_partial p hac coords hbh
          (by intro sd hsd; rw [hsh] at hsd; injection hsd with hsd; rw [← hsd]; exact hbs) hk
        rw [hl]
        simp only []
        obtain ⟨evs', he', _, _, _, _, _, hall⟩ := tuples_iter_bounded p hac
        rw [he] at he'
        injection he' with he'
        subst he'
        have hsc : ∀ x ∈ l, I32 x.2 := by
          intro x hx
          obtain ⟨pk, inter, hts⟩ := computeScalar_some_src p x.1 coords x.2 (hmem x hx).2
          exact hks pk inter x.2 hts
        obtain ⟨ph', hp1, hp2⟩ := phantomLoop_facts p pc l
          (by
            intro x hx
            obtain ⟨d', hrd, _⟩ := hall x.1 (hmem x hx).1
            obtain ⟨dv, k1, _, k3⟩ := tuple_deltas_bounded p x.1 d' hac hrd true
            exact ⟨dv, k1, k3⟩)
          (by
            intro x hx a b
            unfold applyScalarFixed
            obtain ⟨fa, hfa, hfai⟩ := fxFromI32_some a
            obtain ⟨fb, hfb, hfbi⟩ := fxFromI32_some b
            rw [hfa, hfb]
            simp only []
            obtain ⟨pa, hpa⟩ := Option.isSome_iff_exists.mp (hm fa x.2 hfai (hsc x hx))
            obtain ⟨pb, hpb⟩ := Option.isSome_iff_exists.mp (hm fb x.2 hfbi (hsc x hx))
            rw [hpa, hpb]
            rfl)
          [(0, 0), (0, 0), (0, 0), (0, 0)] rfl
        rw [hp1]
        refine ⟨by simp, ?_⟩
        intro ph hph
        simp only [R.ok.injEq, Option.some.injEq] at hph
        rw [← hph]; exact hp2

/-! ## non-vacuity -/

/-- an embedded peak + intermediate header for one axis: 4 + 2 + 4 bytes -/
example : (tvhRead [0, 3, 0xC0, 0, 0x40, 0, 0x20, 0, 0x40, 0] 1).map (fun h => (h.peakTuple, h.interTuples, h.byteLen 1)) =
    some (.some [16384], .some [8192] [16384], some 10) := by decide +kernel

/-- the same header one byte short: `Err(OutOfBounds)` -/
example : tvhRead [0, 3, 0xC0, 0, 0x40, 0, 0x20, 0, 0x40] 1 = none := by decide +kernel

/-- three headers announced, the data holds two: `Ok, Ok, Err` (the iterator does not stop early) -/
example : (tvhTrace [0, 1, 0x80, 0, 0x40, 0, 0, 2, 0x80, 0, 0xC0, 0, 9] 3 1).map (fun evs => (items evs).map (·.isSome)) =
    some [true, true, false] := by decide +kernel

example : exCvarWalk = some [([16384], [(0, 5, 0), (1, 6, 0)])] := by decide +kernel

example : exGvarWalk = some [([16384], [(0, 1, 3)])] := by decide +kernel

/-- glyph 0 has 12 bytes of data, glyph 1 is beyond the offsets array: `Err(OutOfBounds)` -/
example : (gvarRead exGvar).map (fun g =>
    (match g.dataForGid 0 with | .ok (some b) => b.length | _ => 0,
     match g.dataForGid 1 with | .err .oob => true | _ => false)) = some (12, true) := by
  decide +kernel

/-- format 0, entry format 0x17 (2 byte entries, 8 bit inner index), 2 entries: index 5 is clamped to
the last entry -/
example : (match dsimRead [0, 0x17, 0, 2, 1, 2, 3, 4] with
    | .ok m => (match m.get 0, m.get 5 with | .ok a, .ok b => some (a, b) | _, _ => none)
    | _ => none) = some ((1, 2), (3, 4)) := by decide +kernel

example : mvarSearch [10, 20, 30, 40] 30 5 0 4 = .ok (some 2) ∧ mvarSearch [10, 20, 30, 40] 35 5 0 4 = .ok none := by
  constructor <;> rfl

/-- the known finding is real in the model: point 1 listed twice with two `i32::MAX` deltas — the `i32`
instantiation panics, `Fixed` wraps -/
example : accumulateSparse .int 65536 [2, 1, 1, 0] [0xC1, 0x7F, 0xFF, 0xFF, 0xFF, 0x7F, 0xFF, 0xFF, 0xFF, 0xC1, 0, 0, 0, 0, 0, 0, 0, 0]
    [0, 0, 0, 0] [0, 0, 0, 0] [false, false, false, false] = .trap := by rfl

example : (match accumulateSparse .fixed 65536 [2, 1, 1, 0] [0xC1, 0x7F, 0xFF, 0xFF, 0xFF, 0x7F, 0xFF, 0xFF, 0xFF, 0xC1, 0, 0, 0, 0, 0, 0, 0, 0]
    [0, 0, 0, 0] [0, 0, 0, 0] [false, false, false, false] with
    | .ok (xs, _, fl) => some (xs, fl) | _ => none) = some ([0, -131072, 0, 0], [false, true, false, false]) := by
  decide +kernel

/-- a dense tuple: two `i8` x deltas, two zero y deltas -/
example : (match accumulateDense .f26dot6 65536 [0x01, 5, 0xFB, 0x81] [7, 7] [7, 7] with
    | .ok r => some r | _ => none) = some ([7 + 5 * 64, 7 - 5 * 64], [7, 7]) := by decide +kernel

/-- a cycle of `USE_MY_METRICS` composites hits the nesting limit; a chain ends at the simple glyph -/
example : findGlyph (fun g => if g = 0 then .composite [(false, 7), (true, 1)] else if g = 1 then .composite [(true, 0)]
    else .none) 66 0 0 = .err .malformed := by rfl

example : findGlyph (fun g => if g = 0 then .composite [(false, 7), (true, 1)] else if g = 1 then .simple 9
    else .none) 66 0 0 = .ok (1, 9) := by rfl

example : CompsBounded (fun g => if g = 0 then GR.composite [(false, 7), (true, 1)] else .none) 2 := by
  intro gid comps h
  simp only [] at h
  split at h
  · injection h with h; rw [← h]; simp
  · cases h

/-- the kernel hypotheses are statements C20 proves for all coordinates (`computeDelta_no_trap`,
`avarApply_no_trap`); here their trivial instances -/
example : DeltaKernelTotal [] := by
  intro cols _ _
  simp [Checked.computeDelta]

example : (Checked.avarApply [(-16384, -16384), (0, 0), (16384, 16384)] 32768).isSome := by decide +kernel

/-- the byte hypothesis is satisfiable -/
example : Bytes exGvar := by unfold Bytes; decide

end FontVerif.C01HandVar
