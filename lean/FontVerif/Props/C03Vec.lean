/-
C03, part 2 — projection / freedom vectors and the point movement primitives of the TrueType
interpreter: skrifa (Model/HintVec.lean) = FreeType 2.12.1 (Model/FtVec.lean).

Shape: the FreeType side keeps coordinates, distances and stack values in 64-bit `long`s and the unit
vectors in 16-bit shorts; skrifa keeps everything in `i32` (wrapping `F26Dot6` operators, but CHECKED
`i32` products in `update_projection_state`).  Every theorem states `skrifa = some (FreeType)` (i.e.
also "skrifa does not trap") for ALL operands in explicit ranges; `example`s show the sides differ
outside.  Ranges used throughout:
  * vector components: `Vec16 v` = both components in [-32767, 32767] (FreeType's type is a short;
    normalised vectors have |component| ≤ 0x4000),
  * coordinates: `Dist29` = within ±2^29 26.6 units (8.4 million pixels),
  * the distance handed to `move_point`: within ±2^24 (262144 px) — with |F·P| ≥ 0x400 (both code
    bases clamp smaller values to 0x4000) the move along one axis is then below 2^29 + 1.
`normalize14` ⇄ `Normalize`/`FT_Vector_NormLen`: both are the same 32-bit wrapping Newton iteration
(proved: `norm_loop_eq`, `norm_core_eq` in Lemmas/VecEq.lean, for all i32 operands); they differ only in
how the result is narrowed (skrifa: `i32` sign multiply and `/ 4`; FreeType: 64-bit negate, `/ 4`, cast to
short), so the equality needs the iteration's result below 2^17 (it converges to 2^16·(cos, sin)).
That bound is a convergence property of the iteration that is NOT proved here: theorems that go through
`normalize14` carry the hypothesis `NormSmall` and the suffix `_partial`; the harness evaluates the
hypothesis on every generated vector (counter `prog:norm-small`).
-/
import FontVerif.Lemmas.VecEq
set_option linter.unusedVariables false
set_option linter.unusedSimpArgs false
set_option maxRecDepth 8000
namespace FontVerif.C03
open FontVerif FontVerif.Tt

/-! ### `normalize14` = `Normalize` -/

/-- the Newton iteration on the magnitudes `(ux, uy)` ended with both components below 2^17. -/
def NormSmall (ux uy : Int) : Prop :=
  ∀ u v, FtVec.normCore ux uy = some (u, v) → u < 131072 ∧ v < 131072

/-- **normalisation, partial**: for all `i32` operands (not both zero) `math::normalize14(x, y)`, when
it returns, equals what `Normalize( x, y, &R )` stores — provided the shared Newton iteration ended
below 2^17 (`NormSmall`; always observed, not proved: FULL statement = this one without `hs`).
On an axis (`x = 0` or `y = 0`) `hs` is not needed (`normalize_axis_eq`). -/
theorem normalize_eq_partial (x y : Int) (hx : inI32 x) (hy : inI32 y) (hnz : ¬ (x = 0 ∧ y = 0))
    (hs : x ≠ 0 → y ≠ 0 → NormSmall (iabs x) (iabs y)) (r0 r : Vec)
    (h : HintVec.normalize14 x y = some r) : FtVec.normalize x y r0 = some r := by
  unfold inI32 at hx hy
  unfold HintVec.normalize14 at h
  unfold FtVec.normalize FtVec.normLen
  simp only [hnz, if_false]
  rw [wI32 hx.1 hx.2, wI32 hy.1 hy.2]
  have ex : (if x < 0 then wrapU32 (0 - wrapU32 x) else wrapU32 x) = iabs x := by
    unfold wrapU32 iabs; split <;> omega
  have ey : (if y < 0 then wrapU32 (0 - wrapU32 y) else wrapU32 y) = iabs y := by
    unfold wrapU32 iabs; split <;> omega
  simp only [ex, ey] at h ⊢
  by_cases hx0 : x = 0
  · -- x = 0, y ≠ 0
    subst hx0
    have hy0 : y ≠ 0 := by omega
    have e0 : iabs (0:Int) = 0 := by decide
    simp only [e0, if_true] at h ⊢
    have hyp : iabs y > 0 := by unfold iabs; split <;> omega
    simp only [hyp, if_true, Option.some.injEq] at h ⊢
    rw [← h]
    by_cases hyn : y < 0
    · simp only [hyn, if_true]; decide
    · simp only [hyn, if_false]; decide
  · have hxp : ¬ iabs x = 0 := by unfold iabs; split <;> omega
    have hxp' : iabs x > 0 := by unfold iabs; split <;> omega
    simp only [hxp, if_false] at h ⊢
    by_cases hy0 : y = 0
    · subst hy0
      have e0 : iabs (0:Int) = 0 := by decide
      simp only [e0, if_true, hxp', Option.some.injEq] at h ⊢
      rw [← h]
      by_cases hxn : x < 0
      · simp only [hxn, if_true]; decide
      · simp only [hxn, if_false]; decide
    · have hyp : ¬ iabs y = 0 := by unfold iabs; split <;> omega
      simp only [hyp, if_false] at h ⊢
      have hxr : 0 < iabs x ∧ iabs x ≤ 2147483648 := by unfold iabs; split <;> omega
      have hyr : 0 < iabs y ∧ iabs y ≤ 2147483648 := by unfold iabs; split <;> omega
      cases hc : HintVec.normCore (iabs x) (iabs y) with
      | none => simp [hc] at h
      | some uv =>
        obtain ⟨u, v⟩ := uv
        have hf := norm_core_eq _ _ hxr hyr _ hc
        have hsm := hs hx0 hy0 u v hf
        have hrg : (0 ≤ u ∧ u < 4294967296) ∧ (0 ≤ v ∧ v < 4294967296) := by
          unfold FtVec.normCore at hf
          exact norm_loop_range _ _ _ _ _ _ hf
        simp only [hc, hf, Option.map_some, Option.some.injEq] at h ⊢
        rw [← h]
        have eu : wrapI32 u = u := wI32 (by omega) (by omega)
        have ev : wrapI32 v = v := wI32 (by omega) (by omega)
        rw [eu, ev]
        have tpos : ∀ w : Int, 0 ≤ w → w < 131072 →
            Int.tdiv (wrapI32 (w * 1)) 4 = wrapI16 (Int.tdiv w 4) := by
          intro w h0 h1
          rw [Int.mul_one, wI32 (by omega) (by omega), Int.tdiv_eq_ediv_of_nonneg h0]
          exact (wrapI16_id (by omega) (by omega)).symm
        have tneg : ∀ w : Int, 0 ≤ w → w < 131072 →
            Int.tdiv (wrapI32 (w * -1)) 4 = wrapI16 (Int.tdiv (-w) 4) := by
          intro w h0 h1
          rw [show w * -1 = -w from by omega, wI32 (by omega) (by omega), Int.neg_tdiv,
            Int.tdiv_eq_ediv_of_nonneg h0]
          exact (wrapI16_id (by omega) (by omega)).symm
        by_cases hxn : x < 0 <;> by_cases hyn : y < 0 <;>
          simp only [hxn, hyn, if_true, if_false, show ((-1:Int) < 0) = True from by decide,
            show ((1:Int) < 0) = False from by decide, tpos u hrg.1.1 hsm.1, tpos v hrg.2.1 hsm.2,
            tneg u hrg.1.1 hsm.1, tneg v hrg.2.1 hsm.2]

/-- on an axis the two normalisations agree unconditionally (for every i32 operand). -/
theorem normalize_axis_eq (x y : Int) (hx : inI32 x) (hy : inI32 y) (hnz : ¬ (x = 0 ∧ y = 0))
    (hax : x = 0 ∨ y = 0) (r0 r : Vec) (h : HintVec.normalize14 x y = some r) :
    FtVec.normalize x y r0 = some r :=
  normalize_eq_partial x y hx hy hnz (by intro h1 h2; omega) r0 r h

-- non-vacuity: a diagonal and an unnormalised vector satisfy `NormSmall`; both sides agree
example : HintVec.normalize14 16384 16384 = some ⟨11585, 11585⟩
    ∧ FtVec.normalize 16384 16384 ⟨0, 0⟩ = some ⟨11585, 11585⟩
    ∧ FtVec.normCore 16384 16384 = some (46341, 46341) := by decide
example : HintVec.normalize14 100 (-37) = some ⟨15366, -5685⟩
    ∧ FtVec.normalize 100 (-37) ⟨0, 0⟩ = some ⟨15366, -5685⟩ := by decide
-- the zero vector: FreeType leaves `R` untouched; skrifa's callers test for it (see `spvfs`)
example : FtVec.normalize 0 0 ⟨123, 456⟩ = some ⟨123, 456⟩ ∧ HintVec.normalize14 0 0 = some ⟨0, 0⟩ := by decide
-- operands beyond 32 bits (FreeType's `FT_F26Dot6` is a long; skrifa cannot represent them): the
-- low 32 bits are normalised
example : FtVec.normalize 4294967296 3 ⟨0, 0⟩ = some ⟨0, 16384⟩ := by decide

/-! ### `update_projection_state` = `Compute_Funcs` -/

/-- a unit-vector register: FreeType's components are shorts; -32768 is excluded (skrifa's checked
`px * fx + py * fy` traps when both products are 2^30). -/
def Vec16 (v : Vec) : Prop := (-32767 ≤ v.x ∧ v.x ≤ 32767) ∧ (-32767 ≤ v.y ∧ v.y ≤ 32767)

/-- **projection state**: after the three vectors are written, skrifa's cached `fdotp` and axes are
FreeType's `F_dot_P` and function pointers (incl. the `|F·P| < 0x400 → 0x4000` clamp), and skrifa's
checked products do not trap. -/
theorem compute_funcs_eq (pv dv fv : Vec) (hp : Vec16 pv) (hf : Vec16 fv) :
    (HintVec.updateProjectionState pv dv fv).map toFuncs = some (FtVec.computeFuncs pv dv fv) := by
  obtain ⟨⟨hpx1, hpx2⟩, ⟨hpy1, hpy2⟩⟩ := hp
  obtain ⟨⟨hfx1, hfx2⟩, ⟨hfy1, hfy2⟩⟩ := hf
  unfold HintVec.updateProjectionState FtVec.computeFuncs toFuncs
  have m1 := mul_abs_bound (A := 32767) (B := 32767) ⟨hpx1, hpx2⟩ ⟨hfx1, hfx2⟩
  have m2 := mul_abs_bound (A := 32767) (B := 32767) ⟨hpy1, hpy2⟩ ⟨hfy1, hfy2⟩
  have c1 : HintMath.chk (pv.x * fv.x) = some (pv.x * fv.x) := by
    unfold HintMath.chk; rw [if_pos (by omega)]
  have c2 : HintMath.chk (pv.y * fv.y) = some (pv.y * fv.y) := by
    unfold HintMath.chk; rw [if_pos (by omega)]
  have c3 : HintMath.chk (pv.x * fv.x + pv.y * fv.y) = some (pv.x * fv.x + pv.y * fv.y) := by
    unfold HintMath.chk; rw [if_pos (by omega)]
  simp only [c1, c2, c3, Option.bind_some, Option.map_some]
  have hq : -131072 ≤ (pv.x * fv.x + pv.y * fv.y) / 16384 ∧ (pv.x * fv.x + pv.y * fv.y) / 16384 ≤ 131072 := by
    omega
  generalize (pv.x * fv.x + pv.y * fv.y) / 16384 = q at hq
  have habs : ∀ t : Int, -131072 ≤ t → t ≤ 131072 → HintMath.chk (iabs t) = some (iabs t) := by
    intro t h1 h2; unfold HintMath.chk iabs; split <;> rw [if_pos (by omega)]
  have hiabs : ∀ t : Int, (if t < 0 then -t else t) = iabs t := by intro t; rfl
  by_cases h1 : fv.x = 16384
  · simp only [h1, if_true, Option.bind_some, habs pv.x (by omega) (by omega), Option.map_some, hiabs]
    by_cases a1 : pv.x = 16384 <;> by_cases a2 : pv.y = 16384 <;> by_cases a3 : dv.x = 16384 <;>
      by_cases a4 : dv.y = 16384 <;> by_cases a5 : iabs pv.x < 1024 <;>
      simp [a1, a2, a3, a4, a5, axisToProj, axisToMove]
  · by_cases h2 : fv.y = 16384
    · simp only [h1, h2, if_true, if_false, Option.bind_some, habs pv.y (by omega) (by omega),
        Option.map_some, hiabs]
      by_cases a1 : pv.x = 16384 <;> by_cases a2 : pv.y = 16384 <;> by_cases a3 : dv.x = 16384 <;>
        by_cases a4 : dv.y = 16384 <;> by_cases a5 : iabs pv.y < 1024 <;>
        simp [a1, a2, a3, a4, a5, axisToProj, axisToMove]
    · simp only [h1, h2, if_false, Option.bind_some, habs q hq.1 hq.2, Option.map_some, hiabs]
      by_cases a1 : pv.x = 16384 <;> by_cases a2 : pv.y = 16384 <;> by_cases a3 : dv.x = 16384 <;>
        by_cases a4 : dv.y = 16384 <;> by_cases a5 : iabs q < 1024 <;> by_cases a6 : q = 16384 <;>
        simp [a1, a2, a3, a4, a5, a6, axisToProj, axisToMove]

-- the default state (all vectors on the x axis), a diagonal projection with a vertical freedom vector,
-- nearly perpendicular vectors (clamp), and the corner where skrifa traps
example : (HintVec.updateProjectionState ⟨16384, 0⟩ ⟨16384, 0⟩ ⟨16384, 0⟩).map toFuncs
    = some (FtVec.computeFuncs ⟨16384, 0⟩ ⟨16384, 0⟩ ⟨16384, 0⟩) := by decide
example : (FtVec.computeFuncs ⟨11585, 11585⟩ ⟨16384, 0⟩ ⟨0, 16384⟩).fDotP = 11585
    ∧ (FtVec.computeFuncs ⟨16384, 0⟩ ⟨16384, 0⟩ ⟨1000, 16353⟩).fDotP = 16384
    ∧ (FtVec.computeFuncs ⟨16384, 0⟩ ⟨16384, 0⟩ ⟨1024, 16352⟩).fDotP = 1024 := by decide
example : HintVec.updateProjectionState ⟨-32768, -32768⟩ ⟨16384, 0⟩ ⟨-32768, -32768⟩ = none
    ∧ (FtVec.computeFuncs ⟨-32768, -32768⟩ ⟨16384, 0⟩ ⟨-32768, -32768⟩).fDotP = 131072 := by decide

/-! ### `project` / `dual_project` = `PROJECT` / `DUALPROJ` -/

/-- a point with both coordinates within ±2^29. -/
def Pos29 (v : Vec) : Prop := Dist29 v.x ∧ Dist29 v.y

/-- a cached projection state in the range of the theorems: 16-bit vectors, `fdotp` an `i32` of
magnitude ≥ 0x400 (what `update_projection_state` leaves, see `proj_ok`). -/
def ProjOk (g : HintVec.Proj) : Prop :=
  Vec16 g.pv ∧ Vec16 g.dv ∧ Vec16 g.fv ∧ inI32 g.fdotp ∧ 1024 ≤ iabs g.fdotp

/-- `update_projection_state` establishes `ProjOk`. -/
theorem proj_ok (pv dv fv : Vec) (g : HintVec.Proj) (hp : Vec16 pv) (hd : Vec16 dv) (hf : Vec16 fv)
    (h : HintVec.updateProjectionState pv dv fv = some g) : ProjOk g := by
  unfold HintVec.updateProjectionState at h
  simp only [Option.bind_eq_some_iff, Option.map_eq_some_iff] at h
  obtain ⟨fd, hfd, a, ha, hg⟩ := h
  have ⟨ea, hain⟩ := chk_some ha
  subst hg
  unfold ProjOk
  refine ⟨hp, hd, hf, ?_, ?_⟩
  · simp only []
    unfold inI32 iabs at *
    split
    · omega
    · split at hain <;> omega
  · simp only []
    subst ea
    split
    · decide
    · omega

theorem project_eq (g : HintVec.Proj) (v1 v2 : Vec) (hg : ProjOk g) (h1 : Pos29 v1) (h2 : Pos29 v2) :
    HintVec.project g v1 v2 = some (FtVec.project (toFuncs g) v1 v2) := by
  obtain ⟨⟨hpx, hpy⟩, _, _, _, _⟩ := hg
  have ex := wsub_exact h1.1 h2.1
  have ey := wsub_exact h1.2 h2.2
  unfold Pos29 Dist29 at *
  unfold HintVec.project FtVec.project FtVec.funcProject toFuncs
  rw [ex.1, ex.2, ey.1, ey.2]
  cases hax : g.projAxis <;> simp only [axisToProj]
  · rw [wI32 (by omega) (by omega), wI32 (by omega) (by omega)]
    exact dot14_some _ _ _ _ (by omega) (by omega) hpx hpy

theorem dual_project_eq (g : HintVec.Proj) (v1 v2 : Vec) (hg : ProjOk g) (h1 : Pos29 v1) (h2 : Pos29 v2) :
    HintVec.dualProject g v1 v2 = some (FtVec.dualproj (toFuncs g) v1 v2) := by
  obtain ⟨_, ⟨hpx, hpy⟩, _, _, _⟩ := hg
  have ex := wsub_exact h1.1 h2.1
  have ey := wsub_exact h1.2 h2.2
  unfold Pos29 Dist29 at *
  unfold HintVec.dualProject FtVec.dualproj FtVec.funcDualproj toFuncs
  rw [ex.1, ex.2, ey.1, ey.2]
  cases hax : g.dualAxis <;> simp only [axisToProj]
  · rw [wI32 (by omega) (by omega), wI32 (by omega) (by omega)]
    exact dot14_some _ _ _ _ (by omega) (by omega) hpx hpy

/-- unscaled (font unit) coordinates: `dual_project_unscaled` = `DUALPROJ` on `orus`. -/
theorem dual_project_unscaled_eq (g : HintVec.Proj) (v1 v2 : Vec) (hg : ProjOk g) (h1 : Pos29 v1)
    (h2 : Pos29 v2) :
    HintVec.dualProjectUnscaled g v1 v2 = some (FtVec.dualproj (toFuncs g) v1 v2) := by
  obtain ⟨_, ⟨hpx, hpy⟩, _, _, _⟩ := hg
  have ex := wsub_exact h1.1 h2.1
  have ey := wsub_exact h1.2 h2.2
  unfold Pos29 Dist29 at *
  unfold HintVec.dualProjectUnscaled FtVec.dualproj FtVec.funcDualproj toFuncs
  rw [ex.2, ey.2]
  have cx : HintMath.chk (v1.x - v2.x) = some (v1.x - v2.x) := by
    unfold HintMath.chk; rw [if_pos (by omega)]
  have cy : HintMath.chk (v1.y - v2.y) = some (v1.y - v2.y) := by
    unfold HintMath.chk; rw [if_pos (by omega)]
  cases hax : g.dualAxis <;> simp only [axisToProj, cx, cy, Option.bind_some]
  · rw [wI32 (by omega) (by omega), wI32 (by omega) (by omega)]
    exact dot14_some _ _ _ _ (by omega) (by omega) hpx hpy

/-! ### `move_point` = `Direct_Move` (+ `_X`, `_Y`), `move_original`, `move_zp2_point` -/

/-- the distance handed to a move: within ±2^24 26.6 units (262144 px). -/
def Dist24 (d : Int) : Prop := -16777216 ≤ d ∧ d ≤ 16777216

/-- the point being moved: both coordinates within ±2^29. -/
def MPos29 (p : HintVec.MPt) : Prop := Dist29 p.x ∧ Dist29 p.y

/-- **`move_point`** = `exc->func_move` (`Direct_Move` through `F_dot_P`, or the `_X` / `_Y` fast paths),
in and out of backward-compatibility mode, before and after both IUPs: same coordinates, same touch flags. -/
theorem move_point_eq (g : HintVec.Proj) (bc iup : Bool) (p : HintVec.MPt) (d : Int) (hg : ProjOk g)
    (hp : MPos29 p) (hd : Dist24 d) :
    HintVec.movePoint g bc iup p d = FtVec.funcMove (toFuncs g) bc iup p d := by
  obtain ⟨_, _, ⟨hfx, hfy⟩, hfi, hfd⟩ := hg
  have mx := muldiv_small_eq d g.fv.x g.fdotp hd hfx hfi hfd
  have my := muldiv_small_eq d g.fv.y g.fdotp hd hfy hfi hfd
  have bx := ft_muldiv_small d g.fv.x g.fdotp hd hfx hfi hfd
  have by_ := ft_muldiv_small d g.fv.y g.fdotp hd hfy hfi hfd
  unfold MPos29 Dist29 Dist24 at *
  have add : ∀ a b : Int, (-536870912 ≤ a ∧ a ≤ 536870912) → (-536870913 ≤ b ∧ b ≤ 536870913) →
      HintMove.wadd a b = FtCalc.addLong a b := by
    intro a b ha hb; unfold HintMove.wadd FtCalc.addLong
    rw [wI32 (by omega) (by omega), wI64 (by omega) (by omega)]
  unfold HintVec.movePoint FtVec.funcMove toFuncs
  cases hax : g.freeAxis <;> simp only [axisToMove]
  · -- general: through F_dot_P
    rw [mx, my]
    by_cases hx0 : g.fv.x = 0 <;> by_cases hy0 : g.fv.y = 0 <;>
      cases bc <;> cases iup <;>
      simp [hx0, hy0, add p.x _ hp.1 bx, add p.y _ hp.2 by_]
  · cases bc <;> simp [add p.x d hp.1 (by omega)]
  · cases bc <;> cases iup <;> simp [add p.y d hp.2 (by omega)]

/-- **`move_original`** = `exc->func_move_orig`. -/
theorem move_original_eq (g : HintVec.Proj) (p : Vec) (d : Int) (hg : ProjOk g) (hp : Pos29 p)
    (hd : Dist24 d) : HintVec.moveOriginal g p d = FtVec.funcMoveOrig (toFuncs g) p d := by
  obtain ⟨_, _, ⟨hfx, hfy⟩, hfi, hfd⟩ := hg
  have mx := muldiv_small_eq d g.fv.x g.fdotp hd hfx hfi hfd
  have my := muldiv_small_eq d g.fv.y g.fdotp hd hfy hfi hfd
  have bx := ft_muldiv_small d g.fv.x g.fdotp hd hfx hfi hfd
  have by_ := ft_muldiv_small d g.fv.y g.fdotp hd hfy hfi hfd
  unfold Pos29 Dist29 Dist24 at *
  have add : ∀ a b : Int, (-536870912 ≤ a ∧ a ≤ 536870912) → (-536870913 ≤ b ∧ b ≤ 536870913) →
      HintMove.wadd a b = FtCalc.addLong a b := by
    intro a b ha hb; unfold HintMove.wadd FtCalc.addLong
    rw [wI32 (by omega) (by omega), wI64 (by omega) (by omega)]
  unfold HintVec.moveOriginal FtVec.funcMoveOrig toFuncs
  cases hax : g.freeAxis <;> simp only [axisToMove]
  · rw [mx, my, add p.x _ hp.1 bx, add p.y _ hp.2 by_]
  · rw [add p.x d hp.1 (by omega)]
  · rw [add p.y d hp.2 (by omega)]

/-- **`move_zp2_point`** = `Move_Zp2_Point` (SHP / SHC / SHZ / SHPIX), for displacements within ±2^29. -/
theorem move_zp2_point_eq (g : HintVec.Proj) (bc iup touch : Bool) (p : HintVec.MPt) (dx dy : Int)
    (hp : MPos29 p) (hdx : Dist29 dx) (hdy : Dist29 dy) :
    HintVec.moveZp2Point g bc iup p dx dy touch = FtVec.moveZp2Point (toFuncs g) bc iup p dx dy touch := by
  unfold MPos29 Dist29 at *
  have add : ∀ a b : Int, (-536870912 ≤ a ∧ a ≤ 536870912) → (-536870912 ≤ b ∧ b ≤ 536870912) →
      HintMove.wadd a b = FtCalc.addLong a b := by
    intro a b ha hb; unfold HintMove.wadd FtCalc.addLong
    rw [wI32 (by omega) (by omega), wI64 (by omega) (by omega)]
  unfold HintVec.moveZp2Point FtVec.moveZp2Point toFuncs
  by_cases hx0 : g.fv.x = 0 <;> by_cases hy0 : g.fv.y = 0 <;>
    cases bc <;> cases iup <;> cases touch <;>
    simp [hx0, hy0, add p.x dx hp.1 hdx, add p.y dy hp.2 hdy]

/-- **`point_displacement`** = `Compute_Point_Displacement` (the displacement of SHP/SHC/SHZ), for a
reference point whose current and original positions are within ±2^22 of each other per axis
(so that the projected distance is within ±2^24). -/
theorem point_displacement_eq (g : HintVec.Proj) (cur org : Vec) (hg : ProjOk g) (hc : Pos29 cur)
    (ho : Pos29 org) (hd : Dist24 (FtVec.project (toFuncs g) cur org)) :
    HintVec.pointDisplacement g cur org = some (FtVec.pointDisplacement (toFuncs g) cur org) := by
  have hpj := project_eq g cur org hg hc ho
  obtain ⟨_, _, ⟨hfx, hfy⟩, hfi, hfd⟩ := hg
  unfold HintVec.pointDisplacement FtVec.pointDisplacement
  rw [hpj]
  simp only [Option.map_some, Option.some.injEq]
  generalize FtVec.project (toFuncs g) cur org = d at hd
  rw [muldiv_small_eq d g.fv.x g.fdotp hd hfx hfi hfd, muldiv_small_eq d g.fv.y g.fdotp hd hfy hfi hfd]
  rfl

-- non-vacuity and behaviour: a diagonal freedom vector against the x projection axis
-- (F·P = 11585): moving by 64 along the projection moves the point by (64, 64)
example : ProjOk ⟨⟨16384, 0⟩, ⟨16384, 0⟩, ⟨11585, 11585⟩, 11585, .x, .x, .both⟩ := by
  unfold ProjOk Vec16 inI32 iabs; decide
example : HintVec.movePoint ⟨⟨16384, 0⟩, ⟨16384, 0⟩, ⟨11585, 11585⟩, 11585, .x, .x, .both⟩ false false ⟨100, 200, false, false⟩ 64
      = ⟨164, 264, true, true⟩
    ∧ FtVec.funcMove (toFuncs ⟨⟨16384, 0⟩, ⟨16384, 0⟩, ⟨11585, 11585⟩, 11585, .x, .x, .both⟩) false false ⟨100, 200, false, false⟩ 64
      = ⟨164, 264, true, true⟩ := by decide
-- backward compatibility: x never moves, y not after both IUPs; the flags are still set
example : HintVec.movePoint ⟨⟨16384, 0⟩, ⟨16384, 0⟩, ⟨11585, 11585⟩, 11585, .x, .x, .both⟩ true true ⟨100, 200, false, false⟩ 64
      = ⟨100, 200, true, true⟩
    ∧ HintVec.movePoint ⟨⟨16384, 0⟩, ⟨16384, 0⟩, ⟨11585, 11585⟩, 11585, .x, .x, .both⟩ true false ⟨100, 200, false, false⟩ 64
      = ⟨100, 264, true, true⟩ := by decide
-- outside the ranges: a move of 2^31 - 1 along x from x = 1: skrifa wraps, FreeType's long does not
example : HintVec.movePoint ⟨⟨16384, 0⟩, ⟨16384, 0⟩, ⟨16384, 0⟩, 16384, .x, .x, .x⟩ false false ⟨1, 0, false, false⟩ 2147483647
      = ⟨-2147483648, 0, true, false⟩
    ∧ FtVec.funcMove (toFuncs ⟨⟨16384, 0⟩, ⟨16384, 0⟩, ⟨16384, 0⟩, 16384, .x, .x, .x⟩) false false ⟨1, 0, false, false⟩ 2147483647
      = ⟨2147483648, 0, true, false⟩ := by decide

/-! ### GC, SCFS, MD -/

theorem ft_project_zero (f : FtVec.Funcs) (v : Vec) (hv : Pos29 v) :
    FtVec.project f v Vec.zero = FtVec.fastProject f v ∧ FtVec.dualproj f v Vec.zero = FtVec.fastDualproj f v := by
  unfold Pos29 Dist29 at hv
  unfold FtVec.project FtVec.dualproj FtVec.fastProject FtVec.fastDualproj FtCalc.subLong Vec.zero
  simp only [Int.sub_zero]
  rw [wI64 (by omega) (by omega), wI64 (by omega) (by omega)]
  exact ⟨rfl, rfl⟩

/-- **GC[a]** pushes the same value. -/
theorem gc_eq (g : HintVec.Proj) (a : Bool) (org cur : Vec) (hg : ProjOk g) (ho : Pos29 org)
    (hc : Pos29 cur) : HintVec.gc g a org cur = some (FtVec.gc (toFuncs g) a org cur) := by
  have hz : Pos29 Vec.zero := by unfold Pos29 Dist29 Vec.zero; simp only []; omega
  unfold HintVec.gc FtVec.gc
  cases a
  · simp only [Bool.false_eq_true, if_false]
    rw [project_eq g cur Vec.zero hg hc hz, (ft_project_zero _ cur hc).1]
  · simp only [if_true]
    rw [dual_project_eq g org Vec.zero hg ho hz, (ft_project_zero _ org ho).2]

/-- a point with both coordinates within ±2^20 (16384 px). -/
def MPos20 (p : HintVec.MPt) : Prop := (-1048576 ≤ p.x ∧ p.x ≤ 1048576) ∧ (-1048576 ≤ p.y ∧ p.y ≤ 1048576)

/-- **SCFS**: same resulting coordinates and touch flags, for a point within ±2^20 and a requested
coordinate within ±2^23. -/
theorem scfs_eq (g : HintVec.Proj) (bc iup : Bool) (p : HintVec.MPt) (value : Int) (hg : ProjOk g)
    (hp : MPos20 p) (hv : -8388608 ≤ value ∧ value ≤ 8388608) :
    HintVec.scfs g bc iup p value = some (FtVec.scfs (toFuncs g) bc iup p value) := by
  have hz : Pos29 Vec.zero := by unfold Pos29 Dist29 Vec.zero; simp only []; omega
  have hp29 : Pos29 ⟨p.x, p.y⟩ := by unfold MPos20 at hp; unfold Pos29 Dist29; simp only []; omega
  have hmp : MPos29 p := by unfold MPos20 at hp; unfold MPos29 Dist29; omega
  unfold HintVec.scfs FtVec.scfs
  rw [project_eq g _ Vec.zero hg hp29 hz, (ft_project_zero _ _ hp29).1]
  simp only [Option.map_some, Option.some.injEq]
  -- the projection of the point is within ±(2^22 + 1)
  have hk : -4194305 ≤ FtVec.fastProject (toFuncs g) ⟨p.x, p.y⟩ ∧ FtVec.fastProject (toFuncs g) ⟨p.x, p.y⟩ ≤ 4194305 := by
    obtain ⟨⟨hpx, hpy⟩, _, _, _, _⟩ := hg
    unfold MPos20 at hp
    unfold FtVec.fastProject FtVec.funcProject toFuncs
    cases hax : g.projAxis <;> simp only [axisToProj]
    · rw [wI32 (by omega) (by omega), wI32 (by omega) (by omega)]
      exact dotFix14_small _ _ _ _ hp.1 hp.2 hpx hpy
    · omega
    · omega
  generalize FtVec.fastProject (toFuncs g) ⟨p.x, p.y⟩ = k at hk
  have e : HintMove.wsub value k = FtCalc.subLong value k := by
    unfold HintMove.wsub FtCalc.subLong; rw [wI32 (by omega) (by omega), wI64 (by omega) (by omega)]
  rw [e]
  have hd : Dist24 (FtCalc.subLong value k) := by
    unfold Dist24 FtCalc.subLong; rw [wI64 (by omega) (by omega)]; omega
  exact move_point_eq g bc iup p _ hg hmp hd

/-- a zone point with all three positions within ±2^29. -/
def ZPos29 (p : ZPt) : Prop := Pos29 p.org ∧ Pos29 p.cur ∧ Pos29 p.orus

/-- **MD[a]** pushes the same value (current positions; twilight: original positions; otherwise the
unscaled positions, scaled by the 16.16 scale — any `i32` scale). -/
theorem md_eq (g : HintVec.Proj) (a twilight : Bool) (scale : Int) (p2 p1 : ZPt) (hg : ProjOk g)
    (h2 : ZPos29 p2) (h1 : ZPos29 p1) (hs : inI32 scale) :
    HintVec.md g a twilight scale p2 p1 = some (FtVec.md (toFuncs g) a twilight scale p2 p1) := by
  unfold HintVec.md FtVec.md
  cases a
  · cases twilight
    · simp only [Bool.false_eq_true, if_false]
      rw [dual_project_unscaled_eq g _ _ hg h2.2.2 h1.2.2]
      simp only [Option.map_some, Option.some.injEq]
      -- the dual projection of two points within ±2^29 is an i32
      have hd : inI32 (FtVec.dualproj (toFuncs g) p2.orus p1.orus) := by
        have ex := wsub_exact h2.2.2.1 h1.2.2.1
        have ey := wsub_exact h2.2.2.2 h1.2.2.2
        have hx2 := h2.2.2; have hx1 := h1.2.2
        unfold Pos29 Dist29 at hx2 hx1
        unfold FtVec.dualproj FtVec.funcDualproj toFuncs
        rw [ex.2, ey.2]
        cases hax : g.dualAxis <;> simp only [axisToProj]
        · unfold FtCalc.dotFix14; exact wrapI32_in _
        · unfold inI32; omega
        · unfold inI32; omega
      unfold HintMath.mul
      exact mulfix_eq _ _ hd hs
    · simp only [Bool.false_eq_true, if_false, if_true]
      exact dual_project_eq g _ _ hg h2.1 h1.1
  · simp only [if_true]
    exact project_eq g _ _ hg h2.2.1 h1.2.1

-- GC / SCFS / MD under a diagonal projection vector (11585, 11585) and the x freedom axis
example : HintVec.gc ⟨⟨11585, 11585⟩, ⟨11585, 11585⟩, ⟨16384, 0⟩, 11585, .both, .both, .both⟩ false ⟨0, 0⟩ ⟨640, -320⟩ = some 226
    ∧ FtVec.gc (toFuncs ⟨⟨11585, 11585⟩, ⟨11585, 11585⟩, ⟨16384, 0⟩, 11585, .both, .both, .both⟩) false ⟨0, 0⟩ ⟨640, -320⟩ = 226 := by decide
example : HintVec.scfs ⟨⟨11585, 11585⟩, ⟨11585, 11585⟩, ⟨16384, 0⟩, 11585, .both, .both, .both⟩ false false ⟨640, -320, false, false⟩ 290
      = some ⟨731, -320, true, false⟩
    ∧ FtVec.scfs (toFuncs ⟨⟨11585, 11585⟩, ⟨11585, 11585⟩, ⟨16384, 0⟩, 11585, .both, .both, .both⟩) false false ⟨640, -320, false, false⟩ 290
      = ⟨731, -320, true, false⟩ := by decide

/-! ### vector setters -/

/-- the convergence property of the shared Newton iteration that is assumed, not proved:
for magnitudes of `i32` operands it ends with both components below 2^17. -/
def NormConverges : Prop :=
  ∀ ux uy : Int, 0 < ux → ux ≤ 2147483648 → 0 < uy → uy ≤ 2147483648 → NormSmall ux uy

/-- normalisation for any `i32` operands under `NormConverges`, and the result is a 16-bit vector. -/
theorem normalize_conv_partial (hn : NormConverges) (x y : Int) (hx : inI32 x) (hy : inI32 y)
    (hnz : ¬ (x = 0 ∧ y = 0)) (r0 r : Vec) (h : HintVec.normalize14 x y = some r) :
    FtVec.normalize x y r0 = some r ∧ Vec16 r := by
  have hs : x ≠ 0 → y ≠ 0 → NormSmall (iabs x) (iabs y) := by
    intro h1 h2; unfold inI32 at hx hy
    exact hn _ _ (by unfold iabs; split <;> omega) (by unfold iabs; split <;> omega)
      (by unfold iabs; split <;> omega) (by unfold iabs; split <;> omega)
  have h1 := normalize_eq_partial x y hx hy hnz hs r0 r h
  refine ⟨h1, ?_⟩
  -- FreeType's result is a pair of shorts obtained from values below 2^17 / 4
  unfold FtVec.normalize at h1
  simp only [hnz, if_false, Option.map_eq_some_iff] at h1
  obtain ⟨⟨a, b⟩, hab, hr⟩ := h1
  unfold FtVec.normLen at hab
  unfold inI32 at hx hy
  rw [wI32 hx.1 hx.2, wI32 hy.1 hy.2] at hab
  have ex : (if x < 0 then wrapU32 (0 - wrapU32 x) else wrapU32 x) = iabs x := by
    unfold wrapU32 iabs; split <;> omega
  have ey : (if y < 0 then wrapU32 (0 - wrapU32 y) else wrapU32 y) = iabs y := by
    unfold wrapU32 iabs; split <;> omega
  simp only [ex, ey] at hab
  have tb : ∀ w : Int, -131072 < w → w < 131072 →
      -32767 ≤ wrapI16 (Int.tdiv w 4) ∧ wrapI16 (Int.tdiv w 4) ≤ 32767 := by
    intro w h0 h1
    by_cases hw : 0 ≤ w
    · rw [Int.tdiv_eq_ediv_of_nonneg hw, wrapI16_id (by omega) (by omega)]; omega
    · have : w = -(-w) := by omega
      rw [this, Int.neg_tdiv, Int.tdiv_eq_ediv_of_nonneg (by omega), wrapI16_id (by omega) (by omega)]; omega
  have hab2 : (-131072 < a ∧ a < 131072) ∧ (-131072 < b ∧ b < 131072) := by
    by_cases hx0 : iabs x = 0
    · simp only [hx0, if_true, Option.some.injEq, Prod.mk.injEq] at hab
      have : x = 0 := by unfold iabs at hx0; split at hx0 <;> omega
      have hyp : iabs y > 0 := by unfold iabs; split <;> omega
      rw [← hab.1, ← hab.2]
      refine ⟨by omega, ?_⟩
      simp only [hyp, if_true]
      split <;> omega
    · simp only [hx0, if_false] at hab
      by_cases hy0 : iabs y = 0
      · simp only [hy0, if_true, Option.some.injEq, Prod.mk.injEq] at hab
        have : y = 0 := by unfold iabs at hy0; split at hy0 <;> omega
        have hxp : iabs x > 0 := by unfold iabs; split <;> omega
        rw [← hab.1, ← hab.2]
        refine ⟨?_, by omega⟩
        simp only [hxp, if_true]
        split <;> omega
      · simp only [hy0, if_false, Option.map_eq_some_iff] at hab
        obtain ⟨⟨u, v⟩, huv, he⟩ := hab
        simp only [Prod.mk.injEq] at he
        have hx1 : x ≠ 0 := by intro e; subst e; exact hx0 (by decide)
        have hy1 : y ≠ 0 := by intro e; subst e; exact hy0 (by decide)
        have hsm := hs hx1 hy1 u v huv
        have hrg := norm_loop_range _ _ _ _ _ _ (by unfold FtVec.normCore at huv; exact huv)
        rw [← he.1, ← he.2]
        refine ⟨?_, ?_⟩ <;> split <;> omega
  rw [← hr]
  exact ⟨tb a hab2.1.1 hab2.1.2, tb b hab2.2.1 hab2.2.2⟩

/-- **SVTCA / SPVTCA / SFVTCA** (opcodes 0‥5) write the same vectors. -/
theorem svtca_eq (opcode : Int) (pv dv fv : Vec) (h : 0 ≤ opcode ∧ opcode ≤ 5) :
    HintVec.svtca opcode pv dv fv = FtVec.sxytca opcode pv dv fv := by
  have : opcode = 0 ∨ opcode = 1 ∨ opcode = 2 ∨ opcode = 3 ∨ opcode = 4 ∨ opcode = 5 := by omega
  rcases this with e | e | e | e | e | e <;> subst e <;> rfl

/-- `line_vector(p1, p2, is_parallel)` against the corresponding block of `Ins_SxVTL` / `Ins_SDPVTL`
(`A = 0x4000, opcode = 0` for coincident points, counter-clockwise rotation, `Normalize`). -/
theorem line_vector_partial (hn : NormConverges) (opcode : Int) (p1 p2 : Vec) (h1 : Pos29 p1)
    (h2 : Pos29 p2) (r0 r : Vec) (h : HintVec.lineVector p1 p2 (opcode % 2 = 0) = some r) :
    (FtVec.lineBlock opcode p1 p2 r0).1 = some r ∧ Vec16 r ∧
    (FtVec.lineBlock opcode p1 p2 r0).2 = (if p1 = p2 then 0 else opcode) := by
  have ex := wsub_exact h1.1 h2.1
  have ey := wsub_exact h1.2 h2.2
  unfold Pos29 Dist29 at h1 h2
  unfold HintVec.lineVector at h
  unfold FtVec.lineBlock
  rw [ex.1, ey.1] at h
  rw [ex.2, ey.2]
  by_cases hz : p1.x - p2.x = 0 ∧ p1.y - p2.y = 0
  · have hpe : p1 = p2 := by
      cases p1; cases p2; simp only [Vec.mk.injEq] at *; omega
    simp only [hz, and_self, if_true] at h ⊢
    simp only [show (0:Int) % 2 ≠ 0 ↔ False from by decide, if_false, hpe, if_true, and_true]
    exact normalize_conv_partial hn 16384 0 (by decide) (by decide) (by decide) r0 r h
  · have hpe : ¬ p1 = p2 := by
      intro e; subst e; exact hz ⟨by omega, by omega⟩
    simp only [hz, if_false, hpe, and_true] at h ⊢
    by_cases hpar : opcode % 2 = 0
    · simp only [hpar, decide_true, not_true_eq_false, if_false, ne_eq] at h ⊢
      exact normalize_conv_partial hn _ _ (by unfold inI32; omega) (by unfold inI32; omega) hz r0 r h
    · simp only [hpar, decide_false, not_false_eq_true, if_true, ne_eq] at h ⊢
      have e1 : HintRound.wneg (p1.y - p2.y) = -(p1.y - p2.y) := by
        unfold HintRound.wneg; exact wI32 (by omega) (by omega)
      have e2 : FtCalc.negLong (p1.y - p2.y) = -(p1.y - p2.y) := by
        unfold FtCalc.negLong; exact wI64 (by omega) (by omega)
      rw [e1] at h
      rw [e2]
      exact normalize_conv_partial hn _ _ (by unfold inI32; omega) (by unfold inI32; omega) (by omega) r0 r h

/-- **SPVTL[a] / SFVTL[a]**, partial (assumes `NormConverges`). -/
theorem svtl_eq_partial (hn : NormConverges) (opcode : Int) (p1 p2 pv dv fv : Vec)
    (ho : 6 ≤ opcode ∧ opcode ≤ 9) (h1 : Pos29 p1) (h2 : Pos29 p2) (t : Vec × Vec × Vec)
    (h : HintVec.svtl opcode p1 p2 pv dv fv = some t) : FtVec.svtl opcode p1 p2 pv dv fv = some t := by
  unfold HintVec.svtl at h
  unfold FtVec.svtl
  simp only [Option.map_eq_some_iff] at h
  obtain ⟨v, hv, ht⟩ := h
  by_cases h8 : opcode < 8
  · simp only [h8, if_true] at ht ⊢
    unfold FtVec.sxvtl
    rw [(line_vector_partial hn opcode p1 p2 h1 h2 pv v hv).1]
    simp only [Option.map_some, ht]
  · simp only [h8, if_false] at ht ⊢
    unfold FtVec.sxvtl
    rw [(line_vector_partial hn opcode p1 p2 h1 h2 fv v hv).1]
    simp only [Option.map_some, ht]

/-- **SDPVTL[a]**, partial (assumes `NormConverges`): dual vector from the original, projection vector
from the current positions; coincident ORIGINAL points also cancel the rotation of the projection vector
(FreeType clears its local `opcode`; skrifa after fix 8215eeb). -/
theorem sdpvtl_eq_partial (hn : NormConverges) (opcode : Int) (o1 o2 c1 c2 pv dv fv : Vec)
    (ho1 : Pos29 o1) (ho2 : Pos29 o2) (hc1 : Pos29 c1) (hc2 : Pos29 c2) (t : Vec × Vec × Vec)
    (h : HintVec.sdpvtl opcode o1 o2 c1 c2 fv = some t) :
    FtVec.sdpvtl opcode o1 o2 c1 c2 pv dv fv = some t := by
  unfold HintVec.sdpvtl at h
  unfold FtVec.sdpvtl
  simp only [Option.bind_eq_some_iff, Option.map_eq_some_iff] at h
  obtain ⟨dv', hdv, pv', hpv, ht⟩ := h
  have b1 := line_vector_partial hn opcode o1 o2 ho1 ho2 dv dv' hdv
  simp only [b1.1, b1.2.2, Option.bind_some]
  by_cases he : o1 = o2
  · simp only [he, if_true] at hpv ⊢
    have b2 := line_vector_partial hn 0 c1 c2 hc1 hc2 pv pv' (by simpa using hpv)
    simp only [b2.1, Option.map_some, ht]
  · simp only [he, if_false] at hpv ⊢
    have b2 := line_vector_partial hn opcode c1 c2 hc1 hc2 pv pv' hpv
    simp only [b2.1, Option.map_some, ht]

/-- **SPVFS / SFVFS**, partial (assumes `NormConverges`): any `i32` stack values. -/
theorem spvfs_eq_partial (hn : NormConverges) (x y : Int) (pv dv fv : Vec) (t : Vec × Vec × Vec)
    (h : HintVec.spvfs x y pv dv fv = some t) : FtVec.spvfs x y pv dv fv = some t := by
  unfold HintVec.spvfs HintVec.asI16 at h
  unfold FtVec.spvfs
  have hi : ∀ w : Int, inI32 (wrapI16 w) := by intro w; unfold inI32 wrapI16; simp only []; split <;> omega
  simp only [Option.map_eq_some_iff] at h ⊢
  obtain ⟨v, hv, ht⟩ := h
  refine ⟨v, ?_, ht⟩
  by_cases hz : wrapI16 x = 0 ∧ wrapI16 y = 0
  · simp only [hz, and_self, if_true] at hv
    unfold FtVec.normalize; simp only [hz, and_self, if_true]; exact hv
  · simp only [hz, if_false] at hv
    exact (normalize_conv_partial hn _ _ (hi x) (hi y) hz pv v hv).1

theorem sfvfs_eq_partial (hn : NormConverges) (x y : Int) (pv dv fv : Vec) (t : Vec × Vec × Vec)
    (h : HintVec.sfvfs x y pv dv fv = some t) : FtVec.sfvfs x y pv dv fv = some t := by
  unfold HintVec.sfvfs HintVec.asI16 at h
  unfold FtVec.sfvfs
  have hi : ∀ w : Int, inI32 (wrapI16 w) := by intro w; unfold inI32 wrapI16; simp only []; split <;> omega
  simp only [Option.map_eq_some_iff] at h ⊢
  obtain ⟨v, hv, ht⟩ := h
  refine ⟨v, ?_, ht⟩
  by_cases hz : wrapI16 x = 0 ∧ wrapI16 y = 0
  · simp only [hz, and_self, if_true] at hv
    unfold FtVec.normalize; simp only [hz, and_self, if_true]; exact hv
  · simp only [hz, if_false] at hv
    exact (normalize_conv_partial hn _ _ (hi x) (hi y) hz fv v hv).1

-- SPVFS of an unnormalised vector; SPVFS(0, 0) keeps the projection vector on both sides
example : HintVec.spvfs 3 4 ⟨16384, 0⟩ ⟨16384, 0⟩ ⟨0, 16384⟩ = some (⟨9830, 13107⟩, ⟨9830, 13107⟩, ⟨0, 16384⟩)
    ∧ FtVec.spvfs 3 4 ⟨16384, 0⟩ ⟨16384, 0⟩ ⟨0, 16384⟩ = some (⟨9830, 13107⟩, ⟨9830, 13107⟩, ⟨0, 16384⟩) := by decide
example : HintVec.spvfs 65536 0 ⟨11585, 11585⟩ ⟨16384, 0⟩ ⟨0, 16384⟩ = some (⟨11585, 11585⟩, ⟨11585, 11585⟩, ⟨0, 16384⟩)
    ∧ FtVec.spvfs 65536 0 ⟨11585, 11585⟩ ⟨16384, 0⟩ ⟨0, 16384⟩ = some (⟨11585, 11585⟩, ⟨11585, 11585⟩, ⟨0, 16384⟩) := by decide

end FontVerif.C03
