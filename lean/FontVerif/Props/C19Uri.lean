/-
C19 (part 4) — uri template expansion (Model/UriTemplate.lean ⇄ uri_templates.rs).
Helper lemmas: Lemmas/UriTemplate.lean.

Vocabulary:
* `parseEvents tpl` — the template read by the state machine of `take_input` as a list of output
  EVENTS (`raw b`: byte copied verbatim — allowed literal, `%`, the two hex digits of a `%XX` triplet;
  `enc b`: literal that gets percent-encoded; `id`; `id64`; `digit n` for `{d1}`…`{d4}`); `none` =
  `UriTemplateError` (invalid literal byte, `%` not followed by two hex digits, unknown or unterminated
  expression).  It does not look at the id.
* `render a b evs` — concatenation of the events' outputs with `{id}` ↦ `a`, `{id64}` ↦ `b`,
  `{dN}` ↦ the N-th character of `a` from the end (`_` when `a` is shorter).
* `idBytes id` — the id's bytes (numeric: big-endian `u32` without leading zero bytes, at least one);
  `base32hex` — `BASE32HEX_NO_PADDING`; `id64Of` — `BASE64URL` with `=` padding, each `=` percent-encoded.
-/
import FontVerif.Lemmas.UriTemplate
set_option linter.unusedVariables false
namespace FontVerif.C19
open FontVerif FontVerif.PatchMap FontVerif.UriTemplate

/-- **uri_expand_total.**  For every template and every patch id, `expand_template` is the rendering
of the template's events with the id's base32hex / base64url strings; in particular it fails
(`UriTemplateError`) exactly when the TEMPLATE does not parse — never depending on the id — and
otherwise returns the concatenation of the events' outputs. -/
theorem uri_expand_total (tpl : List Nat) (id : PatchId) :
    expandTemplate tpl id
      = (parseEvents tpl).map (render (base32hex (idBytes id)) (id64Of (idBytes id))) ∧
    (expandTemplate tpl id = none ↔ parseEvents tpl = none) := by
  have h : expandTemplate tpl id
      = (parseEvents tpl).map (render (base32hex (idBytes id)) (id64Of (idBytes id))) := by
    unfold expandTemplate
    simp only []
    rw [expandInner_eq]
    rfl
  refine ⟨h, ?_⟩
  rw [h]
  cases parseEvents tpl <;> simp

/-- **uri_expand_injective_on_ids.**  Two patch ids that expand to the SAME uri under one template
(`u`) — the exact condition under which they must be the same id:

* the template parses (`evs`), and the lengths satisfy
  `#{id}·|base32hex₁| + #{id64}·|id64₁| = #{id}·|base32hex₂| + #{id64}·|id64₂|` (always);
* if the template contains `{id}` or `{id64}` and the two ids have the same number of bytes, the ids
  are equal;
* if the template contains `{id}` and no `{id64}`, the ids are equal (whatever their lengths:
  `|base32hex|` is strictly increasing in the number of bytes).

Contrapositive: different ids give different uris whenever the template contains `{id}` or `{id64}`,
unless it mixes in `{id64}` AND the ids differ in byte length AND the substituted lengths collide
(`{id}{id64}`: 1-byte and 2-byte ids both give 10 characters) — for that residue the uris are still
compared as strings by `select_next_patches_from_candidates` (`group_no_duplicate_uri` does not rely
on injectivity). -/
theorem uri_expand_injective_on_ids (tpl : List Nat) (id1 id2 : PatchId) (u : List Nat)
    (hb1 : ∀ b ∈ idBytes id1, b < 256) (hb2 : ∀ b ∈ idBytes id2, b < 256)
    (h1 : expandTemplate tpl id1 = some u) (h2 : expandTemplate tpl id2 = some u) :
    ∃ evs, parseEvents tpl = some evs ∧
      evs.count .id * (base32hex (idBytes id1)).length + evs.count .id64 * (id64Of (idBytes id1)).length
        = evs.count .id * (base32hex (idBytes id2)).length + evs.count .id64 * (id64Of (idBytes id2)).length ∧
      ((idBytes id1).length = (idBytes id2).length → (Ev.id ∈ evs ∨ Ev.id64 ∈ evs) →
        idBytes id1 = idBytes id2) ∧
      (Ev.id ∈ evs → Ev.id64 ∉ evs → idBytes id1 = idBytes id2) := by
  rw [(uri_expand_total tpl id1).1] at h1
  rw [(uri_expand_total tpl id2).1] at h2
  cases hp : parseEvents tpl with
  | none => rw [hp] at h1; cases h1
  | some evs =>
    rw [hp] at h1 h2
    simp only [Option.map_some, Option.some.injEq] at h1 h2
    have heq := h1.trans h2.symm
    have hlen := congrArg List.length heq
    rw [render_length, render_length] at hlen
    have same : (idBytes id1).length = (idBytes id2).length → (Ev.id ∈ evs ∨ Ev.id64 ∈ evs) →
        idBytes id1 = idBytes id2 := by
      intro hl hmem
      have ha : (base32hex (idBytes id1)).length = (base32hex (idBytes id2)).length := by
        rw [base32hex_length, base32hex_length, hl]
      have hb : (id64Of (idBytes id1)).length = (id64Of (idBytes id2)).length := by
        -- same byte length: same number of data characters and of pads
        unfold id64Of base64url
        simp only [List.flatMap_append, chunk6_pe, flatMap_pad, List.length_append, List.length_map]
        rw [chunk6_length _ _ (by omega), chunk6_length _ _ (by omega), flatMap_byteBits_length,
          flatMap_byteBits_length, hl]
      obtain ⟨r1, r2⟩ := render_inj _ _ _ _ ha hb evs heq
      rcases hmem with hm | hm
      · exact base32hex_inj _ _ hb1 hb2 hl (r1 hm)
      · exact id64Of_inj _ _ hb1 hb2 hl (r2 hm)
    refine ⟨evs, rfl, by omega, same, ?_⟩
    intro hid hno
    have hc0 : evs.count .id64 = 0 := List.count_eq_zero.2 hno
    have hc1 : 0 < evs.count .id := List.count_pos_iff.2 hid
    rw [hc0] at hlen
    simp only [Nat.zero_mul, Nat.add_zero] at hlen
    have hmul : evs.count .id * (base32hex (idBytes id1)).length
        = evs.count .id * (base32hex (idBytes id2)).length := by omega
    have hs := Nat.eq_of_mul_eq_mul_left hc1 hmul
    rw [base32hex_length, base32hex_length] at hs
    exact same (by omega) (Or.inl hid)

/-- **uri_expand_injective_on_numeric_ids.**  Numeric entry ids (`u32`, what format 1 and format 2
without id strings produce): under a template that contains `{id}` and no `{id64}`, or that contains
`{id}` / `{id64}` and the two ids need the same number of bytes, different ids expand to different
uris. -/
theorem uri_expand_injective_on_numeric_ids (tpl : List Nat) (n m : Nat) (hn : n < 4294967296)
    (hm : m < 4294967296) (u : List Nat)
    (h1 : expandTemplate tpl (.num n) = some u) (h2 : expandTemplate tpl (.num m) = some u) :
    ∃ evs, parseEvents tpl = some evs ∧
      ((idBytes (.num n)).length = (idBytes (.num m)).length → (Ev.id ∈ evs ∨ Ev.id64 ∈ evs) → n = m) ∧
      (Ev.id ∈ evs → Ev.id64 ∉ evs → n = m) := by
  obtain ⟨v1, b1⟩ := idBytes_num_value n hn
  obtain ⟨v2, b2⟩ := idBytes_num_value m hm
  obtain ⟨evs, hp, _, hs, hd⟩ := uri_expand_injective_on_ids tpl (.num n) (.num m) u b1 b2 h1 h2
  refine ⟨evs, hp, ?_, ?_⟩
  · intro hl hmem
    have := hs hl hmem
    rw [← v1, ← v2, this]
  · intro hi hno
    have := hd hi hno
    rw [← v1, ← v2, this]

/-! ## non-vacuity / the specification's examples -/

section Examples

private def str (s : String) : List Nat := s.toList.map (·.toNat)

example : expandTemplate (str "//foo.bar/{id}") (.num 123) = some (str "//foo.bar/FC") := by decide +kernel
example : expandTemplate (str "//foo.bar/{id}") (.num 0) = some (str "//foo.bar/00") := by decide +kernel
example : expandTemplate (str "//foo.bar/{d1}/{d2}/{id}") (.num 478) = some (str "//foo.bar/0/F/07F0") := by
  decide +kernel
example : expandTemplate (str "{id64}") (.num 14000000) = some (str "1Z-A") := by decide +kernel
/-- `=` padding of base64url is percent-encoded -/
example : expandTemplate (str "{id64}") (.num 0) = some (str "AA%3D%3D") := by decide +kernel
/-- literals: copied, percent-encoded (space is not allowed at all, non-ASCII is encoded), `%XX` kept -/
example : expandTemplate [97, 0xC9, 37, 50, 48] (.num 1) = some (str "a%C9%20") := by decide +kernel
example : parseEvents (str "a b") = none := by decide +kernel
/-- unknown / unterminated expressions, bad percent triplets -/
example : parseEvents (str "{x}") = none ∧ parseEvents (str "{id") = none ∧ parseEvents (str "{id6}") = none ∧
    parseEvents (str "{d5}") = none ∧ parseEvents (str "{}") = none ∧ parseEvents (str "%4") = none ∧
    parseEvents (str "%zz") = none ∧ parseEvents (str "}") = none := by decide +kernel
example : parseEvents (str "a{d1}{id}%4f{id64}") = some [.raw 97, .digit 1, .id, .raw 37, .raw 52, .raw 102, .id64] := by
  decide +kernel
/-- the length collision that keeps the general statement conditional -/
example : ((expandTemplate (str "{id}{id64}") (.str [7])).map List.length,
           (expandTemplate (str "{id}{id64}") (.str [7, 7])).map List.length) = (some 10, some 10) := by
  decide +kernel

end Examples

end FontVerif.C19
