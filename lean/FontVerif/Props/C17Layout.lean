/-
C17 (layout part) — subsetting the OpenType layout COMMON tables and GDEF preserves what they say about
the glyphs that are kept; GSUB / GPOS are NOT subset by klippa (pass-through), which is characterised
at the end.

Models: `FontVerif/Model/SubsetLayout.lean` (klippa `layout.rs`: Coverage / ClassDef subsetters and
writers, post-fix 546e1a4), `FontVerif/Model/SubsetGdef.lean` (klippa `gdef.rs` + the plan side of
`lib.rs`, post-fix 507034d / 87f42c2).  Reader side: C16's models of read-fonts `CoverageTable::get`
and `ClassDef::get` (binary searches) in `FontVerif/Model/Layout.lean`, C11's `computeDelta` for the
variation store.  The theorems are stated on the structured written tables (`CovW.toCoverage`,
`Layout.ClassDef`, `GdefOut`); their byte images (`CovW.bytes`, `classDefBytes`, `encodeGdef`) are
tied to the real output by the byte-exact correspondence runs of `harness/src/bin/c17/layoutx.rs`.

"Kept" means kept FOR LAYOUT: a key of `plan.glyph_map_gsub` (= `glyphset_gsub`: requested glyphs,
cmap closure, .notdef — klippa has no GSUB closure).  Glyphs that are only kept as composite
components or COLR layers are not in that set and lose their GDEF data (as in HarfBuzz).
-/
import FontVerif.Lemmas.SubsetLayoutProps
set_option linter.unusedVariables false
namespace FontVerif.C17Layout
open FontVerif FontVerif.Layout FontVerif.SubsetLayout FontVerif.SubsetGdef

/-! ## 1. Coverage -/

/-- **coverage_subset_glyphs**: the glyphs of the subset coverage are exactly
`{ glyph_map g | g covered, g kept }`, in ascending order (= coverage order of the original) -/
theorem coverage_subset_glyphs {p : LPlan} (hp : PlanOk p) {c : Coverage} (hc : CovOk p c)
    (hsmall : (c.glyphs.filterMap p.get).length < 65536) {w : CovW}
    (h : subsetCoverage p c = .ok w) :
    w.toCoverage.glyphs = c.glyphs.filterMap p.get ∧ w.toCoverage.glyphs.Pairwise (· < ·) ∧
    ∀ n, n ∈ w.toCoverage.glyphs ↔ ∃ g, g ∈ c.glyphs ∧ p.get g = some n := by
  rcases subsetCoverage_spec hp hc hsmall with ⟨_, he⟩ | ⟨w', hw', hg, _⟩
  · rw [he] at h; cases h
  · rw [hw'] at h; injection h with h; subst h
    refine ⟨hg, ?_, ?_⟩
    · rw [hg]; exact kept_sorted hp hc.sorted
    · intro n; rw [hg]; simp [List.mem_filterMap]

/-- **coverage_subset_get**: through read-fonts' reader: the coverage index of the image of a kept
glyph is the rank of the glyph among the kept covered glyphs (`none` when the glyph is not covered);
an id that is not the image of a kept covered glyph is not covered. -/
theorem coverage_subset_get {p : LPlan} (hp : PlanOk p) {c : Coverage} (hc : CovOk p c)
    (hsmall : (c.glyphs.filterMap p.get).length < 65536) {w : CovW}
    (h : subsetCoverage p c = .ok w) :
    (∀ g n, p.get g = some n →
      w.toCoverage.get n = indexIn g (c.glyphs.filter (kept p))) ∧
    (∀ g n i, p.get g = some n → c.get g = some i →
      w.toCoverage.get n = some ((c.glyphs.take i).countP (kept p))) ∧
    (∀ n, (∀ g, g ∈ c.glyphs → p.get g ≠ some n) → w.toCoverage.get n = none) := by
  rcases subsetCoverage_spec hp hc hsmall with ⟨_, he⟩ | ⟨w', hw', hg, hget⟩
  · rw [he] at h; cases h
  · rw [hw'] at h; injection h with h; subst h
    have h1 : ∀ g n, p.get g = some n →
        w'.toCoverage.get n = indexIn g (c.glyphs.filter (kept p)) := by
      intro g n hgn
      rw [hget n]
      exact indexIn_filterMap p.get g n hgn c.glyphs (fun a _ ha => hp.get_inj ha hgn)
    refine ⟨h1, ?_, ?_⟩
    · intro g n i hgn hci
      rw [h1 g n hgn]
      rw [hc.get_eq] at hci
      exact indexIn_filter (kept p) c.glyphs g i hci (by simp [kept, hgn])
    · intro n hn
      rw [hget n]
      apply indexIn_none
      intro hm
      obtain ⟨g, hg', e⟩ := List.mem_filterMap.mp hm
      exact hn g hg' e

/-- **coverage_subset_index_order_preserved**: the coverage indices of kept glyphs keep their
relative order (the new index of a glyph is the number of kept covered glyphs before it) -/
theorem coverage_subset_index_order_preserved {p : LPlan} (hp : PlanOk p) {c : Coverage}
    (hc : CovOk p c) (hsmall : (c.glyphs.filterMap p.get).length < 65536) {w : CovW}
    (h : subsetCoverage p c = .ok w) {g1 g2 n1 n2 i1 i2 j1 j2 : Nat}
    (k1 : p.get g1 = some n1) (k2 : p.get g2 = some n2)
    (c1 : c.get g1 = some i1) (c2 : c.get g2 = some i2)
    (s1 : w.toCoverage.get n1 = some j1) (s2 : w.toCoverage.get n2 = some j2) :
    i1 < i2 ↔ j1 < j2 := by
  have hs := (coverage_subset_get hp hc hsmall h).2.1
  have e1 := hs g1 n1 i1 k1 c1
  have e2 := hs g2 n2 i2 k2 c2
  rw [s1] at e1; rw [s2] at e2
  injection e1 with e1; injection e2 with e2
  rw [hc.get_eq] at c1 c2
  have q1 : kept p g1 = true := by simp [kept, k1]
  have q2 : kept p g2 = true := by simp [kept, k2]
  constructor
  · intro hlt
    rw [e1, e2]
    exact countP_take_lt (kept p) c.glyphs (indexIn_getElem? c1) q1 hlt
  · intro hlt
    rcases Nat.lt_trichotomy i1 i2 with hh | hh | hh
    · exact hh
    · subst hh; omega
    · have := countP_take_lt (kept p) c.glyphs (indexIn_getElem? c2) q2 hh
      omega

/-- **parallel_array_alignment**: an array indexed by coverage index (attachment points, ligature
glyphs, later the substitute array of a SingleSubst format 2, …) that is restricted by the same
"glyph kept" filter as the coverage stays aligned with it: the entry at the new coverage index of
`glyph_map g` is the entry the original held at the coverage index of `g`. -/
theorem parallel_array_alignment {α : Type} {p : LPlan} (hp : PlanOk p) {c : Coverage}
    (hc : CovOk p c) (hsmall : (c.glyphs.filterMap p.get).length < 65536) {w : CovW}
    (h : subsetCoverage p c = .ok w) (arr : List α) {g n i : Nat}
    (hk : p.get g = some n) (hi : c.get g = some i) :
    ∃ j, w.toCoverage.get n = some j ∧
      ((c.glyphs.zip arr).filterMap (fun x => if kept p x.1 then some x.2 else none))[j]? = arr[i]? := by
  refine ⟨_, (coverage_subset_get hp hc hsmall h).2.1 g n i hk hi, ?_⟩
  rw [hc.get_eq] at hi
  exact aligned (kept p) c.glyphs arr g i hi (by simp [kept, hk])

/-- **coverage_empty_iff_no_kept_glyph**: `CoverageTable::subset` returns `Err(EMPTY)` exactly when
no covered glyph is kept (every caller then omits the table), and succeeds otherwise -/
theorem coverage_empty_iff_no_kept_glyph {p : LPlan} (hp : PlanOk p) {c : Coverage} (hc : CovOk p c)
    (hsmall : (c.glyphs.filterMap p.get).length < 65536) :
    (subsetCoverage p c = .error .empty ↔ ∀ g ∈ c.glyphs, p.get g = none) ∧
    ((∃ g ∈ c.glyphs, kept p g = true) → ∃ w, subsetCoverage p c = .ok w) :=
  coverage_empty_iff_no_kept_glyph_core hp hc hsmall

example : PlanOk exPlan :=
  ⟨by decide, by simp [exPlan], by simp [exPlan], by simp [exPlan]⟩

example : CovOk exPlan exCov := by
  refine ⟨by simp [WFRanges], ?_⟩
  simp [expandRanges, RangeRec.glyphs, List.range', exPlan]

example : (match subsetCoverage exPlan exCov with
    | .ok w => some w.toCoverage
    | .error _ => none) = some (.fmt1 [1, 2, 3]) := by decide +kernel

/-! ## 2. ClassDef -/

/-- **classdef_subset_get**: for every `ClassDefSubsetStruct`: when `ClassDef::subset` succeeds, reading
the written table with read-fonts' `ClassDef::get` at the image of a kept glyph gives the class map
applied to the original class of the glyph (the original class itself when `remap_class` is false, as
GDEF uses it; class 0 when the glyph filter rejects the glyph), and class 0 at every id that is not
the image of a kept glyph — for both source formats, both strategies of the format 2 subsetter and
both output formats. -/
theorem classdef_subset_get {p : LPlan} (hp : PlanOk' p) {a : CdArgs} {cd : ClassDef}
    (hcd : ClassOk cd) {out : ClassDef} {cm : Option (List (Nat × Nat))}
    (h : subsetClassDef p a cd = .ok (out, cm)) :
    (∀ g n, p.get g = some n → out.get n = remapC cm (wantClass a cd g)) ∧
    (∀ n, (∀ g, p.get g ≠ some n) → out.get n = 0) ∧
    (cm.isSome = a.remapClass) :=
  classdef_subset_get_core hp hcd h

/-- **classdef_subset_total**: on a well-formed table (classes below 0xFFFF) `ClassDef::subset` fails
only with `Err(EMPTY)`, exactly when `keep_empty_table` is off and no kept glyph (passing the
filter) has a non-zero class; it never panics and never errors otherwise. -/
theorem classdef_subset_total {p : LPlan} (hp : PlanOk' p) {a : CdArgs} {cd : ClassDef}
    (hcd : ClassOk cd) (hcls : a.remapClass = true → ∀ g n, p.get g = some n → cd.get g < 65535) :
    (∃ r, subsetClassDef p a cd = .ok r) ∨
    (subsetClassDef p a cd = .error .empty ∧ a.keepEmpty = false ∧
      ∀ g n, p.get g = some n → wantClass a cd g = 0) :=
  classdef_subset_total_core hp hcd hcls

/-- **classdef_remap_is_order_preserving_bijection**: the class map returned under `remap_class` is
`0 ↦ 0` (unless class zero is reused) followed by the classes that occur among the kept glyphs
(passing the filter), in ascending order, numbered consecutively from `base` = 0 (class zero reused)
or 1: an order preserving bijection from the occurring classes onto `base .. base + k - 1`. -/
theorem classdef_remap_is_order_preserving_bijection {p : LPlan} (hp : PlanOk' p) {a : CdArgs}
    {cd : ClassDef} (hcd : ClassOk cd) {out : ClassDef} {m : List (Nat × Nat)}
    (h : subsetClassDef p a cd = .ok (out, some m)) :
    ∃ (R : List Nat) (base : Nat),
      R.Pairwise (· < ·) ∧
      (∀ c, c ∈ R ↔ c ≠ 0 ∧ ∃ g n, p.get g = some n ∧ wantClass a cd g = c) ∧
      (base = 0 ∨ (base = 1 ∧ m.lookup 0 = some 0)) ∧
      (∀ i c, R[i]? = some c → m.lookup c = some (base + i)) ∧
      (∀ c c', c ∈ R → c' ∈ R → c < c' →
        ∃ v v', m.lookup c = some v ∧ m.lookup c' = some v' ∧ v < v') ∧
      (∀ j, j < R.length → ∃ c, c ∈ R ∧ m.lookup c = some (base + j)) := by
  obtain ⟨ps, hps, hspec⟩ := subsetClassDef_pairs hp (a := a) hcd
  unfold subsetClassDef at h
  simp only [hps] at h
  split at h
  · cases h
  · by_cases hr : a.remapClass = true
    · simp only [hr, Bool.not_true, Bool.false_eq_true, ↓reduceIte] at h
      cases hcm : classMap (useClassZero p a ps.length) (retainedClasses ps) with
      | none => simp [hcm] at h
      | some m' =>
        simp only [hcm] at h
        cases hw : serializeClassDef (ps.map fun x => (x.1, (m'.lookup x.2).getD 0)) with
        | error e => simp [hw, Except.map] at h
        | ok cd' =>
          simp only [hw, Except.map, Except.ok.injEq, Prod.mk.injEq, Option.some.injEq] at h
          obtain ⟨_, e2⟩ := h
          subst e2
          have hR := retainedClasses_spec ps
          have hnz := pairs_classes_nz hspec
          obtain ⟨_, l0, lk⟩ := classMap_lookup hR.1 hnz hcm
          refine ⟨retainedClasses ps, if useClassZero p a ps.length then 0 else 1, hR.1, ?_, ?_, lk, ?_, ?_⟩
          · intro c
            rw [hR.2 c]
            constructor
            · rintro ⟨n, hn⟩
              obtain ⟨g, hg, hf, hcg, hc0⟩ := (hspec.2 n c).mp hn
              exact ⟨hc0, g, n, hg, by simp [wantClass, hf, hcg]⟩
            · rintro ⟨hc0, g, n, hg, hw⟩
              have hf : passFilter a g = true := by
                apply Classical.byContradiction
                intro hf; simp [wantClass, hf] at hw; omega
              exact ⟨n, (hspec.2 n c).mpr ⟨g, hg, hf, by simpa [wantClass, hf] using hw, hc0⟩⟩
          · by_cases hz : useClassZero p a ps.length = true
            · left; simp [hz]
            · right
              simp only [hz, Bool.false_eq_true, ↓reduceIte, true_and]
              exact l0 (by simpa using hz)
          · intro c c' hc hc' hlt
            obtain ⟨i, hi, ei⟩ := List.getElem_of_mem hc
            obtain ⟨j, hj, ej⟩ := List.getElem_of_mem hc'
            have hij : i < j := by
              rcases Nat.lt_trichotomy i j with hh | hh | hh
              · exact hh
              · subst hh; rw [ei] at ej; omega
              · have := List.pairwise_iff_getElem.mp hR.1 j i hj hi hh; rw [ei, ej] at this; omega
            have li := lk i c (by rw [List.getElem?_eq_getElem hi, ei])
            have lj := lk j c' (by rw [List.getElem?_eq_getElem hj, ej])
            exact ⟨_, _, li, lj, by omega⟩
          · intro j hj
            exact ⟨(retainedClasses ps)[j], List.getElem_mem hj, lk j _ (List.getElem?_eq_getElem hj)⟩
    · simp only [hr, Bool.not_false, ↓reduceIte] at h
      cases hw : serializeClassDef ps with
      | error e => simp [hw, Except.map] at h
      | ok cd' => simp [hw, Except.map] at h

/-- non-vacuity: the ClassDef hypotheses hold for the example plan; a format 2 class definition
{3..6 ↦ 2, 9 ↦ 5} subsets to {1, 2 ↦ 2; 3 ↦ 5} -/
example : PlanOk' exPlan :=
  { keys := by decide, sorted := by simp [exPlan], newLt := by simp [exPlan], keyLt := by simp [exPlan],
    newLt' := by simp [exPlan], numLe := by simp [exPlan], nonempty := by simp [exPlan] }

example : ClassOk (.fmt2 [⟨3, 6, 2⟩, ⟨9, 9, 5⟩]) := by
  simp [ClassOk, WFClassRanges]

/-! ## 3. GDEF -/

/-- **gdef_glyph_class_preserved**: `glyph_class(subset, glyph_map g) = glyph_class(original, g)` for
every glyph kept for layout, read through read-fonts' `ClassDef::get` (a missing GlyphClassDef —
also one the subsetter dropped because it became empty — is class 0); every other new id has
class 0. -/
theorem gdef_glyph_class_preserved {p : LPlan} (hp : PlanOk' p) {g : GdefIn} {o : GdefOut}
    (hcd : ∀ cd, g.glyphClassDef = .ok cd → ClassOk cd) (h : subsetGdefSem p g = .ok o) :
    (∀ gl n, p.get gl = some n → classOf o.glyphClassDef n = classOf (tblOpt g.glyphClassDef) gl) ∧
    (∀ n, (∀ gl, p.get gl ≠ some n) → classOf o.glyphClassDef n = 0) :=
  gdef_class_preserved_aux hp hcd (gdef_fields h).1

/-- **gdef_mark_attach_class_preserved**: the same for the MarkAttachClassDef -/
theorem gdef_mark_attach_class_preserved {p : LPlan} (hp : PlanOk' p) {g : GdefIn} {o : GdefOut}
    (hcd : ∀ cd, g.markAttachClassDef = .ok cd → ClassOk cd) (h : subsetGdefSem p g = .ok o) :
    (∀ gl n, p.get gl = some n →
      classOf o.markAttachClassDef n = classOf (tblOpt g.markAttachClassDef) gl) ∧
    (∀ n, (∀ gl, p.get gl ≠ some n) → classOf o.markAttachClassDef n = 0) :=
  gdef_class_preserved_aux hp hcd (gdef_fields h).2.2.2.1

/-- **gdef_version_downgrade_sound**: the variation store is written only for minor version >= 3 and
the mark glyph sets only for >= 2; the written minor version is the original one when a store is
written, else 2 when mark glyph sets are written, else 0 — and the header has exactly the fields a
reader of that version expects (12 / 14 / 18 bytes), so no written sub-table is hidden behind a
lowered version and no reader looks for a field that was not written; a GDEF is produced only
when some sub-table survives. -/
theorem gdef_version_downgrade_sound {p : LPlan} {g : GdefIn} {o : GdefOut}
    (h : subsetGdefSem p g = .ok o) :
    (o.varStore.isSome → 3 ≤ g.minor ∧ o.minor = g.minor) ∧
    (o.markGlyphSets.isSome → 2 ≤ g.minor ∧ 2 ≤ o.minor) ∧
    (o.varStore = none → o.markGlyphSets.isSome → o.minor = 2) ∧
    (o.varStore = none → o.markGlyphSets = none → o.minor = 0) ∧
    (encodeGdefObj o).1.bytes.length = (if 3 ≤ o.minor then 18 else if 2 ≤ o.minor then 14 else 12) ∧
    (o.glyphClassDef.isSome || o.attachList.isSome || o.ligCaretList.isSome ||
      o.markAttachClassDef.isSome || o.markGlyphSets.isSome || o.varStore.isSome) = true := by
  obtain ⟨_, _, _, _, hsets, hstore, _, hminor, hany⟩ := gdef_fields h
  have hs3 : o.varStore.isSome → 3 ≤ g.minor := by
    intro hs
    by_cases h3 : g.minor ≥ 3
    · exact h3
    · simp only [storePart, h3, ↓reduceIte, pure, Except.pure, Except.ok.injEq] at hstore
      rw [← hstore] at hs; cases hs
  have hs2 : o.markGlyphSets.isSome → 2 ≤ g.minor := by
    intro hs
    by_cases h2 : g.minor ≥ 2
    · exact h2
    · simp only [setsPart, h2, ↓reduceIte, pure, Except.pure, Except.ok.injEq] at hsets
      rw [← hsets] at hs; cases hs
  have hlen : ∀ (s : S) {α : Type} (t : Option α) (w pos : Nat) (enc : α → Child),
      (encOpt t w pos enc s).cur.bytes = s.cur.bytes := by
    intro s α t w pos enc
    cases t <;> simp [encOpt, linkChild]
  refine ⟨fun hs => ⟨hs3 hs, by simp [hminor, hs]⟩, fun hs => ⟨hs2 hs, ?_⟩, ?_, ?_, ?_, hany⟩
  · rw [hminor]
    by_cases hst : o.varStore.isSome = true
    · have := hs3 hst; simp [hst]; omega
    · simp [hst, hs]
  · intro hn hs; simp [hminor, hn, hs]
  · intro hn hs; simp [hminor, hn, hs]
  · simp only [encodeGdefObj, hlen]
    rw [hminor]
    by_cases hst : o.varStore.isSome = true
    · have := hs3 hst
      have h3 : 3 ≤ g.minor := this
      simp [hst, be16, h3]
    · by_cases hse : o.markGlyphSets.isSome = true
      · simp [hst, hse, be16]
      · simp [hst, hse, be16]

/-! ### coverage-indexed arrays: AttachList, LigCaretList -/

/-- **gdef_attach_points_preserved**: in the written GDEF every glyph kept for layout has the
attachment point table it had in the original (the AttachPoint bytes: point count and point
indices), looked up through the subset's AttachList coverage at the new glyph id; no AttachList is
written exactly when no kept glyph has attachment points. -/
theorem gdef_attach_points_preserved {p : LPlan} (hp : PlanOk' p) {g : GdefIn} {o : GdefOut}
    {a : AttachListIn} {c : Coverage} (hg : g.attachList = .ok a) (ha : AttachOk p a c)
    (h : subsetGdefSem p g = .ok o) :
    (o.attachList = none ∧ ∀ gl ∈ c.glyphs, p.get gl = none) ∨
    ∃ out, o.attachList = some out ∧
      (∀ gl n i bs, p.get gl = some n → c.get gl = some i → a.points[i]? = some (some bs) →
        ∃ j, out.cov.toCoverage.get n = some j ∧ out.points[j]? = some bs) ∧
      (∀ n, (∀ gl ∈ c.glyphs, p.get gl ≠ some n) → out.cov.toCoverage.get n = none) := by
  have hf := (gdef_fields h).2.1
  rw [hg] at hf
  rcases optSem_ok hf with ⟨e1, _⟩ | ⟨x, e1, hh⟩
  · cases e1
  · injection e1 with e1; subst e1
    rcases attach_list_subset hp ha with ⟨he, hall⟩ | ⟨out, hout, h1, h2⟩
    · left
      rcases hh with ⟨_, e2⟩ | ⟨y, hy, _⟩
      · exact ⟨e2, hall⟩
      · rw [he] at hy; cases hy
    · right
      rcases hh with ⟨he, _⟩ | ⟨y, hy, e2⟩
      · rw [hout] at he; cases he
      · rw [hout] at hy; injection hy with hy; subst hy
        exact ⟨out, e2, h1, h2⟩

/-- **gdef_lig_carets_preserved**: in the written GDEF every glyph kept for layout that has caret
values keeps them, in order, looked up through the subset's LigCaretList coverage at the new glyph
id: format 1 coordinate, format 2 contour point index and format 3 coordinate unchanged; a Device
table copied; a VariationIndex replaced by its image under `layout_varidx_delta_map`
(`(varPlan p g).vmap`); kept glyphs without caret values and ids that are not images of covered
kept glyphs are not covered. -/
theorem gdef_lig_carets_preserved {p : LPlan} (hp : PlanOk' p) {g : GdefIn} {o : GdefOut}
    {l : LigCaretListIn} {c : Coverage} (hg : g.ligCaretList = .ok l) (hl : LigOk p l c)
    (h : subsetGdefSem p g = .ok o) {out : LigOut} (ho : o.ligCaretList = some out) :
    (∀ gl n i carets, p.get gl = some n → c.get gl = some i → l.ligs[i]? = some (.ok carets) →
      carets ≠ [] →
      ∃ j cs, out.cov.toCoverage.get n = some j ∧ out.ligs[j]? = some cs ∧
        carets.map (wantCaret (varPlan p g).vmap) = cs.map some) ∧
    (∀ n, (∀ gl ∈ c.glyphs, p.get gl ≠ some n) → out.cov.toCoverage.get n = none) := by
  have hf := (gdef_fields h).2.2.1
  rw [hg, ho] at hf
  rcases optSem_ok hf with ⟨e1, _⟩ | ⟨x, e1, hh⟩
  · cases e1
  · injection e1 with e1; subst e1
    rcases hh with ⟨_, e2⟩ | ⟨y, hy, e2⟩
    · cases e2
    · injection e2 with e2; subst e2
      obtain ⟨h1, _, h3⟩ := lig_caret_list_subset hp hl hy
      exact ⟨h1, h3⟩

/-! ### mark glyph sets -/

/-- **gdef_mark_glyph_sets_preserved**: the written MarkGlyphSets are the original sets that have at
least one glyph kept for layout, in their original order (format unchanged); a retained set `i`
becomes set `i' = number of retained sets before i` — which is what `plan.used_mark_sets_map`
records for it — and membership is unchanged: a kept glyph is in the original set `i` iff its image
is in the subset's set `i'`, and no other id is; a set without kept glyph is dropped and is not in
`used_mark_sets_map`.  (NB: the lookups of the passed-through GSUB / GPOS tables keep their OLD
markFilteringSet indices — see `passthrough_*` below and the known finding.) -/
theorem gdef_mark_glyph_sets_preserved {p : LPlan} (hp : PlanOk' p) {g : GdefIn} {o : GdefOut}
    {m : MarkSetsIn} (hg : g.markGlyphSets = .ok m) (hm : MarkSetsOk p m)
    (h : subsetGdefSem p g = .ok o) {fmt : Nat} {ws : List CovW}
    (ho : o.markGlyphSets = some (fmt, ws)) :
    fmt = m.format ∧ ws = m.sets.filterMap (survive p) ∧
    ∀ i c, m.sets[i]? = some (some c) →
      ((∀ gl ∈ c.glyphs, p.get gl = none) →
        survive p (some c) = none ∧ (usedMarkSetsMap p g).lookup i = none) ∧
      ((∃ gl ∈ c.glyphs, kept p gl = true) →
        ∃ w, ws[((m.sets.take i).filterMap (survive p)).length]? = some w ∧
          (usedMarkSetsMap p g).lookup i = some ((m.sets.take i).filterMap (survive p)).length ∧
          (∀ gl n, p.get gl = some n → (w.toCoverage.get n).isSome = (c.get gl).isSome) ∧
          (∀ n, (∀ gl ∈ c.glyphs, p.get gl ≠ some n) → w.toCoverage.get n = none)) := by
  have hf := (gdef_fields h).2.2.2.2.1
  unfold setsPart at hf
  have h2 : g.minor ≥ 2 := by
    apply Classical.byContradiction
    intro hn
    simp only [hn, ↓reduceIte, pure, Except.pure, Except.ok.injEq] at hf
    rw [ho] at hf; cases hf
  simp only [h2, ↓reduceIte, hg, ho] at hf
  rcases optSem_ok hf with ⟨e1, _⟩ | ⟨x, e1, hh⟩
  · cases e1
  · injection e1 with e1; subst e1
    rcases hh with ⟨_, e2⟩ | ⟨y, hy, e2⟩
    · cases e2
    · injection e2 with e2; subst e2
      unfold markSetsSem at hy
      cases hgo : markSetsGo p m.sets with
      | error e => simp [hgo] at hy
      | ok sets =>
        simp only [hgo] at hy
        split at hy
        · cases hy
        · simp only [pure, Except.pure, Except.ok.injEq, Prod.mk.injEq] at hy
          obtain ⟨e1, e2⟩ := hy
          subst e1; subst e2
          have hws := markSetsGo_spec p m.sets sets hgo
          refine ⟨rfl, hws, ?_⟩
          intro i c hi
          obtain ⟨c', hc', hcov⟩ := hm (some c) (List.mem_of_getElem? hi)
          injection hc' with hc'; subst hc'
          have hsmall : (c.glyphs.filterMap p.get).length < 65536 := by
            have h1 := kept_sorted hp.toPlanOk hcov.sorted
            have := sorted_length_le h1 65535 (by
              intro z hz
              obtain ⟨gl, _, e⟩ := List.mem_filterMap.mp hz
              exact hp.newLt' _ ((hp.get_iff gl z).mp e))
            omega
          have hnn : ∀ s ∈ m.sets, s ≠ none := by
            intro s hs e
            obtain ⟨c'', hc'', _⟩ := hm s hs
            rw [e] at hc''; cases hc''
          have hused := survive_iff_used hp hcov
          have hcnt : ((m.sets.take i).filter (setUsed p)).length =
              ((m.sets.take i).filterMap (survive p)).length := by
            apply filter_filterMap_length
            intro s hs
            obtain ⟨c'', hc'', hcov''⟩ := hm s (List.mem_of_mem_take hs)
            subst hc''
            exact survive_iff_used hp hcov''
          obtain ⟨hemp, hsucc⟩ := coverage_empty_iff_no_kept_glyph hp.toPlanOk hcov hsmall
          constructor
          · intro hall
            have he := hemp.mpr hall
            refine ⟨by simp [survive, he], ?_⟩
            -- not used: the index is not a key of the map
            have hnu : setUsed p (some c) = false := by rw [hused]; simp [survive, he]
            simp only [usedMarkSetsMap, usedMarkSets, hg]
            -- keys of the map are indices of used sets
            have hkeys : ∀ (sets : List (Option Coverage)) (k b j : Nat),
                (∀ s ∈ sets, s ≠ none) →
                (∀ t cc, sets[t]? = some (some cc) → k + t = j → setUsed p (some cc) = false) →
                ((usedGo p sets k).zipIdx b).lookup j = none := by
              intro sets
              induction sets with
              | nil => intro k b j _ _; rfl
              | cons s rest ih =>
                intro k b j hall' hj
                cases s with
                | none => exact absurd rfl (hall' none (List.mem_cons_self ..))
                | some c0 =>
                  have hr := ih (k + 1) b j (fun s hs => hall' s (List.mem_cons_of_mem _ hs))
                    (fun t cc ht e => hj (t + 1) cc (by simpa using ht) (by omega))
                  have hr' := ih (k + 1) (b + 1) j (fun s hs => hall' s (List.mem_cons_of_mem _ hs))
                    (fun t cc ht e => hj (t + 1) cc (by simpa using ht) (by omega))
                  by_cases hu0 : setUsed p (some c0) = true
                  · have : ¬ j = k := by
                      intro e
                      have := hj 0 c0 (by simp) (by omega)
                      rw [hu0] at this; cases this
                    have ne : (j == k) = false := by simp [this]
                    simp [usedGo, hu0, List.zipIdx_cons, List.lookup_cons, ne, hr']
                  · simp [usedGo, hu0, hr]
            apply hkeys m.sets 0 0 i hnn
            intro t cc ht e
            have : t = i := by omega
            subst this
            rw [hi] at ht; injection ht with ht; injection ht with ht
            subst ht; exact hnu
          · rintro ⟨gl, hgl, hk⟩
            obtain ⟨w, hw⟩ := hsucc ⟨gl, hgl, hk⟩
            have hsv : survive p (some c) = some w := by simp [survive, hw]
            have hu : setUsed p (some c) = true := by rw [hused, hsv]; rfl
            refine ⟨w, ?_, ?_, ?_, ?_⟩
            · rw [hws]; exact filterMap_getElem (survive p) m.sets i (some c) w hi hsv
            · simp only [usedMarkSetsMap, usedMarkSets, hg]
              have := usedGo_lookup p m.sets 0 0 i c hnn hi hu
              simp only [Nat.zero_add] at this
              rw [this, hcnt]
            · intro gl' n hgn
              obtain ⟨h1, _, h3⟩ := coverage_subset_get hp.toPlanOk hcov hsmall hw
              rw [h1 gl' n hgn, hcov.get_eq]
              cases hidx : indexIn gl' c.glyphs with
              | none => rw [indexIn_filter_none (kept p) c.glyphs gl' hidx]
              | some k =>
                rw [indexIn_filter (kept p) c.glyphs gl' k hidx (by simp [kept, hgn])]
                rfl
            · intro n hn
              exact (coverage_subset_get hp.toPlanOk hcov hsmall hw).2.2 n hn

/-! ### the variation store -/

/-- **gdef_store_rows_preserved**: when the GDEF variation store is written, row `i` of the inner map
of source subtable `outer` (i.e. source row `inner_map[i]`) is row `i` of written subtable number
`usedBefore inner outer` (= the number of source subtables with a non-empty inner map before it) and
evaluates — through read-fonts' `compute_delta` — to the same delta at EVERY location, although
unused regions were pruned, regions renumbered and columns repacked.  (Built from the HVAR store
theorems `compute_delta_subtable_preserved` / `subsetSubs_get`.) -/
theorem gdef_store_rows_preserved {st : StoreIn} {axisCount : Nat}
    {regions : List (List (Int × Int × Int))} (hst : StoreOk st axisCount regions)
    {inner : List (List Nat)} (hinner : ∀ im ∈ inner, im.length < 65536)
    {fmt : Nat} {so : SubsetHvar.StoreOut} (h : storeSem st inner = .ok (fmt, so))
    (outer : Nat) (im : List Nat) (him : inner[outer]? = some im) (i : Nat) (hi : i < im.length)
    (coords : List Int) :
    fmt = st.format ∧
    Tent.computeDelta so.regions (so.subs.map some) (SubsetHvar.usedBefore inner outer) i coords =
      Tent.computeDelta regions (st.subs.map SubsetHvar.SubIn.toReader) outer im[i] coords := by
  unfold storeSem at h
  split at h
  · cases h
  · simp only [hst.regs] at h
    cases hc : SubsetHvar.collectAll st.subs inner [] with
    | error e => cases e <;> simp [hc] at h
    | ok refs =>
      simp only [hc] at h
      split at h
      · cases h
      · cases hs : SubsetHvar.subsetStore axisCount regions st.subs inner with
        | error e => cases e <;> simp [hs] at h
        | ok so' =>
          simp only [hs, pure, Except.pure, Except.ok.injEq, Prod.mk.injEq] at h
          obtain ⟨e1, e2⟩ := h
          subst e1; subst e2
          refine ⟨rfl, ?_⟩
          obtain ⟨hsorted, hrm, hregs, hsubs⟩ := SubsetHvar.subsetStore_ok hs
          obtain ⟨t, ov, ht, hv, hout⟩ :=
            SubsetHvar.subsetSubs_get so'.regionMap inner st.subs so'.subs hsubs outer im him (by omega)
          have hmem : SubsetHvar.SubIn.ok t ∈ st.subs := List.mem_of_getElem? ht
          obtain ⟨hb, hric, hsok, hsri⟩ := hst.subOk t hmem
          rw [hregs]
          exact SubsetHvar.computeDelta_subtable (SubsetHvar.subsetVarData_ok hv) hb hric
            (hinner im (List.mem_of_getElem? him)) hsok regions hsorted hrm hst.regLe hsri
            (so'.subs.map some) (st.subs.map SubsetHvar.SubIn.toReader)
            (SubsetHvar.usedBefore inner outer) outer
            (by simp [List.getElem?_map, hout]) (by simp [List.getElem?_map, ht, SubsetHvar.SubIn.toReader])
            coords i hi

/-- **gdef_var_deltas_preserved_partial**: for every variation index `(outer, inner)` the plan retains
(`inner = inner_maps[outer][i]`): a ligature caret VariationIndex holding it is rewritten to the new
index `(used subtables before outer, i)`, and read-fonts' `compute_delta` on the written GDEF
variation store at the NEW index equals `compute_delta` on the original store at the OLD index at
every location.
PARTIAL: the link `VarPlanSpec (varPlan p g)` between the plan's `layout_varidx_delta_map` /
`gdef_varstore_inner_maps` (models `remapVarIdx`, `innerMaps`) and "(used subtables before, position in
the inner map)" is a hypothesis here; it is not proved in Lean, it is tested (correspondence group
`gdefplan` against the real plan; oracle `gdef-glyph-data-preserved` compares the deltas of every
kept caret at sampled locations on the real output). -/
theorem gdef_var_deltas_preserved_partial {p : LPlan} {g : GdefIn} {o : GdefOut} {st : StoreIn}
    {axisCount : Nat} {regions : List (List (Int × Int × Int))}
    (hg : g.varStore = .ok st) (hst : StoreOk st axisCount regions)
    (hspec : VarPlanSpec (varPlan p g))
    (hinner : ∀ im ∈ (varPlan p g).inner, im.length < 65536)
    (h : subsetGdefSem p g = .ok o) {fmt : Nat} {so : SubsetHvar.StoreOut}
    (ho : o.varStore = some (fmt, so))
    (outer : Nat) (im : List Nat) (him : (varPlan p g).inner[outer]? = some im) (i : Nat)
    (hi : i < im.length) (coord : Nat) (coords : List Int) :
    let new := SubsetHvar.usedBefore (varPlan p g).inner outer * 65536 + i
    wantCaret (varPlan p g).vmap (.f3 coord (some (.varIdx outer im[i]!))) =
      some (.f3 coord (be32 new ++ be16 0x8000)) ∧
    Tent.computeDelta so.regions (so.subs.map some) (new / 65536) (new % 65536) coords =
      Tent.computeDelta regions (st.subs.map SubsetHvar.SubIn.toReader) outer im[i]! coords := by
  intro new
  have hf := (gdef_fields h).2.2.2.2.2.1
  unfold storePart at hf
  have h3 : g.minor ≥ 3 := by
    apply Classical.byContradiction
    intro hn
    simp only [hn, ↓reduceIte, pure, Except.pure, Except.ok.injEq] at hf
    rw [ho] at hf; cases hf
  simp only [h3, ↓reduceIte, hg, ho] at hf
  rcases optSem_ok hf with ⟨e1, _⟩ | ⟨x, e1, hh⟩
  · cases e1
  · injection e1 with e1; subst e1
    rcases hh with ⟨_, e2⟩ | ⟨y, hy, e2⟩
    · cases e2
    · injection e2 with e2; subst e2
      have hrows := gdef_store_rows_preserved hst hinner hy outer im him i hi coords
      have hlt : i < 65536 := by have := hinner im (List.mem_of_getElem? him); omega
      have e1 : new / 65536 = SubsetHvar.usedBefore (varPlan p g).inner outer := by
        simp only [new]; omega
      have e2 : new % 65536 = i := by simp only [new]; omega
      have eg : im[i]! = im[i] := by simp [hi]
      refine ⟨?_, ?_⟩
      · simp only [wantCaret, hspec outer im i him hi]
        rfl
      · rw [e1, e2, eg]; exact hrows.2

/-- non-vacuity (GDEF): a version 1.0 GDEF with a format 2 glyph class definition {3..6 ↦ 2, 9 ↦ 5}
under the example plan: the written table is version 1.0 with the classes of the kept glyphs at their
new ids -/
example : (match subsetGdefSem exPlan exGdef with
    | .ok o => some (o.minor, o.glyphClassDef)
    | .error _ => none) = some (0, some (.fmt1 1 [2, 2, 5])) := by decide +kernel

example : AttachOk exPlan { cov := some (.fmt1 [4, 9]), glyphCount := 2, points := [some [0, 0], some [0, 1, 0, 7]] }
    (.fmt1 [4, 9]) :=
  { cov := rfl, covOk := by simp [CovOk, exPlan], count := rfl,
    readable := by
      intro i hi
      simp [Coverage.glyphs] at hi
      rcases (by omega : i = 0 ∨ i = 1) with e | e <;> subst e <;> simp }

/-! ## 4. GSUB / GPOS are passed through: what that means

`subset_table` has no arm for GSUB / GPOS: `passthrough_table` copies the bytes
(`SubsetGdef.passthrough = id`).  The subset's lookups are the ORIGINAL ones — in old glyph ids.
No "subset subtable applied to the renumbered sequence" theorem can be stated about klippa,
because no subtable is subset.  What can be stated is when the verbatim copy happens to be right. -/

theorem passthrough_is_identity (bytes : List Nat) : passthrough bytes = bytes := rfl

/-- **passthrough_lookup_correct_iff_identity_on_mentioned_glyphs** (SingleSubst): for an injective
glyph map and a set `M` of kept glyphs: the verbatim copy is right for EVERY well-formed SingleSubst
subtable stated in glyphs of `M` if and only if the glyph map fixes every glyph of `M`.  So the
pass-through is right under retain-gids (or whenever the kept glyphs a lookup mentions keep their
ids) and wrong for some subtable as soon as one mentioned kept glyph is renumbered. -/
theorem passthrough_lookup_correct_iff_identity_on_mentioned_glyphs (f : Nat → Option Nat)
    (hinj : GlyphMapInj f) (M : List Nat) (hM : ∀ g ∈ M, (f g).isSome ∧ g < 65536) :
    (∀ t : SingleSubst, SingleWf t → (∀ g ∈ t.mentioned, g ∈ M) → SingleCorrect f t) ↔
    (∀ g ∈ M, f g = some g) := by
  constructor
  · intro hall g hg
    obtain ⟨hsome, hlt⟩ := hM g hg
    obtain ⟨n, hn⟩ := Option.isSome_iff_exists.mp hsome
    -- the subtable "g ↦ g"
    let t : SingleSubst := ⟨.fmt1 [g], [g]⟩
    have hwf : SingleWf t := ⟨[g], rfl, by simp, by simpa using hlt, rfl⟩
    have hment : ∀ x ∈ t.mentioned, x ∈ M := by
      intro x hx
      simp [SingleSubst.mentioned, Coverage.glyphs, t] at hx
      subst hx; exact hg
    have hc := hall t hwf hment g n hn
    have hs : List.Pairwise (· < ·) [g] := by simp
    have hb : ∀ x ∈ [g], x < 65536 := by simpa using hlt
    have hgg : t.apply g = some g := by
      simp only [SingleSubst.apply, t, get_fmt1 hs hb g, indexIn]
      simp
    rw [hgg] at hc
    simp only [Option.bind_some, hn] at hc
    -- the renumbered glyph must be covered
    simp only [SingleSubst.apply, t, get_fmt1 hs hb n, indexIn] at hc
    by_cases e : g = n
    · rw [← e] at hn; exact hn
    · simp [e] at hc
  · intro hid t hwf hment g n hgn
    obtain ⟨xs, hcov, hs, hb, hlen⟩ := hwf
    have hget : ∀ x, t.cov.get x = indexIn x xs := by
      intro x; rw [hcov]; exact get_fmt1 hs hb x
    have hxsM : ∀ x ∈ xs, x ∈ M := by
      intro x hx; apply hment
      simp [SingleSubst.mentioned, hcov, Coverage.glyphs, hx]
    by_cases hgM : g ∈ M
    · have := hid g hgM
      rw [hgn] at this; injection this with this
      subst this
      simp only [SingleSubst.apply]
      cases hi : t.cov.get n with
      | none => rfl
      | some i =>
        simp only
        cases ho : t.subst[i]? with
        | none => rfl
        | some out =>
          have : out ∈ M := hment out (by
            simp only [SingleSubst.mentioned, List.mem_append]
            right; exact List.mem_of_getElem? ho)
          simp [hid out this]
    · -- neither g nor its image is covered
      have h1 : t.cov.get g = none := by
        rw [hget]; exact indexIn_none (fun h => hgM (hxsM g h))
      have h2 : t.cov.get n = none := by
        rw [hget]; apply indexIn_none
        intro h
        have hnM := hxsM n h
        have := hinj g n n hgn (hid n hnM)
        subst this; exact hgM hnM
      simp [SingleSubst.apply, h1, h2]

/-- **passthrough_pairpos_correct_iff_identity_on_mentioned_glyphs**: the same characterisation for
PairPos format 1 values (C16's `PairPos1.lookup`): the copied subtable gives every renumbered kept
pair its original adjustment, for every subtable over `M`, iff the glyph map fixes `M`. -/
theorem passthrough_pairpos_correct_iff_identity_on_mentioned_glyphs {V : Type} [Inhabited V]
    (f : Nat → Option Nat) (hinj : GlyphMapInj f) (M : List Nat)
    (hM : ∀ g ∈ M, (f g).isSome ∧ g < 65536) :
    (∀ t : PairPos1 V, PairWf t → (∀ g ∈ pairMentioned t, g ∈ M) → PairCorrect f t) ↔
    (∀ g ∈ M, f g = some g) := by
  constructor
  · intro hall g hg
    obtain ⟨hsome, hlt⟩ := hM g hg
    obtain ⟨n, hn⟩ := Option.isSome_iff_exists.mp hsome
    let t : PairPos1 V := ⟨.fmt1 [g], [[(g, default)]]⟩
    have hs : List.Pairwise (· < ·) [g] := by simp
    have hb : ∀ x ∈ [g], x < 65536 := by simpa using hlt
    have hwf : PairWf t := ⟨[g], rfl, hs, hb⟩
    have hment : ∀ x ∈ pairMentioned t, x ∈ M := by
      intro x hx
      simp [pairMentioned, Coverage.glyphs, t] at hx
      subst hx; exact hg
    have hc := hall t hwf hment g n g n hn hn
    have hgg : t.lookup g g = some default := by
      simp only [PairPos1.lookup, t, get_fmt1 hs hb g, indexIn]
      simp
    rw [hgg] at hc
    simp only [PairPos1.lookup, t, get_fmt1 hs hb n, indexIn] at hc
    by_cases e : g = n
    · rw [← e] at hn; exact hn
    · simp [e] at hc
  · intro hid t hwf hment g1 n1 g2 n2 h1 h2
    obtain ⟨xs, hcov, hs, hb⟩ := hwf
    have hget : ∀ x, t.cov.get x = indexIn x xs := by
      intro x; rw [hcov]; exact get_fmt1 hs hb x
    have hxsM : ∀ x ∈ xs, x ∈ M := by
      intro x hx; apply hment
      simp [pairMentioned, hcov, Coverage.glyphs, hx]
    -- a glyph outside M and its image are both unmentioned
    have houtside : ∀ g n, f g = some n → g ∉ M → n ∉ M := by
      intro g n hgn hgM hnM
      have := hinj g n n hgn (hid n hnM)
      subst this; exact hgM hnM
    by_cases hg1 : g1 ∈ M
    · have := hid g1 hg1
      rw [h1] at this; injection this with this
      subst this
      simp only [PairPos1.lookup]
      cases hi : t.cov.get n1 with
      | none => rfl
      | some i =>
        simp only
        cases hp : t.pairSets[i]? with
        | none => rfl
        | some ps =>
          simp only
          have hsec : ∀ q ∈ ps, q.1 ∈ M := by
            intro q hq; apply hment
            simp only [pairMentioned, List.mem_append, List.mem_flatMap, List.mem_map]
            right; exact ⟨ps, List.mem_of_getElem? hp, q, hq, rfl⟩
          by_cases hg2 : g2 ∈ M
          · have := hid g2 hg2
            rw [h2] at this; injection this with this
            subst this; rfl
          · have hn2 := houtside g2 n2 h2 hg2
            have f1 : ps.find? (fun q => q.1 == n2) = none := by
              rw [List.find?_eq_none]; intro q hq; simp; intro e; exact hn2 (e ▸ hsec q hq)
            have f2 : ps.find? (fun q => q.1 == g2) = none := by
              rw [List.find?_eq_none]; intro q hq; simp; intro e; exact hg2 (e ▸ hsec q hq)
            rw [f1, f2]
    · have hn1 := houtside g1 n1 h1 hg1
      have c1 : t.cov.get g1 = none := by rw [hget]; exact indexIn_none (fun h => hg1 (hxsM g1 h))
      have c2 : t.cov.get n1 = none := by rw [hget]; exact indexIn_none (fun h => hn1 (hxsM n1 h))
      simp [PairPos1.lookup, c1, c2]

/-- corollary (retain-gids): with the identity glyph map every passed-through subtable is right -/
theorem passthrough_correct_under_retain_gids (f : Nat → Option Nat)
    (hid : ∀ g n, f g = some n → n = g) (t : SingleSubst) (hout : ∀ g out, t.apply g = some out → (f g).isSome → f out = some out) :
    SingleCorrect f t := by
  intro g n hgn
  have := hid g n hgn
  subst this
  cases ha : t.apply n with
  | none => rfl
  | some out => simp [hout n out ha (by simp [hgn])]

/-- non-vacuity (pass-through): an injective glyph map and a well-formed SingleSubst subtable -/
example : GlyphMapInj (fun g => if g < 10 then some (g + 1) else none) := by
  intro a b n ha hb
  by_cases h1 : a < 10 <;> by_cases h2 : b < 10 <;> simp [h1, h2] at ha hb
  omega

example : SingleWf ⟨.fmt1 [3, 7], [4, 8]⟩ := ⟨[3, 7], rfl, by simp, by simp, rfl⟩

end FontVerif.C17Layout
