/-
C17 (layout part) — subsetting the OpenType layout COMMON tables and GDEF preserves what they say about
the glyphs that are kept; GSUB / GPOS are NOT subset by klippa (pass-through), which is characterised
at the end.

Models: `FontVerif/Model/SubsetLayout.lean` (klippa `layout.rs`: Coverage / ClassDef subsetters and
writers, post-fix 546e1a4), `FontVerif/Model/SubsetGdef.lean` (klippa `gdef.rs` + the plan side of
`lib.rs`, post-fix 507034d / 87f42c2).  Reader side: C16's models of read-fonts `CoverageTable::get`
and `ClassDef::get` (binary searches) in `FontVerif/Model/Layout.lean`, C11's `computeDelta` for the
variation store.  The theorems are stated on the structured written tables (`CovW.toCoverage`,
`Layout.ClassDef`, `GdefOut`); their byte images (`CovW.bytes`, `classDefBytes`, `encodeGdef`) are
tied to the real output by the byte-exact correspondence runs of `harness/src/bin/c17/layoutx.rs`.

"Kept" means kept FOR LAYOUT: a key of `plan.glyph_map_gsub` (= `glyphset_gsub`: requested glyphs,
cmap closure, .notdef — klippa has no GSUB closure).  Glyphs that are only kept as composite
components or COLR layers are not in that set and lose their GDEF data (as in HarfBuzz).
-/
import FontVerif.Model.SubsetGdef
import FontVerif.Lemmas.SubsetLayout
import FontVerif.Lemmas.SubsetLayoutClassDef
import FontVerif.Lemmas.SubsetGdef
import FontVerif.Lemmas.SubsetHvar
set_option linter.unusedVariables false
namespace FontVerif.C17Layout
open FontVerif FontVerif.Layout FontVerif.SubsetLayout FontVerif.SubsetGdef

/-! ## 1. Coverage -/

/-- a coverage table as the specification requires it: glyph array strictly ascending / range
records ascending, disjoint, with running start coverage indices; every covered glyph exists -/
def CovOk (p : LPlan) : Coverage → Prop
  | .fmt1 xs => xs.Pairwise (· < ·) ∧ ∀ g ∈ xs, g < p.numGlyphs ∧ g < 65536
  | .fmt2 rs => WFRanges 0 rs ∧ ∀ g ∈ expandRanges rs, g < p.numGlyphs ∧ g < 65536

/-- the glyph is kept for layout -/
def kept (p : LPlan) (g : Nat) : Bool := (p.get g).isSome

theorem CovOk.sorted {p : LPlan} {c : Coverage} (hc : CovOk p c) : c.glyphs.Pairwise (· < ·) := by
  cases c with
  | fmt1 xs => exact hc.1
  | fmt2 rs => exact wf_expand_sorted hc.1

theorem CovOk.get_eq {p : LPlan} {c : Coverage} (hc : CovOk p c) (g : Nat) :
    c.get g = indexIn g c.glyphs := by
  cases c with
  | fmt1 xs => exact get_fmt1 hc.1 (fun x hx => (hc.2 x hx).2) g
  | fmt2 rs =>
    apply get_fmt2 hc.1
    intro r hr
    have hse := wf_start_le_end hc.1 r hr
    exact (hc.2 r.end_ (mem_expandRanges.mpr ⟨r, hr, hse, Nat.le_refl _⟩)).2

theorem covRetained_eq {p : LPlan} (hp : PlanOk p) {c : Coverage} (hc : CovOk p c) :
    covRetained p c = .ok (c.glyphs.filterMap p.get) := by
  cases c with
  | fmt1 xs =>
    simp only [covRetained, Coverage.glyphs]
    rw [cov1Retained_eq hp hc.1]; rfl
  | fmt2 rs =>
    simp only [covRetained, Coverage.glyphs]
    exact cov2Retained_eq hp hc.1 (fun g hg => (hc.2 g hg).1)

/-- the whole behaviour of `CoverageTable::subset` on a well-formed table: nothing retained =
`Err(EMPTY)`; otherwise a table whose glyphs are the new ids of the kept covered glyphs in coverage
order and on which read-fonts' `get` (binary search) answers "position in that list" -/
theorem subsetCoverage_spec {p : LPlan} (hp : PlanOk p) {c : Coverage} (hc : CovOk p c)
    (hsmall : (c.glyphs.filterMap p.get).length < 65536) :
    (c.glyphs.filterMap p.get = [] ∧ subsetCoverage p c = .error .empty) ∨
    ∃ w, subsetCoverage p c = .ok w ∧ w.toCoverage.glyphs = c.glyphs.filterMap p.get ∧
      ∀ n, w.toCoverage.get n = indexIn n (c.glyphs.filterMap p.get) := by
  unfold subsetCoverage
  rw [covRetained_eq hp hc]
  by_cases he : c.glyphs.filterMap p.get = []
  · left
    refine ⟨he, ?_⟩
    simp [he, bind, Except.bind, throw, throwThe, MonadExceptOf.throw]
  · right
    have hlt : ∀ x ∈ c.glyphs.filterMap p.get, x < 65536 := by
      intro x hx
      obtain ⟨g, _, e⟩ := List.mem_filterMap.mp hx
      exact (hp.get_lt e).1
    obtain ⟨w, hw, hg, hget⟩ := serializeCoverage_get he (kept_sorted hp hc.sorted) hlt hsmall
    refine ⟨w, ?_, hg, hget⟩
    have : (c.glyphs.filterMap p.get).isEmpty = false := by
      cases h : c.glyphs.filterMap p.get with
      | nil => exact absurd h he
      | cons _ _ => rfl
    simp [bind, Except.bind, this, hw]

/-- **coverage_subset_glyphs**: the glyphs of the subset coverage are exactly
`{ glyph_map g | g covered, g kept }`, in ascending order (= coverage order of the original) -/
theorem coverage_subset_glyphs {p : LPlan} (hp : PlanOk p) {c : Coverage} (hc : CovOk p c)
    (hsmall : (c.glyphs.filterMap p.get).length < 65536) {w : CovW}
    (h : subsetCoverage p c = .ok w) :
    w.toCoverage.glyphs = c.glyphs.filterMap p.get ∧ w.toCoverage.glyphs.Pairwise (· < ·) ∧
    ∀ n, n ∈ w.toCoverage.glyphs ↔ ∃ g, g ∈ c.glyphs ∧ p.get g = some n := by
  rcases subsetCoverage_spec hp hc hsmall with ⟨_, he⟩ | ⟨w', hw', hg, _⟩
  · rw [he] at h; cases h
  · rw [hw'] at h; injection h with h; subst h
    refine ⟨hg, ?_, ?_⟩
    · rw [hg]; exact kept_sorted hp hc.sorted
    · intro n; rw [hg]; simp [List.mem_filterMap]

/-- **coverage_subset_get**: through read-fonts' reader: the coverage index of the image of a kept
glyph is the rank of the glyph among the kept covered glyphs (`none` when the glyph is not covered);
an id that is not the image of a kept covered glyph is not covered. -/
theorem coverage_subset_get {p : LPlan} (hp : PlanOk p) {c : Coverage} (hc : CovOk p c)
    (hsmall : (c.glyphs.filterMap p.get).length < 65536) {w : CovW}
    (h : subsetCoverage p c = .ok w) :
    (∀ g n, p.get g = some n →
      w.toCoverage.get n = indexIn g (c.glyphs.filter (kept p))) ∧
    (∀ g n i, p.get g = some n → c.get g = some i →
      w.toCoverage.get n = some ((c.glyphs.take i).countP (kept p))) ∧
    (∀ n, (∀ g, g ∈ c.glyphs → p.get g ≠ some n) → w.toCoverage.get n = none) := by
  rcases subsetCoverage_spec hp hc hsmall with ⟨_, he⟩ | ⟨w', hw', hg, hget⟩
  · rw [he] at h; cases h
  · rw [hw'] at h; injection h with h; subst h
    have h1 : ∀ g n, p.get g = some n →
        w'.toCoverage.get n = indexIn g (c.glyphs.filter (kept p)) := by
      intro g n hgn
      rw [hget n]
      exact indexIn_filterMap p.get g n hgn c.glyphs (fun a _ ha => hp.get_inj ha hgn)
    refine ⟨h1, ?_, ?_⟩
    · intro g n i hgn hci
      rw [h1 g n hgn]
      rw [hc.get_eq] at hci
      exact indexIn_filter (kept p) c.glyphs g i hci (by simp [kept, hgn])
    · intro n hn
      rw [hget n]
      apply indexIn_none
      intro hm
      obtain ⟨g, hg', e⟩ := List.mem_filterMap.mp hm
      exact hn g hg' e

/-- **coverage_subset_index_order_preserved**: the coverage indices of kept glyphs keep their
relative order (the new index of a glyph is the number of kept covered glyphs before it) -/
theorem coverage_subset_index_order_preserved {p : LPlan} (hp : PlanOk p) {c : Coverage}
    (hc : CovOk p c) (hsmall : (c.glyphs.filterMap p.get).length < 65536) {w : CovW}
    (h : subsetCoverage p c = .ok w) {g1 g2 n1 n2 i1 i2 j1 j2 : Nat}
    (k1 : p.get g1 = some n1) (k2 : p.get g2 = some n2)
    (c1 : c.get g1 = some i1) (c2 : c.get g2 = some i2)
    (s1 : w.toCoverage.get n1 = some j1) (s2 : w.toCoverage.get n2 = some j2) :
    i1 < i2 ↔ j1 < j2 := by
  have hs := (coverage_subset_get hp hc hsmall h).2.1
  have e1 := hs g1 n1 i1 k1 c1
  have e2 := hs g2 n2 i2 k2 c2
  rw [s1] at e1; rw [s2] at e2
  injection e1 with e1; injection e2 with e2
  rw [hc.get_eq] at c1 c2
  have q1 : kept p g1 = true := by simp [kept, k1]
  have q2 : kept p g2 = true := by simp [kept, k2]
  constructor
  · intro hlt
    rw [e1, e2]
    exact countP_take_lt (kept p) c.glyphs (indexIn_getElem? c1) q1 hlt
  · intro hlt
    rcases Nat.lt_trichotomy i1 i2 with hh | hh | hh
    · exact hh
    · subst hh; omega
    · have := countP_take_lt (kept p) c.glyphs (indexIn_getElem? c2) q2 hh
      omega

/-- **parallel_array_alignment**: an array indexed by coverage index (attachment points, ligature
glyphs, later the substitute array of a SingleSubst format 2, …) that is restricted by the same
"glyph kept" filter as the coverage stays aligned with it: the entry at the new coverage index of
`glyph_map g` is the entry the original held at the coverage index of `g`. -/
theorem parallel_array_alignment {α : Type} {p : LPlan} (hp : PlanOk p) {c : Coverage}
    (hc : CovOk p c) (hsmall : (c.glyphs.filterMap p.get).length < 65536) {w : CovW}
    (h : subsetCoverage p c = .ok w) (arr : List α) {g n i : Nat}
    (hk : p.get g = some n) (hi : c.get g = some i) :
    ∃ j, w.toCoverage.get n = some j ∧
      ((c.glyphs.zip arr).filterMap (fun x => if kept p x.1 then some x.2 else none))[j]? = arr[i]? := by
  refine ⟨_, (coverage_subset_get hp hc hsmall h).2.1 g n i hk hi, ?_⟩
  rw [hc.get_eq] at hi
  exact aligned (kept p) c.glyphs arr g i hi (by simp [kept, hk])

/-- **coverage_empty_iff_no_kept_glyph**: `CoverageTable::subset` returns `Err(EMPTY)` exactly when
no covered glyph is kept (every caller then omits the table), and succeeds otherwise -/
theorem coverage_empty_iff_no_kept_glyph {p : LPlan} (hp : PlanOk p) {c : Coverage} (hc : CovOk p c)
    (hsmall : (c.glyphs.filterMap p.get).length < 65536) :
    (subsetCoverage p c = .error .empty ↔ ∀ g ∈ c.glyphs, p.get g = none) ∧
    ((∃ g ∈ c.glyphs, kept p g = true) → ∃ w, subsetCoverage p c = .ok w) := by
  have hnil : c.glyphs.filterMap p.get = [] ↔ ∀ g ∈ c.glyphs, p.get g = none := by
    rw [List.filterMap_eq_nil_iff]
  rcases subsetCoverage_spec hp hc hsmall with ⟨he, hr⟩ | ⟨w, hw, hg, _⟩
  · refine ⟨⟨fun _ => hnil.mp he, fun _ => hr⟩, ?_⟩
    rintro ⟨g, hg, hk⟩
    have := hnil.mp he g hg
    simp [kept, this] at hk
  · refine ⟨⟨fun h => (by rw [hw] at h; cases h), fun hall => ?_⟩, fun _ => ⟨w, hw⟩⟩
    exfalso
    have hne : w.toCoverage.glyphs = [] := by rw [hg]; exact hnil.mpr hall
    -- the writer is only reached with a non-empty list
    unfold subsetCoverage at hw
    rw [covRetained_eq hp hc, hnil.mpr hall] at hw
    simp [bind, Except.bind, throw, throwThe, MonadExceptOf.throw] at hw

/-- non-vacuity: the hypotheses hold for a compact renumbering {0↦0, 4↦1, 5↦2, 9↦3} of a 12-glyph
font and the format 2 coverage 3..=6, 9; the subset then covers 1, 2, 3 -/
def exPlan : LPlan := { glyphset := [0, 4, 5, 9], gmap := [(0, 0), (4, 1), (5, 2), (9, 3)], numGlyphs := 12 }
def exCov : Coverage := .fmt2 [⟨3, 6, 0⟩, ⟨9, 9, 4⟩]

example : PlanOk exPlan :=
  ⟨by decide, by simp [exPlan], by simp [exPlan], by simp [exPlan]⟩

example : CovOk exPlan exCov := by
  refine ⟨by simp [WFRanges], ?_⟩
  simp [expandRanges, RangeRec.glyphs, List.range', exPlan]

example : (match subsetCoverage exPlan exCov with
    | .ok w => some w.toCoverage
    | .error _ => none) = some (.fmt1 [1, 2, 3]) := by decide +kernel

/-! ## 2. ClassDef -/

/-- a class definition as the specification requires it (format 2: records ascending and disjoint;
format 1 has no side condition) -/
def ClassOk : ClassDef → Prop
  | .fmt1 _ _ => True
  | .fmt2 rs => WFClassRanges rs

/-- the plan of a font with at most 65535 output glyphs -/
structure PlanOk' (p : LPlan) : Prop extends PlanOk p where
  newLt' : ∀ kv ∈ p.gmap, kv.2 < 65535
  numLe : p.numGlyphs ≤ 65536
  nonempty : p.glyphset ≠ []

/-- the class a returned class map gives (identity without remapping; an unknown class is 0) -/
def remapC (cm : Option (List (Nat × Nat))) (c : Nat) : Nat :=
  match cm with
  | none => c
  | some m => (m.lookup c).getD 0

/-- the class the subset has to give the image of kept glyph `g` -/
def wantClass (a : CdArgs) (cd : ClassDef) (g : Nat) : Nat := if passFilter a g then cd.get g else 0

theorem subsetClassDef_pairs {p : LPlan} (hp : PlanOk' p) {a : CdArgs} {cd : ClassDef}
    (hcd : ClassOk cd) : ∃ ps, cdPairs p a cd = some ps ∧ PairsSpec p a cd ps := by
  obtain ⟨ps, hps⟩ := cdPairs_total hp.nonempty a cd
  refine ⟨ps, hps, cdPairs_spec hp.toPlanOk hp.numLe a ?_ hps⟩
  intro rs e; subst e; exact hcd

theorem pairs_classes_nz {p : LPlan} {a : CdArgs} {cd : ClassDef} {ps : List (Nat × Nat)}
    (hspec : PairsSpec p a cd ps) : ∀ c ∈ retainedClasses ps, c ≠ 0 := by
  intro c hc
  obtain ⟨n, hn⟩ := ((retainedClasses_spec ps).2 c).mp hc
  obtain ⟨_, _, _, _, hc0⟩ := (hspec.2 n c).mp hn
  exact hc0

/-- **classdef_subset_get**: for every `ClassDefSubsetStruct`: when `ClassDef::subset` succeeds, reading
the written table with read-fonts' `ClassDef::get` at the image of a kept glyph gives the class map
applied to the original class of the glyph (the original class itself when `remap_class` is false, as
GDEF uses it; class 0 when the glyph filter rejects the glyph), and class 0 at every id that is not
the image of a kept glyph — for both source formats, both strategies of the format 2 subsetter and
both output formats. -/
theorem classdef_subset_get {p : LPlan} (hp : PlanOk' p) {a : CdArgs} {cd : ClassDef}
    (hcd : ClassOk cd) {out : ClassDef} {cm : Option (List (Nat × Nat))}
    (h : subsetClassDef p a cd = .ok (out, cm)) :
    (∀ g n, p.get g = some n → out.get n = remapC cm (wantClass a cd g)) ∧
    (∀ n, (∀ g, p.get g ≠ some n) → out.get n = 0) ∧
    (cm.isSome = a.remapClass) := by
  obtain ⟨ps, hps, hspec⟩ := subsetClassDef_pairs hp (a := a) hcd
  have hkeys : ∀ x ∈ ps, x.1 < 65535 := by
    intro x hx
    obtain ⟨g, hg, _⟩ := (hspec.2 x.1 x.2).mp hx
    exact hp.newLt' _ ((hp.get_iff g x.1).mp hg)
  have hget := pairsSpec_itemGet hp.toPlanOk hspec
  unfold subsetClassDef at h
  simp only [hps] at h
  split at h
  · cases h
  · by_cases hr : a.remapClass = true
    · simp only [hr, Bool.not_true, Bool.false_eq_true, ↓reduceIte] at h
      cases hcm : classMap (useClassZero p a ps.length) (retainedClasses ps) with
      | none => simp [hcm] at h
      | some m =>
        simp only [hcm] at h
        have hs' : SortedItems (ps.map fun x => (x.1, (m.lookup x.2).getD 0)) := by
          unfold SortedItems; rw [List.pairwise_map]; exact hspec.1
        have hk' : ∀ x ∈ ps.map (fun x => (x.1, (m.lookup x.2).getD 0)), x.1 < 65535 := by
          intro x hx
          obtain ⟨y, hy, e⟩ := List.mem_map.mp hx
          rw [← e]; exact hkeys y hy
        obtain ⟨cd', hw, hg'⟩ := serializeClassDef_get hs' hk'
        rw [hw] at h
        simp only [Except.map, Except.ok.injEq, Prod.mk.injEq] at h
        obtain ⟨e1, e2⟩ := h
        subst e1; subst e2
        have h0 := (classMap_lookup (retainedClasses_spec ps).1 (pairs_classes_nz hspec) hcm).1
        have hmap := itemGet_map (fun c => (m.lookup c).getD 0)
        refine ⟨?_, ?_, by simp [hr]⟩
        · intro g n hg
          rw [hg' n, hmap n ps]
          have := hget.1 g n hg
          simp only [remapC, wantClass]
          cases hi : itemGet n ps with
          | none =>
            rw [hi] at this
            simp only [Option.getD_none] at this
            rw [← this]
            simp [h0]
          | some c =>
            rw [hi] at this
            simp only [Option.getD_some] at this
            rw [← this]; rfl
        · intro n hn
          rw [hg' n, hmap n ps]
          have := hget.2 n hn
          cases hi : itemGet n ps with
          | none => rfl
          | some c =>
            rw [hi] at this
            simp only [Option.getD_some] at this
            subst this
            simp [h0]
    · simp only [hr, Bool.not_false, ↓reduceIte] at h
      obtain ⟨cd', hw, hg'⟩ := serializeClassDef_get hspec.1 hkeys
      rw [hw] at h
      simp only [Except.map, Except.ok.injEq, Prod.mk.injEq] at h
      obtain ⟨e1, e2⟩ := h
      subst e1; subst e2
      refine ⟨?_, ?_, by simp [hr]⟩
      · intro g n hg
        rw [hg' n]
        exact hget.1 g n hg
      · intro n hn
        rw [hg' n]
        exact hget.2 n hn

/-- **classdef_subset_total**: on a well-formed table (classes below 0xFFFF) `ClassDef::subset` fails
only with `Err(EMPTY)`, exactly when `keep_empty_table` is off and no kept glyph (passing the
filter) has a non-zero class; it never panics and never errors otherwise. -/
theorem classdef_subset_total {p : LPlan} (hp : PlanOk' p) {a : CdArgs} {cd : ClassDef}
    (hcd : ClassOk cd) (hcls : a.remapClass = true → ∀ g n, p.get g = some n → cd.get g < 65535) :
    (∃ r, subsetClassDef p a cd = .ok r) ∨
    (subsetClassDef p a cd = .error .empty ∧ a.keepEmpty = false ∧
      ∀ g n, p.get g = some n → wantClass a cd g = 0) := by
  obtain ⟨ps, hps, hspec⟩ := subsetClassDef_pairs hp (a := a) hcd
  have hkeys : ∀ x ∈ ps, x.1 < 65535 := by
    intro x hx
    obtain ⟨g, hg, _⟩ := (hspec.2 x.1 x.2).mp hx
    exact hp.newLt' _ ((hp.get_iff g x.1).mp hg)
  unfold subsetClassDef
  simp only [hps]
  by_cases he : (!a.keepEmpty && ps.isEmpty) = true
  · right
    simp only [he, ↓reduceIte, true_and]
    simp only [Bool.and_eq_true, Bool.not_eq_eq_eq_not, Bool.not_true, List.isEmpty_iff] at he
    refine ⟨he.1, ?_⟩
    intro g n hg
    unfold wantClass
    by_cases hf : passFilter a g = true
    · simp only [hf, ↓reduceIte]
      apply Classical.byContradiction
      intro hne
      have := (hspec.2 n (cd.get g)).mpr ⟨g, hg, hf, rfl, hne⟩
      rw [he.2] at this; cases this
    · simp [hf]
  · left
    simp only [he, Bool.false_eq_true, ↓reduceIte]
    by_cases hr : a.remapClass = true
    · simp only [hr, Bool.not_true, Bool.false_eq_true, ↓reduceIte]
      -- classes are 1..65534, so there are at most 65534 of them: the u16 counter cannot overflow
      have hlen2 : (retainedClasses ps).length ≤ 65534 := by
        have := sorted_length_le_aux (retainedClasses_spec ps).1 1 65535 (fun c hc => by
          constructor
          · have := pairs_classes_nz hspec c hc; omega
          · obtain ⟨n, hn⟩ := ((retainedClasses_spec ps).2 c).mp hc
            obtain ⟨g, hg, _, hcg, _⟩ := (hspec.2 n c).mp hn
            rw [← hcg]; exact hcls hr g n hg)
        omega
      obtain ⟨m, hm⟩ := classMap_total (useClassZero p a ps.length) hlen2
      simp only [hm]
      have hs' : SortedItems (ps.map fun x => (x.1, (m.lookup x.2).getD 0)) := by
        unfold SortedItems; rw [List.pairwise_map]; exact hspec.1
      have hk' : ∀ x ∈ ps.map (fun x => (x.1, (m.lookup x.2).getD 0)), x.1 < 65535 := by
        intro x hx
        obtain ⟨y, hy, e⟩ := List.mem_map.mp hx
        rw [← e]; exact hkeys y hy
      obtain ⟨cd', hw, _⟩ := serializeClassDef_get hs' hk'
      exact ⟨_, by rw [hw]; rfl⟩
    · simp only [hr, Bool.not_false, ↓reduceIte]
      obtain ⟨cd', hw, _⟩ := serializeClassDef_get hspec.1 hkeys
      exact ⟨_, by rw [hw]; rfl⟩

/-- **classdef_remap_is_order_preserving_bijection**: the class map returned under `remap_class` is
`0 ↦ 0` (unless class zero is reused) followed by the classes that occur among the kept glyphs
(passing the filter), in ascending order, numbered consecutively from `base` = 0 (class zero reused)
or 1: an order preserving bijection from the occurring classes onto `base .. base + k - 1`. -/
theorem classdef_remap_is_order_preserving_bijection {p : LPlan} (hp : PlanOk' p) {a : CdArgs}
    {cd : ClassDef} (hcd : ClassOk cd) {out : ClassDef} {m : List (Nat × Nat)}
    (h : subsetClassDef p a cd = .ok (out, some m)) :
    ∃ (R : List Nat) (base : Nat),
      R.Pairwise (· < ·) ∧
      (∀ c, c ∈ R ↔ c ≠ 0 ∧ ∃ g n, p.get g = some n ∧ wantClass a cd g = c) ∧
      (base = 0 ∨ (base = 1 ∧ m.lookup 0 = some 0)) ∧
      (∀ i c, R[i]? = some c → m.lookup c = some (base + i)) ∧
      (∀ c c', c ∈ R → c' ∈ R → c < c' →
        ∃ v v', m.lookup c = some v ∧ m.lookup c' = some v' ∧ v < v') ∧
      (∀ j, j < R.length → ∃ c, c ∈ R ∧ m.lookup c = some (base + j)) := by
  obtain ⟨ps, hps, hspec⟩ := subsetClassDef_pairs hp (a := a) hcd
  unfold subsetClassDef at h
  simp only [hps] at h
  split at h
  · cases h
  · by_cases hr : a.remapClass = true
    · simp only [hr, Bool.not_true, Bool.false_eq_true, ↓reduceIte] at h
      cases hcm : classMap (useClassZero p a ps.length) (retainedClasses ps) with
      | none => simp [hcm] at h
      | some m' =>
        simp only [hcm] at h
        cases hw : serializeClassDef (ps.map fun x => (x.1, (m'.lookup x.2).getD 0)) with
        | error e => simp [hw, Except.map] at h
        | ok cd' =>
          simp only [hw, Except.map, Except.ok.injEq, Prod.mk.injEq, Option.some.injEq] at h
          obtain ⟨_, e2⟩ := h
          subst e2
          have hR := retainedClasses_spec ps
          have hnz := pairs_classes_nz hspec
          obtain ⟨_, l0, lk⟩ := classMap_lookup hR.1 hnz hcm
          refine ⟨retainedClasses ps, if useClassZero p a ps.length then 0 else 1, hR.1, ?_, ?_, lk, ?_, ?_⟩
          · intro c
            rw [hR.2 c]
            constructor
            · rintro ⟨n, hn⟩
              obtain ⟨g, hg, hf, hcg, hc0⟩ := (hspec.2 n c).mp hn
              exact ⟨hc0, g, n, hg, by simp [wantClass, hf, hcg]⟩
            · rintro ⟨hc0, g, n, hg, hw⟩
              have hf : passFilter a g = true := by
                apply Classical.byContradiction
                intro hf; simp [wantClass, hf] at hw; omega
              exact ⟨n, (hspec.2 n c).mpr ⟨g, hg, hf, by simpa [wantClass, hf] using hw, hc0⟩⟩
          · by_cases hz : useClassZero p a ps.length = true
            · left; simp [hz]
            · right
              simp only [hz, Bool.false_eq_true, ↓reduceIte, true_and]
              exact l0 (by simpa using hz)
          · intro c c' hc hc' hlt
            obtain ⟨i, hi, ei⟩ := List.getElem_of_mem hc
            obtain ⟨j, hj, ej⟩ := List.getElem_of_mem hc'
            have hij : i < j := by
              rcases Nat.lt_trichotomy i j with hh | hh | hh
              · exact hh
              · subst hh; rw [ei] at ej; omega
              · have := List.pairwise_iff_getElem.mp hR.1 j i hj hi hh; rw [ei, ej] at this; omega
            have li := lk i c (by rw [List.getElem?_eq_getElem hi, ei])
            have lj := lk j c' (by rw [List.getElem?_eq_getElem hj, ej])
            exact ⟨_, _, li, lj, by omega⟩
          · intro j hj
            exact ⟨(retainedClasses ps)[j], List.getElem_mem hj, lk j _ (List.getElem?_eq_getElem hj)⟩
    · simp only [hr, Bool.not_false, ↓reduceIte] at h
      cases hw : serializeClassDef ps with
      | error e => simp [hw, Except.map] at h
      | ok cd' => simp [hw, Except.map] at h

/-- non-vacuity: the ClassDef hypotheses hold for the example plan; a format 2 class definition
{3..6 ↦ 2, 9 ↦ 5} subsets to {1, 2 ↦ 2; 3 ↦ 5} -/
example : PlanOk' exPlan :=
  { keys := by decide, sorted := by simp [exPlan], newLt := by simp [exPlan], keyLt := by simp [exPlan],
    newLt' := by simp [exPlan], numLe := by simp [exPlan], nonempty := by simp [exPlan] }

example : ClassOk (.fmt2 [⟨3, 6, 2⟩, ⟨9, 9, 5⟩]) := by
  simp [ClassOk, WFClassRanges]

/-! ## 3. GDEF -/

/-- the sub-tables of a successful `subset_gdef` run, one equation per sub-table -/
theorem gdef_fields {p : LPlan} {g : GdefIn} {o : GdefOut} (h : subsetGdefSem p g = .ok o) :
    optSem g.glyphClassDef (fun cd => (subsetClassDef p gdefCdArgs cd).map (·.1)) = .ok o.glyphClassDef ∧
    optSem g.attachList (attachSem p) = .ok o.attachList ∧
    optSem g.ligCaretList (ligSem p (varPlan p g).vmap) = .ok o.ligCaretList ∧
    optSem g.markAttachClassDef (fun cd => (subsetClassDef p gdefCdArgs cd).map (·.1)) = .ok o.markAttachClassDef ∧
    setsPart p g = .ok o.markGlyphSets ∧
    storePart p g = .ok o.varStore ∧
    o.major = g.major ∧
    o.minor = (if o.varStore.isSome then g.minor else if o.markGlyphSets.isSome then 2 else 0) ∧
    (o.glyphClassDef.isSome || o.attachList.isSome || o.ligCaretList.isSome ||
      o.markAttachClassDef.isSome || o.markGlyphSets.isSome || o.varStore.isSome) = true := by
  unfold subsetGdefSem at h
  simp only [bind, Except.bind] at h
  split at h
  · cases h
  · rename_i store hstore
    split at h
    · cases h
    · rename_i sets hsets
      split at h
      · cases h
      · rename_i mac hmac
        split at h
        · cases h
        · rename_i lig hlig
          split at h
          · cases h
          · rename_i att hatt
            split at h
            · cases h
            · rename_i cls hcls
              split at h
              · simp only [pure, Except.pure, Except.ok.injEq] at h
                subst h
                rename_i hany
                exact ⟨hcls, hatt, hlig, hmac, hsets, hstore, rfl, rfl, hany⟩
              · cases h

theorem optSem_ok {α β : Type} {t : Tbl α} {f : α → M β} {r : Option β} (h : optSem t f = .ok r) :
    (t = .absent ∧ r = none) ∨
    ∃ x, t = .ok x ∧ ((f x = .error .empty ∧ r = none) ∨ ∃ y, f x = .ok y ∧ r = some y) := by
  unfold optSem at h
  cases t with
  | absent => left; simp only [pure, Except.pure, Except.ok.injEq] at h; exact ⟨rfl, h.symm⟩
  | bad => cases h
  | ok x =>
    right
    refine ⟨x, rfl, ?_⟩
    simp only at h
    cases hf : f x with
    | ok y =>
      simp only [hf, pure, Except.pure, Except.ok.injEq] at h
      right; exact ⟨y, rfl, h.symm⟩
    | error e =>
      cases e with
      | empty =>
        simp only [hf, pure, Except.pure, Except.ok.injEq] at h
        left; exact ⟨rfl, h.symm⟩
      | soft => simp [hf] at h
      | hard => simp [hf] at h
      | trap => simp [hf] at h

/-- read-fonts' `ClassDef::get` on an optional class definition (no table = class 0) -/
def classOf (cd : Option ClassDef) (g : Nat) : Nat :=
  match cd with
  | some cd => cd.get g
  | none => 0

def tblOpt {α : Type} : Tbl α → Option α
  | .ok x => some x
  | _ => none

theorem gdef_class_preserved_aux {p : LPlan} (hp : PlanOk' p) {t : Tbl ClassDef} {r : Option ClassDef}
    (hcd : ∀ cd, t = .ok cd → ClassOk cd)
    (h : optSem t (fun cd => (subsetClassDef p gdefCdArgs cd).map (·.1)) = .ok r) :
    (∀ g n, p.get g = some n → classOf r n = classOf (tblOpt t) g) ∧
    (∀ n, (∀ g, p.get g ≠ some n) → classOf r n = 0) := by
  have hw : ∀ cd g, wantClass gdefCdArgs cd g = cd.get g := by
    intro cd g; simp [wantClass, passFilter, gdefCdArgs]
  rcases optSem_ok h with ⟨e1, e2⟩ | ⟨cd, e1, hh⟩
  · subst e1; subst e2
    exact ⟨fun _ _ _ => rfl, fun _ _ => rfl⟩
  · subst e1
    have hok := hcd cd rfl
    rcases hh with ⟨he, e2⟩ | ⟨y, hy, e2⟩
    · subst e2
      -- subset to empty: no kept glyph has a class
      have hne : subsetClassDef p gdefCdArgs cd = .error .empty := by
        cases hs : subsetClassDef p gdefCdArgs cd with
        | ok v => rw [hs] at he; cases he
        | error e => rw [hs] at he; simp only [Except.map] at he; injection he with he; rw [he]
      rcases classdef_subset_total hp (a := gdefCdArgs) hok (by simp [gdefCdArgs]) with ⟨v, hv⟩ | ⟨_, _, hz⟩
      · rw [hv] at hne; cases hne
      · refine ⟨fun g n hg => ?_, fun _ _ => rfl⟩
        have := hz g n hg
        rw [hw] at this
        simp [classOf, tblOpt, this]
    · subst e2
      cases hs : subsetClassDef p gdefCdArgs cd with
      | error e => rw [hs] at hy; cases hy
      | ok v =>
        rw [hs] at hy
        simp only [Except.map, Except.ok.injEq] at hy
        obtain ⟨out, cm⟩ := v
        simp only at hy; subst hy
        obtain ⟨h1, h2, h3⟩ := classdef_subset_get hp hok hs
        have hcm : cm = none := by
          cases cm with
          | none => rfl
          | some m => simp [gdefCdArgs] at h3
        subst hcm
        refine ⟨fun g n hg => ?_, fun n hn => h2 n hn⟩
        have := h1 g n hg
        simpa [classOf, tblOpt, remapC, hw] using this

/-- **gdef_glyph_class_preserved**: `glyph_class(subset, glyph_map g) = glyph_class(original, g)` for
every glyph kept for layout, read through read-fonts' `ClassDef::get` (a missing GlyphClassDef —
also one the subsetter dropped because it became empty — is class 0); every other new id has
class 0. -/
theorem gdef_glyph_class_preserved {p : LPlan} (hp : PlanOk' p) {g : GdefIn} {o : GdefOut}
    (hcd : ∀ cd, g.glyphClassDef = .ok cd → ClassOk cd) (h : subsetGdefSem p g = .ok o) :
    (∀ gl n, p.get gl = some n → classOf o.glyphClassDef n = classOf (tblOpt g.glyphClassDef) gl) ∧
    (∀ n, (∀ gl, p.get gl ≠ some n) → classOf o.glyphClassDef n = 0) :=
  gdef_class_preserved_aux hp hcd (gdef_fields h).1

/-- **gdef_mark_attach_class_preserved**: the same for the MarkAttachClassDef -/
theorem gdef_mark_attach_class_preserved {p : LPlan} (hp : PlanOk' p) {g : GdefIn} {o : GdefOut}
    (hcd : ∀ cd, g.markAttachClassDef = .ok cd → ClassOk cd) (h : subsetGdefSem p g = .ok o) :
    (∀ gl n, p.get gl = some n →
      classOf o.markAttachClassDef n = classOf (tblOpt g.markAttachClassDef) gl) ∧
    (∀ n, (∀ gl, p.get gl ≠ some n) → classOf o.markAttachClassDef n = 0) :=
  gdef_class_preserved_aux hp hcd (gdef_fields h).2.2.2.1

/-- **gdef_version_downgrade_sound**: the variation store is written only for minor version >= 3 and
the mark glyph sets only for >= 2; the written minor version is the original one when a store is
written, else 2 when mark glyph sets are written, else 0 — and the header has exactly the fields a
reader of that version expects (12 / 14 / 18 bytes), so no written sub-table is hidden behind a
lowered version and no reader looks for a field that was not written; a GDEF is produced only
when some sub-table survives. -/
theorem gdef_version_downgrade_sound {p : LPlan} {g : GdefIn} {o : GdefOut}
    (h : subsetGdefSem p g = .ok o) :
    (o.varStore.isSome → 3 ≤ g.minor ∧ o.minor = g.minor) ∧
    (o.markGlyphSets.isSome → 2 ≤ g.minor ∧ 2 ≤ o.minor) ∧
    (o.varStore = none → o.markGlyphSets.isSome → o.minor = 2) ∧
    (o.varStore = none → o.markGlyphSets = none → o.minor = 0) ∧
    (encodeGdefObj o).1.bytes.length = (if 3 ≤ o.minor then 18 else if 2 ≤ o.minor then 14 else 12) ∧
    (o.glyphClassDef.isSome || o.attachList.isSome || o.ligCaretList.isSome ||
      o.markAttachClassDef.isSome || o.markGlyphSets.isSome || o.varStore.isSome) = true := by
  obtain ⟨_, _, _, _, hsets, hstore, _, hminor, hany⟩ := gdef_fields h
  have hs3 : o.varStore.isSome → 3 ≤ g.minor := by
    intro hs
    by_cases h3 : g.minor ≥ 3
    · exact h3
    · simp only [storePart, h3, ↓reduceIte, pure, Except.pure, Except.ok.injEq] at hstore
      rw [← hstore] at hs; cases hs
  have hs2 : o.markGlyphSets.isSome → 2 ≤ g.minor := by
    intro hs
    by_cases h2 : g.minor ≥ 2
    · exact h2
    · simp only [setsPart, h2, ↓reduceIte, pure, Except.pure, Except.ok.injEq] at hsets
      rw [← hsets] at hs; cases hs
  have hlen : ∀ (s : S) {α : Type} (t : Option α) (w pos : Nat) (enc : α → Child),
      (encOpt t w pos enc s).cur.bytes = s.cur.bytes := by
    intro s α t w pos enc
    cases t <;> simp [encOpt, linkChild]
  refine ⟨fun hs => ⟨hs3 hs, by simp [hminor, hs]⟩, fun hs => ⟨hs2 hs, ?_⟩, ?_, ?_, ?_, hany⟩
  · rw [hminor]
    by_cases hst : o.varStore.isSome = true
    · have := hs3 hst; simp [hst]; omega
    · simp [hst, hs]
  · intro hn hs; simp [hminor, hn, hs]
  · intro hn hs; simp [hminor, hn, hs]
  · simp only [encodeGdefObj, hlen]
    rw [hminor]
    by_cases hst : o.varStore.isSome = true
    · have := hs3 hst
      have h3 : 3 ≤ g.minor := this
      simp [hst, be16, h3]
    · by_cases hse : o.markGlyphSets.isSome = true
      · simp [hst, hse, be16]
      · simp [hst, hse, be16]

/-! ### coverage-indexed arrays: AttachList, LigCaretList -/

theorem take_all {α : Type} {l : List α} {k : Nat} (h : l.length ≤ k) : l.take k = l :=
  List.take_of_length_le h

theorem CovOk.length_le {p : LPlan} {c : Coverage} (hc : CovOk p c) : c.glyphs.length ≤ p.numGlyphs := by
  apply sorted_length_le hc.sorted
  intro g hg
  cases c with
  | fmt1 xs => exact (hc.2 g hg).1
  | fmt2 rs => exact (hc.2 g hg).1

/-- the coverage table written for a non-empty ascending list of retained new glyph ids -/
theorem retained_coverage {p : LPlan} (hp : PlanOk' p) {β : Type} (es : List (Nat × β))
    (hne : es ≠ []) (hs : (es.map (·.1)).Pairwise (· < ·))
    (hk : ∀ e ∈ es, ∃ g, p.get g = some e.1) :
    ∃ w, serializeCoverage (es.map (·.1)) = .ok w ∧
      ∀ n, w.toCoverage.get n = indexIn n (es.map (·.1)) := by
  have hlt : ∀ x ∈ es.map (·.1), x < 65535 := by
    intro x hx
    obtain ⟨e, he, e1⟩ := List.mem_map.mp hx
    obtain ⟨g, hg⟩ := hk e he
    rw [← e1]
    exact hp.newLt' _ ((hp.get_iff g e.1).mp hg)
  have hlen := sorted_length_le hs 65535 hlt
  obtain ⟨w, hw, _, hget⟩ := serializeCoverage_get (gs := es.map (·.1))
    (by intro h; exact hne (List.map_eq_nil_iff.mp h)) hs
    (fun x hx => by have := hlt x hx; omega) (by omega)
  exact ⟨w, hw, hget⟩

/-- a well-formed AttachList: coverage as the specification requires, one readable AttachPoint table
per covered glyph -/
structure AttachOk (p : LPlan) (a : AttachListIn) (c : Coverage) : Prop where
  cov : a.cov = some c
  covOk : CovOk p c
  count : a.glyphCount = c.glyphs.length
  readable : ∀ i, i < c.glyphs.length → ∃ bs, a.points[i]? = some (some bs)

/-- **attach_list_subset**: `AttachList::subset` on a well-formed list: `Err(EMPTY)` exactly when no
covered glyph is kept; otherwise the written list gives — through its coverage table — every kept
covered glyph the AttachPoint table the original gave it, and covers no other id. -/
theorem attach_list_subset {p : LPlan} (hp : PlanOk' p) {a : AttachListIn} {c : Coverage}
    (ha : AttachOk p a c) :
    (attachSem p a = .error .empty ∧ ∀ g ∈ c.glyphs, p.get g = none) ∨
    ∃ o, attachSem p a = .ok o ∧
      (∀ g n i bs, p.get g = some n → c.get g = some i → a.points[i]? = some (some bs) →
        ∃ j, o.cov.toCoverage.get n = some j ∧ o.points[j]? = some bs) ∧
      (∀ n, (∀ g ∈ c.glyphs, p.get g ≠ some n) → o.cov.toCoverage.get n = none) := by
  have hitems : (c.glyphs.zipIdx).take (min p.numGlyphs a.glyphCount) = c.glyphs.zipIdx := by
    apply take_all
    rw [List.length_zipIdx, ha.count]
    have := ha.covOk.length_le
    omega
  have hsorted : ((c.glyphs.zipIdx).map (·.1)).Pairwise (· < ·) := by
    rw [List.zipIdx_map_fst]; exact ha.covOk.sorted
  obtain ⟨entries, hent⟩ := attachGo_total p a.points c.glyphs.zipIdx (by
    intro it hit _
    obtain ⟨g, i⟩ := it
    have := mem_zipIdx_iff.mp hit
    exact ha.readable i (List.getElem?_eq_some_iff.mp this).1)
  obtain ⟨hes, hmem⟩ := attachGo_spec p hp.toPlanOk a.points c.glyphs.zipIdx entries hsorted hent
  unfold attachSem
  simp only [ha.cov, hitems, hent]
  by_cases he : entries = []
  · left
    subst he
    refine ⟨by simp, ?_⟩
    intro g hg
    cases hgn : p.get g with
    | none => rfl
    | some n =>
      exfalso
      obtain ⟨i, hi, e⟩ := List.getElem_of_mem hg
      obtain ⟨bs, hb⟩ := ha.readable i hi
      have := (hmem n bs).mpr ⟨g, i, mem_zipIdx_iff.mpr (by rw [List.getElem?_eq_getElem hi, e]), hgn, hb⟩
      cases this
  · right
    have hemp : entries.isEmpty = false := by cases entries <;> simp_all
    obtain ⟨w, hw, hget⟩ := retained_coverage hp entries he hes (by
      intro e hee
      obtain ⟨g, _, _, hg, _⟩ := (hmem e.1 e.2).mp hee
      exact ⟨g, hg⟩)
    simp only [hemp, Bool.false_eq_true, ↓reduceIte, hw, Except.map]
    refine ⟨_, rfl, ?_, ?_⟩
    · intro g n i bs hgn hci hb
      rw [ha.covOk.get_eq] at hci
      have hm := (hmem n bs).mpr ⟨g, i, mem_zipIdx_iff.mpr (indexIn_getElem? hci), hgn, hb⟩
      obtain ⟨j, h1, h2⟩ := entries_lookup entries n bs (hes.imp (fun h => Nat.ne_of_lt h)) hm
      exact ⟨j, by rw [hget n]; exact h1, h2⟩
    · intro n hn
      rw [hget n]
      apply indexIn_none_of_keys
      intro bs hm
      obtain ⟨g, i, hit, hgn, _⟩ := (hmem n bs).mp hm
      exact hn g (List.mem_of_getElem? (mem_zipIdx_iff.mp hit)) hgn

/-- **gdef_attach_points_preserved**: in the written GDEF every glyph kept for layout has the
attachment point table it had in the original (the AttachPoint bytes: point count and point
indices), looked up through the subset's AttachList coverage at the new glyph id; no AttachList is
written exactly when no kept glyph has attachment points. -/
theorem gdef_attach_points_preserved {p : LPlan} (hp : PlanOk' p) {g : GdefIn} {o : GdefOut}
    {a : AttachListIn} {c : Coverage} (hg : g.attachList = .ok a) (ha : AttachOk p a c)
    (h : subsetGdefSem p g = .ok o) :
    (o.attachList = none ∧ ∀ gl ∈ c.glyphs, p.get gl = none) ∨
    ∃ out, o.attachList = some out ∧
      (∀ gl n i bs, p.get gl = some n → c.get gl = some i → a.points[i]? = some (some bs) →
        ∃ j, out.cov.toCoverage.get n = some j ∧ out.points[j]? = some bs) ∧
      (∀ n, (∀ gl ∈ c.glyphs, p.get gl ≠ some n) → out.cov.toCoverage.get n = none) := by
  have hf := (gdef_fields h).2.1
  rw [hg] at hf
  rcases optSem_ok hf with ⟨e1, _⟩ | ⟨x, e1, hh⟩
  · cases e1
  · injection e1 with e1; subst e1
    rcases attach_list_subset hp ha with ⟨he, hall⟩ | ⟨out, hout, h1, h2⟩
    · left
      rcases hh with ⟨_, e2⟩ | ⟨y, hy, _⟩
      · exact ⟨e2, hall⟩
      · rw [he] at hy; cases hy
    · right
      rcases hh with ⟨he, _⟩ | ⟨y, hy, e2⟩
      · rw [hout] at he; cases he
      · rw [hout] at hy; injection hy with hy; subst hy
        exact ⟨out, e2, h1, h2⟩

/-- a well-formed LigCaretList: coverage as the specification requires, one readable LigGlyph per
covered glyph whose caret values are readable (format 3 with a readable Device / VariationIndex) -/
structure LigOk (p : LPlan) (l : LigCaretListIn) (c : Coverage) : Prop where
  cov : l.cov = some c
  covOk : CovOk p c
  count : l.count = c.glyphs.length
  readable : ∀ i, i < c.glyphs.length → ∃ carets, l.ligs[i]? = some (.ok carets)

/-- the caret value the subset has to hold for an original caret value: formats 1 and 2 (coordinate,
contour point index) byte for byte; format 3 with the same coordinate and its Device table copied /
its VariationIndex replaced by the new index of `layout_varidx_delta_map` -/
def wantCaret (vmap : List (Nat × Nat)) : CaretIn → Option CaretOut
  | .bad => none
  | .f1 bs => some (.plain bs)
  | .f2 bs => some (.plain bs)
  | .f3 coord (some (.device bs)) => some (.f3 coord bs)
  | .f3 coord (some (.varIdx outer inner)) =>
    (vmap.lookup (outer * 65536 + inner)).map fun new => .f3 coord (be32 new ++ be16 0x8000)
  | .f3 _ none => none

theorem caretSem_want (vmap : List (Nat × Nat)) (c : CaretIn) (out : CaretOut)
    (h : caretSem vmap c = .ok out) : wantCaret vmap c = some out := by
  cases c with
  | bad => cases h
  | f1 bs => simp only [caretSem, pure, Except.pure, Except.ok.injEq] at h; subst h; rfl
  | f2 bs => simp only [caretSem, pure, Except.pure, Except.ok.injEq] at h; subst h; rfl
  | f3 coord dev =>
    cases dev with
    | none => cases h
    | some d =>
      cases d with
      | device bs =>
        simp only [caretSem, subsetDevice, pure, Except.pure, Except.map, Except.ok.injEq] at h
        subst h; rfl
      | varIdx o i =>
        simp only [caretSem, subsetDevice] at h
        cases hl : vmap.lookup (o * 65536 + i) with
        | none => simp [hl, Except.map] at h
        | some new =>
          simp only [hl, pure, Except.pure, Except.map, Except.ok.injEq] at h
          subst h
          simp [wantCaret, hl]

theorem ligGlyphSem_want (vmap : List (Nat × Nat)) (carets : List CaretIn) (out : List CaretOut)
    (h : ligGlyphSem vmap carets = .ok out) :
    carets.map (wantCaret vmap) = out.map some ∧ out ≠ [] := by
  unfold ligGlyphSem at h
  cases hm : carets.mapM (caretSem vmap) with
  | error e => simp [hm] at h
  | ok o' =>
    simp only [hm] at h
    split at h
    · cases h
    · rename_i hne
      simp only [pure, Except.pure, Except.ok.injEq] at h
      subst h
      refine ⟨?_, by intro e; simp [e] at hne⟩
      clear hne
      induction carets generalizing o' with
      | nil =>
        simp only [List.mapM_nil, pure, Except.pure, Except.ok.injEq] at hm
        subst hm; rfl
      | cons c rest ih =>
        simp only [List.mapM_cons, bind, Except.bind] at hm
        cases hc : caretSem vmap c with
        | error e => simp [hc] at hm
        | ok oc =>
          simp only [hc] at hm
          cases hr : rest.mapM (caretSem vmap) with
          | error e => simp [hr] at hm
          | ok orest =>
            simp only [hr, pure, Except.pure, Except.ok.injEq] at hm
            subst hm
            simp [caretSem_want vmap c oc hc, ih orest hr]

theorem caretSem_not_empty (vmap : List (Nat × Nat)) (c : CaretIn) : caretSem vmap c ≠ .error .empty := by
  cases c with
  | bad => simp [caretSem]
  | f1 bs => simp [caretSem, pure, Except.pure]
  | f2 bs => simp [caretSem, pure, Except.pure]
  | f3 coord dev =>
    cases dev with
    | none => simp [caretSem]
    | some d =>
      cases d with
      | device bs => simp [caretSem, subsetDevice, pure, Except.pure, Except.map]
      | varIdx o i =>
        simp only [caretSem, subsetDevice]
        cases vmap.lookup (o * 65536 + i) <;> simp [Except.map, pure, Except.pure]

theorem mapM_caretSem_not_empty (vmap : List (Nat × Nat)) (cs : List CaretIn) :
    cs.mapM (caretSem vmap) ≠ .error .empty := by
  induction cs with
  | nil => simp [pure, Except.pure]
  | cons c rest ih =>
    simp only [List.mapM_cons, bind, Except.bind]
    cases hc : caretSem vmap c with
    | error e =>
      intro h; simp only at h; injection h with h; subst h
      exact caretSem_not_empty vmap c hc
    | ok oc =>
      simp only
      cases hr : rest.mapM (caretSem vmap) with
      | error e =>
        intro h; simp only at h; injection h with h; subst h
        exact ih hr
      | ok orest => simp [pure, Except.pure]

/-- **lig_caret_list_subset**: whenever `LigCaretList::subset` writes a list for a well-formed
original: every kept covered glyph whose LigGlyph is written has — through the subset's coverage —
exactly its caret values in order (`wantCaret`: formats 1/2 unchanged incl. the format 2 point index,
format 3 coordinate unchanged, Device copied, VariationIndex remapped); a kept covered glyph WITHOUT
caret values is left out of the coverage (fix 87f42c2) and no other id is covered. -/
theorem lig_caret_list_subset {p : LPlan} (hp : PlanOk' p) {vmap : List (Nat × Nat)}
    {l : LigCaretListIn} {c : Coverage} (hl : LigOk p l c) {o : LigOut}
    (h : ligSem p vmap l = .ok o) :
    (∀ g n i carets, p.get g = some n → c.get g = some i → l.ligs[i]? = some (.ok carets) →
      carets ≠ [] →
      ∃ j out, o.cov.toCoverage.get n = some j ∧ o.ligs[j]? = some out ∧
        carets.map (wantCaret vmap) = out.map some) ∧
    (∀ g n i, p.get g = some n → c.get g = some i → l.ligs[i]? = some (.ok []) →
      o.cov.toCoverage.get n = none) ∧
    (∀ n, (∀ g ∈ c.glyphs, p.get g ≠ some n) → o.cov.toCoverage.get n = none) := by
  have hitems : (c.glyphs.zipIdx).take (min p.numGlyphs l.count) = c.glyphs.zipIdx := by
    apply take_all
    rw [List.length_zipIdx, hl.count]
    have := hl.covOk.length_le
    omega
  have hsorted : ((c.glyphs.zipIdx).map (·.1)).Pairwise (· < ·) := by
    rw [List.zipIdx_map_fst]; exact hl.covOk.sorted
  unfold ligSem at h
  simp only [hl.cov, hitems] at h
  cases hent : ligListGo p vmap l.ligs c.glyphs.zipIdx with
  | error e => simp [hent] at h
  | ok entries =>
    simp only [hent] at h
    obtain ⟨hes, hmem⟩ := ligListGo_spec p hp.toPlanOk vmap l.ligs c.glyphs.zipIdx entries hsorted hent
    split at h
    · cases h
    · rename_i hne
      have he : entries ≠ [] := by intro e; simp [e] at hne
      obtain ⟨w, hw, hget⟩ := retained_coverage hp entries he hes (by
        intro e hee
        obtain ⟨g, _, _, _, hg, _⟩ := (hmem e.1 e.2).mp hee
        exact ⟨g, hg⟩)
      simp only [hw, Except.map, Except.ok.injEq] at h
      subst h
      simp only
      -- a kept covered glyph with carets: its LigGlyph was subset (the whole list would have failed otherwise)
      refine ⟨?_, ?_, ?_⟩
      · intro g n i carets hgn hci hli hcne
        rw [hl.covOk.get_eq] at hci
        have hit := mem_zipIdx_iff.mpr (indexIn_getElem? hci)
        -- the loop's outcome for this glyph
        cases hs : ligGlyphSem vmap carets with
        | ok out =>
          have hm := (hmem n out).mpr ⟨g, i, carets, hit, hgn, hli, hs⟩
          obtain ⟨j, h1, h2⟩ := entries_lookup entries n out (hes.imp (fun h => Nat.ne_of_lt h)) hm
          exact ⟨j, out, by rw [hget n]; exact h1, h2, (ligGlyphSem_want vmap carets out hs).1⟩
        | error e =>
          exfalso
          -- an error other than EMPTY aborts the loop; EMPTY needs an empty caret list
          have hfail : ∀ (items : List (Nat × Nat)), (g, i) ∈ items →
              ∀ es, ligListGo p vmap l.ligs items = .ok es → e = .empty := by
            intro items
            induction items with
            | nil => intro hm; cases hm
            | cons it rest ih =>
              intro hm es hes'
              obtain ⟨g', i'⟩ := it
              simp only [ligListGo] at hes'
              rcases List.mem_cons.mp hm with e1 | hm'
              · injection e1 with e1 e2; subst e1; subst e2
                simp only [hgn, hli, hs] at hes'
                cases e with
                | empty => rfl
                | soft => simp at hes'
                | hard => simp at hes'
                | trap => simp at hes'
              · cases hg' : p.get g' with
                | none => simp only [hg'] at hes'; exact ih hm' es hes'
                | some n' =>
                  simp only [hg'] at hes'
                  cases hl' : l.ligs[i']? with
                  | none => simp [hl'] at hes'
                  | some lg =>
                    cases lg with
                    | bad => simp [hl'] at hes'
                    | ok cs =>
                      simp only [hl'] at hes'
                      cases hs' : ligGlyphSem vmap cs with
                      | error e' =>
                        cases e' with
                        | empty => simp only [hs'] at hes'; exact ih hm' es hes'
                        | soft => simp [hs'] at hes'
                        | hard => simp [hs'] at hes'
                        | trap => simp [hs'] at hes'
                      | ok o' =>
                        simp only [hs'] at hes'
                        cases hr : ligListGo p vmap l.ligs rest with
                        | error e'' => simp [hr, Except.map] at hes'
                        | ok es' => exact ih hm' es' hr
          have := hfail c.glyphs.zipIdx hit entries hent
          subst this
          -- EMPTY: mapM succeeded with an empty result, so there were no carets
          unfold ligGlyphSem at hs
          cases hm : carets.mapM (caretSem vmap) with
          | error e' =>
            simp only [hm] at hs
            injection hs with hs
            subst hs
            exact mapM_caretSem_not_empty vmap carets hm
          | ok o' =>
            simp only [hm] at hs
            split at hs
            · rename_i hemp
              cases carets with
              | nil => exact hcne rfl
              | cons c0 rest =>
                simp only [List.mapM_cons, bind, Except.bind] at hm
                cases hc0 : caretSem vmap c0 with
                | error e' => simp [hc0] at hm
                | ok oc =>
                  simp only [hc0] at hm
                  cases hr : rest.mapM (caretSem vmap) with
                  | error e' => simp [hr] at hm
                  | ok orest =>
                    simp only [hr, pure, Except.pure, Except.ok.injEq] at hm
                    subst hm
                    simp at hemp
            · cases hs
      · intro g n i hgn hci hli
        rw [hget n]
        apply indexIn_none_of_keys
        intro out hm
        obtain ⟨g', i', cs, hit, hgn', hli', hs⟩ := (hmem n out).mp hm
        have hgg := hp.get_inj hgn' hgn
        subst hgg
        rw [hl.covOk.get_eq] at hci
        have h1 := mem_zipIdx_iff.mp hit
        have h2 := indexIn_getElem? hci
        -- the glyph occurs once in the coverage
        have hii : i' = i := by
          have hd := hl.covOk.sorted
          have hi' := (List.getElem?_eq_some_iff.mp h1)
          have hi := (List.getElem?_eq_some_iff.mp h2)
          rcases Nat.lt_trichotomy i' i with hh | hh | hh
          · have := List.pairwise_iff_getElem.mp hd i' i hi'.1 hi.1 hh
            rw [hi'.2, hi.2] at this; omega
          · exact hh
          · have := List.pairwise_iff_getElem.mp hd i i' hi.1 hi'.1 hh
            rw [hi'.2, hi.2] at this; omega
        subst hii
        rw [hli] at hli'; injection hli' with hli'; injection hli' with hli'
        subst hli'
        simp [ligGlyphSem, pure, Except.pure] at hs
      · intro n hn
        rw [hget n]
        apply indexIn_none_of_keys
        intro out hm
        obtain ⟨g, i, _, hit, hgn, _⟩ := (hmem n out).mp hm
        exact hn g (List.mem_of_getElem? (mem_zipIdx_iff.mp hit)) hgn

/-- **gdef_lig_carets_preserved**: in the written GDEF every glyph kept for layout that has caret
values keeps them, in order, looked up through the subset's LigCaretList coverage at the new glyph
id: format 1 coordinate, format 2 contour point index and format 3 coordinate unchanged; a Device
table copied; a VariationIndex replaced by its image under `layout_varidx_delta_map`
(`(varPlan p g).vmap`); kept glyphs without caret values and ids that are not images of covered
kept glyphs are not covered. -/
theorem gdef_lig_carets_preserved {p : LPlan} (hp : PlanOk' p) {g : GdefIn} {o : GdefOut}
    {l : LigCaretListIn} {c : Coverage} (hg : g.ligCaretList = .ok l) (hl : LigOk p l c)
    (h : subsetGdefSem p g = .ok o) {out : LigOut} (ho : o.ligCaretList = some out) :
    (∀ gl n i carets, p.get gl = some n → c.get gl = some i → l.ligs[i]? = some (.ok carets) →
      carets ≠ [] →
      ∃ j cs, out.cov.toCoverage.get n = some j ∧ out.ligs[j]? = some cs ∧
        carets.map (wantCaret (varPlan p g).vmap) = cs.map some) ∧
    (∀ n, (∀ gl ∈ c.glyphs, p.get gl ≠ some n) → out.cov.toCoverage.get n = none) := by
  have hf := (gdef_fields h).2.2.1
  rw [hg, ho] at hf
  rcases optSem_ok hf with ⟨e1, _⟩ | ⟨x, e1, hh⟩
  · cases e1
  · injection e1 with e1; subst e1
    rcases hh with ⟨_, e2⟩ | ⟨y, hy, e2⟩
    · cases e2
    · injection e2 with e2; subst e2
      obtain ⟨h1, _, h3⟩ := lig_caret_list_subset hp hl hy
      exact ⟨h1, h3⟩

/-! ### mark glyph sets -/

/-- well-formed MarkGlyphSets: every coverage table readable and as the specification requires -/
def MarkSetsOk (p : LPlan) (m : MarkSetsIn) : Prop :=
  ∀ s ∈ m.sets, ∃ c, s = some c ∧ CovOk p c

theorem survive_iff_used {p : LPlan} (hp : PlanOk' p) {c : Coverage} (hc : CovOk p c) :
    setUsed p (some c) = (survive p (some c)).isSome := by
  have hsmall : (c.glyphs.filterMap p.get).length < 65536 := by
    have h1 := kept_sorted hp.toPlanOk hc.sorted
    have := sorted_length_le h1 65535 (by
      intro x hx
      obtain ⟨g, _, e⟩ := List.mem_filterMap.mp hx
      exact hp.newLt' _ ((hp.get_iff g x).mp e))
    omega
  obtain ⟨hemp, hsucc⟩ := coverage_empty_iff_no_kept_glyph hp.toPlanOk hc hsmall
  by_cases hu : setUsed p (some c) = true
  · rw [hu]
    simp only [setUsed, List.any_eq_true, List.contains_iff_mem, decide_eq_true_eq] at hu
    obtain ⟨g, hg, hgs⟩ := hu
    have hgs' : g ∈ p.glyphset := by simpa using hgs
    obtain ⟨n, hn⟩ := hp.mem_glyphset hgs'
    obtain ⟨w, hw⟩ := hsucc ⟨g, hg, by simp [kept, hn]⟩
    simp [survive, hw]
  · have hall : ∀ g ∈ c.glyphs, p.get g = none := by
      intro g hg
      cases hgn : p.get g with
      | none => rfl
      | some n =>
        exfalso; apply hu
        simp only [setUsed, List.any_eq_true]
        exact ⟨g, hg, by simpa using (hp.get_lt hgn).2.2⟩
    have := hemp.mpr hall
    simp [survive, this]
    simpa using hu

/-- **gdef_mark_glyph_sets_preserved**: the written MarkGlyphSets are the original sets that have at
least one glyph kept for layout, in their original order (format unchanged); a retained set `i`
becomes set `i' = number of retained sets before i` — which is what `plan.used_mark_sets_map`
records for it — and membership is unchanged: a kept glyph is in the original set `i` iff its image
is in the subset's set `i'`, and no other id is; a set without kept glyph is dropped and is not in
`used_mark_sets_map`.  (NB: the lookups of the passed-through GSUB / GPOS tables keep their OLD
markFilteringSet indices — see `passthrough_*` below and the known finding.) -/
theorem gdef_mark_glyph_sets_preserved {p : LPlan} (hp : PlanOk' p) {g : GdefIn} {o : GdefOut}
    {m : MarkSetsIn} (hg : g.markGlyphSets = .ok m) (hm : MarkSetsOk p m)
    (h : subsetGdefSem p g = .ok o) {fmt : Nat} {ws : List CovW}
    (ho : o.markGlyphSets = some (fmt, ws)) :
    fmt = m.format ∧ ws = m.sets.filterMap (survive p) ∧
    ∀ i c, m.sets[i]? = some (some c) →
      ((∀ gl ∈ c.glyphs, p.get gl = none) →
        survive p (some c) = none ∧ (usedMarkSetsMap p g).lookup i = none) ∧
      ((∃ gl ∈ c.glyphs, kept p gl = true) →
        ∃ w, ws[((m.sets.take i).filterMap (survive p)).length]? = some w ∧
          (usedMarkSetsMap p g).lookup i = some ((m.sets.take i).filterMap (survive p)).length ∧
          (∀ gl n, p.get gl = some n → (w.toCoverage.get n).isSome = (c.get gl).isSome) ∧
          (∀ n, (∀ gl ∈ c.glyphs, p.get gl ≠ some n) → w.toCoverage.get n = none)) := by
  have hf := (gdef_fields h).2.2.2.2.1
  unfold setsPart at hf
  have h2 : g.minor ≥ 2 := by
    apply Classical.byContradiction
    intro hn
    simp only [hn, ↓reduceIte, pure, Except.pure, Except.ok.injEq] at hf
    rw [ho] at hf; cases hf
  simp only [h2, ↓reduceIte, hg, ho] at hf
  rcases optSem_ok hf with ⟨e1, _⟩ | ⟨x, e1, hh⟩
  · cases e1
  · injection e1 with e1; subst e1
    rcases hh with ⟨_, e2⟩ | ⟨y, hy, e2⟩
    · cases e2
    · injection e2 with e2; subst e2
      unfold markSetsSem at hy
      cases hgo : markSetsGo p m.sets with
      | error e => simp [hgo] at hy
      | ok sets =>
        simp only [hgo] at hy
        split at hy
        · cases hy
        · simp only [pure, Except.pure, Except.ok.injEq, Prod.mk.injEq] at hy
          obtain ⟨e1, e2⟩ := hy
          subst e1; subst e2
          have hws := markSetsGo_spec p m.sets sets hgo
          refine ⟨rfl, hws, ?_⟩
          intro i c hi
          obtain ⟨c', hc', hcov⟩ := hm (some c) (List.mem_of_getElem? hi)
          injection hc' with hc'; subst hc'
          have hsmall : (c.glyphs.filterMap p.get).length < 65536 := by
            have h1 := kept_sorted hp.toPlanOk hcov.sorted
            have := sorted_length_le h1 65535 (by
              intro z hz
              obtain ⟨gl, _, e⟩ := List.mem_filterMap.mp hz
              exact hp.newLt' _ ((hp.get_iff gl z).mp e))
            omega
          have hnn : ∀ s ∈ m.sets, s ≠ none := by
            intro s hs e
            obtain ⟨c'', hc'', _⟩ := hm s hs
            rw [e] at hc''; cases hc''
          have hused := survive_iff_used hp hcov
          have hcnt : ((m.sets.take i).filter (setUsed p)).length =
              ((m.sets.take i).filterMap (survive p)).length := by
            apply filter_filterMap_length
            intro s hs
            obtain ⟨c'', hc'', hcov''⟩ := hm s (List.mem_of_mem_take hs)
            subst hc''
            exact survive_iff_used hp hcov''
          obtain ⟨hemp, hsucc⟩ := coverage_empty_iff_no_kept_glyph hp.toPlanOk hcov hsmall
          constructor
          · intro hall
            have he := hemp.mpr hall
            refine ⟨by simp [survive, he], ?_⟩
            -- not used: the index is not a key of the map
            have hnu : setUsed p (some c) = false := by rw [hused]; simp [survive, he]
            simp only [usedMarkSetsMap, usedMarkSets, hg]
            -- keys of the map are indices of used sets
            have hkeys : ∀ (sets : List (Option Coverage)) (k b j : Nat),
                (∀ s ∈ sets, s ≠ none) →
                (∀ t cc, sets[t]? = some (some cc) → k + t = j → setUsed p (some cc) = false) →
                ((usedGo p sets k).zipIdx b).lookup j = none := by
              intro sets
              induction sets with
              | nil => intro k b j _ _; rfl
              | cons s rest ih =>
                intro k b j hall' hj
                cases s with
                | none => exact absurd rfl (hall' none (List.mem_cons_self ..))
                | some c0 =>
                  have hr := ih (k + 1) b j (fun s hs => hall' s (List.mem_cons_of_mem _ hs))
                    (fun t cc ht e => hj (t + 1) cc (by simpa using ht) (by omega))
                  have hr' := ih (k + 1) (b + 1) j (fun s hs => hall' s (List.mem_cons_of_mem _ hs))
                    (fun t cc ht e => hj (t + 1) cc (by simpa using ht) (by omega))
                  by_cases hu0 : setUsed p (some c0) = true
                  · have : ¬ j = k := by
                      intro e
                      have := hj 0 c0 (by simp) (by omega)
                      rw [hu0] at this; cases this
                    have ne : (j == k) = false := by simp [this]
                    simp [usedGo, hu0, List.zipIdx_cons, List.lookup_cons, ne, hr']
                  · simp [usedGo, hu0, hr]
            apply hkeys m.sets 0 0 i hnn
            intro t cc ht e
            have : t = i := by omega
            subst this
            rw [hi] at ht; injection ht with ht; injection ht with ht
            subst ht; exact hnu
          · rintro ⟨gl, hgl, hk⟩
            obtain ⟨w, hw⟩ := hsucc ⟨gl, hgl, hk⟩
            have hsv : survive p (some c) = some w := by simp [survive, hw]
            have hu : setUsed p (some c) = true := by rw [hused, hsv]; rfl
            refine ⟨w, ?_, ?_, ?_, ?_⟩
            · rw [hws]; exact filterMap_getElem (survive p) m.sets i (some c) w hi hsv
            · simp only [usedMarkSetsMap, usedMarkSets, hg]
              have := usedGo_lookup p m.sets 0 0 i c hnn hi hu
              simp only [Nat.zero_add] at this
              rw [this, hcnt]
            · intro gl' n hgn
              obtain ⟨h1, _, h3⟩ := coverage_subset_get hp.toPlanOk hcov hsmall hw
              rw [h1 gl' n hgn, hcov.get_eq]
              cases hidx : indexIn gl' c.glyphs with
              | none => rw [indexIn_filter_none (kept p) c.glyphs gl' hidx]
              | some k =>
                rw [indexIn_filter (kept p) c.glyphs gl' k hidx (by simp [kept, hgn])]
                rfl
            · intro n hn
              exact (coverage_subset_get hp.toPlanOk hcov hsmall hw).2.2 n hn

/-! ### the variation store -/

/-- a readable ItemVariationStore (the HVAR theorems' side conditions): byte data, fewer than 2^15
region indexes per subtable, all inside the region list, every subtable holds its delta sets -/
structure StoreOk (st : StoreIn) (axisCount : Nat) (regions : List (List (Int × Int × Int))) : Prop where
  regs : st.regions = some (axisCount, regions)
  regLe : regions.length ≤ 65536
  subOk : ∀ t, SubsetHvar.SubIn.ok t ∈ st.subs →
    (∀ b ∈ t.data, b < 256) ∧ t.regionIndexes.length < 32768 ∧ SubsetHvar.SubOk t ∧
    ∀ ri ∈ t.regionIndexes, ri < regions.length

/-- **gdef_store_rows_preserved**: when the GDEF variation store is written, row `i` of the inner map
of source subtable `outer` (i.e. source row `inner_map[i]`) is row `i` of written subtable number
`usedBefore inner outer` (= the number of source subtables with a non-empty inner map before it) and
evaluates — through read-fonts' `compute_delta` — to the same delta at EVERY location, although
unused regions were pruned, regions renumbered and columns repacked.  (Built from the HVAR store
theorems `compute_delta_subtable_preserved` / `subsetSubs_get`.) -/
theorem gdef_store_rows_preserved {st : StoreIn} {axisCount : Nat}
    {regions : List (List (Int × Int × Int))} (hst : StoreOk st axisCount regions)
    {inner : List (List Nat)} (hinner : ∀ im ∈ inner, im.length < 65536)
    {fmt : Nat} {so : SubsetHvar.StoreOut} (h : storeSem st inner = .ok (fmt, so))
    (outer : Nat) (im : List Nat) (him : inner[outer]? = some im) (i : Nat) (hi : i < im.length)
    (coords : List Int) :
    fmt = st.format ∧
    Tent.computeDelta so.regions (so.subs.map some) (SubsetHvar.usedBefore inner outer) i coords =
      Tent.computeDelta regions (st.subs.map SubsetHvar.SubIn.toReader) outer im[i] coords := by
  unfold storeSem at h
  split at h
  · cases h
  · simp only [hst.regs] at h
    cases hc : SubsetHvar.collectAll st.subs inner [] with
    | error e => cases e <;> simp [hc] at h
    | ok refs =>
      simp only [hc] at h
      split at h
      · cases h
      · cases hs : SubsetHvar.subsetStore axisCount regions st.subs inner with
        | error e => cases e <;> simp [hs] at h
        | ok so' =>
          simp only [hs, pure, Except.pure, Except.ok.injEq, Prod.mk.injEq] at h
          obtain ⟨e1, e2⟩ := h
          subst e1; subst e2
          refine ⟨rfl, ?_⟩
          obtain ⟨hsorted, hrm, hregs, hsubs⟩ := SubsetHvar.subsetStore_ok hs
          obtain ⟨t, ov, ht, hv, hout⟩ :=
            SubsetHvar.subsetSubs_get so'.regionMap inner st.subs so'.subs hsubs outer im him (by omega)
          have hmem : SubsetHvar.SubIn.ok t ∈ st.subs := List.mem_of_getElem? ht
          obtain ⟨hb, hric, hsok, hsri⟩ := hst.subOk t hmem
          rw [hregs]
          exact SubsetHvar.computeDelta_subtable (SubsetHvar.subsetVarData_ok hv) hb hric
            (hinner im (List.mem_of_getElem? him)) hsok regions hsorted hrm hst.regLe hsri
            (so'.subs.map some) (st.subs.map SubsetHvar.SubIn.toReader)
            (SubsetHvar.usedBefore inner outer) outer
            (by simp [List.getElem?_map, hout]) (by simp [List.getElem?_map, ht, SubsetHvar.SubIn.toReader])
            coords i hi

/-- what `remap_variation_indices` / `generate_varstore_inner_maps` compute: the variation index
`(outer, inner_maps[outer][i])` becomes `(number of used subtables before outer, i)` -/
def VarPlanSpec (vp : VarPlan) : Prop :=
  ∀ outer im i, vp.inner[outer]? = some im → i < im.length →
    vp.vmap.lookup (outer * 65536 + im[i]!) = some (SubsetHvar.usedBefore vp.inner outer * 65536 + i)

/-- **gdef_var_deltas_preserved_partial**: for every variation index `(outer, inner)` the plan retains
(`inner = inner_maps[outer][i]`): a ligature caret VariationIndex holding it is rewritten to the new
index `(used subtables before outer, i)`, and read-fonts' `compute_delta` on the written GDEF
variation store at the NEW index equals `compute_delta` on the original store at the OLD index at
every location.
PARTIAL: the link `VarPlanSpec (varPlan p g)` between the plan's `layout_varidx_delta_map` /
`gdef_varstore_inner_maps` (models `remapVarIdx`, `innerMaps`) and "(used subtables before, position in
the inner map)" is a hypothesis here; it is not proved in Lean, it is tested (correspondence group
`gdefplan` against the real plan; oracle `gdef-glyph-data-preserved` compares the deltas of every
kept caret at sampled locations on the real output). -/
theorem gdef_var_deltas_preserved_partial {p : LPlan} {g : GdefIn} {o : GdefOut} {st : StoreIn}
    {axisCount : Nat} {regions : List (List (Int × Int × Int))}
    (hg : g.varStore = .ok st) (hst : StoreOk st axisCount regions)
    (hspec : VarPlanSpec (varPlan p g))
    (hinner : ∀ im ∈ (varPlan p g).inner, im.length < 65536)
    (h : subsetGdefSem p g = .ok o) {fmt : Nat} {so : SubsetHvar.StoreOut}
    (ho : o.varStore = some (fmt, so))
    (outer : Nat) (im : List Nat) (him : (varPlan p g).inner[outer]? = some im) (i : Nat)
    (hi : i < im.length) (coord : Nat) (coords : List Int) :
    let new := SubsetHvar.usedBefore (varPlan p g).inner outer * 65536 + i
    wantCaret (varPlan p g).vmap (.f3 coord (some (.varIdx outer im[i]!))) =
      some (.f3 coord (be32 new ++ be16 0x8000)) ∧
    Tent.computeDelta so.regions (so.subs.map some) (new / 65536) (new % 65536) coords =
      Tent.computeDelta regions (st.subs.map SubsetHvar.SubIn.toReader) outer im[i]! coords := by
  intro new
  have hf := (gdef_fields h).2.2.2.2.2.1
  unfold storePart at hf
  have h3 : g.minor ≥ 3 := by
    apply Classical.byContradiction
    intro hn
    simp only [hn, ↓reduceIte, pure, Except.pure, Except.ok.injEq] at hf
    rw [ho] at hf; cases hf
  simp only [h3, ↓reduceIte, hg, ho] at hf
  rcases optSem_ok hf with ⟨e1, _⟩ | ⟨x, e1, hh⟩
  · cases e1
  · injection e1 with e1; subst e1
    rcases hh with ⟨_, e2⟩ | ⟨y, hy, e2⟩
    · cases e2
    · injection e2 with e2; subst e2
      have hrows := gdef_store_rows_preserved hst hinner hy outer im him i hi coords
      have hlt : i < 65536 := by have := hinner im (List.mem_of_getElem? him); omega
      have e1 : new / 65536 = SubsetHvar.usedBefore (varPlan p g).inner outer := by
        simp only [new]; omega
      have e2 : new % 65536 = i := by simp only [new]; omega
      have eg : im[i]! = im[i] := by simp [hi]
      refine ⟨?_, ?_⟩
      · simp only [wantCaret, hspec outer im i him hi]
        rfl
      · rw [e1, e2, eg]; exact hrows.2

/-! ## 4. GSUB / GPOS are passed through: what that means

`subset_table` has no arm for GSUB / GPOS: `passthrough_table` copies the bytes
(`SubsetGdef.passthrough = id`).  The subset's lookups are the ORIGINAL ones — in old glyph ids.
No "subset subtable applied to the renumbered sequence" theorem can be stated about klippa,
because no subtable is subset.  What can be stated is when the verbatim copy happens to be right. -/

theorem passthrough_is_identity (bytes : List Nat) : passthrough bytes = bytes := rfl

/-- a glyph map: injective partial function -/
def GlyphMapInj (f : Nat → Option Nat) : Prop := ∀ a b n, f a = some n → f b = some n → a = b

/-- the passed-through SingleSubst is right for kept inputs: applying the (unchanged) subtable to the
renumbered glyph gives the renumbering of what the original gives -/
def SingleCorrect (f : Nat → Option Nat) (t : SingleSubst) : Prop :=
  ∀ g n, f g = some n → t.apply n = (t.apply g).bind f

/-- the passed-through PairPos format 1 subtable gives a renumbered kept pair the original value -/
def PairCorrect {V : Type} (f : Nat → Option Nat) (t : PairPos1 V) : Prop :=
  ∀ g1 n1 g2 n2, f g1 = some n1 → f g2 = some n2 → t.lookup n1 n2 = t.lookup g1 g2

/-- a SingleSubst with a format 1 coverage as the specification requires it -/
def SingleWf (t : SingleSubst) : Prop :=
  ∃ xs, t.cov = .fmt1 xs ∧ xs.Pairwise (· < ·) ∧ (∀ x ∈ xs, x < 65536) ∧ t.subst.length = xs.length

/-- **passthrough_lookup_correct_iff_identity_on_mentioned_glyphs** (SingleSubst): for an injective
glyph map and a set `M` of kept glyphs: the verbatim copy is right for EVERY well-formed SingleSubst
subtable stated in glyphs of `M` if and only if the glyph map fixes every glyph of `M`.  So the
pass-through is right under retain-gids (or whenever the kept glyphs a lookup mentions keep their
ids) and wrong for some subtable as soon as one mentioned kept glyph is renumbered. -/
theorem passthrough_lookup_correct_iff_identity_on_mentioned_glyphs (f : Nat → Option Nat)
    (hinj : GlyphMapInj f) (M : List Nat) (hM : ∀ g ∈ M, (f g).isSome ∧ g < 65536) :
    (∀ t : SingleSubst, SingleWf t → (∀ g ∈ t.mentioned, g ∈ M) → SingleCorrect f t) ↔
    (∀ g ∈ M, f g = some g) := by
  constructor
  · intro hall g hg
    obtain ⟨hsome, hlt⟩ := hM g hg
    obtain ⟨n, hn⟩ := Option.isSome_iff_exists.mp hsome
    -- the subtable "g ↦ g"
    let t : SingleSubst := ⟨.fmt1 [g], [g]⟩
    have hwf : SingleWf t := ⟨[g], rfl, by simp, by simpa using hlt, rfl⟩
    have hment : ∀ x ∈ t.mentioned, x ∈ M := by
      intro x hx
      simp [SingleSubst.mentioned, Coverage.glyphs, t] at hx
      subst hx; exact hg
    have hc := hall t hwf hment g n hn
    have hs : List.Pairwise (· < ·) [g] := by simp
    have hb : ∀ x ∈ [g], x < 65536 := by simpa using hlt
    have hgg : t.apply g = some g := by
      simp only [SingleSubst.apply, t, get_fmt1 hs hb g, indexIn]
      simp
    rw [hgg] at hc
    simp only [Option.bind_some, hn] at hc
    -- the renumbered glyph must be covered
    simp only [SingleSubst.apply, t, get_fmt1 hs hb n, indexIn] at hc
    by_cases e : g = n
    · rw [← e] at hn; exact hn
    · simp [e] at hc
  · intro hid t hwf hment g n hgn
    obtain ⟨xs, hcov, hs, hb, hlen⟩ := hwf
    have hget : ∀ x, t.cov.get x = indexIn x xs := by
      intro x; rw [hcov]; exact get_fmt1 hs hb x
    have hxsM : ∀ x ∈ xs, x ∈ M := by
      intro x hx; apply hment
      simp [SingleSubst.mentioned, hcov, Coverage.glyphs, hx]
    by_cases hgM : g ∈ M
    · have := hid g hgM
      rw [hgn] at this; injection this with this
      subst this
      simp only [SingleSubst.apply]
      cases hi : t.cov.get n with
      | none => rfl
      | some i =>
        simp only
        cases ho : t.subst[i]? with
        | none => rfl
        | some out =>
          have : out ∈ M := hment out (by
            simp only [SingleSubst.mentioned, List.mem_append]
            right; exact List.mem_of_getElem? ho)
          simp [hid out this]
    · -- neither g nor its image is covered
      have h1 : t.cov.get g = none := by
        rw [hget]; exact indexIn_none (fun h => hgM (hxsM g h))
      have h2 : t.cov.get n = none := by
        rw [hget]; apply indexIn_none
        intro h
        have hnM := hxsM n h
        have := hinj g n n hgn (hid n hnM)
        subst this; exact hgM hnM
      simp [SingleSubst.apply, h1, h2]

/-- a PairPos format 1 subtable with a format 1 coverage as the specification requires it -/
def PairWf {V : Type} (t : PairPos1 V) : Prop :=
  ∃ xs, t.cov = .fmt1 xs ∧ xs.Pairwise (· < ·) ∧ (∀ x ∈ xs, x < 65536)

/-- **passthrough_pairpos_correct_iff_identity_on_mentioned_glyphs**: the same characterisation for
PairPos format 1 values (C16's `PairPos1.lookup`): the copied subtable gives every renumbered kept
pair its original adjustment, for every subtable over `M`, iff the glyph map fixes `M`. -/
theorem passthrough_pairpos_correct_iff_identity_on_mentioned_glyphs {V : Type} [Inhabited V]
    (f : Nat → Option Nat) (hinj : GlyphMapInj f) (M : List Nat)
    (hM : ∀ g ∈ M, (f g).isSome ∧ g < 65536) :
    (∀ t : PairPos1 V, PairWf t → (∀ g ∈ pairMentioned t, g ∈ M) → PairCorrect f t) ↔
    (∀ g ∈ M, f g = some g) := by
  constructor
  · intro hall g hg
    obtain ⟨hsome, hlt⟩ := hM g hg
    obtain ⟨n, hn⟩ := Option.isSome_iff_exists.mp hsome
    let t : PairPos1 V := ⟨.fmt1 [g], [[(g, default)]]⟩
    have hs : List.Pairwise (· < ·) [g] := by simp
    have hb : ∀ x ∈ [g], x < 65536 := by simpa using hlt
    have hwf : PairWf t := ⟨[g], rfl, hs, hb⟩
    have hment : ∀ x ∈ pairMentioned t, x ∈ M := by
      intro x hx
      simp [pairMentioned, Coverage.glyphs, t] at hx
      subst hx; exact hg
    have hc := hall t hwf hment g n g n hn hn
    have hgg : t.lookup g g = some default := by
      simp only [PairPos1.lookup, t, get_fmt1 hs hb g, indexIn]
      simp
    rw [hgg] at hc
    simp only [PairPos1.lookup, t, get_fmt1 hs hb n, indexIn] at hc
    by_cases e : g = n
    · rw [← e] at hn; exact hn
    · simp [e] at hc
  · intro hid t hwf hment g1 n1 g2 n2 h1 h2
    obtain ⟨xs, hcov, hs, hb⟩ := hwf
    have hget : ∀ x, t.cov.get x = indexIn x xs := by
      intro x; rw [hcov]; exact get_fmt1 hs hb x
    have hxsM : ∀ x ∈ xs, x ∈ M := by
      intro x hx; apply hment
      simp [pairMentioned, hcov, Coverage.glyphs, hx]
    -- a glyph outside M and its image are both unmentioned
    have houtside : ∀ g n, f g = some n → g ∉ M → n ∉ M := by
      intro g n hgn hgM hnM
      have := hinj g n n hgn (hid n hnM)
      subst this; exact hgM hnM
    by_cases hg1 : g1 ∈ M
    · have := hid g1 hg1
      rw [h1] at this; injection this with this
      subst this
      simp only [PairPos1.lookup]
      cases hi : t.cov.get n1 with
      | none => rfl
      | some i =>
        simp only
        cases hp : t.pairSets[i]? with
        | none => rfl
        | some ps =>
          simp only
          have hsec : ∀ q ∈ ps, q.1 ∈ M := by
            intro q hq; apply hment
            simp only [pairMentioned, List.mem_append, List.mem_flatMap, List.mem_map]
            right; exact ⟨ps, List.mem_of_getElem? hp, q, hq, rfl⟩
          by_cases hg2 : g2 ∈ M
          · have := hid g2 hg2
            rw [h2] at this; injection this with this
            subst this; rfl
          · have hn2 := houtside g2 n2 h2 hg2
            have f1 : ps.find? (fun q => q.1 == n2) = none := by
              rw [List.find?_eq_none]; intro q hq; simp; intro e; exact hn2 (e ▸ hsec q hq)
            have f2 : ps.find? (fun q => q.1 == g2) = none := by
              rw [List.find?_eq_none]; intro q hq; simp; intro e; exact hg2 (e ▸ hsec q hq)
            rw [f1, f2]
    · have hn1 := houtside g1 n1 h1 hg1
      have c1 : t.cov.get g1 = none := by rw [hget]; exact indexIn_none (fun h => hg1 (hxsM g1 h))
      have c2 : t.cov.get n1 = none := by rw [hget]; exact indexIn_none (fun h => hn1 (hxsM n1 h))
      simp [PairPos1.lookup, c1, c2]

/-- corollary (retain-gids): with the identity glyph map every passed-through subtable is right -/
theorem passthrough_correct_under_retain_gids (f : Nat → Option Nat)
    (hid : ∀ g n, f g = some n → n = g) (t : SingleSubst) (hout : ∀ g out, t.apply g = some out → (f g).isSome → f out = some out) :
    SingleCorrect f t := by
  intro g n hgn
  have := hid g n hgn
  subst this
  cases ha : t.apply n with
  | none => rfl
  | some out => simp [hout n out ha (by simp [hgn])]

end FontVerif.C17Layout
