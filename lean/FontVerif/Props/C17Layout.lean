/-
C17 (layout part) — subsetting the OpenType layout COMMON tables and GDEF preserves what they say about
the glyphs that are kept; GSUB / GPOS are NOT subset by klippa (pass-through), which is characterised
at the end.

Models: `FontVerif/Model/SubsetLayout.lean` (klippa `layout.rs`: Coverage / ClassDef subsetters and
writers, post-fix 546e1a4), `FontVerif/Model/SubsetGdef.lean` (klippa `gdef.rs` + the plan side of
`lib.rs`, post-fix 507034d / 87f42c2).  Reader side: C16's models of read-fonts `CoverageTable::get`
and `ClassDef::get` (binary searches) in `FontVerif/Model/Layout.lean`, C11's `computeDelta` for the
variation store.  The theorems are stated on the structured written tables (`CovW.toCoverage`,
`Layout.ClassDef`, `GdefOut`); their byte images (`CovW.bytes`, `classDefBytes`, `encodeGdef`) are
tied to the real output by the byte-exact correspondence runs of `harness/src/bin/c17/layoutx.rs`.

"Kept" means kept FOR LAYOUT: a key of `plan.glyph_map_gsub` (= `glyphset_gsub`: requested glyphs,
cmap closure, .notdef — klippa has no GSUB closure).  Glyphs that are only kept as composite
components or COLR layers are not in that set and lose their GDEF data (as in HarfBuzz).
-/
import FontVerif.Model.SubsetGdef
import FontVerif.Lemmas.SubsetLayout
set_option linter.unusedVariables false
namespace FontVerif.C17Layout
open FontVerif FontVerif.Layout FontVerif.SubsetLayout

/-! ## 1. Coverage -/

/-- a coverage table as the specification requires it: glyph array strictly ascending / range
records ascending, disjoint, with running start coverage indices; every covered glyph exists -/
def CovOk (p : LPlan) : Coverage → Prop
  | .fmt1 xs => xs.Pairwise (· < ·) ∧ ∀ g ∈ xs, g < p.numGlyphs ∧ g < 65536
  | .fmt2 rs => WFRanges 0 rs ∧ ∀ g ∈ expandRanges rs, g < p.numGlyphs ∧ g < 65536

/-- the glyph is kept for layout -/
def kept (p : LPlan) (g : Nat) : Bool := (p.get g).isSome

theorem CovOk.sorted {p : LPlan} {c : Coverage} (hc : CovOk p c) : c.glyphs.Pairwise (· < ·) := by
  cases c with
  | fmt1 xs => exact hc.1
  | fmt2 rs => exact wf_expand_sorted hc.1

theorem CovOk.get_eq {p : LPlan} {c : Coverage} (hc : CovOk p c) (g : Nat) :
    c.get g = indexIn g c.glyphs := by
  cases c with
  | fmt1 xs => exact get_fmt1 hc.1 (fun x hx => (hc.2 x hx).2) g
  | fmt2 rs =>
    apply get_fmt2 hc.1
    intro r hr
    have hse := wf_start_le_end hc.1 r hr
    exact (hc.2 r.end_ (mem_expandRanges.mpr ⟨r, hr, hse, Nat.le_refl _⟩)).2

theorem covRetained_eq {p : LPlan} (hp : PlanOk p) {c : Coverage} (hc : CovOk p c) :
    covRetained p c = .ok (c.glyphs.filterMap p.get) := by
  cases c with
  | fmt1 xs =>
    simp only [covRetained, Coverage.glyphs]
    rw [cov1Retained_eq hp hc.1]; rfl
  | fmt2 rs =>
    simp only [covRetained, Coverage.glyphs]
    exact cov2Retained_eq hp hc.1 (fun g hg => (hc.2 g hg).1)

/-- the whole behaviour of `CoverageTable::subset` on a well-formed table: nothing retained =
`Err(EMPTY)`; otherwise a table whose glyphs are the new ids of the kept covered glyphs in coverage
order and on which read-fonts' `get` (binary search) answers "position in that list" -/
theorem subsetCoverage_spec {p : LPlan} (hp : PlanOk p) {c : Coverage} (hc : CovOk p c)
    (hsmall : (c.glyphs.filterMap p.get).length < 65536) :
    (c.glyphs.filterMap p.get = [] ∧ subsetCoverage p c = .error .empty) ∨
    ∃ w, subsetCoverage p c = .ok w ∧ w.toCoverage.glyphs = c.glyphs.filterMap p.get ∧
      ∀ n, w.toCoverage.get n = indexIn n (c.glyphs.filterMap p.get) := by
  unfold subsetCoverage
  rw [covRetained_eq hp hc]
  by_cases he : c.glyphs.filterMap p.get = []
  · left
    refine ⟨he, ?_⟩
    simp [he, bind, Except.bind, throw, throwThe, MonadExceptOf.throw]
  · right
    have hlt : ∀ x ∈ c.glyphs.filterMap p.get, x < 65536 := by
      intro x hx
      obtain ⟨g, _, e⟩ := List.mem_filterMap.mp hx
      exact (hp.get_lt e).1
    obtain ⟨w, hw, hg, hget⟩ := serializeCoverage_get he (kept_sorted hp hc.sorted) hlt hsmall
    refine ⟨w, ?_, hg, hget⟩
    have : (c.glyphs.filterMap p.get).isEmpty = false := by
      cases h : c.glyphs.filterMap p.get with
      | nil => exact absurd h he
      | cons _ _ => rfl
    simp [bind, Except.bind, this, hw]

/-- **coverage_subset_glyphs**: the glyphs of the subset coverage are exactly
`{ glyph_map g | g covered, g kept }`, in ascending order (= coverage order of the original) -/
theorem coverage_subset_glyphs {p : LPlan} (hp : PlanOk p) {c : Coverage} (hc : CovOk p c)
    (hsmall : (c.glyphs.filterMap p.get).length < 65536) {w : CovW}
    (h : subsetCoverage p c = .ok w) :
    w.toCoverage.glyphs = c.glyphs.filterMap p.get ∧ w.toCoverage.glyphs.Pairwise (· < ·) ∧
    ∀ n, n ∈ w.toCoverage.glyphs ↔ ∃ g, g ∈ c.glyphs ∧ p.get g = some n := by
  rcases subsetCoverage_spec hp hc hsmall with ⟨_, he⟩ | ⟨w', hw', hg, _⟩
  · rw [he] at h; cases h
  · rw [hw'] at h; injection h with h; subst h
    refine ⟨hg, ?_, ?_⟩
    · rw [hg]; exact kept_sorted hp hc.sorted
    · intro n; rw [hg]; simp [List.mem_filterMap]

/-- **coverage_subset_get**: through read-fonts' reader: the coverage index of the image of a kept
glyph is the rank of the glyph among the kept covered glyphs (`none` when the glyph is not covered);
an id that is not the image of a kept covered glyph is not covered. -/
theorem coverage_subset_get {p : LPlan} (hp : PlanOk p) {c : Coverage} (hc : CovOk p c)
    (hsmall : (c.glyphs.filterMap p.get).length < 65536) {w : CovW}
    (h : subsetCoverage p c = .ok w) :
    (∀ g n, p.get g = some n →
      w.toCoverage.get n = indexIn g (c.glyphs.filter (kept p))) ∧
    (∀ g n i, p.get g = some n → c.get g = some i →
      w.toCoverage.get n = some ((c.glyphs.take i).countP (kept p))) ∧
    (∀ n, (∀ g, g ∈ c.glyphs → p.get g ≠ some n) → w.toCoverage.get n = none) := by
  rcases subsetCoverage_spec hp hc hsmall with ⟨_, he⟩ | ⟨w', hw', hg, hget⟩
  · rw [he] at h; cases h
  · rw [hw'] at h; injection h with h; subst h
    have h1 : ∀ g n, p.get g = some n →
        w'.toCoverage.get n = indexIn g (c.glyphs.filter (kept p)) := by
      intro g n hgn
      rw [hget n]
      exact indexIn_filterMap p.get g n hgn c.glyphs (fun a _ ha => hp.get_inj ha hgn)
    refine ⟨h1, ?_, ?_⟩
    · intro g n i hgn hci
      rw [h1 g n hgn]
      rw [hc.get_eq] at hci
      exact indexIn_filter (kept p) c.glyphs g i hci (by simp [kept, hgn])
    · intro n hn
      rw [hget n]
      apply indexIn_none
      intro hm
      obtain ⟨g, hg', e⟩ := List.mem_filterMap.mp hm
      exact hn g hg' e

/-- **coverage_subset_index_order_preserved**: the coverage indices of kept glyphs keep their
relative order (the new index of a glyph is the number of kept covered glyphs before it) -/
theorem coverage_subset_index_order_preserved {p : LPlan} (hp : PlanOk p) {c : Coverage}
    (hc : CovOk p c) (hsmall : (c.glyphs.filterMap p.get).length < 65536) {w : CovW}
    (h : subsetCoverage p c = .ok w) {g1 g2 n1 n2 i1 i2 j1 j2 : Nat}
    (k1 : p.get g1 = some n1) (k2 : p.get g2 = some n2)
    (c1 : c.get g1 = some i1) (c2 : c.get g2 = some i2)
    (s1 : w.toCoverage.get n1 = some j1) (s2 : w.toCoverage.get n2 = some j2) :
    i1 < i2 ↔ j1 < j2 := by
  have hs := (coverage_subset_get hp hc hsmall h).2.1
  have e1 := hs g1 n1 i1 k1 c1
  have e2 := hs g2 n2 i2 k2 c2
  rw [s1] at e1; rw [s2] at e2
  injection e1 with e1; injection e2 with e2
  rw [hc.get_eq] at c1 c2
  have q1 : kept p g1 = true := by simp [kept, k1]
  have q2 : kept p g2 = true := by simp [kept, k2]
  constructor
  · intro hlt
    rw [e1, e2]
    exact countP_take_lt (kept p) c.glyphs (indexIn_getElem? c1) q1 hlt
  · intro hlt
    rcases Nat.lt_trichotomy i1 i2 with hh | hh | hh
    · exact hh
    · subst hh; omega
    · have := countP_take_lt (kept p) c.glyphs (indexIn_getElem? c2) q2 hh
      omega

/-- **parallel_array_alignment**: an array indexed by coverage index (attachment points, ligature
glyphs, later the substitute array of a SingleSubst format 2, …) that is restricted by the same
"glyph kept" filter as the coverage stays aligned with it: the entry at the new coverage index of
`glyph_map g` is the entry the original held at the coverage index of `g`. -/
theorem parallel_array_alignment {α : Type} {p : LPlan} (hp : PlanOk p) {c : Coverage}
    (hc : CovOk p c) (hsmall : (c.glyphs.filterMap p.get).length < 65536) {w : CovW}
    (h : subsetCoverage p c = .ok w) (arr : List α) {g n i : Nat}
    (hk : p.get g = some n) (hi : c.get g = some i) :
    ∃ j, w.toCoverage.get n = some j ∧
      ((c.glyphs.zip arr).filterMap (fun x => if kept p x.1 then some x.2 else none))[j]? = arr[i]? := by
  refine ⟨_, (coverage_subset_get hp hc hsmall h).2.1 g n i hk hi, ?_⟩
  rw [hc.get_eq] at hi
  exact aligned (kept p) c.glyphs arr g i hi (by simp [kept, hk])

/-- **coverage_empty_iff_no_kept_glyph**: `CoverageTable::subset` returns `Err(EMPTY)` exactly when
no covered glyph is kept (every caller then omits the table), and succeeds otherwise -/
theorem coverage_empty_iff_no_kept_glyph {p : LPlan} (hp : PlanOk p) {c : Coverage} (hc : CovOk p c)
    (hsmall : (c.glyphs.filterMap p.get).length < 65536) :
    (subsetCoverage p c = .error .empty ↔ ∀ g ∈ c.glyphs, p.get g = none) ∧
    ((∃ g ∈ c.glyphs, kept p g = true) → ∃ w, subsetCoverage p c = .ok w) := by
  have hnil : c.glyphs.filterMap p.get = [] ↔ ∀ g ∈ c.glyphs, p.get g = none := by
    rw [List.filterMap_eq_nil_iff]
  rcases subsetCoverage_spec hp hc hsmall with ⟨he, hr⟩ | ⟨w, hw, hg, _⟩
  · refine ⟨⟨fun _ => hnil.mp he, fun _ => hr⟩, ?_⟩
    rintro ⟨g, hg, hk⟩
    have := hnil.mp he g hg
    simp [kept, this] at hk
  · refine ⟨⟨fun h => (by rw [hw] at h; cases h), fun hall => ?_⟩, fun _ => ⟨w, hw⟩⟩
    exfalso
    have hne : w.toCoverage.glyphs = [] := by rw [hg]; exact hnil.mpr hall
    -- the writer is only reached with a non-empty list
    unfold subsetCoverage at hw
    rw [covRetained_eq hp hc, hnil.mpr hall] at hw
    simp [bind, Except.bind, throw, throwThe, MonadExceptOf.throw] at hw

/-- non-vacuity: the hypotheses hold for a compact renumbering {0↦0, 4↦1, 5↦2, 9↦3} of a 12-glyph
font and the format 2 coverage 3..=6, 9; the subset then covers 1, 2, 3 -/
def exPlan : LPlan := { glyphset := [0, 4, 5, 9], gmap := [(0, 0), (4, 1), (5, 2), (9, 3)], numGlyphs := 12 }
def exCov : Coverage := .fmt2 [⟨3, 6, 0⟩, ⟨9, 9, 4⟩]

example : PlanOk exPlan :=
  ⟨by decide, by simp [exPlan], by simp [exPlan], by simp [exPlan]⟩

example : CovOk exPlan exCov := by
  refine ⟨by simp [WFRanges], ?_⟩
  simp [expandRanges, RangeRec.glyphs, List.range', exPlan]

example : (match subsetCoverage exPlan exCov with
    | .ok w => some w.toCoverage
    | .error _ => none) = some (.fmt1 [1, 2, 3]) := by decide +kernel

end FontVerif.C17Layout
