/-
C17 — Layout part (theorems). See reports/C17.md.
-/
import FontVerif.Model.Base
namespace FontVerif.C17Layout
open FontVerif

end FontVerif.C17Layout
