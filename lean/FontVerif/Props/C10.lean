/-
C10 — glyph variation deltas survive encoding, IUP optimisation and application.
Property theorems only (helper lemmas: Lemmas/Packed.lean, Lemmas/Iup.lean).
Models: Model/PackedDeltas.lean ⇄ write-fonts/read-fonts `tables/variations.rs`;
        Model/Iup.lean ⇄ write-fonts `tables/gvar/iup.rs`, skrifa `outline/glyf/deltas.rs`.
-/
import FontVerif.Model.PackedDeltas
import FontVerif.Lemmas.Packed
set_option linter.unusedVariables false
namespace FontVerif.C10
open FontVerif FontVerif.PackedDeltas

/-! ### packed deltas: the reader returns exactly what the writer was given -/

/-- For every list of i32 deltas (all run kinds, any length, single zeros kept inline, runs split
at 64): reading `ds.length` values from the written bytes — whatever follows them — gives `ds`. -/
theorem deltas_roundtrip (ds : List Int) (h : ∀ d ∈ ds, inI32 d) (rest : List Nat) :
    decodeDeltas (encodeDeltas ds ++ rest) ds.length = ds := by
  obtain ⟨hv, hc⟩ := runsOf_props ds.length ds (Nat.le_refl _) h
  unfold decodeDeltas encodeDeltas
  have ht : total (runsOf ds.length ds) = ds.length := by unfold total; rw [hc]
  rw [decNext_runs _ ds.length .i8 rest hv (by omega), hc, ht, Nat.sub_self]
  simp [decNext]

/-- The unbounded reader (`PackedDeltas::consume_all`, used when a tuple covers all points) first
counts the values in the data and then yields exactly the written list. -/
theorem deltas_roundtrip_consume_all (ds : List Int) (h : ∀ d ∈ ds, inI32 d) :
    decodeAll (encodeDeltas ds) = ds := by
  obtain ⟨hv, hc⟩ := runsOf_props ds.length ds (Nat.le_refl _) h
  have ht : total (runsOf ds.length ds) = ds.length := by unfold total; rw [hc]
  unfold decodeAll
  have hcount : countAll (encodeDeltas ds).length (encodeDeltas ds) = ds.length := by
    unfold encodeDeltas; rw [countAll_runs _ _ (Nat.le_refl _) hv, ht]
  rw [hcount]
  simpa using deltas_roundtrip ds h []

/-- Point deltas are stored as all x then all y; `x_deltas()` and `y_deltas()` (the latter via
`skip_fast`) return the two written lists, for any equal-length lists and any trailing bytes. -/
theorem xy_roundtrip (xs ys : List Int) (hx : ∀ d ∈ xs, inI32 d) (hy : ∀ d ∈ ys, inI32 d)
    (hlen : xs.length = ys.length) (rest : List Nat) :
    xDeltas (encodeDeltas xs ++ (encodeDeltas ys ++ rest)) (2 * xs.length) = xs ∧
    yDeltas (encodeDeltas xs ++ (encodeDeltas ys ++ rest)) (2 * xs.length) = ys := by
  obtain ⟨hvx, hcx⟩ := runsOf_props xs.length xs (Nat.le_refl _) hx
  obtain ⟨hvy, hcy⟩ := runsOf_props ys.length ys (Nat.le_refl _) hy
  have htx : total (runsOf xs.length xs) = xs.length := by unfold total; rw [hcx]
  have hty : total (runsOf ys.length ys) = ys.length := by unfold total; rw [hcy]
  constructor
  · unfold xDeltas
    have : 2 * xs.length / 2 = xs.length := by omega
    rw [this]
    exact deltas_roundtrip xs hx _
  · have := yDeltas_runs (runsOf xs.length xs) (runsOf ys.length ys) rest hvx hvy (by omega)
    rw [htx, hcy] at this
    exact this

/-- Decoder yield bound on arbitrary bytes: never more values than requested. -/
theorem decode_yield_bound (bs : List Nat) (count : Nat) : (decodeDeltas bs count).length ≤ count := by
  unfold decodeDeltas
  generalize (0 : Nat) = rem
  generalize RunType.i8 = ty
  induction count generalizing rem ty bs with
  | zero => simp [decNext]
  | succ n ih =>
    unfold decNext
    split
    · simp
    · split
      · simp
      · exact Nat.succ_le_succ (ih _ _ _)

/-- the written size bookkeeping (`compute_size`, used for `variationDataSize`) is the number of
bytes written, whenever it does not trap. -/
theorem compute_size_is_length (ds : List Int) (n : Nat) (h : computeSize ds = some n) :
    n = (encodeDeltas ds).length := by
  unfold computeSize at h
  unfold encodeDeltas
  generalize runsOf ds.length ds = rs at h
  have key : ∀ (rs : List Run) (a n : Nat),
      rs.foldl (fun acc r => match acc with
        | none => none
        | some a => if a + runSize r > 65535 then none else some (a + runSize r)) (some a) = some n →
      n = a + (rs.flatMap serializeRun).length := by
    intro rs
    induction rs with
    | nil => intro a n h; simp at h; simp [h]
    | cons r rs ih =>
      intro a n h
      simp only [List.foldl_cons] at h
      by_cases hc : a + runSize r > 65535
      · simp only [hc, if_true] at h
        have : ∀ (l : List Run), l.foldl (fun acc r => match acc with
            | none => none
            | some a => if a + runSize r > 65535 then none else some (a + runSize r)) (none : Option Nat) = none := by
          intro l; induction l with
          | nil => rfl
          | cons x l ih => simpa using ih
        rw [this] at h; cases h
      · simp only [hc, if_false] at h
        have := ih _ _ h
        simp only [List.flatMap_cons, List.length_append, serializeRun_length, runSize] at this ⊢
        omega
  simpa using key rs 0 n h

/-! ### packed point numbers -/

/-- For every non-empty ascending list of at most 32767 point numbers below 65536 (gaps of any
size: byte runs, word runs, runs split at 128, one- or two-byte count): the writer does not trap,
the reader's iterator returns the list, and `split_off_front` leaves exactly the bytes that
follow (that is where the packed deltas start). -/
theorem points_roundtrip (pts : List Nat) (h0 : pts ≠ []) (hlen : pts.length ≤ 32767)
    (hb : ∀ p ∈ pts, p ≤ 65535) (hs : pts.Pairwise (· ≤ ·)) (rest : List Nat) :
    ∃ bs, encodePoints pts = some bs ∧ decodePoints (bs ++ rest) = some pts ∧
      splitRemainder (bs ++ rest) = rest := by
  have hasc : Asc 0 pts := asc_of_sorted pts 0 (fun p hp => ⟨Nat.zero_le _, hb p hp⟩) hs
  obtain ⟨rs, e, ok, cat⟩ := ptRunsOf_props pts.length 0 pts (Nat.le_refl _) hasc
  have hpos : 1 ≤ pts.length := by
    cases pts with
    | nil => exact absurd rfl h0
    | cons _ _ => simp
  have htot : ptTotal rs = pts.length := by unfold ptTotal; rw [cat]
  refine ⟨ptCountBytes pts.length ++ rs.flatMap serializePtRun, by simp [encodePoints, e], ?_, ?_⟩
  · unfold decodePoints
    rw [List.append_assoc, count_header _ hpos hlen]
    have hne : pts.length ≠ 0 := by omega
    simp only [hne, if_false]
    have hd : (ptCountBytes pts.length ++ (List.flatMap serializePtRun rs ++ rest)).drop
        (ptCountBytes pts.length).length = List.flatMap serializePtRun rs ++ rest := by simp
    rw [hd]
    obtain ⟨last', h⟩ := ptNext_runs rs pts.length 0 false rest ok (by omega)
    rw [h, cat, htot, Nat.sub_self]
    simp [ptNext]
  · unfold splitRemainder totalLen
    rw [List.append_assoc, count_header _ hpos hlen]
    have hne : pts.length ≠ 0 := by omega
    simp only [hne, if_false]
    have hd : (ptCountBytes pts.length ++ (List.flatMap serializePtRun rs ++ rest)).drop
        (ptCountBytes pts.length).length = List.flatMap serializePtRun rs ++ rest := by simp
    rw [hd, totalLen_runs rs _ _ 0 pts.length 0 rest ok (by omega)
      (by have := runs_le_total rs 0 ok; omega)]
    rw [← List.length_append, ← List.append_assoc]
    simp

/-- `PackedPointNumbers::Some(vec![])` writes the same single byte as `All`, and the reader
takes it to mean "all points": an empty explicit set cannot be represented.  (Hence the
non-emptiness hypothesis of `points_roundtrip`; the harness reports what the real code does.) -/
theorem empty_some_is_all (rest : List Nat) :
    encodePoints [] = some [0] ∧ decodePoints ([0] ++ rest) = none := by
  constructor <;> rfl

/-- Point-number decoder yield bound on arbitrary bytes: at most `count` numbers, each a u16. -/
theorem points_yield_bound (bs : List Nat) (l : List Nat) (h : decodePoints bs = some l) :
    l.length ≤ (countAndCountBytes bs).1 ∧ ∀ p ∈ l, p ≤ 65535 := by
  unfold decodePoints at h
  generalize hcb : countAndCountBytes bs = cb at h
  obtain ⟨n, nb⟩ := cb
  simp only at h
  split at h
  · cases h
  · injection h with h
    subst h
    have key : ∀ (n rem : Nat) (two : Bool) (last : Nat) (bs : List Nat),
        (ptNext n rem two last bs).length ≤ n ∧ ∀ p ∈ ptNext n rem two last bs, p ≤ 65535 := by
      intro n
      induction n with
      | zero => intro rem two last bs; simp [ptNext]
      | succ n ih =>
        intro rem two last bs
        unfold ptNext
        split
        · simp
        · split
          · simp
          · split
            · simp
            · rename_i hle
              refine ⟨Nat.succ_le_succ (ih _ _ _ _).1, ?_⟩
              intro p hp
              simp only [List.mem_cons] at hp
              rcases hp with rfl | hp
              · omega
              · exact (ih _ _ _ _).2 p hp
    exact key _ _ _ _ _

end FontVerif.C10
