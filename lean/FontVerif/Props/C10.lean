/-
C10 — glyph variation deltas survive encoding, IUP optimisation and application.
Property theorems only (helper lemmas: Lemmas/Packed.lean, Lemmas/Iup.lean).
Models: Model/PackedDeltas.lean ⇄ write-fonts/read-fonts `tables/variations.rs`;
        Model/Iup.lean ⇄ write-fonts `tables/gvar/iup.rs`, skrifa `outline/glyf/deltas.rs`.
-/
import FontVerif.Model.PackedDeltas
import FontVerif.Model.Iup
import FontVerif.Lemmas.Packed
import FontVerif.Lemmas.Iup
import FontVerif.Lemmas.IupRat
import FontVerif.Lemmas.GvarLayout
set_option linter.unusedVariables false
namespace FontVerif.C10
open FontVerif FontVerif.PackedDeltas

/-! ### packed deltas: the reader returns exactly what the writer was given -/

/-- For every list of i32 deltas (all run kinds, any length, single zeros kept inline, runs split
at 64): reading `ds.length` values from the written bytes — whatever follows them — gives `ds`. -/
theorem deltas_roundtrip (ds : List Int) (h : ∀ d ∈ ds, inI32 d) (rest : List Nat) :
    decodeDeltas (encodeDeltas ds ++ rest) ds.length = ds := by
  obtain ⟨hv, hc⟩ := runsOf_props ds.length ds (Nat.le_refl _) h
  unfold decodeDeltas encodeDeltas
  have ht : total (runsOf ds.length ds) = ds.length := by unfold total; rw [hc]
  rw [decNext_runs _ ds.length .i8 rest hv (by omega), hc, ht, Nat.sub_self]
  simp [decNext]

/-- The unbounded reader (`PackedDeltas::consume_all`, used when a tuple covers all points) first
counts the values in the data and then yields exactly the written list. -/
theorem deltas_roundtrip_consume_all (ds : List Int) (h : ∀ d ∈ ds, inI32 d) :
    decodeAll (encodeDeltas ds) = ds := by
  obtain ⟨hv, hc⟩ := runsOf_props ds.length ds (Nat.le_refl _) h
  have ht : total (runsOf ds.length ds) = ds.length := by unfold total; rw [hc]
  unfold decodeAll
  have hcount : countAll (encodeDeltas ds).length (encodeDeltas ds) = ds.length := by
    unfold encodeDeltas; rw [countAll_runs _ _ (Nat.le_refl _) hv, ht]
  rw [hcount]
  simpa using deltas_roundtrip ds h []

/-- Point deltas are stored as all x then all y; `x_deltas()` and `y_deltas()` (the latter via
`skip_fast`) return the two written lists, for any equal-length lists and any trailing bytes. -/
theorem xy_roundtrip (xs ys : List Int) (hx : ∀ d ∈ xs, inI32 d) (hy : ∀ d ∈ ys, inI32 d)
    (hlen : xs.length = ys.length) (rest : List Nat) :
    xDeltas (encodeDeltas xs ++ (encodeDeltas ys ++ rest)) (2 * xs.length) = xs ∧
    yDeltas (encodeDeltas xs ++ (encodeDeltas ys ++ rest)) (2 * xs.length) = ys := by
  obtain ⟨hvx, hcx⟩ := runsOf_props xs.length xs (Nat.le_refl _) hx
  obtain ⟨hvy, hcy⟩ := runsOf_props ys.length ys (Nat.le_refl _) hy
  have htx : total (runsOf xs.length xs) = xs.length := by unfold total; rw [hcx]
  have hty : total (runsOf ys.length ys) = ys.length := by unfold total; rw [hcy]
  constructor
  · unfold xDeltas
    have : 2 * xs.length / 2 = xs.length := by omega
    rw [this]
    exact deltas_roundtrip xs hx _
  · have := yDeltas_runs (runsOf xs.length xs) (runsOf ys.length ys) rest hvx hvy (by omega)
    rw [htx, hcy] at this
    exact this

/-- Decoder yield bound on arbitrary bytes: never more values than requested. -/
theorem decode_yield_bound (bs : List Nat) (count : Nat) : (decodeDeltas bs count).length ≤ count := by
  unfold decodeDeltas
  generalize (0 : Nat) = rem
  generalize RunType.i8 = ty
  induction count generalizing rem ty bs with
  | zero => simp [decNext]
  | succ n ih =>
    unfold decNext
    split
    · simp
    · split
      · simp
      · exact Nat.succ_le_succ (ih _ _ _)

/-- the written size bookkeeping (`compute_size`, used for `variationDataSize`) is the number of
bytes written, whenever it does not trap. -/
theorem compute_size_is_length (ds : List Int) (n : Nat) (h : computeSize ds = some n) :
    n = (encodeDeltas ds).length := by
  unfold computeSize at h
  unfold encodeDeltas
  generalize runsOf ds.length ds = rs at h
  have key : ∀ (rs : List Run) (a n : Nat),
      rs.foldl (fun acc r => match acc with
        | none => none
        | some a => if a + runSize r > 65535 then none else some (a + runSize r)) (some a) = some n →
      n = a + (rs.flatMap serializeRun).length := by
    intro rs
    induction rs with
    | nil => intro a n h; simp at h; simp [h]
    | cons r rs ih =>
      intro a n h
      simp only [List.foldl_cons] at h
      by_cases hc : a + runSize r > 65535
      · simp only [hc, if_true] at h
        have : ∀ (l : List Run), l.foldl (fun acc r => match acc with
            | none => none
            | some a => if a + runSize r > 65535 then none else some (a + runSize r)) (none : Option Nat) = none := by
          intro l; induction l with
          | nil => rfl
          | cons x l ih => simpa using ih
        rw [this] at h; cases h
      · simp only [hc, if_false] at h
        have := ih _ _ h
        simp only [List.flatMap_cons, List.length_append, serializeRun_length, runSize] at this ⊢
        omega
  simpa using key rs 0 n h

/-! ### packed point numbers -/

/-- For every non-empty ascending list of at most 32767 point numbers below 65536 (gaps of any
size: byte runs, word runs, runs split at 128, one- or two-byte count): the writer does not trap,
the reader's iterator returns the list, and `split_off_front` leaves exactly the bytes that
follow (that is where the packed deltas start). -/
theorem points_roundtrip (pts : List Nat) (h0 : pts ≠ []) (hlen : pts.length ≤ 32767)
    (hb : ∀ p ∈ pts, p ≤ 65535) (hs : pts.Pairwise (· ≤ ·)) (rest : List Nat) :
    ∃ bs, encodePoints pts = some bs ∧ decodePoints (bs ++ rest) = some pts ∧
      splitRemainder (bs ++ rest) = rest := by
  have hasc : Asc 0 pts := asc_of_sorted pts 0 (fun p hp => ⟨Nat.zero_le _, hb p hp⟩) hs
  obtain ⟨rs, e, ok, cat⟩ := ptRunsOf_props pts.length 0 pts (Nat.le_refl _) hasc
  have hpos : 1 ≤ pts.length := by
    cases pts with
    | nil => exact absurd rfl h0
    | cons _ _ => simp
  have htot : ptTotal rs = pts.length := by unfold ptTotal; rw [cat]
  refine ⟨ptCountBytes pts.length ++ rs.flatMap serializePtRun, by simp [encodePoints, e], ?_, ?_⟩
  · unfold decodePoints
    rw [List.append_assoc, count_header _ hpos hlen]
    have hne : pts.length ≠ 0 := by omega
    simp only [hne, if_false]
    have hd : (ptCountBytes pts.length ++ (List.flatMap serializePtRun rs ++ rest)).drop
        (ptCountBytes pts.length).length = List.flatMap serializePtRun rs ++ rest := by simp
    rw [hd]
    obtain ⟨last', h⟩ := ptNext_runs rs pts.length 0 false rest ok (by omega)
    rw [h, cat, htot, Nat.sub_self]
    simp [ptNext]
  · unfold splitRemainder totalLen
    rw [List.append_assoc, count_header _ hpos hlen]
    have hne : pts.length ≠ 0 := by omega
    simp only [hne, if_false]
    have hd : (ptCountBytes pts.length ++ (List.flatMap serializePtRun rs ++ rest)).drop
        (ptCountBytes pts.length).length = List.flatMap serializePtRun rs ++ rest := by simp
    rw [hd, totalLen_runs rs _ _ 0 pts.length 0 rest ok (by omega)
      (by have := runs_le_total rs 0 ok; omega)]
    rw [← List.length_append, ← List.append_assoc]
    simp

/-- `PackedPointNumbers::Some(vec![])` writes the same single byte as `All`, and the reader
takes it to mean "all points": an empty explicit set cannot be represented.  (Hence the
non-emptiness hypothesis of `points_roundtrip`; the harness reports what the real code does.) -/
theorem empty_some_is_all (rest : List Nat) :
    encodePoints [] = some [0] ∧ decodePoints ([0] ++ rest) = none := by
  constructor <;> rfl

/-- Point-number decoder yield bound on arbitrary bytes: at most `count` numbers, each a u16. -/
theorem points_yield_bound (bs : List Nat) (l : List Nat) (h : decodePoints bs = some l) :
    l.length ≤ (countAndCountBytes bs).1 ∧ ∀ p ∈ l, p ≤ 65535 := by
  unfold decodePoints at h
  generalize hcb : countAndCountBytes bs = cb at h
  obtain ⟨n, nb⟩ := cb
  simp only at h
  split at h
  · cases h
  · injection h with h
    subst h
    have key : ∀ (n rem : Nat) (two : Bool) (last : Nat) (bs : List Nat),
        (ptNext n rem two last bs).length ≤ n ∧ ∀ p ∈ ptNext n rem two last bs, p ≤ 65535 := by
      intro n
      induction n with
      | zero => intro rem two last bs; simp [ptNext]
      | succ n ih =>
        intro rem two last bs
        unfold ptNext
        split
        · simp
        · split
          · simp
          · split
            · simp
            · rename_i hle
              refine ⟨Nat.succ_le_succ (ih _ _ _ _).1, ?_⟩
              intro p hp
              simp only [List.mem_cons] at hp
              rcases hp with rfl | hp
              · omega
              · exact (ih _ _ _ _).2 p hp
    exact key _ _ _ _ _

/-! ### IUP: the optimiser never drops a delta that inference does not recover within tolerance

Model/Iup.lean transcribes `iup_contour_optimize` (must-encode set, rotation, the dynamic
program over `can_iup_in_between`, the doubled-contour search) for INTEGER coordinates and deltas
and a rational tolerance `t.n / t.d`; the one non-integer quantity of the Rust, the interpolated
value `d1 + (c - c1) * ((d2 - d1) / (c2 - c1))`, is kept as the exact fraction (the Rust rounds it
to f64: that rounding is NOT modelled, the harness counts inputs where it could flip a comparison
as knife-edge).  `inferSpec` is the OpenType specification's inference of an omitted delta from
the nearest retained points before and after it in cyclic contour order. -/

open FontVerif.Iup in
/-- **`iup_contour_optimize` is sound.**  For every contour (any length, any integer coordinates
and deltas, any tolerance) and whatever set `enc` of deltas the optimiser decides to keep
(all-equal shortcut, rotated DP branch or doubled-contour branch): applying the specification's
inference to the kept deltas gives back every kept delta exactly and every omitted delta within
the tolerance, `(dx - ix)² + (dy - iy)² ≤ tolerance²` over ℚ. -/
theorem iup_optimize_sound (t : Tol) (ds cs : List Pt) (enc : List Bool)
    (hlen : cs.length = ds.length) (ht : 0 < t.d) (h : contourEncode t ds cs = some enc) :
    enc.length = ds.length ∧ ∀ k, k < ds.length →
      let inf := inferSpec cs ds enc k
      0 < inf.1.2 ∧ 0 < inf.2.2 ∧
      (enc.getD k false = true →
        ((inf.1.1 : ℚ) / inf.1.2 = (getP ds k).1 ∧ (inf.2.1 : ℚ) / inf.2.2 = (getP ds k).2)) ∧
      (enc.getD k false = false →
        (((getP ds k).1 : ℚ) - inf.1.1 / inf.1.2) ^ 2 + (((getP ds k).2 : ℚ) - inf.2.1 / inf.2.2) ^ 2
          ≤ ((t.n : ℚ) / t.d) ^ 2) := by
  obtain ⟨hl, hs⟩ := contourEncode_sound t ds cs enc hlen h
  refine ⟨hl, fun k hk => ?_⟩
  intro inf
  have hpos := inferSpec_den_pos cs ds enc k
  refine ⟨hpos.1, hpos.2, fun hreq => ?_, fun hopt => ?_⟩
  · simp only [inf, inferSpec, hreq, if_true]
    simp
  · exact (withinTol_iff_rat t (getP ds k) _ _ hpos.1 hpos.2 ht).mp (hs k hk hopt)

open FontVerif.Iup in
/-- **`iup_delta_optimize` is sound for the whole glyph.**  If the optimiser returns `Ok(l)`, then
for every slice it cuts the glyph into (between consecutive sorted contour ends; each of the four
phantom points is its own slice) the flags in `l` are a kept-set for which the specification's
inference reproduces every omitted delta of that slice within the tolerance, and the values in `l`
are the slice's deltas (`ot_round`ed).  `GlyphSound` (Lemmas/Iup.lean) spells this out slice by
slice; `Sound` is the per-contour statement of `iup_optimize_sound_int`. -/
theorem iup_delta_optimize_sound (t : Tol) (ds cs : List Pt) (ends : List Nat)
    (l : List (Int × Int × Bool)) (h : deltaOptimize t ds cs ends = .ok l) :
    cs.length = ds.length ∧ 4 ≤ ds.length ∧
    GlyphSound t ds cs (sortNat ends ++ [cs.length - 4, cs.length - 3, cs.length - 2, cs.length - 1]) 0 l :=
  deltaOptimize_sound t ds cs ends l h

open FontVerif.Iup in
/-- the same statement in the integer form the model computes (no division) -/
theorem iup_optimize_sound_int (t : Tol) (ds cs : List Pt) (enc : List Bool)
    (hlen : cs.length = ds.length) (h : contourEncode t ds cs = some enc) :
    enc.length = ds.length ∧ ∀ k, k < ds.length → enc.getD k false = false →
      withinTol t (getP ds k) (inferSpec cs ds enc k).1 (inferSpec cs ds enc k).2 = true :=
  contourEncode_sound t ds cs enc hlen h

open FontVerif.Iup in
/-- building block: a `true` answer of `can_iup_in_between(from, to)` means every point strictly
between is reproduced within tolerance by interpolating between `from` and `to`
(`from = -1` is the last point of the slice). -/
theorem can_iup_in_between_sound (t : Tol) (ds cs : List Pt) (j i : Nat) :
    (canIup t ds cs (j : Int) i = true → ∀ k, j < k → k < i → okAt t ds cs j i k = true) ∧
    (canIup t ds cs (-1) i = true → ∀ k, k < i → okAt t ds cs (ds.length - 1) i k = true) :=
  ⟨fun h k h1 h2 => canIup_some t ds cs j i h k h1 h2, fun h k h2 => canIup_neg t ds cs i h k h2⟩

open FontVerif.Iup in
/-- building block: every `chain` entry the dynamic program produces is either the previous
index or a pair for which `can_iup_in_between` answered `true`. -/
theorem dp_chain_checked (t : Tol) (ds cs : List Pt) (must : List Bool) (lb : Nat) :
    ∀ i, i < (contourDp t ds cs must lb).2.length →
      match (contourDp t ds cs must lb).2.getD i none with
      | some j => j + 1 = i ∨ (j + 2 ≤ i ∧ canIup t ds cs (j : Int) i = true)
      | none => i = 0 ∨ canIup t ds cs (-1) i = true := by
  intro i hi
  have := contourDp_ok t ds cs must lb i hi
  cases hc : (contourDp t ds cs must lb).2.getD i none <;> rw [hc] at this <;> exact this

open FontVerif.Iup in
/-- **reader inference = writer inference.**  The FreeType-style interpolation of the reader
(skrifa `Jiggler::interpolate`: swap so that `in1 ≤ in2`, `scale = (out2 - out1) / (in2 - in1)`,
`out1 + (c - in1) * scale`, "same coordinate, different delta ⇒ untouched"), evaluated in exact
arithmetic, infers for every point the same delta as the writer's `iup_segment`, on all integer
inputs: same denominator, same numerator.  (The reader's 16.16 rounding of `scale` is NOT
modelled here; the harness bounds it on the real code.) -/
theorem reader_infer_eq_writer_segment (in1 d1 in2 d2 c : Int) :
    readerAxis in1 d1 in2 d2 c = iupAxis in1 d1 in2 d2 c := by
  obtain ⟨h1, h2, h3⟩ := reader_eq_writer_axis in1 d1 in2 d2 c
  rw [h2] at h1
  have : (readerAxis in1 d1 in2 d2 c).1 = (iupAxis in1 d1 in2 d2 c).1 :=
    Int.eq_of_mul_eq_mul_right (by omega) h1
  exact Prod.ext this h2

open FontVerif.Iup in
/-- **The reader's loops pick the specification's references** (skrifa `interpolate_deltas`: first
explicit point, forward walk, single-delta `shift`, wrap-around to the head and tail of the
contour).  For a contour occupying points `0 ..= n-1` and any set `has` of explicit deltas: no
`Jiggler` call is made when there is no explicit delta; otherwise every point without an explicit
delta is written by some call, and EVERY call that writes a point `k` uses as references exactly the
nearest explicit points before and after `k` in cyclic order. -/
theorem reader_loops_pick_spec_references (has : List Bool) (n np : Nat) (hn : 0 < n) (hnp : n ≤ np) :
    ∃ calls p', readerContourCalls has np 0 (n - 1) = some (calls, p') ∧
      ((∀ j, j < n → has.getD j false = false) → calls = []) ∧
      (∀ c ∈ calls, ∀ k, k < n → covers c k = true →
        has.getD k false = false ∧ prevReq has n k = some c.r1 ∧ nextReq has n k = some c.r2) ∧
      (∀ k, k < n → has.getD k false = false → (∃ j, j < n ∧ has.getD j false = true) →
        ∃ c ∈ calls, covers c k = true) := by
  obtain ⟨calls, p', e, hA, hB, hC⟩ := readerContourCalls_spec has n np hn hnp
  exact ⟨calls, p', e, hA, fun c hc k hk hcov => by
    obtain ⟨g1, g2, g3, _⟩ := hB c hc k hk hcov
    exact ⟨g1, g2, g3⟩, hC⟩

open FontVerif.Iup in
/-- **reader = specification** for one contour: the loop-faithful reader model with exact
per-point arithmetic assigns every point exactly the specification's inferred delta.  (The real
reader's 16.16 arithmetic is the separate model `readerInterpolate`, tied bit-exactly to skrifa by
the harness; its deviation from the exact value is bounded by an oracle, not by a theorem.) -/
theorem reader_contour_eq_spec (cs ds : List Pt) (has : List Bool) (np : Nat) (hn : 0 < ds.length)
    (hnp : ds.length ≤ np) :
    ∃ calls p', readerContourCalls has np 0 (ds.length - 1) = some (calls, p') ∧
      ∀ k, k < ds.length → readerExactAt cs ds has calls k = inferSpec cs ds has k := by
  obtain ⟨calls, p', e, _⟩ := readerContourCalls_spec has ds.length np hn hnp
  exact ⟨calls, p', e, fun k hk => readerExact_eq_spec cs ds has np hn hnp calls p' e k hk⟩

open FontVerif.Iup in
/-- **writer → reader round trip, one contour.**  Whatever deltas `iup_contour_optimize` keeps, the
reader (loop-faithful model, exact arithmetic) gives back every kept delta exactly and every
dropped delta within the tolerance. -/
theorem iup_writer_reader_roundtrip (t : Tol) (ds cs : List Pt) (enc : List Bool) (np : Nat)
    (hlen : cs.length = ds.length) (ht : 0 < t.d) (hn : 0 < ds.length) (hnp : ds.length ≤ np)
    (h : contourEncode t ds cs = some enc) :
    ∃ calls p', readerContourCalls enc np 0 (ds.length - 1) = some (calls, p') ∧
      ∀ k, k < ds.length →
        let r := readerExactAt cs ds enc calls k
        0 < r.1.2 ∧ 0 < r.2.2 ∧
        (enc.getD k false = true →
          ((r.1.1 : ℚ) / r.1.2 = (getP ds k).1 ∧ (r.2.1 : ℚ) / r.2.2 = (getP ds k).2)) ∧
        (enc.getD k false = false →
          (((getP ds k).1 : ℚ) - r.1.1 / r.1.2) ^ 2 + (((getP ds k).2 : ℚ) - r.2.1 / r.2.2) ^ 2
            ≤ ((t.n : ℚ) / t.d) ^ 2) := by
  obtain ⟨calls, p', e, heq⟩ := reader_contour_eq_spec cs ds enc np hn hnp
  refine ⟨calls, p', e, fun k hk => ?_⟩
  have := (iup_optimize_sound t ds cs enc hlen ht h).2 k hk
  rw [heq k hk]
  exact this

-- non-vacuity: the optimiser does drop deltas (rotated branch, then doubled branch)
open FontVerif.Iup in
example : contourEncode ⟨1, 2⟩ [(0,0),(1,0),(2,0),(0,0)] [(0,0),(10,0),(20,0),(20,10)]
    = some [true, false, true, true] := by decide
open FontVerif.Iup in
example : contourEncode ⟨1, 2⟩ [(0,0),(1,1),(2,2),(3,3),(4,4),(5,5),(6,6),(7,7)]
    [(0,0),(10,10),(20,20),(30,30),(40,40),(50,50),(60,60),(70,70)]
    = some [true, false, false, false, false, false, false, true] := by decide +kernel
-- the reader's calls for that kept set: interpolate point 1 between 0 and 2, nothing to wrap
open FontVerif.Iup in
example : readerContourCalls [true, false, true, true] 4 0 3
    = some ([⟨1, 1, 0, 2, false⟩, ⟨3, 2, 2, 3, false⟩, ⟨4, 3, 3, 0, false⟩], 4) := by decide
-- and inference really interpolates: point 1 of the first example gets 1/1 from its neighbours
open FontVerif.Iup in
example : inferSpec [(0,0),(10,0),(20,0),(20,10)] [(0,0),(1,0),(2,0),(0,0)] [true, false, true, true] 1
    = ((20, 20), (0, 1)) := by decide

/-! ### gvar: glyph `i`'s offsets resolve to glyph `i`'s data, short and long offsets -/

open FontVerif.GvarLayout in
/-- For every list of per-glyph variation data (any sizes, empty = glyph without variations) and
both offset formats: in the table `hdr ++ data` that write-fonts lays out (`hdr` = the 20-byte
header plus the offsets array, whose length is `compute_data_array_offset`; the data with
`pad_to_2byte_aligned` after each glyph when offsets are short), read-fonts' `data_for_gid(i)`
with the stored offsets array returns exactly glyph `i`'s bytes (followed by the one padding byte
when offsets are short and the length is odd), and `None` for a glyph without variations. -/
theorem gvar_offsets_resolve (blobs : List (List Nat)) (long : Bool) (hdr : List Nat)
    (hhdr : hdr.length = dataArrayOffset long blobs.length)
    (hsz : (hdr ++ writeData long hdr.length blobs).length < 4294967296)
    (i : Nat) (hi : i < blobs.length) :
    dataForGid (hdr ++ writeData long hdr.length blobs) long (dataArrayOffset long blobs.length)
        (storedOffsets long blobs) i
      = some (if (blobs.getD i []).isEmpty then none
              else some (blobs.getD i [] ++
                (if !long ∧ (blobs.getD i []).length % 2 = 1 then [0] else []))) := by
  have h := resolve_aux long (dataArrayOffset long blobs.length) blobs 0 hdr i
    (by simp [readOffset, hhdr])
    (by intro hl; subst hl; rw [hhdr]; simp [dataArrayOffset]) hsz hi
  exact h

open FontVerif.GvarLayout in
/-- When `compute_flags` chooses short offsets, every stored offset fits the u16 it is written
to (so `last += short_size as u16` neither truncates nor overflows). -/
theorem gvar_short_offsets_fit (blobs : List (List Nat)) (h : useLong blobs = false) :
    ∀ o ∈ storedOffsets false blobs, o ≤ 65535 := by
  intro o ho
  have h1 := offsetsFrom_le 0 blobs 0 o ho
  have h2 := sum_short blobs
  unfold useLong at h
  simp only [decide_eq_false_iff_not] at h
  omega

-- non-vacuity: odd-sized glyph data gets a padding byte with short offsets, none with long
open FontVerif.GvarLayout in
example : storedOffsets false [[1, 2, 3], [], [4, 5]] = [0, 2, 2, 3] ∧
    writeData false 28 [[1, 2, 3], [], [4, 5]] = [1, 2, 3, 0, 4, 5] ∧
    storedOffsets true [[1, 2, 3], [], [4, 5]] = [0, 3, 3, 5] ∧
    writeData true 36 [[1, 2, 3], [], [4, 5]] = [1, 2, 3, 4, 5] := by decide

end FontVerif.C10
