/-
C01 (hand-written iterators) — the iterators of read-fonts that walk font-controlled counts
terminate, with explicit bounds on the number of loop trips and of yielded items, and never hit an
arithmetic trap.  Model: Model/ReadIter.lean ⇄ read-fonts/src/tables/{cmap,variations}.rs,
array.rs, read.rs; generic machinery (`run_complete`, `yields_le`, `not_trapped`): Lemmas/ReadIter.lean.

Every theorem is of the form "for every input, the model's fuel-driven run returns `some evs`
(the fuel always suffices = the loop terminates), `evs.length ≤ bound` (trips round the loop),
`trapped evs = false`".  The correspondence harness compares `evs` (items and trip counts) with the
real iterators.

-/
import FontVerif.Lemmas.ReadIterBounds
set_option linter.unusedVariables false
set_option linter.unusedSimpArgs false
namespace FontVerif.C01Iter
open FontVerif FontVerif.ReadIter

/-! ## cmap format 4 -/

/-- **`Cmap4Iter` terminates, never traps, and is bounded**: for every format-4 subtable (arrays of
any lengths holding 16-bit values) `cmap4.iter()` finishes after at most `65536 + segCount` trips
round the loop of `next` — the fuel `Cmap4.fuel` of the model always suffices —, never reaches the
`codepoint - start_code` underflow of `lookup_glyph_id`, and yields at most 65536 pairs.  The clamp
`next.start.max(cur.end)` is what makes this true. -/
theorem cmap4_iter_bounded (t : Cmap4) (hwf : t.wf = true) :
    ∃ evs, t.trace = some evs ∧ evs.length ≤ 65536 + t.segCount ∧ trapped evs = false ∧
      (items evs).length ≤ 65536 := by
  have hI : ∀ s, Inv4 s → Inv4 (t.step s).2 := fun s hi => (step4_facts t hwf s hi).1
  obtain ⟨evs, he, hl⟩ := run_complete t.step (mu4 t) Inv4 hI
    (fun s hi => (step4_facts t hwf s hi).2.2.1) t.fuel t.init (inv4_init t hwf)
    (by have := mu4_init t hwf; unfold Cmap4.fuel; omega)
  refine ⟨evs, he, by have := mu4_init t hwf; omega, ?_, ?_⟩
  · exact not_trapped t.step Inv4 hI (fun s hi => (step4_facts t hwf s hi).2.1) _ _ _ (inv4_init t hwf) he
  · have := yields_le t.step nu4 Inv4 hI (fun s a hi => (step4_facts t hwf s hi).2.2.2.1 a)
      (fun s hi => (step4_facts t hwf s hi).2.2.2.2) _ _ _ (inv4_init t hwf) he
    have h2 := inv4_init t hwf
    unfold Inv4 at h2
    unfold nu4 at this
    omega

/-! ## cmap format 12 / 13 -/

/-- **`Cmap12Iter` terminates and is bounded** (with or without `Cmap12IterLimits`): for every list
of groups the iterator finishes after at most `Σ len + #groups` trips round the loop of `next`
(`fuel12` always suffices) and yields at most `Σ len` pairs, where `len` is the length of a group's
codepoint range after the limits were applied (`groupEnd`) — the clamp of an overlapping group's
start to the previous group's end can only shorten a range. -/
theorem cmap12_iter_bounded (gs : List Group) (lim : Option Limits) :
    ∃ evs, trace12 gs lim = some evs ∧ evs.length ≤ groupLenSum gs lim + gs.length ∧
      trapped evs = false ∧ (items evs).length ≤ groupLenSum gs lim := by
  have h0 := init12_nu gs lim
  have hmu : mu12 gs lim (init12 gs lim) ≤ groupLenSum gs lim + gs.length := by
    unfold mu12; simp only [init12] at h0 ⊢; omega
  obtain ⟨evs, he, hl⟩ := run_complete (step12 gs lim) (mu12 gs lim) (fun _ => True) (fun _ _ => trivial)
    (fun s _ => (step12_facts gs lim s).2.1) (fuel12 gs lim) (init12 gs lim) trivial
    (by unfold fuel12; omega)
  refine ⟨evs, he, by omega, ?_, ?_⟩
  · exact not_trapped (step12 gs lim) (fun _ => True) (fun _ _ => trivial)
      (fun s _ => (step12_facts gs lim s).1) _ _ _ trivial he
  · have := yields_le (step12 gs lim) (nu12 gs lim) (fun _ => True) (fun _ _ => trivial)
      (fun s a _ => (step12_facts gs lim s).2.2.1 a) (fun s _ => (step12_facts gs lim s).2.2.2) _ _ _ trivial he
    omega

/-- with limits every group is cut to at most `min(max_char + 1, glyph_count)` codepoints -/
theorem groupEnd_limited (g : Group) (l : Limits) :
    groupEnd g (some l) - g.startChar ≤ min (l.maxChar + 1) l.glyphCount := by
  unfold groupEnd
  simp only []
  omega

/-! ## VarLenArray / ComputedArray -/

/-- **`VarLenArray::iter` terminates within `len` items**: every call of the closure either stops or
consumes at least one byte of the remaining data, so the iterator makes at most `data.len()` trips
(and the model's fuel `len + 1` always suffices) — the "time proportional to the input" clause for
variable-length arrays. -/
theorem varlen_iter_bounded (k : VarKind) (hk : VarKind.ok k) (d : List Nat) :
    ∃ evs, varIterTrace k d = some evs ∧ evs.length ≤ d.length ∧ trapped evs = false := by
  have hdec : ∀ s : List Nat, True → (varIterStep k s).1 ≠ .done → (varIterStep k s).2.length < s.length := by
    intro s _ hnd
    unfold varIterStep at hnd ⊢
    by_cases he : s.isEmpty = true
    · simp [he] at hnd
    · simp only [he] at hnd ⊢
      have hne : s ≠ [] := by intro h; subst h; simp at he
      cases hl : readLenAt k s 0 with
      | none => simp [hl] at hnd
      | some l =>
        simp only [hl] at hnd ⊢
        have := readLenAt_pos hk hne hl
        by_cases hle : l ≤ s.length
        · simp only [hle, if_true, Bool.false_eq_true, if_false, List.length_drop]
          have : 0 < s.length := List.length_pos_iff.mpr hne
          omega
        · simp [hle] at hnd
  have hnt : ∀ s : List Nat, True → (varIterStep k s).1 ≠ .trap := by
    intro s _
    unfold varIterStep
    split
    · simp
    · split
      · simp
      · split <;> simp
  obtain ⟨evs, he, hl⟩ := run_complete (varIterStep k) List.length (fun _ => True) (fun _ _ => trivial)
    hdec (d.length + 1) d trivial (by omega)
  exact ⟨evs, he, hl, not_trapped (varIterStep k) (fun _ => True) (fun _ _ => trivial) hnt _ _ _ trivial he⟩

/-- **`ComputedArray::iter` terminates after `len` items**, `len = data.len() / item_len` (0 for a
zero item length, `checked_div`). -/
theorem computed_iter_bounded (dataLen itemLen : Nat) :
    ∃ evs, run (computedIterStep dataLen itemLen) (computedLen dataLen itemLen + 1) 0 = some evs ∧
      evs.length ≤ computedLen dataLen itemLen ∧ computedLen dataLen itemLen ≤ dataLen ∧ trapped evs = false := by
  let L := computedLen dataLen itemLen
  have hInv : ∀ s, s ≤ L → (computedIterStep dataLen itemLen s).2 ≤ L := by
    intro s hs
    unfold computedIterStep
    by_cases h : s = computedLen dataLen itemLen
    · simp only [h, if_true]; exact Nat.le_refl _
    · simp only [h, if_false]
      have : s < L := Nat.lt_of_le_of_ne hs h
      split <;> simp only [] <;> omega
  have hdec : ∀ s, s ≤ L → (computedIterStep dataLen itemLen s).1 ≠ .done →
      L - (computedIterStep dataLen itemLen s).2 < L - s := by
    intro s hs hnd
    unfold computedIterStep at hnd ⊢
    by_cases h : s = computedLen dataLen itemLen
    · simp [h] at hnd
    · simp only [h, if_false] at hnd ⊢
      have : s < L := Nat.lt_of_le_of_ne hs h
      split <;> simp only [] <;> omega
  have hnt : ∀ s, s ≤ L → (computedIterStep dataLen itemLen s).1 ≠ .trap := by
    intro s _
    unfold computedIterStep
    split
    · simp
    · split <;> simp
  obtain ⟨evs, he, hl⟩ := run_complete (computedIterStep dataLen itemLen) (fun s => L - s) (fun s => s ≤ L)
    hInv hdec (L + 1) 0 (Nat.zero_le _) (by omega)
  refine ⟨evs, he, by simpa using hl, ?_, not_trapped _ (fun s => s ≤ L) hInv hnt _ _ _ (Nat.zero_le _) he⟩
  unfold computedLen
  split
  · omega
  · exact Nat.div_le_self _ _

/-! ## packed point numbers and packed deltas -/

/-- **`PackedPointNumbers::total_len` terminates without trapping**: the `while n_seen < n_points`
loop runs at most `n_points ≤ 32767` times and the `u16` addition `n_seen += count` cannot overflow
(`n_seen < 32767`, `count ≤ 128`). -/
theorem packedPoints_totalLen_total (d : List Nat) : ∃ r, totalLen d = some r := by
  unfold totalLen
  simp only []
  split
  · exact ⟨_, rfl⟩
  · exact totalLenLoop_some d _ (count_le d) _ _ _ _ (by omega)

/-- **`PackedPointNumbersIter` terminates, never traps, and yields at most 65535 numbers** (at
most `count ≤ 32767` when the count is explicit; the "all points" form counts up to `u16::MAX` and
stops at the `checked_add`). -/
theorem packedPoints_iter_bounded (d : List Nat) :
    ∃ evs, ptTrace d = some evs ∧ evs.length ≤ 65535 ∧ trapped evs = false := by
  have h0 : (ptInit d).seen ≤ (ptInit d).count := by simp [ptInit]
  have hmu : muPt (ptInit d) ≤ 65535 := by
    have := count_le d
    simp only [muPt, ptInit]
    by_cases h : (countAndCountBytes d).fst = 0 <;> simp [h] <;> omega
  obtain ⟨evs, he, hl⟩ := run_complete (ptNext d) muPt (fun s => s.seen ≤ s.count)
    (fun s hi => (ptNext_facts d s hi).1) (fun s hi => (ptNext_facts d s hi).2.2.2) ptFuel (ptInit d) h0
    (by unfold ptFuel; omega)
  exact ⟨evs, he, by omega, not_trapped (ptNext d) (fun s => s.seen ≤ s.count)
    (fun s hi => (ptNext_facts d s hi).1) (fun s hi => (ptNext_facts d s hi).2.2.1) _ _ _ h0 he⟩

/-! packed deltas -/

/-- **`count_all_deltas` terminates** (one control byte per trip, the offset strictly increases) and
counts at most 64 deltas per byte of data. -/
theorem countAllDeltas_total (d : List Nat) : ∃ r, countAllDeltas d = some r ∧ r ≤ 64 * d.length := by
  obtain ⟨r, hr, hb⟩ := countAllLoop_some d (d.length + 1) 0 0 (by omega)
  exact ⟨r, hr, by omega⟩

/-- **`PackedDeltas::consume_all(data).iter()` terminates within `count_all_deltas(data)` items**,
which is at most 64 per byte: the `DeltaRunIter` limit strictly decreases on every call of `next`
that returns `Some`. -/
theorem packedDeltas_iter_bounded (d : List Nat) :
    ∃ evs, consumeAllIter d = some evs ∧ evs.length ≤ 64 * d.length ∧ trapped evs = false := by
  obtain ⟨c, hc, hb⟩ := countAllDeltas_total d
  unfold consumeAllIter
  rw [hc]
  simp only []
  have h0 : (dlInit (some c)).limit.isSome := by simp [dlInit]
  obtain ⟨evs, he, hl⟩ := run_complete (dlNext d) muDl (fun s => s.limit.isSome)
    (fun s hi => (dlNext_facts d s hi).1) (fun s hi => (dlNext_facts d s hi).2.2) (dlFuel d) (dlInit (some c)) h0
    (by simp [muDl, dlInit, dlFuel]; omega)
  refine ⟨evs, he, ?_, not_trapped (dlNext d) (fun s => s.limit.isSome)
    (fun s hi => (dlNext_facts d s hi).1) (fun s hi => (dlNext_facts d s hi).2.1) _ _ _ h0 he⟩
  simp [muDl, dlInit] at hl
  omega

/-! ## skip_fast -/

/-- **`DeltaRunIter::skip_fast` terminates**: every trip round its loop reads one control byte at a
strictly larger cursor position, so `len + 2` trips always suffice. -/
theorem skipFast_total (d : List Nat) (n : Nat) (s : DlSt) : ∃ r, skipFast d n s = some r :=
  skipFastLoop_some d n _ _ s (by omega)

/-! ## tuple variation deltas -/

/-- **`TupleVariation::deltas()` (`TupleDeltaIter`, gvar and cvar) terminates without trapping** on
every serialized tuple (private packed points followed by packed deltas, arbitrary bytes): the
set-up (`total_len`, `count_all_deltas`, `skip_fast`) completes, and the `loop` of `next` makes at
most `128·len + 131204` trips — every trip either consumes a point number (≤ 65535 of them), or
advances `cur` towards the next point (`≤ u16::MAX`), or consumes a delta (≤ 64 per byte). -/
theorem tupleDeltas_iter_bounded (ser : List Nat) (isPoint : Bool) :
    ∃ evs, tdTrace ser isPoint = some evs ∧ evs.length ≤ 128 * ser.length + 131204 ∧ trapped evs = false := by
  obtain ⟨dd, s0, hinit, hinv, hmu⟩ := tdInit_some ser isPoint
  have hdd : dd.length ≤ ser.length := by
    unfold tdInit at hinit
    split at hinit
    · cases hinit
    · rename_i tl _
      simp only [] at hinit
      split at hinit
      · cases hinit
      · split at hinit
        · split at hinit
          · cases hinit
          · simp at hinit; rw [← hinit.1]; simp
        · simp at hinit; rw [← hinit.1]; simp
  unfold tdTrace
  rw [hinit]
  simp only []
  obtain ⟨evs, he, hl⟩ := run_complete (tdStep ser dd) muTd TdInv
    (fun s hi => (tdStep_facts ser dd s hi).1) (fun s hi => (tdStep_facts ser dd s hi).2.2) (tdFuel dd) s0 hinv hmu
  refine ⟨evs, he, ?_, not_trapped (tdStep ser dd) TdInv (fun s hi => (tdStep_facts ser dd s hi).1)
    (fun s hi => (tdStep_facts ser dd s hi).2.1) _ _ _ hinv he⟩
  unfold tdFuel at hmu
  omega

/-! ## non-vacuity -/

/-- two overlapping segments `[10,20]`, `[15,30]` (delta 1): the clamp makes the iterator yield each
of the 21 codepoints once -/
def exCmap4 : Cmap4 :=
  { endCode := [20, 30, 65535], startCode := [10, 15, 65535], idDelta := [1, 1, 1],
    idRangeOffset := [0, 0, 0], glyphIdArray := [] }

example : exCmap4.wf = true := by decide

example : exCmap4.iter.length = 22 := by decide +kernel

example : exCmap4.iter.head? = some (10, 11) := by decide +kernel

example : iter12 [⟨5, 9, 100⟩, ⟨7, 12, 200⟩] none = [(5, 100), (6, 101), (7, 102), (8, 103), (9, 104),
    (10, 203), (11, 204), (12, 205)] := by decide +kernel

example : groupLenSum [⟨5, 9, 100⟩, ⟨7, 12, 200⟩] none = 11 := by decide

example : VarKind.ok (.plain 1) := by simp [VarKind.ok]

example : (varIterTrace (.plain 1) [2, 65, 66, 0, 1, 67]).map (·.length) = some 3 := by decide +kernel

example : (ptTrace [3, 2, 1, 2, 3]).map items = some [1, 3, 6] := by decide +kernel

example : countAllDeltas [0x03, 1, 2, 3, 4, 0x81] = some 6 := by decide +kernel
/-- two private points (1, 3) with x/y deltas: the gvar iterator yields both -/
example : (tdTrace [2, 1, 1, 2, 0x03, 10, 20, 30, 40] true).map items = some [(1, 10, 30), (3, 20, 40)] := by
  decide +kernel

end FontVerif.C01Iter
